(* C09: documented step state transitions (transitions_documented, step rows).  For every operation
   of the alphabet with trees, a step row that exists before and after the transaction either keeps
   its state, is made PENDING from SUCCEEDED / FAILED by the state propagation, or is the subject of
   the operation and gets the state the operation assigns (step_move_b).  Forward frame FQ R ("every
   row persists and moves along R") for the operations that delete no row, a backward frame for
   delete_detached.  No invariant is needed except for reset_interrupted (labels are unique). *)
From Coq Require Import List NArith Bool Lia.
From SV Require Import lib.Bytes lib.Closure model.Graph model.GraphInv model.GraphTree model.GraphTreeInv
  proofs.GraphBase proofs.GraphNodes proofs.GraphInvP proofs.GraphPrims proofs.GraphFrames proofs.GraphCreate
  proofs.GraphOps proofs.GraphTrans proofs.GraphTreeSim proofs.GraphNodeFrame.
Import ListNotations.
Open Scope N_scope.

Definition srel := str -> sstate -> sstate -> Prop.
Definition FQ (R : srel) (s s' : st) : Prop :=
  forall l a, sstate_of l s = Some a -> exists b, sstate_of l s' = Some b /\ R l a b.
Definition rrefl (R : srel) : Prop := forall l a, R l a a.
Definition rtrans (R : srel) : Prop := forall l a b c, R l a b -> R l b c -> R l a c.
Definition rincl (R R' : srel) : Prop := forall l a b, R l a b -> R' l a b.

Definition pm (a b : sstate) : Prop := a = b \/ (b = SPending /\ (a = SSucceeded \/ a = SFailed)).
Definition Rid : srel := fun _ a b => a = b.
Definition Rpm : srel := fun _ a b => pm a b.
Definition Rsub (l0 : str) (B : sstate -> Prop) : srel := fun l a b => pm a b \/ (l = l0 /\ B b).

Lemma pm_refl a : pm a a.
Proof. left. reflexivity. Qed.
Lemma pm_trans a b c : pm a b -> pm b c -> pm a c.
Proof.
  unfold pm. intros [->|[-> H1]] H2; [exact H2|].
  destruct H2 as [<-|[_ H2]]; [right; auto | destruct H2; discriminate].
Qed.
Lemma Rpm_refl : rrefl Rpm.
Proof. intros l a. apply pm_refl. Qed.
Lemma Rpm_trans : rtrans Rpm.
Proof. intros l a b c. apply pm_trans. Qed.
Lemma Rid_Rpm : rincl Rid Rpm.
Proof. intros l a b ->. apply pm_refl. Qed.
Lemma Rsub_refl l0 B : rrefl (Rsub l0 B).
Proof. intros l a. left. apply pm_refl. Qed.
Lemma Rsub_trans l0 (B : sstate -> Prop) : B SPending -> rtrans (Rsub l0 B).
Proof.
  intros HB l a b c [H1|[E1 H1]] [H2|[E2 H2]]; try (right; split; assumption).
  - left. eapply pm_trans; eassumption.
  - destruct H2 as [->|[-> _]]; right; split; assumption.
Qed.
Lemma Rpm_Rsub l0 B : rincl Rpm (Rsub l0 B).
Proof. intros l a b H. left. exact H. Qed.
Lemma Rid_Rsub l0 B : rincl Rid (Rsub l0 B).
Proof. intros l a b ->. left. apply pm_refl. Qed.

Lemma FQ_refl R s : rrefl R -> FQ R s s.
Proof. intros HR l a H. exists a. split; [exact H | apply HR]. Qed.
Lemma FQ_trans R s1 s2 s3 : rtrans R -> FQ R s1 s2 -> FQ R s2 s3 -> FQ R s1 s3.
Proof.
  intros HR A B l a H. destruct (A l a H) as [b [Hb Rab]]. destruct (B l b Hb) as [c [Hc Rbc]].
  exists c. split; [exact Hc | eapply HR; eassumption].
Qed.
Lemma FQ_weaken R R' s s' : rincl R R' -> FQ R s s' -> FQ R' s s'.
Proof. intros Hi A l a H. destruct (A l a H) as [b [Hb Rab]]. exists b. split; [exact Hb | apply Hi; exact Rab]. Qed.
Lemma FQ_steps s s' : steps s' = steps s -> FQ Rid s s'.
Proof. intros E l a H. exists a. split; [|reflexivity]. unfold sstate_of, find_step in *. rewrite E. exact H. Qed.

Lemma wpg_FQ_steps (r : res st) s : wpg false r (fun s' => steps s' = steps s) -> wpg false r (FQ Rid s).
Proof. intros H. eapply wpg_weaken; [exact H|]. intros s' E. apply FQ_steps. exact E. Qed.

Lemma wpg_FQ_weaken R R' (r : res st) s : rincl R R' -> wpg false r (FQ R s) -> wpg false r (FQ R' s).
Proof. intros Hi H. eapply wpg_weaken; [exact H|]. intros s' A. eapply FQ_weaken; eassumption. Qed.

Lemma wpg_FQ_bind R (r : res st) (f : st -> res st) s :
  rtrans R -> wpg false r (FQ R s) -> (forall s1, wpg false (f s1) (FQ R s1)) -> wpg false (bind r f) (FQ R s).
Proof.
  intros HR H1 H2. apply wpg_bind. eapply wpg_weaken; [exact H1|]. intros s1 N1.
  eapply wpg_weaken; [apply H2|]. intros s2 N2. eapply FQ_trans; eassumption.
Qed.

Lemma foldM_FQ {A} R (f : st -> A -> res st) (l : list A) s :
  rrefl R -> rtrans R -> (forall s a, wpg false (f s a) (FQ R s)) -> wpg false (foldM f l s) (FQ R s).
Proof.
  intros Hr Ht Hf. apply (wpg_foldM false f (FQ R s)); [|apply FQ_refl; exact Hr].
  intros s1 a _ H1. eapply wpg_weaken; [apply Hf|]. intros s2 H2. eapply FQ_trans; eassumption.
Qed.

(* ------------------------------------------------------------------------------------------ *)
(* primitives                                                                                  *)
(* ------------------------------------------------------------------------------------------ *)
Lemma set_sstate_FQ l new d s : wpg false (set_sstate l new d s) (FQ (Rsub l (eq new)) s).
Proof.
  unfold set_sstate. destruct (find_step l s) as [r|] eqn:Hf; [|cbn; apply FQ_refl; apply Rsub_refl].
  destruct (d && negb (sstate_eqb new SPending)); [exact I|]. cbn [wpg].
  intros x a Hx. rewrite sstate_of_upd_step; [|reflexivity]. destruct (str_eqb x l) eqn:E.
  - apply str_eqb_eq in E. subst x. rewrite Hf. cbn. exists new. split; [reflexivity|]. right. auto.
  - exists a. split; [exact Hx | left; apply pm_refl].
Qed.

Lemma set_fstate_hash_steps l new newh s s' : set_fstate_hash l new newh s = Ok s' -> steps s' = steps s.
Proof.
  unfold set_fstate_hash. destruct (find_file l s); [|intros H; inversion H; reflexivity].
  destruct (needs_hash new && _); [discriminate|]. destruct (fstate_eqb new FUndeclared && _); [discriminate|].
  intros H; inversion H. reflexivity.
Qed.

Lemma node_detach_steps k s s' : node_detach k s = Ok s' -> steps s' = steps s.
Proof.
  unfold node_detach. destruct (find_node k s) as [n|]; [|discriminate].
  destruct (ncre n); [|intros H; inversion H; reflexivity]. intros H; inversion H. destruct (ndet n); reflexivity.
Qed.

Lemma after_lost_product_steps oc s s' : after_lost_product oc s = Ok s' -> steps s' = steps s.
Proof. unfold after_lost_product. destruct (fst oc); try discriminate; intros H; inversion H; reflexivity. Qed.

Lemma foldM_steps {A} (f : st -> A -> res st) (l : list A) s :
  (forall s a, wpg false (f s a) (fun s' => steps s' = steps s)) ->
  wpg false (foldM f l s) (fun s' => steps s' = steps s).
Proof.
  intros Hf. apply (wpg_foldM false f (fun s' => steps s' = steps s)); [|reflexivity].
  intros s1 a _ H1. eapply wpg_weaken; [apply Hf|]. intros s2 H2. congruence.
Qed.

Lemma mark_FQ fuel :
  (forall l s, wpg false (mark_step_pending_f fuel l s) (FQ Rpm s)) /\
  (forall f s, wpg false (mark_file_outdated_f fuel f s) (FQ Rpm s)).
Proof.
  induction fuel as [|fuel [IHs IHf]]; [split; intros; exact I|]. split.
  - intros l s. cbn [mark_step_pending_f]. destruct (sstate_of l s) as [old|] eqn:Hold; [|exact I].
    assert (Hset : forall s1, set_sstate l SPending false s = Ok s1 ->
               old = SPending \/ old = SSucceeded \/ old = SFailed -> FQ Rpm s s1).
    { intros s1 E Ho. pose proof (ok_of_wpg _ _ _ (set_sstate_FQ l SPending false s) E) as H.
      intros x a Hx. destruct (H x a Hx) as [b [Hb [Hp|[E1 E2]]]]; exists b; (split; [exact Hb|]); [exact Hp|].
      subst x b. rewrite Hold in Hx. inversion Hx; subst a. unfold Rpm, pm.
      destruct Ho as [->|[->| ->]]; [left; reflexivity | right; auto | right; auto]. }
    assert (Hprop : forall s1, wpg false (foldM (fun s f => match fstate_of f s with
                                             | Some FBuilt => mark_file_outdated_f fuel f s
                                             | _ => Ok s end) (file_sinks_of_step l s1) s1) (FQ Rpm s1)).
    { intros s1. apply foldM_FQ; [apply Rpm_refl | apply Rpm_trans|].
      intros s2 f. destruct (fstate_of f s2) as [[]|]; try (cbn; apply FQ_refl; apply Rpm_refl). apply IHf. }
    destruct old; try (cbn; apply FQ_refl; apply Rpm_refl);
      (apply wpg_bind; destruct (set_sstate l SPending false s) as [s1|t|t] eqn:E; try exact I; cbn [wpg]).
    + cbn. apply Hset; auto.
    + eapply wpg_weaken; [apply Hprop|]. intros s2 H2. eapply FQ_trans; [apply Rpm_trans | apply Hset; auto | exact H2].
    + eapply wpg_weaken; [apply Hprop|]. intros s2 H2. eapply FQ_trans; [apply Rpm_trans | apply Hset; auto | exact H2].
  - intros f s. cbn [mark_file_outdated_f].
    destruct (fstate_of f s) as [[]|] eqn:Hfs; try exact I; [|cbn; apply FQ_refl; apply Rpm_refl].
    apply wpg_bind. unfold set_fstate. destruct (set_fstate_hash f FOutdated None s) as [s1|t|t] eqn:E; try exact I.
    cbn. assert (F1 : FQ Rpm s s1).
    { eapply FQ_weaken; [apply Rid_Rpm | apply FQ_steps; eapply set_fstate_hash_steps; exact E]. }
    eapply wpg_weaken.
    + apply foldM_FQ; [apply Rpm_refl | apply Rpm_trans|]. intros s2 l. apply IHs.
    + intros s2 H2. eapply FQ_trans; [apply Rpm_trans | exact F1 | exact H2].
Qed.

Lemma mark_step_pending_FQ l s : wpg false (mark_step_pending l s) (FQ Rpm s).
Proof. apply (proj1 (mark_FQ _)). Qed.
Lemma mark_file_outdated_FQ f s : wpg false (mark_file_outdated f s) (FQ Rpm s).
Proof. apply (proj2 (mark_FQ _)). Qed.
Lemma mark_consumers_pending_FQ f s : wpg false (mark_consumers_pending f s) (FQ Rpm s).
Proof.
  unfold mark_consumers_pending. apply foldM_FQ; [apply Rpm_refl | apply Rpm_trans|]. intros; apply mark_step_pending_FQ.
Qed.

Lemma wpg_Rid_Rpm (r : res st) s : wpg false r (fun s' => steps s' = steps s) -> wpg false r (FQ Rpm s).
Proof. intros H. eapply wpg_FQ_weaken; [apply Rid_Rpm | apply wpg_FQ_steps; exact H]. Qed.

Lemma node_detach_FQ k s : wpg false (node_detach k s) (FQ Rpm s).
Proof. apply wpg_Rid_Rpm. apply wpg_of_ok. intros s' H. eapply node_detach_steps; exact H. Qed.

(* ------------------------------------------------------------------------------------------ *)
(* non-declaring operations                                                                    *)
(* ------------------------------------------------------------------------------------------ *)
Lemma update_file_hashes_FQ c hs s : wpg false (update_file_hashes c hs s) (FQ Rpm s).
Proof.
  unfold update_file_hashes. apply wpg_bind. destruct (foldM _ hs []) as [plan|t|t]; try exact I. cbn [wpg].
  apply wpg_FQ_bind; [apply Rpm_trans| |].
  { apply foldM_FQ; [apply Rpm_refl | apply Rpm_trans|]. intros s0 x. apply wpg_Rid_Rpm. apply wpg_of_ok.
    intros s1 H. eapply set_fstate_hash_steps; exact H. }
  intros s1. cbn zeta. apply wpg_FQ_bind; [apply Rpm_trans| |].
  { apply foldM_FQ; [apply Rpm_refl | apply Rpm_trans|]. intros s0 l. unfold handle_updated_file.
    destruct (fstate_of l s0) as [[]|]; try (cbn; apply FQ_refl; apply Rpm_refl);
      try (destruct (step_creator_of_file l s0); [apply mark_step_pending_FQ | cbn; apply FQ_refl; apply Rpm_refl]).
    apply mark_consumers_pending_FQ. }
  intros s2. apply wpg_FQ_bind; [apply Rpm_trans| |].
  { apply foldM_FQ; [apply Rpm_refl | apply Rpm_trans|]. intros s0 l. unfold handle_deleted_file.
    apply wpg_FQ_bind; [apply Rpm_trans| |intros; apply mark_consumers_pending_FQ].
    destruct (fstate_of l s0) as [[]|]; try (cbn; apply FQ_refl; apply Rpm_refl).
    destruct (step_creator_of_file l s0); [apply mark_step_pending_FQ | cbn; apply FQ_refl; apply Rpm_refl]. }
  intros s3. apply foldM_FQ; [apply Rpm_refl | apply Rpm_trans|]. intros; apply mark_consumers_pending_FQ.
Qed.

Lemma reset_for_rerun_FQ step s : wpg false (reset_for_rerun step s) (FQ Rpm s).
Proof.
  unfold reset_for_rerun.
  set (s2 := set_envs _ _).
  assert (H2 : FQ Rpm s s2) by (eapply FQ_weaken; [apply Rid_Rpm | apply FQ_steps; reflexivity]).
  eapply wpg_weaken.
  2:{ intros s' H. eapply FQ_trans; [apply Rpm_trans | exact H2 | exact H]. }
  apply wpg_FQ_bind; [apply Rpm_trans| |].
  { apply foldM_FQ; [apply Rpm_refl | apply Rpm_trans|]. intros s0 x. eapply wpg_weaken; [apply node_detach_FQ|].
    intros s1 H. eapply FQ_trans; [apply Rpm_trans | | exact H]. eapply FQ_weaken; [apply Rid_Rpm | apply FQ_steps; reflexivity]. }
  intros s3. apply wpg_FQ_bind; [apply Rpm_trans| |].
  { unfold detach_created_steps. apply foldM_FQ; [apply Rpm_refl | apply Rpm_trans|]. intros; apply node_detach_FQ. }
  intros s4. apply wpg_FQ_bind; [apply Rpm_trans| |].
  { apply foldM_FQ; [apply Rpm_refl | apply Rpm_trans|]. intros; apply node_detach_FQ. }
  intros s5. apply wpg_FQ_bind; [apply Rpm_trans| |].
  { apply foldM_FQ; [apply Rpm_refl | apply Rpm_trans|]. intros; apply node_detach_FQ. }
  intros s6. apply foldM_FQ; [apply Rpm_refl | apply Rpm_trans|]. intros; apply mark_file_outdated_FQ.
Qed.

Definition Bend (b : sstate) : Prop := b = SSucceeded \/ b = SFailed \/ b = SPending.

Lemma set_sstate_Bend l new d s :
  Bend new -> wpg false (set_sstate l new d s) (FQ (Rsub l Bend) s).
Proof.
  intros HB. eapply wpg_weaken; [apply set_sstate_FQ|]. intros s' H. eapply FQ_weaken; [|exact H].
  intros x a b [Hp|[E <-]]; [left; exact Hp | right; auto].
Qed.

Lemma mark_completed_FQ step ok wd s : wpg false (mark_completed step ok wd s) (FQ (Rsub step Bend) s).
Proof.
  assert (HT : rtrans (Rsub step Bend)) by (apply Rsub_trans; right; right; reflexivity).
  assert (Hpm : forall (r : res st) s0, wpg false r (FQ Rpm s0) -> wpg false r (FQ (Rsub step Bend) s0)).
  { intros r s0. apply wpg_FQ_weaken. apply Rpm_Rsub. }
  unfold mark_completed. destruct (negb (is_some (find_step step s))); [exact I|]. destruct ok.
  - apply wpg_FQ_bind; [exact HT | apply set_sstate_Bend; left; reflexivity|]. intros s1.
    apply wpg_FQ_bind; [exact HT| |].
    { apply foldM_FQ; [apply Rsub_refl | exact HT|]. intros s0 l. apply wpg_FQ_bind; [exact HT| |].
      - apply Hpm. apply wpg_Rid_Rpm. apply wpg_of_ok. intros s2 H. unfold set_fstate in H. eapply set_fstate_hash_steps; exact H.
      - intros s2. apply Hpm. apply mark_consumers_pending_FQ. }
    intros s2. cbn. eapply FQ_weaken; [apply Rid_Rsub|]. apply FQ_steps. unfold store_hash. destruct (has_hash step s2); reflexivity.
  - apply wpg_FQ_bind; [exact HT| |].
    { apply foldM_FQ; [apply Rsub_refl | exact HT|]. intros s0 l. apply Hpm. apply wpg_Rid_Rpm. apply wpg_of_ok.
      intros s1 H. unfold set_fstate in H. eapply set_fstate_hash_steps; exact H. }
    intros s1. apply wpg_FQ_bind; [exact HT| |].
    { destruct wd; [|apply set_sstate_Bend; right; left; reflexivity]. destruct (find_step step s1); [|exact I]. cbn zeta.
      set (s1' := upd_step step _ s1).
      assert (H1 : FQ (Rsub step Bend) s1 s1').
      { intros x a Hx. exists a. split; [|left; apply pm_refl]. unfold s1'. rewrite sstate_of_upd_step; [|reflexivity].
        destruct (str_eqb x step) eqn:E; [|exact Hx]. unfold sstate_of in Hx. destruct (find_step x s1); [|discriminate].
        cbn in *. exact Hx. }
      destruct (sdc s0 + 1 <=? defer_cap s);
        (eapply wpg_weaken; [apply set_sstate_Bend; auto; unfold Bend; auto|]);
        intros s2 H; (eapply FQ_trans; [exact HT | exact H1 | exact H]). }
    intros s2. apply wpg_FQ_bind; [exact HT| |].
    { destruct (sstate_of step s2) as [[]|]; try (cbn; apply FQ_refl; apply Rsub_refl).
      unfold detach_created_steps. apply foldM_FQ; [apply Rsub_refl | exact HT|]. intros; apply Hpm; apply node_detach_FQ. }
    intros s3. cbn. eapply FQ_weaken; [apply Rid_Rsub|]. apply FQ_steps. reflexivity.
Qed.

(* ------------------------------------------------------------------------------------------ *)
(* hold / release / reset_interrupted                                                          *)
(* ------------------------------------------------------------------------------------------ *)
Lemma upd_step_same_state l g s :
  (forall r, sl (g r) = sl r) -> (forall r, sst (g r) = sst r) -> FQ Rid s (upd_step l g s).
Proof.
  intros Hl Hs x a Hx. exists a. split; [|reflexivity]. rewrite sstate_of_upd_step; [|exact Hl].
  destruct (str_eqb x l); [|exact Hx]. unfold sstate_of in Hx. destruct (find_step x s) as [r|]; [|discriminate].
  cbn. rewrite Hs. exact Hx.
Qed.

Lemma set_sstate_exact l new d s s' : set_sstate l new d s = Ok s' ->
  forall x, sstate_of x s' = if str_eqb x l then option_map (fun _ => new) (sstate_of x s) else sstate_of x s.
Proof.
  unfold set_sstate. destruct (find_step l s) as [r|] eqn:Hf.
  - destruct (d && negb (sstate_eqb new SPending)); [discriminate|]. intros H; inversion H; subst s'. intros x.
    rewrite sstate_of_upd_step; [|reflexivity]. destruct (str_eqb x l); [|reflexivity].
    unfold sstate_of. destruct (find_step x s); reflexivity.
  - intros H; inversion H; subst s'. intros x. destruct (str_eqb x l) eqn:E; [|reflexivity].
    apply str_eqb_eq in E. subst x. unfold sstate_of. rewrite Hf. reflexivity.
Qed.

Lemma set_sstate_SL l new d s s' : set_sstate l new d s = Ok s' -> SL (steps s') = SL (steps s).
Proof.
  unfold set_sstate. destruct (find_step l s); [|intros H; inversion H; reflexivity].
  destruct (d && _); [discriminate|]. intros H; inversion H. rewrite steps_upd_step. apply SL_upds. reflexivity.
Qed.

Definition Rmv (old new : sstate) : srel := fun _ a b => a = b \/ (a = old /\ b = new).
Lemma Rmv_trans old new : rtrans (Rmv old new).
Proof.
  intros l a b c [->|[-> ->]] [->|[E ->]]; unfold Rmv; auto.
Qed.

Lemma raw_fold_FQ (sel : sstate -> bool) (old new : sstate) :
  (forall a, sel a = true -> a = old) ->
  forall rows s0, NoDup (map sl rows) -> (forall r, In r rows -> sstate_of (sl r) s0 = Some (sst r)) ->
  wpg false (foldM (fun s r => if sel (sst r) then set_sstate_raw (sl r) new s else Ok s) rows s0)
      (fun s' => FQ (Rmv old new) s0 s' /\ SL (steps s') = SL (steps s0)).
Proof.
  intros Hsel. induction rows as [|r rows IH]; intros s0 Hnd Hst; cbn [foldM].
  - cbn. split; [apply FQ_refl; intros l a; left; reflexivity | reflexivity].
  - inversion Hnd as [|x xs Hnin Hnd']; subst. apply wpg_bind.
    destruct (sel (sst r)) eqn:Es.
    + unfold set_sstate_raw. pose proof (Hst r (or_introl eq_refl)) as Hr. unfold sstate_of in Hr.
      destruct (find_step (sl r) s0) as [r0|] eqn:Hf; [|discriminate].
      destruct (set_sstate (sl r) new (sdef r0) s0) as [s1|t|t] eqn:E; try exact I. cbn [wpg].
      pose proof (set_sstate_exact _ _ _ _ _ E) as Hex.
      eapply wpg_weaken.
      * apply (IH s1 Hnd'). intros r' Hr'. rewrite Hex.
        destruct (str_eqb (sl r') (sl r)) eqn:E2; [|apply Hst; right; exact Hr'].
        exfalso. apply str_eqb_eq in E2. apply Hnin. rewrite <- E2. apply in_map. exact Hr'.
      * intros s' [F1 S1]. split; [|rewrite S1; eapply set_sstate_SL; exact E].
        eapply FQ_trans; [apply Rmv_trans | | exact F1].
        intros x a Hx. rewrite Hex. destruct (str_eqb x (sl r)) eqn:E2.
        -- rewrite Hx. cbn. exists new. split; [reflexivity|]. right. split; [|reflexivity].
           apply str_eqb_eq in E2. subst x. unfold sstate_of in Hx. rewrite Hf in Hx. inversion Hx; subst a.
           inversion Hr as [Hr']. rewrite Hr'. apply Hsel. exact Es.
        -- exists a. split; [exact Hx | left; reflexivity].
    + cbn [wpg]. apply (IH s0 Hnd'). intros r' Hr'. apply Hst. right. exact Hr'.
Qed.

Definition Rri : srel := fun _ a b =>
  pm a b \/ (a = SRunning /\ (b = SFailed \/ b = SPending)) \/ (a = SChecking /\ b = SPending).

Lemma rows_state s : NoDup (SL (steps s)) -> forall r, In r (steps s) -> sstate_of (sl r) s = Some (sst r).
Proof. intros Hnd r Hr. rewrite sstate_of_finds, (In_finds _ _ Hnd Hr). reflexivity. Qed.

Lemma reset_interrupted_FQ s : NoDup (SL (steps s)) -> wpg false (reset_interrupted s) (FQ Rri s).
Proof.
  intros Hnd. unfold reset_interrupted. apply wpg_bind.
  rewrite (foldM_ext _ (fun s r => if sstate_eqb (sst r) SRunning then set_sstate_raw (sl r) SFailed s else Ok s)).
  2:{ intros s0 r. destruct (sst r); reflexivity. }
  eapply wpg_weaken.
  { apply (raw_fold_FQ (fun a => sstate_eqb a SRunning) SRunning SFailed); [intros a; apply sstate_eqb_eq | exact Hnd | apply rows_state; exact Hnd]. }
  intros s1 [F1 S1]. apply wpg_bind.
  rewrite (foldM_ext _ (fun s r => if sstate_eqb (sst r) SChecking then set_sstate_raw (sl r) SPending s else Ok s)).
  2:{ intros s0 r. destruct (sst r); reflexivity. }
  assert (Hnd1 : NoDup (SL (steps s1))) by (rewrite S1; exact Hnd).
  eapply wpg_weaken.
  { apply (raw_fold_FQ (fun a => sstate_eqb a SChecking) SChecking SPending); [intros a; apply sstate_eqb_eq | exact Hnd1 | apply rows_state; exact Hnd1]. }
  intros s2 [F2 S2]. eapply wpg_weaken.
  { apply (foldM_FQ Rpm); [apply Rpm_refl | apply Rpm_trans|]. intros s0 r.
    destruct (sstate_of (sl r) s0) as [[]|]; try (cbn; apply FQ_refl; apply Rpm_refl).
    destruct (is_detached _ s0); [cbn; apply FQ_refl; apply Rpm_refl | apply mark_step_pending_FQ]. }
  intros s3 F3 l a Ha. destruct (F1 l a Ha) as [b [Hb R1]]. destruct (F2 l b Hb) as [c [Hc R2]].
  destruct (F3 l c Hc) as [d [Hd R3]]. exists d. split; [exact Hd|]. unfold Rri, Rmv, Rpm, pm in *.
  destruct a, b, c, d; intuition (try discriminate; try congruence; auto).
Qed.

(* ------------------------------------------------------------------------------------------ *)
(* delete_detached: rows only disappear                                                        *)
(* ------------------------------------------------------------------------------------------ *)
Definition BQ (s s' : st) : Prop := forall l b, sstate_of l s' = Some b -> sstate_of l s = Some b.
Lemma BQ_refl s : BQ s s.
Proof. intros l b H. exact H. Qed.
Lemma BQ_trans s1 s2 s3 : BQ s1 s2 -> BQ s2 s3 -> BQ s1 s3.
Proof. intros A B l b H. apply A. apply B. exact H. Qed.
Lemma BQ_steps s s' : steps s' = steps s -> BQ s s'.
Proof. intros E l b. unfold sstate_of, find_step. rewrite E. auto. Qed.

Lemma delete_node_BQ k s : BQ s (delete_node k s).
Proof.
  intros l st'. unfold delete_node. destruct k as [[] kl]; cbn [fst snd]; try (intros H; exact H).
  unfold sstate_of, find_step. cbn [steps set_envs set_shash set_steps set_nodes del_all_sources del_deps_where set_deps].
  rewrite find_filter. intros H.
  destruct (find (fun x => negb (str_eqb (sl x) kl) && str_eqb (sl x) l) (steps s)) as [r|] eqn:E; [|discriminate].
  pose proof (find_some _ _ E) as [Hin Hr]. apply andb_true_iff in Hr. destruct Hr as [Hr1 Hr2].
  assert (Hfirst : find (fun x => str_eqb (sl x) l) (steps s) = Some r).
  { clear H Hin. revert E. induction (steps s) as [|x xs IH]; cbn; [discriminate|].
    destruct (str_eqb (sl x) l) eqn:Ex.
    - destruct (negb (str_eqb (sl x) kl)) eqn:Ek; cbn; [intros H; exact H|].
      intros H. exfalso. apply negb_false_iff in Ek. apply str_eqb_eq in Ek. apply str_eqb_eq in Ex.
      apply str_eqb_eq in Hr2. apply negb_true_iff in Hr1. apply str_eqb_neq in Hr1. congruence.
    - rewrite andb_false_r. exact IH. }
  rewrite Hfirst. exact H.
Qed.

Lemma delete_detached_BQ s : wpg false (delete_detached s) (BQ s).
Proof.
  unfold delete_detached.
  assert (Hl : forall fuel lost s0, BQ s0 (fst (dd_loop fuel lost s0))).
  { induction fuel as [|fuel IH]; intros lost s0; cbn [dd_loop]; [apply BQ_refl|].
    destruct (find _ (nodes s0)); [|apply BQ_refl]. eapply BQ_trans; [apply delete_node_BQ | apply IH]. }
  eapply wpg_weaken.
  - apply (wpg_foldM false _ (BQ (fst (dd_loop (length (nodes s)) [] s)))); [|apply BQ_refl].
    intros s0 c _ H0. destruct (find_node c s0); [|exact H0].
    apply wpg_of_ok. intros s1 H. eapply BQ_trans; [exact H0|]. apply BQ_steps. eapply after_lost_product_steps; exact H.
  - intros s' H. eapply BQ_trans; [apply Hl | exact H].
Qed.

Lemma delete_detached_t_BQ s : wpg false (delete_detached_t s) (BQ s).
Proof.
  unfold delete_detached_t. apply wpg_bind. eapply wpg_weaken.
  - apply foldM_steps. intros s0 k. apply wpg_of_ok. intros s1 H. eapply node_detach_steps; exact H.
  - intros s1 E. eapply wpg_weaken; [apply delete_detached_BQ|]. intros s2 H. eapply BQ_trans; [apply BQ_steps; exact E | exact H].
Qed.

(* ------------------------------------------------------------------------------------------ *)
(* Trellis.create and the declaring operations                                                 *)
(* ------------------------------------------------------------------------------------------ *)
Lemma create_nodes_steps k creator cdet s s1 : create_nodes k creator cdet s = Ok s1 -> steps s1 = steps s.
Proof.
  unfold create_nodes. destruct (find_node k s) as [n|]; [|intros H; inversion H; reflexivity].
  destruct (negb (ndet n)); [discriminate|].
  set (s1' := upd_node k _ s).
  destruct (match ncre n with Some oc => _ | None => Ok s1' end) as [s2|t|t] eqn:E2; try discriminate. cbn [bind].
  assert (H2 : steps s2 = steps s).
  { destruct (ncre n) as [oc|]; [|inversion E2; reflexivity].
    destruct (negb (is_detached oc s)); [discriminate|]. rewrite (after_lost_product_steps _ _ _ E2). reflexivity. }
  intros H. rewrite <- H2.
  assert (Hw : wpg false (foldM (fun s p => detach_any p s) (products k (del_all_sources k s2)) (del_all_sources k s2))
                   (fun s' => steps s' = steps (del_all_sources k s2))).
  { apply foldM_steps. intros s0 p. apply wpg_of_ok. intros s3 H3. eapply node_detach_steps; exact H3. }
  exact (ok_of_wpg _ _ _ Hw H).
Qed.

Lemma file_initialize_row_FQ l req s : wpg false (file_initialize_row l req s) (FQ Rpm s).
Proof.
  unfold file_initialize_row.
  set (state := match req, find_file l s with
                | FUndeclared, Some r => _ | FPlanned, Some r => _ | _, _ => req end).
  apply wpg_FQ_bind; [apply Rpm_trans| |].
  - apply wpg_Rid_Rpm. destruct (find_file l s).
    + apply wpg_of_ok. intros s1 H. unfold set_fstate in H. eapply set_fstate_hash_steps; exact H.
    + destruct (needs_hash state); [exact I|]. destruct (fstate_eqb state FUndeclared && _); [exact I|]. reflexivity.
  - intros s1. destruct state; try (cbn; apply FQ_refl; apply Rpm_refl). apply mark_file_outdated_FQ.
Qed.

Lemma create_FQ k creator arg s :
  wpg false (create k creator arg s)
      (FQ (match arg with InitStep _ => Rsub (snd k) (eq SPending) | _ => Rpm end) s).
Proof.
  rewrite create_unfold. destruct (creator_ok k creator s) as [[]|t|t]; try exact I. cbn [bind].
  apply wpg_bind. destruct (create_nodes k creator (cdet_of creator s) s) as [s1|t|t] eqn:E1; try exact I. cbn [wpg].
  pose proof (create_nodes_steps _ _ _ _ _ E1) as Hs1.
  destruct arg as [f|nd|].
  - eapply wpg_weaken; [apply file_initialize_row_FQ|]. intros s' H.
    eapply FQ_trans; [apply Rpm_trans | | exact H]. eapply FQ_weaken; [apply Rid_Rpm | apply FQ_steps; exact Hs1].
  - unfold step_initialize_row. cbn [wpg]. intros x a Hx.
    unfold sstate_of, find_step in *. cbn [steps set_steps]. rewrite find_app, find_filter, Hs1.
    destruct (str_eqb x (snd k)) eqn:E.
    + apply str_eqb_eq in E. subst x. exists SPending. split; [|right; auto].
      destruct (find (fun x0 => negb (str_eqb (sl x0) (snd k)) && str_eqb (sl x0) (snd k)) (steps s)) as [r|] eqn:Ef.
      * exfalso. apply find_some in Ef. destruct Ef as [_ Ef]. apply andb_true_iff in Ef. destruct Ef as [A B].
        rewrite B in A. discriminate.
      * cbn. rewrite str_eqb_refl. reflexivity.
    + exists a. split; [|left; apply pm_refl].
      assert (Hf : find (fun x0 => negb (str_eqb (sl x0) (snd k)) && str_eqb (sl x0) x) (steps s) =
                   find (fun r => str_eqb (sl r) x) (steps s)).
      { apply find_ext. intros r _. destruct (str_eqb (sl r) x) eqn:Er; [|apply andb_false_r].
        apply str_eqb_eq in Er. rewrite Er, E. reflexivity. }
      rewrite Hf. destruct (find (fun r => str_eqb (sl r) x) (steps s)); [exact Hx | discriminate].
  - cbn [wpg]. eapply FQ_weaken; [apply Rid_Rpm | apply FQ_steps; exact Hs1].
Qed.

Lemma declare_file_FQ c l f s : wpg false (declare_file c l f s) (FQ Rpm s).
Proof.
  unfold declare_file.
  assert (Hc : wpg false (create (KFile, l) (Some c) (InitFile f) s) (FQ Rpm s)) by apply (create_FQ (KFile, l) (Some c) (InitFile f) s).
  destruct f; try exact I; apply wpg_bind; (eapply wpg_weaken; [exact Hc|]); intros s1 H1; cbn [wpg]; try exact H1.
  destruct (attached_step_sinks l s1); cbn; [exact H1 | exact I].
Qed.

Lemma declare_file_t_FQ c l f s : wpg false (declare_file_t c l f s) (FQ Rpm s).
Proof.
  unfold declare_file_t. destruct f; try exact I; (destruct (tree_guard c l s) as [[]|t|t]; [|exact I|exact I]); cbn [bind];
    apply declare_file_FQ.
Qed.

Lemma declare_static_files_t_FQ c paths s : wpg false (declare_static_files_t c paths s) (FQ Rpm s).
Proof.
  unfold declare_static_files_t. destruct (negb _); [exact I|].
  apply wpg_bind. destruct (foldM _ paths []) as [todo|t|t]; try exact I. cbn [wpg].
  apply foldM_FQ; [apply Rpm_refl | apply Rpm_trans|]. intros s0 dl. apply declare_file_t_FQ.
Qed.

Lemma resolve_supply_file_FQ step l rn s : wpg false (resolve_supply_file step l rn s) (fun r => FQ Rpm s (fst r)).
Proof.
  unfold resolve_supply_file. apply wpg_bind.
  assert (Hc : wpg false (create (KFile, l) None (InitFile FUndeclared) s) (FQ Rpm s)) by apply (create_FQ (KFile, l) None (InitFile FUndeclared) s).
  assert (Hfin : forall s1, FQ Rpm s s1 ->
            wpg false (let isnew := negb (has_dep (KFile, l) (KStep, step) s1) in
                       if negb isnew && rn then Usage 205 else Ok (s1, isnew)) (fun r => FQ Rpm s (fst r))).
  { intros s1 H1. cbn zeta. destruct (negb (negb (has_dep (KFile, l) (KStep, step) s1)) && rn); cbn; auto. }
  destruct (find_node (KFile, l) s) as [n|].
  2:{ eapply wpg_weaken; [exact Hc | exact Hfin]. }
  destruct (ncre n); [|eapply wpg_weaken; [exact Hc | exact Hfin]].
  destruct (fstate_of l s) as [[]|]; try exact I; cbn [wpg]; apply Hfin; apply FQ_refl; apply Rpm_refl.
Qed.

Lemma resolve_supply_file_t_FQ step l rn s : wpg false (resolve_supply_file_t step l rn s) (fun r => FQ Rpm s (fst r)).
Proof.
  unfold resolve_supply_file_t. destruct (is_detached (KFile, l) s); [|apply resolve_supply_file_FQ].
  apply wpg_bind. destruct (find_owning_tree l s) as [[t|]|x|x]; try exact I; cbn [wpg]; [|apply resolve_supply_file_FQ].
  apply wpg_bind. eapply wpg_weaken; [apply (create_FQ (KFile, l) (Some (KTree, t)) (InitFile FUnconfirmed) s)|].
  intros s1 H1. cbn zeta. destruct (negb (negb (has_dep (KFile, l) (KStep, step) s1)) && rn); cbn; auto.
Qed.

Lemma add_dep_steps a b dyn s s' : add_dep a b dyn s = Ok s' -> steps s' = steps s.
Proof.
  unfold add_dep. destruct (has_dep a b s); [discriminate|]. destruct (negb _); [discriminate|].
  intros H; inversion H. reflexivity.
Qed.

Lemma supply_files_t_FQ step paths rn dyn s : wpg false (supply_files_t step paths rn dyn s) (FQ Rpm s).
Proof.
  unfold supply_files_t. apply wpg_bind. eapply wpg_weaken.
  { apply (wpg_foldM false _ (fun acc : st * list str => FQ Rpm s (fst acc))).
    - intros acc l _ H1. apply wpg_bind. eapply wpg_weaken; [apply resolve_supply_file_t_FQ|].
      intros r R1. cbn [wpg fst]. eapply FQ_trans; [apply Rpm_trans | exact H1 | exact R1].
    - cbn. apply FQ_refl. apply Rpm_refl. }
  intros [s1 news] H1. cbn [fst snd] in *.
  assert (Hadd : wpg false (foldM (fun s l => add_dep (KFile, l) (KStep, step) dyn s) news s1) (FQ Rpm s)).
  { eapply wpg_weaken.
    - apply (wpg_Rid_Rpm _ s1). apply foldM_steps. intros s0 l. apply wpg_of_ok. intros s2 H. eapply add_dep_steps; exact H.
    - intros s2 H2. eapply FQ_trans; [apply Rpm_trans | exact H1 | exact H2]. }
  destruct news as [|l0 news']; [exact Hadd|].
  destruct (would_cycle _ _ s1); [exact I | exact Hadd].
Qed.

Lemma fold_add_env_steps label dyn rep env s : steps (fold_left (fun s e => add_env label e dyn rep s) env s) = steps s.
Proof.
  revert s. induction env as [|e env IH]; intros s; cbn; [reflexivity|]. rewrite IH.
  destruct (add_env_frame label e dyn rep s) as [_ [_ [E _]]]. exact E.
Qed.

Lemma out_fold_FQ k label dyn f ls s :
  wpg false (foldM (fun s l => do s' <- declare_file_t k l f s; add_output_edge label l dyn s') ls s) (FQ Rpm s).
Proof.
  apply foldM_FQ; [apply Rpm_refl | apply Rpm_trans|]. intros s0 l.
  apply wpg_FQ_bind; [apply Rpm_trans | apply declare_file_t_FQ|]. intros s1.
  apply wpg_Rid_Rpm. unfold add_output_edge. destruct (would_cycle _ _ s1); [exact I|].
  apply wpg_of_ok. intros s2 H. eapply add_dep_steps; exact H.
Qed.

Lemma define_step_new_t_FQ creator label inp env out vol nd s :
  wpg false (define_step_new_t creator label inp env out vol nd s) (FQ (Rsub label (eq SPending)) s).
Proof.
  assert (HT : rtrans (Rsub label (eq SPending))) by (apply Rsub_trans; reflexivity).
  assert (Hpm : forall (r : res st) s0, wpg false r (FQ Rpm s0) -> wpg false r (FQ (Rsub label (eq SPending)) s0)).
  { intros r s0. apply wpg_FQ_weaken. apply Rpm_Rsub. }
  unfold define_step_new_t.
  apply wpg_bind. destruct (foldM _ out tt) as [u|t|t]; try exact I. cbn [wpg].
  apply wpg_bind. destruct (foldM _ vol tt) as [u'|t|t]; try exact I. cbn [wpg].
  destruct (existsb _ out); [exact I|].
  apply wpg_FQ_bind; [exact HT | apply (create_FQ (KStep, label) (Some creator) (InitStep nd) s)|]. intros s1.
  apply wpg_FQ_bind; [exact HT | apply Hpm; apply supply_files_t_FQ|]. intros s2.
  eapply wpg_weaken.
  - apply wpg_FQ_bind; [exact HT | apply Hpm; apply out_fold_FQ | intros s4; apply Hpm; apply out_fold_FQ].
  - intros s5 H. eapply FQ_trans; [exact HT | | exact H]. eapply FQ_weaken; [apply Rid_Rsub|].
    apply FQ_steps. apply fold_add_env_steps.
Qed.

Lemma node_reattach_steps k c s s' : node_reattach k c s = Ok s' -> steps s' = steps s.
Proof.
  unfold node_reattach. destruct (find_node k s) as [n|]; [|discriminate]. destruct (find_node c s) as [cn|]; [|discriminate].
  destruct (negb (ndet n)); [discriminate|]. destruct (key_eqb c k); [discriminate|].
  destruct (negb (creator_kind_ok _ _)); [discriminate|]. destruct (mem_key c _); [discriminate|]. cbn zeta.
  set (s1 := upd_node k _ s).
  destruct (match ncre n with Some oc => _ | None => Ok s1 end) as [s2|t|t] eqn:E2; try discriminate. cbn [bind].
  intros H; inversion H. cbn.
  destruct (ncre n) as [oc|]; [|inversion E2; reflexivity].
  destruct (negb (is_detached oc s)); [discriminate|]. rewrite (after_lost_product_steps _ _ _ E2). reflexivity.
Qed.

Lemma define_step_t_FQ creator label inp env out vol nd s :
  wpg false (define_step_t creator label inp env out vol nd s) (FQ (Rsub label (eq SPending)) s).
Proof.
  assert (HT : rtrans (Rsub label (eq SPending))) by (apply Rsub_trans; reflexivity).
  unfold define_step_t. destruct (negb _); [exact I|]. destruct (key_eqb creator root_key && _); [exact I|].
  destruct (key_eqb creator (KStep, label)); [exact I|]. destruct (mem_key creator _); [exact I|].
  pose proof (define_step_new_t_FQ creator label inp env out vol nd s) as Hnew.
  destruct (find_node (KStep, label) s) as [n|]; [|exact Hnew].
  destruct (ndet n && can_recycle label inp env out vol s); [|destruct (negb (ndet n)); [exact I | exact Hnew]].
  apply wpg_bind. destruct (node_reattach (KStep, label) creator s) as [s1|t|t] eqn:E1; try exact I. cbn [wpg].
  set (g := fun r : srow => mkS (sl r) (sst r) nd (sdef r) (sdc r) 0).
  assert (H02 : FQ (Rsub label (eq SPending)) s (upd_step label g s1)).
  { eapply FQ_weaken; [apply Rid_Rsub|]. intros x a Hx.
    destruct (upd_step_same_state label g s1 (fun _ => eq_refl) (fun _ => eq_refl) x a) as [b [Hb Hab]].
    - unfold sstate_of, find_step in *. rewrite (node_reattach_steps _ _ _ _ E1). exact Hx.
    - exists b. auto. }
  fold g. destruct (sstate_of label (upd_step label g s1)) as [[]|]; try (cbn; exact H02).
  eapply wpg_weaken; [apply mark_step_pending_FQ|]. intros s3 H3.
  eapply FQ_trans; [exact HT | exact H02 | eapply FQ_weaken; [apply Rpm_Rsub | exact H3]].
Qed.

Lemma amend_step_t_FQ label inp env out vol s : wpg false (amend_step_t label inp env out vol s) (FQ Rpm s).
Proof.
  unfold amend_step_t. destruct (negb _); [exact I|].
  apply wpg_FQ_bind; [apply Rpm_trans | apply supply_files_t_FQ|]. intros s1.
  set (s2 := fold_left _ env s1).
  assert (H12 : FQ Rpm s1 s2) by (eapply FQ_weaken; [apply Rid_Rpm | apply FQ_steps; apply fold_add_env_steps]).
  apply wpg_bind. destruct (foldM _ out []) as [out'|t|t]; try exact I. cbn [wpg].
  apply wpg_bind. destruct (foldM _ vol []) as [vol'|t|t]; try exact I. cbn [wpg].
  destruct (existsb _ out'); [exact I|].
  eapply wpg_weaken.
  - apply wpg_FQ_bind; [apply Rpm_trans | apply out_fold_FQ | intros s4; apply out_fold_FQ].
  - intros s5 H. eapply FQ_trans; [apply Rpm_trans | exact H12 | exact H].
Qed.

Lemma fold_upd_node_steps (g : node -> node -> node) (l : list node) : forall s,
  steps (fold_left (fun s n => upd_node (nk n) (g n) s) l s) = steps s.
Proof. induction l as [|n l IH]; intros s; cbn [fold_left]; [reflexivity|]. rewrite IH. reflexivity. Qed.

Lemma register_static_tree_FQ c p s : wpg false (register_static_tree c p s) (FQ Rpm s).
Proof.
  unfold register_static_tree. destruct (negb _); [exact I|].
  apply wpg_bind. destruct (find_owning_tree p s) as [[t|]|x|x]; try exact I; cbn [wpg].
  - destruct (okey_eqb _ _); [cbn; apply FQ_refl; apply Rpm_refl|]. destruct (str_eqb t p); exact I.
  - destruct (existsb _ (nodes s)); [exact I|]. cbn zeta.
    destruct (existsb _ (file_nodes_under p false s)); [exact I|].
    destruct (existsb _ (file_nodes_under p false s)); [exact I|].
    apply wpg_FQ_bind; [apply Rpm_trans | apply (create_FQ (KTree, p) (Some c) InitTree s)|]. intros s1.
    set (s2 := fold_left _ (file_nodes_under p false s) s1).
    assert (H12 : steps s2 = steps s1) by apply fold_upd_node_steps.
    eapply wpg_weaken; [apply declare_static_files_t_FQ|]. intros s3 H.
    eapply FQ_trans; [apply Rpm_trans | | exact H]. eapply FQ_weaken; [apply Rid_Rpm | apply FQ_steps; exact H12].
Qed.

(* ------------------------------------------------------------------------------------------ *)
(* the theorem                                                                                 *)
(* ------------------------------------------------------------------------------------------ *)
Lemma pm_b_spec a b : pm a b -> pm_b a b = true.
Proof. unfold pm, pm_b. intros [->|[-> [->| ->]]]; [destruct b|..]; reflexivity. Qed.

Lemma hold_FQ l s : wpg false (hold l s) (FQ Rpm s).
Proof.
  unfold hold. destruct (negb _); [exact I|]. cbn. eapply FQ_weaken; [apply Rid_Rpm|].
  apply upd_step_same_state; reflexivity.
Qed.
Lemma release_FQ l s : wpg false (release l s) (FQ Rpm s).
Proof.
  unfold release. destruct (find_step l s); [|exact I]. destruct (shold s0 =? 0); [exact I|]. cbn.
  eapply FQ_weaken; [apply Rid_Rpm|]. apply upd_step_same_state; reflexivity.
Qed.

Lemma FQ_move (R : srel) o s s' :
  (forall l a b, R l a b -> step_move_b o l a b = true) -> FQ R s s' ->
  forall l a b, sstate_of l s = Some a -> sstate_of l s' = Some b -> step_move_b o l a b = true.
Proof. intros HR HF l a b Ha Hb. destruct (HF l a Ha) as [b' [Hb' Hab]]. rewrite Hb in Hb'. inversion Hb'; subst b'. apply HR. exact Hab. Qed.

Lemma step_move_pm o l a b : pm a b -> step_move_b o l a b = true.
Proof. intros H. unfold step_move_b. rewrite (pm_b_spec a b H). reflexivity. Qed.

Lemma step_move_sub o l0 (B : sstate -> Prop) :
  (forall l a b, l = l0 -> B b -> step_move_b o l a b = true) ->
  forall l a b, Rsub l0 B l a b -> step_move_b o l a b = true.
Proof. intros H l a b [Hp|[E Hb]]; [apply step_move_pm; exact Hp | apply H; assumption]. Qed.

Theorem step_transitions_documented o s l a b :
  inv_core_b s = true -> sstate_of l s = Some a -> sstate_of l (apply_op_t s o) = Some b ->
  step_move_b o l a b = true.
Proof.
  intros Hc Ha Hb. apply inv_core_b_iff in Hc.
  assert (Hsame : apply_op_t s o = s -> step_move_b o l a b = true).
  { intros E. rewrite E, Ha in Hb. inversion Hb. apply step_move_pm. left. reflexivity. }
  assert (Hgen : forall R : srel, (forall l a b, R l a b -> step_move_b o l a b = true) ->
                           wpg false (step_op_t o s) (FQ R s) -> step_move_b o l a b = true).
  { intros R HR Hw. unfold apply_op_t in *. destruct (step_op_t o s) as [s'|t|t]; [|apply Hsame; reflexivity|apply Hsame; reflexivity].
    cbn in Hw. eapply FQ_move; eassumption. }
  assert (Hpm : wpg false (step_op_t o s) (FQ Rpm s) -> step_move_b o l a b = true).
  { apply Hgen. intros l0 a0 b0. apply step_move_pm. }
  destruct o as [o|c p]; [destruct o|]; cbn [step_op_t step_op] in *.
  - apply Hpm. apply declare_static_files_t_FQ.
  - apply Hpm. apply update_file_hashes_FQ.
  - apply (Hgen (Rsub label (eq SPending))); [|apply define_step_t_FQ].
    apply step_move_sub. intros l0 a0 b0 -> <-. unfold step_move_b. rewrite str_eqb_refl. cbn. apply orb_true_r.
  - apply Hpm. apply amend_step_t_FQ.
  - apply (Hgen (Rsub label (eq (if has_hash label s then SChecking else SRunning)))); [|apply set_sstate_FQ].
    apply step_move_sub. intros l0 a0 b0 -> <-. unfold step_move_b. rewrite str_eqb_refl.
    destruct (has_hash label s); cbn; apply orb_true_r.
  - apply Hpm. apply reset_for_rerun_FQ.
  - apply (Hgen (Rsub label Bend)).
    + apply step_move_sub. intros l0 a0 b0 -> [->|[->| ->]]; unfold step_move_b; rewrite str_eqb_refl; cbn; apply orb_true_r.
    + assert (HT : rtrans (Rsub label Bend)) by (apply Rsub_trans; right; right; reflexivity).
      apply wpg_FQ_bind; [exact HT | eapply wpg_FQ_weaken; [apply Rpm_Rsub | apply update_file_hashes_FQ]|]. intros s0.
      apply wpg_FQ_bind; [exact HT | eapply wpg_FQ_weaken; [apply Rpm_Rsub | apply update_file_hashes_FQ]|]. intros s1.
      apply mark_completed_FQ.
  - apply (Hgen (Rsub label (eq SPending))).
    + apply step_move_sub. intros l0 a0 b0 -> <-. unfold step_move_b. rewrite str_eqb_refl. cbn. apply orb_true_r.
    + assert (HT : rtrans (Rsub label (eq SPending))) by (apply Rsub_trans; reflexivity).
      apply wpg_FQ_bind; [exact HT | eapply wpg_FQ_weaken; [apply Rpm_Rsub | apply reset_for_rerun_FQ]|]. intros s1.
      eapply wpg_weaken; [apply set_sstate_FQ|]. intros s2 H. eapply FQ_trans; [exact HT | | exact H].
      eapply FQ_weaken; [apply Rid_Rsub | apply FQ_steps; reflexivity].
  - apply (Hgen (Rsub label (eq SPending))); [|apply set_sstate_FQ].
    apply step_move_sub. intros l0 a0 b0 -> <-. unfold step_move_b. rewrite str_eqb_refl. cbn. apply orb_true_r.
  - apply Hpm. apply mark_step_pending_FQ.
  - (* delete_detached: backward frame *)
    unfold apply_op_t in *. cbn [step_op_t] in *. pose proof (delete_detached_t_BQ s) as Hw.
    destruct (delete_detached_t s) as [s'|t|t]; [|apply Hsame; reflexivity|apply Hsame; reflexivity].
    cbn in Hw. rewrite (Hw l b Hb) in Ha. inversion Ha. apply step_move_pm. left. reflexivity.
  - apply Hpm. apply hold_FQ.
  - apply Hpm. apply release_FQ.
  - apply (Hgen Rri); [|apply reset_interrupted_FQ; apply (rw_snodup _ _ _ _ _ (inv_rw _ Hc))].
    intros l0 a0 b0 [Hp|[[-> [->| ->]]|[-> ->]]]; [apply step_move_pm; exact Hp|..]; reflexivity.
  - apply Hpm. apply register_static_tree_FQ.
Qed.
