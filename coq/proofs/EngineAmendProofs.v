(* C01: amended (dynamic) inputs, model/Engine.v Section Amend.

   finished_a_unique: a FINISHED state of a project with amended inputs is determined by the
   sources and the environment -- whatever the builds before did, whatever amended edges they
   remembered.  [Finished_a] = the defining equations of the static engine at every step with its
   amended inputs made explicit ([eff]): declared and amended inputs all available => SUCCEEDED
   with outputs = run(contents of declared ++ amended inputs, variables), otherwise PENDING
   (not dispatchable, or deferred).  This is the half of "incremental = from scratch" that does
   not depend on how the engine gets there; the other half (a build from any state reached by
   builds ends in a finished state) holds for the engine without gating on the witness histories
   and is refuted for the code's gating (props/C01.v, C01_D28_engine_refuted). *)
From Coq Require Import List NArith Bool Lia.
From SV Require Import model.Engine proofs.EngineProofs.
Import ListNotations.
Open Scope N_scope.

Section AmendProofs.
  Variable run : N -> list (option N) -> list (option N) -> N -> N.
  Variable amend : N -> list (option N) -> list N.
  Variable fails : N -> list (option N) -> list (option N) -> bool.

  Notation eff := (eff amend).
  Notation Finished_a := (Finished_a run amend fails).
  Notation fails_now := (fails_now amend fails).
  Notation eproj := (eproj amend).
  Notation extra_now := (extra_now amend).

  (* making amended inputs explicit changes neither ids nor outputs *)
  Lemma outs_eproj (proj : project) (y : sys) : outs (eproj proj y) = outs proj.
  Proof.
    unfold Engine.eproj, outs. induction proj as [|s proj IH]; [reflexivity|].
    cbn [map flat_map]. rewrite IH. reflexivity.
  Qed.

  Lemma sids_eproj (proj : project) (y : sys) : map sid (eproj proj y) = map sid proj.
  Proof. unfold Engine.eproj. rewrite map_map. reflexivity. Qed.

  Lemma producer_eproj (proj : project) (y : sys) (p : N) : producer (eproj proj y) p = producer proj p.
  Proof.
    unfold producer, Engine.eproj. induction proj as [|s proj IH]; [reflexivity|].
    cbn [map find]. cbn [out Engine.eff]. destruct (memN p (out s)); [reflexivity|exact IH].
  Qed.

  Lemma avail_eproj (proj : project) (y z : sys) (p : N) : avail (eproj proj y) z p = avail proj z p.
  Proof. unfold avail. rewrite producer_eproj. reflexivity. Qed.

  Lemma ready_eproj (proj : project) (y z : sys) (s : step) : ready (eproj proj y) z s = ready proj z s.
  Proof.
    unfold ready. apply forallb_ext_in'. intros p _. rewrite avail_eproj. reflexivity.
  Qed.

  (* the well-formedness that the uniqueness needs *)
  Definition WFA (proj : project) : Prop :=
    NoDup (map sid proj) /\ NoDup (outs proj) /\ forall y, topo (eproj proj y) = true.

  Lemma wf_a_WFA (proj : project) : wf_a amend proj -> WFA proj.
  Proof.
    intros H. pose proof (H empty_sys) as H0. apply wf_WF in H0. destruct H0 as (H1 & H2 & _).
    rewrite sids_eproj in H1. rewrite outs_eproj in H2. split; [exact H1|]. split; [exact H2|].
    intros y. destruct (wf_WF _ (H y)) as (_ & _ & H3). exact H3.
  Qed.

  (* the inputs of a step, declared and amended, are not outputs of the step or of a later one *)
  Lemma eff_inputs_before (proj done rest : project) (s : step) (y : sys) (p : N) :
    WFA proj -> proj = done ++ s :: rest -> In p (inp (eff y s)) -> ~ In p (outs (s :: rest)).
  Proof.
    intros (_ & _ & Ht) Hp Hin Hout. specialize (Ht y). rewrite Hp in Ht.
    unfold Engine.eproj in Ht. rewrite map_app in Ht. apply topo_app in Ht. destruct Ht as [Ht _].
    cbn [map] in Ht. apply in_outs in Hout. destruct Hout as (q & Hq & Hpq).
    apply (topo_head (eff y s) (map (eff y) rest) Ht p (eff y q)).
    - exact Hin.
    - change (eff y s :: map (eff y) rest) with (map (eff y) (s :: rest)). apply in_map. exact Hq.
    - exact Hpq.
  Qed.

  (* what is compared: the state of a step (FAILED included) and, when it is SUCCEEDED, its outputs *)
  Definition Rs (y z : asys) (s : step) : Prop :=
    stt (abase y) (sid s) = stt (abase z) (sid s) /\
    (stt (abase y) (sid s) = Succeeded -> forall p, In p (out s) -> fs (abase y) p = fs (abase z) p) /\
    afail y (sid s) = afail z (sid s).

  Lemma amend_agree (proj : project) (y z : asys) :
    WFA proj -> Finished_a proj y -> Finished_a proj z -> same_world proj (abase y) (abase z) ->
    forall todo done, proj = done ++ todo ->
      (forall p, ~ In p (outs todo) -> avail proj (abase y) p = avail proj (abase z) p) ->
      (forall s, In s done -> Rs y z s) ->
      (forall p, avail proj (abase y) p = avail proj (abase z) p) /\ (forall s, In s proj -> Rs y z s).
  Proof.
    intros Hwf Hy Hz [Hsrc Henv]. pose proof Hwf as (Hid & Hnd & Htopo).
    set (by_ := abase y) in *. set (bz := abase z) in *.
    induction todo as [|s rest IH]; intros done Hp Hag Hdone.
    - split; [intros p; apply Hag; intros []|]. intros s Hs. apply Hdone.
      rewrite Hp, app_nil_r in Hs. exact Hs.
    - assert (Hs : In s proj). { rewrite Hp. apply in_or_app. right. left. reflexivity. }
      (* inputs of [s] in either state come from before *)
      assert (Hiny : forall x, In x (inp (eff by_ s)) -> avail proj by_ x = avail proj bz x).
      { intros x Hx. apply Hag. exact (eff_inputs_before proj done rest s by_ x Hwf Hp Hx). }
      assert (Hinz : forall x, In x (inp (eff bz s)) -> avail proj by_ x = avail proj bz x).
      { intros x Hx. apply Hag. exact (eff_inputs_before proj done rest s bz x Hwf Hp Hx). }
      pose proof (Hy s Hs) as Ly. pose proof (Hz s Hs) as Lz. unfold Local_a in Ly, Lz.
      fold by_ in Ly. fold bz in Lz. cbv zeta in Ly, Lz.
      (* the result at [s] *)
      assert (HR : Rs y z s).
      { unfold Rs. fold by_ bz.
        destruct (forallb (fun p => match avail proj by_ p with Some _ => true | None => false end) (inp s))
          eqn:Edecl.
        - (* every declared input is available: same contents, hence the same amended inputs *)
          assert (Hcont : map (fs by_) (inp s) = map (fs bz) (inp s)).
          { apply map_ext_in. intros x Hx. rewrite forallb_forall in Edecl. specialize (Edecl x Hx).
            assert (Hxe : In x (inp (eff by_ s))) by (cbn [inp Engine.eff]; apply in_or_app; left; exact Hx).
            pose proof (Hiny x Hxe) as Ha. destruct (avail proj by_ x) as [c|] eqn:Ey; [|discriminate].
            symmetry in Ha. rewrite (avail_fs proj by_ x c Ey), (avail_fs proj bz x c Ha). reflexivity. }
          assert (Heff : eff bz s = eff by_ s).
          { unfold Engine.eff, Engine.extra_now. rewrite Hcont. reflexivity. }
          unfold Engine.fails_now in Ly, Lz. rewrite Heff in Lz.
          assert (Hr : ready proj by_ (eff by_ s) = ready proj bz (eff by_ s)) by (apply ready_ext; exact Hiny).
          rewrite <- Hr in Lz. destruct (ready proj by_ (eff by_ s)) eqn:Er.
          + assert (Hmap : map (fs bz) (inp (eff by_ s)) = map (fs by_) (inp (eff by_ s))).
            { apply map_ext_in. intros x Hx.
              destruct (ready_avail proj by_ (eff by_ s) x Er Hx) as [Ay _].
              assert (Erz : ready proj bz (eff by_ s) = true) by (symmetry; exact Hr).
              destruct (ready_avail proj bz (eff by_ s) x Erz Hx) as [Az _].
              rewrite <- Ay, <- Az. symmetry. apply Hiny. exact Hx. }
            assert (Hmev : map (ev bz) (envn s) = map (ev by_) (envn s)).
            { apply map_ext. intros n. symmetry. apply Henv. }
            rewrite Hmap, Hmev in Lz.
            destruct (fails (sid s) (map (fs by_) (inp (eff by_ s))) (map (ev by_) (envn s))).
            * destruct Ly as [Sy Fy], Lz as [Sz Fz]. split; [congruence|]. split; [congruence|congruence].
            * destruct Ly as (Sy & Ay & Fy), Lz as (Sz & Az & Fz). split; [congruence|].
              split; [|congruence]. intros _ p Hpo. rewrite (Fy p Hpo), (Fz p Hpo). reflexivity.
          + destruct Ly as [Sy Fy], Lz as [Sz Fz]. split; [congruence|]. split; [congruence|congruence].
        - (* a declared input is unavailable, in [y] and hence in [z]: not ready in either *)
          assert (Ery : ready proj by_ (eff by_ s) = false).
          { unfold ready. cbn [inp Engine.eff]. rewrite forallb_app, Edecl. reflexivity. }
          assert (Erz : ready proj bz (eff bz s) = false).
          { unfold ready. cbn [inp Engine.eff]. rewrite forallb_app.
            assert (E : forallb (fun p => match avail proj bz p with Some _ => true | None => false end) (inp s)
                        = false).
            { transitivity (forallb (fun p => match avail proj by_ p with Some _ => true | None => false end)
                                    (inp s)); [|exact Edecl].
              apply forallb_ext_in'. intros x Hx.
              assert (Hxe : In x (inp (eff by_ s))) by (cbn [inp Engine.eff]; apply in_or_app; left; exact Hx).
              rewrite <- (Hiny x Hxe). reflexivity. }
            rewrite E. reflexivity. }
          rewrite Ery in Ly. rewrite Erz in Lz. destruct Ly as [Sy Fy], Lz as [Sz Fz].
          split; [congruence|]. split; [congruence|congruence]. }
      apply (IH (done ++ [s])); [rewrite <- app_assoc; exact Hp| |].
      + intros p Hnr. destruct (in_dec N.eq_dec p (out s)) as [Hps|Hps].
        2:{ apply Hag. change (outs (s :: rest)) with (out s ++ outs rest). intros Hin.
            apply in_app_or in Hin. tauto. }
        unfold avail. rewrite (producer_of_out proj s p Hnd Hs Hps). destruct HR as (Hst & Hfs & _).
        fold by_ bz in Hst, Hfs.
        rewrite <- Hst. destruct (stt by_ (sid s)) eqn:Es; cbn; [reflexivity|]. apply Hfs; auto.
      + intros q Hq. apply in_app_or in Hq. destruct Hq as [Hq|[<-|[]]]; [exact (Hdone q Hq)|exact HR].
  Qed.

  (* A finished state is determined by the sources and the environment. *)
  Theorem finished_a_unique (proj : project) (y z : asys) :
    wf_a amend proj -> Finished_a proj y -> Finished_a proj z ->
    same_world proj (abase y) (abase z) -> same_result_a proj y z.
  Proof.
    intros Hwf0 Hy Hz Hw. pose proof (wf_a_WFA proj Hwf0) as Hwf.
    destruct (amend_agree proj y z Hwf Hy Hz Hw proj [] eq_refl) as [_ HR].
    - intros p Hp. unfold avail. apply producer_none in Hp. rewrite Hp. apply Hw.
      apply is_output_false. apply producer_none. exact Hp.
    - intros s [].
    - split.
      + intros s Hs. destruct (HR s Hs) as (H1 & H2 & _). split; assumption.
      + intros s Hs. destruct (HR s Hs) as (_ & _ & H3). exact H3.
  Qed.
End AmendProofs.

(* ------------------------------------------------------------------------------------------ *)
(* D28 at engine level                                                                         *)
(* ------------------------------------------------------------------------------------------ *)
(* step 1 reads source 3 and writes 10; step 2 reads source 2 (its script) and writes 20; with
   script version 5 it amends 10, with version 6 nothing.  World A: both sources; world B: the
   script is version 6 and source 3 is gone (step 1 cannot run). *)
Definition p28 : project := [mkStep 1 [3] [] [10]; mkStep 2 [2] [] [20]].
Definition tab28 : list (N * N * list N) := [(2, 5, [10])].
Definition w28a : world := (src_of [(2, 5); (3, 7)], fun _ => None).
Definition w28b : world := (src_of [(2, 6)], fun _ => None).
Definition bw28 (g : bool) (w : world) (y : asys) : asys :=
  build_world_a mix_run (amend_tab tab28) no_fail g p28 w y.

Lemma D28_engine_refuted :
  let inc g := bw28 g w28b (bw28 g w28a empty_asys) in
  let scr g := bw28 g w28b empty_asys in
  (* after build A step 2 is SUCCEEDED and remembers the amended edge to 10 *)
  map (stt (abase (bw28 true w28a empty_asys))) [1; 2] = [Succeeded; Succeeded] /\
  adyn (bw28 true w28a empty_asys) 2 = [10] /\
  (* the code's gating: nothing is dispatched in build B, step 2 stays PENDING; from scratch it runs *)
  a_build_log mix_run (amend_tab tab28) no_fail true p28 p28 (resync_a p28 (bw28 true w28a empty_asys) w28b) = [] /\
  map (stt (abase (inc true))) [1; 2] = [Pending; Pending] /\
  map (stt (abase (scr true))) [1; 2] = [Pending; Succeeded] /\
  same_result_b p28 (abase (inc true)) (abase (scr true)) = false /\
  (* without gating the rerun finds out that 10 is no longer wanted *)
  a_build_log mix_run (amend_tab tab28) no_fail false p28 p28 (resync_a p28 (bw28 false w28a empty_asys) w28b)
    = [(2, true)] /\
  same_result_b p28 (abase (inc false)) (abase (scr false)) = true.
Proof. vm_compute. repeat split; reflexivity. Qed.
