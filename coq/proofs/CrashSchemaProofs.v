(* proofs/CrashSchemaProofs.v -- C05: every prefix of the autocommitted statements of
   DBSession.apply_schema is reopened successfully and completed (the D13 theorem, which covers the
   point after the last statement, extended to every statement of apply_schema), for the statement
   order GENERATED from the source; the order "scripts first, stamps last" is refuted. *)
From Coq Require Import List NArith Bool Arith Lia.
From SV Require Import gen.GenCrashSchema model.CrashSchema.
Import ListNotations.
Open Scope nat_scope.

Lemma firstn_seq0 : forall n j s, firstn j (seq s n) = seq s (Nat.min j n).
Proof.
  induction n as [|n IH]; intros [|j] s; cbn; try reflexivity. rewrite IH. reflexivity.
Qed.

Lemma memn_seq i m : memn i (seq 0 m) = (i <? m).
Proof.
  unfold memn. destruct (i <? m) eqn:E.
  - apply Nat.ltb_lt in E. apply existsb_exists. exists i. split; [apply in_seq; lia | apply Nat.eqb_refl].
  - apply Nat.ltb_ge in E. destruct (existsb (Nat.eqb i) (seq 0 m)) eqn:X; [|reflexivity].
    apply existsb_exists in X. destruct X as (x & Hx & He). apply Nat.eqb_eq in He. subst.
    apply in_seq in Hx. lia.
Qed.

(* running the CREATEs 0 .. m-1 on a file that has the objects 0 .. j-1 gives 0 .. max j m - 1 *)
Lemma run_creates a v : forall m j,
  run (map SCreate (seq 0 m)) (mkH a v (seq 0 j)) = mkH a v (seq 0 (Nat.max j m)).
Proof.
  induction m as [|m IH]; intros j; [cbn; rewrite Nat.max_0_r; reflexivity|].
  rewrite seq_S, map_app. unfold run. rewrite fold_left_app. fold (run (map SCreate (seq 0 m)) (mkH a v (seq 0 j))).
  rewrite IH. cbn [map fold_left exec hobjs happ hver plus]. rewrite memn_seq.
  destruct (m <? Nat.max j m) eqn:E.
  - apply Nat.ltb_lt in E. f_equal. f_equal. lia.
  - apply Nat.ltb_ge in E. replace (Nat.max j m) with m by lia. replace (Nat.max j (S m)) with (S m) by lia.
    rewrite seq_S. reflexivity.
Qed.

Lemma prog_123 n : prog [1%N; 2%N; 3%N] n = SAppId :: SUserVersion :: map SCreate (seq 0 n).
Proof. unfold prog. cbn. rewrite app_nil_r. reflexivity. Qed.

Lemma run_prog_123 a v n j : j <= n -> run (prog [1%N; 2%N; 3%N] n) (mkH a v (seq 0 j)) = complete n.
Proof.
  intros Hj. rewrite prog_123. unfold run. cbn [fold_left exec happ hver hobjs].
  fold (run (map SCreate (seq 0 n)) (mkH true true (seq 0 j))). rewrite run_creates.
  unfold complete. f_equal. f_equal. lia.
Qed.

(* the file left by a kill after k statements *)
Lemma crash_123 n k :
  schema_crash [1%N; 2%N; 3%N] n k =
  match k with
  | 0 => new_file
  | 1 => mkH true false []
  | S (S j) => mkH true true (seq 0 (Nat.min j n))
  end.
Proof.
  unfold schema_crash. rewrite prog_123. destruct k as [|[|j]]; try reflexivity.
  cbn [firstn]. rewrite firstn_map, firstn_seq0. unfold run. cbn [fold_left exec new_file happ hver hobjs].
  fold (run (map SCreate (seq 0 (Nat.min j n))) (mkH true true [])).
  change (@nil nat) with (seq 0 0). rewrite run_creates. reflexivity.
Qed.

Lemma open_ok_123 n a v j :
  (j = 0 \/ (a = true /\ v = true)) -> j <= n ->
  exists fresh, open_schema [1%N; 2%N; 3%N] n (mkH a v (seq 0 j)) = SOk fresh (complete n).
Proof.
  intros Hc Hj. destruct j as [|j].
  - exists true. unfold open_schema. cbn [hobjs seq negb andb orb].
    change (@nil nat) with (seq 0 0). rewrite run_prog_123; [reflexivity | lia].
  - destruct Hc as [Hc|[-> ->]]; [discriminate|]. exists false. unfold open_schema.
    cbn [hobjs seq happ hver negb andb orb]. change (0 :: seq 1 j) with (seq 0 (S j)).
    rewrite run_prog_123; [reflexivity | exact Hj].
Qed.

Theorem schema_prefix_reopens_123 n k :
  exists fresh, open_schema [1%N; 2%N; 3%N] n (schema_crash [1%N; 2%N; 3%N] n k) = SOk fresh (complete n).
Proof.
  rewrite crash_123. destruct k as [|[|j]].
  - apply (open_ok_123 n false false 0); [left; reflexivity | lia].
  - apply (open_ok_123 n true false 0); [left; reflexivity | lia].
  - apply (open_ok_123 n true true (Nat.min j n)); [right; split; reflexivity | lia].
Qed.

Lemma schema_order_eq : apply_schema_writes = [1%N; 2%N; 3%N].
Proof. reflexivity. Qed.
Lemma schema_sequence_eq : apply_schema_sequence = [10%N; 11%N; 12%N; 1%N; 2%N; 3%N; 4%N].
Proof. reflexivity. Qed.

(* on the GENERATED order: for scripts with any number of objects, a kill after any number of
   autocommitted statements: the next apply_schema returns without error with the complete schema *)
Theorem schema_prefix_reopens n k :
  exists fresh, open_schema apply_schema_writes n (schema_crash apply_schema_writes n k) = SOk fresh (complete n).
Proof. rewrite schema_order_eq. apply schema_prefix_reopens_123. Qed.

(* stamps after the scripts: a kill after the first CREATE leaves objects without application id *)
Theorem schema_stamps_last_refuted :
  exists n k, open_schema [3%N; 1%N; 2%N] n (schema_crash [3%N; 1%N; 2%N] n k) = SInvalidApplicationId.
Proof. exists 2, 1. reflexivity. Qed.

Lemma schema_example :
  forallb (reopens_b apply_schema_writes 5) (seq 0 9) = true /\
  forallb (reopens_b [3%N; 1%N; 2%N] 5) (seq 0 9) = false /\
  hobjs (schema_crash apply_schema_writes 5 4) = [0; 1].
Proof. vm_compute. repeat split; reflexivity. Qed.
