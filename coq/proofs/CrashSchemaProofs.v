(* proofs/CrashSchemaProofs.v -- C05: every prefix of the autocommitted statements of
   DBSession.apply_schema is reopened successfully and completed (the D13 theorem, which covers the
   point after the last statement, extended to every statement of apply_schema), for the statement
   order and the DROP positions GENERATED from the source, for a first start and for a start on an
   existing database; the order "scripts first, stamps last" is refuted. *)
From Coq Require Import List NArith Bool Arith Lia.
From SV Require Import gen.GenCrashSchema model.CrashSchema.
Import ListNotations.
Open Scope nat_scope.

Lemma memn_app i l x : memn i (l ++ [x]) = memn i l || (i =? x).
Proof. unfold memn. rewrite existsb_app. cbn. rewrite orb_false_r. reflexivity. Qed.

Lemma memn_filter i j l : i <> j -> memn i (filter (fun x => negb (x =? j)) l) = memn i l.
Proof.
  intros Hne. unfold memn. induction l as [|x l IH]; [reflexivity|]. cbn [filter existsb].
  destruct (x =? j) eqn:E; cbn [negb existsb].
  - apply Nat.eqb_eq in E. subst. assert (i =? j = false) by (apply Nat.eqb_neq; exact Hne). rewrite H. exact IH.
  - rewrite IH. reflexivity.
Qed.

(* stamps are never taken back *)
Lemma exec_flags h s : (happ h = true -> happ (exec h s) = true) /\ (hver h = true -> hver (exec h s) = true).
Proof. destruct s; cbn [exec happ hver]; try (destruct (memn i (hobjs h))); cbn [happ hver]; auto. Qed.
Lemma run_flags l : forall h, (happ h = true -> happ (run l h) = true) /\ (hver h = true -> hver (run l h) = true).
Proof.
  induction l as [|s l IH]; intros h; [cbn; auto|]. cbn [run fold_left].
  destruct (exec_flags h s) as [A V]. destruct (IH (exec h s)) as [A' V']. split; auto.
Qed.

(* an object that is present stays present under the statements of OTHER objects *)
Lemma exec_keeps i h s : (forall j, s = SDrop j -> j <> i) -> memn i (hobjs h) = true -> memn i (hobjs (exec h s)) = true.
Proof.
  intros Hs Hm. destruct s as [| |j|j]; cbn [exec hobjs]; auto.
  - destruct (memn j (hobjs h)); cbn [hobjs]; [exact Hm|]. rewrite memn_app, Hm. reflexivity.
  - rewrite memn_filter; [exact Hm|]. intros E. apply (Hs j eq_refl). symmetry. exact E.
Qed.

Definition item (drops : list nat) (i : nat) : list sstmt := (if memn i drops then [SDrop i] else []) ++ [SCreate i].

Lemma item_creates drops i h : memn i (hobjs (run (item drops i) h)) = true.
Proof.
  unfold item. assert (H : forall h0, memn i (hobjs (exec h0 (SCreate i))) = true).
  { intros h0. cbn [exec]. destruct (memn i (hobjs h0)) eqn:E; [exact E|]. cbn [hobjs]. rewrite memn_app, Nat.eqb_refl. apply orb_true_r. }
  destruct (memn i drops); cbn [app run fold_left]; apply H.
Qed.

Lemma item_keeps drops i j h : i <> j -> memn i (hobjs h) = true -> memn i (hobjs (run (item drops j) h)) = true.
Proof.
  intros Hne Hm. unfold item.
  assert (Hc : forall h0, memn i (hobjs h0) = true -> memn i (hobjs (exec h0 (SCreate j))) = true).
  { intros h0 H0. apply exec_keeps; [intros x E; discriminate | exact H0]. }
  destruct (memn j drops); cbn [app run fold_left]; [|apply Hc; exact Hm].
  apply Hc. apply exec_keeps; [|exact Hm]. intros x E. injection E as <-. intros E2. apply Hne. symmetry. exact E2.
Qed.

Lemma script_S drops n : script drops (S n) = script drops n ++ item drops n.
Proof. unfold script. rewrite seq_S, flat_map_app. cbn [flat_map plus]. rewrite app_nil_r. reflexivity. Qed.

(* after the scripts every object is there, whatever the file held before *)
Lemma script_completes drops : forall n h i, i < n -> memn i (hobjs (run (script drops n) h)) = true.
Proof.
  induction n as [|n IH]; intros h i Hi; [lia|]. rewrite script_S. unfold run. rewrite fold_left_app.
  fold (run (script drops n) h). fold (run (item drops n) (run (script drops n) h)).
  destruct (Nat.eq_dec i n) as [->|Hne]; [apply item_creates|].
  apply item_keeps; [exact Hne|]. apply IH. lia.
Qed.

Lemma prog_123 drops n : prog [1%N; 2%N; 3%N] drops n = SAppId :: SUserVersion :: script drops n.
Proof. unfold prog. cbn. rewrite app_nil_r. reflexivity. Qed.

Lemma run_prog_complete drops n h : complete_b n (run (prog [1%N; 2%N; 3%N] drops n) h) = true.
Proof.
  rewrite prog_123. set (h1 := mkH true true (hobjs h)).
  change (run (SAppId :: SUserVersion :: script drops n) h) with (run (script drops n) h1). destruct (run_flags (script drops n) h1) as [A V].
  unfold complete_b. rewrite (A eq_refl), (V eq_refl). cbn [andb].
  apply forallb_forall. intros i Hi. apply in_seq in Hi. apply script_completes. lia.
Qed.

Lemma open_ok drops n c :
  (happ c = true \/ hobjs c = []) ->
  exists fresh h, open_schema [1%N; 2%N; 3%N] drops n c = SOk fresh h /\ complete_b n h = true.
Proof.
  intros Hc. unfold open_schema.
  assert (E : negb (match hobjs c with [] => true | _ => false end) && negb (happ c) = false).
  { destruct Hc as [Hc|Hc]; rewrite Hc; [apply andb_false_r | reflexivity]. }
  rewrite E. eexists. eexists. split; [reflexivity | apply run_prog_complete].
Qed.

(* a kill after k statements of a start on a new file, or on a file that carries the stamp *)
Lemma crash_openable drops n k h0 :
  (happ h0 = true \/ hobjs h0 = []) ->
  let c := schema_crash_from h0 [1%N; 2%N; 3%N] drops n k in happ c = true \/ hobjs c = [].
Proof.
  intros H0 c. unfold c, schema_crash_from. rewrite prog_123. destruct k as [|k]; [exact H0|].
  left. cbn [firstn run fold_left]. apply (proj1 (run_flags _ _)). reflexivity.
Qed.

Theorem schema_prefix_reopens_123 drops n k h0 :
  (happ h0 = true \/ hobjs h0 = []) ->
  exists fresh h, open_schema [1%N; 2%N; 3%N] drops n (schema_crash_from h0 [1%N; 2%N; 3%N] drops n k) = SOk fresh h /\
                  complete_b n h = true.
Proof. intros H0. apply open_ok. apply crash_openable. exact H0. Qed.

Lemma schema_order_eq : apply_schema_writes = [1%N; 2%N; 3%N].
Proof. reflexivity. Qed.
Lemma schema_sequence_eq : apply_schema_sequence = [10%N; 11%N; 12%N; 1%N; 2%N; 3%N; 4%N].
Proof. reflexivity. Qed.
Lemma schema_idempotent_eq : schema_statements_idempotent = true.
Proof. reflexivity. Qed.

(* on the GENERATED order, for ANY drop positions and number of objects (in particular the generated
   ones), a kill after any number of autocommitted statements of a first start or of a start on a
   stamped file: the next apply_schema returns without error, both stamps and every object present *)
Theorem schema_prefix_reopens drops n k h0 :
  (happ h0 = true \/ hobjs h0 = []) ->
  exists fresh h, open_schema apply_schema_writes drops n (schema_crash_from h0 apply_schema_writes drops n k) = SOk fresh h /\
                  complete_b n h = true.
Proof. rewrite schema_order_eq. apply schema_prefix_reopens_123. Qed.

(* stamps after the scripts: a kill after the first CREATE leaves objects without application id *)
Theorem schema_stamps_last_refuted :
  exists n k, open_schema [3%N; 1%N; 2%N] [] n (schema_crash [3%N; 1%N; 2%N] [] n k) = SInvalidApplicationId.
Proof. exists 2, 1. reflexivity. Qed.

(* the generated instance: all prefixes of the real statement list (45 objects, one of them dropped
   and created again), first start and start on a complete file; a kill right after the DROP of a
   start on a complete file leaves the file without that object, the next start puts it back *)
Definition gen_prog_len : nat := length (prog apply_schema_writes schema_drops schema_persistent_objects).
Definition gen_complete : head := run (prog apply_schema_writes schema_drops schema_persistent_objects) new_file.
Lemma schema_example :
  forallb (reopens_b apply_schema_writes schema_drops schema_persistent_objects) (seq 0 (S gen_prog_len)) = true /\
  forallb (fun k => match open_schema apply_schema_writes schema_drops schema_persistent_objects
                            (schema_crash_from gen_complete apply_schema_writes schema_drops schema_persistent_objects k) with
                    | SOk _ h => complete_b schema_persistent_objects h | _ => false end) (seq 0 (S gen_prog_len)) = true /\
  forallb (reopens_b [3%N; 1%N; 2%N] schema_drops schema_persistent_objects) (seq 0 (S gen_prog_len)) = false /\
  existsb (fun k => negb (complete_b schema_persistent_objects
             (schema_crash_from gen_complete apply_schema_writes schema_drops schema_persistent_objects k)))
          (seq 0 (S gen_prog_len)) = negb (match schema_drops with [] => true | _ => false end).
Proof. vm_compute. repeat split; reflexivity. Qed.
