(* proofs/TrellisDDProofs.v -- lemmas about model/TrellisDD.v (delete_detached). *)
From Coq Require Import List NArith Bool Lia.
From SV Require Import lib.Bytes.
From SV Require Import gen.GenClean.
From SV Require Import model.TrellisDD.
Import ListNotations.
Open Scope N_scope.

(* ---- keys ------------------------------------------------------------------------------ *)

Lemma key_eqb_eq (a b : key) : key_eqb a b = true <-> a = b.
Proof.
  unfold key_eqb. destruct a as [ka la], b as [kb lb]. cbn [fst snd].
  rewrite andb_true_iff, N.eqb_eq, str_eqb_eq. split.
  - intros [H1 H2]. subst. reflexivity.
  - intros H. inversion H. split; reflexivity.
Qed.

Lemma key_eqb_refl a : key_eqb a a = true.
Proof. apply key_eqb_eq. reflexivity. Qed.

Lemma key_eqb_neq (a b : key) : key_eqb a b = false <-> a <> b.
Proof.
  split.
  - intros H E. apply key_eqb_eq in E. congruence.
  - intros H. destruct (key_eqb a b) eqn:E; [apply key_eqb_eq in E; contradiction | reflexivity].
Qed.

Lemma key_eqb_sym a b : key_eqb a b = key_eqb b a.
Proof.
  destruct (key_eqb a b) eqn:E1, (key_eqb b a) eqn:E2; try reflexivity.
  - apply key_eqb_eq in E1. subst. rewrite key_eqb_refl in E2. discriminate.
  - apply key_eqb_eq in E2. subst. rewrite key_eqb_refl in E1. discriminate.
Qed.

Lemma mem_key_In k l : mem_key k l = true <-> In k l.
Proof.
  unfold mem_key. rewrite existsb_exists. split.
  - intros [x [Hx He]]. apply key_eqb_eq in He. subst. exact Hx.
  - intros H. exists k. split; [exact H | apply key_eqb_refl].
Qed.

(* ---- filter ---------------------------------------------------------------------------- *)

Lemma filter_len_le {A} (f : A -> bool) (l : list A) : (length (filter f l) <= length l)%nat.
Proof. induction l as [|a l IH]; [reflexivity|]. cbn [filter]. destruct (f a); cbn [length]; lia. Qed.

Lemma filter_length_lt {A} (f : A -> bool) (l : list A) (x : A) :
  In x l -> f x = false -> (length (filter f l) < length l)%nat.
Proof.
  induction l as [|a l IH]; intros Hin Hf; [destruct Hin|].
  cbn [filter length]. destruct Hin as [->|Hin].
  - rewrite Hf. pose proof (filter_len_le f l). lia.
  - specialize (IH Hin Hf). destruct (f a); cbn [length]; lia.
Qed.

(* ---- one deletion ---------------------------------------------------------------------- *)

Lemma del_node_length g n :
  In n (gnodes g) -> (length (gnodes (del_node g (nkey n))) < length (gnodes g))%nat.
Proof.
  intros Hin. unfold del_node. cbn [gnodes].
  apply filter_length_lt with (x := n); [exact Hin|].
  rewrite key_eqb_refl. reflexivity.
Qed.

Lemma del_node_nodes_in g k n :
  In n (gnodes (del_node g k)) <-> In n (gnodes g) /\ nkey n <> k.
Proof.
  unfold del_node. cbn [gnodes]. rewrite filter_In, negb_true_iff, key_eqb_neq. reflexivity.
Qed.

Lemma del_node_deps_in g k d :
  In d (gdeps (del_node g k)) <-> In d (gdeps g) /\ snd d <> k.
Proof.
  unfold del_node. cbn [gdeps]. rewrite filter_In, negb_true_iff, key_eqb_neq. reflexivity.
Qed.

(* ---- the loop reaches a fixed point within |nodes| iterations ----------------------------- *)

Definition settled (g : graph) : Prop := forall n, In n (gnodes g) -> eligible g n = false.

Lemma find_none_settled g : find (eligible g) (gnodes g) = None -> settled g.
Proof. intros H n Hin. exact (find_none _ _ H n Hin). Qed.

Lemma dd_loop_settled fuel : forall g acc,
  (length (gnodes g) <= fuel)%nat -> settled (fst (dd_loop fuel g acc)).
Proof.
  induction fuel as [|fuel IH]; intros g acc Hlen.
  - cbn [dd_loop fst]. intros n Hin. destruct (gnodes g); [destruct Hin | cbn [length] in Hlen; lia].
  - cbn [dd_loop]. destruct (find (eligible g) (gnodes g)) as [n|] eqn:Hf.
    + apply IH. apply find_some in Hf. destruct Hf as [Hin _].
      pose proof (del_node_length g n Hin). lia.
    + cbn [fst]. apply find_none_settled. exact Hf.
Qed.

Lemma dd_loop_settled_id fuel g acc : settled g -> dd_loop fuel g acc = (g, acc).
Proof.
  intros Hs. destruct fuel as [|fuel]; [reflexivity|]. cbn [dd_loop].
  destruct (find (eligible g) (gnodes g)) as [n|] eqn:Hf; [|reflexivity].
  apply find_some in Hf. destruct Hf as [Hin He]. rewrite (Hs n Hin) in He. discriminate.
Qed.

(* extra fuel is never used *)
Lemma dd_loop_fuel_enough fuel : forall g acc extra,
  (length (gnodes g) <= fuel)%nat -> dd_loop (fuel + extra) g acc = dd_loop fuel g acc.
Proof.
  induction fuel as [|fuel IH]; intros g acc extra Hlen.
  - cbn [Nat.add dd_loop]. apply dd_loop_settled_id.
    intros n Hin. destruct (gnodes g); [destruct Hin | cbn [length] in Hlen; lia].
  - cbn [Nat.add dd_loop]. destruct (find (eligible g) (gnodes g)) as [n|] eqn:Hf; [|reflexivity].
    apply IH. apply find_some in Hf. destruct Hf as [Hin _].
    pose proof (del_node_length g n Hin). lia.
Qed.

Lemma dd_raw_settled g : settled (fst (dd_raw g)).
Proof. unfold dd_raw, dd_fuel. apply dd_loop_settled. lia. Qed.

(* ---- after_lost only touches the stored step hash --------------------------------------- *)

Lemma after_lost_key lost n : nkey (after_lost lost n) = nkey n.
Proof. unfold after_lost. destruct (_ && _); reflexivity. Qed.
Lemma after_lost_creator lost n : ncreator (after_lost lost n) = ncreator n.
Proof. unfold after_lost. destruct (_ && _); reflexivity. Qed.
Lemma after_lost_det lost n : ndet (after_lost lost n) = ndet n.
Proof. unfold after_lost. destruct (_ && _); reflexivity. Qed.
Lemma after_lost_fstate lost n : nfstate (after_lost lost n) = nfstate n.
Proof. unfold after_lost. destruct (_ && _); reflexivity. Qed.
Lemma after_lost_fhash lost n : nfhash (after_lost lost n) = nfhash n.
Proof. unfold after_lost. destruct (_ && _); reflexivity. Qed.

Lemma after_lost_nil n : after_lost [] n = n.
Proof. unfold after_lost. cbn [mem_key existsb andb]. reflexivity. Qed.

Lemma map_after_lost_nil ns : map (after_lost []) ns = ns.
Proof. induction ns as [|a ns IH]; [reflexivity|]. cbn [map]. rewrite after_lost_nil, IH. reflexivity. Qed.

Lemma creator_is_after_lost lost k n : creator_is k (after_lost lost n) = creator_is k n.
Proof. unfold creator_is. rewrite after_lost_creator. reflexivity. Qed.

Lemma has_product_after_lost lost ns deps k :
  has_product (mkGraph (map (after_lost lost) ns) deps) k = has_product (mkGraph ns deps) k.
Proof.
  unfold has_product. cbn [gnodes]. induction ns as [|a ns IH]; [reflexivity|].
  cbn [map existsb]. rewrite creator_is_after_lost, IH. reflexivity.
Qed.

Lemma eligible_after_lost lost ns deps n :
  eligible (mkGraph (map (after_lost lost) ns) deps) (after_lost lost n) = eligible (mkGraph ns deps) n.
Proof.
  unfold eligible. rewrite after_lost_det, after_lost_key, has_product_after_lost. reflexivity.
Qed.

Lemma graph_eta g : mkGraph (gnodes g) (gdeps g) = g.
Proof. destruct g. reflexivity. Qed.

Lemma settled_after_lost lost g :
  settled g -> settled (mkGraph (map (after_lost lost) (gnodes g)) (gdeps g)).
Proof.
  intros Hs n Hin. cbn [gnodes] in Hin. apply in_map_iff in Hin. destruct Hin as [m [<- Hm]].
  rewrite eligible_after_lost, graph_eta. apply Hs. exact Hm.
Qed.

(* ---- dd_fixpoint ------------------------------------------------------------------------ *)

Lemma trellis_dd_graph g :
  dd_g (trellis_dd g) =
  mkGraph (map (after_lost (lost_creators (snd (dd_raw g)))) (gnodes (fst (dd_raw g)))) (gdeps (fst (dd_raw g))).
Proof. unfold trellis_dd. destruct (dd_raw g) as [g1 acc]. reflexivity. Qed.

Lemma trellis_dd_deleted g : dd_deleted (trellis_dd g) = rev (snd (dd_raw g)).
Proof. unfold trellis_dd. destruct (dd_raw g) as [g1 acc]. reflexivity. Qed.

Theorem dd_fixpoint g : settled (dd_g (trellis_dd g)).
Proof. rewrite trellis_dd_graph. apply settled_after_lost. apply dd_raw_settled. Qed.

Theorem workflow_dd_fixpoint g : settled (dd_g (workflow_dd g)).
Proof. unfold workflow_dd. apply dd_fixpoint. Qed.

(* spelled out: no detached node of the result is both product-free and sink-free *)
Lemma settled_spelled g : settled g ->
  forall n, In n (gnodes g) -> ndet n = true -> has_product g (nkey n) = true \/ has_sink g (nkey n) = true.
Proof.
  intros Hs n Hin Hd. specialize (Hs n Hin). unfold eligible in Hs. rewrite Hd in Hs.
  destruct (has_product g (nkey n)); [left; reflexivity|].
  destruct (has_sink g (nkey n)); [right; reflexivity|]. discriminate.
Qed.

(* ---- dd_terminates ---------------------------------------------------------------------- *)

Theorem dd_terminates g extra :
  dd_loop (dd_fuel g + extra) g [] = dd_raw g /\ settled (fst (dd_raw g)).
Proof.
  split; [|apply dd_raw_settled]. unfold dd_raw, dd_fuel. apply dd_loop_fuel_enough. lia.
Qed.

(* ---- dd_idempotent ---------------------------------------------------------------------- *)

Lemma dd_raw_settled_id g : settled g -> dd_raw g = (g, []).
Proof. intros Hs. unfold dd_raw. apply dd_loop_settled_id. exact Hs. Qed.

Lemma trellis_dd_settled_id g : settled g -> trellis_dd g = mkDD g [] false.
Proof.
  intros Hs. unfold trellis_dd. rewrite (dd_raw_settled_id g Hs).
  cbn [lost_creators flat_map rev]. rewrite map_after_lost_nil, graph_eta.
  f_equal. induction (gnodes g) as [|a l IH]; [reflexivity|].
  cbn [existsb]. unfold lost_error at 1. cbn [mem_key existsb andb orb]. exact IH.
Qed.

Theorem dd_idempotent g :
  trellis_dd (dd_g (trellis_dd g)) = mkDD (dd_g (trellis_dd g)) [] false.
Proof. apply trellis_dd_settled_id. apply dd_fixpoint. Qed.

(* ---- dd_survivors: the survivors are the greatest self-supporting set -------------------- *)

Definition keys_nodup (g : graph) : Prop := NoDup (map nkey (gnodes g)).              (* UNIQUE (kind, label) *)
Definition deps_closed (g : graph) : Prop :=                                            (* FOREIGN KEY (sink) *)
  forall d, In d (gdeps g) -> exists n, In n (gnodes g) /\ nkey n = snd d.

Lemma nodup_map_inj {A B} (f : A -> B) (l : list A) a b :
  NoDup (map f l) -> In a l -> In b l -> f a = f b -> a = b.
Proof.
  induction l as [|x l IH]; intros Hnd Ha Hb Hf; [destruct Ha|].
  cbn [map] in Hnd. inversion Hnd as [|y ys Hnotin Hnd']. subst.
  destruct Ha as [->|Ha], Hb as [->|Hb].
  - reflexivity.
  - exfalso. apply Hnotin. rewrite Hf. apply in_map. exact Hb.
  - exfalso. apply Hnotin. rewrite <- Hf. apply in_map. exact Ha.
  - apply IH; assumption.
Qed.

Lemma nodup_map_filter {A B} (f : A -> B) (p : A -> bool) (l : list A) :
  NoDup (map f l) -> NoDup (map f (filter p l)).
Proof.
  induction l as [|x l IH]; intros Hnd; [exact Hnd|].
  cbn [map] in Hnd. inversion Hnd as [|y ys Hnotin Hnd']. subst.
  cbn [filter]. destruct (p x).
  - cbn [map]. constructor; [|apply IH; exact Hnd'].
    intros Hin. apply Hnotin. apply in_map_iff in Hin. destruct Hin as [z [Hz Hin]].
    apply filter_In in Hin. destruct Hin as [Hin _]. rewrite <- Hz. apply in_map. exact Hin.
  - apply IH. exact Hnd'.
Qed.

Lemma keys_nodup_del g k : keys_nodup g -> keys_nodup (del_node g k).
Proof. unfold keys_nodup, del_node. cbn [gnodes]. apply nodup_map_filter. Qed.

Lemma has_product_true g k :
  has_product g k = true <-> exists p, In p (gnodes g) /\ ncreator p = Some k.
Proof.
  unfold has_product. rewrite existsb_exists. split.
  - intros [p [Hp Hc]]. exists p. split; [exact Hp|]. unfold creator_is in Hc.
    destruct (ncreator p) as [c|]; [|discriminate]. apply key_eqb_eq in Hc. subst. reflexivity.
  - intros [p [Hp Hc]]. exists p. split; [exact Hp|]. unfold creator_is. rewrite Hc. apply key_eqb_refl.
Qed.

Lemma has_sink_true g k : has_sink g k = true <-> exists m, In (k, m) (gdeps g).
Proof.
  unfold has_sink. rewrite existsb_exists. split.
  - intros [[a b] [Hd He]]. cbn [fst] in He. apply key_eqb_eq in He. subst. exists b. exact Hd.
  - intros [m Hd]. exists (k, m). split; [exact Hd|]. cbn [fst]. apply key_eqb_refl.
Qed.

Lemma succ_of_blocks g k m : succ_of g k m -> has_product g k = true \/ has_sink g k = true.
Proof.
  intros [[p [Hp [_ Hc]]]|Hd].
  - left. apply has_product_true. exists p. split; assumption.
  - right. apply has_sink_true. exists m. exact Hd.
Qed.

Lemma eligible_not_in_ss g S x :
  keys_nodup g -> self_supporting g S -> In x (gnodes g) -> eligible g x = true -> ~ In (nkey x) S.
Proof.
  intros Hnd Hss Hx He Hin. destruct (Hss _ Hin) as [n [Hn [Hk Hc]]].
  assert (n = x) as -> by (apply (nodup_map_inj nkey (gnodes g)); assumption).
  unfold eligible in He. apply andb_true_iff in He. destruct He as [He Hs].
  apply andb_true_iff in He. destruct He as [Hd Hp].
  destruct Hc as [Hc|[m [Hm _]]]; [congruence|].
  apply succ_of_blocks in Hm. destruct Hm as [Hm|Hm]; rewrite Hm in *; discriminate.
Qed.

Lemma ss_del g S x :
  keys_nodup g -> self_supporting g S -> In x (gnodes g) -> eligible g x = true ->
  self_supporting (del_node g (nkey x)) S.
Proof.
  intros Hnd Hss Hx He k Hk.
  pose proof (eligible_not_in_ss g S x Hnd Hss Hx He) as Hnot.
  destruct (Hss _ Hk) as [n [Hn [Hkn Hc]]].
  exists n. split; [|split; [exact Hkn|]].
  - apply del_node_nodes_in. split; [exact Hn|]. intros E. apply Hnot. rewrite <- E, Hkn. exact Hk.
  - destruct Hc as [Hc|[m [Hm HmS]]]; [left; exact Hc|]. right. exists m. split; [|exact HmS].
    assert (m <> nkey x) as Hne by (intros E; apply Hnot; rewrite <- E; exact HmS).
    destruct Hm as [[p [Hp [Hpk Hpc]]]|Hd].
    + left. exists p. split; [|split; assumption]. apply del_node_nodes_in. split; [exact Hp|]. congruence.
    + right. apply del_node_deps_in. split; [exact Hd|]. cbn [snd]. exact Hne.
Qed.

Lemma dd_loop_ss S fuel : forall g acc,
  keys_nodup g -> self_supporting g S -> self_supporting (fst (dd_loop fuel g acc)) S.
Proof.
  induction fuel as [|fuel IH]; intros g acc Hnd Hss; [exact Hss|].
  cbn [dd_loop]. destruct (find (eligible g) (gnodes g)) as [x|] eqn:Hf; [|exact Hss].
  apply find_some in Hf. destruct Hf as [Hx He].
  apply IH; [apply keys_nodup_del; exact Hnd | apply ss_del; assumption].
Qed.

(* what the loop keeps is part of what it started from, and stays closed *)
Definition sub_closed (g0 g : graph) : Prop :=
  (forall n, In n (gnodes g) -> In n (gnodes g0)) /\
  (forall d, In d (gdeps g) -> In d (gdeps g0)) /\ deps_closed g.

Lemma sub_closed_del g0 g k : sub_closed g0 g -> sub_closed g0 (del_node g k).
Proof.
  intros [Hn [Hd Hc]]. split; [|split].
  - intros n Hin. apply del_node_nodes_in in Hin. apply Hn. apply Hin.
  - intros d Hin. apply del_node_deps_in in Hin. apply Hd. apply Hin.
  - intros d Hin. apply del_node_deps_in in Hin. destruct Hin as [Hin Hne].
    destruct (Hc d Hin) as [n [Hnn Hk]]. exists n. split; [|exact Hk].
    apply del_node_nodes_in. split; [exact Hnn|]. congruence.
Qed.

Lemma dd_loop_sub g0 fuel : forall g acc, sub_closed g0 g -> sub_closed g0 (fst (dd_loop fuel g acc)).
Proof.
  induction fuel as [|fuel IH]; intros g acc Hs; [exact Hs|].
  cbn [dd_loop]. destruct (find (eligible g) (gnodes g)) as [x|]; [|exact Hs].
  apply IH. apply sub_closed_del. exact Hs.
Qed.

Lemma settled_sub_ss g0 g :
  sub_closed g0 g -> settled g -> self_supporting g0 (map nkey (gnodes g)).
Proof.
  intros [Hn [Hd Hc]] Hs k Hk. apply in_map_iff in Hk. destruct Hk as [n [Hkn Hin]].
  exists n. split; [apply Hn; exact Hin | split; [exact Hkn|]].
  destruct (ndet n) eqn:Hdet; [right | left; reflexivity].
  destruct (settled_spelled g Hs n Hin Hdet) as [Hp|Hp]; rewrite Hkn in Hp.
  - apply has_product_true in Hp. destruct Hp as [p [Hp Hpc]].
    exists (nkey p). split; [|apply in_map; exact Hp].
    left. exists p. split; [apply Hn; exact Hp | split; [reflexivity | exact Hpc]].
  - apply has_sink_true in Hp. destruct Hp as [m Hm].
    exists m. split; [right; apply Hd; exact Hm|].
    destruct (Hc _ Hm) as [s [Hs1 Hs2]]. cbn [snd] in Hs2. rewrite <- Hs2. apply in_map. exact Hs1.
Qed.

Lemma trellis_dd_keys g :
  map nkey (gnodes (dd_g (trellis_dd g))) = map nkey (gnodes (fst (dd_raw g))).
Proof.
  rewrite trellis_dd_graph. cbn [gnodes]. rewrite map_map.
  apply map_ext. intros n. apply after_lost_key.
Qed.

Theorem dd_survivors g : keys_nodup g -> deps_closed g -> forall k,
  In k (map nkey (gnodes (dd_g (trellis_dd g)))) <-> exists S, self_supporting g S /\ In k S.
Proof.
  intros Hnd Hc k. rewrite trellis_dd_keys. split.
  - intros Hk. exists (map nkey (gnodes (fst (dd_raw g)))). split; [|exact Hk].
    apply settled_sub_ss; [|apply dd_raw_settled].
    unfold dd_raw. apply dd_loop_sub. split; [|split]; auto.
  - intros [S [Hss Hk]].
    pose proof (dd_loop_ss S (dd_fuel g) g [] Hnd Hss) as Hfin.
    destruct (Hfin k Hk) as [n [Hn [Hkn _]]]. rewrite <- Hkn. apply in_map. exact Hn.
Qed.

(* Path form of the "if" half: whatever reaches an attached node, or a cycle, along product and
   sink edges survives. *)
Inductive reaches (g : graph) : key -> key -> Prop :=
| reaches_refl k n : In n (gnodes g) -> nkey n = k -> reaches g k k
| reaches_step k m l n : In n (gnodes g) -> nkey n = k -> succ_of g k m -> reaches g m l -> reaches g k l.

Lemma reaches_target_node g k l : reaches g k l -> exists n, In n (gnodes g) /\ nkey n = l.
Proof. induction 1 as [k n Hn Hk|k m l n Hn Hk Hs Hr IH]; [exists n; split; assumption | exact IH]. Qed.

(* the keys along a path, source included, target excluded *)
Lemma reaches_path_ss g k l T :
  reaches g k l -> self_supporting g T -> In l T ->
  exists S, self_supporting g S /\ In k S.
Proof.
  induction 1 as [k n Hn Hk|k m l n Hn Hk Hs Hr IH]; intros HT Hl.
  - exists T. split; assumption.
  - destruct (IH HT Hl) as [S [HS HmS]]. exists (k :: S). split; [|left; reflexivity].
    intros x [<-|Hx].
    + exists n. split; [exact Hn | split; [exact Hk|]]. right. exists m. split; [exact Hs | right; exact HmS].
    + destruct (HS x Hx) as [n' [Hn' [Hk' Hc']]]. exists n'. split; [exact Hn' | split; [exact Hk'|]].
      destruct Hc' as [Hc'|[m' [Hm' Hin']]]; [left; exact Hc' | right; exists m'; split; [exact Hm' | right; exact Hin']].
Qed.

Theorem dd_survives_if_reaches_attached g k l n :
  keys_nodup g -> deps_closed g ->
  reaches g k l -> In n (gnodes g) -> nkey n = l -> ndet n = false ->
  In k (map nkey (gnodes (dd_g (trellis_dd g)))).
Proof.
  intros Hnd Hc Hr Hn Hk Hd. apply dd_survivors; [assumption..|].
  apply (reaches_path_ss g k l [l]); [exact Hr | | left; reflexivity].
  intros x [<-|[]]. exists n. split; [exact Hn | split; [exact Hk | left; exact Hd]].
Qed.

(* keys on a path towards l: each has a node and is attached or steps to the next or to l *)
Definition supported_upto (g : graph) (l : key) (V : list key) : Prop :=
  forall x, In x V -> exists n, In n (gnodes g) /\ nkey n = x /\
    (ndet n = false \/ exists y, succ_of g x y /\ (In y V \/ y = l)).

Lemma reaches_supported_upto g a l :
  reaches g a l -> exists V, supported_upto g l V /\ (In a V \/ a = l).
Proof.
  induction 1 as [a n Hn Hk|a b c n Hn Hk Hsab Hrbc IH].
  - exists []. split; [intros x []| right; reflexivity].
  - destruct IH as [V [HV Hb]]. exists (a :: V). split; [|left; left; reflexivity].
    intros x [<-|Hx].
    + exists n. split; [exact Hn | split; [exact Hk|]]. right. exists b. split; [exact Hsab|].
      destruct Hb as [Hb|Hb]; [left; right; exact Hb | right; exact Hb].
    + destruct (HV x Hx) as [n' [Hn' [Hk' Hc']]]. exists n'. split; [exact Hn' | split; [exact Hk'|]].
      destruct Hc' as [Hc'|[y [Hy [Hy'|Hy']]]].
      * left; exact Hc'.
      * right; exists y; split; [exact Hy | left; right; exact Hy'].
      * right; exists y; split; [exact Hy | right; exact Hy'].
Qed.

(* a cycle: l has a successor m from which l is reached again *)
Theorem dd_survives_if_reaches_cycle g k l m :
  keys_nodup g -> deps_closed g ->
  reaches g k l -> succ_of g l m -> reaches g m l ->
  In k (map nkey (gnodes (dd_g (trellis_dd g)))).
Proof.
  intros Hnd Hc Hr Hs Hback. apply dd_survivors; [assumption..|].
  destruct (reaches_target_node g k l Hr) as [nl [Hnl Hkl]].
  destruct (reaches_supported_upto g m l Hback) as [V [HV Hm]].
  apply (reaches_path_ss g k l (l :: V)); [exact Hr | | left; reflexivity].
  intros x [<-|Hx].
  - exists nl. split; [exact Hnl | split; [exact Hkl|]]. right. exists m. split; [exact Hs|].
    destruct Hm as [Hm|Hm]; [right; exact Hm | left; symmetry; exact Hm].
  - destruct (HV x Hx) as [n' [Hn' [Hk' Hc']]]. exists n'. split; [exact Hn' | split; [exact Hk'|]].
    destruct Hc' as [Hc'|[y [Hy [Hy'|Hy']]]].
    + left; exact Hc'.
    + right; exists y; split; [exact Hy | right; exact Hy'].
    + right; exists y; split; [exact Hy | left; symmetry; exact Hy'].
Qed.
