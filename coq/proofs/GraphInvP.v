(* C09: the well-formedness invariant as a proposition over the tables (lists) of the state,
   and the proof that the executable boolean inv_b of model/GraphInv.v decides it. *)
From Coq Require Import List NArith Bool Lia.
From SV Require Import lib.Bytes lib.Closure model.Graph model.GraphInv proofs.GraphBase proofs.GraphNodes.
Import ListNotations.
Open Scope N_scope.

Definition findf (l : str) (fs : list frow) : option frow := find (fun f => str_eqb (fl f) l) fs.
Definition finds (l : str) (ss : list srow) : option srow := find (fun r => str_eqb (sl r) l) ss.

Definition KL (ns : list node) : list key := map nk ns.
Definition FL (fs : list frow) : list str := map fl fs.
Definition SL (ss : list srow) : list str := map sl ss.
Definition edge_of (d : dep) : key * key := (dsrc d, dsnk d).
Definition EL (ds : list dep) : list (key * key) := map edge_of ds.

Lemma dep_edges_EL s : dep_edges s = EL (deps s).
Proof. reflexivity. Qed.

(* rows: file nodes <-> file rows, step nodes <-> step rows, satellites refer to step rows *)
Record RWl (ns : list node) (fs : list frow) (ss : list srow) (sh : list str) (es : list envr) : Prop := {
  rw_fnodup : NoDup (FL fs);
  rw_snodup : NoDup (SL ss);
  rw_files : forall l, In l (FL fs) <-> In (KFile, l) (KL ns);
  rw_steps : forall l, In l (SL ss) <-> In (KStep, l) (KL ns);
  rw_hnodup : NoDup sh;
  rw_hstep : incl sh (SL ss);
  rw_estep : incl (map estep es) (SL ss) }.

Record DWl (ns : list node) (ds : list dep) : Prop := {
  dw_kinds : forall d, In d ds -> dep_kinds_ok (dsrc d) (dsnk d) = true;
  dw_src : forall d, In d ds -> In (dsrc d) (KL ns);
  dw_snk : forall d, In d ds -> In (dsnk d) (KL ns);
  dw_nodup : NoDup (EL ds) }.

Definition UDl (ns : list node) (fs : list frow) : Prop :=
  forall r, In r fs -> fstt r = FUndeclared ->
  forall n, findn (KFile, fl r) ns = Some n -> ncre n = None.

Definition fh_ok_b (r : frow) : bool :=
  match fstt r with
  | FConfirmed | FBuilt | FOutdated => is_some (fh r)
  | FMissing | FPlanned | FVolatile => negb (is_some (fh r))
  | FUndeclared | FUnconfirmed => true
  end.
Definition FHl (fs : list frow) : Prop := forall r, In r fs -> fh_ok_b r = true.

(* I4a: output edges point to products in an OUTPUT/VOLATILE state, as long as the sink has a creator *)
Definition out_state (f : fstate) : bool :=
  match f with FPlanned | FBuilt | FOutdated | FVolatile => true | _ => false end.
Definition OEl (ns : list node) (fs : list frow) (ds : list dep) : Prop :=
  forall d l f, In d ds -> dsrc d = (KStep, l) -> dsnk d = (KFile, f) ->
  forall n c, findn (KFile, f) ns = Some n -> ncre n = Some c ->
  c = (KStep, l) /\ exists r, findf f fs = Some r /\ out_state (fstt r) = true.

(* hh = true: the full invariant; hh = false: without the clause "holding > 0 -> RUNNING" *)
Section HH.
Context {hh : bool}.
Definition sw_ok_b (r : srow) : bool :=
  (negb (sdef r) || sstate_eqb (sst r) SPending) &&
  (negb hh || ((shold r =? 0) || sstate_eqb (sst r) SRunning)).
Definition SWl (ss : list srow) : Prop := forall r, In r ss -> sw_ok_b r = true.

Record Inv (s : st) : Prop := {
  inv_nw : NWl (nodes s);
  inv_rw : RWl (nodes s) (files s) (steps s) (shash s) (envs s);
  inv_dw : DWl (nodes s) (deps s);
  inv_ac : acyclic (EL (deps s));
  inv_ud : UDl (nodes s) (files s);
  inv_fh : FHl (files s);
  inv_sw : SWl (steps s);
  inv_oe : OEl (nodes s) (files s) (deps s) }.
End HH.
Arguments sw_ok_b : clear implicits.
Arguments SWl : clear implicits.
Arguments Inv : clear implicits.

(* ------------------------------------------------------------------------------------------ *)
(* lookups in the row tables                                                                   *)
(* ------------------------------------------------------------------------------------------ *)
Lemma findf_In l fs r : findf l fs = Some r -> In r fs /\ fl r = l.
Proof. intros H. apply find_some in H. destruct H as [H1 H2]. apply str_eqb_eq in H2. auto. Qed.
Lemma finds_In l ss r : finds l ss = Some r -> In r ss /\ sl r = l.
Proof. intros H. apply find_some in H. destruct H as [H1 H2]. apply str_eqb_eq in H2. auto. Qed.

Lemma findf_none l fs : findf l fs = None <-> ~ In l (FL fs).
Proof.
  unfold findf, FL. rewrite find_none_iff. split.
  - intros H Hin. apply in_map_iff in Hin. destruct Hin as [r [Hr1 Hr2]].
    specialize (H r Hr2). rewrite Hr1, str_eqb_refl in H. discriminate.
  - intros H r Hr. apply str_eqb_neq. intros He. apply H. rewrite <- He. apply in_map. exact Hr.
Qed.
Lemma finds_none l ss : finds l ss = None <-> ~ In l (SL ss).
Proof.
  unfold finds, SL. rewrite find_none_iff. split.
  - intros H Hin. apply in_map_iff in Hin. destruct Hin as [r [Hr1 Hr2]].
    specialize (H r Hr2). rewrite Hr1, str_eqb_refl in H. discriminate.
  - intros H r Hr. apply str_eqb_neq. intros He. apply H. rewrite <- He. apply in_map. exact Hr.
Qed.

Lemma findf_some_in l fs : In l (FL fs) <-> exists r, findf l fs = Some r.
Proof.
  split.
  - intros H. destruct (findf l fs) eqn:E; [eexists; reflexivity|]. apply findf_none in E. contradiction.
  - intros [r Hr] . destruct (in_dec str_eq_dec l (FL fs)) as [Hi|Hi]; [exact Hi|].
    apply findf_none in Hi. congruence.
Qed.
Lemma finds_some_in l ss : In l (SL ss) <-> exists r, finds l ss = Some r.
Proof.
  split.
  - intros H. destruct (finds l ss) eqn:E; [eexists; reflexivity|]. apply finds_none in E. contradiction.
  - intros [r Hr] . destruct (in_dec str_eq_dec l (SL ss)) as [Hi|Hi]; [exact Hi|].
    apply finds_none in Hi. congruence.
Qed.
Lemma findn_some_iff k ns : In k (KL ns) <-> exists n, findn k ns = Some n.
Proof.
  split; [apply findn_some_in|].
  intros [n Hn]. destruct (in_dec key_eq_dec k (KL ns)) as [Hi|Hi]; [exact Hi|].
  apply findn_none in Hi. congruence.
Qed.

Lemma In_findf fs r : NoDup (FL fs) -> In r fs -> findf (fl r) fs = Some r.
Proof.
  intros Hd Hr. destruct (findf (fl r) fs) as [m|] eqn:Hf.
  - apply findf_In in Hf. destruct Hf as [Hm He]. f_equal. eapply NoDup_map_inj; eassumption.
  - apply findf_none in Hf. exfalso. apply Hf. apply in_map. exact Hr.
Qed.
Lemma In_finds ss r : NoDup (SL ss) -> In r ss -> finds (sl r) ss = Some r.
Proof.
  intros Hd Hr. destruct (finds (sl r) ss) as [m|] eqn:Hf.
  - apply finds_In in Hf. destruct Hf as [Hm He]. f_equal. eapply NoDup_map_inj; eassumption.
  - apply finds_none in Hf. exfalso. apply Hf. apply in_map. exact Hr.
Qed.

Lemma findf_map l (g : frow -> frow) fs :
  (forall r, fl (g r) = fl r) -> findf l (map g fs) = option_map g (findf l fs).
Proof. intros H. unfold findf. apply find_map_key. intros r. rewrite H. reflexivity. Qed.
Lemma finds_map l (g : srow -> srow) ss :
  (forall r, sl (g r) = sl r) -> finds l (map g ss) = option_map g (finds l ss).
Proof. intros H. unfold finds. apply find_map_key. intros r. rewrite H. reflexivity. Qed.

(* ------------------------------------------------------------------------------------------ *)
(* reflection of the remaining conjuncts                                                       *)
(* ------------------------------------------------------------------------------------------ *)
Lemma nodup_by_map {A B} (eqb : B -> B -> bool) (f : A -> B) l :
  (forall a b, eqb a b = true <-> a = b) ->
  (nodup_by (fun x y => eqb (f x) (f y)) l = true <-> NoDup (map f l)).
Proof.
  intros Hspec. induction l as [|x l IH]; cbn.
  - split; [constructor | reflexivity].
  - rewrite andb_true_iff, IH, negb_true_iff, existsb_false_iff. split.
    + intros [H1 H2]. constructor; [|exact H2]. intros Hin. apply in_map_iff in Hin.
      destruct Hin as [y [Hy1 Hy2]]. specialize (H1 y Hy2).
      assert (eqb (f x) (f y) = true) by (apply Hspec; congruence). congruence.
    + intros H. inversion H as [|x' l' Hn Hd]; subst. split; [|exact Hd].
      intros y Hy. destruct (eqb (f x) (f y)) eqn:E; [|reflexivity].
      apply Hspec in E. exfalso. apply Hn. rewrite E. apply in_map. exact Hy.
Qed.

Lemma pair_key_eqb_eq (a b : key * key) :
  key_eqb (fst a) (fst b) && key_eqb (snd a) (snd b) = true <-> a = b.
Proof.
  destruct a, b. cbn. rewrite andb_true_iff, !key_eqb_eq. split; [intros [-> ->]; reflexivity | intros H; inversion H; auto].
Qed.

Lemma RW_reflect s : inv_rows_b s = true <-> RWl (nodes s) (files s) (steps s) (shash s) (envs s).
Proof.
  unfold inv_rows_b. rewrite !andb_true_iff.
  rewrite (nodup_by_NoDup str_eqb _ str_eqb_eq), (nodup_by_NoDup str_eqb _ str_eqb_eq),
          (nodup_by_NoDup str_eqb _ str_eqb_eq).
  rewrite !forallb_forall. split.
  - intros [[[[[[[H1 H2] H3] H4] H5] H6] H7] H8]. constructor; try assumption.
    + intros l. split.
      * intros Hl. apply in_map_iff in Hl. destruct Hl as [r [Hr1 Hr2]]. subst l.
        specialize (H3 r Hr2). apply is_some_ex in H3. apply findn_some_iff. exact H3.
      * intros Hl. apply in_map_iff in Hl. destruct Hl as [n [Hn1 Hn2]].
        specialize (H5 n Hn2). rewrite Hn1 in H5. cbn in H5. apply is_some_ex in H5.
        apply findf_some_in. exact H5.
    + intros l. split.
      * intros Hl. apply in_map_iff in Hl. destruct Hl as [r [Hr1 Hr2]]. subst l.
        specialize (H4 r Hr2). apply is_some_ex in H4. apply findn_some_iff. exact H4.
      * intros Hl. apply in_map_iff in Hl. destruct Hl as [n [Hn1 Hn2]].
        specialize (H5 n Hn2). rewrite Hn1 in H5. cbn in H5. apply is_some_ex in H5.
        apply finds_some_in. exact H5.
    + intros l Hl. specialize (H7 l Hl). apply is_some_ex in H7. apply finds_some_in. exact H7.
    + intros l Hl. apply in_map_iff in Hl. destruct Hl as [e [He1 He2]]. subst l.
      specialize (H8 e He2). apply is_some_ex in H8. apply finds_some_in. exact H8.
  - intros [H1 H2 H3 H4 H5 H6 H7]. repeat split; try assumption.
    + intros r Hr. apply is_some_ex. apply findn_some_iff. apply H3. apply in_map. exact Hr.
    + intros r Hr. apply is_some_ex. apply findn_some_iff. apply H4. apply in_map. exact Hr.
    + intros n Hn. destruct (nk n) as [kk kl] eqn:Hk. cbn. destruct kk; try reflexivity.
      * apply is_some_ex. apply findf_some_in. apply H3. rewrite <- Hk. apply in_map. exact Hn.
      * apply is_some_ex. apply finds_some_in. apply H4. rewrite <- Hk. apply in_map. exact Hn.
    + intros l Hl. apply is_some_ex. apply finds_some_in. apply H6. exact Hl.
    + intros e He. apply is_some_ex. apply finds_some_in. apply H7. apply in_map. exact He.
Qed.

Lemma DW_reflect s : inv_deps_b s = true <-> DWl (nodes s) (deps s).
Proof.
  unfold inv_deps_b. rewrite andb_true_iff, forallb_forall.
  rewrite (nodup_by_map (fun a b : key * key => key_eqb (fst a) (fst b) && key_eqb (snd a) (snd b))
                        edge_of (deps s) pair_key_eqb_eq).
  split.
  - intros [H1 H2]. constructor; try exact H2; intros d Hd; specialize (H1 d Hd);
      rewrite !andb_true_iff in H1; destruct H1 as [[Ha Hb] Hc].
    + exact Ha.
    + apply findn_some_iff. apply is_some_ex. exact Hb.
    + apply findn_some_iff. apply is_some_ex. exact Hc.
  - intros [H1 H2 H3 H4]. split; [|exact H4]. intros d Hd. rewrite !andb_true_iff. repeat split.
    + apply H1. exact Hd.
    + apply is_some_ex. apply findn_some_iff. apply H2. exact Hd.
    + apply is_some_ex. apply findn_some_iff. apply H3. exact Hd.
Qed.

Lemma rec_sinks_spec s k x : mem_key x (rec_sinks k s) = true <-> path (EL (deps s)) k x.
Proof.
  unfold rec_sinks, rec_sinks_from.
  change (mem_key x (closure_from key_eqb (dep_edges s) (S (length (deps s))) [k]))
    with (memb key_eqb x (closure_from key_eqb (EL (deps s)) (S (length (deps s))) [k])).
  rewrite (closure_spec key_eqb key_eqb_eq).
  - split; [intros [a [[<-|[]] Hp]]; exact Hp | intros Hp; exists k; split; [left; reflexivity | exact Hp]].
  - unfold EL. rewrite map_length. lia.
Qed.

Lemma AC_reflect s : inv_acyclic_b s = true <-> acyclic (EL (deps s)).
Proof.
  unfold inv_acyclic_b. rewrite forallb_forall, acyclic_edges. split.
  - intros H a b Hin Hp. apply in_map_iff in Hin. destruct Hin as [d [Hd1 Hd2]].
    inversion Hd1; subst a b. specialize (H d Hd2). apply negb_true_iff in H.
    apply rec_sinks_spec in Hp. congruence.
  - intros H d Hd. apply negb_true_iff. destruct (mem_key (dsrc d) (rec_sinks (dsnk d) s)) eqn:E; [|reflexivity].
    exfalso. apply rec_sinks_spec in E. apply (H (dsrc d) (dsnk d)); [|exact E].
    apply in_map_iff. exists d. split; [reflexivity | exact Hd].
Qed.

Lemma UD_reflect s : inv_nocreator_b s = true <-> UDl (nodes s) (files s).
Proof.
  unfold inv_nocreator_b, UDl. rewrite forallb_forall. split.
  - intros H r Hr Hst n Hn. specialize (H r Hr). rewrite Hst in H. cbn in H.
    unfold creator_of, find_node in H. fold (findn (KFile, fl r) (nodes s)) in H. rewrite Hn in H.
    destruct (ncre n); [discriminate | reflexivity].
  - intros H r Hr. destruct (fstate_eqb (fstt r) FUndeclared) eqn:E; [|reflexivity].
    apply fstate_eqb_eq in E. cbn. unfold creator_of, find_node. fold (findn (KFile, fl r) (nodes s)).
    destruct (findn (KFile, fl r) (nodes s)) as [n|] eqn:Hn; [|reflexivity].
    rewrite (H r Hr E n Hn). reflexivity.
Qed.

Lemma OE_reflect s : inv_outedge_b s = true <-> OEl (nodes s) (files s) (deps s).
Proof.
  unfold inv_outedge_b, OEl. rewrite forallb_forall. split.
  - intros H d l f Hd Hs Hk n c Hn Hc. specialize (H d Hd). rewrite Hs, Hk in H.
    unfold creator_of, find_node in H. fold (findn (KFile, f) (nodes s)) in H. rewrite Hn, Hc in H.
    apply andb_true_iff in H. destruct H as [H1 H2]. apply key_eqb_eq in H1. split; [exact H1|].
    unfold fstate_of, find_file in H2. fold (findf f (files s)) in H2.
    destruct (findf f (files s)) as [r|]; [|discriminate]. exists r. split; [reflexivity|].
    unfold out_state. destruct (fstt r); try discriminate; reflexivity.
  - intros H d Hd. destruct (dsrc d) as [[] l] eqn:Es; try reflexivity.
    destruct (dsnk d) as [[] f] eqn:Ek; try reflexivity.
    unfold creator_of, find_node. fold (findn (KFile, f) (nodes s)).
    destruct (findn (KFile, f) (nodes s)) as [n|] eqn:Hn; [|reflexivity].
    destruct (ncre n) as [c|] eqn:Hc; [|reflexivity].
    destruct (H d l f Hd Es Ek n c Hn Hc) as [H1 [r [H2 H3]]]. rewrite H1, key_eqb_refl. cbn.
    unfold fstate_of, find_file. fold (findf f (files s)). rewrite H2.
    unfold out_state in H3. destruct (fstt r); try discriminate; reflexivity.
Qed.

Lemma FH_reflect s : inv_fhash_b s = true <-> FHl (files s).
Proof. unfold inv_fhash_b, FHl. rewrite forallb_forall. reflexivity. Qed.
Lemma SW_reflect s : inv_step_b s = true <-> SWl true (steps s).
Proof. unfold inv_step_b, SWl. rewrite forallb_forall. reflexivity. Qed.
Lemma SW_reflect_core s : inv_deferred_b s = true <-> SWl false (steps s).
Proof. unfold inv_deferred_b, SWl. rewrite forallb_forall. reflexivity. Qed.

(* I3 follows from I3' and I1 *)
Lemma undeclared_from_inv hh s : Inv hh s -> inv_undeclared_b s = true.
Proof.
  intros HI. unfold inv_undeclared_b. apply forallb_forall. intros r Hr.
  destruct (fstate_eqb (fstt r) FUndeclared) eqn:E; [|reflexivity]. apply fstate_eqb_eq in E. cbn.
  unfold is_detached, find_node. fold (findn (KFile, fl r) (nodes s)).
  destruct (findn (KFile, fl r) (nodes s)) as [n|] eqn:Hn; [|reflexivity].
  pose proof (inv_ud _ HI r Hr E n Hn) as Hc.
  pose proof (findn_In _ _ _ Hn) as [Hin Hk].
  assert (Hl : local_ok (nodes s) n).
  { apply (nw_local _ (inv_nw _ HI)); [exact Hin | rewrite Hk; discriminate]. }
  unfold local_ok in Hl. rewrite Hc in Hl. exact Hl.
Qed.

Theorem inv_b_iff s : inv_b s = true <-> Inv true s.
Proof.
  unfold inv_b. split.
  - intros H. rewrite !andb_true_iff in H.
    destruct H as [[[[[[[[[[H1 H2] H3] H4] H5] H6] H7] H8] H9] H10] H11].
    constructor.
    + apply NW_reflect. rewrite H1, H2, H3. reflexivity.
    + apply RW_reflect. exact H4.
    + apply DW_reflect. exact H5.
    + apply AC_reflect. exact H6.
    + apply UD_reflect. exact H10.
    + apply FH_reflect. exact H8.
    + apply SW_reflect. exact H9.
    + apply OE_reflect. exact H11.
  - intros HI. pose proof (proj2 (NW_reflect s) (inv_nw _ HI)) as HN.
    rewrite !andb_true_iff in HN. destruct HN as [[H1 H2] H3].
    rewrite H1, H2, H3, (proj2 (RW_reflect s) (inv_rw _ HI)), (proj2 (DW_reflect s) (inv_dw _ HI)),
            (proj2 (AC_reflect s) (inv_ac _ HI)), (undeclared_from_inv true s HI),
            (proj2 (FH_reflect s) (inv_fh _ HI)), (proj2 (SW_reflect s) (inv_sw _ HI)),
            (proj2 (UD_reflect s) (inv_ud _ HI)), (proj2 (OE_reflect s) (inv_oe _ HI)).
    reflexivity.
Qed.

Theorem inv_core_b_iff s : inv_core_b s = true <-> Inv false s.
Proof.
  unfold inv_core_b. split.
  - intros H. rewrite !andb_true_iff in H.
    destruct H as [[[[[[[[[[H1 H2] H3] H4] H5] H6] H7] H8] H9] H10] H11].
    constructor.
    + apply NW_reflect. rewrite H1, H2, H3. reflexivity.
    + apply RW_reflect. exact H4.
    + apply DW_reflect. exact H5.
    + apply AC_reflect. exact H6.
    + apply UD_reflect. exact H10.
    + apply FH_reflect. exact H8.
    + apply SW_reflect_core. exact H9.
    + apply OE_reflect. exact H11.
  - intros HI. pose proof (proj2 (NW_reflect s) (inv_nw _ HI)) as HN.
    rewrite !andb_true_iff in HN. destruct HN as [[H1 H2] H3].
    rewrite H1, H2, H3, (proj2 (RW_reflect s) (inv_rw _ HI)), (proj2 (DW_reflect s) (inv_dw _ HI)),
            (proj2 (AC_reflect s) (inv_ac _ HI)), (undeclared_from_inv false s HI),
            (proj2 (FH_reflect s) (inv_fh _ HI)), (proj2 (SW_reflect_core s) (inv_sw _ HI)),
            (proj2 (UD_reflect s) (inv_ud _ HI)), (proj2 (OE_reflect s) (inv_oe _ HI)).
    reflexivity.
Qed.

(* the full invariant implies the core invariant *)
Lemma Inv_true_false s : Inv true s -> Inv false s.
Proof.
  intros [I1 I2 I3 I4 I5 I6 I7 I8]. constructor; try assumption.
  intros r Hr. specialize (I7 r Hr). unfold sw_ok_b in *. apply andb_true_iff in I7. destruct I7 as [I7 _].
  rewrite I7. reflexivity.
Qed.
