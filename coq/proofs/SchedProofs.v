(* Proofs about model/Sched.v (C10, C11). *)
From Coq Require Import List NArith Bool Arith Lia.
From SV Require Import lib.Bytes lib.SqlExpr gen.GenSched model.Sched.
Import ListNotations.
Open Scope N_scope.

(* ------------------------------------------------------------------------------------------ *)
(* Generic helpers                                                                            *)
(* ------------------------------------------------------------------------------------------ *)

Lemma mem_N_In x l : mem_N x l = true <-> In x l.
Proof.
  unfold mem_N. rewrite existsb_exists. split.
  - intros [y [Hy He]]. apply N.eqb_eq in He. subst. exact Hy.
  - intros H. exists x. split; [exact H | apply N.eqb_refl].
Qed.

Lemma mem_N_false x l : mem_N x l = false <-> ~ In x l.
Proof.
  rewrite <- mem_N_In. destruct (mem_N x l); split; intros; congruence.
Qed.

Lemma maxl_ge d l : d <= maxl d l.
Proof. induction l as [|a l IH]; cbn [maxl fold_right]; [lia | unfold maxl in *; lia]. Qed.

Lemma maxl_in d l x : In x l -> x <= maxl d l.
Proof.
  induction l as [|a l IH]; intros H; [destruct H|].
  cbn [maxl fold_right]. destruct H as [->|H]; [lia|]. specialize (IH H). unfold maxl in *. lia.
Qed.

Lemma maxl_cases d l : maxl d l = d \/ In (maxl d l) l.
Proof.
  induction l as [|a l IH]; [left; reflexivity|].
  cbn [maxl fold_right]. fold (maxl d l).
  destruct (N.max_spec a (maxl d l)) as [[_ ->]|[_ ->]].
  - destruct IH as [IH|IH]; [left; exact IH | right; right; exact IH].
  - right; left; reflexivity.
Qed.

(* keys are unique *)
Definition WF (g : graph) : Prop := NoDup (map s_key (g_steps g)).

Lemma find_key_some (l : list step) k s :
  find (fun s => s_key s =? k) l = Some s -> In s l /\ s_key s = k.
Proof. intros H. apply find_some in H. destruct H as [H1 H2]. apply N.eqb_eq in H2. auto. Qed.

Lemma find_step_some g k s : find_step g k = Some s -> In s (g_steps g) /\ s_key s = k.
Proof. apply find_key_some. Qed.

Lemma find_nodup (l : list step) s :
  NoDup (map s_key l) -> In s l -> find (fun x => s_key x =? s_key s) l = Some s.
Proof.
  induction l as [|a l IH]; intros Hnd Hin; [destruct Hin|].
  cbn [find]. inversion Hnd as [|? ? Hna Hnd']; subst.
  destruct Hin as [->|Hin].
  - rewrite N.eqb_refl. reflexivity.
  - destruct (s_key a =? s_key s) eqn:E.
    + apply N.eqb_eq in E. exfalso. apply Hna. rewrite E. apply in_map. exact Hin.
    + apply IH; assumption.
Qed.

Lemma find_step_in g s : WF g -> In s (g_steps g) -> find_step g (s_key s) = Some s.
Proof. intros. apply find_nodup; assumption. Qed.

Lemma find_step_none g k : find_step g k = None -> ~ In k (map s_key (g_steps g)).
Proof.
  unfold find_step. intros H Hin. apply in_map_iff in Hin. destruct Hin as [s [Hk Hs]].
  eapply find_none in H; [|exact Hs]. cbn in H. rewrite Hk, N.eqb_refl in H. discriminate.
Qed.

(* maps over the step list that keep the keys *)
Lemma find_map_key (f : step -> step) (l : list step) k :
  (forall s, s_key (f s) = s_key s) ->
  find (fun s => s_key s =? k) (map f l) = option_map f (find (fun s => s_key s =? k) l).
Proof.
  intros Hk. induction l as [|a l IH]; [reflexivity|].
  cbn [map find]. rewrite Hk. destruct (s_key a =? k); [reflexivity | exact IH].
Qed.

Lemma map_key_map (f : step -> step) (l : list step) :
  (forall s, s_key (f s) = s_key s) -> map s_key (map f l) = map s_key l.
Proof. intros Hk. rewrite map_map. apply map_ext. exact Hk. Qed.

(* A map over the steps that only rewrites cached columns and flags. *)
Record keeps (f : step -> step) : Prop := {
  k_key : forall s, s_key (f s) = s_key s;
  k_state : forall s, s_state (f s) = s_state s;
  k_need : forall s, s_need (f s) = s_need s;
  k_deferred : forall s, s_deferred (f s) = s_deferred s;
  k_holding : forall s, s_holding (f s) = s_holding s;
  k_detached : forall s, s_detached (f s) = s_detached s;
  k_creator : forall s, s_creator (f s) = s_creator s;
  k_stored : forall s, s_hash_stored (f s) = s_hash_stored s;
  k_hh : forall s, s_has_hash (f s) = s_has_hash s;
  k_duration : forall s, s_duration (f s) = s_duration s;
  k_res : forall s, s_res (f s) = s_res s }.

Definition mapg (f : step -> step) (g : graph) : graph := with_steps g (map f (g_steps g)).

Lemma find_step_mapg f g k : keeps f -> find_step (mapg f g) k = option_map f (find_step g k).
Proof. intros K. unfold find_step, mapg. cbn [g_steps with_steps]. apply find_map_key. apply K. Qed.

Lemma WF_mapg f g : keeps f -> WF g -> WF (mapg f g).
Proof. intros K H. unfold WF, mapg. cbn [g_steps with_steps]. rewrite map_key_map; [exact H | apply K]. Qed.

Lemma length_mapg f g : length (g_steps (mapg f g)) = length (g_steps g).
Proof. unfold mapg. cbn [g_steps with_steps]. apply map_length. Qed.

Lemma ok_nh_keeps f s : keeps f -> ok_nh (f s) = ok_nh s.
Proof. intros K. unfold ok_nh. rewrite (k_state f K). reflexivity. Qed.
Lemma ok_h_keeps f s : keeps f -> ok_h (f s) = ok_h s.
Proof. intros K. unfold ok_h. rewrite ok_nh_keeps by exact K. rewrite (k_holding f K). reflexivity. Qed.

Lemma creator_step_mapg f g s :
  keeps f -> creator_step (mapg f g) (f s) = option_map f (creator_step g s).
Proof.
  intros K. unfold creator_step. rewrite (k_creator f K).
  destruct (s_creator s); [apply find_step_mapg; exact K | reflexivity].
Qed.

(* ------------------------------------------------------------------------------------------ *)
(* _ready                                                                                     *)
(* ------------------------------------------------------------------------------------------ *)

Definition FlagInv_ready (g : graph) : Prop :=
  forall s, In s (g_steps g) -> s_chk_ready s = false -> s_ready s = ready_spec g (s_key s).

Lemma ready_spec_steps g l k : ready_spec (with_steps g l) k = ready_spec g k.
Proof. reflexivity. Qed.

Lemma update_meta_ready_correct g :
  FlagInv_ready g ->
  forall s, In s (g_steps (update_meta_ready g)) ->
    s_ready s = ready_spec (update_meta_ready g) (s_key s) /\ s_chk_ready s = false.
Proof.
  intros HF s Hin. unfold update_meta_ready in *. cbn [g_steps with_steps] in Hin.
  rewrite ready_spec_steps. apply in_map_iff in Hin. destruct Hin as [s0 [Hs Hin]].
  destruct (s_chk_ready s0) eqn:E; subst s.
  - cbn. split; reflexivity.
  - split; [apply HF; assumption | exact E].
Qed.

(* ------------------------------------------------------------------------------------------ *)
(* _safe / _safe_ignoring_hold                                                                *)
(* ------------------------------------------------------------------------------------------ *)

(* The creator forest is well founded, with a rank below the number of steps. *)
Definition CreatorRank (g : graph) (rank : N -> nat) : Prop :=
  (forall s c, In s (g_steps g) -> creator_step g s = Some c -> (rank (s_key c) < rank (s_key s))%nat) /\
  (forall s, In s (g_steps g) -> (rank (s_key s) < length (g_steps g))%nat).
Definition CreatorAcyclic (g : graph) : Prop := exists rank, CreatorRank g rank.

Lemma creator_step_in g s c : creator_step g s = Some c -> In c (g_steps g).
Proof.
  unfold creator_step. destruct (s_creator s); [|discriminate].
  intros H. apply find_step_some in H. tauto.
Qed.

Section SafeProofs.
  Variable g : graph.
  Variable rank : N -> nat.
  Hypothesis HR : CreatorRank g rank.

  Lemma safe_fuel_stable n : forall m s, In s (g_steps g) ->
    (rank (s_key s) <= n)%nat -> (rank (s_key s) <= m)%nat -> safe_fuel n g s = safe_fuel m g s.
  Proof.
    destruct HR as [HR1 _].
    induction n as [|n IH]; intros m s Hin Hn Hm.
    - destruct m as [|m]; [reflexivity|]. cbn [safe_fuel].
      destruct (creator_step g s) as [c|] eqn:E; [|reflexivity].
      specialize (HR1 s c Hin E). lia.
    - destruct m as [|m].
      + cbn [safe_fuel]. destruct (creator_step g s) as [c|] eqn:E; [|reflexivity].
        specialize (HR1 s c Hin E). lia.
      + cbn [safe_fuel]. destruct (creator_step g s) as [c|] eqn:E; [|reflexivity].
        pose proof (HR1 s c Hin E) as Hlt.
        rewrite (IH m c); [reflexivity | eapply creator_step_in; exact E | lia | lia].
  Qed.

  Lemma aflag_stable n : forall m s, In s (g_steps g) ->
    (rank (s_key s) < n)%nat -> (rank (s_key s) < m)%nat -> aflag n g s = aflag m g s.
  Proof.
    destruct HR as [HR1 _].
    induction n as [|n IH]; intros m s Hin Hn Hm; [lia|].
    destruct m as [|m]; [lia|]. cbn [aflag].
    destruct (creator_step g s) as [c|] eqn:E; [|reflexivity].
    pose proof (HR1 s c Hin E) as Hlt.
    rewrite (IH m c); [reflexivity | eapply creator_step_in; exact E | lia | lia].
  Qed.

  Definition L := length (g_steps g).

  Definition FlagInv_safe : Prop :=
    forall s, In s (g_steps g) -> aflag (S L) g s = false -> (s_safe s, s_safe_nh s) = safe_spec g s.

  (* A flagged step never sees a creator whose cached value is lower than its definition. *)
  Definition NoStaleLow : Prop :=
    forall s c, In s (g_steps g) -> s_chk_safe s = true -> creator_step g s = Some c ->
      (fst (safe_spec g c) = true -> s_safe c = true) /\
      (snd (safe_spec g c) = true -> s_safe_nh c = true).

  Hypothesis HF : FlagInv_safe.

  Lemma cached_of_unflagged n c : In c (g_steps g) -> (rank (s_key c) < n)%nat ->
    aflag n g c = false -> (s_safe c, s_safe_nh c) = safe_fuel n g c.
  Proof.
    intros Hin Hn Ha. destruct HR as [_ HR2]. pose proof (HR2 c Hin) as Hb. fold L in Hb.
    rewrite (HF c Hin).
    - unfold safe_spec. fold L. apply safe_fuel_stable; [exact Hin | lia | lia].
    - rewrite <- Ha. apply aflag_stable; [exact Hin | lia | lia].
  Qed.

  Lemma trace_unflagged n : forall s, aflag n g s = false -> trace_vals n g s = [].
  Proof.
    induction n as [|n IH]; intros s Ha; [reflexivity|].
    cbn [aflag] in Ha. apply orb_false_iff in Ha. destruct Ha as [Ha1 Ha2].
    cbn [trace_vals]. rewrite Ha1. cbn [app].
    destruct (creator_step g s) as [c|]; [|reflexivity]. rewrite (IH c Ha2). reflexivity.
  Qed.

  Lemma last_map_lift {A} (f : A -> A) (l : list A) d : l <> [] -> last (map f l) d = f (last l d).
  Proof.
    induction l as [|a l IH]; [congruence|]. intros _. destruct l as [|b l]; [reflexivity|].
    change (last (f a :: map f (b :: l)) d = f (last (a :: b :: l) d)).
    transitivity (last (map f (b :: l)) d); [reflexivity|].
    rewrite IH by congruence. reflexivity.
  Qed.

  Lemma last_app_ne {A} (l1 l2 : list A) d : l2 <> [] -> last (l1 ++ l2) d = last l2 d.
  Proof.
    intros H. induction l1 as [|a l1 IH]; [reflexivity|].
    cbn [app]. destruct (l1 ++ l2) eqn:E.
    - destruct l1; cbn in E; [contradiction | discriminate].
    - rewrite <- IH. reflexivity.
  Qed.

  (* The deepest row (seeded at the topmost flagged ancestor) carries the defined value. *)
  Lemma trace_deepest n : forall s, In s (g_steps g) -> (rank (s_key s) < n)%nat ->
    aflag n g s = true ->
    trace_vals n g s <> [] /\ last (trace_vals n g s) (true, true) = safe_fuel n g s.
  Proof.
    destruct HR as [HR1 HR2].
    induction n as [|n IH]; intros s Hin Hn Ha; [lia|].
    cbn [aflag] in Ha. cbn [trace_vals safe_fuel].
    destruct (creator_step g s) as [c|] eqn:E.
    - pose proof (HR1 s c Hin E) as Hlt. pose proof (creator_step_in g s c E) as Hc.
      destruct (aflag n g c) eqn:Hac.
      + destruct (IH c Hc ltac:(lia) Hac) as [Hne Hlast].
        split.
        * intros Habs. apply app_eq_nil in Habs. destruct Habs as [_ Habs].
          apply map_eq_nil in Habs. contradiction.
        * rewrite last_app_ne.
          -- rewrite last_map_lift by exact Hne. rewrite Hlast. reflexivity.
          -- intros Habs. apply map_eq_nil in Habs. contradiction.
      + rewrite orb_false_r in Ha. rewrite Ha.
        rewrite (trace_unflagged n c Hac). cbn [map app].
        split; [congruence|]. cbn [last]. unfold seed_val. rewrite E.
        pose proof (cached_of_unflagged n c Hc ltac:(lia) Hac) as Hcache.
        rewrite <- Hcache. reflexivity.
    - rewrite orb_false_r in Ha. rewrite Ha. cbn [app].
      split; [congruence|]. cbn [last]. unfold seed_val. rewrite E. reflexivity.
  Qed.

  (* Under NoStaleLow every row is at least the defined value. *)
  Lemma trace_above n : NoStaleLow -> forall s, In s (g_steps g) -> (rank (s_key s) < n)%nat ->
    forall v, In v (trace_vals n g s) ->
      (fst (safe_fuel n g s) = true -> fst v = true) /\ (snd (safe_fuel n g s) = true -> snd v = true).
  Proof.
    intros HN. destruct HR as [HR1 HR2].
    induction n as [|n IH]; intros s Hin Hn v Hv; [destruct Hv|].
    cbn [trace_vals] in Hv. cbn [safe_fuel].
    destruct (creator_step g s) as [c|] eqn:E.
    - pose proof (HR1 s c Hin E) as Hlt. pose proof (creator_step_in g s c E) as Hc.
      pose proof (HR2 c Hc) as Hb. fold L in Hb.
      assert (Hst : safe_fuel n g c = safe_spec g c).
      { unfold safe_spec. fold L. apply safe_fuel_stable; [exact Hc | lia | lia]. }
      apply in_app_or in Hv. destruct Hv as [Hv|Hv].
      + destruct (s_chk_safe s) eqn:Ec; [|destruct Hv].
        destruct Hv as [<-|[]]. unfold seed_val. rewrite E. cbn [fst snd].
        destruct (HN s c Hin Ec E) as [H1 H2]. rewrite Hst.
        split; intros H; apply andb_true_iff in H; destruct H as [Ha Hb'];
          apply andb_true_iff; split; auto.
      + apply in_map_iff in Hv. destruct Hv as [v' [<- Hv']]. cbn [fst snd].
        destruct (IH c Hc ltac:(lia) v' Hv') as [H1 H2].
        split; intros H; apply andb_true_iff in H; destruct H as [Ha Hb'];
          apply andb_true_iff; split; auto.
    - destruct (s_chk_safe s); [|destruct Hv]. cbn [app] in Hv. destruct Hv as [<-|[]].
      unfold seed_val. rewrite E. cbn. auto.
  Qed.

  Lemma last_in {A} (l : list A) d : l <> [] -> In (last l d) l.
  Proof.
    induction l as [|a l IH]; [congruence|]. intros _. destruct l as [|b l]; [left; reflexivity|].
    right. apply IH. congruence.
  Qed.

  Lemma forallb_proj_min (p : bool * bool -> bool) (l : list (bool * bool)) (spec : bool) d :
    l <> [] -> p (last l d) = spec -> (forall v, In v l -> spec = true -> p v = true) ->
    forallb p l = spec.
  Proof.
    intros Hne Hlast Hall. destruct spec.
    - apply forallb_forall. intros v Hv. apply Hall; [exact Hv | reflexivity].
    - destruct (forallb p l) eqn:E; [|reflexivity].
      rewrite forallb_forall in E. rewrite <- Hlast. symmetry. apply E. apply last_in. exact Hne.
  Qed.

  (* what one step looks like after the update *)
  Definition upd_safe (pol : merge_policy) (s : step) : step :=
    match merge_vals pol (trace_vals (safe_fuel_of g) g s) with
    | None => set_chk_safe s false
    | Some v => set_chk_safe (set_safe s (fst v) (snd v)) false
    end.

  Lemma upd_safe_keeps pol : keeps (upd_safe pol).
  Proof.
    constructor; intros s; unfold upd_safe;
      destruct (merge_vals pol (trace_vals (safe_fuel_of g) g s)); reflexivity.
  Qed.

  Lemma update_meta_safe_is_mapg pol : update_meta_safe_with pol g = mapg (upd_safe pol) g.
  Proof. reflexivity. Qed.

  Lemma upd_safe_value pol s : In s (g_steps g) ->
    (pol = MergeDeepest \/ NoStaleLow) ->
    (s_safe (upd_safe pol s), s_safe_nh (upd_safe pol s)) = safe_spec g s /\
    s_chk_safe (upd_safe pol s) = false.
  Proof.
    intros Hin Hpol. destruct HR as [HR1 HR2]. pose proof (HR2 s Hin) as Hb. fold L in Hb.
    assert (Hspec : safe_fuel (S L) g s = safe_spec g s).
    { unfold safe_spec. fold L. apply safe_fuel_stable; [exact Hin | lia | lia]. }
    unfold upd_safe, safe_fuel_of. fold L.
    destruct (aflag (S L) g s) eqn:Ha.
    - destruct (trace_deepest (S L) s Hin ltac:(lia) Ha) as [Hne Hlast].
      unfold merge_vals. destruct (trace_vals (S L) g s) as [|v0 tl] eqn:Etv; [congruence|].
      rewrite <- Etv in *. split; [|reflexivity].
      destruct pol.
      + (* MIN *)
        destruct Hpol as [Hpol|HN]; [discriminate|].
        cbn [set_chk_safe set_safe s_safe s_safe_nh fst snd].
        rewrite <- Hspec.
        rewrite (surjective_pairing (safe_fuel (S L) g s)). f_equal.
        * apply (forallb_proj_min fst _ _ (true, true) Hne).
          -- rewrite Hlast. reflexivity.
          -- intros v Hv. apply (trace_above (S L) HN s Hin ltac:(lia) v Hv).
        * apply (forallb_proj_min snd _ _ (true, true) Hne).
          -- rewrite Hlast. reflexivity.
          -- intros v Hv. apply (trace_above (S L) HN s Hin ltac:(lia) v Hv).
      + cbn [set_chk_safe set_safe s_safe s_safe_nh]. rewrite Hlast, Hspec.
        symmetry. apply surjective_pairing.
    - rewrite (trace_unflagged (S L) s Ha). cbn [merge_vals].
      split; [|reflexivity]. cbn [set_chk_safe s_safe s_safe_nh]. apply HF; assumption.
  Qed.
End SafeProofs.

(* specifications do not depend on cached columns or flags *)
Lemma safe_fuel_mapg f g n s : keeps f -> safe_fuel n (mapg f g) (f s) = safe_fuel n g s.
Proof.
  intros K. revert s. induction n as [|n IH]; intros s; [reflexivity|].
  cbn [safe_fuel]. rewrite creator_step_mapg by exact K.
  destruct (creator_step g s) as [c|]; [|reflexivity]. cbn [option_map].
  rewrite IH, ok_h_keeps, ok_nh_keeps by exact K. reflexivity.
Qed.

Lemma safe_spec_mapg f g s : keeps f -> safe_spec (mapg f g) (f s) = safe_spec g s.
Proof. intros K. unfold safe_spec. rewrite length_mapg. apply safe_fuel_mapg. exact K. Qed.

Theorem update_meta_safe_correct_gen pol g :
  CreatorAcyclic g -> FlagInv_safe g ->
  (pol = MergeDeepest \/ NoStaleLow g) ->
  forall s, In s (g_steps (update_meta_safe_with pol g)) ->
    (s_safe s, s_safe_nh s) = safe_spec (update_meta_safe_with pol g) s /\ s_chk_safe s = false.
Proof.
  intros [rank HR] HF Hpol s Hin.
  rewrite update_meta_safe_is_mapg in *. unfold mapg in Hin. cbn [g_steps with_steps] in Hin.
  apply in_map_iff in Hin. destruct Hin as [s0 [<- Hin]].
  rewrite safe_spec_mapg by apply upd_safe_keeps.
  apply (upd_safe_value g rank HR HF pol s0 Hin Hpol).
Qed.

(* ------------------------------------------------------------------------------------------ *)
(* _implied_need: the propagation loop                                                        *)
(* ------------------------------------------------------------------------------------------ *)

(* The two-hop consumer relation is well founded, with a rank below the number of steps. *)
Definition NeedRank (g : graph) (rank : N -> nat) : Prop :=
  (forall k y, In y (cons_keys g k) -> (rank y < rank k)%nat) /\
  (forall k, In k (attached_keys g) -> (rank k < length (g_steps g))%nat).
Definition DepAcyclic (g : graph) : Prop := exists rank, NeedRank g rank.

Definition Cons1 (g : graph) (v : vals) (k : N) : Prop := fst (v k) = fst (new_val g v k).
Definition Inv (g : graph) (v : vals) (seed : list N) : Prop :=
  forall k, In k (attached_keys g) -> ~ In k seed -> Cons1 g v k.

(* A step may disagree with max(declared, elevation, cached values of its consumers) only if it
   is flagged itself or one of its attached consumers is flagged. *)
Definition FlagInv_need (g : graph) : Prop :=
  forall s, In s (g_steps g) -> s_detached s = false -> s_chk_after s = false ->
    (forall y, In y (cons_keys g (s_key s)) -> ~ In y (seed0 g)) ->
    s_ineed s = fst (new_val g (vals_of g) (s_key s)).

Lemma new_val_ext g v v' k :
  (forall y, In y (cons_keys g k) -> v y = v' y) -> new_val g v k = new_val g v' k.
Proof.
  intros H. unfold new_val. f_equal; f_equal; f_equal; apply map_ext_in; intros y Hy; rewrite (H y Hy); reflexivity.
Qed.

Lemma cons_keys_attached g k y : In y (cons_keys g k) -> In y (attached_keys g).
Proof.
  unfold cons_keys. intros H. apply in_flat_map in H. destruct H as [d1 [_ H]].
  destruct (d_src d1 =? k); [|destruct H].
  apply in_flat_map in H. destruct H as [d2 [_ H]].
  destruct (d_src d2 =? d_snk d1); [|destruct H].
  destruct (find_step g (d_snk d2)) as [s|] eqn:E; [|destruct H].
  destruct (s_detached s) eqn:Ed; [destruct H|]. destruct H as [<-|[]].
  unfold attached_keys. apply in_map. apply filter_In. apply find_step_some in E.
  split; [tauto | rewrite Ed; reflexivity].
Qed.

Lemma seed0_attached g k : In k (seed0 g) -> In k (attached_keys g).
Proof.
  unfold seed0, attached_keys. intros H. apply in_map_iff in H. destruct H as [s [<- H]].
  apply filter_In in H. destruct H as [H1 H2]. apply andb_true_iff in H2.
  apply in_map. apply filter_In. tauto.
Qed.

Lemma pair_eqb_eq a b : pair_eqb a b = true -> a = b.
Proof.
  unfold pair_eqb. intros H. apply andb_true_iff in H. destruct H as [H1 H2].
  apply N.eqb_eq in H1, H2. destruct a, b. cbn in *. congruence.
Qed.

Section Round.
  Variable g : graph.
  Variable first : bool.
  Variable v : vals.
  Variable seed : list N.
  Let written := filter (fun k => first || negb (pair_eqb (new_val g v k) (v k))) seed.
  Let v' := fst (after_round first g v seed).
  Let seed' := snd (after_round first g v seed).

  Lemma round_v' k : v' k = if mem_N k written then new_val g v k else v k.
  Proof. reflexivity. Qed.

  Lemma round_seed'_attached k : In k seed' -> In k (attached_keys g).
  Proof. unfold seed', after_round. cbn [snd]. intros H. apply filter_In in H. tauto. Qed.

  Lemma round_not_seed' k : In k (attached_keys g) -> ~ In k seed' ->
    forall y, In y (cons_keys g k) -> mem_N y written = false.
  Proof.
    intros Hk Hn y Hy. destruct (mem_N y written) eqn:E; [|reflexivity].
    exfalso. apply Hn. unfold seed', after_round. cbn [snd]. apply filter_In. split; [exact Hk|].
    apply existsb_exists. exists y. split; [exact Hy | exact E].
  Qed.

  Lemma round_consistent k :
    In k (attached_keys g) -> ~ In k seed' ->
    (In k seed \/ Cons1 g v k) ->
    Cons1 g v' k.
  Proof.
    intros Hk Hn Hcase. unfold Cons1.
    assert (Hext : new_val g v' k = new_val g v k).
    { apply new_val_ext. intros y Hy. rewrite round_v'.
      rewrite (round_not_seed' k Hk Hn y Hy). reflexivity. }
    rewrite Hext, round_v'.
    destruct (mem_N k written) eqn:Ew; [reflexivity|].
    destruct Hcase as [Hs|Hc]; [|exact Hc].
    (* in the seed but not written: the recomputed value equals the old one *)
    assert (Hf : (first || negb (pair_eqb (new_val g v k) (v k))) = false).
    { destruct (first || negb (pair_eqb (new_val g v k) (v k))) eqn:E; [|reflexivity].
      exfalso. apply mem_N_false in Ew. apply Ew. apply filter_In. split; assumption. }
    apply orb_false_iff in Hf. destruct Hf as [_ Hf]. apply negb_false_iff in Hf.
    apply pair_eqb_eq in Hf. rewrite Hf. reflexivity.
  Qed.

  Lemma round_inv : Inv g v seed -> Inv g v' seed'.
  Proof.
    intros HI k Hk Hn. apply round_consistent; auto.
    destruct (in_dec N.eq_dec k seed) as [Hs|Hs]; [left; exact Hs | right; apply HI; assumption].
  Qed.

  Lemma round_rank (rank : N -> nat) n :
    NeedRank g rank -> (forall k, In k seed -> (n <= rank k)%nat) ->
    forall p, In p seed' -> (S n <= rank p)%nat.
  Proof.
    intros [HR1 _] Hseed p Hp. unfold seed', after_round in Hp. cbn [snd] in Hp.
    apply filter_In in Hp. destruct Hp as [_ Hp]. apply existsb_exists in Hp.
    destruct Hp as [y [Hy Hw]]. apply mem_N_In in Hw. apply filter_In in Hw. destruct Hw as [Hw _].
    specialize (HR1 p y Hy). specialize (Hseed y Hw). lia.
  Qed.
End Round.

Lemma after_loop_false g rank : NeedRank g rank ->
  forall fuel n v seed,
    (forall k, In k seed -> In k (attached_keys g)) ->
    (forall k, In k seed -> (n <= rank k)%nat) ->
    (length (g_steps g) < n + fuel)%nat ->
    Inv g v seed ->
    exists vf, after_loop fuel false g v seed = Some vf /\ Inv g vf [].
Proof.
  intros HR. induction fuel as [|fuel IH]; intros n v seed Hatt Hrank Hfuel HI.
  - destruct seed as [|k seed]; [exists v; split; [reflexivity | exact HI]|].
    exfalso. destruct HR as [_ HR2]. specialize (HR2 k (Hatt k (or_introl eq_refl))).
    specialize (Hrank k (or_introl eq_refl)). lia.
  - destruct seed as [|k seed]; [exists v; split; [reflexivity | exact HI]|].
    cbn [after_loop].
    apply (IH (S n)).
    + intros p Hp. eapply round_seed'_attached. exact Hp.
    + intros p Hp. eapply round_rank; eauto.
    + lia.
    + apply round_inv. exact HI.
Qed.

Lemma vals_of_in g s : WF g -> In s (g_steps g) -> vals_of g (s_key s) = (s_ineed s, s_tail s).
Proof. intros Hwf Hin. unfold vals_of. rewrite find_step_in by assumption. reflexivity. Qed.

Lemma attached_keys_step g k : In k (attached_keys g) ->
  exists s, In s (g_steps g) /\ s_key s = k /\ s_detached s = false.
Proof.
  unfold attached_keys. intros H. apply in_map_iff in H. destruct H as [s [Hk H]].
  apply filter_In in H. destruct H as [H1 H2]. exists s. repeat split; try assumption.
  destruct (s_detached s); [discriminate | reflexivity].
Qed.

Lemma not_seed0_unflagged g s : In s (g_steps g) -> s_detached s = false ->
  ~ In (s_key s) (seed0 g) -> s_chk_after s = false.
Proof.
  intros Hin Hd Hn. destruct (s_chk_after s) eqn:E; [|reflexivity].
  exfalso. apply Hn. unfold seed0. apply in_map. apply filter_In. split; [exact Hin|].
  rewrite Hd, E. reflexivity.
Qed.

Lemma first_round_inv g : WF g -> FlagInv_need g ->
  Inv g (fst (after_round true g (vals_of g) (seed0 g))) (snd (after_round true g (vals_of g) (seed0 g))).
Proof.
  intros Hwf HF k Hk Hn.
  apply round_consistent; auto.
  destruct (in_dec N.eq_dec k (seed0 g)) as [Hs|Hs]; [left; exact Hs | right].
  destruct (attached_keys_step g k Hk) as [s [Hin [<- Hd]]].
  unfold Cons1. rewrite (vals_of_in g s Hwf Hin). cbn [fst].
  apply HF; try assumption.
  - apply (not_seed0_unflagged g); assumption.
  - intros y Hy Hys.
    (* y in the first seed means y is written in the first round, so k would be re-seeded *)
    apply Hn. unfold after_round. cbn [snd]. apply filter_In. split; [exact Hk|].
    apply existsb_exists. exists y. split; [exact Hy|].
    apply mem_N_In. apply filter_In. split; [exact Hys | reflexivity].
Qed.

(* global consistency pins the values down: they equal need_spec *)
Lemma consistent_is_spec g rank v : NeedRank g rank -> Inv g v [] ->
  forall n k, In k (attached_keys g) -> (rank k < n)%nat -> fst (v k) = need_fuel n g k.
Proof.
  intros HR HI. destruct HR as [HR1 HR2].
  induction n as [|n IH]; intros k Hk Hn; [lia|].
  rewrite (HI k Hk (fun H => H)). unfold new_val. cbn [fst need_fuel]. f_equal. f_equal.
  apply map_ext_in. intros y Hy. apply IH.
  - eapply cons_keys_attached; exact Hy.
  - specialize (HR1 k y Hy). lia.
Qed.

Lemma update_meta_after_values g : WF g -> DepAcyclic g -> FlagInv_need g ->
  exists vf, after_loop (S (length (g_steps g))) true g (vals_of g) (seed0 g) = Some vf /\
             forall k, In k (attached_keys g) -> fst (vf k) = need_spec g k.
Proof.
  intros Hwf [rank HR] HF.
  assert (Hfin : forall vf, Inv g vf [] -> forall k, In k (attached_keys g) -> fst (vf k) = need_spec g k).
  { intros vf HI k Hk. unfold need_spec. eapply consistent_is_spec; eauto. apply HR. exact Hk. }
  destruct (seed0 g) as [|k0 rest] eqn:Es.
  - exists (vals_of g). split; [reflexivity|]. apply Hfin.
    intros k Hk _. destruct (attached_keys_step g k Hk) as [s [Hin [<- Hd]]].
    unfold Cons1. rewrite (vals_of_in g s Hwf Hin). cbn [fst]. apply HF; try assumption.
    + apply (not_seed0_unflagged g); try assumption. rewrite Es. intros [].
    + intros y _. rewrite Es. intros [].
  - cbn [after_loop]. rewrite <- Es.
    destruct (after_loop_false g rank HR (length (g_steps g)) 1%nat
                (fst (after_round true g (vals_of g) (seed0 g)))
                (snd (after_round true g (vals_of g) (seed0 g)))) as [vf [Hl HI]].
    + intros p Hp. eapply round_seed'_attached. exact Hp.
    + intros p Hp. eapply (round_rank g true (vals_of g) (seed0 g) rank 0%nat HR); [|exact Hp].
      intros; lia.
    + lia.
    + apply first_round_inv; assumption.
    + exists vf. split; [exact Hl | apply Hfin; exact HI].
Qed.

(* ---- the need specification ignores cached columns and flags ---- *)

Lemma outputs_mapg f g k : outputs (mapg f g) k = outputs g k.
Proof. reflexivity. Qed.

Lemma elev_mapg f g s : keeps f -> elev (mapg f g) (f s) = elev g s.
Proof.
  intros K. unfold elev. rewrite (k_key f K), (k_need f K). reflexivity.
Qed.

Lemma local_k_mapg f g k : keeps f -> local_k (mapg f g) k = local_k g k.
Proof.
  intros K. unfold local_k. rewrite find_step_mapg by exact K.
  destruct (find_step g k) as [s|]; [|reflexivity]. cbn [option_map].
  unfold local_need. rewrite elev_mapg, (k_need f K) by exact K. reflexivity.
Qed.

Lemma duration_k_mapg f g k : keeps f -> duration_k (mapg f g) k = duration_k g k.
Proof.
  intros K. unfold duration_k. rewrite find_step_mapg by exact K.
  destruct (find_step g k) as [s|]; [|reflexivity]. cbn [option_map]. apply (k_duration f K).
Qed.

Lemma cons_keys_mapg f g k : keeps f -> cons_keys (mapg f g) k = cons_keys g k.
Proof.
  intros K. unfold cons_keys. change (g_deps (mapg f g)) with (g_deps g).
  apply flat_map_ext. intros d1. destruct (d_src d1 =? k); [|reflexivity].
  apply flat_map_ext. intros d2. destruct (d_src d2 =? d_snk d1); [|reflexivity].
  rewrite find_step_mapg by exact K.
  destruct (find_step g (d_snk d2)) as [y|]; [|reflexivity]. cbn [option_map].
  rewrite (k_detached f K), (k_key f K). reflexivity.
Qed.

Lemma attached_keys_mapg f g : keeps f -> attached_keys (mapg f g) = attached_keys g.
Proof.
  intros K. unfold attached_keys, mapg. cbn [g_steps with_steps].
  induction (g_steps g) as [|a l IH]; [reflexivity|].
  cbn [map filter]. rewrite (k_detached f K). destruct (negb (s_detached a)); cbn [map];
    rewrite ?(k_key f K), IH; reflexivity.
Qed.

Lemma need_fuel_mapg f g n k : keeps f -> need_fuel n (mapg f g) k = need_fuel n g k.
Proof.
  intros K. revert k. induction n as [|n IH]; intros k; cbn [need_fuel].
  - apply local_k_mapg; exact K.
  - rewrite local_k_mapg, cons_keys_mapg by exact K. f_equal. f_equal.
    apply map_ext. exact IH.
Qed.

Lemma need_spec_mapg f g k : keeps f -> need_spec (mapg f g) k = need_spec g k.
Proof. intros K. unfold need_spec. rewrite length_mapg. apply need_fuel_mapg; exact K. Qed.

Lemma DepAcyclic_mapg f g : keeps f -> DepAcyclic g -> DepAcyclic (mapg f g).
Proof.
  intros K [rank [H1 H2]]. exists rank. split.
  - intros k y. rewrite cons_keys_mapg by exact K. apply H1.
  - intros k. rewrite attached_keys_mapg, length_mapg by exact K. apply H2.
Qed.

Lemma CreatorAcyclic_mapg f g : keeps f -> CreatorAcyclic g -> CreatorAcyclic (mapg f g).
Proof.
  intros K [rank [H1 H2]]. exists rank. split.
  - intros s c Hin Hc. unfold mapg in Hin. cbn [g_steps with_steps] in Hin.
    apply in_map_iff in Hin. destruct Hin as [s0 [<- Hin]].
    rewrite creator_step_mapg in Hc by exact K.
    destruct (creator_step g s0) as [c0|] eqn:E; [|discriminate]. cbn in Hc. injection Hc as <-.
    rewrite !(k_key f K). apply (H1 s0 c0 Hin E).
  - intros s Hin. unfold mapg in Hin. cbn [g_steps with_steps] in Hin.
    apply in_map_iff in Hin. destruct Hin as [s0 [<- Hin]].
    rewrite (k_key f K), length_mapg. apply H2. exact Hin.
Qed.

(* write_back as a map *)
Definition wb (v : vals) (s : step) : step :=
  set_chk_after (set_after s (fst (v (s_key s))) (snd (v (s_key s)))) false.
Lemma wb_keeps v : keeps (wb v).
Proof. constructor; intros s; reflexivity. Qed.
Lemma write_back_mapg g v : write_back g v = mapg (wb v) g.
Proof. reflexivity. Qed.

Theorem update_meta_after_correct g : WF g -> DepAcyclic g -> FlagInv_need g ->
  exists g', update_meta_after g = Some g' /\
    forall s, In s (g_steps g') ->
      s_chk_after s = false /\ (s_detached s = false -> s_ineed s = need_spec g' (s_key s)).
Proof.
  intros Hwf Hac HF. destruct (update_meta_after_values g Hwf Hac HF) as [vf [Hl Hv]].
  exists (write_back g vf). split.
  - unfold update_meta_after. change after_first_round with true. rewrite Hl. reflexivity.
  - intros s Hin. rewrite write_back_mapg in *. unfold mapg in Hin. cbn [g_steps with_steps] in Hin.
    apply in_map_iff in Hin. destruct Hin as [s0 [<- Hin]]. split; [reflexivity|].
    intros Hd. rewrite need_spec_mapg by apply wb_keeps.
    cbn [wb set_chk_after set_after s_ineed s_key]. apply Hv.
    unfold attached_keys. apply in_map. apply filter_In. split; [exact Hin|].
    cbn in Hd. rewrite Hd. reflexivity.
Qed.

(* ---- putting the three updates together (pop_next_job, part A) ---- *)

Definition keeps_need (f : step -> step) : Prop :=
  keeps f /\ (forall s, s_ineed (f s) = s_ineed s) /\ (forall s, s_tail (f s) = s_tail s) /\
  (forall s, s_chk_after (f s) = s_chk_after s).
Definition keeps_ready (f : step -> step) : Prop :=
  keeps f /\ (forall s, s_ready (f s) = s_ready s) /\ (forall s, s_chk_ready (f s) = s_chk_ready s).
Definition keeps_safe (f : step -> step) : Prop :=
  keeps f /\ (forall s, s_safe (f s) = s_safe s) /\ (forall s, s_safe_nh (f s) = s_safe_nh s) /\
  (forall s, s_chk_safe (f s) = s_chk_safe s).

Lemma seed0_mapg f g : keeps_need f -> seed0 (mapg f g) = seed0 g.
Proof.
  intros [K [_ [_ Hc]]]. unfold seed0, mapg. cbn [g_steps with_steps].
  induction (g_steps g) as [|a l IH]; [reflexivity|].
  cbn [map filter]. rewrite (k_detached f K), Hc.
  destruct (negb (s_detached a) && s_chk_after a); cbn [map]; rewrite ?(k_key f K), IH; reflexivity.
Qed.

Lemma vals_of_mapg f g k : keeps_need f -> vals_of (mapg f g) k = vals_of g k.
Proof.
  intros [K [Hi [Ht _]]]. unfold vals_of. rewrite find_step_mapg by exact K.
  destruct (find_step g k) as [s|]; [|reflexivity]. cbn [option_map]. rewrite Hi, Ht. reflexivity.
Qed.

Lemma new_val_mapg f g v k : keeps f -> new_val (mapg f g) v k = new_val g v k.
Proof.
  intros K. unfold new_val. rewrite local_k_mapg, duration_k_mapg, cons_keys_mapg by exact K. reflexivity.
Qed.

Lemma FlagInv_need_mapg f g : keeps_need f -> FlagInv_need g -> FlagInv_need (mapg f g).
Proof.
  intros KN HF s Hin Hd Hc Hy. pose proof KN as [K [Hi [Ht Hca]]].
  unfold mapg in Hin. cbn [g_steps with_steps] in Hin.
  apply in_map_iff in Hin. destruct Hin as [s0 [<- Hin]].
  rewrite Hi, (k_key f K), new_val_mapg by exact K.
  rewrite (new_val_ext g (vals_of (mapg f g)) (vals_of g)) by (intros; apply vals_of_mapg; exact KN).
  rewrite (k_detached f K) in Hd. rewrite Hca in Hc.
  apply HF; try assumption.
  intros y Hyc. rewrite <- (seed0_mapg f g KN). apply Hy.
  rewrite (k_key f K), cons_keys_mapg by exact K. exact Hyc.
Qed.

Lemma FlagInv_ready_mapg f g : keeps_ready f -> FlagInv_ready g -> FlagInv_ready (mapg f g).
Proof.
  intros [K [Hr Hc]] HF s Hin Hchk. unfold mapg in Hin. cbn [g_steps with_steps] in Hin.
  apply in_map_iff in Hin. destruct Hin as [s0 [<- Hin]].
  rewrite Hr, (k_key f K). rewrite Hc in Hchk. unfold mapg. rewrite ready_spec_steps. apply HF; assumption.
Qed.

Lemma upd_safe_keeps_need g pol : keeps_need (upd_safe g pol).
Proof.
  split; [apply upd_safe_keeps|].
  repeat split; intros s; unfold upd_safe; destruct (merge_vals pol (trace_vals (safe_fuel_of g) g s)); reflexivity.
Qed.
Lemma upd_safe_keeps_ready g pol : keeps_ready (upd_safe g pol).
Proof.
  split; [apply upd_safe_keeps|].
  split; intros s; unfold upd_safe; destruct (merge_vals pol (trace_vals (safe_fuel_of g) g s)); reflexivity.
Qed.
Lemma wb_keeps_ready v : keeps_ready (wb v).
Proof. split; [apply wb_keeps|]. split; intros s; reflexivity. Qed.
Lemma wb_keeps_safe v : keeps_safe (wb v).
Proof. split; [apply wb_keeps|]. repeat split; intros s; reflexivity. Qed.

Definition upd_ready (g : graph) (s : step) : step :=
  if s_chk_ready s then set_ready s (ready_spec g (s_key s)) false else s.
Lemma upd_ready_keeps g : keeps (upd_ready g).
Proof. constructor; intros s; unfold upd_ready; destruct (s_chk_ready s); reflexivity. Qed.
Lemma upd_ready_keeps_safe g : keeps_safe (upd_ready g).
Proof.
  split; [apply upd_ready_keeps|].
  repeat split; intros s; unfold upd_ready; destruct (s_chk_ready s); reflexivity.
Qed.
Lemma upd_ready_keeps_need g : keeps_need (upd_ready g).
Proof.
  split; [apply upd_ready_keeps|].
  repeat split; intros s; unfold upd_ready; destruct (s_chk_ready s); reflexivity.
Qed.
Lemma update_meta_ready_mapg g : update_meta_ready g = mapg (upd_ready g) g.
Proof. reflexivity. Qed.

Definition FlagInv (g : graph) : Prop := FlagInv_safe g /\ FlagInv_need g /\ FlagInv_ready g.
Definition Acyclic (g : graph) : Prop := CreatorAcyclic g /\ DepAcyclic g.

(* every cached scheduling attribute of every step equals its definition; no flag remains *)
Definition AllCorrect (g : graph) : Prop :=
  forall s, In s (g_steps g) ->
    (s_safe s, s_safe_nh s) = safe_spec g s /\
    (s_detached s = false -> s_ineed s = need_spec g (s_key s)) /\
    s_ready s = ready_spec g (s_key s) /\
    s_chk_safe s = false /\ s_chk_after s = false /\ s_chk_ready s = false.

Theorem update_meta_with_correct pol g :
  WF g -> Acyclic g -> FlagInv g ->
  (pol = MergeDeepest \/ NoStaleLow g) ->
  exists g', update_meta_with pol g = Some g' /\ AllCorrect g' /\
             (exists f, keeps f /\ g' = mapg f g).
Proof.
  intros Hwf [Hca Hda] [HFs [HFn HFr]] Hpol.
  set (g1 := update_meta_safe_with pol g).
  assert (E1 : g1 = mapg (upd_safe g pol) g) by reflexivity.
  assert (K1 := upd_safe_keeps g pol).
  assert (Hwf1 : WF g1) by (rewrite E1; apply WF_mapg; assumption).
  assert (Hda1 : DepAcyclic g1) by (rewrite E1; apply DepAcyclic_mapg; assumption).
  assert (HFn1 : FlagInv_need g1) by (rewrite E1; apply FlagInv_need_mapg; [apply upd_safe_keeps_need | assumption]).
  destruct (update_meta_after_correct g1 Hwf1 Hda1 HFn1) as [g2 [Hu2 H2]].
  assert (Hg2 : exists vf, g2 = mapg (wb vf) g1).
  { unfold update_meta_after in Hu2.
    destruct (after_loop _ _ _ _ _) as [vf|]; [|discriminate].
    injection Hu2 as <-. exists vf. reflexivity. }
  destruct Hg2 as [vf E2].
  set (g3 := update_meta_ready g2).
  assert (E3 : g3 = mapg (upd_ready g2) g2) by reflexivity.
  exists g3. split; [|split].
  - unfold update_meta_with. fold g1. rewrite Hu2. reflexivity.
  - assert (HFr2 : FlagInv_ready g2).
    { rewrite E2. apply FlagInv_ready_mapg; [apply wb_keeps_ready|].
      rewrite E1. apply FlagInv_ready_mapg; [apply upd_safe_keeps_ready | assumption]. }
    intros s3 Hin3.
    destruct (update_meta_ready_correct g2 HFr2 s3 Hin3) as [Hr3 Hcr3]. fold g3 in Hr3.
    rewrite E3 in Hin3. unfold mapg in Hin3. cbn [g_steps with_steps] in Hin3.
    apply in_map_iff in Hin3. destruct Hin3 as [s2 [<- Hin2]].
    destruct (H2 s2 Hin2) as [Hca2 Hn2].
    pose proof Hin2 as Hin2'. rewrite E2 in Hin2'. unfold mapg in Hin2'. cbn [g_steps with_steps] in Hin2'.
    apply in_map_iff in Hin2'. destruct Hin2' as [s1 [Es1 Hin1]].
    destruct (update_meta_safe_correct_gen pol g Hca HFs Hpol s1 Hin1) as [Hs1 Hcs1].
    destruct (upd_ready_keeps_safe g2) as [K3 [Hs3a [Hs3b Hs3c]]].
    destruct (upd_ready_keeps_need g2) as [_ [Hn3a [_ Hn3c]]].
    destruct (wb_keeps_safe vf) as [K2 [Hs2a [Hs2b Hs2c]]].
    repeat split.
    + rewrite E3, safe_spec_mapg by exact K3. rewrite Hs3a, Hs3b.
      rewrite <- Es1. rewrite E2, safe_spec_mapg by exact K2. rewrite Hs2a, Hs2b. exact Hs1.
    + intros Hd. rewrite E3, need_spec_mapg by exact K3. rewrite Hn3a, (k_key _ K3).
      apply Hn2. rewrite <- Hd. symmetry. apply (k_detached _ K3).
    + exact Hr3.
    + rewrite Hs3c, <- Es1, Hs2c. exact Hcs1.
    + rewrite Hn3c. exact Hca2.
    + exact Hcr3.
  - exists (fun s => upd_ready g2 (wb vf (upd_safe g pol s))). split.
    + assert (K2 := wb_keeps vf). assert (K3 := upd_ready_keeps g2).
      constructor; intros s; cbv beta.
      * rewrite (k_key _ K3), (k_key _ K2), (k_key _ K1); reflexivity.
      * rewrite (k_state _ K3), (k_state _ K2), (k_state _ K1); reflexivity.
      * rewrite (k_need _ K3), (k_need _ K2), (k_need _ K1); reflexivity.
      * rewrite (k_deferred _ K3), (k_deferred _ K2), (k_deferred _ K1); reflexivity.
      * rewrite (k_holding _ K3), (k_holding _ K2), (k_holding _ K1); reflexivity.
      * rewrite (k_detached _ K3), (k_detached _ K2), (k_detached _ K1); reflexivity.
      * rewrite (k_creator _ K3), (k_creator _ K2), (k_creator _ K1); reflexivity.
      * rewrite (k_stored _ K3), (k_stored _ K2), (k_stored _ K1); reflexivity.
      * rewrite (k_hh _ K3), (k_hh _ K2), (k_hh _ K1); reflexivity.
      * rewrite (k_duration _ K3), (k_duration _ K2), (k_duration _ K1); reflexivity.
      * rewrite (k_res _ K3), (k_res _ K2), (k_res _ K1); reflexivity.
    + rewrite E3, E2, E1. unfold mapg. cbn [g_steps with_steps g_files g_others g_deps g_targets g_tdirs g_avail g_threshold].
      rewrite !map_map. reflexivity.
Qed.

Theorem update_meta_correct_gen g :
  WF g -> Acyclic g -> FlagInv g ->
  (safe_merge = MergeDeepest \/ NoStaleLow g) ->
  exists g', update_meta g = Some g' /\ AllCorrect g' /\
             (exists f, keeps f /\ g' = mapg f g).
Proof. apply update_meta_with_correct. Qed.

(* ------------------------------------------------------------------------------------------ *)
(* What the generated SQL fragments say                                                       *)
(* ------------------------------------------------------------------------------------------ *)

Lemma b2n_truth b : truth (Some (b2n b)) = Some b.
Proof. destruct b; reflexivity. Qed.

Lemma dispatch_where_meaning st safe hh safe_nh df ineed rdy :
  sholds (senv_vals st safe hh safe_nh df ineed rdy) gen_dispatch_where =
  (st =? ST_PENDING) && (safe || (hh && safe_nh)) && negb df && (ND_OPTIONAL <? ineed) && rdy.
Proof.
  unfold sholds, gen_dispatch_where, ST_PENDING, ND_OPTIONAL.
  cbn [seval senv_vals cmp_eval option_map].
  rewrite !b2n_truth.
  destruct (st =? 21), safe, hh, safe_nh, df, (31 <? ineed), rdy; reflexivity.
Qed.

Lemma unavailable_meaning f d :
  sholds (ienv f d) gen_unavailable_input =
  (f_state f =? FS_VOLATILE)
  || (d_dyn d && negb (f_detached f) && mem_N (f_state f) [FS_PLANNED; FS_OUTDATED])
  || (negb (d_dyn d) && (f_detached f || negb (mem_N (f_state f) [FS_BUILT; FS_CONFIRMED]))).
Proof.
  unfold sholds, gen_unavailable_input, FS_VOLATILE, FS_PLANNED, FS_OUTDATED, FS_BUILT, FS_CONFIRMED.
  cbn [seval ienv cmp_eval option_map].
  destruct (d_dyn d); cbn [seval ienv cmp_eval option_map]; rewrite ?b2n_truth;
  destruct (f_state f =? 18), (f_detached f), (mem_N (f_state f) [15; 17]), (mem_N (f_state f) [16; 14]); reflexivity.
Qed.

Lemma regular_output_meaning f :
  regular_output f = negb (f_detached f) && negb (f_state f =? FS_VOLATILE).
Proof.
  unfold regular_output, sholds, gen_regular_output, FS_VOLATILE.
  cbn [seval oenv cmp_eval option_map]. rewrite ?b2n_truth.
  destruct (f_detached f), (f_state f =? 18); reflexivity.
Qed.

Lemma state_triggers_meaning st h :
  sholds (nenv st h) trg_reset_holding_when = negb (st =? ST_RUNNING) && negb (h =? 0) /\
  sholds (nenv st h) trg_clear_deferred_when = mem_N st [ST_SUCCEEDED; ST_FAILED] /\
  sholds (nenv st h) trg_reset_defer_count_when = (st =? ST_SUCCEEDED).
Proof.
  unfold sholds, trg_reset_holding_when, trg_clear_deferred_when, trg_reset_defer_count_when,
    ST_RUNNING, ST_SUCCEEDED, ST_FAILED.
  cbn [seval nenv cmp_eval option_map]. rewrite ?b2n_truth.
  repeat split.
  - destruct (st =? 22), (h =? 0); reflexivity.
  - destruct (mem_N st [23; 24]); reflexivity.
  - destruct (st =? 23); reflexivity.
Qed.

(* ------------------------------------------------------------------------------------------ *)
(* Dispatch                                                                                   *)
(* ------------------------------------------------------------------------------------------ *)

Definition HasHashInv (g : graph) : Prop :=
  forall s, In s (g_steps g) -> s_has_hash s = s_hash_stored s.

Lemma HasHashInv_mapg f g : keeps f -> HasHashInv g -> HasHashInv (mapg f g).
Proof.
  intros K H s Hin. unfold mapg in Hin. cbn [g_steps with_steps] in Hin.
  apply in_map_iff in Hin. destruct Hin as [s0 [<- Hin]].
  rewrite (k_hh f K), (k_stored f K). apply H. exact Hin.
Qed.

(* the resource term: with the conjunct list [RuRunning] the subtracted units are those of every RUNNING
   step, attached or not, which is the definition (running_usage) *)
Lemma usage_with_running g name : usage_with [RuRunning] g name = running_usage g name.
Proof.
  unfold usage_with, running_usage. do 2 f_equal. apply filter_ext. intros s.
  cbn [forallb ru_atom_holds]. apply andb_true_r.
Qed.
Lemma res_unavailable_with_running g s : res_unavailable_with [RuRunning] g s = res_unavailable g s.
Proof.
  unfold res_unavailable_with, res_unavailable.
  induction (s_res s) as [|nu r IH]; [reflexivity|]. cbn [existsb]. rewrite IH, usage_with_running. reflexivity.
Qed.
(* generated fact: the repository subtracts exactly the units of the RUNNING steps *)
Lemma ru_where_repo : ru_where = [RuRunning].
Proof. reflexivity. Qed.

Lemma eligible_cached_with_is_spec g s : AllCorrect g -> HasHashInv g -> In s (g_steps g) ->
  eligible_cached_with [RuRunning] g s = eligible_spec g s.
Proof.
  intros HA HH Hin. destruct (HA s Hin) as [Hs [Hn [Hr _]]].
  unfold eligible_cached_with, eligible_spec, senv. rewrite res_unavailable_with_running.
  rewrite <- (HH s Hin), <- Hr, <- Hs. cbn [fst snd].
  destruct (s_detached s) eqn:Ed.
  - cbn [negb]. rewrite !andb_false_r. reflexivity.
  - rewrite <- (Hn eq_refl). reflexivity.
Qed.

(* generated fact: SELECT_NEXT_STEP has the four conjuncts (dispatch fragment, threshold, attached, hash or resources) *)
Lemma sn_where_repo : sn_where = sn_full.
Proof. reflexivity. Qed.
Lemma eligible_cached_q_full w g s : eligible_cached_q sn_full w g s = eligible_cached_with w g s.
Proof.
  unfold eligible_cached_q, sn_full, eligible_cached_with. cbn [forallb sn_atom_holds].
  rewrite andb_true_r, !andb_assoc. reflexivity.
Qed.
Lemma eligible_cached_unfold g s : eligible_cached g s = eligible_cached_with ru_where g s.
Proof. unfold eligible_cached. rewrite sn_where_repo. apply eligible_cached_q_full. Qed.

Lemma eligible_cached_is_spec g s : AllCorrect g -> HasHashInv g -> In s (g_steps g) ->
  eligible_cached g s = eligible_spec g s.
Proof. rewrite eligible_cached_unfold, ru_where_repo. apply eligible_cached_with_is_spec. Qed.

Theorem dispatch_only_eligible_gen g :
  WF g -> Acyclic g -> FlagInv g -> HasHashInv g ->
  (safe_merge = MergeDeepest \/ NoStaleLow g) ->
  exists g', update_meta g = Some g' /\ AllCorrect g' /\
    forall s, In s (dispatch_set g') <-> (In s (g_steps g') /\ eligible_spec g' s = true).
Proof.
  intros Hwf Hac HF HH Hpol.
  destruct (update_meta_correct_gen g Hwf Hac HF Hpol) as [g' [Hu [HA [f [K ->]]]]].
  exists (mapg f g). split; [exact Hu|]. split; [exact HA|].
  intros s. unfold dispatch_set. rewrite filter_In. split; intros [H1 H2]; split; try exact H1.
  - rewrite <- eligible_cached_is_spec; auto. apply HasHashInv_mapg; assumption.
  - rewrite eligible_cached_is_spec; auto. apply HasHashInv_mapg; assumption.
Qed.

(* a step that is dispatched to run its command (no stored hash) is safe in the strict sense and
   has its resources free; every dispatched step is PENDING, attached, needed above the threshold,
   not deferred, with all inputs available *)
Lemma eligible_spec_meaning g s : eligible_spec g s = true ->
  s_state s = ST_PENDING /\ s_detached s = false /\ s_deferred s = false /\
  ND_OPTIONAL < need_spec g (s_key s) /\ g_threshold g < need_spec g (s_key s) /\
  ready_spec g (s_key s) = true /\
  (fst (safe_spec g s) = true \/ (s_hash_stored s = true /\ snd (safe_spec g s) = true)) /\
  (s_hash_stored s = true \/ res_unavailable g s = false).
Proof.
  unfold eligible_spec. rewrite dispatch_where_meaning. intros H.
  apply andb_true_iff in H; destruct H as [H Hres].
  apply andb_true_iff in H; destruct H as [H Hdet].
  apply andb_true_iff in H; destruct H as [H Hthr].
  apply andb_true_iff in H; destruct H as [H Hrdy].
  apply andb_true_iff in H; destruct H as [H Hopt].
  apply andb_true_iff in H; destruct H as [H Hdf].
  apply andb_true_iff in H; destruct H as [Hst Hsafe].
  repeat split.
  - apply N.eqb_eq. exact Hst.
  - destruct (s_detached s); [discriminate | reflexivity].
  - destruct (s_deferred s); [discriminate | reflexivity].
  - apply N.ltb_lt. exact Hopt.
  - apply N.ltb_lt. exact Hthr.
  - exact Hrdy.
  - apply orb_true_iff in Hsafe. destruct Hsafe as [Hx|Hx].
    + left; exact Hx.
    + right. apply andb_true_iff in Hx. exact Hx.
  - apply orb_true_iff in Hres. destruct Hres as [Hx|Hx].
    + left; exact Hx.
    + right. destruct (res_unavailable g s); [discriminate | reflexivity].
Qed.

Theorem phase_end_nothing_eligible_gen g njob running done hs :
  WF g -> Acyclic g -> FlagInv g -> HasHashInv g ->
  (safe_merge = MergeDeepest \/ NoStaleLow g) ->
  0 < njob ->
  job_loop_may_end njob running done hs (job_loop_pop njob running hs false g) = true ->
  running = 0 /\ done = 0 /\
  exists g', update_meta g = Some g' /\ AllCorrect g' /\
             forall s, In s (g_steps g') -> eligible_spec g' s = false.
Proof.
  intros Hwf Hac HF HH Hpol Hnj Hend.
  unfold job_loop_may_end in Hend.
  repeat (apply andb_true_iff in Hend; destruct Hend as [Hend ?]).
  match goal with Hx : (running =? 0) = true |- _ => apply N.eqb_eq in Hx; subst running end.
  match goal with Hx : (done =? 0) = true |- _ => apply N.eqb_eq in Hx; subst done end.
  split; [reflexivity|]. split; [reflexivity|].
  destruct (dispatch_only_eligible_gen g Hwf Hac HF HH Hpol) as [g' [Hu [HA Hd]]].
  exists g'. split; [exact Hu|]. split; [exact HA|].
  intros s Hin. destruct (eligible_spec g' s) eqn:E; [|reflexivity]. exfalso.
  assert (Hs : In s (dispatch_set g')) by (apply Hd; split; assumption).
  unfold job_loop_pop in *. destruct hs; [discriminate|].
  apply N.ltb_lt in Hnj. rewrite Hnj in *. rewrite Hu in *.
  destruct (dispatch_set g') as [|x l]; [destruct Hs|]. cbn in *. discriminate.
Qed.

(* ------------------------------------------------------------------------------------------ *)
(* Defer cap                                                                                  *)
(* ------------------------------------------------------------------------------------------ *)

Lemma apply_state_fields s st df :
  s_state (apply_state s st df) = st /\
  s_defer_count (apply_state s st df) = (if st =? ST_SUCCEEDED then 0 else s_defer_count s).
Proof.
  unfold apply_state. destruct (state_triggers_meaning st (s_holding s)) as [_ [_ H3]].
  rewrite H3. cbn [set_life s_state s_defer_count]. split; reflexivity.
Qed.

Lemma complete_defer_within cap u s : s_defer_count s + 1 <= cap ->
  s_state (complete_defer cap u s) = ST_PENDING /\
  s_defer_count (complete_defer cap u s) = s_defer_count s + 1.
Proof.
  intros H. unfold complete_defer, defer_within_cap. cbn [cmp_eval].
  apply N.leb_le in H. rewrite H.
  destruct (apply_state_fields (set_life s (s_state s) (s_deferred s) (s_defer_count s + 1) (s_holding s))
              defer_state_within u) as [H1 H2].
  rewrite H1, H2. split; reflexivity.
Qed.

Lemma complete_defer_beyond cap u s : cap < s_defer_count s + 1 ->
  s_state (complete_defer cap u s) = ST_FAILED /\
  s_defer_count (complete_defer cap u s) = s_defer_count s + 1.
Proof.
  intros H. unfold complete_defer, defer_within_cap. cbn [cmp_eval].
  apply N.leb_gt in H. rewrite H.
  destruct (apply_state_fields (set_life s (s_state s) (s_deferred s) (s_defer_count s + 1) (s_holding s))
              defer_state_beyond false) as [H1 H2].
  rewrite H1, H2. split; reflexivity.
Qed.

Definition no_success (e : cevent) : Prop :=
  match e with EvSucceed => False | EvSetState st _ => st <> ST_SUCCEEDED | _ => True end.
Fixpoint count_defers (l : list cevent) : N :=
  match l with [] => 0 | EvDefer _ :: r => 1 + count_defers r | _ :: r => count_defers r end.
Definition run_events (cap : N) (s : step) (l : list cevent) : step := fold_left (apply_cevent cap) l s.

Lemma defer_count_one cap s e : no_success e ->
  s_defer_count (apply_cevent cap s e) = s_defer_count s + count_defers [e].
Proof.
  intros H. destruct e as [u| | |st df]; cbn [apply_cevent count_defers].
  - destruct (N.le_gt_cases (s_defer_count s + 1) cap) as [Hc|Hc].
    + destruct (complete_defer_within cap u s Hc) as [_ ->]. lia.
    + destruct (complete_defer_beyond cap u s Hc) as [_ ->]. lia.
  - destruct (apply_state_fields s fail_state false) as [_ ->]. cbn. lia.
  - destruct H.
  - destruct (apply_state_fields s st df) as [_ ->]. cbn in H.
    apply N.eqb_neq in H. rewrite H. lia.
Qed.

Lemma count_defers_app l1 l2 : count_defers (l1 ++ l2) = count_defers l1 + count_defers l2.
Proof.
  induction l1 as [|e l1 IH]; [reflexivity|].
  destruct e; cbn [app count_defers]; rewrite IH; lia.
Qed.

Lemma defer_count_run cap l : forall s, Forall no_success l ->
  s_defer_count (run_events cap s l) = s_defer_count s + count_defers l.
Proof.
  induction l as [|e l IH]; intros s H; [cbn; lia|].
  inversion H as [|? ? He Hl]; subst. unfold run_events in *. cbn [fold_left].
  rewrite IH by exact Hl. rewrite (defer_count_one cap s e He).
  change (e :: l) with ([e] ++ l). rewrite count_defers_app. lia.
Qed.

(* Without an intervening SUCCEEDED, the defer that brings the count beyond the cap FAILS the
   step; at most `cap` defers since the last success leave it PENDING. *)
Theorem defer_cap_bound_gen cap s l u :
  Forall no_success l -> cap < s_defer_count s + count_defers l + 1 ->
  s_state (run_events cap s (l ++ [EvDefer u])) = ST_FAILED.
Proof.
  intros Hl Hc. unfold run_events. rewrite fold_left_app. cbn [fold_left apply_cevent].
  fold (run_events cap s l).
  apply complete_defer_beyond. rewrite (defer_count_run cap l s Hl). exact Hc.
Qed.

Theorem defer_within_cap_pending cap s l u :
  Forall no_success l -> s_defer_count s + count_defers l + 1 <= cap ->
  s_state (run_events cap s (l ++ [EvDefer u])) = ST_PENDING.
Proof.
  intros Hl Hc. unfold run_events. rewrite fold_left_app. cbn [fold_left apply_cevent].
  fold (run_events cap s l).
  apply complete_defer_within. rewrite (defer_count_run cap l s Hl). exact Hc.
Qed.

(* ------------------------------------------------------------------------------------------ *)
(* Reflection of the decidable invariants                                                     *)
(* ------------------------------------------------------------------------------------------ *)

Lemma bpair_eqb_eq a b : bpair_eqb a b = true <-> a = b.
Proof.
  unfold bpair_eqb. destruct a as [a1 a2], b as [b1 b2]. cbn [fst snd].
  rewrite andb_true_iff, !eqb_true_iff. split; [intros [-> ->]; reflexivity | intros H; injection H; auto].
Qed.

Lemma flaginv_ready_refl g : flaginv_ready_b g = true <-> FlagInv_ready g.
Proof.
  unfold flaginv_ready_b, FlagInv_ready. rewrite forallb_forall. split; intros H s Hin.
  - intros Hc. specialize (H s Hin). rewrite Hc in H. cbn in H. apply eqb_prop in H. exact H.
  - destruct (s_chk_ready s) eqn:E; [reflexivity|]. cbn. rewrite (H s Hin E). apply eqb_reflx.
Qed.

Lemma flaginv_need_refl g : flaginv_need_b g = true <-> FlagInv_need g.
Proof.
  unfold flaginv_need_b, FlagInv_need. rewrite forallb_forall. split; intros H s Hin.
  - intros Hd Hc Hy. specialize (H s Hin). rewrite Hd, Hc in H. cbn [orb] in H.
    apply orb_true_iff in H. destruct H as [H|H]; [|apply N.eqb_eq; exact H].
    exfalso. apply existsb_exists in H. destruct H as [y [Hy1 Hy2]]. apply mem_N_In in Hy2.
    exact (Hy y Hy1 Hy2).
  - destruct (s_detached s) eqn:Ed; [reflexivity|]. destruct (s_chk_after s) eqn:Ec; [reflexivity|].
    cbn [orb].
    destruct (existsb (fun y => mem_N y (seed0 g)) (cons_keys g (s_key s))) eqn:Ee; [reflexivity|].
    cbn [orb]. apply N.eqb_eq. apply H; try assumption.
    intros y Hy Hys. assert (existsb (fun y => mem_N y (seed0 g)) (cons_keys g (s_key s)) = true).
    { apply existsb_exists. exists y. split; [exact Hy | apply mem_N_In; exact Hys]. }
    congruence.
Qed.

Lemma flaginv_safe_refl g : flaginv_safe_b g = true <-> FlagInv_safe g.
Proof.
  unfold flaginv_safe_b, FlagInv_safe, L. rewrite forallb_forall. split; intros H s Hin.
  - intros Ha. specialize (H s Hin). rewrite Ha in H. cbn [orb] in H. apply bpair_eqb_eq in H. exact H.
  - destruct (aflag (S (length (g_steps g))) g s) eqn:E; [reflexivity|]. cbn [orb].
    apply bpair_eqb_eq. apply H; assumption.
Qed.

Lemma nostalelow_refl g : nostalelow_b g = true -> NoStaleLow g.
Proof.
  unfold nostalelow_b, NoStaleLow. rewrite forallb_forall. intros H s c Hin Hc Hcr.
  specialize (H s Hin). rewrite Hc, Hcr in H. cbn [negb orb] in H.
  apply andb_true_iff in H. destruct H as [H1 H2].
  split; intros Hx; [rewrite Hx in H1 | rewrite Hx in H2]; cbn in *; assumption.
Qed.

Lemma has_hash_inv_refl g : has_hash_inv_b g = true <-> HasHashInv g.
Proof.
  unfold has_hash_inv_b, HasHashInv. rewrite forallb_forall.
  split; intros H s Hin; specialize (H s Hin); [apply eqb_prop; exact H | rewrite H; apply eqb_reflx].
Qed.

Lemma allcorrect_refl g : allcorrect_b g = true <-> AllCorrect g.
Proof.
  unfold allcorrect_b, AllCorrect. rewrite forallb_forall. split; intros H s Hin; specialize (H s Hin).
  - apply andb_true_iff in H; destruct H as [H Hc3].
    apply andb_true_iff in H; destruct H as [H Hc2].
    apply andb_true_iff in H; destruct H as [H Hc1].
    apply andb_true_iff in H; destruct H as [H Hr].
    apply andb_true_iff in H; destruct H as [Hs Hn].
    split; [apply bpair_eqb_eq; exact Hs|].
    split; [intros Hd; rewrite Hd in Hn; cbn in Hn; apply N.eqb_eq in Hn; exact Hn|].
    split; [apply eqb_prop; exact Hr|].
    split; [destruct (s_chk_safe s); [discriminate | reflexivity]|].
    split; [destruct (s_chk_after s); [discriminate | reflexivity]|].
    destruct (s_chk_ready s); [discriminate | reflexivity].
  - destruct H as [H1 [H2 [H3 [H4 [H5 H6]]]]]. rewrite H4, H5, H6, <- H3, eqb_reflx. cbn [negb andb].
    rewrite !andb_true_r. apply andb_true_iff. split; [apply bpair_eqb_eq; exact H1|].
    destruct (s_detached s); [reflexivity|]. cbn [orb]. apply N.eqb_eq. apply H2. reflexivity.
Qed.

Lemma nodup_b_refl l : nodup_b l = true -> NoDup l.
Proof.
  induction l as [|a l IH]; intros H; [constructor|].
  cbn [nodup_b] in H. apply andb_true_iff in H. destruct H as [H1 H2].
  constructor; [|apply IH; exact H2]. apply negb_true_iff in H1. apply mem_N_false in H1. exact H1.
Qed.
Lemma wf_refl g : wf_b g = true -> WF g.
Proof. apply nodup_b_refl. Qed.

Lemma creator_rank_refl g rank : creator_rank_b g rank = true -> CreatorRank g rank.
Proof.
  unfold creator_rank_b, CreatorRank. rewrite forallb_forall. intros H. split.
  - intros s c Hin Hc. specialize (H s Hin). rewrite Hc in H. apply andb_true_iff in H.
    destruct H as [H _]. apply Nat.ltb_lt in H. exact H.
  - intros s Hin. specialize (H s Hin). apply andb_true_iff in H. destruct H as [_ H].
    apply Nat.ltb_lt in H. exact H.
Qed.

Lemma cons_keys_src g k y : In y (cons_keys g k) -> In k (map d_src (g_deps g)).
Proof.
  unfold cons_keys. intros H. apply in_flat_map in H. destruct H as [d1 [Hd1 H]].
  destruct (d_src d1 =? k) eqn:E; [|destruct H]. apply N.eqb_eq in E. subst k.
  apply in_map. exact Hd1.
Qed.

Lemma need_rank_refl g rank : need_rank_b g rank = true -> NeedRank g rank.
Proof.
  unfold need_rank_b, NeedRank. intros H. apply andb_true_iff in H. destruct H as [H1 H2].
  rewrite forallb_forall in H1, H2. split.
  - intros k y Hy. specialize (H1 k (cons_keys_src g k y Hy)). rewrite forallb_forall in H1.
    apply Nat.ltb_lt. apply H1. exact Hy.
  - intros k Hk. apply Nat.ltb_lt. apply H2. exact Hk.
Qed.

(* ------------------------------------------------------------------------------------------ *)
(* Refutations on the faithful model                                                          *)
(* ------------------------------------------------------------------------------------------ *)

Definition wstep (k st need : N) (cr : option N) (safe : bool) (ineed : N) (cs ca crd : bool) : step :=
  mkStep k st need false 0 0 false cr safe safe ineed true false false cs ca crd 1 1 [].

(* D11: plan (1, RUNNING) -> c (2, RUNNING, cached _safe still 0, flagged) -> b (3, PENDING, flagged).
   Every stale step is flagged itself, yet MIN over the trace rows keeps b unsafe. *)
Definition g_d11 : graph :=
  mkGraph [wstep 1 22 34 None true 34 false false false;
           wstep 2 22 32 (Some 1) false 32 true false false;
           wstep 3 21 32 (Some 2) false 32 true false false]
          [] [mkOnode 0 false None] [] [] [] [] 31.

Definition leaves_eligible_b (g : graph) : bool :=
  existsb (fun s => eligible_spec g s && negb (eligible_cached g s)) (g_steps g).
Definition starts_ineligible_b (g : graph) : bool :=
  existsb (fun s => eligible_cached g s && negb (eligible_spec g s)) (g_steps g).

Lemma leaves_eligible_refl g : leaves_eligible_b g = true ->
  exists s, In s (g_steps g) /\ eligible_spec g s = true /\ ~ In s (dispatch_set g).
Proof.
  unfold leaves_eligible_b. intros H. apply existsb_exists in H. destruct H as [s [Hin H]].
  apply andb_true_iff in H. destruct H as [H1 H2]. exists s. repeat split; try assumption.
  unfold dispatch_set. rewrite filter_In. intros [_ Hc]. rewrite Hc in H2. discriminate.
Qed.
Lemma starts_ineligible_refl g : starts_ineligible_b g = true ->
  exists s, In s (dispatch_set g) /\ eligible_spec g s = false.
Proof.
  unfold starts_ineligible_b. intros H. apply existsb_exists in H. destruct H as [s [Hin H]].
  apply andb_true_iff in H. destruct H as [H1 H2]. exists s. split.
  - unfold dispatch_set. apply filter_In. split; assumption.
  - destruct (eligible_spec g s); [discriminate | reflexivity].
Qed.

Definition the (o : option graph) (d : graph) : graph := match o with Some x => x | None => d end.

(* The driver Scheduler._update_meta_after starts with `first = True` (generated: after_first_round): the first
   UPDATE_CHECK_AFTER writes every seed and PROPAGATE_CHECK_AFTER therefore reaches the producers of every flagged step,
   changed or not.  With `first = False` the statement of update_meta_correct is false: S (3, DEFAULT) was just
   given the input f (edge insertion flags the sink only); its own value does not change, so nothing is
   propagated and the OPTIONAL producer P (2) of f keeps _implied_need = OPTIONAL: eligible by definition, never
   dispatched. *)
Definition g_first : graph :=
  mkGraph [wstep 1 22 34 None true 34 false false false;
           wstep 2 21 31 (Some 1) true 31 false false false;
           set_ready (wstep 3 21 32 (Some 1) true 32 false true false) false false]
          [mkFile 10 [102] 15 false (Some 2) false] [mkOnode 0 false None]
          [mkDep 2 10 false; mkDep 10 3 false] [] [] [] 31.

Theorem update_meta_without_first_round_refuted :
  exists g, WF g /\ Acyclic g /\ FlagInv g /\ HasHashInv g /\
    exists g', update_meta_from false g = Some g' /\ ~ AllCorrect g' /\
      exists s, In s (g_steps g') /\ eligible_spec g' s = true /\ ~ In s (dispatch_set g').
Proof.
  exists g_first.
  split; [apply wf_refl; vm_compute; reflexivity|].
  split; [split; [exists (fun k => N.to_nat (k - 1)); apply creator_rank_refl
                 | exists (fun k => if k =? 2 then 1%nat else 0%nat); apply need_rank_refl]; vm_compute; reflexivity|].
  split; [split; [apply flaginv_safe_refl | split; [apply flaginv_need_refl | apply flaginv_ready_refl]];
          vm_compute; reflexivity|].
  split; [apply has_hash_inv_refl; vm_compute; reflexivity|].
  exists (the (update_meta_from false g_first) g_first).
  split; [vm_compute; reflexivity|].
  split.
  - intros H. apply allcorrect_refl in H. vm_compute in H. discriminate.
  - apply leaves_eligible_refl. vm_compute. reflexivity.
Qed.
(* with `first = True` the driver is update_meta (generated fact) *)
Lemma update_meta_from_true g : safe_merge = MergeDeepest -> after_first_round = true ->
  update_meta_from true g = update_meta g.
Proof. intros _ H. unfold update_meta, update_meta_with, update_meta_from, update_meta_after_from, update_meta_after, update_meta_safe. rewrite H. reflexivity. Qed.

(* SELECT_NEXT_STEP with its four conjuncts selects exactly the eligible steps of a correct snapshot ... *)
Theorem dispatch_set_q_full_is_eligible g s :
  AllCorrect g -> HasHashInv g -> In s (g_steps g) ->
  (In s (dispatch_set_q sn_full [RuRunning] g) <-> eligible_spec g s = true).
Proof.
  intros HA HH Hin. unfold dispatch_set_q. rewrite filter_In, eligible_cached_q_full.
  rewrite (eligible_cached_with_is_spec g s HA HH Hin). tauto.
Qed.
(* ... and without `NOT node.detached` it hands out a detached step: d (2) was detached when its creator reran
   and did not define it again; it is PENDING with correct cached values *)
Definition sn_no_attached : list sn_atom := [SnDispatchWhere; SnAboveThreshold; SnHashOrResources].
Definition g_sn : graph :=
  mkGraph [wstep 1 22 34 None true 34 false false false;
           mkStep 2 21 32 false 0 0 true None true true 32 true false false false false false 1 1 []]
          [] [mkOnode 0 false None] [] [] [] [] 31.
Theorem dispatch_without_attached_conjunct_refuted :
  exists g, WF g /\ Acyclic g /\ AllCorrect g /\ HasHashInv g /\
    exists s, In s (dispatch_set_q sn_no_attached [RuRunning] g) /\ s_detached s = true /\ eligible_spec g s = false.
Proof.
  exists g_sn.
  split; [apply wf_refl; vm_compute; reflexivity|].
  split; [split; [exists (fun k => 0%nat); apply creator_rank_refl | exists (fun k => 0%nat); apply need_rank_refl];
          vm_compute; reflexivity|].
  split; [apply allcorrect_refl; vm_compute; reflexivity|].
  split; [apply has_hash_inv_refl; vm_compute; reflexivity|].
  exists (mkStep 2 21 32 false 0 0 true None true true 32 true false false false false false 1 1 []).
  split; [unfold dispatch_set_q; apply filter_In; split; [right; left; reflexivity | vm_compute; reflexivity]|].
  split; vm_compute; reflexivity.
Qed.

(* For ANY resource query that subtracts the units of exactly the RUNNING steps the dispatch set is the set
   of eligible steps (AllCorrect snapshot) ... *)
Theorem dispatch_set_with_running_is_eligible g s :
  AllCorrect g -> HasHashInv g -> In s (g_steps g) ->
  (In s (dispatch_set_with [RuRunning] g) <-> eligible_spec g s = true).
Proof.
  intros HA HH Hin. unfold dispatch_set_with. rewrite filter_In.
  rewrite (eligible_cached_with_is_spec g s HA HH Hin). tauto.
Qed.

(* ... and NOT for a query that only counts attached steps ("a detached step is no longer in the workflow"):
   a (2) is RUNNING with the only unit of resource r and was detached (its creator failed; a detached step is not
   killed); b (3) is PENDING, attached, needs one unit of r.  Every cached attribute is correct, b is in the
   dispatch set, but r is not free. *)
Definition ru_attached_only : list ru_atom := [RuRunning; RuAttached].
Definition g_ru : graph :=
  mkGraph [wstep 1 22 34 None true 34 false false false;
           mkStep 2 22 32 false 0 0 true None true true 32 true false false false false false 1 1 [([114], 1)];
           mkStep 3 21 32 false 0 0 false (Some 1) true true 32 true false false false false false 1 1 [([114], 1)]]
          [] [mkOnode 0 false None] [] [] [] [([114], 1)] 31.

Theorem dispatch_ignoring_detached_running_refuted :
  exists g, WF g /\ Acyclic g /\ AllCorrect g /\ HasHashInv g /\
    exists s, In s (dispatch_set_with ru_attached_only g) /\ eligible_spec g s = false /\
              s_hash_stored s = false /\ res_unavailable g s = true.
Proof.
  exists g_ru.
  split; [apply wf_refl; vm_compute; reflexivity|].
  split; [split; [exists (fun k => if k =? 3 then 1%nat else 0%nat); apply creator_rank_refl
                 | exists (fun k => 0%nat); apply need_rank_refl]; vm_compute; reflexivity|].
  split; [apply allcorrect_refl; vm_compute; reflexivity|].
  split; [apply has_hash_inv_refl; vm_compute; reflexivity|].
  exists (mkStep 3 21 32 false 0 0 false (Some 1) true true 32 true false false false false false 1 1 [([114], 1)]).
  split; [unfold dispatch_set_with; apply filter_In; split; [right; right; left; reflexivity | vm_compute; reflexivity]|].
  split; [vm_compute; reflexivity|]. split; vm_compute; reflexivity.
Qed.

Theorem update_meta_min_merge_refuted :
  exists g, WF g /\ Acyclic g /\ FlagInv g /\ HasHashInv g /\
    exists g', update_meta_with MergeMin g = Some g' /\ ~ AllCorrect g' /\
      exists s, In s (g_steps g') /\ eligible_spec g' s = true /\ ~ In s (dispatch_set g').
Proof.
  exists g_d11.
  split; [apply wf_refl; vm_compute; reflexivity|].
  split; [split; [exists (fun k => N.to_nat (k - 1)); apply creator_rank_refl | exists (fun _ => 0%nat); apply need_rank_refl]; vm_compute; reflexivity|].
  split; [split; [apply flaginv_safe_refl | split; [apply flaginv_need_refl | apply flaginv_ready_refl]];
          vm_compute; reflexivity|].
  split; [apply has_hash_inv_refl; vm_compute; reflexivity|].
  exists (the (update_meta_with MergeMin g_d11) g_d11).
  split; [vm_compute; reflexivity|].
  split.
  - intros H. apply allcorrect_refl in H. vm_compute in H. discriminate.
  - apply leaves_eligible_refl. vm_compute. reflexivity.
Qed.

(* D8: plan (1) ; P (2, OPTIONAL, PENDING) produces f (10); C (3, DEFAULT, RUNNING) has the dynamic
   input f, so P._implied_need = DEFAULT.  Deleting the edge f -> C (reset_for_rerun) flags C only. *)
Definition g_d8 : graph :=
  mkGraph [wstep 1 22 34 None true 34 false false false;
           wstep 2 21 31 (Some 1) true 32 false false false;
           set_ready (wstep 3 22 32 (Some 1) true 32 false false false) false false]
          [mkFile 10 [102] 15 false (Some 2) false] [mkOnode 0 false None]
          [mkDep 2 10 false; mkDep 10 3 true] [] [] [] 31.
Definition d_d8 : dep := mkDep 10 3 true.

Theorem del_dep_sink_only_refuted :
  exists g d, WF g /\ Acyclic g /\ AllCorrect g /\ HasHashInv g /\
    ~ FlagInv_need (del_dep_with trg_dep_del_sink_only g d) /\
    forall pol, exists g', update_meta_with pol (del_dep_with trg_dep_del_sink_only g d) = Some g' /\
      ~ AllCorrect g' /\ exists s, In s (dispatch_set g') /\ eligible_spec g' s = false.
Proof.
  exists g_d8, d_d8.
  split; [apply wf_refl; vm_compute; reflexivity|].
  split; [split; [exists (fun k => N.to_nat (k - 1)); apply creator_rank_refl | exists (fun k => if k =? 2 then 1%nat else 0%nat); apply need_rank_refl]; vm_compute; reflexivity|].
  split; [apply allcorrect_refl; vm_compute; reflexivity|].
  split; [apply has_hash_inv_refl; vm_compute; reflexivity|].
  split.
  - intros H. apply flaginv_need_refl in H. vm_compute in H. discriminate.
  - intros pol.
    exists (the (update_meta_with pol (del_dep_with trg_dep_del_sink_only g_d8 d_d8)) g_d8).
    split; [destruct pol; vm_compute; reflexivity|].
    split.
    + intros H. apply allcorrect_refl in H. destruct pol; vm_compute in H; discriminate.
    + apply starts_ineligible_refl. destruct pol; vm_compute; reflexivity.
Qed.

(* The narrowed delete trigger ("the producers keep a consumer, propagation reaches them through that edge"):
   g_d8 with a second, OPTIONAL and unneeded consumer O (4) of f.  Deleting f -> C leaves P unflagged because O
   still consumes f; P keeps _implied_need = DEFAULT and is dispatched although nothing needs it. *)
Definition g_d8s : graph :=
  mkGraph [wstep 1 22 34 None true 34 false false false;
           wstep 2 21 31 (Some 1) true 32 false false false;
           set_ready (wstep 3 22 32 (Some 1) true 32 false false false) false false;
           set_ready (wstep 4 21 31 (Some 1) true 31 false false false) false false]
          [mkFile 10 [102] 15 false (Some 2) false] [mkOnode 0 false None]
          [mkDep 2 10 false; mkDep 10 3 true; mkDep 10 4 false] [] [] [] 31.

Theorem del_dep_unless_shared_refuted :
  exists g d, WF g /\ Acyclic g /\ AllCorrect g /\ HasHashInv g /\
    ~ FlagInv_need (del_dep_with trg_dep_del_unless_shared g d) /\
    forall pol, exists g', update_meta_with pol (del_dep_with trg_dep_del_unless_shared g d) = Some g' /\
      ~ AllCorrect g' /\ exists s, In s (dispatch_set g') /\ eligible_spec g' s = false.
Proof.
  exists g_d8s, d_d8.
  split; [apply wf_refl; vm_compute; reflexivity|].
  split; [split; [exists (fun k => N.to_nat (k - 1)); apply creator_rank_refl | exists (fun k => if k =? 2 then 1%nat else 0%nat); apply need_rank_refl]; vm_compute; reflexivity|].
  split; [apply allcorrect_refl; vm_compute; reflexivity|].
  split; [apply has_hash_inv_refl; vm_compute; reflexivity|].
  split.
  - intros H. apply flaginv_need_refl in H. vm_compute in H. discriminate.
  - intros pol.
    exists (the (update_meta_with pol (del_dep_with trg_dep_del_unless_shared g_d8s d_d8)) g_d8s).
    split; [destruct pol; vm_compute; reflexivity|].
    split.
    + intros H. apply allcorrect_refl in H. destruct pol; vm_compute in H; discriminate.
    + apply starts_ineligible_refl. destruct pol; vm_compute; reflexivity.
Qed.

(* ------------------------------------------------------------------------------------------ *)
(* Flag soundness of the primitive mutations                                                  *)
(* ------------------------------------------------------------------------------------------ *)

Lemma mapg_mapg F1 F2 g : mapg F2 (mapg F1 g) = mapg (fun s => F2 (F1 s)) g.
Proof. unfold mapg. cbn [g_steps with_steps g_files g_others g_deps g_targets g_tdirs g_avail g_threshold]. rewrite map_map. reflexivity. Qed.

Definition flagF (c : flagcol) (ks : list N) (s : step) : step :=
  if mem_N (s_key s) ks then flag_step c s else s.
Lemma flag_keys_mapg c ks g : flag_keys c ks g = mapg (flagF c ks) g.
Proof. reflexivity. Qed.

(* the step map computed by a trigger body (targets only read the dependency table) *)
Fixpoint trigF (g : graph) (body : list (flagcol * ttarget)) (self : N) (d : option dep) (s : step) : step :=
  match body with
  | [] => s
  | ct :: r => trigF g r self d (flagF (fst ct) (target_keys g self d (snd ct)) s)
  end.

Lemma node_detached_mapg F g k : keeps F -> node_detached (mapg F g) k = node_detached g k.
Proof.
  intros K. unfold node_detached. rewrite find_step_mapg by exact K.
  destruct (find_step g k) as [s|]; [cbn [option_map]; apply (k_detached F K) | reflexivity].
Qed.
Lemma target_keys_mapg F g self d t : keeps F -> target_keys (mapg F g) self d t = target_keys g self d t.
Proof.
  intros K. destruct t; try reflexivity. cbn [target_keys]. destruct d as [e|]; [|reflexivity].
  change (g_deps (mapg F g)) with (g_deps g).
  replace (existsb (fun d' => (d_src d' =? d_src e) && negb (node_detached (mapg F g) (d_snk d'))) (g_deps g))
    with (existsb (fun d' => (d_src d' =? d_src e) && negb (node_detached g (d_snk d'))) (g_deps g)); [reflexivity|].
  induction (g_deps g) as [|x l IH]; [reflexivity|]. cbn [existsb]. rewrite IH, (node_detached_mapg F g _ K). reflexivity.
Qed.

Lemma trigF_mapg F g body self d s : keeps F -> trigF (mapg F g) body self d s = trigF g body self d s.
Proof.
  intros K. revert s. induction body as [|ct r IH]; intros s; [reflexivity|].
  cbn [trigF]. rewrite target_keys_mapg by exact K. apply IH.
Qed.

Lemma flagF_keeps c ks : keeps (flagF c ks).
Proof. constructor; intros s; unfold flagF; destruct (mem_N (s_key s) ks); destruct c; reflexivity. Qed.

Lemma mapg_ext F1 F2 g : (forall s, F1 s = F2 s) -> mapg F1 g = mapg F2 g.
Proof. intros H. unfold mapg. f_equal. apply map_ext. exact H. Qed.

Lemma run_trigger_mapg body self d g : run_trigger body self d g = mapg (trigF g body self d) g.
Proof.
  unfold run_trigger. revert g. induction body as [|ct r IH]; intros g.
  - cbn [fold_left trigF]. unfold mapg. destruct g. cbn. rewrite map_id. reflexivity.
  - cbn [fold_left]. rewrite IH. rewrite flag_keys_mapg, mapg_mapg.
    apply mapg_ext. intros s. rewrite trigF_mapg by apply flagF_keeps. reflexivity.
Qed.

(* maps that only raise flags *)
Record only_flags (F : step -> step) : Prop := {
  of_keeps : keeps F;
  of_safe : forall s, s_safe (F s) = s_safe s;
  of_safe_nh : forall s, s_safe_nh (F s) = s_safe_nh s;
  of_ineed : forall s, s_ineed (F s) = s_ineed s;
  of_tail : forall s, s_tail (F s) = s_tail s;
  of_ready : forall s, s_ready (F s) = s_ready s;
  of_cs : forall s, s_chk_safe s = true -> s_chk_safe (F s) = true;
  of_ca : forall s, s_chk_after s = true -> s_chk_after (F s) = true;
  of_cr : forall s, s_chk_ready s = true -> s_chk_ready (F s) = true }.

Lemma flagF_only_flags c ks : only_flags (flagF c ks).
Proof.
  constructor; [constructor|..]; intros s; unfold flagF; destruct (mem_N (s_key s) ks); destruct c; cbn; auto.
Qed.

Lemma only_flags_comp F1 F2 : only_flags F1 -> only_flags F2 -> only_flags (fun s => F2 (F1 s)).
Proof.
  intros [K1 a1 b1 c1 d1 e1 f1 g1 h1] [K2 a2 b2 c2 d2 e2 f2 g2 h2].
  constructor; [constructor|..]; intros s.
  - rewrite (k_key _ K2), (k_key _ K1); reflexivity.
  - rewrite (k_state _ K2), (k_state _ K1); reflexivity.
  - rewrite (k_need _ K2), (k_need _ K1); reflexivity.
  - rewrite (k_deferred _ K2), (k_deferred _ K1); reflexivity.
  - rewrite (k_holding _ K2), (k_holding _ K1); reflexivity.
  - rewrite (k_detached _ K2), (k_detached _ K1); reflexivity.
  - rewrite (k_creator _ K2), (k_creator _ K1); reflexivity.
  - rewrite (k_stored _ K2), (k_stored _ K1); reflexivity.
  - rewrite (k_hh _ K2), (k_hh _ K1); reflexivity.
  - rewrite (k_duration _ K2), (k_duration _ K1); reflexivity.
  - rewrite (k_res _ K2), (k_res _ K1); reflexivity.
  - rewrite a2, a1; reflexivity.
  - rewrite b2, b1; reflexivity.
  - rewrite c2, c1; reflexivity.
  - rewrite d2, d1; reflexivity.
  - rewrite e2, e1; reflexivity.
  - intros H. apply f2, f1, H.
  - intros H. apply g2, g1, H.
  - intros H. apply h2, h1, H.
Qed.

Lemma only_flags_id : only_flags (fun s => s).
Proof. constructor; [constructor|..]; intros s; auto. Qed.

Lemma trigF_only_flags g body self d : only_flags (trigF g body self d).
Proof.
  induction body as [|ct r IH]; [apply only_flags_id|].
  cbn [trigF]. apply (only_flags_comp _ _ (flagF_only_flags (fst ct) (target_keys g self d (snd ct))) IH).
Qed.

Definition has_flag (c : flagcol) (s : step) : bool :=
  match c with FSafe => s_chk_safe s | FAfter => s_chk_after s | FReady => s_chk_ready s end.

Lemma has_flag_mono F c s : only_flags F -> has_flag c s = true -> has_flag c (F s) = true.
Proof. intros O. destruct c; cbn; [apply (of_cs F O) | apply (of_ca F O) | apply (of_cr F O)]. Qed.

Lemma trigF_sets g body self d c t s :
  In (c, t) body -> In (s_key s) (target_keys g self d t) -> has_flag c (trigF g body self d s) = true.
Proof.
  revert s. induction body as [|ct r IH]; intros s Hin Hk; [destruct Hin|].
  cbn [trigF]. destruct Hin as [->|Hin].
  - cbn [fst snd]. apply has_flag_mono; [apply trigF_only_flags|].
    unfold flagF. apply mem_N_In in Hk. rewrite Hk. destruct c; reflexivity.
  - apply IH; [exact Hin|].
    assert (Hkk : s_key (flagF (fst ct) (target_keys g self d (snd ct)) s) = s_key s)
      by apply (k_key _ (of_keeps _ (flagF_only_flags _ _))).
    rewrite Hkk. exact Hk.
Qed.

(* ---- _ready ---- *)

(* Same files and edges; _ready kept; _check_ready only raised. *)
Lemma FlagInv_ready_mono F g :
  (forall s, s_key (F s) = s_key s) -> (forall s, s_ready (F s) = s_ready s) ->
  (forall s, s_chk_ready s = true -> s_chk_ready (F s) = true) ->
  FlagInv_ready g -> FlagInv_ready (mapg F g).
Proof.
  intros Hk Hr Hc HF s Hin Hchk. unfold mapg in Hin. cbn [g_steps with_steps] in Hin.
  apply in_map_iff in Hin. destruct Hin as [s0 [<- Hin]].
  rewrite Hr, Hk. unfold mapg. rewrite ready_spec_steps. apply HF; [exact Hin|].
  destruct (s_chk_ready s0) eqn:E; [|reflexivity]. rewrite (Hc s0 E) in Hchk. discriminate.
Qed.

(* ---- _implied_need ---- *)

Record need_mono (F : step -> step) : Prop := {
  nm_key : forall s, s_key (F s) = s_key s;
  nm_need : forall s, s_need (F s) = s_need s;
  nm_detached : forall s, s_detached (F s) = s_detached s;
  nm_duration : forall s, s_duration (F s) = s_duration s;
  nm_ineed : forall s, s_ineed (F s) = s_ineed s;
  nm_tail : forall s, s_tail (F s) = s_tail s;
  nm_ca : forall s, s_chk_after s = true -> s_chk_after (F s) = true }.

Lemma find_step_mapg' F g k : (forall s, s_key (F s) = s_key s) ->
  find_step (mapg F g) k = option_map F (find_step g k).
Proof. intros K. unfold find_step, mapg. cbn [g_steps with_steps]. apply find_map_key. exact K. Qed.

Section NeedMono.
  Variable F : step -> step.
  Hypothesis M : need_mono F.
  Variable g : graph.

  Lemma nm_cons_keys k : cons_keys (mapg F g) k = cons_keys g k.
  Proof.
    unfold cons_keys. change (g_deps (mapg F g)) with (g_deps g).
    apply flat_map_ext. intros d1. destruct (d_src d1 =? k); [|reflexivity].
    apply flat_map_ext. intros d2. destruct (d_src d2 =? d_snk d1); [|reflexivity].
    rewrite find_step_mapg' by apply M.
    destruct (find_step g (d_snk d2)) as [y|]; [|reflexivity]. cbn [option_map].
    rewrite (nm_detached F M), (nm_key F M). reflexivity.
  Qed.

  Lemma nm_local_k k : local_k (mapg F g) k = local_k g k.
  Proof.
    unfold local_k. rewrite find_step_mapg' by apply M.
    destruct (find_step g k) as [s|]; [|reflexivity]. cbn [option_map].
    unfold local_need, elev. rewrite (nm_key F M), (nm_need F M). reflexivity.
  Qed.

  Lemma nm_duration_k k : duration_k (mapg F g) k = duration_k g k.
  Proof.
    unfold duration_k. rewrite find_step_mapg' by apply M.
    destruct (find_step g k) as [s|]; [|reflexivity]. cbn [option_map]. apply (nm_duration F M).
  Qed.

  Lemma nm_vals_of k : vals_of (mapg F g) k = vals_of g k.
  Proof.
    unfold vals_of. rewrite find_step_mapg' by apply M.
    destruct (find_step g k) as [s|]; [|reflexivity]. cbn [option_map].
    rewrite (nm_ineed F M), (nm_tail F M). reflexivity.
  Qed.

  Lemma nm_new_val k : new_val (mapg F g) (vals_of (mapg F g)) k = new_val g (vals_of g) k.
  Proof.
    unfold new_val. rewrite nm_local_k, nm_duration_k, nm_cons_keys.
    f_equal; f_equal; f_equal; apply map_ext; intros y; rewrite nm_vals_of; reflexivity.
  Qed.

  Lemma nm_seed0 k : In k (seed0 g) -> In k (seed0 (mapg F g)).
  Proof.
    unfold seed0, mapg. cbn [g_steps with_steps]. intros H.
    apply in_map_iff in H. destruct H as [s [<- H]]. apply filter_In in H. destruct H as [H1 H2].
    apply andb_true_iff in H2. destruct H2 as [H2 H3].
    rewrite <- (nm_key F M s). apply in_map. apply filter_In. split; [apply in_map; exact H1|].
    rewrite (nm_detached F M), H2, (nm_ca F M s H3). reflexivity.
  Qed.

  Lemma FlagInv_need_mono : FlagInv_need g -> FlagInv_need (mapg F g).
  Proof.
    intros HF s Hin Hd Hc Hy. unfold mapg in Hin. cbn [g_steps with_steps] in Hin.
    apply in_map_iff in Hin. destruct Hin as [s0 [<- Hin]].
    rewrite (nm_ineed F M), (nm_key F M), nm_new_val.
    rewrite (nm_detached F M) in Hd.
    apply HF; try assumption.
    - destruct (s_chk_after s0) eqn:E; [|reflexivity]. rewrite (nm_ca F M s0 E) in Hc. discriminate.
    - intros y Hyc Hys. apply (Hy y).
      + rewrite (nm_key F M), nm_cons_keys. exact Hyc.
      + apply nm_seed0. exact Hys.
  Qed.
End NeedMono.

Lemma only_flags_need_mono F : only_flags F -> need_mono F.
Proof.
  intros O. pose proof (of_keeps F O) as K.
  constructor; intros s; try apply K; try apply O.
Qed.

(* ---- _safe ---- *)

(* creator forest, cached values kept; flags only raised; a step (of g) whose state, "is holding"
   or creator changes is flagged *)
Record safe_mono (g : graph) (F : step -> step) : Prop := {
  sm_key : forall s, s_key (F s) = s_key s;
  sm_safe : forall s, s_safe (F s) = s_safe s;
  sm_safe_nh : forall s, s_safe_nh (F s) = s_safe_nh s;
  sm_cs : forall s, s_chk_safe s = true -> s_chk_safe (F s) = true;
  sm_change : forall s, In s (g_steps g) -> s_chk_safe (F s) = false ->
      ok_nh (F s) = ok_nh s /\ ok_h (F s) = ok_h s /\ s_creator (F s) = s_creator s }.

Section SafeMono.
  Variable F : step -> step.
  Variable g : graph.
  Hypothesis M : safe_mono g F.

  Lemma sm_creator_step s : In s (g_steps g) -> s_chk_safe (F s) = false ->
    creator_step (mapg F g) (F s) = option_map F (creator_step g s).
  Proof.
    intros Hin Hc. unfold creator_step. destruct (sm_change g F M s Hin Hc) as [_ [_ ->]].
    destruct (s_creator s); [|reflexivity]. apply find_step_mapg'. apply M.
  Qed.

  Lemma sm_unflagged n : forall s, In s (g_steps g) ->
    aflag n (mapg F g) (F s) = false -> aflag n g s = false.
  Proof.
    induction n as [|n IH]; intros s Hin Ha; [reflexivity|].
    cbn [aflag] in Ha. apply orb_false_iff in Ha. destruct Ha as [Ha1 Ha2].
    rewrite (sm_creator_step s Hin Ha1) in Ha2.
    cbn [aflag].
    assert (Hcs : s_chk_safe s = false).
    { destruct (s_chk_safe s) eqn:E; [|reflexivity]. rewrite (sm_cs g F M s E) in Ha1. discriminate. }
    rewrite Hcs. cbn [orb].
    destruct (creator_step g s) as [c|] eqn:Ec; [|reflexivity]. cbn [option_map] in *.
    apply IH; [eapply creator_step_in; exact Ec | exact Ha2].
  Qed.

  Lemma sm_unflagged_S n : forall s, In s (g_steps g) -> aflag (S n) (mapg F g) (F s) = false ->
    safe_fuel n (mapg F g) (F s) = safe_fuel n g s.
  Proof.
    induction n as [|n IH]; intros s Hin Ha; [reflexivity|].
    cbn [aflag] in Ha. apply orb_false_iff in Ha. destruct Ha as [Ha1 Ha2].
    rewrite (sm_creator_step s Hin Ha1) in Ha2.
    cbn [safe_fuel]. rewrite (sm_creator_step s Hin Ha1).
    destruct (creator_step g s) as [c|] eqn:Ec; [|reflexivity]. cbn [option_map] in *.
    pose proof (creator_step_in g s c Ec) as Hc.
    change (s_chk_safe (F c) || match creator_step (mapg F g) (F c) with
                                | Some c0 => aflag n (mapg F g) c0 | None => false end = false)
      with (aflag (S n) (mapg F g) (F c) = false) in Ha2.
    rewrite (IH c Hc Ha2).
    assert (Hcc : s_chk_safe (F c) = false).
    { cbn [aflag] in Ha2. apply orb_false_iff in Ha2. tauto. }
    destruct (sm_change g F M c Hc Hcc) as [Hs [Hh _]].
    rewrite Hs, Hh. reflexivity.
  Qed.
End SafeMono.

Lemma FlagInv_safe_mono F g : safe_mono g F -> FlagInv_safe g -> FlagInv_safe (mapg F g).
Proof.
  intros M HF s Hin Ha. unfold mapg in Hin. cbn [g_steps with_steps] in Hin.
  apply in_map_iff in Hin. destruct Hin as [s0 [<- Hin]].
  unfold L in *. rewrite length_mapg in Ha.
  pose proof (sm_unflagged F g M _ s0 Hin Ha) as H1.
  pose proof (sm_unflagged_S F g M _ s0 Hin Ha) as H2.
  unfold safe_spec. rewrite length_mapg, H2. rewrite (sm_safe g F M), (sm_safe_nh g F M).
  apply HF; assumption.
Qed.

Lemma only_flags_safe_mono g F : only_flags F -> safe_mono g F.
Proof.
  intros O. pose proof (of_keeps F O) as K.
  constructor; intros s; try apply K; try apply O.
  intros _ _. repeat split; [apply ok_nh_keeps | apply ok_h_keeps | apply K]; exact K.
Qed.

(* ---- Step.set_state ---- *)

Definition stateF (k st : N) (df : bool) (s : step) : step :=
  if s_key s =? k then apply_state s st df else s.

Lemma set_step_state_mapg g k st df :
  set_step_state g k st df =
  mapg (fun s => trigF (mapg (stateF k st df) g) trg_step_state k None (stateF k st df s)) g.
Proof.
  unfold set_step_state. rewrite run_trigger_mapg.
  change (with_steps g (map (fun s => if s_key s =? k then apply_state s st df else s) (g_steps g)))
    with (mapg (stateF k st df) g).
  apply mapg_mapg.
Qed.

Lemma stateF_key k st df s : s_key (stateF k st df s) = s_key s.
Proof. unfold stateF. destruct (s_key s =? k); reflexivity. Qed.

Theorem set_step_state_sound g k st df :
  In (FSafe, TSelf) trg_step_state -> FlagInv g -> FlagInv (set_step_state g k st df).
Proof.
  intros Hin [HFs [HFn HFr]]. rewrite set_step_state_mapg.
  set (g1 := mapg (stateF k st df) g).
  pose proof (trigF_only_flags g1 trg_step_state k None) as O. pose proof (of_keeps _ O) as K.
  split; [|split].
  - apply FlagInv_safe_mono; [|exact HFs]. constructor; intros s.
    + rewrite (k_key _ K). apply stateF_key.
    + rewrite (of_safe _ O). unfold stateF. destruct (s_key s =? k); reflexivity.
    + rewrite (of_safe_nh _ O). unfold stateF. destruct (s_key s =? k); reflexivity.
    + intros H. apply (of_cs _ O). unfold stateF. destruct (s_key s =? k); exact H.
    + intros _ Hc. unfold stateF in *. destruct (s_key s =? k) eqn:E.
      * exfalso. apply N.eqb_eq in E.
        assert (Hf : has_flag FSafe (trigF g1 trg_step_state k None (apply_state s st df)) = true).
        { apply (trigF_sets g1 trg_step_state k None FSafe TSelf); [exact Hin|]. cbn. left. symmetry. exact E. }
        unfold has_flag in Hf. congruence.
      * repeat split; [apply ok_nh_keeps | apply ok_h_keeps | apply K]; exact K.
  - apply FlagInv_need_mono; [|exact HFn]. constructor; intros s.
    + rewrite (k_key _ K). apply stateF_key.
    + rewrite (k_need _ K). unfold stateF. destruct (s_key s =? k); reflexivity.
    + rewrite (k_detached _ K). unfold stateF. destruct (s_key s =? k); reflexivity.
    + rewrite (k_duration _ K). unfold stateF. destruct (s_key s =? k); reflexivity.
    + rewrite (of_ineed _ O). unfold stateF. destruct (s_key s =? k); reflexivity.
    + rewrite (of_tail _ O). unfold stateF. destruct (s_key s =? k); reflexivity.
    + intros H. apply (of_ca _ O). unfold stateF. destruct (s_key s =? k); exact H.
  - apply FlagInv_ready_mono; [| | |exact HFr]; intros s.
    + rewrite (k_key _ K). apply stateF_key.
    + rewrite (of_ready _ O). unfold stateF. destruct (s_key s =? k); reflexivity.
    + intros H. apply (of_cr _ O). unfold stateF. destruct (s_key s =? k); exact H.
Qed.

(* ---- Step.hold / Step.release ---- *)

Definition holdF (k : N) (h : N -> N) (s : step) : step :=
  if s_key s =? k then set_life s (s_state s) (s_deferred s) (s_defer_count s) (h (s_holding s)) else s.

Lemma holdF_props k h s :
  s_key (holdF k h s) = s_key s /\ s_need (holdF k h s) = s_need s /\
  s_detached (holdF k h s) = s_detached s /\ s_duration (holdF k h s) = s_duration s /\
  s_ineed (holdF k h s) = s_ineed s /\ s_tail (holdF k h s) = s_tail s /\
  s_chk_after (holdF k h s) = s_chk_after s /\ s_ready (holdF k h s) = s_ready s /\
  s_chk_ready (holdF k h s) = s_chk_ready s /\ s_safe (holdF k h s) = s_safe s /\
  s_safe_nh (holdF k h s) = s_safe_nh s /\ s_chk_safe (holdF k h s) = s_chk_safe s /\
  s_creator (holdF k h s) = s_creator s /\ ok_nh (holdF k h s) = ok_nh s.
Proof. unfold holdF. destruct (s_key s =? k); repeat split; reflexivity. Qed.

Definition subtreeF (ks : list N) (s : step) : step := flagF FAfter ks (flagF FSafe ks s).
Lemma flag_with_products_mapg g k :
  flag_with_products g k = mapg (subtreeF (step_subtree g k)) g.
Proof. unfold flag_with_products. rewrite !flag_keys_mapg, mapg_mapg. reflexivity. Qed.
Lemma subtreeF_only_flags ks : only_flags (subtreeF ks).
Proof. apply (only_flags_comp _ _ (flagF_only_flags FSafe ks) (flagF_only_flags FAfter ks)). Qed.
Lemma subtreeF_flags_head k ks s : s_key s = k -> s_chk_safe (subtreeF (k :: ks) s) = true.
Proof.
  intros E. unfold subtreeF.
  apply (of_cs _ (flagF_only_flags FAfter (k :: ks))). unfold flagF.
  assert (Hm : mem_N (s_key s) (k :: ks) = true) by (apply mem_N_In; left; symmetry; exact E).
  rewrite Hm. reflexivity.
Qed.

(* any change of the hold counter that either flags the step or keeps "is holding" as it was *)
Lemma hold_like_sound g k h (G : step -> step) :
  only_flags G ->
  (forall s, In s (g_steps g) -> s_key s = k ->
     s_chk_safe (G (holdF k h s)) = true \/ (h (s_holding s) =? 0) = (s_holding s =? 0)) ->
  FlagInv g -> FlagInv (mapg (fun s => G (holdF k h s)) g).
Proof.
  intros O Hk [HFs [HFn HFr]]. pose proof (of_keeps _ O) as K.
  split; [|split].
  - apply FlagInv_safe_mono; [|exact HFs]. constructor.
    + intros s. rewrite (k_key _ K). apply holdF_props.
    + intros s. rewrite (of_safe _ O). apply holdF_props.
    + intros s. rewrite (of_safe_nh _ O). apply holdF_props.
    + intros s H. apply (of_cs _ O).
      destruct (holdF_props k h s) as [_ [_ [_ [_ [_ [_ [_ [_ [_ [_ [_ [-> _]]]]]]]]]]]]. exact H.
    + intros x Hx Hc.
      rewrite (ok_nh_keeps _ _ K), (ok_h_keeps _ _ K), (k_creator _ K).
      destruct (holdF_props k h x) as [_ [_ [_ [_ [_ [_ [_ [_ [_ [_ [_ [_ [Hcr Hnh]]]]]]]]]]]]].
      repeat split; [exact Hnh | | exact Hcr].
      unfold ok_h. rewrite Hnh. f_equal. unfold holdF. destruct (s_key x =? k) eqn:E; [|reflexivity].
      cbn [set_life s_holding]. apply N.eqb_eq in E.
      destruct (Hk x Hx E) as [Hf|Hf]; [congruence | exact Hf].
  - apply FlagInv_need_mono; [|exact HFn]. constructor; intros s;
      destruct (holdF_props k h s) as [P1 [P2 [P3 [P4 [P5 [P6 [P7 _]]]]]]].
    + rewrite (k_key _ K). exact P1.
    + rewrite (k_need _ K). exact P2.
    + rewrite (k_detached _ K). exact P3.
    + rewrite (k_duration _ K). exact P4.
    + rewrite (of_ineed _ O). exact P5.
    + rewrite (of_tail _ O). exact P6.
    + intros H. apply (of_ca _ O). rewrite P7. exact H.
  - apply FlagInv_ready_mono; [| | |exact HFr]; intros s;
      destruct (holdF_props k h s) as [P1 [_ [_ [_ [_ [_ [_ [P8 [P9 _]]]]]]]]].
    + rewrite (k_key _ K). exact P1.
    + rewrite (of_ready _ O). exact P8.
    + intros H. apply (of_cr _ O). rewrite P9. exact H.
Qed.

Theorem hold_step_sound g k : WF g -> FlagInv g -> FlagInv (hold_step g k).
Proof.
  intros Hwf HF. unfold hold_step. destruct (find_step g k) as [s0|] eqn:E0; [|exact HF].
  change (with_steps g (map (fun s => if s_key s =? k then set_life s (s_state s) (s_deferred s) (s_defer_count s) (s_holding s + 1) else s) (g_steps g)))
    with (mapg (holdF k (fun x => x + 1)) g).
  assert (Huniq : forall s, In s (g_steps g) -> s_key s = k -> s = s0).
  { intros s Hs Hk. rewrite <- Hk in E0. rewrite (find_step_in g s Hwf Hs) in E0. congruence. }
  destruct (s_holding s0 =? 0) eqn:Eh.
  - rewrite flag_with_products_mapg, mapg_mapg.
    apply (hold_like_sound g k (fun x => x + 1) (subtreeF (step_subtree (mapg (holdF k (fun x => x + 1)) g) k)));
      [apply subtreeF_only_flags | | exact HF].
    intros s Hs Hk. left. unfold step_subtree. apply subtreeF_flags_head.
    rewrite <- Hk. apply holdF_props.
  - apply (hold_like_sound g k (fun x => x + 1) (fun x => x)); [apply only_flags_id | | exact HF].
    intros s Hs Hk. right. rewrite (Huniq s Hs Hk), Eh. apply N.eqb_neq. lia.
Qed.

Theorem release_step_sound g k g' : WF g -> FlagInv g -> release_step g k = Some g' -> FlagInv g'.
Proof.
  intros Hwf HF. unfold release_step. destruct (find_step g k) as [s0|] eqn:E0; [|discriminate].
  destruct (s_holding s0 =? 0) eqn:Eh0; [discriminate|]. intros Hg. injection Hg as <-.
  change (with_steps g (map (fun s => if s_key s =? k then set_life s (s_state s) (s_deferred s) (s_defer_count s) (s_holding s - 1) else s) (g_steps g)))
    with (mapg (holdF k (fun x => x - 1)) g).
  assert (Huniq : forall s, In s (g_steps g) -> s_key s = k -> s = s0).
  { intros s Hs Hk. rewrite <- Hk in E0. rewrite (find_step_in g s Hwf Hs) in E0. congruence. }
  destruct (s_holding s0 =? 1) eqn:Eh.
  - rewrite flag_with_products_mapg, mapg_mapg.
    apply (hold_like_sound g k (fun x => x - 1) (subtreeF (step_subtree (mapg (holdF k (fun x => x - 1)) g) k)));
      [apply subtreeF_only_flags | | exact HF].
    intros s Hs Hk. left. unfold step_subtree. apply subtreeF_flags_head.
    rewrite <- Hk. apply holdF_props.
  - apply (hold_like_sound g k (fun x => x - 1) (fun x => x)); [apply only_flags_id | | exact HF].
    intros s Hs Hk. right. rewrite (Huniq s Hs Hk), Eh0.
    apply N.eqb_neq in Eh0, Eh. apply N.eqb_neq. lia.
Qed.

(* ---- dependency insert / delete ---- *)

Lemma maxl_set_ext d (f : N -> N) l1 l2 :
  (forall x, In x l1 <-> In x l2) -> maxl d (map f l1) = maxl d (map f l2).
Proof.
  intros H. apply N.le_antisymm.
  - destruct (maxl_cases d (map f l1)) as [->|Hin]; [apply maxl_ge|].
    apply in_map_iff in Hin. destruct Hin as [x [Hx Hin]]. rewrite <- Hx.
    apply maxl_in. apply in_map. apply H. exact Hin.
  - destruct (maxl_cases d (map f l2)) as [->|Hin]; [apply maxl_ge|].
    apply in_map_iff in Hin. destruct Hin as [x [Hx Hin]]. rewrite <- Hx.
    apply maxl_in. apply in_map. apply H. exact Hin.
Qed.

Lemma cons_keys_spec g k y :
  In y (cons_keys g k) <->
  exists d1 d2 sy, In d1 (g_deps g) /\ In d2 (g_deps g) /\ d_src d1 = k /\ d_src d2 = d_snk d1 /\
                   find_step g (d_snk d2) = Some sy /\ s_detached sy = false /\ y = s_key sy.
Proof.
  unfold cons_keys. split.
  - intros H. apply in_flat_map in H. destruct H as [d1 [Hd1 H]].
    destruct (d_src d1 =? k) eqn:E1; [|destruct H]. apply N.eqb_eq in E1.
    apply in_flat_map in H. destruct H as [d2 [Hd2 H]].
    destruct (d_src d2 =? d_snk d1) eqn:E2; [|destruct H]. apply N.eqb_eq in E2.
    destruct (find_step g (d_snk d2)) as [sy|] eqn:Ef; [|destruct H].
    destruct (s_detached sy) eqn:Ed; [destruct H|]. destruct H as [<-|[]].
    exists d1, d2, sy. repeat split; assumption.
  - intros [d1 [d2 [sy [Hd1 [Hd2 [E1 [E2 [Ef [Ed ->]]]]]]]]].
    apply in_flat_map. exists d1. split; [exact Hd1|].
    apply N.eqb_eq in E1. rewrite E1. apply in_flat_map. exists d2. split; [exact Hd2|].
    apply N.eqb_eq in E2. rewrite E2, Ef, Ed. left. reflexivity.
Qed.

(* the general step: edges change to deps', flags are raised by F *)
Lemma FlagInv_need_deps g deps' F :
  only_flags F ->
  (forall s, In s (g_steps g) -> s_detached s = false -> s_chk_after (F s) = false ->
     (forall y, In y (cons_keys (with_deps g deps') (s_key s)) -> ~ In y (seed0 (mapg F (with_deps g deps')))) ->
     (forall y, In y (cons_keys (with_deps g deps') (s_key s)) <-> In y (cons_keys g (s_key s))) /\
     local_k (with_deps g deps') (s_key s) = local_k g (s_key s)) ->
  FlagInv_need g -> FlagInv_need (mapg F (with_deps g deps')).
Proof.
  intros O H2 HF s' Hin' Hd Hc Hy.
  set (g1 := with_deps g deps') in *.
  pose proof (only_flags_need_mono F O) as M. pose proof (of_keeps F O) as K.
  unfold mapg in Hin'. cbn [g_steps with_steps] in Hin'.
  apply in_map_iff in Hin'. destruct Hin' as [s [<- Hin]].
  change (In s (g_steps g)) in Hin.
  rewrite (nm_detached F M) in Hd. rewrite (nm_key F M) in *.
  rewrite (nm_cons_keys F M g1) in Hy.
  destruct (H2 s Hin Hd Hc Hy) as [Hset Hloc].
  rewrite (nm_ineed F M), (nm_new_val F M g1).
  assert (Hs0 : s_chk_after s = false).
  { destruct (s_chk_after s) eqn:E; [|reflexivity]. rewrite (nm_ca F M s E) in Hc. discriminate. }
  rewrite (HF s Hin Hd Hs0).
  - unfold new_val. cbn [fst]. rewrite Hloc. f_equal.
    symmetry. apply (maxl_set_ext _ (fun y => fst (vals_of g1 y))). exact Hset.
  - intros y Hyc Hys. apply (Hy y); [apply Hset; exact Hyc|].
    apply (nm_seed0 F M g1). exact Hys.
Qed.

Lemma outputs_other g deps' k :
  (forall e, In e deps' -> d_src e = k -> In e (g_deps g)) ->
  (forall e, In e (g_deps g) -> d_src e = k -> In e deps') ->
  forall f, In f (outputs (with_deps g deps') k) <-> In f (outputs g k).
Proof.
  intros H1 H2 f. unfold outputs. cbn [g_deps with_deps]. rewrite !in_flat_map.
  split; intros [e [He Hf]]; exists e; (split; [|exact Hf]);
    destruct (d_src e =? k) eqn:E; try (destruct Hf; fail); apply N.eqb_eq in E; auto.
Qed.

Lemma existsb_set_ext {A} (p : A -> bool) l1 l2 :
  (forall x, In x l1 <-> In x l2) -> existsb p l1 = existsb p l2.
Proof.
  intros H. destruct (existsb p l1) eqn:E1; destruct (existsb p l2) eqn:E2; try reflexivity.
  - apply existsb_exists in E1. destruct E1 as [x [Hx Hp]].
    assert (existsb p l2 = true) by (apply existsb_exists; exists x; split; [apply H; exact Hx | exact Hp]).
    congruence.
  - apply existsb_exists in E2. destruct E2 as [x [Hx Hp]].
    assert (existsb p l1 = true) by (apply existsb_exists; exists x; split; [apply H; exact Hx | exact Hp]).
    congruence.
Qed.

Lemma local_k_other g deps' k :
  (forall e, In e deps' -> d_src e = k -> In e (g_deps g)) ->
  (forall e, In e (g_deps g) -> d_src e = k -> In e deps') ->
  local_k (with_deps g deps') k = local_k g k.
Proof.
  intros H1 H2. unfold local_k. change (find_step (with_deps g deps') k) with (find_step g k).
  destruct (find_step g k) as [s|] eqn:E; [|reflexivity]. apply find_step_some in E. destruct E as [_ E].
  unfold local_need, elev. rewrite E.
  change (g_targets (with_deps g deps')) with (g_targets g).
  rewrite (existsb_set_ext (fun f => regular_output f && is_target (with_deps g deps') f) _ _ (outputs_other g deps' k H1 H2)).
  rewrite (existsb_set_ext (fun f => regular_output f && in_tdir (with_deps g deps') f) _ _ (outputs_other g deps' k H1 H2)).
  reflexivity.
Qed.

Definition same_ends (a b : dep) : Prop := d_src a = d_src b /\ d_snk a = d_snk b.
Lemma dep_eqb_spec a b : dep_eqb a b = true <-> same_ends a b.
Proof. unfold dep_eqb, same_ends. rewrite andb_true_iff, !N.eqb_eq. tauto. Qed.

(* the trigger of a dependency row: F is its step map, evaluated on the new edge table *)
Lemma dep_trigger_flags g1 trg d c t s :
  In (c, t) trg -> In (s_key s) (target_keys g1 0 (Some d) t) ->
  has_flag c (trigF g1 trg 0 (Some d) s) = true.
Proof. apply trigF_sets. Qed.

Lemma seed0_flagged g s : In s (g_steps g) -> s_detached s = false -> s_chk_after s = true ->
  In (s_key s) (seed0 g).
Proof.
  intros Hin Hd Hc. unfold seed0. apply in_map. apply filter_In. split; [exact Hin|].
  rewrite Hd, Hc. reflexivity.
Qed.

(* INSERT INTO dependency (the dynamic marker does not matter for _implied_need) *)
Theorem ins_edge_need_sound g trg d :
  WF g -> In (FAfter, TSource) trg -> In (FAfter, TSink) trg ->
  FlagInv_need g ->
  FlagInv_need (run_trigger trg 0 (Some d) (with_deps g (g_deps g ++ [mkDep (d_src d) (d_snk d) false]))).
Proof.
  intros Hwf Hsrc Hsnk HF. rewrite run_trigger_mapg.
  set (deps' := g_deps g ++ [mkDep (d_src d) (d_snk d) false]).
  set (g1 := with_deps g deps').
  pose proof (trigF_only_flags g1 trg 0 (Some d)) as O.
  apply FlagInv_need_deps; [exact O| |exact HF].
  intros s Hin Hd Hc Hy. fold g1 in Hy.
  assert (Hne : s_key s <> d_src d).
  { intros E. assert (Hf := dep_trigger_flags g1 trg d FAfter TSource s Hsrc).
    cbn [target_keys has_flag] in Hf. rewrite Hf in Hc; [discriminate | left; symmetry; exact E]. }
  split.
  - intros y. rewrite !cons_keys_spec. change (find_step g1) with (find_step g).
    split.
    + intros [d1 [d2 [sy [Hd1 [Hd2 [E1 [E2 [Ef [Ed ->]]]]]]]]].
      unfold g1, deps' in Hd1, Hd2. cbn [g_deps with_deps] in Hd1, Hd2.
      apply in_app_or in Hd1. apply in_app_or in Hd2.
      destruct Hd1 as [Hd1|[<-|[]]]; [|cbn in E1; congruence].
      destruct Hd2 as [Hd2|[<-|[]]].
      * exists d1, d2, sy. repeat split; assumption.
      * (* the new edge leads to an attached step: it was flagged by the trigger *)
        exfalso. cbn [d_snk d_src] in *.
        apply find_step_some in Ef. destruct Ef as [Hsy Eky].
        apply (Hy (s_key sy)).
        -- apply cons_keys_spec. exists d1, (mkDep (d_src d) (d_snk d) false), sy.
           change (find_step g1) with (find_step g).
           repeat split; try assumption.
           ++ unfold g1, deps'. cbn [g_deps with_deps]. apply in_or_app. left. exact Hd1.
           ++ unfold g1, deps'. cbn [g_deps with_deps]. apply in_or_app. right. left. reflexivity.
           ++ rewrite <- Eky. apply find_step_in; assumption.
        -- pose proof (of_keeps _ O) as K.
           rewrite <- (k_key _ K sy). apply seed0_flagged.
           ++ unfold mapg. cbn [g_steps with_steps]. apply in_map. exact Hsy.
           ++ rewrite (k_detached _ K). exact Ed.
           ++ apply (dep_trigger_flags g1 trg d FAfter TSink sy Hsnk). cbn [target_keys]. left. symmetry. exact Eky.
    + intros [d1 [d2 [sy [Hd1 [Hd2 R]]]]]. exists d1, d2, sy.
      split; [unfold g1, deps'; cbn [g_deps with_deps]; apply in_or_app; left; exact Hd1|].
      split; [unfold g1, deps'; cbn [g_deps with_deps]; apply in_or_app; left; exact Hd2|]. exact R.
  - apply local_k_other.
    + intros e He Es. unfold deps' in He. apply in_app_or in He. destruct He as [He|[<-|[]]]; [exact He|].
      cbn in Es. congruence.
    + intros e He _. unfold deps'. apply in_or_app. left. exact He.
Qed.

(* DELETE FROM dependency *)
Theorem del_edge_need_sound g trg d :
  WF g -> In (FAfter, TSource) trg ->
  (In (FAfter, TProducersOfSource) trg \/
   (forall sy, find_step g (d_snk d) = Some sy -> s_detached sy = true)) ->
  FlagInv_need g ->
  FlagInv_need (run_trigger trg 0 (Some d) (with_deps g (filter (fun e => negb (dep_eqb e d)) (g_deps g)))).
Proof.
  intros Hwf Hsrc Hprod HF. rewrite run_trigger_mapg.
  set (deps' := filter (fun e => negb (dep_eqb e d)) (g_deps g)).
  set (g1 := with_deps g deps').
  pose proof (trigF_only_flags g1 trg 0 (Some d)) as O.
  assert (Hsub : forall e, In e deps' -> In e (g_deps g)).
  { intros e He. unfold deps' in He. apply filter_In in He. tauto. }
  assert (Hkeep : forall e, In e (g_deps g) -> ~ same_ends e d -> In e deps').
  { intros e He Hn. unfold deps'. apply filter_In. split; [exact He|].
    apply negb_true_iff. destruct (dep_eqb e d) eqn:E; [|reflexivity].
    apply dep_eqb_spec in E. contradiction. }
  apply FlagInv_need_deps; [exact O| |exact HF].
  intros s Hin Hd Hc Hy. fold g1 in Hy.
  assert (Hne : s_key s <> d_src d).
  { intros E. assert (Hf := dep_trigger_flags g1 trg d FAfter TSource s Hsrc).
    cbn [target_keys has_flag] in Hf. rewrite Hf in Hc; [discriminate | left; symmetry; exact E]. }
  split.
  - intros y. rewrite !cons_keys_spec. change (find_step g1) with (find_step g).
    split.
    + intros [d1 [d2 [sy [Hd1 [Hd2 R]]]]]. exists d1, d2, sy.
      split; [apply Hsub; exact Hd1|]. split; [apply Hsub; exact Hd2|]. exact R.
    + intros [d1 [d2 [sy [Hd1 [Hd2 [E1 [E2 [Ef [Ed ->]]]]]]]]].
      assert (Hn1 : ~ same_ends d1 d) by (intros [A _]; congruence).
      destruct (dep_eqb d2 d) eqn:E2d.
      * exfalso. apply dep_eqb_spec in E2d. destruct E2d as [A B].
        destruct Hprod as [Hprod|Hprod].
        -- (* s produces the source file of the deleted edge: the trigger flagged it *)
           assert (Hf := dep_trigger_flags g1 trg d FAfter TProducersOfSource s Hprod).
           cbn [target_keys has_flag] in Hf. rewrite Hf in Hc; [discriminate|].
           unfold producers_of_node. apply in_map_iff. exists d1. split; [exact E1|].
           apply filter_In. split; [unfold g1; cbn [g_deps with_deps]; apply Hkeep; assumption|].
           apply N.eqb_eq. congruence.
        -- rewrite B in Ef. rewrite (Hprod sy Ef) in Ed. discriminate.
      * exists d1, d2, sy.
        split; [unfold g1; cbn [g_deps with_deps]; apply Hkeep; assumption|].
        split; [unfold g1; cbn [g_deps with_deps]; apply Hkeep; [exact Hd2|]|].
        -- intros Hse. apply dep_eqb_spec in Hse. congruence.
        -- repeat split; assumption.
  - apply local_k_other.
    + intros e He _. apply Hsub. exact He.
    + intros e He Es. apply Hkeep; [exact He|]. intros [A _]. congruence.
Qed.

(* ---- the dynamic marker and the complete insert / delete primitives ---- *)

Lemma flat_map_map {A B C} (f : B -> list C) (m : A -> B) l :
  flat_map f (map m l) = flat_map (fun x => f (m x)) l.
Proof. induction l as [|a l IH]; [reflexivity|]. cbn [map flat_map]. rewrite IH. reflexivity. Qed.

Section Marker.
  Variable m : dep -> dep.
  Hypothesis Hm : forall e, d_src (m e) = d_src e /\ d_snk (m e) = d_snk e.
  Variable g : graph.
  Let g' := with_deps g (map m (g_deps g)).

  Lemma marker_cons_keys k : cons_keys g' k = cons_keys g k.
  Proof.
    unfold cons_keys, g'. cbn [g_deps with_deps]. rewrite flat_map_map.
    apply flat_map_ext. intros d1. destruct (Hm d1) as [-> ->].
    destruct (d_src d1 =? k); [|reflexivity]. rewrite flat_map_map.
    apply flat_map_ext. intros d2. destruct (Hm d2) as [-> ->]. reflexivity.
  Qed.

  Lemma marker_outputs k : outputs g' k = outputs g k.
  Proof.
    unfold outputs, g'. cbn [g_deps with_deps]. rewrite flat_map_map.
    apply flat_map_ext. intros e. destruct (Hm e) as [-> ->]. reflexivity.
  Qed.

  Lemma marker_local_k k : local_k g' k = local_k g k.
  Proof.
    unfold local_k. change (find_step g' k) with (find_step g k).
    destruct (find_step g k) as [s|]; [|reflexivity].
    unfold local_need, elev. rewrite marker_outputs. reflexivity.
  Qed.

  Lemma marker_need : FlagInv_need g -> FlagInv_need g'.
  Proof.
    intros HF s Hin Hd Hc Hy. change (In s (g_steps g)) in Hin.
    rewrite marker_cons_keys in Hy. change (seed0 g') with (seed0 g) in Hy.
    unfold new_val. rewrite marker_local_k, marker_cons_keys.
    change (vals_of g') with (vals_of g). apply (HF s Hin Hd Hc Hy).
  Qed.
End Marker.

Lemma FlagInv_need_only_flags F g : only_flags F -> FlagInv_need g -> FlagInv_need (mapg F g).
Proof. intros O. apply FlagInv_need_mono. apply only_flags_need_mono. exact O. Qed.

Definition markF (d : dep) (b : bool) (e : dep) : dep :=
  if dep_eqb e d then mkDep (d_src e) (d_snk e) b else e.
Lemma markF_ends d b e : d_src (markF d b e) = d_src e /\ d_snk (markF d b e) = d_snk e.
Proof. unfold markF. destruct (dep_eqb e d); split; reflexivity. Qed.

Theorem ins_dep_need_sound g trg d :
  WF g -> In (FAfter, TSource) trg -> In (FAfter, TSink) trg ->
  FlagInv_need g -> FlagInv_need (ins_dep_with trg g d).
Proof.
  intros Hwf H1 H2 HF. unfold ins_dep_with.
  pose proof (ins_edge_need_sound g trg d Hwf H1 H2 HF) as Hs.
  destruct (d_dyn d); [|exact Hs].
  rewrite run_trigger_mapg. apply FlagInv_need_only_flags; [apply trigF_only_flags|].
  apply (marker_need (markF d true) (markF_ends d true)). exact Hs.
Qed.

Lemma WF_with_deps g l : WF g -> WF (with_deps g l).
Proof. intros H. exact H. Qed.

Theorem del_dep_need_sound g trg d :
  WF g -> In (FAfter, TSource) trg ->
  (In (FAfter, TProducersOfSource) trg \/
   (forall sy, find_step g (d_snk d) = Some sy -> s_detached sy = true)) ->
  FlagInv_need g -> FlagInv_need (del_dep_with trg g d).
Proof.
  intros Hwf H1 H2 HF. unfold del_dep_with.
  destruct (d_dyn d).
  - rewrite (run_trigger_mapg trg_dyn_del).
    set (g0 := with_deps g (map (fun e => if dep_eqb e d then mkDep (d_src e) (d_snk e) false else e) (g_deps g))).
    set (T := trigF g0 trg_dyn_del 0 (Some d)).
    pose proof (trigF_only_flags g0 trg_dyn_del 0 (Some d)) as O. fold T in O.
    apply del_edge_need_sound.
    + apply WF_mapg; [apply O | exact Hwf].
    + exact H1.
    + destruct H2 as [H2|H2]; [left; exact H2 | right].
      intros sy Hf. rewrite find_step_mapg in Hf by apply O.
      change (find_step g0 (d_snk d)) with (find_step g (d_snk d)) in Hf.
      destruct (find_step g (d_snk d)) as [sy0|] eqn:E; [|discriminate]. cbn in Hf. injection Hf as <-.
      rewrite (k_detached _ (of_keeps _ O)). apply H2. reflexivity.
    + apply FlagInv_need_only_flags; [exact O|].
      apply (marker_need (markF d false) (markF_ends d false)). exact HF.
  - apply del_edge_need_sound; assumption.
Qed.

(* _safe does not read the edge table *)
Lemma aflag_with_deps g l n s : aflag n (with_deps g l) s = aflag n g s.
Proof.
  revert s. induction n as [|n IH]; intros s; [reflexivity|]. cbn [aflag].
  change (creator_step (with_deps g l) s) with (creator_step g s).
  destruct (creator_step g s); [rewrite IH|]; reflexivity.
Qed.
Lemma safe_fuel_with_deps g l n s : safe_fuel n (with_deps g l) s = safe_fuel n g s.
Proof.
  revert s. induction n as [|n IH]; intros s; [reflexivity|]. cbn [safe_fuel].
  change (creator_step (with_deps g l) s) with (creator_step g s).
  destruct (creator_step g s); [rewrite IH|]; reflexivity.
Qed.
Lemma FlagInv_safe_with_deps g l : FlagInv_safe g -> FlagInv_safe (with_deps g l).
Proof.
  intros HF s Hin Ha. unfold L, safe_spec in *. change (g_steps (with_deps g l)) with (g_steps g) in *.
  rewrite aflag_with_deps in Ha. rewrite safe_fuel_with_deps. exact (HF s Hin Ha).
Qed.

Lemma FlagInv_safe_only_flags F g : only_flags F -> FlagInv_safe g -> FlagInv_safe (mapg F g).
Proof. intros O. apply FlagInv_safe_mono. apply only_flags_safe_mono. exact O. Qed.

Theorem ins_dep_safe_sound g trg d : FlagInv_safe g -> FlagInv_safe (ins_dep_with trg g d).
Proof.
  intros HF. unfold ins_dep_with.
  assert (Hs : FlagInv_safe (run_trigger trg 0 (Some d) (with_deps g (g_deps g ++ [mkDep (d_src d) (d_snk d) false])))).
  { rewrite run_trigger_mapg. apply FlagInv_safe_only_flags; [apply trigF_only_flags|].
    apply FlagInv_safe_with_deps. exact HF. }
  destruct (d_dyn d); [|exact Hs].
  rewrite run_trigger_mapg. apply FlagInv_safe_only_flags; [apply trigF_only_flags|].
  apply FlagInv_safe_with_deps. exact Hs.
Qed.

Theorem del_dep_safe_sound g trg d : FlagInv_safe g -> FlagInv_safe (del_dep_with trg g d).
Proof.
  intros HF. unfold del_dep_with.
  rewrite (run_trigger_mapg trg). apply FlagInv_safe_only_flags; [apply trigF_only_flags|].
  apply FlagInv_safe_with_deps.
  destruct (d_dyn d); [|exact HF].
  rewrite run_trigger_mapg. apply FlagInv_safe_only_flags; [apply trigF_only_flags|].
  apply FlagInv_safe_with_deps. exact HF.
Qed.

(* ---- _ready under edge changes ---- *)

Lemma ready_spec_filter g k :
  ready_spec g k = negb (existsb (unavailable g) (filter (fun e => d_snk e =? k) (g_deps g))).
Proof.
  unfold ready_spec. f_equal. induction (g_deps g) as [|e l IH]; [reflexivity|].
  cbn [existsb filter]. destruct (d_snk e =? k); cbn [andb orb existsb]; rewrite IH; reflexivity.
Qed.

Lemma FlagInv_ready_deps g deps' F t :
  (forall k, k <> t -> ready_spec (with_deps g deps') k = ready_spec g k) ->
  (forall s, s_key (F s) = s_key s) -> (forall s, s_ready (F s) = s_ready s) ->
  (forall s, s_chk_ready s = true -> s_chk_ready (F s) = true) ->
  (forall s, In s (g_steps g) -> s_key s = t -> s_chk_ready (F s) = true) ->
  FlagInv_ready g -> FlagInv_ready (mapg F (with_deps g deps')).
Proof.
  intros Hspec Hk Hr Hc Ht HF s' Hin' Hchk. unfold mapg in Hin'. cbn [g_steps with_steps] in Hin'.
  apply in_map_iff in Hin'. destruct Hin' as [s [<- Hin]]. change (In s (g_steps g)) in Hin.
  rewrite Hr, Hk. unfold mapg. rewrite ready_spec_steps.
  destruct (N.eq_dec (s_key s) t) as [E|E]; [rewrite (Ht s Hin E) in Hchk; discriminate|].
  rewrite (Hspec _ E). apply HF; [exact Hin|].
  destruct (s_chk_ready s) eqn:Ec; [rewrite (Hc s Ec) in Hchk; discriminate | reflexivity].
Qed.

Lemma unavailable_markF g l d b e : dep_eqb e d = false -> unavailable (with_deps g l) (markF d b e) = unavailable g e.
Proof. intros H. unfold markF. rewrite H. reflexivity. Qed.

Lemma ready_spec_mark g d b k : k <> d_snk d ->
  ready_spec (with_deps g (map (markF d b) (g_deps g))) k = ready_spec g k.
Proof.
  intros Hk.
  assert (H : forall l, existsb (fun e => (d_snk e =? k) && unavailable g e) (map (markF d b) l)
                        = existsb (fun e => (d_snk e =? k) && unavailable g e) l).
  { induction l as [|e l IH]; [reflexivity|].
    cbn [map existsb]. rewrite IH. f_equal.
    destruct (dep_eqb e d) eqn:E.
    - apply dep_eqb_spec in E. destruct E as [_ E].
      destruct (markF_ends d b e) as [_ ->].
      assert (Hf : (d_snk e =? k) = false) by (apply N.eqb_neq; congruence).
      rewrite Hf. reflexivity.
    - unfold markF. rewrite E. reflexivity. }
  unfold ready_spec. f_equal. exact (H (g_deps g)).
Qed.

Lemma ready_spec_append g d0 k : k <> d_snk d0 ->
  ready_spec (with_deps g (g_deps g ++ [d0])) k = ready_spec g k.
Proof.
  intros Hk.
  assert (H : forall l, existsb (fun e => (d_snk e =? k) && unavailable g e) (l ++ [d0])
                        = existsb (fun e => (d_snk e =? k) && unavailable g e) l).
  { intros l. rewrite existsb_app. cbn [existsb].
    assert (Hf : (d_snk d0 =? k) = false) by (apply N.eqb_neq; congruence).
    rewrite Hf. cbn. rewrite !orb_false_r. reflexivity. }
  unfold ready_spec. f_equal. exact (H (g_deps g)).
Qed.

Lemma ready_spec_remove g d k : k <> d_snk d ->
  ready_spec (with_deps g (filter (fun e => negb (dep_eqb e d)) (g_deps g))) k = ready_spec g k.
Proof.
  intros Hk.
  assert (H : forall l, existsb (fun e => (d_snk e =? k) && unavailable g e) (filter (fun e => negb (dep_eqb e d)) l)
                        = existsb (fun e => (d_snk e =? k) && unavailable g e) l).
  { induction l as [|e l IH]; [reflexivity|].
    cbn [filter existsb]. destruct (dep_eqb e d) eqn:E; cbn [negb existsb]; rewrite IH; [|reflexivity].
    apply dep_eqb_spec in E. destruct E as [_ E].
    assert (Hf : (d_snk e =? k) = false) by (apply N.eqb_neq; congruence).
    rewrite Hf. reflexivity. }
  unfold ready_spec. f_equal. exact (H (g_deps g)).
Qed.

Lemma trigger_flags_sink g1 trg d s :
  In (FReady, TSink) trg \/ In (FReady, TSinkOfDep) trg -> s_key s = d_snk d ->
  s_chk_ready (trigF g1 trg 0 (Some d) s) = true.
Proof.
  intros [H|H] E.
  - apply (trigF_sets g1 trg 0 (Some d) FReady TSink s H). cbn. left. symmetry. exact E.
  - apply (trigF_sets g1 trg 0 (Some d) FReady TSinkOfDep s H). cbn. left. symmetry. exact E.
Qed.

Lemma ready_stage g deps' trg d :
  (forall k, k <> d_snk d -> ready_spec (with_deps g deps') k = ready_spec g k) ->
  (In (FReady, TSink) trg \/ In (FReady, TSinkOfDep) trg) ->
  FlagInv_ready g -> FlagInv_ready (run_trigger trg 0 (Some d) (with_deps g deps')).
Proof.
  intros Hspec Hin HF. rewrite run_trigger_mapg.
  pose proof (trigF_only_flags (with_deps g deps') trg 0 (Some d)) as O.
  apply (FlagInv_ready_deps g deps' _ (d_snk d)); try assumption.
  - intros s. apply (k_key _ (of_keeps _ O)).
  - intros s. apply (of_ready _ O).
  - intros s. apply (of_cr _ O).
  - intros s _ E. apply trigger_flags_sink; assumption.
Qed.

Theorem ins_dep_ready_sound g trg d :
  In (FReady, TSink) trg -> In (FReady, TSinkOfDep) trg_dyn_ins ->
  FlagInv_ready g -> FlagInv_ready (ins_dep_with trg g d).
Proof.
  intros H1 H2 HF. unfold ins_dep_with.
  assert (Hs : FlagInv_ready (run_trigger trg 0 (Some d) (with_deps g (g_deps g ++ [mkDep (d_src d) (d_snk d) false])))).
  { apply ready_stage; [|left; exact H1|exact HF]. intros k Hk. apply ready_spec_append. exact Hk. }
  destruct (d_dyn d); [|exact Hs].
  apply ready_stage; [|right; exact H2|exact Hs].
  intros k Hk. apply (ready_spec_mark _ d true k Hk).
Qed.

Theorem del_dep_ready_sound g trg d :
  In (FReady, TSink) trg -> In (FReady, TSinkOfDep) trg_dyn_del ->
  FlagInv_ready g -> FlagInv_ready (del_dep_with trg g d).
Proof.
  intros H1 H2 HF. unfold del_dep_with.
  apply ready_stage; [|left; exact H1|].
  - intros k Hk. apply ready_spec_remove. exact Hk.
  - destruct (d_dyn d); [|exact HF].
    apply ready_stage; [|right; exact H2|exact HF].
    intros k Hk. apply (ready_spec_mark _ d false k Hk).
Qed.

(* ---- File.set_state ---- *)

Definition fstateF (k st : N) (h : bool) (f : file) : file := if f_key f =? k then set_fstate f st h else f.

Lemma find_file_map g k st h x :
  find_file (with_files g (map (fstateF k st h) (g_files g))) x = option_map (fstateF k st h) (find_file g x).
Proof.
  unfold find_file. cbn [g_files with_files].
  induction (g_files g) as [|a l IH]; [reflexivity|].
  cbn [map find].
  assert (Hk : f_key (fstateF k st h a) = f_key a) by (unfold fstateF; destruct (f_key a =? k); reflexivity).
  rewrite Hk. destruct (f_key a =? x); [reflexivity | exact IH].
Qed.

Lemma aflag_with_files g l n s : aflag n (with_files g l) s = aflag n g s.
Proof.
  revert s. induction n as [|n IH]; intros s; [reflexivity|]. cbn [aflag].
  change (creator_step (with_files g l) s) with (creator_step g s).
  destruct (creator_step g s); [rewrite IH|]; reflexivity.
Qed.
Lemma safe_fuel_with_files g l n s : safe_fuel n (with_files g l) s = safe_fuel n g s.
Proof.
  revert s. induction n as [|n IH]; intros s; [reflexivity|]. cbn [safe_fuel].
  change (creator_step (with_files g l) s) with (creator_step g s).
  destruct (creator_step g s); [rewrite IH|]; reflexivity.
Qed.
Lemma FlagInv_safe_with_files g l : FlagInv_safe g -> FlagInv_safe (with_files g l).
Proof.
  intros HF s Hin Ha. unfold L, safe_spec in *. change (g_steps (with_files g l)) with (g_steps g) in *.
  rewrite aflag_with_files in Ha. rewrite safe_fuel_with_files. exact (HF s Hin Ha).
Qed.

Theorem set_file_state_safe_sound g k st h : FlagInv_safe g -> FlagInv_safe (set_file_state g k st h).
Proof.
  intros HF. unfold set_file_state. destruct (find_file g k); [|exact HF].
  destruct (negb trg_file_state_upd_on_change_only || negb (f_state f =? st)).
  - rewrite run_trigger_mapg. apply FlagInv_safe_only_flags; [apply trigF_only_flags|].
    apply FlagInv_safe_with_files. exact HF.
  - apply FlagInv_safe_with_files. exact HF.
Qed.

(* _ready: a general step for graphs with the same step list *)
Lemma FlagInv_ready_gen g g1 F (P : N -> Prop) :
  g_steps g1 = g_steps g ->
  (forall k, ~ P k -> ready_spec g1 k = ready_spec g k) ->
  (forall s, s_key (F s) = s_key s) -> (forall s, s_ready (F s) = s_ready s) ->
  (forall s, s_chk_ready s = true -> s_chk_ready (F s) = true) ->
  (forall s, In s (g_steps g) -> P (s_key s) -> s_chk_ready (F s) = true) ->
  (forall k, P k \/ ~ P k) ->
  FlagInv_ready g -> FlagInv_ready (mapg F g1).
Proof.
  intros Hst Hspec Hk Hr Hc Ht Hdec HF s' Hin' Hchk. unfold mapg in Hin'. cbn [g_steps with_steps] in Hin'.
  rewrite Hst in Hin'. apply in_map_iff in Hin'. destruct Hin' as [s [<- Hin]].
  rewrite Hr, Hk. unfold mapg. rewrite ready_spec_steps.
  destruct (Hdec (s_key s)) as [E|E]; [rewrite (Ht s Hin E) in Hchk; discriminate|].
  rewrite (Hspec _ E). apply HF; [exact Hin|].
  destruct (s_chk_ready s) eqn:Ec; [rewrite (Hc s Ec) in Hchk; discriminate | reflexivity].
Qed.

Lemma unavailable_fstate_other g k st h e : d_src e <> k ->
  unavailable (with_files g (map (fstateF k st h) (g_files g))) e = unavailable g e.
Proof.
  intros H. unfold unavailable. rewrite find_file_map.
  destruct (find_file g (d_src e)) as [f|] eqn:E; [|reflexivity]. cbn [option_map].
  unfold fstateF. destruct (f_key f =? k) eqn:Ek; [|reflexivity].
  apply N.eqb_eq in Ek. unfold find_file in E. apply find_some in E. destruct E as [_ E].
  apply N.eqb_eq in E. congruence.
Qed.

Lemma unavailable_fstate_same g k st h e f0 : find_file g k = Some f0 -> f_state f0 = st ->
  unavailable (with_files g (map (fstateF k st h) (g_files g))) e = unavailable g e.
Proof.
  intros Hf Hst. destruct (N.eq_dec (d_src e) k) as [E|E]; [|apply unavailable_fstate_other; exact E].
  unfold unavailable. rewrite find_file_map, E, Hf. cbn [option_map].
  unfold fstateF. destruct (f_key f0 =? k); [|reflexivity].
  rewrite <- Hst. reflexivity.
Qed.

Lemma ready_spec_ext g1 g t : g_deps g1 = g_deps g ->
  (forall e, In e (g_deps g) -> d_snk e = t -> unavailable g1 e = unavailable g e) ->
  ready_spec g1 t = ready_spec g t.
Proof.
  intros Hd H. unfold ready_spec. rewrite Hd. f_equal. clear Hd.
  induction (g_deps g) as [|e l IH]; [reflexivity|].
  cbn [existsb]. rewrite IH by (intros; apply H; [right|]; assumption). f_equal.
  destruct (d_snk e =? t) eqn:E; [|reflexivity]. apply N.eqb_eq in E.
  rewrite (H e (or_introl eq_refl) E). reflexivity.
Qed.

Theorem set_file_state_ready_sound g k st h :
  In (FReady, TConsumersOfSelf) trg_file_state_upd ->
  FlagInv_ready g -> FlagInv_ready (set_file_state g k st h).
Proof.
  intros Htrg HF. unfold set_file_state. destruct (find_file g k) as [f0|] eqn:Ef; [|exact HF].
  set (g1 := with_files g (map (fun f => if f_key f =? k then set_fstate f st h else f) (g_files g))).
  change g1 with (with_files g (map (fstateF k st h) (g_files g))) in *.
  destruct (f_state f0 =? st) eqn:Est.
  - (* state unchanged: nothing that _ready reads changes *)
    apply N.eqb_eq in Est.
    assert (Hsame : FlagInv_ready g1).
    { intros s Hin Hc. change (In s (g_steps g)) in Hin. rewrite (HF s Hin Hc). symmetry.
      apply ready_spec_ext; [reflexivity|]. intros e _ _. eapply unavailable_fstate_same; eassumption. }
    destruct (negb trg_file_state_upd_on_change_only || negb true) eqn:Ec; [|exact Hsame].
    rewrite run_trigger_mapg. pose proof (trigF_only_flags g1 trg_file_state_upd k None) as O.
    apply FlagInv_ready_mono; try exact Hsame; intros s; [apply (k_key _ (of_keeps _ O)) | apply (of_ready _ O) | apply (of_cr _ O)].
  - rewrite orb_true_r. rewrite run_trigger_mapg.
    pose proof (trigF_only_flags g1 trg_file_state_upd k None) as O.
    apply (FlagInv_ready_gen g g1 _ (fun t => In t (consumers_of_node g k))); try reflexivity; try exact HF.
    + intros t Ht. apply ready_spec_ext; [reflexivity|]. intros e He Es.
      apply unavailable_fstate_other. intros Ek. apply Ht. unfold consumers_of_node.
      apply in_map_iff. exists e. split; [exact Es|]. apply filter_In. split; [exact He | apply N.eqb_eq; exact Ek].
    + intros s. apply (k_key _ (of_keeps _ O)).
    + intros s. apply (of_ready _ O).
    + intros s. apply (of_cr _ O).
    + intros s _ Hs. apply (trigF_sets g1 trg_file_state_upd k None FReady TConsumersOfSelf s Htrg). exact Hs.
    + intros t. destruct (in_dec N.eq_dec t (consumers_of_node g k)); [left | right]; assumption.
Qed.

(* ------------------------------------------------------------------------------------------ *)
(* C11: what need_spec means                                                                  *)
(* ------------------------------------------------------------------------------------------ *)

Lemma local_k_ge g k : after_sink_default <= local_k g k.
Proof.
  unfold local_k. destruct (find_step g k) as [s|]; [|lia].
  unfold local_need, elev, after_sink_default, after_elev_target, after_elev_none.
  destruct (existsb _ _); [lia|]. destruct (_ && _); lia.
Qed.

Lemma need_fuel_ge g n k : after_sink_default <= need_fuel n g k.
Proof. destruct n; cbn [need_fuel]; pose proof (local_k_ge g k); lia. Qed.

Lemma need_fuel_stable g rank : NeedRank g rank ->
  forall n m k, In k (attached_keys g) -> (rank k < n)%nat -> (rank k < m)%nat ->
    need_fuel n g k = need_fuel m g k.
Proof.
  intros [HR1 HR2]. induction n as [|n IH]; intros m k Hk Hn Hm; [lia|].
  destruct m as [|m]; [lia|]. cbn [need_fuel]. f_equal. f_equal.
  apply map_ext_in. intros y Hy. pose proof (HR1 k y Hy).
  destruct n as [|n]; [lia|]. destruct m as [|m]; [lia|].
  apply IH; [eapply cons_keys_attached; exact Hy | lia | lia].
Qed.

(* need_spec is the fixed point of max(declared, target elevation, consumers) *)
Theorem need_spec_fix g : DepAcyclic g -> forall k, In k (attached_keys g) ->
  need_spec g k = N.max (local_k g k) (maxl ND_OPTIONAL (map (need_spec g) (cons_keys g k))).
Proof.
  intros [rank HR] k Hk. pose proof HR as [HR1 HR2]. unfold need_spec.
  pose proof (HR2 k Hk) as Hb.
  rewrite (need_fuel_stable g rank HR _ (S (length (g_steps g))) k Hk Hb ltac:(lia)).
  cbn [need_fuel]. reflexivity.
Qed.

Lemma maxl_gt d l t : d <= t -> (t < maxl d l <-> exists x, In x l /\ t < x).
Proof.
  intros Hd. split.
  - intros H. destruct (maxl_cases d l) as [E|E]; [rewrite E in H; lia|]. exists (maxl d l). split; assumption.
  - intros [x [Hx Ht]]. pose proof (maxl_in d l x Hx). lia.
Qed.

Definition produces_target (g : graph) (k : N) : bool :=
  existsb (fun f => regular_output f && is_target g f) (outputs g k).
Definition produces_under_tdir (g : graph) (k : N) : bool :=
  existsb (fun f => regular_output f && in_tdir g f) (outputs g k).

Lemma local_need_gt g s t : ND_OPTIONAL <= t -> t < ND_TARGET ->
  (t < local_need g s <->
   t < s_need s \/ produces_target g (s_key s) = true \/
   (s_need s = ND_DEFAULT /\ produces_under_tdir g (s_key s) = true)).
Proof.
  unfold local_need, elev, produces_target, produces_under_tdir,
    after_elev_target, after_elev_none, after_dir_guard_need, ND_OPTIONAL, ND_TARGET, ND_DEFAULT.
  intros H1 H2.
  destruct (existsb (fun f => regular_output f && is_target g f) (outputs g (s_key s))).
  - split; [intros _; right; left; reflexivity | intros _; lia].
  - destruct (s_need s =? 32) eqn:E.
    + apply N.eqb_eq in E. cbn [andb].
      destruct (existsb (fun f => regular_output f && in_tdir g f) (outputs g (s_key s))).
      * split; [intros _; right; right; split; [exact E | reflexivity] | intros _; lia].
      * split; [intros H; left; lia | intros [H|[H|[_ H]]]; [lia | discriminate | discriminate]].
    + apply N.eqb_neq in E. cbn [andb].
      split; [intros H; left; lia | intros [H|[H|[H _]]]; [lia | discriminate | congruence]].
Qed.

(* An attached step is needed above a threshold t (OPTIONAL without targets, DEFAULT with) iff it is
   declared above t, or produces a target, or is DEFAULT and produces an output under a target
   directory, or one of its attached two-hop consumers is needed above t. *)
Theorem need_spec_characterisation_gen g k s t :
  DepAcyclic g -> In k (attached_keys g) -> find_step g k = Some s ->
  ND_OPTIONAL <= t -> t < ND_TARGET ->
  (t < need_spec g k <->
   t < s_need s \/ produces_target g k = true \/
   (s_need s = ND_DEFAULT /\ produces_under_tdir g k = true) \/
   exists y, In y (cons_keys g k) /\ t < need_spec g y).
Proof.
  intros Hac Hk Hf H1 H2. rewrite (need_spec_fix g Hac k Hk).
  pose proof (find_step_some g k s Hf) as [_ Ek].
  unfold local_k. rewrite Hf.
  rewrite N.max_lt_iff, (local_need_gt g s t H1 H2), Ek.
  rewrite (maxl_gt ND_OPTIONAL _ t H1).
  split.
  - intros [[H|[H|H]]|[x [Hx Ht]]]; auto.
    apply in_map_iff in Hx. destruct Hx as [y [<- Hy]]. right; right; right. exists y. split; assumption.
  - intros [H|[H|[H|[y [Hy Ht]]]]]; auto.
    right. exists (need_spec g y). split; [apply in_map; exact Hy | exact Ht].
Qed.

(* ---- tui._normalize_targets ---- *)

Lemma normalize_targets_spec norm raw :
  match normalize_targets norm raw with
  | None => In [] raw
  | Some (ts, ds) =>
      ~ In [] raw /\
      ts = map norm (filter (fun r => negb (ends_with_sep r)) raw) /\
      ds = map (fun r => with_slash (norm r)) (filter ends_with_sep raw)
  end.
Proof.
  induction raw as [|r rest IH]; [cbn; repeat split; auto|].
  cbn [normalize_targets]. destruct r as [|c r']; [left; reflexivity|].
  destruct (normalize_targets norm rest) as [[ts ds]|].
  - destruct IH as [Hn [-> ->]].
    cbn [filter]. destruct (ends_with_sep (c :: r')); cbn [negb map];
      (split; [intros [H|H]; [discriminate | contradiction] | split; reflexivity]).
  - right. exact IH.
Qed.

Lemma with_slash_ends s : ends_with_sep (with_slash s) = true.
Proof.
  unfold with_slash. destruct (ends_with_sep s) eqn:E; [exact E|].
  unfold ends_with_sep. rewrite rev_app_distr. reflexivity.
Qed.

(* ------------------------------------------------------------------------------------------ *)
(* The primitives with the trigger bodies found in the repository                              *)
(* ------------------------------------------------------------------------------------------ *)

Definition flagcol_eqb (a b : flagcol) : bool :=
  match a, b with FSafe, FSafe | FAfter, FAfter | FReady, FReady => true | _, _ => false end.
Definition ttarget_eqb (a b : ttarget) : bool :=
  match a, b with
  | TSelf, TSelf | TSource, TSource | TSink, TSink | TConsumersOfSelf, TConsumersOfSelf
  | TSinkOfDep, TSinkOfDep | TProducersOfSource, TProducersOfSource
  | TProducersOfSourceUnlessShared, TProducersOfSourceUnlessShared => true
  | _, _ => false
  end.
Definition has_stmt (c : flagcol) (t : ttarget) (l : list (flagcol * ttarget)) : bool :=
  existsb (fun ct => flagcol_eqb (fst ct) c && ttarget_eqb (snd ct) t) l.
Lemma has_stmt_In c t l : has_stmt c t l = true -> In (c, t) l.
Proof.
  unfold has_stmt. intros H. apply existsb_exists in H. destruct H as [[c' t'] [Hin H]].
  apply andb_true_iff in H. destruct H as [H1 H2]. cbn [fst snd] in *.
  destruct c, c'; try discriminate; destruct t, t'; try discriminate; exact Hin.
Qed.

Lemma flags_producers_In trg : flags_producers trg = true -> In (FAfter, TProducersOfSource) trg.
Proof.
  unfold flags_producers. intros H. apply existsb_exists in H. destruct H as [[c t] [Hin H]].
  destruct c; try discriminate. destruct t; try discriminate. exact Hin.
Qed.

Theorem set_step_state_sound_repo g k st df : FlagInv g -> FlagInv (set_step_state g k st df).
Proof. apply set_step_state_sound. apply has_stmt_In. vm_compute. reflexivity. Qed.

Theorem ins_dep_sound_repo g d : WF g -> FlagInv g -> FlagInv (ins_dep g d).
Proof.
  intros Hwf [HFs [HFn HFr]]. unfold ins_dep. split; [|split].
  - apply ins_dep_safe_sound. exact HFs.
  - apply ins_dep_need_sound; try assumption; apply has_stmt_In; vm_compute; reflexivity.
  - apply ins_dep_ready_sound; try assumption; apply has_stmt_In; vm_compute; reflexivity.
Qed.

Theorem del_dep_sound_repo g d :
  WF g -> FlagInv g ->
  (flags_producers trg_dep_del = true \/
   (forall sy, find_step g (d_snk d) = Some sy -> s_detached sy = true)) ->
  FlagInv (del_dep g d).
Proof.
  intros Hwf [HFs [HFn HFr]] Hp. unfold del_dep. split; [|split].
  - apply del_dep_safe_sound. exact HFs.
  - apply del_dep_need_sound; try assumption.
    + apply has_stmt_In; vm_compute; reflexivity.
    + destruct Hp as [Hp|Hp]; [left; apply flags_producers_In; exact Hp | right; exact Hp].
  - apply del_dep_ready_sound; try assumption; apply has_stmt_In; vm_compute; reflexivity.
Qed.

Theorem set_file_state_sound_repo g k st h :
  FlagInv_safe g /\ FlagInv_ready g ->
  FlagInv_safe (set_file_state g k st h) /\ FlagInv_ready (set_file_state g k st h).
Proof.
  intros [HFs HFr]. split.
  - apply set_file_state_safe_sound. exact HFs.
  - apply set_file_state_ready_sound; [apply has_stmt_In; vm_compute; reflexivity | exact HFr].
Qed.

(* ------------------------------------------------------------------------------------------ *)
(* C11: finalize.revert_optional_steps                                                        *)
(* ------------------------------------------------------------------------------------------ *)

Lemma fold_inv {A B} (f : A -> B -> A) (P : A -> Prop) l : forall a,
  P a -> (forall a b, P a -> P (f a b)) -> P (fold_left f l a).
Proof. induction l as [|x l IH]; intros a Ha Hs; [exact Ha|]. cbn. apply IH; auto. Qed.

Lemma fold_inv_after {A B} (f : A -> B -> A) (P : A -> Prop) l x : forall a,
  In x l -> (forall a b, P a -> P (f a b)) -> (forall a, P (f a x)) -> P (fold_left f l a).
Proof.
  induction l as [|y l IH]; intros a Hin Hs Hx; [destruct Hin|].
  cbn. destruct Hin as [->|Hin]; [apply fold_inv; auto | apply IH; auto].
Qed.

(* rows keep key, cached need and attachment; the other tables are untouched or only files change *)
Definition rows_kept (g g' : graph) : Prop :=
  exists H, g_steps g' = map H (g_steps g) /\
            forall s, s_key (H s) = s_key s /\ s_ineed (H s) = s_ineed s /\ s_detached (H s) = s_detached s.

Lemma rows_kept_refl g : rows_kept g g.
Proof. exists (fun s => s). split; [symmetry; apply map_id | auto]. Qed.

Lemma rows_kept_trans g g1 g2 : rows_kept g g1 -> rows_kept g1 g2 -> rows_kept g g2.
Proof.
  intros [H1 [E1 P1]] [H2 [E2 P2]]. exists (fun s => H2 (H1 s)). split.
  - rewrite E2, E1, map_map. reflexivity.
  - intros s. destruct (P1 s) as [a [b c]]. destruct (P2 (H1 s)) as [a' [b' c']].
    repeat split; congruence.
Qed.

Lemma set_step_state_rows g k st df : rows_kept g (set_step_state g k st df).
Proof.
  rewrite set_step_state_mapg.
  exists (fun s => trigF (mapg (stateF k st df) g) trg_step_state k None (stateF k st df s)).
  split; [reflexivity|]. intros s. cbv beta.
  pose proof (trigF_only_flags (mapg (stateF k st df) g) trg_step_state k None) as O.
  pose proof (of_keeps _ O) as K.
  rewrite (k_key _ K), (of_ineed _ O), (k_detached _ K).
  unfold stateF. destruct (s_key s =? k); repeat split; reflexivity.
Qed.

Lemma set_step_state_state g k st df r :
  In r (g_steps (set_step_state g k st df)) ->
  exists r0, In r0 (g_steps g) /\ s_key r = s_key r0 /\
             s_state r = (if s_key r0 =? k then st else s_state r0).
Proof.
  rewrite set_step_state_mapg. unfold mapg. cbn [g_steps with_steps]. intros Hin.
  apply in_map_iff in Hin. destruct Hin as [r0 [<- Hin]]. exists r0. split; [exact Hin|].
  pose proof (trigF_only_flags (mapg (stateF k st df) g) trg_step_state k None) as O.
  pose proof (of_keeps _ O) as K. rewrite (k_key _ K), (k_state _ K).
  unfold stateF. destruct (s_key r0 =? k); [|split; reflexivity].
  split; [reflexivity|]. apply apply_state_fields.
Qed.

Lemma set_file_state_steps g k st h :
  exists F, only_flags F /\ g_steps (set_file_state g k st h) = map F (g_steps g).
Proof.
  unfold set_file_state. destruct (find_file g k).
  - destruct (negb trg_file_state_upd_on_change_only || negb (f_state f =? st)).
    + rewrite run_trigger_mapg. eexists. split; [apply trigF_only_flags | reflexivity].
    + exists (fun s => s). split; [apply only_flags_id | symmetry; apply map_id].
  - exists (fun s => s). split; [apply only_flags_id | symmetry; apply map_id].
Qed.

Lemma set_file_state_files g k st h f' :
  In f' (g_files (set_file_state g k st h)) ->
  exists f0, In f0 (g_files g) /\ f_key f' = f_key f0 /\
    ((f_key f0 = k /\ f_state f' = st /\ f_hash f' = h) \/ (f_key f0 <> k /\ f' = f0)).
Proof.
  unfold set_file_state. destruct (find_file g k) as [fk|] eqn:E.
  - assert (Hfiles : forall g', g_files g' = map (fun f => if f_key f =? k then set_fstate f st h else f) (g_files g) ->
              In f' (g_files g') -> exists f0, In f0 (g_files g) /\ f_key f' = f_key f0 /\
                ((f_key f0 = k /\ f_state f' = st /\ f_hash f' = h) \/ (f_key f0 <> k /\ f' = f0))).
    { intros g' Eg Hin. rewrite Eg in Hin. apply in_map_iff in Hin. destruct Hin as [f0 [<- Hin]].
      exists f0. split; [exact Hin|]. destruct (f_key f0 =? k) eqn:Ek.
      - apply N.eqb_eq in Ek. split; [reflexivity|]. left. repeat split; assumption.
      - apply N.eqb_neq in Ek. split; [reflexivity|]. right. split; [exact Ek | reflexivity]. }
    destruct (negb trg_file_state_upd_on_change_only || negb (f_state fk =? st)).
    + rewrite run_trigger_mapg. apply Hfiles. reflexivity.
    + apply Hfiles. reflexivity.
  - intros Hin. exists f'. split; [exact Hin|]. split; [reflexivity|]. right. split; [|reflexivity].
    intros Ek. unfold find_file in E. eapply find_none in E; [|exact Hin]. cbn in E.
    rewrite Ek, N.eqb_refl in E. discriminate.
Qed.

Definition revert_stepfn (opt : list N) (acc : graph) (s : step) : graph :=
  if mem_N (s_key s) opt && negb (s_state s =? revert_step_state)
  then set_step_state acc (s_key s) revert_step_state (s_deferred s) else acc.
Definition revert_filefn (acc : graph) (kb : N * bool) : graph :=
  if snd kb then set_file_state acc (fst kb) revert_file_state false else acc.

Lemma revert_optional_unfold g :
  revert_optional g =
  (fold_left revert_filefn (revert_queue g) (fold_left (revert_stepfn (optional_keys g)) (g_steps g) g),
   revert_queue g).
Proof. reflexivity. Qed.

Definition pending_at (k : N) (acc : graph) : Prop :=
  forall r, In r (g_steps acc) -> s_key r = k -> s_state r = revert_step_state.

Lemma pending_at_step opt k acc s : pending_at k acc -> pending_at k (revert_stepfn opt acc s).
Proof.
  intros HP. unfold revert_stepfn. destruct (mem_N (s_key s) opt && negb (s_state s =? revert_step_state)); [|exact HP].
  intros r Hin Hk. destruct (set_step_state_state _ _ _ _ r Hin) as [r0 [Hin0 [Ek Es]]].
  rewrite Es. destruct (s_key r0 =? s_key s); [reflexivity|]. apply HP; [exact Hin0 | congruence].
Qed.

Lemma pending_at_file k acc kb : pending_at k acc -> pending_at k (revert_filefn acc kb).
Proof.
  intros HP. unfold revert_filefn. destruct (snd kb); [|exact HP].
  destruct (set_file_state_steps acc (fst kb) revert_file_state false) as [F [O E]].
  intros r Hin Hk. rewrite E in Hin. apply in_map_iff in Hin. destruct Hin as [r0 [<- Hin]].
  pose proof (of_keeps F O) as K. rewrite (k_state F K). apply HP; [exact Hin|].
  rewrite <- Hk. symmetry. apply (k_key F K).
Qed.

Lemma rows_kept_stepfn opt acc s : rows_kept acc (revert_stepfn opt acc s).
Proof.
  unfold revert_stepfn. destruct (mem_N (s_key s) opt && negb (s_state s =? revert_step_state));
    [apply set_step_state_rows | apply rows_kept_refl].
Qed.
Lemma rows_kept_filefn acc kb : rows_kept acc (revert_filefn acc kb).
Proof.
  unfold revert_filefn. destruct (snd kb); [|apply rows_kept_refl].
  destruct (set_file_state_steps acc (fst kb) revert_file_state false) as [F [O E]].
  exists F. split; [exact E|]. intros s. pose proof (of_keeps F O) as K.
  repeat split; [apply K | apply O | apply K].
Qed.

Definition planned_at (k : N) (acc : graph) : Prop :=
  forall f', In f' (g_files acc) -> f_key f' = k -> f_state f' = revert_file_state /\ f_hash f' = false.

Lemma planned_at_file k acc kb : planned_at k acc -> planned_at k (revert_filefn acc kb).
Proof.
  intros HP. unfold revert_filefn. destruct (snd kb); [|exact HP].
  intros f' Hin Hk. destruct (set_file_state_files _ _ _ _ f' Hin) as [f0 [Hin0 [Ek [[_ [Es Eh]]|[_ ->]]]]].
  - split; assumption.
  - apply HP; assumption.
Qed.

Lemma planned_after k acc : planned_at k (revert_filefn acc (k, true)).
Proof.
  unfold revert_filefn. cbn [snd fst]. intros f' Hin Hk.
  destruct (set_file_state_files _ _ _ _ f' Hin) as [f0 [Hin0 [Ek [[_ [Es Eh]]|[Hne _]]]]].
  - split; assumption.
  - congruence.
Qed.

Theorem revert_optional_resets_gen g : WF g ->
  let g2 := fst (revert_optional g) in
  let q := snd (revert_optional g) in
  rows_kept g g2 /\
  (forall r, In r (g_steps g2) -> s_detached r = false -> s_ineed r = revert_need ->
             s_state r = revert_step_state) /\
  (forall f, In f (g_files g) -> queued_file g f = true ->
             In (f_key f, negb (f_state f =? revert_keep_state)) q) /\
  (forall f, In f (g_files g) -> queued_file g f = true -> f_state f <> revert_keep_state ->
             forall f', In f' (g_files g2) -> f_key f' = f_key f ->
                        f_state f' = revert_file_state /\ f_hash f' = false).
Proof.
  intros Hwf. rewrite revert_optional_unfold. cbn [fst snd].
  set (opt := optional_keys g). set (q := revert_queue g).
  set (g1 := fold_left (revert_stepfn opt) (g_steps g) g).
  set (g2 := fold_left revert_filefn q g1).
  assert (K1 : rows_kept g g1).
  { unfold g1. apply (fold_inv (revert_stepfn opt) (rows_kept g)); [apply rows_kept_refl|].
    intros a b Ha. eapply rows_kept_trans; [exact Ha | apply rows_kept_stepfn]. }
  assert (K2 : rows_kept g g2).
  { unfold g2. apply (fold_inv revert_filefn (rows_kept g)); [exact K1|].
    intros a b Ha. eapply rows_kept_trans; [exact Ha | apply rows_kept_filefn]. }
  split; [exact K2|]. split; [|split].
  - intros r Hin Hd Hi. destruct K2 as [H [E P]]. rewrite E in Hin.
    apply in_map_iff in Hin. destruct Hin as [s0 [<- Hin0]].
    destruct (P s0) as [Pk [Pi Pd]]. rewrite Pi in Hi. rewrite Pd in Hd.
    assert (Hopt : mem_N (s_key s0) opt = true).
    { apply mem_N_In. unfold opt, optional_keys. apply in_map. apply filter_In. split; [exact Hin0|].
      unfold optional_step. rewrite Hi, Hd, N.eqb_refl. reflexivity. }
    assert (HP : pending_at (s_key s0) g2).
    { unfold g2. apply (fold_inv revert_filefn (pending_at (s_key s0))); [|intros; apply pending_at_file; assumption].
      unfold g1. destruct (s_state s0 =? revert_step_state) eqn:Est.
      - apply (fold_inv (revert_stepfn opt) (pending_at (s_key s0))); [|intros; apply pending_at_step; assumption].
        intros r Hr Hk. apply N.eqb_eq in Est. rewrite <- Est. f_equal.
        assert (Hf := find_step_in g r Hwf Hr). rewrite Hk in Hf.
        rewrite (find_step_in g s0 Hwf Hin0) in Hf. congruence.
      - apply (fold_inv_after (revert_stepfn opt) (pending_at (s_key s0)) _ s0); [exact Hin0 | intros; apply pending_at_step; assumption|].
        intros a. unfold revert_stepfn. rewrite Hopt, Est. cbn [negb andb].
        intros r Hr Hk. destruct (set_step_state_state _ _ _ _ r Hr) as [r0 [_ [Ek Es]]].
        rewrite Es. rewrite <- Ek, Hk, N.eqb_refl. reflexivity. }
    apply HP; [|exact Pk]. rewrite E. apply in_map. exact Hin0.
  - intros f Hin Hq. unfold q, revert_queue. apply in_map_iff. exists f. split; [reflexivity|].
    apply filter_In. split; assumption.
  - intros f Hin Hq Hnv f' Hin' Hk.
    assert (Hqin : In (f_key f, true) q).
    { unfold q, revert_queue. apply in_map_iff. exists f. split.
      - f_equal. apply negb_true_iff. apply N.eqb_neq. exact Hnv.
      - apply filter_In. split; assumption. }
    assert (HP : planned_at (f_key f) g2).
    { unfold g2. apply (fold_inv_after revert_filefn (planned_at (f_key f)) _ (f_key f, true)); [exact Hqin | |].
      - intros; apply planned_at_file; assumption.
      - intros a. apply planned_after. }
    apply HP; assumption.
Qed.

Lemma queued_file_meaning g f : queued_file g f = true <->
  mem_N (f_state f) revert_queue_states = true /\
  exists d s, In d (g_deps g) /\ d_snk d = f_key f /\ d_src d = s_key s /\
              In s (g_steps g) /\ s_ineed s = revert_need /\ s_detached s = false.
Proof.
  unfold queued_file. rewrite andb_true_iff, existsb_exists. split.
  - intros [H1 [d [Hd H2]]]. split; [exact H1|]. apply andb_true_iff in H2. destruct H2 as [H2 H3].
    apply N.eqb_eq in H2. apply mem_N_In in H3. unfold optional_keys in H3.
    apply in_map_iff in H3. destruct H3 as [s [Es Hs]]. apply filter_In in Hs. destruct Hs as [Hs Ho].
    unfold optional_step in Ho. apply andb_true_iff in Ho. destruct Ho as [Ho1 Ho2].
    apply N.eqb_eq in Ho1. exists d, s. repeat split; auto.
    destruct (s_detached s); [discriminate | reflexivity].
  - intros [H1 [d [s [Hd [E1 [E2 [Hs [Hi Hdet]]]]]]]]. split; [exact H1|]. exists d. split; [exact Hd|].
    apply andb_true_iff. split; [apply N.eqb_eq; exact E1|]. apply mem_N_In. unfold optional_keys.
    rewrite E2. apply in_map. apply filter_In. split; [exact Hs|].
    unfold optional_step. rewrite Hi, Hdet, N.eqb_refl. reflexivity.
Qed.

(* ------------------------------------------------------------------------------------------ *)
(* C11: executed iff needed                                                                   *)
(* ------------------------------------------------------------------------------------------ *)

(* For a step that nothing else holds back (pending, attached, not deferred, safe, ready, resources
   free), being dispatched is the same as being needed above the threshold. *)
Theorem executed_iff_needed_gen g :
  WF g -> Acyclic g -> FlagInv g -> HasHashInv g ->
  (safe_merge = MergeDeepest \/ NoStaleLow g) ->
  exists g', update_meta g = Some g' /\ AllCorrect g' /\
    (forall s, In s (dispatch_set g') ->
       ND_OPTIONAL < need_spec g' (s_key s) /\ g_threshold g' < need_spec g' (s_key s)) /\
    (forall s, In s (g_steps g') ->
       s_state s = ST_PENDING -> s_detached s = false -> s_deferred s = false ->
       fst (safe_spec g' s) = true -> ready_spec g' (s_key s) = true -> res_unavailable g' s = false ->
       (In s (dispatch_set g') <->
        ND_OPTIONAL < need_spec g' (s_key s) /\ g_threshold g' < need_spec g' (s_key s))).
Proof.
  intros Hwf Hac HF HH Hpol.
  destruct (dispatch_only_eligible_gen g Hwf Hac HF HH Hpol) as [g' [Hu [HA Hd]]].
  exists g'. split; [exact Hu|]. split; [exact HA|]. split.
  - intros s Hs. apply Hd in Hs. destruct Hs as [_ He].
    apply eligible_spec_meaning in He. tauto.
  - intros s Hin Hst Hdet Hdf Hsafe Hrdy Hres. rewrite Hd. split.
    + intros [_ He]. apply eligible_spec_meaning in He. tauto.
    + intros [H1 H2]. split; [exact Hin|].
      unfold eligible_spec. rewrite dispatch_where_meaning.
      rewrite Hst, Hdet, Hdf, Hsafe, Hrdy, Hres. unfold ST_PENDING.
      apply N.ltb_lt in H1, H2. rewrite H1, H2. cbn. rewrite orb_true_r. reflexivity.
Qed.

(* ------------------------------------------------------------------------------------------ *)
(* More flag soundness: step creation, file state and _implied_need, detach/reattach and _safe  *)
(* ------------------------------------------------------------------------------------------ *)

(* ---- a new step row (Step.initialize_row on a fresh node) ---- *)

Lemma find_app_other (l : list step) (n : step) x : s_key n <> x ->
  find (fun s => s_key s =? x) (l ++ [n]) = find (fun s => s_key s =? x) l.
Proof.
  intros Hx. induction l as [|a l IH]; cbn [app find].
  - destruct (s_key n =? x) eqn:E; [apply N.eqb_eq in E; congruence | reflexivity].
  - destruct (s_key a =? x); [reflexivity | exact IH].
Qed.

Section CreateStep.
  Variable g : graph.
  Variables (k : N) (creator : option N) (det : bool) (need : N) (safe stored : bool) (dur : N)
            (res : list (str * N)).
  Let n := mkStep k init_state need false 0 0 det creator safe safe need false stored stored
                  (negb safe) true true dur 1 res.
  Let g' := create_step g k creator det need safe stored dur res.
  Hypothesis Hfresh : ~ In k (map s_key (g_steps g)).
  Hypothesis Hnodeps : forall d, In d (g_deps g) -> d_snk d <> k.
  Hypothesis Hnochild : forall s, In s (g_steps g) -> s_creator s <> Some k.

  Lemma cs_find_old x : x <> k -> find_step g' x = find_step g x.
  Proof.
    intros Hx. unfold find_step, g', create_step. cbn [g_steps with_steps].
    apply find_app_other. cbn [s_key]. congruence.
  Qed.

  Lemma cs_find_in s : In s (g_steps g) -> s_key s <> k.
  Proof. intros Hin E. apply Hfresh. rewrite <- E. apply in_map. exact Hin. Qed.

  Lemma cs_creator_old s : In s (g_steps g) -> creator_step g' s = creator_step g s.
  Proof.
    intros Hin. unfold creator_step. destruct (s_creator s) as [c|] eqn:E; [|reflexivity].
    apply cs_find_old. intros ->. apply (Hnochild s Hin). exact E.
  Qed.

  Lemma cs_aflag m : forall s, In s (g_steps g) -> aflag m g' s = aflag m g s.
  Proof.
    induction m as [|m IH]; intros s Hin; [reflexivity|]. cbn [aflag].
    rewrite (cs_creator_old s Hin). destruct (creator_step g s) as [c|] eqn:E; [|reflexivity].
    rewrite IH; [reflexivity | eapply creator_step_in; exact E].
  Qed.
  Lemma cs_safe_fuel m : forall s, In s (g_steps g) -> safe_fuel m g' s = safe_fuel m g s.
  Proof.
    induction m as [|m IH]; intros s Hin; [reflexivity|]. cbn [safe_fuel].
    rewrite (cs_creator_old s Hin). destruct (creator_step g s) as [c|] eqn:E; [|reflexivity].
    rewrite IH; [reflexivity | eapply creator_step_in; exact E].
  Qed.

  Lemma cs_steps : g_steps g' = g_steps g ++ [n].
  Proof. reflexivity. Qed.

  Theorem create_step_safe_sound rank :
    CreatorRank g rank ->
    (safe = true -> creator_step g' n = None) ->
    FlagInv_safe g -> FlagInv_safe g'.
  Proof.
    intros HR Hsafe HF s Hin Ha. rewrite cs_steps in Hin. unfold L, safe_spec in *.
    rewrite cs_steps, app_length in *. cbn [length] in *.
    replace (length (g_steps g) + 1)%nat with (S (length (g_steps g))) in * by lia.
    apply in_app_or in Hin. destruct Hin as [Hin|[<-|[]]].
    - rewrite cs_aflag in Ha by exact Hin. rewrite cs_safe_fuel by exact Hin.
      pose proof HR as [_ HR2]. pose proof (HR2 s Hin) as Hb.
      rewrite (aflag_stable g rank HR _ (S (length (g_steps g))) s Hin) in Ha by lia.
      rewrite (safe_fuel_stable g rank HR _ (length (g_steps g)) s Hin) by lia.
      apply HF; assumption.
    - cbn [aflag] in Ha. apply orb_false_iff in Ha. destruct Ha as [Ha _].
      unfold n in Ha. cbn [s_chk_safe] in Ha. apply negb_false_iff in Ha.
      cbn [safe_fuel]. rewrite (Hsafe Ha). unfold n. cbn [s_safe s_safe_nh]. rewrite Ha. reflexivity.
  Qed.

  Theorem create_step_ready_sound : FlagInv_ready g -> FlagInv_ready g'.
  Proof.
    intros HF s Hin Hc. rewrite cs_steps in Hin. unfold g', create_step. rewrite ready_spec_steps.
    apply in_app_or in Hin. destruct Hin as [Hin|[<-|[]]]; [apply HF; assumption|].
    unfold n in Hc. cbn in Hc. discriminate.
  Qed.

  Lemma cs_cons_keys x : cons_keys g' x = cons_keys g x.
  Proof.
    unfold cons_keys. change (g_deps g') with (g_deps g).
    apply flat_map_ext. intros d1. destruct (d_src d1 =? x); [|reflexivity].
    assert (H : forall l, (forall d, In d l -> In d (g_deps g)) ->
      flat_map (fun d2 => if d_src d2 =? d_snk d1 then match find_step g' (d_snk d2) with
                          | Some y => if s_detached y then [] else [s_key y] | None => [] end else []) l =
      flat_map (fun d2 => if d_src d2 =? d_snk d1 then match find_step g (d_snk d2) with
                          | Some y => if s_detached y then [] else [s_key y] | None => [] end else []) l).
    { induction l as [|d2 l IH]; intros Hl; [reflexivity|]. cbn [flat_map].
      rewrite IH by (intros; apply Hl; right; assumption).
      rewrite cs_find_old by (apply (Hnodeps d2); apply Hl; left; reflexivity). reflexivity. }
    apply H. auto.
  Qed.

  Lemma cs_local_k x : x <> k -> local_k g' x = local_k g x.
  Proof.
    intros Hx. unfold local_k. rewrite cs_find_old by exact Hx.
    destruct (find_step g x); reflexivity.
  Qed.

  Lemma cs_vals_of x : x <> k -> vals_of g' x = vals_of g x.
  Proof. intros Hx. unfold vals_of. rewrite cs_find_old by exact Hx. reflexivity. Qed.

  Lemma cs_cons_old x y : In y (cons_keys g x) -> y <> k.
  Proof.
    intros Hy E. apply cons_keys_attached in Hy. apply attached_keys_step in Hy.
    destruct Hy as [s [Hs [Ek _]]]. apply (cs_find_in s Hs). congruence.
  Qed.

  Lemma cs_seed0 y : In y (seed0 g) -> In y (seed0 g').
  Proof.
    unfold seed0. rewrite cs_steps, filter_app, map_app. intros H. apply in_or_app. left. exact H.
  Qed.

  Theorem create_step_need_sound : FlagInv_need g -> FlagInv_need g'.
  Proof.
    intros HF s Hin Hd Hc Hy. rewrite cs_steps in Hin.
    apply in_app_or in Hin. destruct Hin as [Hin|[<-|[]]]; [|unfold n in Hc; cbn in Hc; discriminate].
    pose proof (cs_find_in s Hin) as Hk.
    unfold new_val. rewrite cs_cons_keys, (cs_local_k _ Hk). cbn [fst].
    rewrite (HF s Hin Hd Hc).
    - unfold new_val. cbn [fst]. f_equal. f_equal. apply map_ext_in. intros y Hyc.
      rewrite (cs_vals_of y (cs_cons_old _ _ Hyc)). reflexivity.
    - intros y Hyc Hys. apply (Hy y); [rewrite cs_cons_keys; exact Hyc | apply cs_seed0; exact Hys].
  Qed.
End CreateStep.

(* ---- File.set_state and _implied_need: only a change to or from VOLATILE could matter ---- *)

Section FileStateNeed.
  Variable g : graph.
  Variables (k st : N) (h : bool).
  Hypothesis Hvol : forall f, In f (g_files g) -> f_key f = k ->
    (f_state f =? FS_VOLATILE) = (st =? FS_VOLATILE).
  Let g1 := with_files g (map (fstateF k st h) (g_files g)).

  Lemma fs_regular f : In f (g_files g) -> regular_output (fstateF k st h f) = regular_output f.
  Proof.
    intros Hin. rewrite !regular_output_meaning. unfold fstateF.
    destruct (f_key f =? k) eqn:E; [|reflexivity]. apply N.eqb_eq in E.
    cbn [set_fstate f_detached f_state]. rewrite (Hvol f Hin E). reflexivity.
  Qed.

  Lemma fs_outputs x : outputs g1 x = map (fstateF k st h) (outputs g x).
  Proof.
    unfold outputs. change (g_deps g1) with (g_deps g).
    induction (g_deps g) as [|d l IH]; [reflexivity|]. cbn [flat_map]. rewrite map_app, IH. f_equal.
    destruct (d_src d =? x); [|reflexivity]. unfold g1. rewrite find_file_map.
    destruct (find_file g (d_snk d)); reflexivity.
  Qed.

  Lemma fs_outputs_in x f : In f (outputs g x) -> In f (g_files g).
  Proof.
    unfold outputs. intros H. apply in_flat_map in H. destruct H as [d [_ H]].
    destruct (d_src d =? x); [|destruct H]. destruct (find_file g (d_snk d)) as [f'|] eqn:E; [|destruct H].
    destruct H as [<-|[]]. unfold find_file in E. apply find_some in E. tauto.
  Qed.

  Lemma fs_existsb (p q : file -> bool) l :
    (forall f, In f l -> p (fstateF k st h f) = q f) -> existsb p (map (fstateF k st h) l) = existsb q l.
  Proof.
    induction l as [|a l IH]; intros H; [reflexivity|]. cbn [map existsb].
    rewrite (H a (or_introl eq_refl)), IH; [reflexivity | intros; apply H; right; assumption].
  Qed.

  Lemma fs_label f : f_label (fstateF k st h f) = f_label f.
  Proof. unfold fstateF. destruct (f_key f =? k); reflexivity. Qed.

  Lemma fs_local_k x : local_k g1 x = local_k g x.
  Proof.
    unfold local_k. change (find_step g1 x) with (find_step g x).
    destruct (find_step g x) as [s|]; [|reflexivity].
    unfold local_need, elev. rewrite fs_outputs.
    rewrite (fs_existsb (fun f => regular_output f && is_target g1 f) (fun f => regular_output f && is_target g f)).
    - rewrite (fs_existsb (fun f => regular_output f && in_tdir g1 f) (fun f => regular_output f && in_tdir g f)); [reflexivity|].
      intros f Hf. rewrite fs_regular by (eapply fs_outputs_in; exact Hf).
      unfold in_tdir. rewrite fs_label. reflexivity.
    - intros f Hf. rewrite fs_regular by (eapply fs_outputs_in; exact Hf).
      unfold is_target. rewrite fs_label. reflexivity.
  Qed.

  Lemma fs_need_files : FlagInv_need g -> FlagInv_need g1.
  Proof.
    intros HF s Hin Hd Hc Hy. change (In s (g_steps g)) in Hin.
    change (cons_keys g1 (s_key s)) with (cons_keys g (s_key s)) in Hy.
    change (seed0 g1) with (seed0 g) in Hy.
    unfold new_val. rewrite fs_local_k.
    change (cons_keys g1 (s_key s)) with (cons_keys g (s_key s)).
    change (vals_of g1) with (vals_of g). apply (HF s Hin Hd Hc Hy).
  Qed.

  Theorem set_file_state_need_sound : FlagInv_need g -> FlagInv_need (set_file_state g k st h).
  Proof.
    intros HF. unfold set_file_state. destruct (find_file g k) as [f0|]; [|exact HF].
    change (with_files g (map (fun f => if f_key f =? k then set_fstate f st h else f) (g_files g))) with g1.
    destruct (negb trg_file_state_upd_on_change_only || negb (f_state f0 =? st)).
    - rewrite run_trigger_mapg. apply FlagInv_need_only_flags; [apply trigF_only_flags|]. apply fs_need_files. exact HF.
    - apply fs_need_files. exact HF.
  Qed.
End FileStateNeed.

(* ---- Step.detach / Step.reattach and _safe ---- *)

Lemma aflag_steps_only g1 g2 : g_steps g1 = g_steps g2 -> forall n s, aflag n g1 s = aflag n g2 s.
Proof.
  intros E. induction n as [|n IH]; intros s; [reflexivity|]. cbn [aflag].
  assert (Hc : creator_step g1 s = creator_step g2 s) by (unfold creator_step, find_step; rewrite E; reflexivity).
  rewrite Hc. destruct (creator_step g2 s); [rewrite IH|]; reflexivity.
Qed.
Lemma safe_fuel_steps_only g1 g2 : g_steps g1 = g_steps g2 -> forall n s, safe_fuel n g1 s = safe_fuel n g2 s.
Proof.
  intros E. induction n as [|n IH]; intros s; [reflexivity|]. cbn [safe_fuel].
  assert (Hc : creator_step g1 s = creator_step g2 s) by (unfold creator_step, find_step; rewrite E; reflexivity).
  rewrite Hc. destruct (creator_step g2 s); [rewrite IH|]; reflexivity.
Qed.
Lemma FlagInv_safe_steps_only g1 g2 : g_steps g1 = g_steps g2 -> FlagInv_safe g1 -> FlagInv_safe g2.
Proof.
  intros E HF s Hin Ha. unfold L, safe_spec in *. rewrite <- E in *.
  rewrite <- (aflag_steps_only g1 g2 E) in Ha. rewrite <- (safe_fuel_steps_only g1 g2 E). apply HF; assumption.
Qed.

(* step maps that leave alone everything _safe reads, except the creator of the step k *)
Record place_map (k : N) (F : step -> step) : Prop := {
  pm_key : forall s, s_key (F s) = s_key s;
  pm_safe : forall s, s_safe (F s) = s_safe s;
  pm_safe_nh : forall s, s_safe_nh (F s) = s_safe_nh s;
  pm_state : forall s, s_state (F s) = s_state s;
  pm_holding : forall s, s_holding (F s) = s_holding s;
  pm_cs : forall s, s_chk_safe s = true -> s_chk_safe (F s) = true;
  pm_creator : forall s, s_key s <> k -> s_creator (F s) = s_creator s }.

Definition place_rel (k : N) (g g' : graph) : Prop :=
  exists F, g_steps g' = map F (g_steps g) /\ place_map k F.

Lemma place_rel_refl k g : place_rel k g g.
Proof. exists (fun s => s). split; [symmetry; apply map_id | constructor; auto]. Qed.

Lemma place_rel_trans k g g1 g2 : place_rel k g g1 -> place_rel k g1 g2 -> place_rel k g g2.
Proof.
  intros [F1 [E1 P1]] [F2 [E2 P2]]. exists (fun s => F2 (F1 s)). split; [rewrite E2, E1, map_map; reflexivity|].
  constructor; intros s.
  - rewrite (pm_key k F2 P2), (pm_key k F1 P1). reflexivity.
  - rewrite (pm_safe k F2 P2), (pm_safe k F1 P1). reflexivity.
  - rewrite (pm_safe_nh k F2 P2), (pm_safe_nh k F1 P1). reflexivity.
  - rewrite (pm_state k F2 P2), (pm_state k F1 P1). reflexivity.
  - rewrite (pm_holding k F2 P2), (pm_holding k F1 P1). reflexivity.
  - intros H. apply (pm_cs k F2 P2), (pm_cs k F1 P1), H.
  - intros H. rewrite (pm_creator k F2 P2), (pm_creator k F1 P1); [reflexivity | exact H |].
    rewrite (pm_key k F1 P1). exact H.
Qed.

Lemma place_rel_only_flags k g F : only_flags F -> place_rel k g (mapg F g).
Proof.
  intros O. pose proof (of_keeps F O) as K. exists F. split; [reflexivity|].
  constructor; intros s; try apply K; try apply O. intros _. apply K.
Qed.

Lemma place_rel_trigger k g body self d : place_rel k g (run_trigger body self d g).
Proof. rewrite run_trigger_mapg. apply place_rel_only_flags. apply trigF_only_flags. Qed.

Lemma place_rel_flag_keys k g c ks : place_rel k g (flag_keys c ks g).
Proof. rewrite flag_keys_mapg. apply place_rel_only_flags. apply flagF_only_flags. Qed.

Lemma place_rel_set_detached_core k g ks b : place_rel k g (set_detached_nodes_core g ks b).
Proof.
  unfold set_detached_nodes_core.
  match goal with |- place_rel k g (fold_left ?f ?l ?a) =>
    apply (fold_inv f (place_rel k g) l a) end.
  - exists (fun s => if mem_N (s_key s) ks then set_place s b (s_creator s) else s).
    split; [reflexivity|]. constructor; intros s; destruct (mem_N (s_key s) ks); auto.
  - intros a x Ha. eapply place_rel_trans; [exact Ha | apply place_rel_trigger].
Qed.

(* the optional trigger step_node_undefer_reattached only writes `deferred` *)
Lemma undeferF_fields g ks s :
  s_key (undeferF g ks s) = s_key s /\ s_safe (undeferF g ks s) = s_safe s /\
  s_safe_nh (undeferF g ks s) = s_safe_nh s /\ s_state (undeferF g ks s) = s_state s /\
  s_holding (undeferF g ks s) = s_holding s /\ s_chk_safe (undeferF g ks s) = s_chk_safe s /\
  s_creator (undeferF g ks s) = s_creator s /\ s_ready (undeferF g ks s) = s_ready s /\
  s_chk_ready (undeferF g ks s) = s_chk_ready s /\ s_need (undeferF g ks s) = s_need s /\
  s_ineed (undeferF g ks s) = s_ineed s /\ s_tail (undeferF g ks s) = s_tail s /\
  s_duration (undeferF g ks s) = s_duration s /\ s_chk_after (undeferF g ks s) = s_chk_after s /\
  s_detached (undeferF g ks s) = s_detached s.
Proof. unfold undeferF, undeferF_with. destruct (s_deferred s && _); repeat split; reflexivity. Qed.

Lemma place_rel_undefer k g ks : place_rel k g (undefer_consumers g ks).
Proof.
  exists (undeferF g ks). split; [reflexivity|].
  constructor; intros s; destruct (undeferF_fields g ks s) as [A [B [C' [D [E [F [G _]]]]]]]; try assumption.
  - intros H. rewrite F. exact H.
  - intros _. exact G.
Qed.

Lemma place_rel_set_detached k g ks b : place_rel k g (set_detached_nodes g ks b).
Proof.
  unfold set_detached_nodes. destruct (trg_undefer_on_reattach && negb b).
  - eapply place_rel_trans; [apply place_rel_set_detached_core | apply place_rel_undefer].
  - apply place_rel_set_detached_core.
Qed.

Lemma place_rel_set_place k g det cr :
  place_rel k g (with_steps g (map (fun s => if s_key s =? k then set_place s det cr else s) (g_steps g))).
Proof.
  eexists. split; [reflexivity|]. constructor; intros s; destruct (s_key s =? k) eqn:E; auto.
  intros H. apply N.eqb_eq in E. contradiction.
Qed.

Lemma place_rel_flag_with_products k g x : place_rel k g (flag_with_products g x).
Proof.
  unfold flag_with_products. eapply place_rel_trans; apply place_rel_flag_keys.
Qed.

Lemma flag_with_products_flags g k s : In s (g_steps (flag_with_products g k)) -> s_key s = k ->
  s_chk_safe s = true.
Proof.
  rewrite flag_with_products_mapg. unfold mapg. cbn [g_steps with_steps]. intros Hin Hk.
  apply in_map_iff in Hin. destruct Hin as [s0 [<- _]]. unfold step_subtree.
  apply subtreeF_flags_head. rewrite <- Hk. symmetry.
  apply (k_key _ (of_keeps _ (subtreeF_only_flags _))).
Qed.

(* a place_rel step that ends with the step k flagged keeps the invariant *)
Lemma place_rel_safe_sound k g g' :
  place_rel k g g' -> (forall s, In s (g_steps g') -> s_key s = k -> s_chk_safe s = true) ->
  FlagInv_safe g -> FlagInv_safe g'.
Proof.
  intros [F [E P]] Hk HF.
  apply (FlagInv_safe_steps_only (mapg F g) g'); [symmetry; exact E|].
  apply FlagInv_safe_mono; [|exact HF]. constructor; try apply P.
  intros s Hin Hc.
  assert (Hne : s_key s <> k).
  { intros Ek. rewrite (Hk (F s)) in Hc; [discriminate | rewrite E; apply in_map; exact Hin |].
    rewrite (pm_key k F P). exact Ek. }
  unfold ok_h, ok_nh. rewrite (pm_state k F P), (pm_holding k F P), (pm_creator k F P s Hne).
  repeat split; reflexivity.
Qed.

Lemma place_rel_keeps_flag k g g' : place_rel k g g' ->
  (forall s, In s (g_steps g) -> s_key s = k -> s_chk_safe s = true) ->
  forall s, In s (g_steps g') -> s_key s = k -> s_chk_safe s = true.
Proof.
  intros [F [E P]] H s Hin Hk. rewrite E in Hin. apply in_map_iff in Hin. destruct Hin as [s0 [<- Hin0]].
  apply (pm_cs k F P). apply H; [exact Hin0|]. rewrite <- Hk. symmetry. apply (pm_key k F P).
Qed.

Theorem detach_step_with_safe_sound w g k : FlagInv_safe g -> FlagInv_safe (detach_step_with w g k).
Proof.
  intros HF. unfold detach_step_with. destruct (find_step g k) as [s0|]; [|exact HF].
  set (g2 := match s_creator s0 with
             | Some _ => _
             | None => g end).
  assert (R2 : place_rel k g g2).
  { unfold g2. destruct (s_creator s0); [|apply place_rel_refl].
    assert (R1 : place_rel k g (with_steps (set_detached_nodes g [k] true)
               (map (fun s => if s_key s =? k then set_place s true None else s)
                    (g_steps (set_detached_nodes g [k] true))))).
    { eapply place_rel_trans; [apply place_rel_set_detached | apply place_rel_set_place]. }
    destruct (s_detached s0); [exact R1|].
    eapply place_rel_trans; [exact R1 | apply place_rel_set_detached]. }
  apply (place_rel_safe_sound k g); [| |exact HF].
  - eapply place_rel_trans; [exact R2|].
    eapply place_rel_trans; [apply place_rel_flag_with_products|].
    unfold flag_after_sources, flag_after_sources_with. apply place_rel_flag_keys.
  - apply (place_rel_keeps_flag k (flag_with_products g2 k)).
    + unfold flag_after_sources, flag_after_sources_with. apply place_rel_flag_keys.
    + apply flag_with_products_flags.
Qed.

Theorem reattach_step_safe_sound g k c cdet : FlagInv_safe g -> FlagInv_safe (reattach_step g k c cdet).
Proof.
  intros HF. unfold reattach_step.
  apply (place_rel_safe_sound k g); [| |exact HF].
  - eapply place_rel_trans; [apply place_rel_set_detached|].
    eapply place_rel_trans; [apply place_rel_set_place|].
    eapply place_rel_trans; [apply place_rel_set_detached|].
    apply place_rel_flag_with_products.
  - apply flag_with_products_flags.
Qed.

(* ------------------------------------------------------------------------------------------ *)
(* The full statements on the repository as it is (facts read by the translator)               *)
(* ------------------------------------------------------------------------------------------ *)

Lemma safe_merge_is_deepest : safe_merge = MergeDeepest.
Proof. reflexivity. Qed.
Lemma dep_del_flags_producers : flags_producers trg_dep_del = true.
Proof. vm_compute. reflexivity. Qed.

Theorem update_meta_correct_repo g :
  WF g -> Acyclic g -> FlagInv g ->
  exists g', update_meta g = Some g' /\ AllCorrect g' /\ (exists f, keeps f /\ g' = mapg f g).
Proof. intros. apply update_meta_correct_gen; try assumption. left. exact safe_merge_is_deepest. Qed.

Theorem dispatch_only_eligible_repo g :
  WF g -> Acyclic g -> FlagInv g -> HasHashInv g ->
  exists g', update_meta g = Some g' /\ AllCorrect g' /\
    forall s, In s (dispatch_set g') <-> (In s (g_steps g') /\ eligible_spec g' s = true).
Proof. intros. apply dispatch_only_eligible_gen; try assumption. left. exact safe_merge_is_deepest. Qed.

Theorem phase_end_nothing_eligible_repo g njob running done hs :
  WF g -> Acyclic g -> FlagInv g -> HasHashInv g -> 0 < njob ->
  job_loop_may_end njob running done hs (job_loop_pop njob running hs false g) = true ->
  running = 0 /\ done = 0 /\
  exists g', update_meta g = Some g' /\ AllCorrect g' /\
             forall s, In s (g_steps g') -> eligible_spec g' s = false.
Proof.
  intros. eapply phase_end_nothing_eligible_gen; try eassumption. left. exact safe_merge_is_deepest.
Qed.

Theorem del_dep_sound_full_repo g d : WF g -> FlagInv g -> FlagInv (del_dep g d).
Proof. intros. apply del_dep_sound_repo; try assumption. left. exact dep_del_flags_producers. Qed.

Theorem executed_iff_needed_repo g :
  WF g -> Acyclic g -> FlagInv g -> HasHashInv g ->
  exists g', update_meta g = Some g' /\ AllCorrect g' /\
    (forall s, In s (dispatch_set g') ->
       ND_OPTIONAL < need_spec g' (s_key s) /\ g_threshold g' < need_spec g' (s_key s)) /\
    (forall s, In s (g_steps g') ->
       s_state s = ST_PENDING -> s_detached s = false -> s_deferred s = false ->
       fst (safe_spec g' s) = true -> ready_spec g' (s_key s) = true -> res_unavailable g' s = false ->
       (In s (dispatch_set g') <->
        ND_OPTIONAL < need_spec g' (s_key s) /\ g_threshold g' < need_spec g' (s_key s))).
Proof. intros. apply executed_iff_needed_gen; try assumption. left. exact safe_merge_is_deepest. Qed.

(* ------------------------------------------------------------------------------------------ *)
(* Step.detach / Step.reattach: _ready and _implied_need                                        *)
(* ------------------------------------------------------------------------------------------ *)

(* ---- _ready under Step.detach / Step.reattach ---- *)

(* same files and edges; step rows keep key and _ready; _check_ready only raised *)
Definition rrel (g g' : graph) : Prop :=
  g_files g' = g_files g /\ g_deps g' = g_deps g /\
  exists F, g_steps g' = map F (g_steps g) /\
    forall s, s_key (F s) = s_key s /\ s_ready (F s) = s_ready s /\
              (s_chk_ready s = true -> s_chk_ready (F s) = true).

Lemma rrel_refl g : rrel g g.
Proof. split; [reflexivity|]. split; [reflexivity|]. exists (fun s => s). split; [symmetry; apply map_id | auto]. Qed.

Lemma rrel_trans g g1 g2 : rrel g g1 -> rrel g1 g2 -> rrel g g2.
Proof.
  intros [Hf1 [Hd1 [F1 [E1 P1]]]] [Hf2 [Hd2 [F2 [E2 P2]]]].
  split; [congruence|]. split; [congruence|]. exists (fun s => F2 (F1 s)).
  split; [rewrite E2, E1, map_map; reflexivity|]. intros s.
  destruct (P1 s) as [a [b c]]. destruct (P2 (F1 s)) as [a' [b' c']].
  repeat split; try congruence. auto.
Qed.

Lemma rrel_only_flags g F : only_flags F -> rrel g (mapg F g).
Proof.
  intros O. split; [reflexivity|]. split; [reflexivity|]. exists F. split; [reflexivity|].
  intros s. repeat split; [apply (k_key _ (of_keeps _ O)) | apply (of_ready _ O) | apply (of_cr _ O)].
Qed.
Lemma rrel_trigger g body self d : rrel g (run_trigger body self d g).
Proof. rewrite run_trigger_mapg. apply rrel_only_flags. apply trigF_only_flags. Qed.
Lemma rrel_flag_keys g c ks : rrel g (flag_keys c ks g).
Proof. rewrite flag_keys_mapg. apply rrel_only_flags. apply flagF_only_flags. Qed.
Lemma rrel_flag_with_products g k : rrel g (flag_with_products g k).
Proof. unfold flag_with_products. eapply rrel_trans; apply rrel_flag_keys. Qed.
Lemma rrel_set_place g k det cr :
  rrel g (with_steps g (map (fun s => if s_key s =? k then set_place s det cr else s) (g_steps g))).
Proof.
  split; [reflexivity|]. split; [reflexivity|]. eexists. split; [reflexivity|].
  intros s. cbv beta. destruct (s_key s =? k); repeat split; auto.
Qed.

Lemma rrel_ready_spec g g' k : rrel g g' -> ready_spec g' k = ready_spec g k.
Proof.
  intros [Hf [Hd _]]. unfold ready_spec, unavailable, find_file. rewrite Hf, Hd. reflexivity.
Qed.

Lemma rrel_sound g g' : rrel g g' -> FlagInv_ready g -> FlagInv_ready g'.
Proof.
  intros R HF s' Hin Hc. rewrite (rrel_ready_spec g g' _ R).
  destruct R as [_ [_ [F [E P]]]]. rewrite E in Hin. apply in_map_iff in Hin. destruct Hin as [s [<- Hin]].
  destruct (P s) as [Pk [Pr Pc]]. rewrite Pr, Pk. apply HF; [exact Hin|].
  destruct (s_chk_ready s) eqn:Ec; [rewrite (Pc eq_refl) in Hc; discriminate | reflexivity].
Qed.

Lemma find_file_mapf (fm : file -> file) (l : list file) x :
  (forall f, f_key (fm f) = f_key f) ->
  find (fun f => f_key f =? x) (map fm l) = option_map fm (find (fun f => f_key f =? x) l).
Proof.
  intros Hk. induction l as [|a l IH]; [reflexivity|]. cbn [map find]. rewrite Hk.
  destruct (f_key a =? x); [reflexivity | exact IH].
Qed.

Section SetDetached.
  Variable g : graph.
  Variable ks : list N.
  Variable b : bool.
  Hypothesis Htrg : In (FReady, TConsumersOfSelf) trg_node_detached.

  Let sp := fun s => if mem_N (s_key s) ks then set_place s b (s_creator s) else s.
  Let fp := fun f => if mem_N (f_key f) ks then set_fplace f b (f_creator f) else f.
  Let op := fun o => if mem_N (o_key o) ks then set_oplace o b (o_creator o) else o.
  Let g1 := mkGraph (map sp (g_steps g)) (map fp (g_files g)) (map op (g_others g))
                    (g_deps g) (g_targets g) (g_tdirs g) (g_avail g) (g_threshold g).
  Let flipped :=
      map s_key (filter (fun s => mem_N (s_key s) ks && negb (Bool.eqb (s_detached s) b)) (g_steps g))
      ++ map f_key (filter (fun f => mem_N (f_key f) ks && negb (Bool.eqb (f_detached f) b)) (g_files g))
      ++ map o_key (filter (fun o => mem_N (o_key o) ks && negb (Bool.eqb (o_detached o) b)) (g_others g)).
  Let stepf := fun (acc : graph) (k : N) => run_trigger trg_node_detached k None acc.

  Lemma sdn_unfold : set_detached_nodes_core g ks b = fold_left stepf flipped g1.
  Proof. reflexivity. Qed.

  (* steps whose readiness may change: consumers of a file whose detached flag flips *)
  Definition touched (t : N) : Prop :=
    exists f, In f (g_files g) /\ mem_N (f_key f) ks = true /\ f_detached f <> b /\
              In t (consumers_of_node g (f_key f)).

  Lemma sdn_unavailable e : ~ touched (d_snk e) -> In e (g_deps g) -> unavailable g1 e = unavailable g e.
  Proof.
    intros Ht He. unfold unavailable, find_file. cbn [g_files g1].
    rewrite find_file_mapf by (intros f; unfold fp; destruct (mem_N (f_key f) ks); reflexivity).
    destruct (find (fun f => f_key f =? d_src e) (g_files g)) as [f|] eqn:Ef; [|reflexivity].
    cbn [option_map]. apply find_some in Ef. destruct Ef as [Hin Ek]. apply N.eqb_eq in Ek.
    unfold fp. destruct (mem_N (f_key f) ks) eqn:Em; [|reflexivity].
    destruct (Bool.eqb (f_detached f) b) eqn:Eb.
    - apply eqb_prop in Eb. unfold ienv, set_fplace. cbn. rewrite Eb. reflexivity.
    - exfalso. apply Ht. exists f. repeat split; try assumption.
      + intros E. rewrite E, eqb_reflx in Eb. discriminate.
      + unfold consumers_of_node. apply in_map_iff. exists e. split; [reflexivity|].
        apply filter_In. split; [exact He | apply N.eqb_eq; congruence].
  Qed.

  Lemma sdn_ready_spec t : ~ touched t -> ready_spec g1 t = ready_spec g t.
  Proof.
    intros Ht. apply ready_spec_ext; [reflexivity|]. intros e He Es. apply sdn_unavailable; [rewrite Es; exact Ht | exact He].
  Qed.

  Lemma sdn_rrel_fold l : forall acc, rrel g1 acc -> rrel g1 (fold_left stepf l acc).
  Proof.
    intros acc Ha. apply (fold_inv stepf (rrel g1)); [exact Ha|].
    intros a x Hx. eapply rrel_trans; [exact Hx | apply rrel_trigger].
  Qed.

  Definition flagged_at (t : N) (acc : graph) : Prop :=
    forall r, In r (g_steps acc) -> s_key r = t -> s_chk_ready r = true.

  Lemma flagged_at_step t acc x : g_deps acc = g_deps g -> flagged_at t acc -> flagged_at t (stepf acc x).
  Proof.
    intros _ HP r Hin Hk. unfold stepf in Hin. rewrite run_trigger_mapg in Hin.
    unfold mapg in Hin. cbn [g_steps with_steps] in Hin. apply in_map_iff in Hin. destruct Hin as [r0 [<- Hin]].
    pose proof (trigF_only_flags acc trg_node_detached x None) as O.
    apply (of_cr _ O). apply HP; [exact Hin|]. rewrite <- Hk. symmetry. apply (k_key _ (of_keeps _ O)).
  Qed.

  Lemma flagged_after t acc kf : g_deps acc = g_deps g -> In t (consumers_of_node g kf) ->
    flagged_at t (stepf acc kf).
  Proof.
    intros Hd Ht r Hin Hk. unfold stepf in Hin. rewrite run_trigger_mapg in Hin.
    unfold mapg in Hin. cbn [g_steps with_steps] in Hin. apply in_map_iff in Hin. destruct Hin as [r0 [<- Hin]].
    pose proof (trigF_only_flags acc trg_node_detached kf None) as O.
    apply (trigF_sets acc trg_node_detached kf None FReady TConsumersOfSelf r0 Htrg).
    cbn [target_keys]. unfold consumers_of_node. rewrite Hd.
    rewrite (k_key _ (of_keeps _ O)) in Hk. rewrite Hk. exact Ht.
  Qed.

  Lemma sdn_deps_fold l : forall acc, g_deps acc = g_deps g -> g_deps (fold_left stepf l acc) = g_deps g.
  Proof.
    induction l as [|x l IH]; intros acc Ha; [exact Ha|]. cbn [fold_left]. apply IH.
    unfold stepf. rewrite run_trigger_mapg. exact Ha.
  Qed.

  Lemma sdn_flagged_fold t kf : In kf flipped -> In t (consumers_of_node g kf) ->
    flagged_at t (fold_left stepf flipped g1).
  Proof.
    intros Hkf Ht.
    (* carry "deps unchanged" along with the property *)
    assert (H : forall l acc, g_deps acc = g_deps g -> (flagged_at t acc \/ In kf l) ->
                flagged_at t (fold_left stepf l acc)).
    { induction l as [|x l IH]; intros acc Hd Hor; cbn [fold_left].
      - destruct Hor as [Hf|[]]. exact Hf.
      - apply IH; [unfold stepf; rewrite run_trigger_mapg; exact Hd|].
        destruct Hor as [Hf|[->|Hin]].
        + left. apply flagged_at_step; assumption.
        + left. apply flagged_after; assumption.
        + right. exact Hin. }
    apply H; [reflexivity | right; exact Hkf].
  Qed.

  Theorem set_detached_nodes_core_ready_sound : FlagInv_ready g -> FlagInv_ready (set_detached_nodes_core g ks b).
  Proof.
    intros HF. rewrite sdn_unfold. set (gF := fold_left stepf flipped g1).
    assert (R : rrel g1 gF) by (apply sdn_rrel_fold; apply rrel_refl).
    intros s' Hin Hc. rewrite (rrel_ready_spec g1 gF _ R).
    pose proof R as [_ [_ [F [E P]]]]. rewrite E in Hin. apply in_map_iff in Hin.
    destruct Hin as [s1 [<- Hin1]]. cbn [g_steps g1] in Hin1. apply in_map_iff in Hin1.
    destruct Hin1 as [s [<- Hin]].
    destruct (P (sp s)) as [Pk [Pr Pc]].
    assert (Hsp : s_key (sp s) = s_key s /\ s_ready (sp s) = s_ready s /\ s_chk_ready (sp s) = s_chk_ready s).
    { unfold sp. destruct (mem_N (s_key s) ks); repeat split; reflexivity. }
    destruct Hsp as [Sk [Sr Sc]]. rewrite Pr, Pk, Sr, Sk.
    assert (Hnt : ~ touched (s_key s)).
    { intros [f [Hf [Hm [Hd Ht]]]].
      assert (Hfl : flagged_at (s_key s) gF).
      { apply (sdn_flagged_fold (s_key s) (f_key f)); [|exact Ht].
        unfold flipped. apply in_or_app. right. apply in_or_app. left. apply in_map. apply filter_In.
        split; [exact Hf|]. rewrite Hm. cbn [andb]. apply negb_true_iff.
        destruct (Bool.eqb (f_detached f) b) eqn:Eb; [apply eqb_prop in Eb; contradiction | reflexivity]. }
      rewrite (Hfl (F (sp s))) in Hc; [discriminate | rewrite E; apply in_map; cbn [g_steps g1]; apply in_map; exact Hin |].
      rewrite Pk. exact Sk. }
    rewrite (sdn_ready_spec _ Hnt). apply HF; [exact Hin|].
    destruct (s_chk_ready s) eqn:Ec; [|reflexivity].
    assert (Ec' : s_chk_ready (sp s) = true) by congruence.
    rewrite (Pc Ec') in Hc. discriminate.
  Qed.
End SetDetached.

Lemma rrel_undefer g ks : rrel g (undefer_consumers g ks).
Proof.
  split; [reflexivity|]. split; [reflexivity|]. exists (undeferF g ks). split; [reflexivity|].
  intros s. destruct (undeferF_fields g ks s) as [A [_ [_ [_ [_ [_ [_ [R [C' _]]]]]]]]].
  split; [exact A|]. split; [exact R|]. intros H. rewrite C'. exact H.
Qed.

Theorem set_detached_nodes_ready_sound g ks b : In (FReady, TConsumersOfSelf) trg_node_detached ->
  FlagInv_ready g -> FlagInv_ready (set_detached_nodes g ks b).
Proof.
  intros Htrg HF. unfold set_detached_nodes.
  pose proof (set_detached_nodes_core_ready_sound g ks b Htrg HF) as H.
  destruct (trg_undefer_on_reattach && negb b); [|exact H].
  eapply rrel_sound; [apply rrel_undefer | exact H].
Qed.

Theorem detach_step_with_ready_sound w g k :
  In (FReady, TConsumersOfSelf) trg_node_detached -> FlagInv_ready g -> FlagInv_ready (detach_step_with w g k).
Proof.
  intros Htrg HF. unfold detach_step_with. destruct (find_step g k) as [s0|]; [|exact HF].
  set (g2 := match s_creator s0 with Some _ => _ | None => g end).
  assert (H2 : FlagInv_ready g2).
  { unfold g2. destruct (s_creator s0); [|exact HF].
    assert (H1 : FlagInv_ready (with_steps (set_detached_nodes g [k] true)
               (map (fun s => if s_key s =? k then set_place s true None else s)
                    (g_steps (set_detached_nodes g [k] true))))).
    { eapply rrel_sound; [apply rrel_set_place|]. apply set_detached_nodes_ready_sound; assumption. }
    destruct (s_detached s0); [exact H1|]. apply set_detached_nodes_ready_sound; assumption. }
  eapply rrel_sound; [|exact H2].
  eapply rrel_trans; [apply rrel_flag_with_products|]. unfold flag_after_sources, flag_after_sources_with. apply rrel_flag_keys.
Qed.

Theorem reattach_step_ready_sound g k c cdet :
  In (FReady, TConsumersOfSelf) trg_node_detached -> FlagInv_ready g -> FlagInv_ready (reattach_step g k c cdet).
Proof.
  intros Htrg HF. unfold reattach_step.
  eapply rrel_sound; [apply rrel_flag_with_products|].
  apply set_detached_nodes_ready_sound; [exact Htrg|].
  eapply rrel_sound; [apply rrel_set_place|].
  apply set_detached_nodes_ready_sound; assumption.
Qed.

(* ---- _implied_need under Step.detach / Step.reattach ---- *)

(* how a stage rewrites the tables: edges/targets untouched; rows keep everything the need
   specification reads except `detached`, which changes by phi(key, old value); flags only raised;
   creators kept except for the step k *)
Record drel (k : N) (phi phif : N -> bool -> bool) (g g' : graph) (F : step -> step) (H : file -> file)
            (O : onode -> onode) : Prop := {
  dr_deps : g_deps g' = g_deps g;
  dr_targets : g_targets g' = g_targets g;
  dr_tdirs : g_tdirs g' = g_tdirs g;
  dr_steps : g_steps g' = map F (g_steps g);
  dr_files : g_files g' = map H (g_files g);
  dr_others : g_others g' = map O (g_others g);
  dr_key : forall s, s_key (F s) = s_key s;
  dr_need : forall s, s_need (F s) = s_need s;
  dr_ineed : forall s, s_ineed (F s) = s_ineed s;
  dr_tail : forall s, s_tail (F s) = s_tail s;
  dr_dur : forall s, s_duration (F s) = s_duration s;
  dr_ca : forall s, s_chk_after s = true -> s_chk_after (F s) = true;
  dr_cr : forall s, s_key s <> k -> s_creator (F s) = s_creator s;
  dr_sdet : forall s, s_detached (F s) = phi (s_key s) (s_detached s);
  dr_fkey : forall f, f_key (H f) = f_key f;
  dr_flabel : forall f, f_label (H f) = f_label f;
  dr_fstate : forall f, f_state (H f) = f_state f;
  dr_fcr : forall f, f_key f <> k -> f_creator (H f) = f_creator f;
  dr_fdet : forall f, f_detached (H f) = phif (f_key f) (f_detached f);
  dr_okey : forall o, o_key (O o) = o_key o;
  dr_ocr : forall o, o_creator (O o) = o_creator o }.

Arguments dr_deps {k phi phif g g' F H O} _.
Arguments dr_targets {k phi phif g g' F H O} _.
Arguments dr_tdirs {k phi phif g g' F H O} _.
Arguments dr_steps {k phi phif g g' F H O} _.
Arguments dr_files {k phi phif g g' F H O} _.
Arguments dr_others {k phi phif g g' F H O} _.
Arguments dr_key {k phi phif g g' F H O} _.
Arguments dr_need {k phi phif g g' F H O} _.
Arguments dr_ineed {k phi phif g g' F H O} _.
Arguments dr_tail {k phi phif g g' F H O} _.
Arguments dr_dur {k phi phif g g' F H O} _.
Arguments dr_ca {k phi phif g g' F H O} _.
Arguments dr_cr {k phi phif g g' F H O} _.
Arguments dr_sdet {k phi phif g g' F H O} _.
Arguments dr_fkey {k phi phif g g' F H O} _.
Arguments dr_flabel {k phi phif g g' F H O} _.
Arguments dr_fstate {k phi phif g g' F H O} _.
Arguments dr_fcr {k phi phif g g' F H O} _.
Arguments dr_fdet {k phi phif g g' F H O} _.
Arguments dr_okey {k phi phif g g' F H O} _.
Arguments dr_ocr {k phi phif g g' F H O} _.

Definition drel_ex k phi phif g g' : Prop := exists F H O, drel k phi phif g g' F H O.

Lemma drel_refl k g : drel_ex k (fun _ d => d) (fun _ d => d) g g.
Proof.
  exists (fun s => s), (fun f => f), (fun o => o).
  constructor; try reflexivity; try (symmetry; apply map_id); auto.
Qed.

Lemma drel_trans k phi1 phi2 phif1 phif2 g g1 g2 :
  drel_ex k phi1 phif1 g g1 -> drel_ex k phi2 phif2 g1 g2 ->
  drel_ex k (fun x d => phi2 x (phi1 x d)) (fun x d => phif2 x (phif1 x d)) g g2.
Proof.
  intros [F1 [H1 [O1 R1]]] [F2 [H2 [O2 R2]]].
  exists (fun s => F2 (F1 s)), (fun f => H2 (H1 f)), (fun o => O2 (O1 o)).
  constructor.
  - rewrite (dr_deps R2). apply (dr_deps R1).
  - rewrite (dr_targets R2). apply (dr_targets R1).
  - rewrite (dr_tdirs R2). apply (dr_tdirs R1).
  - rewrite (dr_steps R2), (dr_steps R1), map_map. reflexivity.
  - rewrite (dr_files R2), (dr_files R1), map_map. reflexivity.
  - rewrite (dr_others R2), (dr_others R1), map_map. reflexivity.
  - intros s. rewrite (dr_key R2). apply (dr_key R1).
  - intros s. rewrite (dr_need R2). apply (dr_need R1).
  - intros s. rewrite (dr_ineed R2). apply (dr_ineed R1).
  - intros s. rewrite (dr_tail R2). apply (dr_tail R1).
  - intros s. rewrite (dr_dur R2). apply (dr_dur R1).
  - intros s Hs. apply (dr_ca R2), (dr_ca R1), Hs.
  - intros s Hs. rewrite (dr_cr R2), (dr_cr R1); [reflexivity | exact Hs | rewrite (dr_key R1); exact Hs].
  - intros s. rewrite (dr_sdet R2), (dr_sdet R1), (dr_key R1). reflexivity.
  - intros f. rewrite (dr_fkey R2). apply (dr_fkey R1).
  - intros f. rewrite (dr_flabel R2). apply (dr_flabel R1).
  - intros f. rewrite (dr_fstate R2). apply (dr_fstate R1).
  - intros f Hf. rewrite (dr_fcr R2), (dr_fcr R1); [reflexivity | exact Hf | rewrite (dr_fkey R1); exact Hf].
  - intros f. rewrite (dr_fdet R2), (dr_fdet R1), (dr_fkey R1). reflexivity.
  - intros o. rewrite (dr_okey R2). apply (dr_okey R1).
  - intros o. rewrite (dr_ocr R2). apply (dr_ocr R1).
Qed.

Lemma drel_only_flags k g F : only_flags F -> drel_ex k (fun _ d => d) (fun _ d => d) g (mapg F g).
Proof.
  intros OF. pose proof (of_keeps F OF) as K.
  exists F, (fun f => f), (fun o => o).
  constructor; try reflexivity; try (symmetry; apply map_id); auto; intros s; try apply K; try apply OF.
  intros _. apply K.
Qed.
Lemma drel_trigger k g body self d : drel_ex k (fun _ d => d) (fun _ d => d) g (run_trigger body self d g).
Proof. rewrite run_trigger_mapg. apply drel_only_flags. apply trigF_only_flags. Qed.
Lemma drel_flag_keys k g c ks : drel_ex k (fun _ d => d) (fun _ d => d) g (flag_keys c ks g).
Proof. rewrite flag_keys_mapg. apply drel_only_flags. apply flagF_only_flags. Qed.

Lemma drel_phi_ext k phi phi' phif phif' g g' :
  (forall x d, phi x d = phi' x d) -> (forall x d, phif x d = phif' x d) ->
  drel_ex k phi phif g g' -> drel_ex k phi' phif' g g'.
Proof.
  intros E E' [F [H [O R]]]. exists F, H, O. destruct R. constructor; auto.
  - intros s. rewrite <- E. auto.
  - intros f. rewrite <- E'. auto.
Qed.

Lemma drel_flag_with_products k g x : drel_ex k (fun _ d => d) (fun _ d => d) g (flag_with_products g x).
Proof.
  unfold flag_with_products.
  eapply drel_phi_ext; [| |eapply drel_trans; apply drel_flag_keys]; reflexivity.
Qed.


Lemma drel_set_place k g det cr :
  drel_ex k (fun x d => if x =? k then det else d) (fun _ d => d) g
    (with_steps g (map (fun s => if s_key s =? k then set_place s det cr else s) (g_steps g))).
Proof.
  exists (fun s => if s_key s =? k then set_place s det cr else s), (fun f => f), (fun o => o).
  constructor; try reflexivity; try (symmetry; apply map_id); auto;
    try (intros s; destruct (s_key s =? k) eqn:E; auto; fail).
  intros s Hs. destruct (s_key s =? k) eqn:E; [apply N.eqb_eq in E; contradiction | reflexivity].
Qed.

Lemma drel_set_detached_core k g ks b :
  drel_ex k (fun x d => if mem_N x ks then b else d) (fun x d => if mem_N x ks then b else d) g
          (set_detached_nodes_core g ks b).
Proof.
  unfold set_detached_nodes_core.
  match goal with |- drel_ex _ _ _ g (fold_left ?f ?l ?a) =>
    apply (fold_inv f (drel_ex k (fun x d => if mem_N x ks then b else d) (fun x d => if mem_N x ks then b else d) g) l a) end.
  - exists (fun s => if mem_N (s_key s) ks then set_place s b (s_creator s) else s),
           (fun f => if mem_N (f_key f) ks then set_fplace f b (f_creator f) else f),
           (fun o => if mem_N (o_key o) ks then set_oplace o b (o_creator o) else o).
    constructor; try reflexivity;
      try (intros s; destruct (mem_N (s_key s) ks); auto; fail);
      try (intros f; destruct (mem_N (f_key f) ks); auto; fail);
      try (intros o; destruct (mem_N (o_key o) ks); auto; fail).
  - intros a x Ha. eapply drel_phi_ext; [| |eapply drel_trans; [exact Ha | apply drel_trigger]]; reflexivity.
Qed.

Lemma drel_undefer k g ks : drel_ex k (fun _ d => d) (fun _ d => d) g (undefer_consumers g ks).
Proof.
  exists (undeferF g ks), (fun f => f), (fun o => o).
  constructor; try reflexivity; try (symmetry; apply map_id); auto;
    intros s; destruct (undeferF_fields g ks s) as [A [_ [_ [_ [_ [_ [G [_ [_ [Nd [In_ [T [Du [Ca De]]]]]]]]]]]]]]; try assumption.
  - intros H. rewrite Ca. exact H.
  - intros _. exact G.
Qed.

Lemma drel_set_detached k g ks b :
  drel_ex k (fun x d => if mem_N x ks then b else d) (fun x d => if mem_N x ks then b else d) g
          (set_detached_nodes g ks b).
Proof.
  unfold set_detached_nodes. destruct (trg_undefer_on_reattach && negb b).
  - eapply drel_phi_ext; [| |eapply drel_trans; [apply drel_set_detached_core | apply drel_undefer]]; reflexivity.
  - apply drel_set_detached_core.
Qed.

(* ---- the creator forest below k does not depend on k's own creator ---- *)

Definition fr (k : N) (nc nc' : list (N * option N)) : Prop :=
  Forall2 (fun a a' => fst a = fst a' /\ (fst a <> k -> snd a = snd a')) nc nc'.

Lemma Forall2_map_same {A B} (R : B -> B -> Prop) (f f' : A -> B) l :
  (forall x, R (f x) (f' x)) -> Forall2 R (map f l) (map f' l).
Proof. intros H. induction l; cbn; constructor; auto. Qed.

Lemma more_fr k acc nc nc' : In k acc -> fr k nc nc' ->
  map fst (filter (fun kc => match snd kc with
                            | Some c => mem_N c acc && negb (mem_N (fst kc) acc)
                            | None => false end) nc) =
  map fst (filter (fun kc : N * option N => match snd kc with
                            | Some c => mem_N c acc && negb (mem_N (fst kc) acc)
                            | None => false end) nc').
Proof.
  intros Hk Hfr. induction Hfr as [|a a' l l' [Hf Hs] _ IH]; [reflexivity|].
  cbn [filter].
  assert (Hc : (match snd a with Some c => mem_N c acc && negb (mem_N (fst a) acc) | None => false end) =
               (match snd a' with Some c => mem_N c acc && negb (mem_N (fst a') acc) | None => false end)).
  { destruct (N.eq_dec (fst a) k) as [E|E].
    - assert (Hm : mem_N k acc = true) by (apply mem_N_In; exact Hk).
      rewrite <- Hf, E, Hm. cbn [negb]. destruct (snd a), (snd a'); rewrite ?andb_false_r; reflexivity.
    - rewrite <- (Hs E), <- Hf. reflexivity. }
  rewrite <- Hc. destruct (match snd a with Some c => _ | None => false end); cbn [map]; rewrite ?Hf, IH; reflexivity.
Qed.

Lemma below_fuel_fr k n : forall nc nc' acc, In k acc -> fr k nc nc' ->
  below_fuel n nc acc = below_fuel n nc' acc.
Proof.
  induction n as [|n IH]; intros nc nc' acc Hk Hfr; [reflexivity|].
  cbn [below_fuel]. rewrite (more_fr k acc nc nc' Hk Hfr).
  destruct (map fst (filter _ nc')) eqn:E; [reflexivity|].
  apply IH; [apply in_or_app; left; exact Hk | exact Hfr].
Qed.

Lemma node_creators_fr k phi phif g g' : drel_ex k phi phif g g' -> fr k (node_creators g) (node_creators g').
Proof.
  intros [F [H [O R]]]. unfold fr, node_creators.
  rewrite (dr_steps R), (dr_files R), (dr_others R), !map_map.
  apply Forall2_app; [|apply Forall2_app]; apply Forall2_map_same; intros x; cbn [fst snd].
  - split; [symmetry; apply (dr_key R) | intros Hx; symmetry; apply (dr_cr R); exact Hx].
  - split; [symmetry; apply (dr_fkey R) | intros Hx; symmetry; apply (dr_fcr R); exact Hx].
  - split; [symmetry; apply (dr_okey R) | intros _; symmetry; apply (dr_ocr R)].
Qed.

Lemma Forall2_len {A B} (R : A -> B -> Prop) l l' : Forall2 R l l' -> length l = length l'.
Proof. induction 1; cbn; congruence. Qed.

Lemma below_drel k phi phif g g' : drel_ex k phi phif g g' -> below g' k = below g k.
Proof.
  intros R. pose proof (node_creators_fr k phi phif g g' R) as Hfr. unfold below.
  rewrite <- (Forall2_len _ _ _ Hfr).
  rewrite (below_fuel_fr k _ (node_creators g) (node_creators g') [k]); [reflexivity | left; reflexivity | exact Hfr].
Qed.

Lemma find_step_drel k phi phif g g' F H O x : drel k phi phif g g' F H O ->
  find_step g' x = option_map F (find_step g x).
Proof. intros R. unfold find_step. rewrite (dr_steps R). apply find_map_key. apply (dr_key R). Qed.

Lemma step_subtree_drel k phi phif g g' : drel_ex k phi phif g g' -> step_subtree g' k = step_subtree g k.
Proof.
  intros R. unfold step_subtree. rewrite (below_drel k phi phif g g' R). f_equal.
  destruct R as [F [H [O R]]]. apply filter_ext. intros x.
  rewrite (find_step_drel k phi phif g g' F H O x R). destruct (find_step g x); reflexivity.
Qed.

(* ---- the general step: the nodes of S become detached (or attached) ---- *)

Section SubtreeFlip.
  Variables (g g' : graph) (k : N) (S : list N) (b : bool).
  Variables (F : step -> step) (H : file -> file) (O : onode -> onode).
  Let phi := fun (x : N) (d : bool) => if mem_N x S then b else d.
  Hypothesis R : drel k phi phi g g' F H O.
  Hypothesis Hwf : WF g.

  (* a file of S is produced only by steps of S (outputs are created by their producer) *)
  Hypothesis Hout : forall d f, In d (g_deps g) -> find_file g (d_snk d) = Some f ->
    mem_N (f_key f) S = true -> mem_N (d_src d) S = true \/ f_detached f = b.

  Lemma sf_find_file x : find_file g' x = option_map H (find_file g x).
  Proof. unfold find_file. rewrite (dr_files R). apply find_file_mapf. apply (dr_fkey R). Qed.

  Lemma sf_outputs x : outputs g' x = map H (outputs g x).
  Proof.
    unfold outputs. rewrite (dr_deps R).
    assert (Hl : forall l,
      flat_map (fun d => if d_src d =? x then match find_file g' (d_snk d) with Some f => [f] | None => [] end else []) l =
      map H (flat_map (fun d => if d_src d =? x then match find_file g (d_snk d) with Some f => [f] | None => [] end else []) l)).
    { induction l as [|d l IH]; [reflexivity|]. cbn [flat_map]. rewrite map_app, IH. f_equal.
      destruct (d_src d =? x); [|reflexivity]. rewrite sf_find_file.
      destruct (find_file g (d_snk d)); reflexivity. }
    apply Hl.
  Qed.

  Lemma sf_local_k x : mem_N x S = false -> local_k g' x = local_k g x.
  Proof.
    intros Hx. unfold local_k. rewrite (find_step_drel k phi phi g g' F H O x R).
    destruct (find_step g x) as [s|] eqn:Ef; [|reflexivity]. cbn [option_map].
    apply find_step_some in Ef. destruct Ef as [_ Ek].
    unfold local_need, elev. rewrite (dr_key R), (dr_need R), Ek, sf_outputs.
    assert (Hreg : forall f, In f (outputs g x) -> regular_output (H f) = regular_output f /\ f_label (H f) = f_label f).
    { intros f Hf. split; [|apply (dr_flabel R)]. rewrite !regular_output_meaning, (dr_fstate R), (dr_fdet R).
      unfold phi. destruct (mem_N (f_key f) S) eqn:Em; [|reflexivity].
      unfold outputs in Hf. apply in_flat_map in Hf. destruct Hf as [d [Hd Hf]].
      destruct (d_src d =? x) eqn:Es; [|destruct Hf]. apply N.eqb_eq in Es.
      destruct (find_file g (d_snk d)) as [f0|] eqn:Eff; [|destruct Hf]. destruct Hf as [<-|[]].
      destruct (Hout d f0 Hd Eff Em) as [Ho|Ho]; [|rewrite Ho; reflexivity].
      exfalso. rewrite Es in Ho. rewrite Ho in Hx. discriminate. }
    assert (He : forall (p q : file -> bool) l, (forall f, In f l -> p (H f) = q f) -> existsb p (map H l) = existsb q l).
    { intros p q l. induction l as [|a l IH]; intros Hl; [reflexivity|]. cbn [map existsb].
      rewrite (Hl a (or_introl eq_refl)), IH; [reflexivity | intros; apply Hl; right; assumption]. }
    rewrite (He (fun f => regular_output f && is_target g' f) (fun f => regular_output f && is_target g f)).
    - rewrite (He (fun f => regular_output f && in_tdir g' f) (fun f => regular_output f && in_tdir g f)); [reflexivity|].
      intros f Hf. destruct (Hreg f Hf) as [-> Hl]. unfold in_tdir. rewrite Hl, (dr_tdirs R). reflexivity.
    - intros f Hf. destruct (Hreg f Hf) as [-> Hl]. unfold is_target. rewrite Hl, (dr_targets R). reflexivity.
  Qed.

  Lemma sf_vals_of x : vals_of g' x = vals_of g x.
  Proof.
    unfold vals_of. rewrite (find_step_drel k phi phi g g' F H O x R).
    destruct (find_step g x); [|reflexivity]. cbn [option_map]. rewrite (dr_ineed R), (dr_tail R). reflexivity.
  Qed.

  (* consumers in g' : those of g whose attachment after the flip is "attached" *)
  Lemma sf_cons_spec x y : In y (cons_keys g' x) <->
    exists d1 d2 sy, In d1 (g_deps g) /\ In d2 (g_deps g) /\ d_src d1 = x /\ d_src d2 = d_snk d1 /\
                     find_step g (d_snk d2) = Some sy /\ phi (s_key sy) (s_detached sy) = false /\ y = s_key sy.
  Proof.
    rewrite cons_keys_spec, (dr_deps R). split.
    - intros [d1 [d2 [sy' [H1 [H2 [E1 [E2 [Ef [Ed ->]]]]]]]]].
      rewrite (find_step_drel k phi phi g g' F H O _ R) in Ef.
      destruct (find_step g (d_snk d2)) as [sy|] eqn:E; [|discriminate]. cbn in Ef. injection Ef as <-.
      exists d1, d2, sy. rewrite (dr_sdet R) in Ed. rewrite (dr_key R). repeat split; assumption.
    - intros [d1 [d2 [sy [H1 [H2 [E1 [E2 [Ef [Ed ->]]]]]]]]].
      exists d1, d2, (F sy). rewrite (find_step_drel k phi phi g g' F H O _ R), Ef, (dr_sdet R), (dr_key R).
      repeat split; assumption.
  Qed.

  Lemma sf_seed0 y : In y (seed0 g) -> mem_N y S = false -> In y (seed0 g').
  Proof.
    unfold seed0. rewrite (dr_steps R). intros Hy Hm.
    apply in_map_iff in Hy. destruct Hy as [s [<- Hs]]. apply filter_In in Hs. destruct Hs as [Hin Hc].
    apply andb_true_iff in Hc. destruct Hc as [Hd Hc]. rewrite <- (dr_key R s).
    apply in_map. apply filter_In. split; [apply in_map; exact Hin|].
    rewrite (dr_sdet R), (dr_ca R s Hc). unfold phi. rewrite Hm, Hd. reflexivity.
  Qed.

  (* the nodes of S become detached: producers of consumers in S must have been flagged *)
  Theorem detach_like_need_sound :
    b = true ->
    (forall p y, In p (g_steps g) -> s_detached p = false -> mem_N (s_key p) S = false ->
       In y (cons_keys g (s_key p)) -> mem_N y S = true ->
       forall r', In r' (g_steps g') -> s_key r' = s_key p -> s_chk_after r' = true) ->
    FlagInv_need g -> FlagInv_need g'.
  Proof.
    intros Hb Hsrc' HF s' Hin' Hd Hc Hy.
    assert (Hsrc : forall p y, In p (g_steps g) -> s_detached p = false -> mem_N (s_key p) S = false ->
       In y (cons_keys g (s_key p)) -> mem_N y S = true -> s_chk_after (F p) = true).
    { intros p y Hp Hdp Hmp Hyp Hmy. apply (Hsrc' p y Hp Hdp Hmp Hyp Hmy).
      - rewrite (dr_steps R). apply in_map. exact Hp.
      - apply (dr_key R). } rewrite (dr_steps R) in Hin'.
    apply in_map_iff in Hin'. destruct Hin' as [s [<- Hin]].
    rewrite (dr_sdet R) in Hd. unfold phi in Hd. rewrite Hb in Hd.
    destruct (mem_N (s_key s) S) eqn:Em; [discriminate|].
    rewrite (dr_key R) in *. rewrite (dr_ineed R).
    assert (Hs0 : s_chk_after s = false).
    { destruct (s_chk_after s) eqn:E; [|reflexivity]. rewrite (dr_ca R s E) in Hc. discriminate. }
    assert (Hset : forall y, In y (cons_keys g' (s_key s)) <-> In y (cons_keys g (s_key s))).
    { intros y. rewrite sf_cons_spec, cons_keys_spec. split.
      - intros [d1 [d2 [sy [H1 [H2 [E1 [E2 [Ef [Ed ->]]]]]]]]]. exists d1, d2, sy.
        unfold phi in Ed. rewrite Hb in Ed. destruct (mem_N (s_key sy) S); [discriminate|]. repeat split; assumption.
      - intros [d1 [d2 [sy [H1 [H2 [E1 [E2 [Ef [Ed ->]]]]]]]]]. exists d1, d2, sy.
        repeat split; try assumption. unfold phi. destruct (mem_N (s_key sy) S) eqn:Ems; [|exact Ed].
        exfalso. rewrite (Hsrc s (s_key sy) Hin Hd Em) in Hc; [discriminate| |exact Ems].
        apply cons_keys_spec. exists d1, d2, sy. repeat split; assumption. }
    assert (Hmem : forall y, In y (cons_keys g (s_key s)) -> mem_N y S = false).
    { intros y Hyc. apply Hset in Hyc. apply sf_cons_spec in Hyc.
      destruct Hyc as [d1 [d2 [sy [_ [_ [_ [_ [_ [Ed ->]]]]]]]]]. unfold phi in Ed. rewrite Hb in Ed.
      destruct (mem_N (s_key sy) S); [discriminate | reflexivity]. }
    rewrite (HF s Hin Hd Hs0).
    - unfold new_val. cbn [fst]. rewrite (sf_local_k _ Em). f_equal.
      rewrite (maxl_set_ext _ (fun y => fst (vals_of g' y)) _ _ Hset).
      f_equal. apply map_ext. intros y. rewrite sf_vals_of. reflexivity.
    - intros y Hyc Hys. apply (Hy y); [apply Hset; exact Hyc | apply sf_seed0; [exact Hys | apply Hmem; exact Hyc]].
  Qed.

  (* the nodes of S become attached: the steps of S must be flagged *)
  Theorem attach_like_need_sound :
    b = false ->
    (forall r', In r' (g_steps g') -> mem_N (s_key r') S = true -> s_chk_after r' = true) ->
    FlagInv_need g -> FlagInv_need g'.
  Proof.
    intros Hb Hfl' HF s' Hin' Hd Hc Hy.
    assert (Hfl : forall s, In s (g_steps g) -> mem_N (s_key s) S = true -> s_chk_after (F s) = true).
    { intros s Hs Hm. apply Hfl'; [rewrite (dr_steps R); apply in_map; exact Hs | rewrite (dr_key R); exact Hm]. } rewrite (dr_steps R) in Hin'.
    apply in_map_iff in Hin'. destruct Hin' as [s [<- Hin]].
    destruct (mem_N (s_key s) S) eqn:Em; [rewrite (Hfl s Hin Em) in Hc; discriminate|].
    rewrite (dr_sdet R) in Hd. unfold phi in Hd. rewrite Em in Hd.
    rewrite (dr_key R) in *. rewrite (dr_ineed R).
    assert (Hs0 : s_chk_after s = false).
    { destruct (s_chk_after s) eqn:E; [|reflexivity]. rewrite (dr_ca R s E) in Hc. discriminate. }
    (* a consumer inside S would be attached and flagged in g' *)
    assert (Hmem : forall y, In y (cons_keys g' (s_key s)) -> mem_N y S = false).
    { intros y Hyc. destruct (mem_N y S) eqn:Ey; [|reflexivity]. exfalso. apply (Hy y Hyc).
      pose proof Hyc as Hyc'. apply sf_cons_spec in Hyc'.
      destruct Hyc' as [d1 [d2 [sy [_ [_ [_ [_ [Ef [Ed ->]]]]]]]]].
      apply find_step_some in Ef. destruct Ef as [Hsy _].
      unfold seed0. rewrite (dr_steps R). rewrite <- (dr_key R sy). apply in_map. apply filter_In.
      split; [apply in_map; exact Hsy|]. rewrite (dr_sdet R), Ed, (Hfl sy Hsy Ey). reflexivity. }
    assert (Hset : forall y, In y (cons_keys g' (s_key s)) <-> In y (cons_keys g (s_key s))).
    { intros y. split.
      - intros Hyc. pose proof (Hmem y Hyc) as Hm. apply sf_cons_spec in Hyc. apply cons_keys_spec.
        destruct Hyc as [d1 [d2 [sy [H1 [H2 [E1 [E2 [Ef [Ed ->]]]]]]]]]. exists d1, d2, sy.
        unfold phi in Ed. rewrite Hm in Ed. repeat split; assumption.
      - intros Hyc. apply sf_cons_spec. apply cons_keys_spec in Hyc.
        destruct Hyc as [d1 [d2 [sy [H1 [H2 [E1 [E2 [Ef [Ed ->]]]]]]]]]. exists d1, d2, sy.
        repeat split; try assumption. unfold phi. rewrite Hb. destruct (mem_N (s_key sy) S); [reflexivity | exact Ed]. }
    rewrite (HF s Hin Hd Hs0).
    - unfold new_val. cbn [fst]. rewrite (sf_local_k _ Em). f_equal.
      rewrite (maxl_set_ext _ (fun y => fst (vals_of g' y)) _ _ Hset).
      f_equal. apply map_ext. intros y. rewrite sf_vals_of. reflexivity.
    - intros y Hyc Hys. apply (Hy y); [apply Hset; exact Hyc|].
      apply sf_seed0; [exact Hys | apply Hmem; apply Hset; exact Hyc].
  Qed.
End SubtreeFlip.

Lemma flag_keys_rows c ks g r : In r (g_steps (flag_keys c ks g)) -> mem_N (s_key r) ks = true ->
  has_flag c r = true.
Proof.
  rewrite flag_keys_mapg. unfold mapg. cbn [g_steps with_steps]. intros Hin Hm.
  apply in_map_iff in Hin. destruct Hin as [r0 [<- _]].
  assert (Hk : s_key (flagF c ks r0) = s_key r0) by apply (k_key _ (of_keeps _ (flagF_only_flags c ks))).
  rewrite Hk in Hm. unfold flagF. rewrite Hm. destruct c; reflexivity.
Qed.

Lemma flag_keys_rows_mono c c' ks g r : In r (g_steps (flag_keys c ks g)) ->
  exists r0, In r0 (g_steps g) /\ s_key r = s_key r0 /\ (has_flag c' r0 = true -> has_flag c' r = true).
Proof.
  rewrite flag_keys_mapg. unfold mapg. cbn [g_steps with_steps]. intros Hin.
  apply in_map_iff in Hin. destruct Hin as [r0 [<- Hin]]. exists r0. split; [exact Hin|].
  split; [apply (k_key _ (of_keeps _ (flagF_only_flags c ks)))|].
  apply has_flag_mono. apply flagF_only_flags.
Qed.

Lemma mem_cons x k l : mem_N x (k :: l) = (x =? k) || mem_N x l.
Proof. reflexivity. Qed.

Lemma mem_single x k : mem_N x [k] = (x =? k).
Proof. unfold mem_N. cbn [existsb]. apply orb_false_r. Qed.

Lemma find_step_exists g x : (exists r, In r (g_steps g) /\ s_key r = x) -> find_step g x <> None.
Proof.
  intros [r [Hin Hk]] E. unfold find_step in E. eapply find_none in E; [|exact Hin].
  cbn in E. rewrite Hk, N.eqb_refl in E. discriminate.
Qed.

Lemma in_step_subtree g k x : (exists r, In r (g_steps g) /\ s_key r = x) -> mem_N x (k :: below g k) = true ->
  In x (step_subtree g k).
Proof.
  intros Hex Hm. unfold step_subtree. apply mem_N_In in Hm. destruct Hm as [<-|Hm]; [left; reflexivity|].
  right. apply filter_In. split; [exact Hm|]. pose proof (find_step_exists g x Hex).
  destruct (find_step g x); [reflexivity | contradiction].
Qed.

(* the three stages of Step.reattach up to the flags *)
Lemma reattach_drel g k c cdet :
  drel_ex k (fun x d => if mem_N x (k :: below g k) then cdet else d)
            (fun x d => if mem_N x (k :: below g k) then cdet else d) g (reattach_step g k c cdet).
Proof.
  unfold reattach_step.
  set (g0 := set_detached_nodes g [k] cdet).
  set (g1 := with_steps g0 (map (fun s => if s_key s =? k then set_place s cdet (Some c) else s) (g_steps g0))).
  assert (R1 : drel_ex k (fun x d => if x =? k then cdet else if mem_N x [k] then cdet else d)
                         (fun x d => if mem_N x [k] then cdet else d) g g1).
  { eapply drel_phi_ext; [| |eapply drel_trans; [apply drel_set_detached | apply drel_set_place]]; reflexivity. }
  assert (Hb : below g1 k = below g k) by (eapply below_drel; exact R1).
  rewrite Hb.
  eapply drel_phi_ext; [| |eapply drel_trans; [eapply drel_trans; [exact R1 | apply drel_set_detached] | apply drel_flag_with_products]].
  - intros x d. cbv beta. rewrite (mem_cons x k (below g k)), ?mem_single.
    destruct (x =? k), (mem_N x (below g k)); reflexivity.
  - intros x d. cbv beta. rewrite (mem_cons x k (below g k)), ?mem_single.
    destruct (x =? k), (mem_N x (below g k)); reflexivity.
Qed.

Theorem reattach_step_need_sound g k c cdet :
  WF g ->
  (forall d f, In d (g_deps g) -> find_file g (d_snk d) = Some f ->
     mem_N (f_key f) (k :: below g k) = true -> mem_N (d_src d) (k :: below g k) = true) ->
  (cdet = true -> forall s, In s (g_steps g) -> mem_N (s_key s) (k :: below g k) = true -> s_detached s = true) ->
  FlagInv_need g -> FlagInv_need (reattach_step g k c cdet).
Proof.
  intros Hwf Hout Hdet HF. destruct (reattach_drel g k c cdet) as [F [H [O R]]].
  destruct cdet.
  - apply (detach_like_need_sound g _ k (k :: below g k) true F H O R (fun d f a b c => or_introl (Hout d f a b c)) eq_refl); [|exact HF].
    intros p y Hp Hdp Hmp Hyc Hmy. exfalso.
    apply cons_keys_spec in Hyc. destruct Hyc as [d1 [d2 [sy [_ [_ [_ [_ [Ef [Ed ->]]]]]]]]].
    apply find_step_some in Ef. destruct Ef as [Hsy _].
    rewrite (Hdet eq_refl sy Hsy Hmy) in Ed. discriminate.
  - apply (attach_like_need_sound g _ k (k :: below g k) false F H O R (fun d f a b c => or_introl (Hout d f a b c)) eq_refl); [|exact HF].
    intros r' Hr' Hm.
    assert (Hex : exists r, In r (g_steps g) /\ s_key r = s_key r').
    { pose proof Hr' as Hr''. rewrite (dr_steps R) in Hr''. apply in_map_iff in Hr''.
      destruct Hr'' as [r0 [<- Hr0]]. exists r0. split; [exact Hr0 | symmetry; apply (dr_key R)]. }
    (* the rows of S are flagged by flag_with_products on the last stage *)
    unfold reattach_step in Hr' |- *.
    set (g0 := set_detached_nodes g [k] false) in *.
    set (g1 := with_steps g0 (map (fun s => if s_key s =? k then set_place s false (Some c) else s) (g_steps g0))) in *.
    set (g2 := set_detached_nodes g1 (below g1 k) false) in *.
    assert (R2 : drel_ex k (fun x d => if mem_N x (below g1 k) then false else if x =? k then false else if mem_N x [k] then false else d)
                           (fun x d => if mem_N x (below g1 k) then false else if mem_N x [k] then false else d) g g2).
    { eapply drel_phi_ext; [| |eapply drel_trans; [eapply drel_trans; [apply drel_set_detached | apply drel_set_place] | apply drel_set_detached]]; reflexivity. }
    unfold flag_with_products in Hr'.
    apply (flag_keys_rows FAfter (step_subtree g2 k) _ r' Hr').
    apply mem_N_In. rewrite (step_subtree_drel k _ _ g g2 R2).
    apply in_step_subtree; [exact Hex | exact Hm].
Qed.

(* Step.detach: which nodes become detached *)
Definition detach_set (g : graph) (k : N) : list N :=
  match find_step g k with
  | None => []
  | Some s0 => match s_creator s0 with
               | None => []
               | Some _ => if s_detached s0 then [k] else k :: below g k
               end
  end.

Lemma detach_stage_drel g k s0 :
  find_step g k = Some s0 ->
  let g2 := match s_creator s0 with
            | None => g
            | Some _ =>
                let sub := below g k in
                let g1 := set_detached_nodes g [k] true in
                let g1' := with_steps g1 (map (fun s => if s_key s =? k then set_place s true None else s) (g_steps g1)) in
                if s_detached s0 then g1' else set_detached_nodes g1' sub true
            end in
  drel_ex k (fun x d => if mem_N x (detach_set g k) then true else d)
            (fun x d => if mem_N x (detach_set g k) then true else d) g g2.
Proof.
  intros E0. unfold detach_set. rewrite E0. cbv zeta.
  destruct (s_creator s0).
  - assert (R1 : drel_ex k (fun x d => if x =? k then true else if mem_N x [k] then true else d)
                           (fun x d => if mem_N x [k] then true else d) g
                   (with_steps (set_detached_nodes g [k] true)
                      (map (fun s => if s_key s =? k then set_place s true None else s)
                           (g_steps (set_detached_nodes g [k] true))))).
    { eapply drel_phi_ext; [| |eapply drel_trans; [apply drel_set_detached | apply drel_set_place]]; reflexivity. }
    destruct (s_detached s0).
    + eapply drel_phi_ext; [| |exact R1]; intros x d; cbv beta; rewrite ?mem_single; destruct (x =? k); reflexivity.
    + eapply drel_phi_ext; [| |eapply drel_trans; [exact R1 | apply drel_set_detached]];
        intros x d; cbv beta; rewrite (mem_cons x k (below g k)), ?mem_single;
        destruct (x =? k), (mem_N x (below g k)); reflexivity.
  - eapply drel_phi_ext; [| |apply drel_refl]; reflexivity.
Qed.

(* for ANY sources query whose WHERE conjuncts are all total (hold of every attached producer step) *)
Theorem detach_step_with_need_sound w g k :
  forallb cas_atom_total w = true ->
  WF g ->
  (forall f, In f (g_files g) -> f_key f <> k) ->
  (forall d f, In d (g_deps g) -> find_file g (d_snk d) = Some f ->
     mem_N (f_key f) (k :: below g k) = true -> mem_N (d_src d) (k :: below g k) = true) ->
  FlagInv_need g -> FlagInv_need (detach_step_with w g k).
Proof.
  intros Hw Hwf Hnofile Hout HF. unfold detach_step_with.
  destruct (find_step g k) as [s0|] eqn:E0; [|exact HF].
  pose proof (detach_stage_drel g k s0 E0) as R2. cbv zeta in R2.
  set (g2 := match s_creator s0 with Some _ => _ | None => g end) in *.
  set (gX := flag_with_products g2 k).
  assert (RX : drel_ex k (fun x d => if mem_N x (detach_set g k) then true else d)
                         (fun x d => if mem_N x (detach_set g k) then true else d) g gX).
  { eapply drel_phi_ext; [| |eapply drel_trans; [exact R2 | apply drel_flag_with_products]]; reflexivity. }
  assert (RF : drel_ex k (fun x d => if mem_N x (detach_set g k) then true else d)
                         (fun x d => if mem_N x (detach_set g k) then true else d) g (flag_after_sources_with w gX k)).
  { unfold flag_after_sources_with.
    eapply drel_phi_ext; [| |eapply drel_trans; [exact RX | apply drel_flag_keys]]; reflexivity. }
  destruct RF as [F [H [O R]]].
  assert (Hsub : forall x, mem_N x (detach_set g k) = true -> mem_N x (k :: below g k) = true).
  { intros x. unfold detach_set. rewrite E0. destruct (s_creator s0); [|discriminate].
    destruct (s_detached s0); [|auto]. rewrite mem_single, mem_cons. intros ->. reflexivity. }
  apply (detach_like_need_sound g _ k (detach_set g k) true F H O R); [| reflexivity | | exact HF].
  - (* outputs *)
    intros d f Hd Hf Hm. left. pose proof (Hsub _ Hm) as Hm'.
    revert Hm. unfold detach_set. rewrite E0. destruct (s_creator s0); [|discriminate].
    destruct (s_detached s0); [|intros _; apply (Hout d f Hd Hf Hm')].
    intros Hm. exfalso. rewrite mem_single in Hm. apply N.eqb_eq in Hm.
    unfold find_file in Hf. apply find_some in Hf. apply (Hnofile f); tauto.
  - (* producers of consumers that become detached are flagged by RECURSIVE_CHECK_AFTER_SOURCES *)
    intros p y Hp Hdp Hmp Hyc Hmy r' Hr' Hkr.
    pose proof Hyc as Hyc'. apply cons_keys_spec in Hyc'.
    destruct Hyc' as [d1 [d2 [sy [Hd1 [Hd2 [E1 [E2 [Ef [Ed Ey]]]]]]]]].
    pose proof (find_step_some g _ _ Ef) as [Hsy Eky].
    (* y is a step of the subtree that was attached: only possible in the third case *)
    assert (Hcase : detach_set g k = k :: below g k).
    { revert Hmy. unfold detach_set. rewrite E0. destruct (s_creator s0); [|discriminate].
      destruct (s_detached s0) eqn:Ed0; [|reflexivity]. intros Hmy. exfalso.
      rewrite mem_single in Hmy. apply N.eqb_eq in Hmy.
      assert (Es : sy = s0) by (rewrite <- Eky, <- Ey, Hmy in Ef; congruence).
      congruence. }
    unfold flag_after_sources_with in Hr'.
    apply (flag_keys_rows FAfter _ gX r' Hr').
    apply mem_N_In. unfold cas_sources. apply in_flat_map. exists y. split.
    + destruct RX as [FX [HX [OX RX]]].
      rewrite (step_subtree_drel k _ _ g gX (ex_intro _ FX (ex_intro _ HX (ex_intro _ OX RX)))).
      apply in_step_subtree; [exists sy; split; [exact Hsy | congruence] | rewrite <- Hcase; exact Hmy].
    + destruct RX as [FX [HX [OX RX]]].
      assert (Efp : find_step gX (s_key p) = option_map FX (find_step g (s_key p))).
      { apply (find_step_drel k _ _ g gX FX HX OX _ RX). }
      apply in_flat_map. exists (d_src d2). split.
      * unfold producers_of_node. rewrite (dr_deps RX).
        apply in_map_iff. exists d2. split; [reflexivity|]. apply filter_In. split; [exact Hd2|].
        apply N.eqb_eq. congruence.
      * apply filter_In. split.
        -- unfold producers_of_node. rewrite (dr_deps RX).
           apply in_map_iff. exists d1. split; [congruence|]. apply filter_In. split; [exact Hd1|].
           apply N.eqb_eq. congruence.
        -- apply forallb_forall. intros a Ha.
           pose proof (proj1 (forallb_forall _ _) Hw a Ha) as Ht.
           rewrite Hkr.
           destruct a; cbn [cas_atom_total] in Ht; try discriminate Ht; cbn [cas_atom_holds].
           ++ rewrite Efp, (find_step_in g p Hwf Hp). reflexivity.
           ++ unfold node_detached. rewrite Efp, (find_step_in g p Hwf Hp). cbn [option_map].
              rewrite (dr_sdet RX), Hmp, Hdp. reflexivity.
Qed.

Theorem detach_step_need_sound g k :
  forallb cas_atom_total cas_where = true ->
  WF g ->
  (forall f, In f (g_files g) -> f_key f <> k) ->
  (forall d f, In d (g_deps g) -> find_file g (d_snk d) = Some f ->
     mem_N (f_key f) (k :: below g k) = true -> mem_N (d_src d) (k :: below g k) = true) ->
  FlagInv_need g -> FlagInv_need (detach_step g k).
Proof. apply detach_step_with_need_sound. Qed.

Theorem detach_step_safe_sound g k : FlagInv_safe g -> FlagInv_safe (detach_step g k).
Proof. apply detach_step_with_safe_sound. Qed.
Theorem detach_step_ready_sound g k :
  In (FReady, TConsumersOfSelf) trg_node_detached -> FlagInv_ready g -> FlagInv_ready (detach_step g k).
Proof. apply detach_step_with_ready_sound. Qed.

(* Step.detach with ANY sources query (RECURSIVE_CHECK_AFTER_SOURCES) whose WHERE conjuncts are total *)
Theorem detach_step_with_sound w g k :
  forallb cas_atom_total w = true ->
  WF g ->
  (forall f, In f (g_files g) -> f_key f <> k) ->
  (forall d f, In d (g_deps g) -> find_file g (d_snk d) = Some f ->
     mem_N (f_key f) (k :: below g k) = true -> mem_N (d_src d) (k :: below g k) = true) ->
  FlagInv g -> FlagInv (detach_step_with w g k).
Proof.
  intros Hw Hwf Hnf Hout [HFs [HFn HFr]]. split; [|split].
  - apply detach_step_with_safe_sound. exact HFs.
  - apply detach_step_with_need_sound; assumption.
  - apply detach_step_with_ready_sound; [apply has_stmt_In; vm_compute; reflexivity | exact HFr].
Qed.

(* with the repository's node-detached trigger and the repository's sources query (generated cas_where) *)
Theorem detach_step_sound_repo g k :
  WF g ->
  (forall f, In f (g_files g) -> f_key f <> k) ->
  (forall d f, In d (g_deps g) -> find_file g (d_snk d) = Some f ->
     mem_N (f_key f) (k :: below g k) = true -> mem_N (d_src d) (k :: below g k) = true) ->
  FlagInv g -> FlagInv (detach_step g k).
Proof. apply detach_step_with_sound. vm_compute. reflexivity. Qed.

(* A sources query that leaves a producer alone while another attached node still consumes the file
   (conjunct CasNoOtherAttachedConsumer; "that file keeps its source step needed") is NOT sound:
   plan (1) -> q (4) -> C (3, DEFAULT); plan -> P (2, OPTIONAL, PENDING) -> f (10) -> C and -> O (5, OPTIONAL,
   unneeded).  P._implied_need = DEFAULT through C.  Detaching C leaves P unflagged because O still consumes
   f; after the metadata updates P keeps DEFAULT and is in the dispatch set although nothing needs it. *)
Definition cas_skip_shared : list cas_atom := [CasSrcIsStep; CasSrcAttached; CasNoOtherAttachedConsumer].
Definition g_cas : graph :=
  mkGraph [wstep 1 22 34 None true 34 false false false;
           wstep 2 21 31 (Some 1) true 32 false false false;
           set_ready (wstep 3 21 32 (Some 4) true 32 false false false) false false;
           wstep 4 22 34 (Some 1) true 34 false false false;
           set_ready (wstep 5 21 31 (Some 1) true 31 false false false) false false]
          [mkFile 10 [102] 15 false (Some 2) false] [mkOnode 0 false None]
          [mkDep 2 10 false; mkDep 10 3 false; mkDep 10 5 false] [] [] [] 31.

Theorem detach_skip_shared_refuted :
  exists g k, WF g /\ Acyclic g /\ AllCorrect g /\ HasHashInv g /\ prim_ok_b g (PDetach k) = true /\
    ~ FlagInv_need (detach_step_with cas_skip_shared g k) /\
    exists g', update_meta (detach_step_with cas_skip_shared g k) = Some g' /\
      ~ AllCorrect g' /\ exists s, In s (dispatch_set g') /\ eligible_spec g' s = false.
Proof.
  exists g_cas, 3.
  split; [apply wf_refl; vm_compute; reflexivity|].
  split; [split; [exists (fun k => if k =? 1 then 0%nat else if k =? 3 then 2%nat else 1%nat); apply creator_rank_refl
                 | exists (fun k => if k =? 2 then 1%nat else 0%nat); apply need_rank_refl]; vm_compute; reflexivity|].
  split; [apply allcorrect_refl; vm_compute; reflexivity|].
  split; [apply has_hash_inv_refl; vm_compute; reflexivity|].
  split; [vm_compute; reflexivity|].
  split.
  - intros H. apply flaginv_need_refl in H. vm_compute in H. discriminate.
  - exists (the (update_meta (detach_step_with cas_skip_shared g_cas 3)) g_cas).
    split; [vm_compute; reflexivity|].
    split.
    + intros H. apply allcorrect_refl in H. vm_compute in H; discriminate.
    + apply starts_ineligible_refl. vm_compute; reflexivity.
Qed.

Theorem reattach_step_sound_repo g k c cdet :
  WF g ->
  (forall d f, In d (g_deps g) -> find_file g (d_snk d) = Some f ->
     mem_N (f_key f) (k :: below g k) = true -> mem_N (d_src d) (k :: below g k) = true) ->
  (cdet = true -> forall s, In s (g_steps g) -> mem_N (s_key s) (k :: below g k) = true -> s_detached s = true) ->
  FlagInv g -> FlagInv (reattach_step g k c cdet).
Proof.
  intros Hwf Hout Hdet [HFs [HFn HFr]]. split; [|split].
  - apply reattach_step_safe_sound. exact HFs.
  - apply reattach_step_need_sound; assumption.
  - apply reattach_step_ready_sound; [apply has_stmt_In; vm_compute; reflexivity | exact HFr].
Qed.

(* ------------------------------------------------------------------------------------------ *)
(* File.detach                                                                                *)
(* ------------------------------------------------------------------------------------------ *)

Definition fplaceF (k : N) (f : file) : file := if f_key f =? k then set_fplace f true None else f.

Lemma drel_set_fplace k g :
  drel_ex k (fun _ d => d) (fun x d => if x =? k then true else d) g
    (with_files g (map (fplaceF k) (g_files g))).
Proof.
  exists (fun s => s), (fplaceF k), (fun o => o).
  constructor; try reflexivity; try (symmetry; apply map_id); auto;
    try (intros f; unfold fplaceF; destruct (f_key f =? k) eqn:E; auto; fail).
  intros f Hf. unfold fplaceF. destruct (f_key f =? k) eqn:E; [apply N.eqb_eq in E; contradiction | reflexivity].
Qed.

Definition detach_file_set (g : graph) (k : N) : list N :=
  match find_file g k with
  | None => []
  | Some f0 => match f_creator f0 with
               | None => []
               | Some _ => if f_detached f0 then [k] else k :: below g k
               end
  end.

Lemma detach_file_drel g k :
  drel_ex k (fun x d => if mem_N x (detach_file_set g k) then true else d)
            (fun x d => if mem_N x (detach_file_set g k) then true else d) g (detach_file g k).
Proof.
  unfold detach_file, detach_file_set. destruct (find_file g k) as [f0|];
    [|eapply drel_phi_ext; [| |apply drel_refl]; reflexivity].
  destruct (f_creator f0); [|eapply drel_phi_ext; [| |apply drel_refl]; reflexivity].
  change (map (fun f => if f_key f =? k then set_fplace f true None else f)) with (map (fplaceF k)).
  assert (R1 : drel_ex k (fun x d => if mem_N x [k] then true else d)
                         (fun x d => if x =? k then true else if mem_N x [k] then true else d) g
                 (with_files (set_detached_nodes g [k] true)
                    (map (fplaceF k) (g_files (set_detached_nodes g [k] true))))).
  { eapply drel_phi_ext; [| |eapply drel_trans; [apply drel_set_detached | apply drel_set_fplace]]; reflexivity. }
  destruct (f_detached f0).
  - eapply drel_phi_ext; [| |exact R1]; intros x d; cbv beta; rewrite ?mem_single; destruct (x =? k); reflexivity.
  - eapply drel_phi_ext; [| |eapply drel_trans; [exact R1 | apply drel_set_detached]];
      intros x d; cbv beta; rewrite (mem_cons x k (below g k)), ?mem_single;
      destruct (x =? k), (mem_N x (below g k)); reflexivity.
Qed.

(* no step row lives in the set of nodes that File.detach touches *)
Definition no_step_in (g : graph) (S : list N) : Prop :=
  forall s, In s (g_steps g) -> mem_N (s_key s) S = false.

(* general form: no step row among the nodes that become detached; a file among them that still has
   a producer edge is detached already (its flag does not change) *)
Theorem detach_file_need_sound_gen g k :
  no_step_in g (detach_file_set g k) ->
  (forall d f, In d (g_deps g) -> find_file g (d_snk d) = Some f ->
     mem_N (f_key f) (detach_file_set g k) = true -> f_detached f = true) ->
  FlagInv_need g -> FlagInv_need (detach_file g k).
Proof.
  intros Hns Hout HF. destruct (detach_file_drel g k) as [F [H [O R]]].
  apply (detach_like_need_sound g _ k (detach_file_set g k) true F H O R); [| reflexivity | | exact HF].
  - intros d f Hd Hf Hm. right. apply (Hout d f Hd Hf Hm).
  - intros p y Hp _ _ Hyc Hmy. exfalso.
    apply cons_keys_spec in Hyc. destruct Hyc as [d1 [d2 [sy [_ [_ [_ [_ [Ef [_ ->]]]]]]]]].
    apply find_step_some in Ef. destruct Ef as [Hsy _].
    rewrite (Hns sy Hsy) in Hmy. discriminate.
Qed.

Lemma detach_file_set_sub g k x : mem_N x (detach_file_set g k) = true -> mem_N x (k :: below g k) = true.
Proof.
  unfold detach_file_set. destruct (find_file g k) as [f0|]; [|discriminate].
  destruct (f_creator f0); [|discriminate]. destruct (f_detached f0); [|auto].
  rewrite mem_single, mem_cons. intros ->. reflexivity.
Qed.

Theorem detach_file_need_sound g k :
  no_step_in g (k :: below g k) ->
  (forall d f, In d (g_deps g) -> find_file g (d_snk d) = Some f -> mem_N (f_key f) (k :: below g k) = false) ->
  FlagInv_need g -> FlagInv_need (detach_file g k).
Proof.
  intros Hns Hout. apply detach_file_need_sound_gen.
  - intros s Hs. destruct (mem_N (s_key s) (detach_file_set g k)) eqn:E; [|reflexivity].
    apply detach_file_set_sub in E. rewrite (Hns s Hs) in E. discriminate.
  - intros d f Hd Hf Hm. apply detach_file_set_sub in Hm. rewrite (Hout d f Hd Hf) in Hm. discriminate.
Qed.

Lemma place_rel_with_files k g l : place_rel k g (with_files g l).
Proof. exists (fun s => s). split; [symmetry; apply map_id | constructor; auto]. Qed.

Lemma detach_file_place_rel g k : place_rel k g (detach_file g k).
Proof.
  unfold detach_file. destruct (find_file g k) as [f0|]; [|apply place_rel_refl].
  destruct (f_creator f0); [|apply place_rel_refl].
  assert (R1 : place_rel k g (with_files (set_detached_nodes g [k] true)
             (map (fun f => if f_key f =? k then set_fplace f true None else f) (g_files (set_detached_nodes g [k] true)))))
    by (eapply place_rel_trans; [apply place_rel_set_detached | apply place_rel_with_files]).
  destruct (f_detached f0); [exact R1|]. eapply place_rel_trans; [exact R1 | apply place_rel_set_detached].
Qed.

(* steps keep their creators too when no step row has the id k *)
Theorem detach_file_safe_sound g k :
  (forall s, In s (g_steps g) -> s_key s <> k) -> FlagInv_safe g -> FlagInv_safe (detach_file g k).
Proof.
  intros Hns HF. destruct (detach_file_place_rel g k) as [F [E P]].
  apply (FlagInv_safe_steps_only (mapg F g)); [symmetry; exact E|].
  apply FlagInv_safe_mono; [|exact HF]. constructor; try apply P.
  intros s Hin _. unfold ok_h, ok_nh. rewrite (pm_state k F P), (pm_holding k F P), (pm_creator k F P s (Hns s Hin)).
  repeat split; reflexivity.
Qed.

Lemma ready_with_fplace g k :
  (forall f, In f (g_files g) -> f_key f = k -> f_detached f = true) ->
  FlagInv_ready g -> FlagInv_ready (with_files g (map (fplaceF k) (g_files g))).
Proof.
  intros Hdet HF s Hin Hc. change (In s (g_steps g)) in Hin. rewrite (HF s Hin Hc). symmetry.
  apply ready_spec_ext; [reflexivity|]. intros e _ _.
  unfold unavailable, find_file. cbn [g_files with_files].
  rewrite find_file_mapf by (intros f; unfold fplaceF; destruct (f_key f =? k); reflexivity).
  destruct (find (fun f => f_key f =? d_src e) (g_files g)) as [f|] eqn:Ef; [|reflexivity].
  cbn [option_map]. apply find_some in Ef. destruct Ef as [Hf _].
  unfold fplaceF. destruct (f_key f =? k) eqn:Ek; [|reflexivity]. apply N.eqb_eq in Ek.
  unfold ienv, set_fplace. cbn. rewrite (Hdet f Hf Ek). reflexivity.
Qed.

Theorem detach_file_ready_sound g k :
  In (FReady, TConsumersOfSelf) trg_node_detached -> FlagInv_ready g -> FlagInv_ready (detach_file g k).
Proof.
  intros Htrg HF. unfold detach_file. destruct (find_file g k) as [f0|]; [|exact HF].
  destruct (f_creator f0); [|exact HF].
  change (map (fun f => if f_key f =? k then set_fplace f true None else f)) with (map (fplaceF k)).
  assert (H1 : FlagInv_ready (with_files (set_detached_nodes g [k] true)
                 (map (fplaceF k) (g_files (set_detached_nodes g [k] true))))).
  { apply ready_with_fplace; [|apply set_detached_nodes_ready_sound; assumption].
    destruct (drel_set_detached k g [k] true) as [F [H [O R]]].
    intros f Hf Ek. rewrite (dr_files R) in Hf. apply in_map_iff in Hf. destruct Hf as [f1 [<- _]].
    rewrite (dr_fdet R). rewrite (dr_fkey R) in Ek. rewrite Ek, mem_single, N.eqb_refl. reflexivity. }
  destruct (f_detached f0); [exact H1|]. apply set_detached_nodes_ready_sound; assumption.
Qed.

Theorem detach_file_sound_repo g k :
  no_step_in g (k :: below g k) ->
  (forall d f, In d (g_deps g) -> find_file g (d_snk d) = Some f -> mem_N (f_key f) (k :: below g k) = false) ->
  FlagInv g -> FlagInv (detach_file g k).
Proof.
  intros Hns Hout [HFs [HFn HFr]]. split; [|split].
  - apply detach_file_safe_sound; [|exact HFs]. intros s Hs E.
    pose proof (Hns s Hs) as Hx. rewrite mem_cons, E, N.eqb_refl in Hx. discriminate.
  - apply detach_file_need_sound; assumption.
  - apply detach_file_ready_sound; [apply has_stmt_In; vm_compute; reflexivity | exact HFr].
Qed.

(* ------------------------------------------------------------------------------------------ *)
(* Sequences of primitives                                                                    *)
(* ------------------------------------------------------------------------------------------ *)

Definition same_keys (g g' : graph) : Prop := map s_key (g_steps g') = map s_key (g_steps g).

Lemma same_keys_map g g' F : g_steps g' = map F (g_steps g) -> (forall s, s_key (F s) = s_key s) -> same_keys g g'.
Proof. intros E K. unfold same_keys. rewrite E. apply map_key_map. exact K. Qed.

Lemma same_keys_WF g g' : same_keys g g' -> WF g -> WF g'.
Proof. unfold same_keys, WF. intros ->. auto. Qed.

Lemma same_keys_place_rel k g g' : place_rel k g g' -> same_keys g g'.
Proof. intros [F [E P]]. eapply same_keys_map; [exact E | apply P]. Qed.

Lemma detach_step_place_rel g k : place_rel k g (detach_step g k).
Proof.
  unfold detach_step, detach_step_with. destruct (find_step g k) as [s0|]; [|apply place_rel_refl].
  set (g2 := match s_creator s0 with Some _ => _ | None => g end).
  assert (R2 : place_rel k g g2).
  { unfold g2. destruct (s_creator s0); [|apply place_rel_refl].
    assert (R1 : place_rel k g (with_steps (set_detached_nodes g [k] true)
               (map (fun s => if s_key s =? k then set_place s true None else s)
                    (g_steps (set_detached_nodes g [k] true))))).
    { eapply place_rel_trans; [apply place_rel_set_detached | apply place_rel_set_place]. }
    destruct (s_detached s0); [exact R1|].
    eapply place_rel_trans; [exact R1 | apply place_rel_set_detached]. }
  eapply place_rel_trans; [exact R2|].
  eapply place_rel_trans; [apply place_rel_flag_with_products|].
  unfold flag_after_sources, flag_after_sources_with. apply place_rel_flag_keys.
Qed.

Lemma reattach_step_place_rel g k c cdet : place_rel k g (reattach_step g k c cdet).
Proof.
  unfold reattach_step.
  eapply place_rel_trans; [apply place_rel_set_detached|].
  eapply place_rel_trans; [apply place_rel_set_place|].
  eapply place_rel_trans; [apply place_rel_set_detached|].
  apply place_rel_flag_with_products.
Qed.

Lemma same_keys_mapg F g : (forall s, s_key (F s) = s_key s) -> same_keys g (mapg F g).
Proof. intros K. eapply same_keys_map; [reflexivity | exact K]. Qed.

Lemma same_keys_trans g g1 g2 : same_keys g g1 -> same_keys g1 g2 -> same_keys g g2.
Proof. unfold same_keys. congruence. Qed.

Lemma same_keys_trigger body self d g : same_keys g (run_trigger body self d g).
Proof. rewrite run_trigger_mapg. apply same_keys_mapg. apply (k_key _ (of_keeps _ (trigF_only_flags g body self d))). Qed.

Lemma same_keys_hold g k : same_keys g (hold_step g k).
Proof.
  unfold hold_step. destruct (find_step g k) as [s0|]; [|reflexivity].
  assert (H1 : same_keys g (with_steps g (map (fun s => if s_key s =? k then set_life s (s_state s) (s_deferred s) (s_defer_count s) (s_holding s + 1) else s) (g_steps g)))).
  { eapply same_keys_map; [reflexivity|]. intros s. cbv beta. destruct (s_key s =? k); reflexivity. }
  destruct (s_holding s0 =? 0); [|exact H1].
  eapply same_keys_trans; [exact H1|]. rewrite flag_with_products_mapg. apply same_keys_mapg.
  apply (k_key _ (of_keeps _ (subtreeF_only_flags _))).
Qed.

Lemma same_keys_release g k g' : release_step g k = Some g' -> same_keys g g'.
Proof.
  unfold release_step. destruct (find_step g k) as [s0|]; [|discriminate].
  destruct (s_holding s0 =? 0); [discriminate|]. intros E. injection E as <-.
  assert (H1 : same_keys g (with_steps g (map (fun s => if s_key s =? k then set_life s (s_state s) (s_deferred s) (s_defer_count s) (s_holding s - 1) else s) (g_steps g)))).
  { eapply same_keys_map; [reflexivity|]. intros s. cbv beta. destruct (s_key s =? k); reflexivity. }
  destruct (s_holding s0 =? 1); [|exact H1].
  eapply same_keys_trans; [exact H1|]. rewrite flag_with_products_mapg. apply same_keys_mapg.
  apply (k_key _ (of_keeps _ (subtreeF_only_flags _))).
Qed.

Lemma same_keys_set_state g k st df : same_keys g (set_step_state g k st df).
Proof.
  rewrite set_step_state_mapg. apply same_keys_mapg. intros s.
  rewrite (k_key _ (of_keeps _ (trigF_only_flags _ trg_step_state k None))). apply stateF_key.
Qed.

Lemma same_keys_ins_dep g d : same_keys g (ins_dep g d).
Proof.
  unfold ins_dep, ins_dep_with.
  assert (H1 : same_keys g (run_trigger trg_dep_ins 0 (Some d) (with_deps g (g_deps g ++ [mkDep (d_src d) (d_snk d) false]))))
    by (eapply same_keys_trans; [|apply same_keys_trigger]; reflexivity).
  destruct (d_dyn d); [|exact H1].
  eapply same_keys_trans; [exact H1|]. eapply same_keys_trans; [|apply same_keys_trigger]. reflexivity.
Qed.

Lemma same_keys_del_dep g d : same_keys g (del_dep g d).
Proof.
  unfold del_dep, del_dep_with. eapply same_keys_trans; [|apply same_keys_trigger].
  destruct (d_dyn d); [|reflexivity].
  eapply same_keys_trans; [|unfold same_keys; cbn [g_steps with_deps]; reflexivity].
  eapply same_keys_trans; [|apply same_keys_trigger]. reflexivity.
Qed.

Lemma same_keys_set_file_state g k st h : same_keys g (set_file_state g k st h).
Proof.
  destruct (set_file_state_steps g k st h) as [F [O E]].
  eapply same_keys_map; [exact E | apply (k_key _ (of_keeps _ O))].
Qed.

Lemma NoDup_app_fresh (l : list N) k : ~ In k l -> NoDup l -> NoDup (l ++ [k]).
Proof.
  intros Hk Hnd. induction Hnd as [|a l Ha Hnd IH]; cbn [app]; [constructor; [intros []|constructor]|].
  constructor.
  - intros Hin. apply in_app_or in Hin. destruct Hin as [Hin|[<-|[]]]; [contradiction|]. apply Hk. left. reflexivity.
  - apply IH. intros Hin. apply Hk. right. exact Hin.
Qed.

(* bookkeeping columns that none of the three invariants reads *)
Lemma bookkeeping_sound g F :
  (forall s, s_key (F s) = s_key s /\ s_state (F s) = s_state s /\ s_need (F s) = s_need s /\
             s_holding (F s) = s_holding s /\ s_detached (F s) = s_detached s /\ s_creator (F s) = s_creator s /\
             s_safe (F s) = s_safe s /\ s_safe_nh (F s) = s_safe_nh s /\ s_ineed (F s) = s_ineed s /\
             s_tail (F s) = s_tail s /\ s_duration (F s) = s_duration s /\ s_ready (F s) = s_ready s /\
             s_chk_safe (F s) = s_chk_safe s /\ s_chk_after (F s) = s_chk_after s /\ s_chk_ready (F s) = s_chk_ready s) ->
  FlagInv g -> FlagInv (mapg F g).
Proof.
  intros P [HFs [HFn HFr]]. split; [|split].
  - apply FlagInv_safe_mono; [|exact HFs]. constructor; intros s; try apply (P s).
    + intros H. destruct (P s) as [_ [_ [_ [_ [_ [_ [_ [_ [_ [_ [_ [_ [-> _]]]]]]]]]]]]]. exact H.
    + intros _ _. destruct (P s) as [_ [Hst [_ [Hh [_ [Hc _]]]]]]. unfold ok_h, ok_nh. rewrite Hst, Hh. auto.
  - apply FlagInv_need_mono; [|exact HFn]. constructor; intros s; try apply (P s).
    intros H. destruct (P s) as [_ [_ [_ [_ [_ [_ [_ [_ [_ [_ [_ [_ [_ [-> _]]]]]]]]]]]]]]. exact H.
  - apply FlagInv_ready_mono; [| | |exact HFr]; intros s; try apply (P s).
    intros H. destruct (P s) as [_ [_ [_ [_ [_ [_ [_ [_ [_ [_ [_ [_ [_ [_ ->]]]]]]]]]]]]]]. exact H.
Qed.

Lemma set_step_hash_sound g k b : FlagInv g -> FlagInv (set_step_hash g k b).
Proof.
  apply bookkeeping_sound. intros s. cbv beta. destruct (s_key s =? k); repeat split; reflexivity.
Qed.
Lemma inc_defer_sound g k : FlagInv g -> FlagInv (inc_defer g k).
Proof.
  apply bookkeeping_sound. intros s. cbv beta. destruct (s_key s =? k); repeat split; reflexivity.
Qed.
Lemma same_keys_set_step_hash g k b : same_keys g (set_step_hash g k b).
Proof. eapply same_keys_map; [reflexivity|]. intros s. cbv beta. destruct (s_key s =? k); reflexivity. Qed.
Lemma same_keys_inc_defer g k : same_keys g (inc_defer g k).
Proof. eapply same_keys_map; [reflexivity|]. intros s. cbv beta. destruct (s_key s =? k); reflexivity. Qed.

