(* Proofs about model/Sched.v (C10, C11). *)
From Coq Require Import List NArith Bool Arith Lia.
From SV Require Import lib.Bytes lib.SqlExpr gen.GenSched model.Sched.
Import ListNotations.
Open Scope N_scope.

(* ------------------------------------------------------------------------------------------ *)
(* Generic helpers                                                                            *)
(* ------------------------------------------------------------------------------------------ *)

Lemma mem_N_In x l : mem_N x l = true <-> In x l.
Proof.
  unfold mem_N. rewrite existsb_exists. split.
  - intros [y [Hy He]]. apply N.eqb_eq in He. subst. exact Hy.
  - intros H. exists x. split; [exact H | apply N.eqb_refl].
Qed.

Lemma mem_N_false x l : mem_N x l = false <-> ~ In x l.
Proof.
  rewrite <- mem_N_In. destruct (mem_N x l); split; intros; congruence.
Qed.

Lemma maxl_ge d l : d <= maxl d l.
Proof. induction l as [|a l IH]; cbn [maxl fold_right]; [lia | unfold maxl in *; lia]. Qed.

Lemma maxl_in d l x : In x l -> x <= maxl d l.
Proof.
  induction l as [|a l IH]; intros H; [destruct H|].
  cbn [maxl fold_right]. destruct H as [->|H]; [lia|]. specialize (IH H). unfold maxl in *. lia.
Qed.

Lemma maxl_cases d l : maxl d l = d \/ In (maxl d l) l.
Proof.
  induction l as [|a l IH]; [left; reflexivity|].
  cbn [maxl fold_right]. fold (maxl d l).
  destruct (N.max_spec a (maxl d l)) as [[_ ->]|[_ ->]].
  - destruct IH as [IH|IH]; [left; exact IH | right; right; exact IH].
  - right; left; reflexivity.
Qed.

(* keys are unique *)
Definition WF (g : graph) : Prop := NoDup (map s_key (g_steps g)).

Lemma find_key_some (l : list step) k s :
  find (fun s => s_key s =? k) l = Some s -> In s l /\ s_key s = k.
Proof. intros H. apply find_some in H. destruct H as [H1 H2]. apply N.eqb_eq in H2. auto. Qed.

Lemma find_step_some g k s : find_step g k = Some s -> In s (g_steps g) /\ s_key s = k.
Proof. apply find_key_some. Qed.

Lemma find_nodup (l : list step) s :
  NoDup (map s_key l) -> In s l -> find (fun x => s_key x =? s_key s) l = Some s.
Proof.
  induction l as [|a l IH]; intros Hnd Hin; [destruct Hin|].
  cbn [find]. inversion Hnd as [|? ? Hna Hnd']; subst.
  destruct Hin as [->|Hin].
  - rewrite N.eqb_refl. reflexivity.
  - destruct (s_key a =? s_key s) eqn:E.
    + apply N.eqb_eq in E. exfalso. apply Hna. rewrite E. apply in_map. exact Hin.
    + apply IH; assumption.
Qed.

Lemma find_step_in g s : WF g -> In s (g_steps g) -> find_step g (s_key s) = Some s.
Proof. intros. apply find_nodup; assumption. Qed.

Lemma find_step_none g k : find_step g k = None -> ~ In k (map s_key (g_steps g)).
Proof.
  unfold find_step. intros H Hin. apply in_map_iff in Hin. destruct Hin as [s [Hk Hs]].
  eapply find_none in H; [|exact Hs]. cbn in H. rewrite Hk, N.eqb_refl in H. discriminate.
Qed.

(* maps over the step list that keep the keys *)
Lemma find_map_key (f : step -> step) (l : list step) k :
  (forall s, s_key (f s) = s_key s) ->
  find (fun s => s_key s =? k) (map f l) = option_map f (find (fun s => s_key s =? k) l).
Proof.
  intros Hk. induction l as [|a l IH]; [reflexivity|].
  cbn [map find]. rewrite Hk. destruct (s_key a =? k); [reflexivity | exact IH].
Qed.

Lemma map_key_map (f : step -> step) (l : list step) :
  (forall s, s_key (f s) = s_key s) -> map s_key (map f l) = map s_key l.
Proof. intros Hk. rewrite map_map. apply map_ext. exact Hk. Qed.

(* A map over the steps that only rewrites cached columns and flags. *)
Record keeps (f : step -> step) : Prop := {
  k_key : forall s, s_key (f s) = s_key s;
  k_state : forall s, s_state (f s) = s_state s;
  k_need : forall s, s_need (f s) = s_need s;
  k_deferred : forall s, s_deferred (f s) = s_deferred s;
  k_holding : forall s, s_holding (f s) = s_holding s;
  k_detached : forall s, s_detached (f s) = s_detached s;
  k_creator : forall s, s_creator (f s) = s_creator s;
  k_stored : forall s, s_hash_stored (f s) = s_hash_stored s;
  k_hh : forall s, s_has_hash (f s) = s_has_hash s;
  k_duration : forall s, s_duration (f s) = s_duration s;
  k_res : forall s, s_res (f s) = s_res s }.

Definition mapg (f : step -> step) (g : graph) : graph := with_steps g (map f (g_steps g)).

Lemma find_step_mapg f g k : keeps f -> find_step (mapg f g) k = option_map f (find_step g k).
Proof. intros K. unfold find_step, mapg. cbn [g_steps with_steps]. apply find_map_key. apply K. Qed.

Lemma WF_mapg f g : keeps f -> WF g -> WF (mapg f g).
Proof. intros K H. unfold WF, mapg. cbn [g_steps with_steps]. rewrite map_key_map; [exact H | apply K]. Qed.

Lemma length_mapg f g : length (g_steps (mapg f g)) = length (g_steps g).
Proof. unfold mapg. cbn [g_steps with_steps]. apply map_length. Qed.

Lemma ok_nh_keeps f s : keeps f -> ok_nh (f s) = ok_nh s.
Proof. intros K. unfold ok_nh. rewrite (k_state f K). reflexivity. Qed.
Lemma ok_h_keeps f s : keeps f -> ok_h (f s) = ok_h s.
Proof. intros K. unfold ok_h. rewrite ok_nh_keeps by exact K. rewrite (k_holding f K). reflexivity. Qed.

Lemma creator_step_mapg f g s :
  keeps f -> creator_step (mapg f g) (f s) = option_map f (creator_step g s).
Proof.
  intros K. unfold creator_step. rewrite (k_creator f K).
  destruct (s_creator s); [apply find_step_mapg; exact K | reflexivity].
Qed.

(* ------------------------------------------------------------------------------------------ *)
(* _ready                                                                                     *)
(* ------------------------------------------------------------------------------------------ *)

Definition FlagInv_ready (g : graph) : Prop :=
  forall s, In s (g_steps g) -> s_chk_ready s = false -> s_ready s = ready_spec g (s_key s).

Lemma ready_spec_steps g l k : ready_spec (with_steps g l) k = ready_spec g k.
Proof. reflexivity. Qed.

Lemma update_meta_ready_correct g :
  FlagInv_ready g ->
  forall s, In s (g_steps (update_meta_ready g)) ->
    s_ready s = ready_spec (update_meta_ready g) (s_key s) /\ s_chk_ready s = false.
Proof.
  intros HF s Hin. unfold update_meta_ready in *. cbn [g_steps with_steps] in Hin.
  rewrite ready_spec_steps. apply in_map_iff in Hin. destruct Hin as [s0 [Hs Hin]].
  destruct (s_chk_ready s0) eqn:E; subst s.
  - cbn. split; reflexivity.
  - split; [apply HF; assumption | exact E].
Qed.

(* ------------------------------------------------------------------------------------------ *)
(* _safe / _safe_ignoring_hold                                                                *)
(* ------------------------------------------------------------------------------------------ *)

(* The creator forest is well founded, with a rank below the number of steps. *)
Definition CreatorRank (g : graph) (rank : N -> nat) : Prop :=
  (forall s c, In s (g_steps g) -> creator_step g s = Some c -> (rank (s_key c) < rank (s_key s))%nat) /\
  (forall s, In s (g_steps g) -> (rank (s_key s) < length (g_steps g))%nat).
Definition CreatorAcyclic (g : graph) : Prop := exists rank, CreatorRank g rank.

Lemma creator_step_in g s c : creator_step g s = Some c -> In c (g_steps g).
Proof.
  unfold creator_step. destruct (s_creator s); [|discriminate].
  intros H. apply find_step_some in H. tauto.
Qed.

Section SafeProofs.
  Variable g : graph.
  Variable rank : N -> nat.
  Hypothesis HR : CreatorRank g rank.

  Lemma safe_fuel_stable n : forall m s, In s (g_steps g) ->
    (rank (s_key s) <= n)%nat -> (rank (s_key s) <= m)%nat -> safe_fuel n g s = safe_fuel m g s.
  Proof.
    destruct HR as [HR1 _].
    induction n as [|n IH]; intros m s Hin Hn Hm.
    - destruct m as [|m]; [reflexivity|]. cbn [safe_fuel].
      destruct (creator_step g s) as [c|] eqn:E; [|reflexivity].
      specialize (HR1 s c Hin E). lia.
    - destruct m as [|m].
      + cbn [safe_fuel]. destruct (creator_step g s) as [c|] eqn:E; [|reflexivity].
        specialize (HR1 s c Hin E). lia.
      + cbn [safe_fuel]. destruct (creator_step g s) as [c|] eqn:E; [|reflexivity].
        pose proof (HR1 s c Hin E) as Hlt.
        rewrite (IH m c); [reflexivity | eapply creator_step_in; exact E | lia | lia].
  Qed.

  Lemma aflag_stable n : forall m s, In s (g_steps g) ->
    (rank (s_key s) < n)%nat -> (rank (s_key s) < m)%nat -> aflag n g s = aflag m g s.
  Proof.
    destruct HR as [HR1 _].
    induction n as [|n IH]; intros m s Hin Hn Hm; [lia|].
    destruct m as [|m]; [lia|]. cbn [aflag].
    destruct (creator_step g s) as [c|] eqn:E; [|reflexivity].
    pose proof (HR1 s c Hin E) as Hlt.
    rewrite (IH m c); [reflexivity | eapply creator_step_in; exact E | lia | lia].
  Qed.

  Definition L := length (g_steps g).

  Definition FlagInv_safe : Prop :=
    forall s, In s (g_steps g) -> aflag (S L) g s = false -> (s_safe s, s_safe_nh s) = safe_spec g s.

  (* A flagged step never sees a creator whose cached value is lower than its definition. *)
  Definition NoStaleLow : Prop :=
    forall s c, In s (g_steps g) -> s_chk_safe s = true -> creator_step g s = Some c ->
      (fst (safe_spec g c) = true -> s_safe c = true) /\
      (snd (safe_spec g c) = true -> s_safe_nh c = true).

  Hypothesis HF : FlagInv_safe.

  Lemma cached_of_unflagged n c : In c (g_steps g) -> (rank (s_key c) < n)%nat ->
    aflag n g c = false -> (s_safe c, s_safe_nh c) = safe_fuel n g c.
  Proof.
    intros Hin Hn Ha. destruct HR as [_ HR2]. pose proof (HR2 c Hin) as Hb. fold L in Hb.
    rewrite (HF c Hin).
    - unfold safe_spec. fold L. apply safe_fuel_stable; [exact Hin | lia | lia].
    - rewrite <- Ha. apply aflag_stable; [exact Hin | lia | lia].
  Qed.

  Lemma trace_unflagged n : forall s, aflag n g s = false -> trace_vals n g s = [].
  Proof.
    induction n as [|n IH]; intros s Ha; [reflexivity|].
    cbn [aflag] in Ha. apply orb_false_iff in Ha. destruct Ha as [Ha1 Ha2].
    cbn [trace_vals]. rewrite Ha1. cbn [app].
    destruct (creator_step g s) as [c|]; [|reflexivity]. rewrite (IH c Ha2). reflexivity.
  Qed.

  Lemma last_map_lift {A} (f : A -> A) (l : list A) d : l <> [] -> last (map f l) d = f (last l d).
  Proof.
    induction l as [|a l IH]; [congruence|]. intros _. destruct l as [|b l]; [reflexivity|].
    change (last (f a :: map f (b :: l)) d = f (last (a :: b :: l) d)).
    transitivity (last (map f (b :: l)) d); [reflexivity|].
    rewrite IH by congruence. reflexivity.
  Qed.

  Lemma last_app_ne {A} (l1 l2 : list A) d : l2 <> [] -> last (l1 ++ l2) d = last l2 d.
  Proof.
    intros H. induction l1 as [|a l1 IH]; [reflexivity|].
    cbn [app]. destruct (l1 ++ l2) eqn:E.
    - destruct l1; cbn in E; [contradiction | discriminate].
    - rewrite <- IH. reflexivity.
  Qed.

  (* The deepest row (seeded at the topmost flagged ancestor) carries the defined value. *)
  Lemma trace_deepest n : forall s, In s (g_steps g) -> (rank (s_key s) < n)%nat ->
    aflag n g s = true ->
    trace_vals n g s <> [] /\ last (trace_vals n g s) (true, true) = safe_fuel n g s.
  Proof.
    destruct HR as [HR1 HR2].
    induction n as [|n IH]; intros s Hin Hn Ha; [lia|].
    cbn [aflag] in Ha. cbn [trace_vals safe_fuel].
    destruct (creator_step g s) as [c|] eqn:E.
    - pose proof (HR1 s c Hin E) as Hlt. pose proof (creator_step_in g s c E) as Hc.
      destruct (aflag n g c) eqn:Hac.
      + destruct (IH c Hc ltac:(lia) Hac) as [Hne Hlast].
        split.
        * intros Habs. apply app_eq_nil in Habs. destruct Habs as [_ Habs].
          apply map_eq_nil in Habs. contradiction.
        * rewrite last_app_ne.
          -- rewrite last_map_lift by exact Hne. rewrite Hlast. reflexivity.
          -- intros Habs. apply map_eq_nil in Habs. contradiction.
      + rewrite orb_false_r in Ha. rewrite Ha.
        rewrite (trace_unflagged n c Hac). cbn [map app].
        split; [congruence|]. cbn [last]. unfold seed_val. rewrite E.
        pose proof (cached_of_unflagged n c Hc ltac:(lia) Hac) as Hcache.
        rewrite <- Hcache. reflexivity.
    - rewrite orb_false_r in Ha. rewrite Ha. cbn [app].
      split; [congruence|]. cbn [last]. unfold seed_val. rewrite E. reflexivity.
  Qed.

  (* Under NoStaleLow every row is at least the defined value. *)
  Lemma trace_above n : NoStaleLow -> forall s, In s (g_steps g) -> (rank (s_key s) < n)%nat ->
    forall v, In v (trace_vals n g s) ->
      (fst (safe_fuel n g s) = true -> fst v = true) /\ (snd (safe_fuel n g s) = true -> snd v = true).
  Proof.
    intros HN. destruct HR as [HR1 HR2].
    induction n as [|n IH]; intros s Hin Hn v Hv; [destruct Hv|].
    cbn [trace_vals] in Hv. cbn [safe_fuel].
    destruct (creator_step g s) as [c|] eqn:E.
    - pose proof (HR1 s c Hin E) as Hlt. pose proof (creator_step_in g s c E) as Hc.
      pose proof (HR2 c Hc) as Hb. fold L in Hb.
      assert (Hst : safe_fuel n g c = safe_spec g c).
      { unfold safe_spec. fold L. apply safe_fuel_stable; [exact Hc | lia | lia]. }
      apply in_app_or in Hv. destruct Hv as [Hv|Hv].
      + destruct (s_chk_safe s) eqn:Ec; [|destruct Hv].
        destruct Hv as [<-|[]]. unfold seed_val. rewrite E. cbn [fst snd].
        destruct (HN s c Hin Ec E) as [H1 H2]. rewrite Hst.
        split; intros H; apply andb_true_iff in H; destruct H as [Ha Hb'];
          apply andb_true_iff; split; auto.
      + apply in_map_iff in Hv. destruct Hv as [v' [<- Hv']]. cbn [fst snd].
        destruct (IH c Hc ltac:(lia) v' Hv') as [H1 H2].
        split; intros H; apply andb_true_iff in H; destruct H as [Ha Hb'];
          apply andb_true_iff; split; auto.
    - destruct (s_chk_safe s); [|destruct Hv]. cbn [app] in Hv. destruct Hv as [<-|[]].
      unfold seed_val. rewrite E. cbn. auto.
  Qed.

  Lemma last_in {A} (l : list A) d : l <> [] -> In (last l d) l.
  Proof.
    induction l as [|a l IH]; [congruence|]. intros _. destruct l as [|b l]; [left; reflexivity|].
    right. apply IH. congruence.
  Qed.

  Lemma forallb_proj_min (p : bool * bool -> bool) (l : list (bool * bool)) (spec : bool) d :
    l <> [] -> p (last l d) = spec -> (forall v, In v l -> spec = true -> p v = true) ->
    forallb p l = spec.
  Proof.
    intros Hne Hlast Hall. destruct spec.
    - apply forallb_forall. intros v Hv. apply Hall; [exact Hv | reflexivity].
    - destruct (forallb p l) eqn:E; [|reflexivity].
      rewrite forallb_forall in E. rewrite <- Hlast. symmetry. apply E. apply last_in. exact Hne.
  Qed.

  (* what one step looks like after the update *)
  Definition upd_safe (pol : merge_policy) (s : step) : step :=
    match merge_vals pol (trace_vals (safe_fuel_of g) g s) with
    | None => set_chk_safe s false
    | Some v => set_chk_safe (set_safe s (fst v) (snd v)) false
    end.

  Lemma upd_safe_keeps pol : keeps (upd_safe pol).
  Proof.
    constructor; intros s; unfold upd_safe;
      destruct (merge_vals pol (trace_vals (safe_fuel_of g) g s)); reflexivity.
  Qed.

  Lemma update_meta_safe_is_mapg pol : update_meta_safe_with pol g = mapg (upd_safe pol) g.
  Proof. reflexivity. Qed.

  Lemma upd_safe_value pol s : In s (g_steps g) ->
    (pol = MergeDeepest \/ NoStaleLow) ->
    (s_safe (upd_safe pol s), s_safe_nh (upd_safe pol s)) = safe_spec g s /\
    s_chk_safe (upd_safe pol s) = false.
  Proof.
    intros Hin Hpol. destruct HR as [HR1 HR2]. pose proof (HR2 s Hin) as Hb. fold L in Hb.
    assert (Hspec : safe_fuel (S L) g s = safe_spec g s).
    { unfold safe_spec. fold L. apply safe_fuel_stable; [exact Hin | lia | lia]. }
    unfold upd_safe, safe_fuel_of. fold L.
    destruct (aflag (S L) g s) eqn:Ha.
    - destruct (trace_deepest (S L) s Hin ltac:(lia) Ha) as [Hne Hlast].
      unfold merge_vals. destruct (trace_vals (S L) g s) as [|v0 tl] eqn:Etv; [congruence|].
      rewrite <- Etv in *. split; [|reflexivity].
      destruct pol.
      + (* MIN *)
        destruct Hpol as [Hpol|HN]; [discriminate|].
        cbn [set_chk_safe set_safe s_safe s_safe_nh fst snd].
        rewrite <- Hspec.
        rewrite (surjective_pairing (safe_fuel (S L) g s)). f_equal.
        * apply (forallb_proj_min fst _ _ (true, true) Hne).
          -- rewrite Hlast. reflexivity.
          -- intros v Hv. apply (trace_above (S L) HN s Hin ltac:(lia) v Hv).
        * apply (forallb_proj_min snd _ _ (true, true) Hne).
          -- rewrite Hlast. reflexivity.
          -- intros v Hv. apply (trace_above (S L) HN s Hin ltac:(lia) v Hv).
      + cbn [set_chk_safe set_safe s_safe s_safe_nh]. rewrite Hlast, Hspec.
        symmetry. apply surjective_pairing.
    - rewrite (trace_unflagged (S L) s Ha). cbn [merge_vals].
      split; [|reflexivity]. cbn [set_chk_safe s_safe s_safe_nh]. apply HF; assumption.
  Qed.
End SafeProofs.

(* specifications do not depend on cached columns or flags *)
Lemma safe_fuel_mapg f g n s : keeps f -> safe_fuel n (mapg f g) (f s) = safe_fuel n g s.
Proof.
  intros K. revert s. induction n as [|n IH]; intros s; [reflexivity|].
  cbn [safe_fuel]. rewrite creator_step_mapg by exact K.
  destruct (creator_step g s) as [c|]; [|reflexivity]. cbn [option_map].
  rewrite IH, ok_h_keeps, ok_nh_keeps by exact K. reflexivity.
Qed.

Lemma safe_spec_mapg f g s : keeps f -> safe_spec (mapg f g) (f s) = safe_spec g s.
Proof. intros K. unfold safe_spec. rewrite length_mapg. apply safe_fuel_mapg. exact K. Qed.

Theorem update_meta_safe_correct_gen pol g :
  CreatorAcyclic g -> FlagInv_safe g ->
  (pol = MergeDeepest \/ NoStaleLow g) ->
  forall s, In s (g_steps (update_meta_safe_with pol g)) ->
    (s_safe s, s_safe_nh s) = safe_spec (update_meta_safe_with pol g) s /\ s_chk_safe s = false.
Proof.
  intros [rank HR] HF Hpol s Hin.
  rewrite update_meta_safe_is_mapg in *. unfold mapg in Hin. cbn [g_steps with_steps] in Hin.
  apply in_map_iff in Hin. destruct Hin as [s0 [<- Hin]].
  rewrite safe_spec_mapg by apply upd_safe_keeps.
  apply (upd_safe_value g rank HR HF pol s0 Hin Hpol).
Qed.

(* ------------------------------------------------------------------------------------------ *)
(* _implied_need: the propagation loop                                                        *)
(* ------------------------------------------------------------------------------------------ *)

(* The two-hop consumer relation is well founded, with a rank below the number of steps. *)
Definition NeedRank (g : graph) (rank : N -> nat) : Prop :=
  (forall k y, In y (cons_keys g k) -> (rank y < rank k)%nat) /\
  (forall k, In k (attached_keys g) -> (rank k < length (g_steps g))%nat).
Definition DepAcyclic (g : graph) : Prop := exists rank, NeedRank g rank.

Definition Cons1 (g : graph) (v : vals) (k : N) : Prop := fst (v k) = fst (new_val g v k).
Definition Inv (g : graph) (v : vals) (seed : list N) : Prop :=
  forall k, In k (attached_keys g) -> ~ In k seed -> Cons1 g v k.

(* A step may disagree with max(declared, elevation, cached values of its consumers) only if it
   is flagged itself or one of its attached consumers is flagged. *)
Definition FlagInv_need (g : graph) : Prop :=
  forall s, In s (g_steps g) -> s_detached s = false -> s_chk_after s = false ->
    (forall y, In y (cons_keys g (s_key s)) -> ~ In y (seed0 g)) ->
    s_ineed s = fst (new_val g (vals_of g) (s_key s)).

Lemma new_val_ext g v v' k :
  (forall y, In y (cons_keys g k) -> v y = v' y) -> new_val g v k = new_val g v' k.
Proof.
  intros H. unfold new_val. f_equal; f_equal; f_equal; apply map_ext_in; intros y Hy; rewrite (H y Hy); reflexivity.
Qed.

Lemma cons_keys_attached g k y : In y (cons_keys g k) -> In y (attached_keys g).
Proof.
  unfold cons_keys. intros H. apply in_flat_map in H. destruct H as [d1 [_ H]].
  destruct (d_src d1 =? k); [|destruct H].
  apply in_flat_map in H. destruct H as [d2 [_ H]].
  destruct (d_src d2 =? d_snk d1); [|destruct H].
  destruct (find_step g (d_snk d2)) as [s|] eqn:E; [|destruct H].
  destruct (s_detached s) eqn:Ed; [destruct H|]. destruct H as [<-|[]].
  unfold attached_keys. apply in_map. apply filter_In. apply find_step_some in E.
  split; [tauto | rewrite Ed; reflexivity].
Qed.

Lemma seed0_attached g k : In k (seed0 g) -> In k (attached_keys g).
Proof.
  unfold seed0, attached_keys. intros H. apply in_map_iff in H. destruct H as [s [<- H]].
  apply filter_In in H. destruct H as [H1 H2]. apply andb_true_iff in H2.
  apply in_map. apply filter_In. tauto.
Qed.

Lemma pair_eqb_eq a b : pair_eqb a b = true -> a = b.
Proof.
  unfold pair_eqb. intros H. apply andb_true_iff in H. destruct H as [H1 H2].
  apply N.eqb_eq in H1, H2. destruct a, b. cbn in *. congruence.
Qed.

Section Round.
  Variable g : graph.
  Variable first : bool.
  Variable v : vals.
  Variable seed : list N.
  Let written := filter (fun k => first || negb (pair_eqb (new_val g v k) (v k))) seed.
  Let v' := fst (after_round first g v seed).
  Let seed' := snd (after_round first g v seed).

  Lemma round_v' k : v' k = if mem_N k written then new_val g v k else v k.
  Proof. reflexivity. Qed.

  Lemma round_seed'_attached k : In k seed' -> In k (attached_keys g).
  Proof. unfold seed', after_round. cbn [snd]. intros H. apply filter_In in H. tauto. Qed.

  Lemma round_not_seed' k : In k (attached_keys g) -> ~ In k seed' ->
    forall y, In y (cons_keys g k) -> mem_N y written = false.
  Proof.
    intros Hk Hn y Hy. destruct (mem_N y written) eqn:E; [|reflexivity].
    exfalso. apply Hn. unfold seed', after_round. cbn [snd]. apply filter_In. split; [exact Hk|].
    apply existsb_exists. exists y. split; [exact Hy | exact E].
  Qed.

  Lemma round_consistent k :
    In k (attached_keys g) -> ~ In k seed' ->
    (In k seed \/ Cons1 g v k) ->
    Cons1 g v' k.
  Proof.
    intros Hk Hn Hcase. unfold Cons1.
    assert (Hext : new_val g v' k = new_val g v k).
    { apply new_val_ext. intros y Hy. rewrite round_v'.
      rewrite (round_not_seed' k Hk Hn y Hy). reflexivity. }
    rewrite Hext, round_v'.
    destruct (mem_N k written) eqn:Ew; [reflexivity|].
    destruct Hcase as [Hs|Hc]; [|exact Hc].
    (* in the seed but not written: the recomputed value equals the old one *)
    assert (Hf : (first || negb (pair_eqb (new_val g v k) (v k))) = false).
    { destruct (first || negb (pair_eqb (new_val g v k) (v k))) eqn:E; [|reflexivity].
      exfalso. apply mem_N_false in Ew. apply Ew. apply filter_In. split; assumption. }
    apply orb_false_iff in Hf. destruct Hf as [_ Hf]. apply negb_false_iff in Hf.
    apply pair_eqb_eq in Hf. rewrite Hf. reflexivity.
  Qed.

  Lemma round_inv : Inv g v seed -> Inv g v' seed'.
  Proof.
    intros HI k Hk Hn. apply round_consistent; auto.
    destruct (in_dec N.eq_dec k seed) as [Hs|Hs]; [left; exact Hs | right; apply HI; assumption].
  Qed.

  Lemma round_rank (rank : N -> nat) n :
    NeedRank g rank -> (forall k, In k seed -> (n <= rank k)%nat) ->
    forall p, In p seed' -> (S n <= rank p)%nat.
  Proof.
    intros [HR1 _] Hseed p Hp. unfold seed', after_round in Hp. cbn [snd] in Hp.
    apply filter_In in Hp. destruct Hp as [_ Hp]. apply existsb_exists in Hp.
    destruct Hp as [y [Hy Hw]]. apply mem_N_In in Hw. apply filter_In in Hw. destruct Hw as [Hw _].
    specialize (HR1 p y Hy). specialize (Hseed y Hw). lia.
  Qed.
End Round.

Lemma after_loop_false g rank : NeedRank g rank ->
  forall fuel n v seed,
    (forall k, In k seed -> In k (attached_keys g)) ->
    (forall k, In k seed -> (n <= rank k)%nat) ->
    (length (g_steps g) < n + fuel)%nat ->
    Inv g v seed ->
    exists vf, after_loop fuel false g v seed = Some vf /\ Inv g vf [].
Proof.
  intros HR. induction fuel as [|fuel IH]; intros n v seed Hatt Hrank Hfuel HI.
  - destruct seed as [|k seed]; [exists v; split; [reflexivity | exact HI]|].
    exfalso. destruct HR as [_ HR2]. specialize (HR2 k (Hatt k (or_introl eq_refl))).
    specialize (Hrank k (or_introl eq_refl)). lia.
  - destruct seed as [|k seed]; [exists v; split; [reflexivity | exact HI]|].
    cbn [after_loop].
    apply (IH (S n)).
    + intros p Hp. eapply round_seed'_attached. exact Hp.
    + intros p Hp. eapply round_rank; eauto.
    + lia.
    + apply round_inv. exact HI.
Qed.

Lemma vals_of_in g s : WF g -> In s (g_steps g) -> vals_of g (s_key s) = (s_ineed s, s_tail s).
Proof. intros Hwf Hin. unfold vals_of. rewrite find_step_in by assumption. reflexivity. Qed.

Lemma attached_keys_step g k : In k (attached_keys g) ->
  exists s, In s (g_steps g) /\ s_key s = k /\ s_detached s = false.
Proof.
  unfold attached_keys. intros H. apply in_map_iff in H. destruct H as [s [Hk H]].
  apply filter_In in H. destruct H as [H1 H2]. exists s. repeat split; try assumption.
  destruct (s_detached s); [discriminate | reflexivity].
Qed.

Lemma not_seed0_unflagged g s : In s (g_steps g) -> s_detached s = false ->
  ~ In (s_key s) (seed0 g) -> s_chk_after s = false.
Proof.
  intros Hin Hd Hn. destruct (s_chk_after s) eqn:E; [|reflexivity].
  exfalso. apply Hn. unfold seed0. apply in_map. apply filter_In. split; [exact Hin|].
  rewrite Hd, E. reflexivity.
Qed.

Lemma first_round_inv g : WF g -> FlagInv_need g ->
  Inv g (fst (after_round true g (vals_of g) (seed0 g))) (snd (after_round true g (vals_of g) (seed0 g))).
Proof.
  intros Hwf HF k Hk Hn.
  apply round_consistent; auto.
  destruct (in_dec N.eq_dec k (seed0 g)) as [Hs|Hs]; [left; exact Hs | right].
  destruct (attached_keys_step g k Hk) as [s [Hin [<- Hd]]].
  unfold Cons1. rewrite (vals_of_in g s Hwf Hin). cbn [fst].
  apply HF; try assumption.
  - apply (not_seed0_unflagged g); assumption.
  - intros y Hy Hys.
    (* y in the first seed means y is written in the first round, so k would be re-seeded *)
    apply Hn. unfold after_round. cbn [snd]. apply filter_In. split; [exact Hk|].
    apply existsb_exists. exists y. split; [exact Hy|].
    apply mem_N_In. apply filter_In. split; [exact Hys | reflexivity].
Qed.

(* global consistency pins the values down: they equal need_spec *)
Lemma consistent_is_spec g rank v : NeedRank g rank -> Inv g v [] ->
  forall n k, In k (attached_keys g) -> (rank k < n)%nat -> fst (v k) = need_fuel n g k.
Proof.
  intros HR HI. destruct HR as [HR1 HR2].
  induction n as [|n IH]; intros k Hk Hn; [lia|].
  rewrite (HI k Hk (fun H => H)). unfold new_val. cbn [fst need_fuel]. f_equal. f_equal.
  apply map_ext_in. intros y Hy. apply IH.
  - eapply cons_keys_attached; exact Hy.
  - specialize (HR1 k y Hy). lia.
Qed.

Lemma update_meta_after_values g : WF g -> DepAcyclic g -> FlagInv_need g ->
  exists vf, after_loop (S (length (g_steps g))) true g (vals_of g) (seed0 g) = Some vf /\
             forall k, In k (attached_keys g) -> fst (vf k) = need_spec g k.
Proof.
  intros Hwf [rank HR] HF.
  assert (Hfin : forall vf, Inv g vf [] -> forall k, In k (attached_keys g) -> fst (vf k) = need_spec g k).
  { intros vf HI k Hk. unfold need_spec. eapply consistent_is_spec; eauto. apply HR. exact Hk. }
  destruct (seed0 g) as [|k0 rest] eqn:Es.
  - exists (vals_of g). split; [reflexivity|]. apply Hfin.
    intros k Hk _. destruct (attached_keys_step g k Hk) as [s [Hin [<- Hd]]].
    unfold Cons1. rewrite (vals_of_in g s Hwf Hin). cbn [fst]. apply HF; try assumption.
    + apply (not_seed0_unflagged g); try assumption. rewrite Es. intros [].
    + intros y _. rewrite Es. intros [].
  - cbn [after_loop]. rewrite <- Es.
    destruct (after_loop_false g rank HR (length (g_steps g)) 1%nat
                (fst (after_round true g (vals_of g) (seed0 g)))
                (snd (after_round true g (vals_of g) (seed0 g)))) as [vf [Hl HI]].
    + intros p Hp. eapply round_seed'_attached. exact Hp.
    + intros p Hp. eapply (round_rank g true (vals_of g) (seed0 g) rank 0%nat HR); [|exact Hp].
      intros; lia.
    + lia.
    + apply first_round_inv; assumption.
    + exists vf. split; [exact Hl | apply Hfin; exact HI].
Qed.

(* ---- the need specification ignores cached columns and flags ---- *)

Lemma outputs_mapg f g k : outputs (mapg f g) k = outputs g k.
Proof. reflexivity. Qed.

Lemma elev_mapg f g s : keeps f -> elev (mapg f g) (f s) = elev g s.
Proof.
  intros K. unfold elev. rewrite (k_key f K), (k_need f K). reflexivity.
Qed.

Lemma local_k_mapg f g k : keeps f -> local_k (mapg f g) k = local_k g k.
Proof.
  intros K. unfold local_k. rewrite find_step_mapg by exact K.
  destruct (find_step g k) as [s|]; [|reflexivity]. cbn [option_map].
  unfold local_need. rewrite elev_mapg, (k_need f K) by exact K. reflexivity.
Qed.

Lemma duration_k_mapg f g k : keeps f -> duration_k (mapg f g) k = duration_k g k.
Proof.
  intros K. unfold duration_k. rewrite find_step_mapg by exact K.
  destruct (find_step g k) as [s|]; [|reflexivity]. cbn [option_map]. apply (k_duration f K).
Qed.

Lemma cons_keys_mapg f g k : keeps f -> cons_keys (mapg f g) k = cons_keys g k.
Proof.
  intros K. unfold cons_keys. change (g_deps (mapg f g)) with (g_deps g).
  apply flat_map_ext. intros d1. destruct (d_src d1 =? k); [|reflexivity].
  apply flat_map_ext. intros d2. destruct (d_src d2 =? d_snk d1); [|reflexivity].
  rewrite find_step_mapg by exact K.
  destruct (find_step g (d_snk d2)) as [y|]; [|reflexivity]. cbn [option_map].
  rewrite (k_detached f K), (k_key f K). reflexivity.
Qed.

Lemma attached_keys_mapg f g : keeps f -> attached_keys (mapg f g) = attached_keys g.
Proof.
  intros K. unfold attached_keys, mapg. cbn [g_steps with_steps].
  induction (g_steps g) as [|a l IH]; [reflexivity|].
  cbn [map filter]. rewrite (k_detached f K). destruct (negb (s_detached a)); cbn [map];
    rewrite ?(k_key f K), IH; reflexivity.
Qed.

Lemma need_fuel_mapg f g n k : keeps f -> need_fuel n (mapg f g) k = need_fuel n g k.
Proof.
  intros K. revert k. induction n as [|n IH]; intros k; cbn [need_fuel].
  - apply local_k_mapg; exact K.
  - rewrite local_k_mapg, cons_keys_mapg by exact K. f_equal. f_equal.
    apply map_ext. exact IH.
Qed.

Lemma need_spec_mapg f g k : keeps f -> need_spec (mapg f g) k = need_spec g k.
Proof. intros K. unfold need_spec. rewrite length_mapg. apply need_fuel_mapg; exact K. Qed.

Lemma DepAcyclic_mapg f g : keeps f -> DepAcyclic g -> DepAcyclic (mapg f g).
Proof.
  intros K [rank [H1 H2]]. exists rank. split.
  - intros k y. rewrite cons_keys_mapg by exact K. apply H1.
  - intros k. rewrite attached_keys_mapg, length_mapg by exact K. apply H2.
Qed.

Lemma CreatorAcyclic_mapg f g : keeps f -> CreatorAcyclic g -> CreatorAcyclic (mapg f g).
Proof.
  intros K [rank [H1 H2]]. exists rank. split.
  - intros s c Hin Hc. unfold mapg in Hin. cbn [g_steps with_steps] in Hin.
    apply in_map_iff in Hin. destruct Hin as [s0 [<- Hin]].
    rewrite creator_step_mapg in Hc by exact K.
    destruct (creator_step g s0) as [c0|] eqn:E; [|discriminate]. cbn in Hc. injection Hc as <-.
    rewrite !(k_key f K). apply (H1 s0 c0 Hin E).
  - intros s Hin. unfold mapg in Hin. cbn [g_steps with_steps] in Hin.
    apply in_map_iff in Hin. destruct Hin as [s0 [<- Hin]].
    rewrite (k_key f K), length_mapg. apply H2. exact Hin.
Qed.

(* write_back as a map *)
Definition wb (v : vals) (s : step) : step :=
  set_chk_after (set_after s (fst (v (s_key s))) (snd (v (s_key s)))) false.
Lemma wb_keeps v : keeps (wb v).
Proof. constructor; intros s; reflexivity. Qed.
Lemma write_back_mapg g v : write_back g v = mapg (wb v) g.
Proof. reflexivity. Qed.

Theorem update_meta_after_correct g : WF g -> DepAcyclic g -> FlagInv_need g ->
  exists g', update_meta_after g = Some g' /\
    forall s, In s (g_steps g') ->
      s_chk_after s = false /\ (s_detached s = false -> s_ineed s = need_spec g' (s_key s)).
Proof.
  intros Hwf Hac HF. destruct (update_meta_after_values g Hwf Hac HF) as [vf [Hl Hv]].
  exists (write_back g vf). split.
  - unfold update_meta_after. rewrite Hl. reflexivity.
  - intros s Hin. rewrite write_back_mapg in *. unfold mapg in Hin. cbn [g_steps with_steps] in Hin.
    apply in_map_iff in Hin. destruct Hin as [s0 [<- Hin]]. split; [reflexivity|].
    intros Hd. rewrite need_spec_mapg by apply wb_keeps.
    cbn [wb set_chk_after set_after s_ineed s_key]. apply Hv.
    unfold attached_keys. apply in_map. apply filter_In. split; [exact Hin|].
    cbn in Hd. rewrite Hd. reflexivity.
Qed.

(* ---- putting the three updates together (pop_next_job, part A) ---- *)

Definition keeps_need (f : step -> step) : Prop :=
  keeps f /\ (forall s, s_ineed (f s) = s_ineed s) /\ (forall s, s_tail (f s) = s_tail s) /\
  (forall s, s_chk_after (f s) = s_chk_after s).
Definition keeps_ready (f : step -> step) : Prop :=
  keeps f /\ (forall s, s_ready (f s) = s_ready s) /\ (forall s, s_chk_ready (f s) = s_chk_ready s).
Definition keeps_safe (f : step -> step) : Prop :=
  keeps f /\ (forall s, s_safe (f s) = s_safe s) /\ (forall s, s_safe_nh (f s) = s_safe_nh s) /\
  (forall s, s_chk_safe (f s) = s_chk_safe s).

Lemma seed0_mapg f g : keeps_need f -> seed0 (mapg f g) = seed0 g.
Proof.
  intros [K [_ [_ Hc]]]. unfold seed0, mapg. cbn [g_steps with_steps].
  induction (g_steps g) as [|a l IH]; [reflexivity|].
  cbn [map filter]. rewrite (k_detached f K), Hc.
  destruct (negb (s_detached a) && s_chk_after a); cbn [map]; rewrite ?(k_key f K), IH; reflexivity.
Qed.

Lemma vals_of_mapg f g k : keeps_need f -> vals_of (mapg f g) k = vals_of g k.
Proof.
  intros [K [Hi [Ht _]]]. unfold vals_of. rewrite find_step_mapg by exact K.
  destruct (find_step g k) as [s|]; [|reflexivity]. cbn [option_map]. rewrite Hi, Ht. reflexivity.
Qed.

Lemma new_val_mapg f g v k : keeps f -> new_val (mapg f g) v k = new_val g v k.
Proof.
  intros K. unfold new_val. rewrite local_k_mapg, duration_k_mapg, cons_keys_mapg by exact K. reflexivity.
Qed.

Lemma FlagInv_need_mapg f g : keeps_need f -> FlagInv_need g -> FlagInv_need (mapg f g).
Proof.
  intros KN HF s Hin Hd Hc Hy. pose proof KN as [K [Hi [Ht Hca]]].
  unfold mapg in Hin. cbn [g_steps with_steps] in Hin.
  apply in_map_iff in Hin. destruct Hin as [s0 [<- Hin]].
  rewrite Hi, (k_key f K), new_val_mapg by exact K.
  rewrite (new_val_ext g (vals_of (mapg f g)) (vals_of g)) by (intros; apply vals_of_mapg; exact KN).
  rewrite (k_detached f K) in Hd. rewrite Hca in Hc.
  apply HF; try assumption.
  intros y Hyc. rewrite <- (seed0_mapg f g KN). apply Hy.
  rewrite (k_key f K), cons_keys_mapg by exact K. exact Hyc.
Qed.

Lemma FlagInv_ready_mapg f g : keeps_ready f -> FlagInv_ready g -> FlagInv_ready (mapg f g).
Proof.
  intros [K [Hr Hc]] HF s Hin Hchk. unfold mapg in Hin. cbn [g_steps with_steps] in Hin.
  apply in_map_iff in Hin. destruct Hin as [s0 [<- Hin]].
  rewrite Hr, (k_key f K). rewrite Hc in Hchk. unfold mapg. rewrite ready_spec_steps. apply HF; assumption.
Qed.

Lemma upd_safe_keeps_need g pol : keeps_need (upd_safe g pol).
Proof.
  split; [apply upd_safe_keeps|].
  repeat split; intros s; unfold upd_safe; destruct (merge_vals pol (trace_vals (safe_fuel_of g) g s)); reflexivity.
Qed.
Lemma upd_safe_keeps_ready g pol : keeps_ready (upd_safe g pol).
Proof.
  split; [apply upd_safe_keeps|].
  split; intros s; unfold upd_safe; destruct (merge_vals pol (trace_vals (safe_fuel_of g) g s)); reflexivity.
Qed.
Lemma wb_keeps_ready v : keeps_ready (wb v).
Proof. split; [apply wb_keeps|]. split; intros s; reflexivity. Qed.
Lemma wb_keeps_safe v : keeps_safe (wb v).
Proof. split; [apply wb_keeps|]. repeat split; intros s; reflexivity. Qed.

Definition upd_ready (g : graph) (s : step) : step :=
  if s_chk_ready s then set_ready s (ready_spec g (s_key s)) false else s.
Lemma upd_ready_keeps g : keeps (upd_ready g).
Proof. constructor; intros s; unfold upd_ready; destruct (s_chk_ready s); reflexivity. Qed.
Lemma upd_ready_keeps_safe g : keeps_safe (upd_ready g).
Proof.
  split; [apply upd_ready_keeps|].
  repeat split; intros s; unfold upd_ready; destruct (s_chk_ready s); reflexivity.
Qed.
Lemma upd_ready_keeps_need g : keeps_need (upd_ready g).
Proof.
  split; [apply upd_ready_keeps|].
  repeat split; intros s; unfold upd_ready; destruct (s_chk_ready s); reflexivity.
Qed.
Lemma update_meta_ready_mapg g : update_meta_ready g = mapg (upd_ready g) g.
Proof. reflexivity. Qed.

Definition FlagInv (g : graph) : Prop := FlagInv_safe g /\ FlagInv_need g /\ FlagInv_ready g.
Definition Acyclic (g : graph) : Prop := CreatorAcyclic g /\ DepAcyclic g.

(* every cached scheduling attribute of every step equals its definition; no flag remains *)
Definition AllCorrect (g : graph) : Prop :=
  forall s, In s (g_steps g) ->
    (s_safe s, s_safe_nh s) = safe_spec g s /\
    (s_detached s = false -> s_ineed s = need_spec g (s_key s)) /\
    s_ready s = ready_spec g (s_key s) /\
    s_chk_safe s = false /\ s_chk_after s = false /\ s_chk_ready s = false.

Theorem update_meta_correct_gen g :
  WF g -> Acyclic g -> FlagInv g ->
  (safe_merge = MergeDeepest \/ NoStaleLow g) ->
  exists g', update_meta g = Some g' /\ AllCorrect g' /\
             (exists f, keeps f /\ g' = mapg f g).
Proof.
  intros Hwf [Hca Hda] [HFs [HFn HFr]] Hpol.
  set (g1 := update_meta_safe g).
  assert (E1 : g1 = mapg (upd_safe g safe_merge) g) by reflexivity.
  assert (K1 := upd_safe_keeps g safe_merge).
  assert (Hwf1 : WF g1) by (rewrite E1; apply WF_mapg; assumption).
  assert (Hda1 : DepAcyclic g1) by (rewrite E1; apply DepAcyclic_mapg; assumption).
  assert (HFn1 : FlagInv_need g1) by (rewrite E1; apply FlagInv_need_mapg; [apply upd_safe_keeps_need | assumption]).
  destruct (update_meta_after_correct g1 Hwf1 Hda1 HFn1) as [g2 [Hu2 H2]].
  assert (Hg2 : exists vf, g2 = mapg (wb vf) g1).
  { unfold update_meta_after in Hu2.
    destruct (after_loop (S (length (g_steps g1))) true g1 (vals_of g1) (seed0 g1)) as [vf|]; [|discriminate].
    injection Hu2 as <-. exists vf. reflexivity. }
  destruct Hg2 as [vf E2].
  set (g3 := update_meta_ready g2).
  assert (E3 : g3 = mapg (upd_ready g2) g2) by reflexivity.
  exists g3. split; [|split].
  - unfold update_meta. fold g1. rewrite Hu2. reflexivity.
  - assert (HFr2 : FlagInv_ready g2).
    { rewrite E2. apply FlagInv_ready_mapg; [apply wb_keeps_ready|].
      rewrite E1. apply FlagInv_ready_mapg; [apply upd_safe_keeps_ready | assumption]. }
    intros s3 Hin3.
    destruct (update_meta_ready_correct g2 HFr2 s3 Hin3) as [Hr3 Hcr3]. fold g3 in Hr3.
    rewrite E3 in Hin3. unfold mapg in Hin3. cbn [g_steps with_steps] in Hin3.
    apply in_map_iff in Hin3. destruct Hin3 as [s2 [<- Hin2]].
    destruct (H2 s2 Hin2) as [Hca2 Hn2].
    pose proof Hin2 as Hin2'. rewrite E2 in Hin2'. unfold mapg in Hin2'. cbn [g_steps with_steps] in Hin2'.
    apply in_map_iff in Hin2'. destruct Hin2' as [s1 [Es1 Hin1]].
    destruct (update_meta_safe_correct_gen safe_merge g Hca HFs Hpol s1 Hin1) as [Hs1 Hcs1].
    destruct (upd_ready_keeps_safe g2) as [K3 [Hs3a [Hs3b Hs3c]]].
    destruct (upd_ready_keeps_need g2) as [_ [Hn3a [_ Hn3c]]].
    destruct (wb_keeps_safe vf) as [K2 [Hs2a [Hs2b Hs2c]]].
    repeat split.
    + rewrite E3, safe_spec_mapg by exact K3. rewrite Hs3a, Hs3b.
      rewrite <- Es1. rewrite E2, safe_spec_mapg by exact K2. rewrite Hs2a, Hs2b. exact Hs1.
    + intros Hd. rewrite E3, need_spec_mapg by exact K3. rewrite Hn3a, (k_key _ K3).
      apply Hn2. rewrite <- Hd. symmetry. apply (k_detached _ K3).
    + exact Hr3.
    + rewrite Hs3c, <- Es1, Hs2c. exact Hcs1.
    + rewrite Hn3c. exact Hca2.
    + exact Hcr3.
  - exists (fun s => upd_ready g2 (wb vf (upd_safe g safe_merge s))). split.
    + assert (K2 := wb_keeps vf). assert (K3 := upd_ready_keeps g2).
      constructor; intros s; cbv beta.
      * rewrite (k_key _ K3), (k_key _ K2), (k_key _ K1); reflexivity.
      * rewrite (k_state _ K3), (k_state _ K2), (k_state _ K1); reflexivity.
      * rewrite (k_need _ K3), (k_need _ K2), (k_need _ K1); reflexivity.
      * rewrite (k_deferred _ K3), (k_deferred _ K2), (k_deferred _ K1); reflexivity.
      * rewrite (k_holding _ K3), (k_holding _ K2), (k_holding _ K1); reflexivity.
      * rewrite (k_detached _ K3), (k_detached _ K2), (k_detached _ K1); reflexivity.
      * rewrite (k_creator _ K3), (k_creator _ K2), (k_creator _ K1); reflexivity.
      * rewrite (k_stored _ K3), (k_stored _ K2), (k_stored _ K1); reflexivity.
      * rewrite (k_hh _ K3), (k_hh _ K2), (k_hh _ K1); reflexivity.
      * rewrite (k_duration _ K3), (k_duration _ K2), (k_duration _ K1); reflexivity.
      * rewrite (k_res _ K3), (k_res _ K2), (k_res _ K1); reflexivity.
    + rewrite E3, E2, E1. unfold mapg. cbn [g_steps with_steps g_files g_others g_deps g_targets g_tdirs g_avail g_threshold].
      rewrite !map_map. reflexivity.
Qed.

(* ------------------------------------------------------------------------------------------ *)
(* What the generated SQL fragments say                                                       *)
(* ------------------------------------------------------------------------------------------ *)

Lemma b2n_truth b : truth (Some (b2n b)) = Some b.
Proof. destruct b; reflexivity. Qed.

Lemma dispatch_where_meaning st safe hh safe_nh df ineed rdy :
  sholds (senv_vals st safe hh safe_nh df ineed rdy) gen_dispatch_where =
  (st =? ST_PENDING) && (safe || (hh && safe_nh)) && negb df && (ND_OPTIONAL <? ineed) && rdy.
Proof.
  unfold sholds, gen_dispatch_where, ST_PENDING, ND_OPTIONAL.
  cbn [seval senv_vals cmp_eval option_map].
  rewrite !b2n_truth.
  destruct (st =? 21), safe, hh, safe_nh, df, (31 <? ineed), rdy; reflexivity.
Qed.

Lemma unavailable_meaning f d :
  sholds (ienv f d) gen_unavailable_input =
  (f_state f =? FS_VOLATILE)
  || (d_dyn d && negb (f_detached f) && mem_N (f_state f) [FS_PLANNED; FS_OUTDATED])
  || (negb (d_dyn d) && (f_detached f || negb (mem_N (f_state f) [FS_BUILT; FS_CONFIRMED]))).
Proof.
  unfold sholds, gen_unavailable_input, FS_VOLATILE, FS_PLANNED, FS_OUTDATED, FS_BUILT, FS_CONFIRMED.
  cbn [seval ienv cmp_eval option_map].
  destruct (d_dyn d); cbn [seval ienv cmp_eval option_map]; rewrite ?b2n_truth;
  destruct (f_state f =? 18), (f_detached f), (mem_N (f_state f) [15; 17]), (mem_N (f_state f) [16; 14]); reflexivity.
Qed.

Lemma regular_output_meaning f :
  regular_output f = negb (f_detached f) && negb (f_state f =? FS_VOLATILE).
Proof.
  unfold regular_output, sholds, gen_regular_output, FS_VOLATILE.
  cbn [seval oenv cmp_eval option_map]. rewrite ?b2n_truth.
  destruct (f_detached f), (f_state f =? 18); reflexivity.
Qed.

Lemma state_triggers_meaning st h :
  sholds (nenv st h) trg_reset_holding_when = negb (st =? ST_RUNNING) && negb (h =? 0) /\
  sholds (nenv st h) trg_clear_deferred_when = mem_N st [ST_SUCCEEDED; ST_FAILED] /\
  sholds (nenv st h) trg_reset_defer_count_when = (st =? ST_SUCCEEDED).
Proof.
  unfold sholds, trg_reset_holding_when, trg_clear_deferred_when, trg_reset_defer_count_when,
    ST_RUNNING, ST_SUCCEEDED, ST_FAILED.
  cbn [seval nenv cmp_eval option_map]. rewrite ?b2n_truth.
  repeat split.
  - destruct (st =? 22), (h =? 0); reflexivity.
  - destruct (mem_N st [23; 24]); reflexivity.
  - destruct (st =? 23); reflexivity.
Qed.

(* ------------------------------------------------------------------------------------------ *)
(* Dispatch                                                                                   *)
(* ------------------------------------------------------------------------------------------ *)

Definition HasHashInv (g : graph) : Prop :=
  forall s, In s (g_steps g) -> s_has_hash s = s_hash_stored s.

Lemma HasHashInv_mapg f g : keeps f -> HasHashInv g -> HasHashInv (mapg f g).
Proof.
  intros K H s Hin. unfold mapg in Hin. cbn [g_steps with_steps] in Hin.
  apply in_map_iff in Hin. destruct Hin as [s0 [<- Hin]].
  rewrite (k_hh f K), (k_stored f K). apply H. exact Hin.
Qed.

Lemma eligible_cached_is_spec g s : AllCorrect g -> HasHashInv g -> In s (g_steps g) ->
  eligible_cached g s = eligible_spec g s.
Proof.
  intros HA HH Hin. destruct (HA s Hin) as [Hs [Hn [Hr _]]].
  unfold eligible_cached, eligible_spec, senv.
  rewrite <- (HH s Hin), <- Hr, <- Hs. cbn [fst snd].
  destruct (s_detached s) eqn:Ed.
  - cbn [negb]. rewrite !andb_false_r. reflexivity.
  - rewrite <- (Hn eq_refl). reflexivity.
Qed.

Theorem dispatch_only_eligible_gen g :
  WF g -> Acyclic g -> FlagInv g -> HasHashInv g ->
  (safe_merge = MergeDeepest \/ NoStaleLow g) ->
  exists g', update_meta g = Some g' /\ AllCorrect g' /\
    forall s, In s (dispatch_set g') <-> (In s (g_steps g') /\ eligible_spec g' s = true).
Proof.
  intros Hwf Hac HF HH Hpol.
  destruct (update_meta_correct_gen g Hwf Hac HF Hpol) as [g' [Hu [HA [f [K ->]]]]].
  exists (mapg f g). split; [exact Hu|]. split; [exact HA|].
  intros s. unfold dispatch_set. rewrite filter_In. split; intros [H1 H2]; split; try exact H1.
  - rewrite <- eligible_cached_is_spec; auto. apply HasHashInv_mapg; assumption.
  - rewrite eligible_cached_is_spec; auto. apply HasHashInv_mapg; assumption.
Qed.

(* a step that is dispatched to run its command (no stored hash) is safe in the strict sense and
   has its resources free; every dispatched step is PENDING, attached, needed above the threshold,
   not deferred, with all inputs available *)
Lemma eligible_spec_meaning g s : eligible_spec g s = true ->
  s_state s = ST_PENDING /\ s_detached s = false /\ s_deferred s = false /\
  ND_OPTIONAL < need_spec g (s_key s) /\ g_threshold g < need_spec g (s_key s) /\
  ready_spec g (s_key s) = true /\
  (fst (safe_spec g s) = true \/ (s_hash_stored s = true /\ snd (safe_spec g s) = true)) /\
  (s_hash_stored s = true \/ res_unavailable g s = false).
Proof.
  unfold eligible_spec. rewrite dispatch_where_meaning. intros H.
  apply andb_true_iff in H; destruct H as [H Hres].
  apply andb_true_iff in H; destruct H as [H Hdet].
  apply andb_true_iff in H; destruct H as [H Hthr].
  apply andb_true_iff in H; destruct H as [H Hrdy].
  apply andb_true_iff in H; destruct H as [H Hopt].
  apply andb_true_iff in H; destruct H as [H Hdf].
  apply andb_true_iff in H; destruct H as [Hst Hsafe].
  repeat split.
  - apply N.eqb_eq. exact Hst.
  - destruct (s_detached s); [discriminate | reflexivity].
  - destruct (s_deferred s); [discriminate | reflexivity].
  - apply N.ltb_lt. exact Hopt.
  - apply N.ltb_lt. exact Hthr.
  - exact Hrdy.
  - apply orb_true_iff in Hsafe. destruct Hsafe as [Hx|Hx].
    + left; exact Hx.
    + right. apply andb_true_iff in Hx. exact Hx.
  - apply orb_true_iff in Hres. destruct Hres as [Hx|Hx].
    + left; exact Hx.
    + right. destruct (res_unavailable g s); [discriminate | reflexivity].
Qed.

Theorem phase_end_nothing_eligible_gen g njob running done hs :
  WF g -> Acyclic g -> FlagInv g -> HasHashInv g ->
  (safe_merge = MergeDeepest \/ NoStaleLow g) ->
  0 < njob ->
  job_loop_may_end njob running done hs (job_loop_pop njob running hs false g) = true ->
  running = 0 /\ done = 0 /\
  exists g', update_meta g = Some g' /\ AllCorrect g' /\
             forall s, In s (g_steps g') -> eligible_spec g' s = false.
Proof.
  intros Hwf Hac HF HH Hpol Hnj Hend.
  unfold job_loop_may_end in Hend.
  repeat (apply andb_true_iff in Hend; destruct Hend as [Hend ?]).
  match goal with Hx : (running =? 0) = true |- _ => apply N.eqb_eq in Hx; subst running end.
  match goal with Hx : (done =? 0) = true |- _ => apply N.eqb_eq in Hx; subst done end.
  split; [reflexivity|]. split; [reflexivity|].
  destruct (dispatch_only_eligible_gen g Hwf Hac HF HH Hpol) as [g' [Hu [HA Hd]]].
  exists g'. split; [exact Hu|]. split; [exact HA|].
  intros s Hin. destruct (eligible_spec g' s) eqn:E; [|reflexivity]. exfalso.
  assert (Hs : In s (dispatch_set g')) by (apply Hd; split; assumption).
  unfold job_loop_pop in *. destruct hs; [discriminate|].
  apply N.ltb_lt in Hnj. rewrite Hnj in *. rewrite Hu in *.
  destruct (dispatch_set g') as [|x l]; [destruct Hs|]. cbn in *. discriminate.
Qed.

(* ------------------------------------------------------------------------------------------ *)
(* Defer cap                                                                                  *)
(* ------------------------------------------------------------------------------------------ *)

Lemma apply_state_fields s st df :
  s_state (apply_state s st df) = st /\
  s_defer_count (apply_state s st df) = (if st =? ST_SUCCEEDED then 0 else s_defer_count s).
Proof.
  unfold apply_state. destruct (state_triggers_meaning st (s_holding s)) as [_ [_ H3]].
  rewrite H3. cbn [set_life s_state s_defer_count]. split; reflexivity.
Qed.

Lemma complete_defer_within cap u s : s_defer_count s + 1 <= cap ->
  s_state (complete_defer cap u s) = ST_PENDING /\
  s_defer_count (complete_defer cap u s) = s_defer_count s + 1.
Proof.
  intros H. unfold complete_defer, defer_within_cap. cbn [cmp_eval].
  apply N.leb_le in H. rewrite H.
  destruct (apply_state_fields (set_life s (s_state s) (s_deferred s) (s_defer_count s + 1) (s_holding s))
              defer_state_within u) as [H1 H2].
  rewrite H1, H2. split; reflexivity.
Qed.

Lemma complete_defer_beyond cap u s : cap < s_defer_count s + 1 ->
  s_state (complete_defer cap u s) = ST_FAILED /\
  s_defer_count (complete_defer cap u s) = s_defer_count s + 1.
Proof.
  intros H. unfold complete_defer, defer_within_cap. cbn [cmp_eval].
  apply N.leb_gt in H. rewrite H.
  destruct (apply_state_fields (set_life s (s_state s) (s_deferred s) (s_defer_count s + 1) (s_holding s))
              defer_state_beyond false) as [H1 H2].
  rewrite H1, H2. split; reflexivity.
Qed.

Definition no_success (e : cevent) : Prop :=
  match e with EvSucceed => False | EvSetState st _ => st <> ST_SUCCEEDED | _ => True end.
Fixpoint count_defers (l : list cevent) : N :=
  match l with [] => 0 | EvDefer _ :: r => 1 + count_defers r | _ :: r => count_defers r end.
Definition run_events (cap : N) (s : step) (l : list cevent) : step := fold_left (apply_cevent cap) l s.

Lemma defer_count_one cap s e : no_success e ->
  s_defer_count (apply_cevent cap s e) = s_defer_count s + count_defers [e].
Proof.
  intros H. destruct e as [u| | |st df]; cbn [apply_cevent count_defers].
  - destruct (N.le_gt_cases (s_defer_count s + 1) cap) as [Hc|Hc].
    + destruct (complete_defer_within cap u s Hc) as [_ ->]. lia.
    + destruct (complete_defer_beyond cap u s Hc) as [_ ->]. lia.
  - destruct (apply_state_fields s fail_state false) as [_ ->]. cbn. lia.
  - destruct H.
  - destruct (apply_state_fields s st df) as [_ ->]. cbn in H.
    apply N.eqb_neq in H. rewrite H. lia.
Qed.

Lemma count_defers_app l1 l2 : count_defers (l1 ++ l2) = count_defers l1 + count_defers l2.
Proof.
  induction l1 as [|e l1 IH]; [reflexivity|].
  destruct e; cbn [app count_defers]; rewrite IH; lia.
Qed.

Lemma defer_count_run cap l : forall s, Forall no_success l ->
  s_defer_count (run_events cap s l) = s_defer_count s + count_defers l.
Proof.
  induction l as [|e l IH]; intros s H; [cbn; lia|].
  inversion H as [|? ? He Hl]; subst. unfold run_events in *. cbn [fold_left].
  rewrite IH by exact Hl. rewrite (defer_count_one cap s e He).
  change (e :: l) with ([e] ++ l). rewrite count_defers_app. lia.
Qed.

(* Without an intervening SUCCEEDED, the defer that brings the count beyond the cap FAILS the
   step; at most `cap` defers since the last success leave it PENDING. *)
Theorem defer_cap_bound_gen cap s l u :
  Forall no_success l -> cap < s_defer_count s + count_defers l + 1 ->
  s_state (run_events cap s (l ++ [EvDefer u])) = ST_FAILED.
Proof.
  intros Hl Hc. unfold run_events. rewrite fold_left_app. cbn [fold_left apply_cevent].
  fold (run_events cap s l).
  apply complete_defer_beyond. rewrite (defer_count_run cap l s Hl). exact Hc.
Qed.

Theorem defer_within_cap_pending cap s l u :
  Forall no_success l -> s_defer_count s + count_defers l + 1 <= cap ->
  s_state (run_events cap s (l ++ [EvDefer u])) = ST_PENDING.
Proof.
  intros Hl Hc. unfold run_events. rewrite fold_left_app. cbn [fold_left apply_cevent].
  fold (run_events cap s l).
  apply complete_defer_within. rewrite (defer_count_run cap l s Hl). exact Hc.
Qed.

(* ------------------------------------------------------------------------------------------ *)
(* Reflection of the decidable invariants                                                     *)
(* ------------------------------------------------------------------------------------------ *)

Lemma bpair_eqb_eq a b : bpair_eqb a b = true <-> a = b.
Proof.
  unfold bpair_eqb. destruct a as [a1 a2], b as [b1 b2]. cbn [fst snd].
  rewrite andb_true_iff, !eqb_true_iff. split; [intros [-> ->]; reflexivity | intros H; injection H; auto].
Qed.

Lemma flaginv_ready_refl g : flaginv_ready_b g = true <-> FlagInv_ready g.
Proof.
  unfold flaginv_ready_b, FlagInv_ready. rewrite forallb_forall. split; intros H s Hin.
  - intros Hc. specialize (H s Hin). rewrite Hc in H. cbn in H. apply eqb_prop in H. exact H.
  - destruct (s_chk_ready s) eqn:E; [reflexivity|]. cbn. rewrite (H s Hin E). apply eqb_reflx.
Qed.

Lemma flaginv_need_refl g : flaginv_need_b g = true <-> FlagInv_need g.
Proof.
  unfold flaginv_need_b, FlagInv_need. rewrite forallb_forall. split; intros H s Hin.
  - intros Hd Hc Hy. specialize (H s Hin). rewrite Hd, Hc in H. cbn [orb] in H.
    apply orb_true_iff in H. destruct H as [H|H]; [|apply N.eqb_eq; exact H].
    exfalso. apply existsb_exists in H. destruct H as [y [Hy1 Hy2]]. apply mem_N_In in Hy2.
    exact (Hy y Hy1 Hy2).
  - destruct (s_detached s) eqn:Ed; [reflexivity|]. destruct (s_chk_after s) eqn:Ec; [reflexivity|].
    cbn [orb].
    destruct (existsb (fun y => mem_N y (seed0 g)) (cons_keys g (s_key s))) eqn:Ee; [reflexivity|].
    cbn [orb]. apply N.eqb_eq. apply H; try assumption.
    intros y Hy Hys. assert (existsb (fun y => mem_N y (seed0 g)) (cons_keys g (s_key s)) = true).
    { apply existsb_exists. exists y. split; [exact Hy | apply mem_N_In; exact Hys]. }
    congruence.
Qed.

Lemma flaginv_safe_refl g : flaginv_safe_b g = true <-> FlagInv_safe g.
Proof.
  unfold flaginv_safe_b, FlagInv_safe, L. rewrite forallb_forall. split; intros H s Hin.
  - intros Ha. specialize (H s Hin). rewrite Ha in H. cbn [orb] in H. apply bpair_eqb_eq in H. exact H.
  - destruct (aflag (S (length (g_steps g))) g s) eqn:E; [reflexivity|]. cbn [orb].
    apply bpair_eqb_eq. apply H; assumption.
Qed.

Lemma nostalelow_refl g : nostalelow_b g = true -> NoStaleLow g.
Proof.
  unfold nostalelow_b, NoStaleLow. rewrite forallb_forall. intros H s c Hin Hc Hcr.
  specialize (H s Hin). rewrite Hc, Hcr in H. cbn [negb orb] in H.
  apply andb_true_iff in H. destruct H as [H1 H2].
  split; intros Hx; [rewrite Hx in H1 | rewrite Hx in H2]; cbn in *; assumption.
Qed.

Lemma has_hash_inv_refl g : has_hash_inv_b g = true <-> HasHashInv g.
Proof.
  unfold has_hash_inv_b, HasHashInv. rewrite forallb_forall.
  split; intros H s Hin; specialize (H s Hin); [apply eqb_prop; exact H | rewrite H; apply eqb_reflx].
Qed.

Lemma allcorrect_refl g : allcorrect_b g = true <-> AllCorrect g.
Proof.
  unfold allcorrect_b, AllCorrect. rewrite forallb_forall. split; intros H s Hin; specialize (H s Hin).
  - apply andb_true_iff in H; destruct H as [H Hc3].
    apply andb_true_iff in H; destruct H as [H Hc2].
    apply andb_true_iff in H; destruct H as [H Hc1].
    apply andb_true_iff in H; destruct H as [H Hr].
    apply andb_true_iff in H; destruct H as [Hs Hn].
    split; [apply bpair_eqb_eq; exact Hs|].
    split; [intros Hd; rewrite Hd in Hn; cbn in Hn; apply N.eqb_eq in Hn; exact Hn|].
    split; [apply eqb_prop; exact Hr|].
    split; [destruct (s_chk_safe s); [discriminate | reflexivity]|].
    split; [destruct (s_chk_after s); [discriminate | reflexivity]|].
    destruct (s_chk_ready s); [discriminate | reflexivity].
  - destruct H as [H1 [H2 [H3 [H4 [H5 H6]]]]]. rewrite H4, H5, H6, <- H3, eqb_reflx. cbn [negb andb].
    rewrite !andb_true_r. apply andb_true_iff. split; [apply bpair_eqb_eq; exact H1|].
    destruct (s_detached s); [reflexivity|]. cbn [orb]. apply N.eqb_eq. apply H2. reflexivity.
Qed.

Lemma nodup_b_refl l : nodup_b l = true -> NoDup l.
Proof.
  induction l as [|a l IH]; intros H; [constructor|].
  cbn [nodup_b] in H. apply andb_true_iff in H. destruct H as [H1 H2].
  constructor; [|apply IH; exact H2]. apply negb_true_iff in H1. apply mem_N_false in H1. exact H1.
Qed.
Lemma wf_refl g : wf_b g = true -> WF g.
Proof. apply nodup_b_refl. Qed.

Lemma creator_rank_refl g rank : creator_rank_b g rank = true -> CreatorRank g rank.
Proof.
  unfold creator_rank_b, CreatorRank. rewrite forallb_forall. intros H. split.
  - intros s c Hin Hc. specialize (H s Hin). rewrite Hc in H. apply andb_true_iff in H.
    destruct H as [H _]. apply Nat.ltb_lt in H. exact H.
  - intros s Hin. specialize (H s Hin). apply andb_true_iff in H. destruct H as [_ H].
    apply Nat.ltb_lt in H. exact H.
Qed.

Lemma cons_keys_src g k y : In y (cons_keys g k) -> In k (map d_src (g_deps g)).
Proof.
  unfold cons_keys. intros H. apply in_flat_map in H. destruct H as [d1 [Hd1 H]].
  destruct (d_src d1 =? k) eqn:E; [|destruct H]. apply N.eqb_eq in E. subst k.
  apply in_map. exact Hd1.
Qed.

Lemma need_rank_refl g rank : need_rank_b g rank = true -> NeedRank g rank.
Proof.
  unfold need_rank_b, NeedRank. intros H. apply andb_true_iff in H. destruct H as [H1 H2].
  rewrite forallb_forall in H1, H2. split.
  - intros k y Hy. specialize (H1 k (cons_keys_src g k y Hy)). rewrite forallb_forall in H1.
    apply Nat.ltb_lt. apply H1. exact Hy.
  - intros k Hk. apply Nat.ltb_lt. apply H2. exact Hk.
Qed.
