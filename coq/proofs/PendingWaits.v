(* C19: the attribution walk is exactly "follow the primary BLOCK_STEP edges up to a root": a step is
   attributed to a root iff its chain of primary blockers reaches the step whose recorded cause that
   root is; a step is in the cyclic residue iff its chain never reaches a root. *)
From Coq Require Import List Arith NArith Bool Lia.
From SV Require Import lib.Bytes lib.SqlExpr model.PendingTypes gen.GenPending model.Pending
  proofs.PendingGenSpec proofs.PendingProofs proofs.PendingSound.
Import ListNotations.
Open Scope N_scope.

Section Chain.
  Variable B : list (N * cand).
  Hypothesis Bfun : NoDup (map fst B).

  (* d reaches the seed row whose blocker is `root` through n non-seed rows *)
  Fixpoint chainN (n : nat) (d : N) (root : cand) : Prop :=
    match n with
    | O => In (d, root) B /\ is_seed (d, root) = true
    | S k => exists c, In (d, c) B /\ is_seed (d, c) = false /\ chainN k (c_src c) root
    end.

  Lemma level_S : forall n F, level B (S n) F = wstep B (level B n F).
  Proof.
    induction n as [|n IH]; intros F; [reflexivity|].
    change (level B (S (S n)) F) with (level B (S n) (wstep B F)). rewrite IH. reflexivity.
  Qed.

  Lemma in_wstep F d root : In (d, root) (wstep B F) <->
    exists i, In (i, root) F /\ In d (children B i).
  Proof.
    unfold wstep. rewrite in_flat_map. split.
    - intros [[i r] [Hir H]]. apply in_map_iff in H. destruct H as [d' [E Hd]]. cbn in E.
      inversion E; subst. exists i. auto.
    - intros [i [Hi Hd]]. exists (i, root). split; [exact Hi|]. apply in_map_iff. exists d. auto.
  Qed.

  Lemma chain_level : forall n d root, chainN n d root -> In (d, root) (level B n (seeds B)).
  Proof.
    induction n as [|n IH]; intros d root H.
    - cbn in H |- *. unfold seeds. apply filter_In. exact H.
    - destruct H as [c [Hc [Hs Hch]]]. rewrite level_S. apply in_wstep. exists (c_src c).
      split; [apply IH; exact Hch|]. apply (in_children B). exists c. auto.
  Qed.

  Lemma level_chain : forall n d root, In (d, root) (level B n (seeds B)) -> chainN n d root.
  Proof.
    induction n as [|n IH]; intros d root H.
    - cbn in H |- *. unfold seeds in H. apply filter_In in H. exact H.
    - rewrite level_S in H. apply in_wstep in H. destruct H as [i [Hi Hd]].
      apply (in_children B) in Hd. destruct Hd as [c [Hc [Hs Hi']]]. exists c. subst i. auto.
  Qed.

  Lemma walk_levels : forall k row, In row (walk B k (seeds B)) <->
    exists n, (n < k)%nat /\ In row (level B n (seeds B)).
  Proof.
    induction k as [|k IH]; intros row.
    - cbn. split; [tauto|]. intros [n [Hn _]]. lia.
    - rewrite walk_snoc, in_app_iff, IH. split.
      + intros [[n [Hn H]]|H]; [exists n; split; [lia|exact H]|exists k; split; [lia|exact H]].
      + intros [n [Hn H]]. destruct (Nat.eq_dec n k) as [->|Hne]; [right; exact H|left].
        exists n. split; [lia|exact H].
  Qed.

  Lemma seeds_ok :
    NoDup (ids (seeds B)) /\ (forall x, In x (ids (seeds B)) -> depth B 0 x) /\ incl (ids (seeds B)) (ids B).
  Proof.
    split; [unfold ids, seeds; apply NoDup_map_filter; exact Bfun|]. split; [apply seeds_depth0|].
    intros x Hx. unfold ids, seeds in *. apply in_map_iff in Hx. destruct Hx as [r [Hr Hin]].
    apply filter_In in Hin. apply in_map_iff. exists r. tauto.
  Qed.

  Lemma level_depth_bound n : level B n (seeds B) <> [] -> (n <= length B)%nat.
  Proof.
    intros H. apply level_nonempty_length in H. destruct seeds_ok as [H1 [H2 H3]].
    pose proof (walk_length_bound B Bfun n (seeds B) 0%nat H1 H2 H3). lia.
  Qed.

  (* the walk with the model's fuel = all chains *)
  Theorem attributed_iff_chain d root :
    In (d, root) (attributed_of B) <-> exists n, chainN n d root.
  Proof.
    unfold attributed_of. rewrite walk_levels. split.
    - intros [n [_ H]]. exists n. apply level_chain. exact H.
    - intros [n H]. apply chain_level in H. exists n. split; [|exact H].
      assert (Hne : level B n (seeds B) <> []) by (intros E; rewrite E in H; destruct H).
      apply level_depth_bound in Hne. lia.
  Qed.
End Chain.

(* On a snapshot: the relation "u is reported under root". *)
Inductive reported_under (sn : snap) : N -> cand -> Prop :=
| RU_root u : In u (U sn) -> c_kind (primary sn u) <> K_BLOCK_STEP ->
    reported_under sn (s_id u) (primary sn u)
| RU_wait u root : In u (U sn) -> c_kind (primary sn u) = K_BLOCK_STEP ->
    reported_under sn (c_src (primary sn u)) root -> reported_under sn (s_id u) root.

Lemma blocker_row_iff sn (Hwf : wf_snap sn) d c :
  In (d, c) (blocker_rows sn) <-> exists u, In u (U sn) /\ s_id u = d /\ primary sn u = c.
Proof.
  unfold blocker_rows. rewrite in_map_iff. split.
  - intros [u [E Hu]]. inversion E. exists u. auto.
  - intros [u [Hu [<- <-]]]. exists u. auto.
Qed.

Lemma is_seed_kind d c : is_seed (d, c) = negb (c_kind c =? K_BLOCK_STEP).
Proof. apply is_seed_spec. Qed.

Theorem attributed_iff_reported sn : wf_snap sn -> forall i root,
  In (i, root) (attributed sn) <-> reported_under sn i root.
Proof.
  intros Hwf i root. unfold attributed.
  assert (HB : NoDup (map fst (blocker_rows sn))) by (rewrite blocker_ids; apply U_ids_nodup; exact Hwf).
  rewrite (attributed_iff_chain _ HB). split.
  - intros [n H]. revert i H. induction n as [|n IH]; intros i H.
    + destruct H as [Hin Hs]. apply (blocker_row_iff sn Hwf) in Hin. destruct Hin as [u [Hu [<- <-]]].
      apply RU_root; [exact Hu|]. rewrite is_seed_kind in Hs. apply negb_true_iff, N.eqb_neq in Hs. exact Hs.
    + destruct H as [c [Hin [Hs Hch]]]. apply (blocker_row_iff sn Hwf) in Hin. destruct Hin as [u [Hu [<- <-]]].
      apply RU_wait; [exact Hu| |apply IH; exact Hch].
      rewrite is_seed_kind in Hs. apply negb_false_iff, N.eqb_eq in Hs. exact Hs.
  - intros H. induction H as [u Hu Hk|u root Hu Hk _ [n IH]].
    + exists 0%nat. split; [apply (blocker_row_iff sn Hwf); eauto|].
      rewrite is_seed_kind. apply negb_true_iff, N.eqb_neq. exact Hk.
    + exists (S n), (primary sn u). split; [apply (blocker_row_iff sn Hwf); eauto|]. split; [|exact IH].
      rewrite is_seed_kind. apply negb_false_iff, N.eqb_eq. exact Hk.
Qed.

(* every waiting edge is a real block: the step waited for is in U and produces an input that is
   really unavailable to u, or is u's nearest chain-broken creator ancestor *)
Theorem wait_edge_real sn u : In u (U sn) -> c_kind (primary sn u) = K_BLOCK_STEP ->
  exists p, s_id p = c_src (primary sn u) /\ in_U sn p = true
            /\ (produces_blocking_input sn u p \/ broken_ancestor sn u p).
Proof.
  intros Hu Hk. pose proof (primary_cause_real sn u Hu) as Hc.
  inversion Hc as [f d ? ? ? Eq|name units ? ? Eq|p ? ? Eq|? ? Eq|a ? ? ? Eq|p Hin Hrel Eq|Hd Eq];
    rewrite <- Eq in Hk; try (cbv in Hk; discriminate Hk).
  exists p. try rewrite <- Eq. cbn. auto.
Qed.

(* the cyclic residue: pending steps whose chain of primary blockers reaches no root *)
Theorem cyclic_iff_no_root sn : wf_snap sn -> forall i,
  In i (cyclic_ids sn) <-> In i (U_ids sn) /\ forall root, ~ reported_under sn i root.
Proof.
  intros Hwf i. rewrite cyclic_ids_spec, filter_In. split.
  - intros [Hi Hm]. split; [exact Hi|]. intros root Hr. apply (attributed_iff_reported sn Hwf) in Hr.
    apply negb_true_iff in Hm. assert (X : memN i (map fst (attributed sn)) = true); [|congruence].
    apply memN_In. apply in_map_iff. exists (i, root). auto.
  - intros [Hi Hn]. split; [exact Hi|]. apply negb_true_iff.
    destruct (memN i (map fst (attributed sn))) eqn:E; [|reflexivity]. exfalso.
    apply memN_In, in_map_iff in E. destruct E as [[i' root] [E Hin]]. cbn in E. subst.
    apply (Hn root). apply (attributed_iff_reported sn Hwf). exact Hin.
Qed.
