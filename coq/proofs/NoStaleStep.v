(* C01, graph level: K and the life cycle of an ordinary step.
   - reset_for_rerun of a LEAF step (no amended outputs, no created steps, no static declarations,
     no trees: everything a plan step has is excluded, because detaching declarations breaks K on
     purpose until the plan has re-declared them) preserves K. *)
From Coq Require Import List NArith Bool Lia.
From SV Require Import lib.Bytes model.Graph model.NoStale proofs.NoStaleMark.
Import ListNotations.
Open Scope N_scope.

(* the state after the first two statements of Step.reset_for_rerun: amended input edges and
   amended variables are gone *)
Definition rr_pre (l : str) (s : st) : st :=
  let k := (KStep, l) in
  let s1 := del_deps_where (fun d => key_eqb (dsnk d) k && ddyn d) s in
  set_envs s1 (filter (fun e => negb (str_eqb (estep e) l && edyn e)) (envs s1)).

Definition leaf_step (l : str) (s : st) : Prop :=
  let k := (KStep, l) in
  let s2 := rr_pre l s in
  map dsnk (filter (fun d => key_eqb (dsrc d) k && ddyn d) (deps s2)) = [] /\
  filter (fun x => kind_eqb (fst x) KStep) (products k s2) = [] /\
  file_products_in l is_static_state s2 = [] /\
  filter (fun x => kind_eqb (fst x) KTree) (products k s2) = [].

Lemma reset_for_rerun_leaf (l : str) (s : st) :
  leaf_step l s ->
  reset_for_rerun l s
  = foldM (fun s f => mark_file_outdated f s) (file_products_in l is_built (rr_pre l s)) (rr_pre l s).
Proof.
  intros (H1 & H2 & H3 & H4). unfold reset_for_rerun. fold (rr_pre l s).
  cbv zeta. rewrite H1. cbn [foldM bind]. unfold detach_created_steps. rewrite H2. cbn [foldM bind].
  rewrite H3. cbn [foldM bind]. rewrite H4. cbn [foldM bind]. reflexivity.
Qed.

(* removing edges that END in a step does not touch the outputs of any step and can only shrink
   the inputs *)
Lemma sinks_after_del (p : dep -> bool) (r : str) (s : st) :
  (forall d, p d = true -> kind_eqb (fst (dsnk d)) KStep = true) ->
  file_sinks_of_step r (del_deps_where p s) = file_sinks_of_step r s.
Proof.
  intros Hp. unfold file_sinks_of_step, sinks_of, del_deps_where. cbn [deps set_deps].
  induction (deps s) as [|d ds IH]; [reflexivity|]. simpl.
  destruct (p d) eqn:Ep; simpl.
  - rewrite IH. destruct (key_eqb (dsrc d) (KStep, r)); [|reflexivity]. simpl.
    specialize (Hp d Ep). destruct (fst (dsnk d)); try discriminate. reflexivity.
  - destruct (key_eqb (dsrc d) (KStep, r)); simpl; [|exact IH].
    destruct (kind_eqb (fst (dsnk d)) KFile); simpl; rewrite IH; reflexivity.
Qed.

Lemma inputs_after_del (p : dep -> bool) (r : str) (s : st) (k : key) :
  In k (file_inputs_of_step r (del_deps_where p s)) -> In k (file_inputs_of_step r s).
Proof.
  unfold file_inputs_of_step, sources_of, del_deps_where. cbn [deps set_deps].
  rewrite !filter_In. intros [H Hk]. split; [|exact Hk]. apply in_map_iff in H.
  destruct H as (d & Hd & Hin). apply in_map_iff. exists d. split; [exact Hd|].
  apply filter_In in Hin. destruct Hin as [Hin Hs]. apply filter_In in Hin. destruct Hin as [Hin _].
  apply filter_In. auto.
Qed.

Lemma K_rr_pre (l : str) (s : st) : K_b s = true -> K_b (rr_pre l s) = true.
Proof.
  unfold K_b. rewrite !forallb_forall. intros HK r Hr. specialize (HK r Hr).
  set (p := fun d => key_eqb (dsnk d) (KStep, l) && ddyn d).
  assert (Hp : forall d, p d = true -> kind_eqb (fst (dsnk d)) KStep = true).
  { intros d H. unfold p in H. apply andb_true_iff in H. destruct H as [H _]. unfold key_eqb in H.
    apply andb_true_iff in H. destruct H as [H _]. exact H. }
  unfold K_step_b in *. destruct (sstate_eqb (sst r) SSucceeded); [|reflexivity].
  change (is_detached (KStep, sl r) (rr_pre l s)) with (is_detached (KStep, sl r) s).
  destruct (is_detached (KStep, sl r) s); [reflexivity|]. cbn [negb orb] in *.
  apply andb_true_iff in HK. destruct HK as [HK Ho]. apply andb_true_iff in HK. destruct HK as [Hh Hi].
  apply andb_true_iff. split; [apply andb_true_iff; split|].
  - exact Hh.
  - rewrite forallb_forall in *. intros k Hk.
    change (input_ok k (rr_pre l s)) with (input_ok k s). apply Hi.
    apply (inputs_after_del p (sl r) s k). exact Hk.
  - change (file_sinks_of_step (sl r) (rr_pre l s)) with (file_sinks_of_step (sl r) (del_deps_where p s)).
    rewrite (sinks_after_del p (sl r) s Hp). rewrite forallb_forall in *. intros f Hf.
    change (output_ok f (rr_pre l s)) with (output_ok f s). apply Ho. exact Hf.
Qed.

Lemma single_producer_rr_pre (l : str) (s : st) : single_producer s -> single_producer (rr_pre l s).
Proof.
  intros H f l1 l2 Ha A B.
  change (is_detached (KFile, f) (rr_pre l s)) with (is_detached (KFile, f) s) in Ha.
  set (p := fun d => key_eqb (dsnk d) (KStep, l) && ddyn d).
  assert (Hp : forall d, p d = true -> kind_eqb (fst (dsnk d)) KStep = true).
  { intros d Hd. unfold p in Hd. apply andb_true_iff in Hd. destruct Hd as [Hd _]. unfold key_eqb in Hd.
    apply andb_true_iff in Hd. destruct Hd as [Hd _]. exact Hd. }
  change (file_sinks_of_step l1 (rr_pre l s)) with (file_sinks_of_step l1 (del_deps_where p s)) in A.
  change (file_sinks_of_step l2 (rr_pre l s)) with (file_sinks_of_step l2 (del_deps_where p s)) in B.
  rewrite (sinks_after_del p l1 s Hp) in A. rewrite (sinks_after_del p l2 s Hp) in B. exact (H f l1 l2 Ha A B).
Qed.

(* Step.reset_for_rerun of a leaf step preserves K, provided the producers of its BUILT products
   (the step itself, which is RUNNING when this is called) are not SUCCEEDED *)
Lemma K_reset_for_rerun_leaf (l : str) (s s' : st) :
  unique_labels s -> single_producer s -> leaf_step l s ->
  (forall f, In f (file_products_in l is_built (rr_pre l s)) -> producers_not_succ (rr_pre l s) f) ->
  reset_for_rerun l s = Ok s' -> K_b s = true -> K_b s' = true.
Proof.
  intros Hu Hsp Hleaf Hprod H HK. rewrite (reset_for_rerun_leaf l s Hleaf) in H.
  pose proof (K_rr_pre l s HK) as HK2. pose proof (single_producer_rr_pre l s Hsp) as Hsp2.
  assert (Hu2 : unique_labels (rr_pre l s)) by exact Hu.
  destruct (foldM_marks (fun s0 f => mark_file_outdated f s0)
              (fun s0 f => single_producer s0 /\ producers_not_succ s0 f) (fun _ _ => True))
    with (l := file_products_in l is_built (rr_pre l s)) (s := rr_pre l s) (s' := s') as (M & C & _).
  - intros s0 f s0' [Q1 Q2] Hc. unfold mark_file_outdated in Hc.
    destruct (mark_mutual (fuel_of s0)) as [_ Hf]. destruct (Hf f s0 s0' Q1 Q2 Hc) as [Ma Ca]. auto.
  - intros s0 s0' f M [Q1 Q2]. split; [exact (single_producer_Mk _ _ M Q1)|exact (producers_not_succ_Mk _ _ f M Q2)].
  - auto.
  - intros f Hf. split; [exact Hsp2|exact (Hprod f Hf)].
  - exact H.
  - exact (K_Mk_Cl _ _ Hu2 M C HK2).
Qed.

Lemma K_op_reset_for_rerun_leaf (l : str) (s : st) :
  unique_labels s -> single_producer s -> leaf_step l s ->
  (forall f, In f (file_products_in l is_built (rr_pre l s)) -> producers_not_succ (rr_pre l s) f) ->
  K_b s = true -> K_b (apply_op s (OpResetForRerun l)) = true.
Proof.
  intros Hu Hsp Hleaf Hprod HK. unfold apply_op. cbn [step_op].
  destruct (reset_for_rerun l s) as [s'| |] eqn:E; try exact HK.
  exact (K_reset_for_rerun_leaf l s s' Hu Hsp Hleaf Hprod E HK).
Qed.
