(* C02: completion_commutes_partial.  The completion transaction of a step (OpExecEnd: the two
   update_file_hashes calls of the executor, then Step.mark_completed) against a static declaration
   by ANOTHER running step.
   Fragment: the completing step reports success and no output hashes (pre = hs = []: a plan step,
   whose work consists of declarations), none of its file products is OUTDATED (nothing to turn
   BUILT, hence no propagation to consumers), and the declaration does not take over a stale file
   that the completing step still owns (lostb = false: otherwise "drop the stored hash of the old
   owner" and "store the hash of the step that just succeeded" would be applied in an order that the
   schedule decides).  For an ATTACHED completing step this is no restriction: under Pst a detached
   product has a detached creator (attached_owner_not_lost), see completion_commutes_partial. *)
From Coq Require Import List NArith Bool Lia.
From SV Require Import lib.Bytes model.Graph model.GraphDump model.GraphInv model.Commute
                       proofs.CommuteProofs.
Import ListNotations.
Open Scope N_scope.

Definition done_view (v : option (sstate * need * bool * N * N)) :=
  match v with Some (_, nd, _, _, _) => Some (SSucceeded, nd, false, 0, 0) | None => None end.
Definition nodes_uniq (s : st) : Prop := nodup_by key_eqb (map nk (nodes s)) = true.
Definition no_outdated_products (l : str) (s : st) : Prop := file_products_in l is_outdated s = [].

Record end_spec (l : str) (s s' : st) : Prop := mkES {
  es_nodes : nodes s' = nodes s; es_files : files s' = files s; es_deps : deps s' = deps s;
  es_envs : envs s' = envs s; es_cap : defer_cap s' = defer_cap s;
  es_step : forall x, step_view x s' = if str_eqb x l then done_view (step_view x s) else step_view x s;
  es_hash : forall x, has_hash x s' = has_hash x s || str_eqb x l }.

Lemma ufh_nil c s : update_file_hashes c [] s = Ok s.
Proof. reflexivity. Qed.

Lemma fpi_same l p s1 s :
  nodes s1 = nodes s -> files s1 = files s -> file_products_in l p s1 = file_products_in l p s.
Proof.
  intros Hn Hf. unfold file_products_in, products, fstate_of, find_file. rewrite Hn, Hf. reflexivity.
Qed.

Lemma end_ok_spec l c wd s s' :
  step_op (OpExecEnd l [] c [] true wd) s = Ok s' -> no_outdated_products l s -> end_spec l s s'.
Proof.
  cbn [step_op]. rewrite !ufh_nil. cbn [bind]. rewrite ufh_nil. cbn [bind].
  unfold mark_completed. intros H NO.
  destruct (find_step l s) as [r|] eqn:F; cbn [is_some negb] in H; [|discriminate].
  unfold set_sstate in H. rewrite F in H. cbn [andb] in H.
  change (sstate_eqb SSucceeded SRunning) with false in H. cbn iota in H. cbn [bind] in H.
  set (f := fun r0 : srow => mkS (sl r0) SSucceeded (sneed r0) false 0 0) in *.
  rewrite (fpi_same l is_outdated (upd_step l f s) s eq_refl eq_refl) in H.
  unfold no_outdated_products in NO. rewrite NO in H. cbn [foldM bind] in H.
  inversion H; subst s'; clear H.
  assert (ST : forall x, step_view x (upd_step l f s) =
                         if str_eqb x l then done_view (step_view x s) else step_view x s).
  { intros x. rewrite step_view_upd_set by (intros; reflexivity).
    destruct (str_eqb x l) eqn:E; [|reflexivity]. apply str_eqb_eq in E. subst x.
    unfold step_view. rewrite F. reflexivity. }
  unfold store_hash. destruct (has_hash l (upd_step l f s)) eqn:HH.
  - constructor; try reflexivity; [exact ST|].
    intros x. destruct (str_eqb x l) eqn:E; [|rewrite orb_false_r; reflexivity].
    apply str_eqb_eq in E. subst x. rewrite orb_true_r. exact HH.
  - constructor; try reflexivity; [exact ST|].
    intros x. unfold has_hash. cbn [shash set_shash existsb]. rewrite orb_comm. reflexivity.
Qed.

(* a static declaration leaves no OUTDATED file product where there was none *)
Lemma no_outdated_after_static c T l s sb :
  sdecl_spec c T s sb -> nodes_uniq sb -> no_outdated_products l s -> no_outdated_products l sb.
Proof.
  intros S U NO. destruct S as [sd_node0 sd_file0 _ _ _ _ _ _ _]. unfold no_outdated_products in *.
  destruct (file_products_in l is_outdated sb) as [|x rest] eqn:E; [reflexivity|exfalso].
  assert (Hx : In x (file_products_in l is_outdated sb)) by (rewrite E; left; reflexivity).
  unfold file_products_in in Hx. apply in_map_iff in Hx as [k [Hk Hx]].
  apply filter_In in Hx as [Hp Hc]. apply andb_true_iff in Hc as [Hkind Hst].
  unfold products in Hp. apply in_map_iff in Hp as [n [Hnk Hn]]. apply filter_In in Hn as [Hin Hcr].
  apply andb_true_iff in Hcr as [Hcre _].
  destruct k as [kk x']. cbn [fst snd] in *. subst x'. destruct kk; try discriminate. clear Hkind.
  assert (NV : node_view (KFile, x) sb = Some (ncre n, ndet n)).
  { unfold node_view, find_node. rewrite <- Hnk.
    rewrite (find_self nk key_eqb key_eqb_eq (nodes sb) n U Hin). reflexivity. }
  assert (FO : exists h, file_view x sb = Some (FOutdated, h)).
  { unfold fstate_of in Hst. unfold file_view. destruct (find_file x sb) as [r|]; [|discriminate].
    destruct (fstt r); try discriminate. eexists. reflexivity. }
  destruct FO as [h FO]. rewrite sd_node0 in NV. rewrite sd_file0 in FO. cbn [in_files] in NV.
  destruct (mem_str x T); [discriminate|].
  (* the node and its row are those of s *)
  unfold node_view in NV. destruct (find_node (KFile, x) s) as [n'|] eqn:F; [|discriminate].
  inversion NV as [[Hc' Hd']].
  pose proof (find_node_key _ _ _ F) as Hk'. apply find_some in F as [Hin' _].
  assert (In x (file_products_in l is_outdated s)); [|rewrite NO in H; contradiction].
  unfold file_products_in. apply in_map_iff. exists (KFile, x). split; [reflexivity|].
  apply filter_In. split.
  - unfold products. apply in_map_iff. exists n'. split; [exact Hk'|]. apply filter_In. split; [exact Hin'|].
    rewrite Hc', Hcre, Hk'. reflexivity.
  - cbn [fst snd kind_eqb andb]. unfold fstate_of. unfold file_view in FO.
    destruct (find_file x s) as [r|]; [|discriminate]. injection FO as Hs _. rewrite Hs. reflexivity.
Qed.

Lemma newb_same c s1 s2 l :
  nodes s1 = nodes s2 -> files s1 = files s2 -> newb c s1 l = newb c s2 l.
Proof.
  intros Hn Hf. unfold newb. rewrite (check_declaration_view c l 61 s1 s2); [reflexivity| |].
  - apply view_of_nodes. exact Hn.
  - apply view_of_files. exact Hf.
Qed.

Theorem completion_static_commute (s sa sb s12 s21 : st) (l : str) (cc : cause) (wd : bool)
        (c : key) (ps : list str) :
  no_file_creator_b s = true -> not_file c -> NoDup ps ->
  no_outdated_products l s -> nodes_uniq sb ->
  (forall p, In p ps -> newb c s p = true -> lostb s p l = false) ->
  step_op (OpExecEnd l [] cc [] true wd) s = Ok sa -> step_op (OpDeclareStatic c ps) sa = Ok s12 ->
  step_op (OpDeclareStatic c ps) s = Ok sb -> step_op (OpExecEnd l [] cc [] true wd) sb = Ok s21 ->
  st_equiv s12 s21.
Proof.
  intros Hnfc Hc ND NO U NL Ha H12 Hb H21.
  apply end_ok_spec in Ha; [|exact NO]. destruct Ha as [an af ad ae ac ast ah].
  cbn [step_op] in H12, Hb.
  assert (Hnfca : no_file_creator_b sa = true) by (rewrite (nfc_of_nodes sa s an); exact Hnfc).
  apply static_request_spec in H12 as [S12 _]; try assumption.
  apply static_request_spec in Hb as [Sb _]; try assumption.
  rewrite (filter_ext (newb c sa) (newb c s)) in S12 by (intros x; apply newb_same; assumption).
  set (T := filter (newb c s) ps) in *.
  assert (NOb : no_outdated_products l sb) by (eapply no_outdated_after_static; eassumption).
  apply end_ok_spec in H21; [|exact NOb]. destruct H21 as [bn bf bd be bc bst bh].
  destruct S12 as [n1 f1 st1 e1 c1 d1 h1 _ _]. destruct Sb as [n2 f2 st2 e2 c2 d2 h2 _ _].
  assert (NLT : forall x, existsb (fun p => lostb s p x) T = true -> str_eqb x l = false).
  { intros x Hx. apply existsb_exists in Hx as [p [Hp Hl]]. apply filter_In in Hp as [Hp Hn].
    destruct (str_eqb x l) eqn:E; [|reflexivity]. apply str_eqb_eq in E. subst x.
    rewrite (NL p Hp Hn) in Hl. discriminate. }
  constructor.
  - intros k. rewrite n1, (view_of_nodes _ _ bn), n2, (view_of_nodes _ _ an).
    rewrite !is_detached_view, (view_of_nodes _ _ an). reflexivity.
  - intros x. rewrite f1, (view_of_files _ _ bf), f2, (view_of_files _ _ af).
    rewrite !hh_view, (view_of_files _ _ af). reflexivity.
  - intros x. rewrite (step_view_of_steps _ _ st1), ast, bst, (step_view_of_steps _ _ st2). reflexivity.
  - intros a b. rewrite d1, (view_of_deps _ _ bd), d2, (view_of_deps _ _ ad).
    rewrite !existsn_view, (view_of_nodes _ _ an). reflexivity.
  - intros x. rewrite h1, bh, h2, ah.
    rewrite (existsb_ext_in (fun p => lostb sa p x) (fun p => lostb s p x))
      by (intros p _; rewrite !lostb_view, (view_of_nodes _ _ an); reflexivity).
    destruct (existsb (fun p => lostb s p x) T) eqn:L; cbn [negb].
    + rewrite (NLT x L). rewrite !andb_false_r. reflexivity.
    + rewrite !andb_true_r. reflexivity.
  - intros x nm. unfold find_env. rewrite e1, be, e2, ae. reflexivity.
  - rewrite c1, bc, c2, ac. reflexivity.
Qed.

(* When the completing step is attached, a path that is still to be declared (no live claim) is
   never a stale product of it: under Pst a detached product has a detached creator. *)
Lemma attached_owner_not_lost c l s p :
  Pst s -> attached (KStep, l) s = true -> newb c s p = true -> lostb s p l = false.
Proof.
  intros [_ Hok] Hatt Hn. destruct (lostb s p l) eqn:L; [exfalso|reflexivity].
  unfold lostb in L. destruct (find_node (KFile, p) s) as [n|] eqn:F; [|discriminate].
  destruct (ncre n) as [[[] oc]|] eqn:C; try discriminate. apply str_eqb_eq in L. subst oc.
  pose proof (claim_none_detached p s n (Hok p) F (newb_claim_none c s p Hn)) as D.
  specialize (Hok p). unfold fnode_ok, node_view in Hok. rewrite F, C in Hok.
  destruct Hok as [_ Hcre]. destruct (Hcre D) as [Hd _].
  unfold attached in Hatt. rewrite Hd in Hatt. discriminate.
Qed.

(* completion_commutes_partial: the completing step is attached, the state satisfies Pst (from
   inv_b), the node keys of the state after the declaration are unique (from inv_b, preserved) *)
Theorem completion_commutes_partial (s sa sb s12 s21 : st) (l : str) (cc : cause) (wd : bool)
        (c : key) (ps : list str) :
  Pst s -> not_file c -> NoDup ps -> attached (KStep, l) s = true ->
  no_outdated_products l s -> nodes_uniq sb ->
  step_op (OpExecEnd l [] cc [] true wd) s = Ok sa -> step_op (OpDeclareStatic c ps) sa = Ok s12 ->
  step_op (OpDeclareStatic c ps) s = Ok sb -> step_op (OpExecEnd l [] cc [] true wd) sb = Ok s21 ->
  st_equiv s12 s21.
Proof.
  intros HP Hc ND Hatt NO U. apply completion_static_commute; try assumption; [exact (proj1 HP)|].
  intros p _ Hn. eapply attached_owner_not_lost; eassumption.
Qed.

(* the invariant of C09 gives the uniqueness hypothesis *)
Lemma inv_b_nodes_uniq s : inv_b s = true -> nodes_uniq s.
Proof.
  unfold inv_b. intros H.
  repeat (match type of H with (andb _ _ = true) => apply andb_true_iff in H as [H ?] end).
  unfold inv_nodes_b in H. apply andb_true_iff in H as [H _]. apply andb_true_iff in H as [H _]. exact H.
Qed.

(* the restart transaction leaves the whole canonical dump unchanged, step_hash rows included *)
Lemma resume_noop_dump s : quiescent_success_b s = true ->
  dump_of (apply_op s OpResetInterrupted) = dump_of s /\
  d_shash (dump_of (apply_op s OpResetInterrupted)) = shash s.
Proof. intros H. rewrite (resume_apply_noop s H). split; reflexivity. Qed.
