(* C01, graph level: Workflow.declare_static_files (OpDeclareStatic) preserves K = NoStaleSuccess
   in every state that satisfies C09's invariant.

   A declaration (re-)creates file nodes through Trellis.create: a node that did not exist is
   added, a detached one is re-attached under the new creator (its old creator, detached, loses
   its stored hash; the producer edges INTO the file are cut) and its row goes to UNCONFIRMED.
   Why K survives: the file was absent or detached before, so no attached SUCCEEDED step had it
   as an input (that would already violate K); afterwards it is attached but UNCONFIRMED, still
   nobody's usable input, and it is no longer anybody's output.  Everything else is untouched:
   the relation [Decl k] below. *)
From Coq Require Import List NArith Bool Lia.
From SV Require Import lib.Bytes model.Graph model.GraphInv model.NoStale proofs.NoStaleProofs
     proofs.NoStaleMark proofs.NoStaleInv proofs.NoStaleOps proofs.NoStaleDelete.
Import ListNotations.
Open Scope N_scope.

(* ------------------------------------------------------------------------------------------ *)
(* What a (re-)creation of the file node [k] may change                                        *)
(* ------------------------------------------------------------------------------------------ *)
Definition Decl (k : key) (s s' : st) : Prop :=
  steps s' = steps s /\
  (forall x, key_eqb x k = false -> is_detached x s' = is_detached x s) /\
  (forall f, key_eqb (KFile, f) k = false -> fstate_of f s' = fstate_of f s) /\
  (exists q, deps s' = filter q (deps s) /\ forall d, key_eqb (dsnk d) k = false -> q d = true) /\
  (forall x, is_detached (KStep, x) s = false -> has_hash x s' = has_hash x s).

Lemma Decl_refl (k : key) (s : st) : Decl k s s.
Proof.
  split; [reflexivity|]. split; [reflexivity|]. split; [reflexivity|]. split; [|reflexivity].
  exists (fun _ => true). split; [|reflexivity].
  induction (deps s) as [|d ds IH]; [reflexivity|]. cbn [filter]. rewrite <- IH. reflexivity.
Qed.

Lemma filter_filter {A} (p q : A -> bool) (l : list A) :
  filter p (filter q l) = filter (fun x => q x && p x) l.
Proof.
  induction l as [|a l IH]; [reflexivity|]. cbn [filter]. destruct (q a); cbn [filter andb].
  - destruct (p a); rewrite IH; reflexivity.
  - exact IH.
Qed.

Lemma Decl_trans (k : key) (s1 s2 s3 : st) :
  fst k = KFile -> Decl k s1 s2 -> Decl k s2 s3 -> Decl k s1 s3.
Proof.
  intros Hk (S1 & D1 & F1 & (q1 & E1 & Q1) & H1) (S2 & D2 & F2 & (q2 & E2 & Q2) & H2).
  split; [congruence|]. split; [intros x Hx; rewrite (D2 x Hx); exact (D1 x Hx)|].
  split; [intros f Hf; rewrite (F2 f Hf); exact (F1 f Hf)|]. split.
  - exists (fun d => q1 d && q2 d). split.
    + rewrite E2, E1. apply filter_filter.
    + intros d Hd. rewrite (Q1 d Hd), (Q2 d Hd). reflexivity.
  - intros x Hx. rewrite H2; [exact (H1 x Hx)|]. rewrite D1; [exact Hx|].
    unfold key_eqb. destruct k as [kk kl]. cbn in *. subst kk. reflexivity.
Qed.

(* K survives, provided the file was not attached before and nothing points into it afterwards *)
Lemma K_Decl (k : key) (s s' : st) :
  fst k = KFile -> is_detached k s = true -> Decl k s s' ->
  (forall d, In d (deps s') -> key_eqb (dsnk d) k = false) ->
  K_b s = true -> K_b s' = true.
Proof.
  intros Hk Hdk (St & Hd & Hf & (q & Eq & Hq) & Hh) Hno HK.
  unfold K_b in *. rewrite St. rewrite forallb_forall in *. intros r Hr. specialize (HK r Hr).
  unfold K_step_b in *. destruct (sstate_eqb (sst r) SSucceeded); [|reflexivity]. cbn [negb orb] in *.
  assert (Hrk : key_eqb (KStep, sl r) k = false).
  { unfold key_eqb. destruct k as [kk kl]. cbn in *. subst kk. reflexivity. }
  rewrite (Hd _ Hrk). destruct (is_detached (KStep, sl r) s) eqn:Edr; [reflexivity|]. cbn [orb] in *.
  apply andb_true_iff in HK. destruct HK as [HK Ho]. apply andb_true_iff in HK. destruct HK as [Hha Hi].
  rewrite (Hh (sl r) Edr), Hha. cbn [andb]. rewrite forallb_forall in Hi, Ho.
  apply andb_true_iff. split; rewrite forallb_forall.
  - intros x Hx.
    assert (Hxs : In x (file_inputs_of_step (sl r) s)).
    { unfold file_inputs_of_step, sources_of in *. rewrite Eq in Hx. apply filter_In in Hx.
      destruct Hx as [Hx Hkind]. apply filter_In. split; [|exact Hkind]. apply in_map_iff in Hx.
      destruct Hx as (d & Hdx & Hdin). apply in_map_iff. exists d. split; [exact Hdx|].
      apply filter_In in Hdin. destruct Hdin as [Hdin Hs]. apply filter_In in Hdin. destruct Hdin as [Hdin _].
      apply filter_In. auto. }
    pose proof (Hi x Hxs) as Hok. unfold input_ok in *. apply andb_true_iff in Hok. destruct Hok as [Ha Hb].
    assert (Hxk : key_eqb x k = false).
    { destruct (key_eqb x k) eqn:E; [|reflexivity]. apply key_eqb_eq in E. subst x.
      rewrite Hdk in Ha. discriminate. }
    rewrite (Hd x Hxk), Ha. cbn [andb].
    assert (Hxf : x = (KFile, snd x)).
    { unfold file_inputs_of_step in Hxs. apply filter_In in Hxs. destruct Hxs as [_ Hkind].
      destruct x as [xk xl]. cbn in *. apply kind_eqb_eq in Hkind. subst. reflexivity. }
    rewrite Hxf in Hxk. rewrite (Hf (snd x) Hxk). exact Hb.
  - intros f Hfs. destruct (file_sink_edge (sl r) f s' Hfs) as (d & Hdin & Hsrc & Hsnk).
    pose proof (Hno d Hdin) as Hfk. rewrite Hsnk in Hfk.
    assert (Hfin : In f (file_sinks_of_step (sl r) s)).
    { unfold file_sinks_of_step, sinks_of. apply in_map_iff. exists (KFile, f). split; [reflexivity|].
      apply filter_In. split; [|reflexivity]. apply in_map_iff. exists d. split; [exact Hsnk|].
      rewrite Eq in Hdin. apply filter_In in Hdin. destruct Hdin as [Hdin _].
      apply filter_In. split; [exact Hdin|]. rewrite Hsrc. apply key_eqb_refl. }
    specialize (Ho f Hfin). unfold output_ok in *. rewrite (Hd _ Hfk), (Hf f Hfk). exact Ho.
Qed.

(* ------------------------------------------------------------------------------------------ *)
(* The building blocks of Trellis.create and File.initialize_row                               *)
(* ------------------------------------------------------------------------------------------ *)
Lemma deps_filter_true (s : st) : deps s = filter (fun _ => true) (deps s).
Proof. induction (deps s) as [|d ds IH]; [reflexivity|]. cbn [filter]. rewrite <- IH. reflexivity. Qed.

Lemma find_node_upd_other (k x : key) (g : node -> node) (s : st) :
  (forall n, nk (g n) = nk n) -> key_eqb x k = false -> find_node x (upd_node k g s) = find_node x s.
Proof.
  intros Hg Hne. unfold find_node, upd_node. cbn [nodes set_nodes].
  induction (nodes s) as [|a xs IH]; [reflexivity|]. cbn [map find].
  destruct (key_eqb (nk a) k) eqn:E.
  - rewrite Hg. apply key_eqb_eq in E. rewrite E. rewrite (key_eqb_sym k x), Hne. exact IH.
  - destruct (key_eqb (nk a) x); [reflexivity|exact IH].
Qed.

Lemma Decl_upd_node (k : key) (g : node -> node) (s : st) :
  (forall n, nk (g n) = nk n) -> Decl k s (upd_node k g s).
Proof.
  intros Hg. split; [reflexivity|]. split.
  - intros x Hx. unfold is_detached. rewrite (find_node_upd_other k x g s Hg Hx). reflexivity.
  - split; [reflexivity|]. split; [|reflexivity]. exists (fun _ => true). split; [exact (deps_filter_true s)|reflexivity].
Qed.

Lemma Decl_add_node (k : key) (n0 : node) (s : st) :
  nk n0 = k -> Decl k s (set_nodes s (nodes s ++ [n0])).
Proof.
  intros Hn. split; [reflexivity|]. split.
  - intros x Hx. unfold is_detached, find_node. cbn [nodes set_nodes].
    induction (nodes s) as [|a xs IH]; cbn [app find].
    + rewrite Hn, (key_eqb_sym k x), Hx. reflexivity.
    + destruct (key_eqb (nk a) x); [reflexivity|exact IH].
  - split; [reflexivity|]. split; [|reflexivity]. exists (fun _ => true). split; [exact (deps_filter_true s)|reflexivity].
Qed.

Lemma Decl_delete_hash (k : key) (l : str) (s : st) :
  is_detached (KStep, l) s = true -> Decl k s (delete_hash l s).
Proof.
  intros Hd. split; [reflexivity|]. split; [reflexivity|]. split; [reflexivity|]. split.
  - exists (fun _ => true). split; [exact (deps_filter_true s)|reflexivity].
  - intros x Hx. apply has_hash_delete_other. intros ->. congruence.
Qed.

Lemma Decl_del_sources (k : key) (s : st) : Decl k s (del_all_sources k s).
Proof.
  split; [reflexivity|]. split; [reflexivity|]. split; [reflexivity|]. split; [|reflexivity].
  exists (fun d => negb (key_eqb (dsnk d) k)). split; [reflexivity|]. intros d Hd. rewrite Hd. reflexivity.
Qed.

Lemma Decl_upd_file (k : key) (g : frow -> frow) (s : st) :
  (forall r, fl (g r) = fl r) -> fst k = KFile -> Decl k s (upd_file (snd k) g s).
Proof.
  intros Hg Hk. split; [reflexivity|]. split; [reflexivity|]. split.
  - intros f Hf. rewrite (fstate_of_upd_file (snd k) f g s Hg).
    destruct (str_eqb f (snd k)) eqn:E; [|reflexivity]. exfalso. apply str_eqb_eq in E.
    unfold key_eqb in Hf. destruct k as [kk kl]. cbn in *. subst. rewrite str_eqb_refl in Hf. discriminate.
  - split; [|reflexivity]. exists (fun _ => true). split; [exact (deps_filter_true s)|reflexivity].
Qed.

Lemma Decl_add_file (k : key) (r0 : frow) (s : st) :
  fl r0 = snd k -> fst k = KFile -> Decl k s (set_files s (files s ++ [r0])).
Proof.
  intros Hr Hk. split; [reflexivity|]. split; [reflexivity|]. split.
  - intros f Hf. unfold fstate_of, find_file. cbn [files set_files].
    assert (Hne : str_eqb (fl r0) f = false).
    { rewrite Hr. unfold key_eqb in Hf. destruct k as [kk kl]. cbn in *. subst kk. cbn in Hf.
      rewrite str_eqb_sym. exact Hf. }
    induction (files s) as [|a xs IH]; cbn [app find].
    + rewrite Hne. reflexivity.
    + destruct (str_eqb (fl a) f); [reflexivity|exact IH].
  - split; [|reflexivity]. exists (fun _ => true). split; [exact (deps_filter_true s)|reflexivity].
Qed.

Lemma Decl_set_fstate_hash (k : key) (new : fstate) (h : option (option N)) (s s' : st) :
  fst k = KFile -> set_fstate_hash (snd k) new h s = Ok s' -> Decl k s s'.
Proof.
  intros Hk H. unfold set_fstate_hash in H. destruct (find_file (snd k) s) as [r|].
  - cbv zeta in H. peel H. injection H as <-. apply Decl_upd_file; [reflexivity|exact Hk].
  - injection H as <-. apply Decl_refl.
Qed.

(* ------------------------------------------------------------------------------------------ *)
(* File.initialize_row(UNCONFIRMED) and Trellis.create of a file node                          *)
(* ------------------------------------------------------------------------------------------ *)
Lemma set_fstate_hash_graph (l : str) (new : fstate) (h : option (option N)) (s s' : st) :
  set_fstate_hash l new h s = Ok s' -> nodes s' = nodes s /\ deps s' = deps s.
Proof.
  unfold set_fstate_hash. destruct (find_file l s) as [r|].
  - cbv zeta. intros H. peel H. injection H as <-. split; reflexivity.
  - intros H. injection H as <-. split; reflexivity.
Qed.

Lemma fir_unconfirmed (l : str) (s s' : st) :
  file_initialize_row l FUnconfirmed s = Ok s' ->
  Decl (KFile, l) s s' /\ nodes s' = nodes s /\ deps s' = deps s.
Proof.
  unfold file_initialize_row. cbv zeta. intros H. unfold bind in H.
  destruct (find_file l s) as [r|] eqn:Ef.
  - unfold set_fstate in H.
    destruct (set_fstate_hash l FUnconfirmed None s) as [s1| |] eqn:E1; try discriminate.
    injection H as <-. split; [exact (Decl_set_fstate_hash (KFile, l) _ _ s s1 eq_refl E1)|].
    exact (set_fstate_hash_graph l _ _ s s1 E1).
  - cbn [needs_hash] in H. peel H. injection H as <-.
    split; [apply (Decl_add_file (KFile, l)); reflexivity|]. split; reflexivity.
Qed.

(* no node has a file as its creator; every edge ends in a node *)
Definition NF (s : st) : Prop := forall n c, In n (nodes s) -> ncre n = Some c -> fst c <> KFile.
Definition ED (s : st) : Prop := forall d, In d (deps s) -> find_node (dsnk d) s <> None.

Lemma NF_no_products (l : str) (s : st) : NF s -> products (KFile, l) s = [].
Proof.
  intros HN. unfold products.
  assert (E : forall xs, (forall n c, In n xs -> ncre n = Some c -> fst c <> KFile) ->
              filter (fun n => okey_eqb (ncre n) (Some (KFile, l)) && negb (key_eqb (nk n) (KFile, l))) xs = []).
  { induction xs as [|a xs IH]; intros Hx; [reflexivity|]. cbn [filter].
    assert (Ha : okey_eqb (ncre a) (Some (KFile, l)) = false).
    { destruct (ncre a) as [c|] eqn:Ec; [|reflexivity]. cbn [okey_eqb].
      destruct (key_eqb c (KFile, l)) eqn:E; [|reflexivity]. apply key_eqb_eq in E. subst c.
      exfalso. exact (Hx a _ (or_introl eq_refl) Ec eq_refl). }
    rewrite Ha. cbn [andb]. apply IH. intros n c Hn Hc. exact (Hx n c (or_intror Hn) Hc). }
  specialize (E (nodes s) HN). cbv beta in *. unfold key in *. rewrite E. reflexivity.
Qed.

Lemma find_node_some_mono_upd (k x : key) (g : node -> node) (s : st) :
  (forall n, nk (g n) = nk n) -> find_node x s <> None -> find_node x (upd_node k g s) <> None.
Proof.
  intros Hg. unfold find_node, upd_node. cbn [nodes set_nodes].
  induction (nodes s) as [|a xs IH]; [auto|]. cbn [map find].
  assert (Hk : nk (if key_eqb (nk a) k then g a else a) = nk a) by (destruct (key_eqb (nk a) k); [apply Hg|reflexivity]).
  rewrite Hk. destruct (key_eqb (nk a) x); [discriminate|exact IH].
Qed.

Lemma find_node_some_mono_add (x : key) (n0 : node) (s : st) :
  find_node x s <> None -> find_node x (set_nodes s (nodes s ++ [n0])) <> None.
Proof.
  unfold find_node. cbn [nodes set_nodes]. induction (nodes s) as [|a xs IH];
    [cbn [find]; intros H; exfalso; apply H; reflexivity|].
  cbn [app find]. destruct (key_eqb (nk a) x); [discriminate|exact IH].
Qed.

Lemma create_file_unconfirmed (l : str) (c : key) (s s' : st) :
  NF s -> ED s ->
  create (KFile, l) (Some c) (InitFile FUnconfirmed) s = Ok s' ->
  is_detached (KFile, l) s = true /\ Decl (KFile, l) s s' /\
  (forall d, In d (deps s') -> key_eqb (dsnk d) (KFile, l) = false) /\ NF s' /\ ED s'.
Proof.
  intros HN HE H. unfold create in H. set (k := (KFile, l)) in *.
  unfold bind in H. destruct (creator_ok k (Some c) s) as [[]| |] eqn:Eco; try discriminate.
  (* the creator is not a file *)
  assert (Hc : fst c <> KFile).
  { unfold creator_ok in Eco. peel Eco. intros Hf.
    match goal with E : negb (creator_kind_ok (fst k) (fst c)) = false |- _ =>
      apply negb_false_iff in E; rewrite Hf in E; discriminate E end. }
  cbn [snd k] in H. change (snd k) with l in H.
  match type of H with match ?m with _ => _ end = _ => destruct m as [s1| |] eqn:E1; try discriminate end.
  destruct (fir_unconfirmed l s1 s' H) as (D2 & N2 & Dp2).
  assert (Hmid : is_detached k s = true /\ Decl k s s1 /\
                 (forall d, In d (deps s1) -> key_eqb (dsnk d) k = false) /\ NF s1 /\ ED s1).
  { destruct (find_node k s) as [n|] eqn:Ef.
    - (* the node exists and is detached: re-created *)
      destruct (negb (ndet n)) eqn:Edn; [discriminate|]. apply negb_false_iff in Edn.
      unfold bind in E1.
      set (g := fun n0 : node => mkNode (nk n0) (Some c) (is_detached c s)) in *.
      assert (Hg : forall n0, nk (g n0) = nk n0) by reflexivity.
      match type of E1 with match ?m with _ => _ end = _ => destruct m as [s2| |] eqn:E2; try discriminate end.
      assert (D12 : Decl k s s2 /\ nodes s2 = nodes (upd_node k g s) /\ deps s2 = deps s).
      { destruct (ncre n) as [oc|].
        - destruct (negb (is_detached oc s)) eqn:Eoc; [discriminate|]. apply negb_false_iff in Eoc.
          unfold after_lost_product in E2. destruct oc as [ock ocl]. cbn [fst snd] in E2.
          destruct ock; try discriminate; injection E2 as <-.
          + split; [|split; reflexivity].
            apply (Decl_trans k s (upd_node k g s)); [reflexivity|apply Decl_upd_node; exact Hg|].
            apply Decl_delete_hash. unfold is_detached.
            rewrite (find_node_upd_other k (KStep, ocl) g s Hg eq_refl). exact Eoc.
          + split; [apply Decl_upd_node; exact Hg|split; reflexivity].
        - injection E2 as <-. split; [apply Decl_upd_node; exact Hg|split; reflexivity]. }
      destruct D12 as (D12 & N12 & Dp12).
      assert (HN3 : NF (del_all_sources k s2)).
      { intros n0 c0 Hn0 Hc0. change (nodes (del_all_sources k s2)) with (nodes s2) in Hn0.
        rewrite N12 in Hn0. unfold upd_node in Hn0. cbn [nodes set_nodes] in Hn0.
        apply in_map_iff in Hn0. destruct Hn0 as (n1 & Hn1 & Hin1).
        destruct (key_eqb (nk n1) k); subst n0.
        - cbn [ncre g] in Hc0. injection Hc0 as <-. exact Hc.
        - exact (HN n1 c0 Hin1 Hc0). }
      pose proof (NF_no_products l _ HN3) as Hnp. fold k in Hnp. cbv zeta in E1. rewrite Hnp in E1.
      cbn [foldM] in E1. injection E1 as <-.
      split; [unfold is_detached; rewrite Ef; exact Edn|].
      split; [apply (Decl_trans k s s2); [reflexivity|exact D12|apply Decl_del_sources]|].
      split.
      { intros d Hd. change (deps (del_all_sources k s2)) with (filter (fun d0 => negb (key_eqb (dsnk d0) k)) (deps s2)) in Hd.
        apply filter_In in Hd. destruct Hd as [_ Hd]. apply negb_true_iff in Hd. exact Hd. }
      split; [exact HN3|].
      intros d Hd. change (deps (del_all_sources k s2)) with (filter (fun d0 => negb (key_eqb (dsnk d0) k)) (deps s2)) in Hd.
      apply filter_In in Hd. destruct Hd as [Hd _]. rewrite Dp12 in Hd.
      unfold find_node. change (nodes (del_all_sources k s2)) with (nodes s2). rewrite N12.
      exact (find_node_some_mono_upd k (dsnk d) g s Hg (HE d Hd)).
    - (* a new node *)
      injection E1 as <-. split; [unfold is_detached; rewrite Ef; reflexivity|].
      split; [apply Decl_add_node; reflexivity|]. split.
      { intros d Hd. cbn [deps set_nodes] in Hd. destruct (key_eqb (dsnk d) k) eqn:E; [|reflexivity].
        exfalso. apply key_eqb_eq in E. apply (HE d Hd). rewrite E. exact Ef. }
      split.
      { intros n0 c0 Hn0 Hc0. cbn [nodes set_nodes] in Hn0. apply in_app_or in Hn0.
        destruct Hn0 as [Hn0|[<-|[]]]; [exact (HN n0 c0 Hn0 Hc0)|]. cbn in Hc0. injection Hc0 as <-. exact Hc. }
      intros d Hd. cbn [deps set_nodes] in Hd. apply find_node_some_mono_add. exact (HE d Hd). }
  destruct Hmid as (Hdk & D1 & Hno1 & HN1 & HE1).
  split; [exact Hdk|]. split; [exact (Decl_trans k s s1 s' eq_refl D1 D2)|].
  split; [intros d Hd; rewrite Dp2 in Hd; exact (Hno1 d Hd)|].
  split.
  - intros n0 c0 Hn0 Hc0. rewrite N2 in Hn0. exact (HN1 n0 c0 Hn0 Hc0).
  - intros d Hd. rewrite Dp2 in Hd. unfold find_node. rewrite N2. exact (HE1 d Hd).
Qed.

(* ------------------------------------------------------------------------------------------ *)
(* Workflow.declare_static_files                                                               *)
(* ------------------------------------------------------------------------------------------ *)
Lemma inv_core_deps (s : st) : inv_core_b s = true -> inv_deps_b s = true.
Proof. unfold inv_core_b. intros H. rewrite !andb_true_iff in H. tauto. Qed.

Lemma inv_core_NF_ED (s : st) : inv_core_b s = true -> NF s /\ ED s.
Proof.
  intros H. destruct (inv_core_parts s H) as (Hl & _ & _). destruct (inv_core_UK_Pdet s H) as [Huk _].
  pose proof (inv_core_nodes s H) as Hn. pose proof (inv_core_deps s H) as Hd. split.
  - intros n c Hin Hc. unfold inv_local_b in Hl. rewrite forallb_forall in Hl. specialize (Hl n Hin).
    destruct (key_eqb (nk n) root_key) eqn:Er.
    + (* the root is its own creator *)
      apply key_eqb_eq in Er. pose proof (find_node_in s n Huk Hin) as Hf. rewrite Er in Hf.
      unfold inv_nodes_b in Hn. rewrite !andb_true_iff in Hn. destruct Hn as [[_ Hroot] _].
      rewrite Hf in Hroot. apply andb_true_iff in Hroot. destruct Hroot as [Hroot _].
      rewrite Hc in Hroot. cbn [okey_eqb] in Hroot. apply key_eqb_eq in Hroot. subst c. discriminate.
    + cbn [orb] in Hl. rewrite Hc in Hl. destruct (find_node c s); [|discriminate].
      rewrite !andb_true_iff in Hl. destruct Hl as [_ Hk]. intros Hf. rewrite Hf in Hk.
      destruct (fst (nk n)); discriminate.
  - intros d Hin. unfold inv_deps_b in Hd. rewrite andb_true_iff in Hd. destruct Hd as [Hd _].
    rewrite forallb_forall in Hd. specialize (Hd d Hin). rewrite !andb_true_iff in Hd.
    destruct Hd as [_ Hs]. destruct (find_node (dsnk d) s); [discriminate|discriminate Hs].
Qed.

Definition JD (s : st) : Prop := K_b s = true /\ NF s /\ ED s.

Lemma JD_declare_file (c : key) (l : str) (s s' : st) :
  declare_file c l FUnconfirmed s = Ok s' -> JD s -> JD s'.
Proof.
  intros H (HK & HN & HE). unfold declare_file, bind in H.
  destruct (create (KFile, l) (Some c) (InitFile FUnconfirmed) s) as [s1| |] eqn:E1; try discriminate.
  injection H as <-.
  destruct (create_file_unconfirmed l c s s1 HN HE E1) as (Hd & HD & Hno & HN1 & HE1).
  split; [exact (K_Decl (KFile, l) s s1 eq_refl Hd HD Hno HK)|]. split; assumption.
Qed.

Lemma K_declare_static (c : key) (paths : list str) (s s' : st) :
  inv_core_b s = true -> declare_static_files c paths s = Ok s' -> K_b s = true -> K_b s' = true.
Proof.
  intros Hi H HK. destruct (inv_core_NF_ED s Hi) as [HN HE]. unfold declare_static_files in H.
  destruct (negb (is_some (find_node c s))); [discriminate|]. unfold bind in H.
  match type of H with match ?m with _ => _ end = _ => destruct m as [todo| |]; try discriminate end.
  assert (HJ : JD s') .
  { refine (foldM_inv _ JD _ todo s s' (conj HK (conj HN HE)) H).
    intros t l t' Ht Hc. exact (JD_declare_file c l t t' Hc Ht). }
  exact (proj1 HJ).
Qed.

Lemma K_op_declare_static (c : key) (paths : list str) (s : st) :
  inv_core_b s = true -> K_b s = true -> K_b (apply_op s (OpDeclareStatic c paths)) = true.
Proof.
  intros Hi HK. unfold apply_op. cbn [step_op].
  destruct (declare_static_files c paths s) as [s'| |] eqn:E; try exact HK.
  exact (K_declare_static c paths s s' Hi E HK).
Qed.
