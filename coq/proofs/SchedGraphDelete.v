(* C10: Workflow.delete_detached (finalize: the detached nodes that nothing refers to any more are deleted, one
   deletable node per round) is simulated by its primitive sequence: per node, the incoming edges are deleted
   (PDelDep, del_deps_where_t_sim), then the row (PDeleteStep / PDeleteFile); afterwards the stored hash of every
   creator that lost a product is deleted.  All side conditions are discharged from C09's invariant, which holds
   after every round (GraphPrims.delete_node_inv). *)
From Coq Require Import List NArith Bool Arith Lia.
From SV Require Import lib.Bytes lib.Closure lib.SqlExpr gen.GenSched model.Graph model.GraphInv model.Sched
  model.SchedGraph proofs.GraphBase proofs.GraphNodes proofs.GraphInvP proofs.GraphPrims proofs.GraphFrames proofs.GraphNodeFrame
  proofs.SchedProofs proofs.SchedPrims proofs.SchedSeq proofs.SchedSkel proofs.SchedGraphCpl proofs.SchedGraphBelow
  proofs.SchedGraphSim proofs.SchedGraphAcyclic.
Import ListNotations.
Open Scope N_scope.

Section Delete.
Variable idf : key -> N.
Hypothesis idf_inj : forall a b, idf a = idf b -> a = b.
Notation coupled := (coupled idf).

(* the rows of node k (after its incoming edges are gone) *)
Definition remove_rows (k : key) (s1 : st) : st :=
  let s2 := set_nodes s1 (filter (fun n => negb (key_eqb (nk n) k)) (nodes s1)) in
  match fst k with
  | KFile => set_files s2 (filter (fun r => negb (str_eqb (fl r) (snd k))) (files s2))
  | KStep => let s3 := set_steps s2 (filter (fun r => negb (str_eqb (sl r) (snd k))) (steps s2)) in
             let s4 := set_shash s3 (filter (fun x => negb (str_eqb x (snd k))) (shash s3)) in
             set_envs s4 (filter (fun e => negb (str_eqb (estep e) (snd k))) (envs s4))
  | _ => s2
  end.
Lemma delete_node_rows k s : delete_node k s = remove_rows k (del_all_sources k s).
Proof. reflexivity. Qed.

(* a node that may be deleted, in the state without its incoming edges *)
Record gone (k : key) (s1 : st) : Prop := {
  gn_node : exists n, find_node k s1 = Some n /\ ndet n = true;
  gn_prod : products k s1 = [];
  gn_src : forall d, In d (deps s1) -> dsrc d <> k;
  gn_snk : forall d, In d (deps s1) -> dsnk d <> k }.

Lemma node_other k k' s1 : k' <> k -> find_node k' (remove_rows k s1) = find_node k' s1.
Proof.
  intros Hne. assert (E : nodes (remove_rows k s1) = removen k (nodes s1)).
  { unfold remove_rows. destruct (fst k); reflexivity. }
  unfold find_node. fold (findn k' (nodes (remove_rows k s1))). fold (findn k' (nodes s1)).
  rewrite E. unfold removen. rewrite findn_remove.
  destruct (key_eqb k' k) eqn:Ek; [apply key_eqb_eq in Ek; contradiction | reflexivity].
Qed.
Lemma node_det_other k k' s1 : k' <> k -> node_det k' (remove_rows k s1) = node_det k' s1.
Proof. intros H. unfold node_det, is_detached. rewrite (node_other k k' s1 H). reflexivity. Qed.
Lemma node_cre_other k k' s1 : k' <> k -> node_cre idf k' (remove_rows k s1) = node_cre idf k' s1.
Proof. intros H. unfold node_cre, creator_of. rewrite (node_other k k' s1 H). reflexivity. Qed.


Lemma no_child k s1 k' : NWl (nodes s1) -> gone k s1 -> creator_of k' s1 <> Some k.
Proof.
  intros HW G Hc. unfold creator_of in Hc. destruct (find_node k' s1) as [n|] eqn:Ef; [|discriminate].
  unfold find_node in Ef. fold (findn k' (nodes s1)) in Ef. destruct (findn_In _ _ _ Ef) as [Hn Hk].
  destruct (gn_node k s1 G) as [kn [Efk Hdet]]. unfold find_node in Efk. fold (findn k (nodes s1)) in Efk.
  assert (Hne : nk n <> k).
  { destruct (key_eqb (nk n) root_key) eqn:Er.
    - apply key_eqb_eq in Er. intros E. rewrite Er in E. subst k.
      rewrite (nw_root _ HW) in Efk. inversion Efk; subst kn. discriminate.
    - apply key_eqb_neq in Er. pose proof (nw_local _ HW n Hn Er) as L. unfold local_ok in L. rewrite Hc in L.
      destruct L as [L _]. intros E. apply L. symmetry. exact E. }
  assert (Hp : In (nk n) (products k s1)).
  { unfold products. apply in_map. apply filter_In. split; [exact Hn|]. rewrite Hc. cbn [okey_eqb].
    rewrite key_eqb_refl. cbn [andb]. apply negb_true_iff. apply key_eqb_neq. exact Hne. }
  rewrite (gn_prod k s1 G) in Hp. destruct Hp.
Qed.

Lemma node_cre_not k s1 k' : NWl (nodes s1) -> gone k s1 -> node_cre idf k' s1 <> Some (idf k).
Proof.
  intros HW G. unfold node_cre. destruct (key_eqb k' root_key); [discriminate|].
  unfold oid. destruct (creator_of k' s1) as [c|] eqn:Ec; [|discriminate]. cbn [option_map].
  intros E. inversion E as [E']. apply idf_inj in E'. subst c. exact (no_child k s1 k' HW G Ec).
Qed.

Lemma filter_map_comm {A B} (m : A -> B) (p : B -> bool) l : filter p (map m l) = map m (filter (fun x => p (m x)) l).
Proof. induction l as [|a l IH]; [reflexivity|]. cbn [map filter]. destruct (p (m a)); cbn [map]; rewrite IH; reflexivity. Qed.

Lemma others_of_remove k s1 : (fst k = KStep \/ fst k = KFile) -> others_of idf (remove_rows k s1) = others_of idf s1.
Proof.
  intros Hk. unfold others_of.
  assert (E : nodes (remove_rows k s1) = removen k (nodes s1)) by (unfold remove_rows; destruct (fst k); reflexivity).
  rewrite E. unfold removen. rewrite filter_filter.
  assert (Ef : filter (fun x => negb (key_eqb (nk x) k) && match fst (nk x) with KRoot | KTree => true | _ => false end) (nodes s1)
             = filter (fun n => match fst (nk n) with KRoot | KTree => true | _ => false end) (nodes s1)).
  { apply filter_ext. intros n. destruct (key_eqb (nk n) k) eqn:Ek; [|reflexivity].
    apply key_eqb_eq in Ek. rewrite Ek. destruct Hk as [-> | ->]; reflexivity. }
  rewrite Ef. apply map_ext_in. intros n Hn. apply filter_In in Hn. destruct Hn as [_ Hkind].
  unfold other_of. rewrite node_cre_other; [reflexivity|].
  intros E'. rewrite E' in Hkind. destruct Hk as [H|H]; rewrite H in Hkind; discriminate.
Qed.

(* ---- the row of a step ---- *)
Lemma remove_step_sim l s1 :
  J s1 -> gone (KStep, l) s1 -> J (remove_rows (KStep, l) s1) ->
  sim idf s1 (Ok (remove_rows (KStep, l) s1, [PDeleteStep (sk idf l)])) (fun s' => s' = remove_rows (KStep, l) s1).
Proof.
  intros [HI HN] G HJ'. apply sim_one; [reflexivity|]. intros g Cg.
  pose proof (inv_nw _ HI) as HW.
  set (s' := remove_rows (KStep, l) s1) in *.
  destruct (skel_delete_step g (sk idf l)) as [S1 [S2 [S3 S4]]].
  assert (C' : coupled s' (delete_step g (sk idf l))).
  { constructor.
    - rewrite S1, (cp_steps idf s1 g Cg), filter_map_comm.
      change (steps s') with (filter (fun r => negb (str_eqb (sl r) l)) (steps s1)).
      transitivity (map (row_sk idf s1) (filter (fun r => negb (str_eqb (sl r) l)) (steps s1))).
      + f_equal. apply filter_ext. intros r. cbn [q_key row_sk]. rewrite sk_eqb by exact idf_inj. reflexivity.
      + apply map_ext_in. intros r Hr. apply filter_In in Hr. destruct Hr as [_ Hne].
        apply negb_true_iff in Hne.
        assert (Hk : (KStep, sl r) <> (KStep, l)).
        { intros E. inversion E as [E']. rewrite E', str_eqb_refl in Hne. discriminate. }
        unfold row_sk. unfold s'. rewrite node_det_other, node_cre_other by exact Hk.
        assert (Eh : has_hash (sl r) (remove_rows (KStep, l) s1) = has_hash (sl r) s1).
        { unfold has_hash, remove_rows. cbn [fst snd shash set_envs set_shash set_steps set_nodes].
          induction (shash s1) as [|x xs IH]; [reflexivity|]. cbn [filter existsb].
          destruct (str_eqb x l) eqn:Ex; cbn [negb existsb]; rewrite IH; [|reflexivity].
          apply str_eqb_eq in Ex. subst x. rewrite Hne. reflexivity. }
        rewrite Eh. reflexivity.
    - rewrite S2, (cp_files idf s1 g Cg). change (files s') with (files s1). apply map_ext. intros r.
      unfold file_of, s'. rewrite node_det_other, node_cre_other by discriminate. reflexivity.
    - rewrite S3, (cp_others idf s1 g Cg). symmetry. apply others_of_remove. left. reflexivity.
    - rewrite S4, (cp_deps idf s1 g Cg). reflexivity. }
  split.
  - cbn [prim_ok]. split; [|split].
    + intros x Hx Hc. destruct (in_steps_cpl idf s1 g x Cg Hx) as [r [_ E]].
      pose proof (f_equal q_creator E) as Ec. cbn [sk_step q_creator row_sk] in Ec. rewrite Hc in Ec.
      symmetry in Ec. exact (node_cre_not (KStep, l) s1 _ HW G Ec).
    + intros d Hd Hs. destruct (dep_cpl idf s1 g d Cg Hd) as [d0 [Hd0 ->]]. cbn [d_snk dep_of] in Hs.
      unfold sk in Hs. apply idf_inj in Hs. exact (gn_snk _ _ G d0 Hd0 Hs).
    + destruct (acyclic_cpl idf idf_inj s' _ HJ' C') as [Hca _]. exact Hca.
  - exists (delete_step g (sk idf l)). split; [reflexivity | exact C'].
Qed.


(* ---- the row of a file ---- *)
Lemma remove_file_sim l s1 :
  J s1 -> gone (KFile, l) s1 ->
  sim idf s1 (Ok (remove_rows (KFile, l) s1, [PDeleteFile (fk idf l)])) (fun s' => s' = remove_rows (KFile, l) s1).
Proof.
  intros [HI HN] G. apply sim_one; [reflexivity|]. intros g Cg.
  set (s' := remove_rows (KFile, l) s1) in *.
  destruct (skel_delete_file g (fk idf l)) as [S1 [S2 [S3 S4]]].
  split.
  - cbn [prim_ok]. intros d Hd. destruct (dep_cpl idf s1 g d Cg Hd) as [d0 [Hd0 ->]]. cbn [d_src d_snk dep_of].
    split; intros Hs; unfold fk in Hs; apply idf_inj in Hs;
      [exact (gn_src _ _ G d0 Hd0 Hs) | exact (gn_snk _ _ G d0 Hd0 Hs)].
  - exists (delete_file g (fk idf l)). split; [reflexivity|]. constructor.
    + rewrite S1, (cp_steps idf s1 g Cg). change (steps s') with (steps s1). apply map_ext. intros r.
      unfold row_sk, s'. rewrite node_det_other, node_cre_other by discriminate. reflexivity.
    + rewrite S2, (cp_files idf s1 g Cg), filter_map_comm.
      change (files s') with (filter (fun r => negb (str_eqb (fl r) l)) (files s1)).
      transitivity (map (file_of idf s1) (filter (fun r => negb (str_eqb (fl r) l)) (files s1))).
      * f_equal. apply filter_ext. intros r. cbn [f_key file_of]. unfold fk. rewrite idf_eqb by exact idf_inj.
        try reflexivity; f_equal; try reflexivity.
      * apply map_ext_in. intros r Hr. apply filter_In in Hr. destruct Hr as [_ Hne]. apply negb_true_iff in Hne.
        assert (Hk : (KFile, fl r) <> (KFile, l)).
        { intros E. inversion E as [E']. rewrite E', str_eqb_refl in Hne. discriminate. }
        unfold file_of, s'. rewrite node_det_other, node_cre_other by exact Hk. reflexivity.
    + rewrite S3, (cp_others idf s1 g Cg). symmetry. apply others_of_remove. right. reflexivity.
    + rewrite S4, (cp_deps idf s1 g Cg). reflexivity.
Qed.


(* ---- one round: a deletable node ---- *)
Lemma deletable_J n s : J s -> In n (nodes s) -> deletable n s = true -> J (delete_node (nk n) s).
Proof.
  intros [HI [HT HA]] Hin Hdel. unfold deletable in Hdel.
  apply andb_true_iff in Hdel. destruct Hdel as [Hdel Hsrc]. apply andb_true_iff in Hdel. destruct Hdel as [Hdet Hprod].
  split.
  - eapply delete_node_inv; [exact HI | | exact Hdet | |].
    + unfold find_node. fold (findn (nk n) (nodes s)). apply In_findn; [apply (nw_nodup _ (inv_nw _ HI)) | exact Hin].
    + destruct (products (nk n) s); [reflexivity | discriminate].
    + intros d Hd He. apply negb_true_iff in Hsrc. rewrite existsb_false_iff in Hsrc.
      specialize (Hsrc d Hd). rewrite He, key_eqb_refl in Hsrc. discriminate.
  - unfold NTC. rewrite delete_node_nodes. split.
    + intros m Hm. apply filter_In in Hm. apply HT. tauto.
    + apply (acyclic_incl _ (pedges (nodes s))); [|exact HA]. unfold pedges, removen. intros e He.
      apply in_flat_map in He. destruct He as [m [Hm He]]. apply filter_In in Hm.
      apply in_flat_map. exists m. tauto.
Qed.

Lemma delete_node_sim n s : J s -> In n (nodes s) -> deletable n s = true ->
  sim idf s (Ok (delete_node (nk n) s, delete_node_prims idf (nk n) s)) (fun s' => J s').
Proof.
  intros HJ Hin Hdel. pose proof (deletable_J n s HJ Hin Hdel) as HJ'.
  pose proof HJ as [HI [HT HA]].
  set (k := nk n) in *.
  (* the incoming edges first *)
  pose proof (del_deps_where_t_sim idf idf_inj (fun d => key_eqb (dsnk d) k) s HJ) as S1.
  set (s1 := del_deps_where (fun d => key_eqb (dsnk d) k) s) in *.
  assert (G : gone k s1).
  { unfold deletable in Hdel. apply andb_true_iff in Hdel. destruct Hdel as [Hdel Hsrc].
    apply andb_true_iff in Hdel. destruct Hdel as [Hdet Hprod]. constructor.
    - exists n. split; [|exact Hdet]. unfold find_node. fold (findn k (nodes s)).
      apply In_findn; [apply (nw_nodup _ (inv_nw _ HI)) | exact Hin].
    - change (products k s1) with (products k s). fold k in Hprod. destruct (products k s); [reflexivity | discriminate].
    - intros d Hd He. unfold s1, del_deps_where in Hd. cbn [deps set_deps] in Hd. apply filter_In in Hd. destruct Hd as [Hd _].
      apply negb_true_iff in Hsrc. rewrite existsb_false_iff in Hsrc. specialize (Hsrc d Hd).
      fold k in Hsrc. rewrite He, key_eqb_refl in Hsrc. discriminate.
    - intros d Hd He. unfold s1, del_deps_where in Hd. cbn [deps set_deps] in Hd. apply filter_In in Hd. destruct Hd as [_ Hd].
      rewrite He, key_eqb_refl in Hd. discriminate. }
  assert (Erows : delete_node k s = remove_rows k s1) by reflexivity.
  assert (Hbind : forall tail, sim idf s1 (Ok (remove_rows k s1, tail)) (fun s' => s' = remove_rows k s1) ->
            sim idf s (Ok (delete_node k s, map (fun d => PDelDep (dep_of idf d)) (filter (fun d => key_eqb (dsnk d) k) (deps s)) ++ tail))
                (fun s' => J s')).
  { intros tail St.
    pose proof (sim_bind idf s (del_deps_where_t idf (fun d => key_eqb (dsnk d) k) s)
                  (fun s2 => Ok (remove_rows k s2, tail)) _ (fun s' => J s') S1) as B.
    unfold del_deps_where_t in B. cbn [bindT] in B. fold s1 in B. rewrite Erows. apply B.
    intros s2 [_ ->]. fold s1. eapply sim_weaken; [exact St|]. intros s' ->. rewrite <- Erows. exact HJ'. }
  unfold delete_node_prims, delete_prims. destruct k as [kind l] eqn:Ek. cbn [fst].
  destruct kind.
  - (* root: never detached *)
    exfalso. destruct (gn_node _ _ G) as [kn [Ef Hd]]. unfold find_node in Ef. fold (findn (KRoot, l) (nodes s1)) in Ef.
    destruct (findn_In _ _ _ Ef) as [Hkn Hk]. change (nodes s1) with (nodes s) in Hkn.
    pose proof (nw_kroot _ (inv_nw _ HI) kn Hkn) as Hr. rewrite Hk in Hr. specialize (Hr eq_refl).
    change (nodes s1) with (nodes s) in Ef. rewrite Hr in Ef. rewrite (nw_root _ (inv_nw _ HI)) in Ef.
    inversion Ef; subst kn. discriminate.
  - apply Hbind. apply remove_file_sim; [|exact G].
    destruct S1 as [[HJ1 _] _]. exact HJ1.
  - apply Hbind. destruct S1 as [[HJ1 _] _]. apply remove_step_sim; [exact HJ1 | exact G |].
    rewrite <- Erows. exact HJ'.
  - exfalso. apply (HT n Hin). fold k. rewrite Ek. reflexivity.
Qed.

(* ---- the loop ---- *)
Lemma dd_loop_t_sim fuel : forall lost s, J s ->
  sim idf s (Ok (fst (fst (dd_loop_t idf fuel lost s)), snd (dd_loop_t idf fuel lost s))) (fun s' => J s').
Proof.
  induction fuel as [|fuel IH]; intros lost s HJ; cbn [dd_loop_t].
  - cbn [fst snd]. apply (sim_ret idf). exact HJ.
  - destruct (find (fun n => deletable n s) (nodes s)) as [n|] eqn:Hf.
    2:{ cbn [fst snd]. apply (sim_ret idf). exact HJ. }
    apply find_some in Hf. destruct Hf as [Hin Hdel]. cbn [fst snd].
    set (lost'' := match ncre n with Some c => _ | None => _ end).
    pose proof (delete_node_sim n s HJ Hin Hdel) as S1.
    pose proof (sim_bind idf s (Ok (delete_node (nk n) s, delete_node_prims idf (nk n) s))
                  (fun s2 => Ok (fst (fst (dd_loop_t idf fuel lost'' s2)), snd (dd_loop_t idf fuel lost'' s2)))
                  _ (fun s' => J s') S1) as B.
    cbn [bindT] in B. apply B. intros s2 HJ2. apply IH. exact HJ2.
Qed.

Theorem delete_detached_t_sim s : J s -> sim idf s (delete_detached_t idf s) (fun s' => J s').
Proof.
  intros HJ. unfold delete_detached_t.
  eapply sim_bind; [apply (dd_loop_t_sim (length (nodes s)) [] s HJ)|].
  intros s1 HJ1. apply sim_foldT; [|exact HJ1].
  intros s2 c _ HJ2. destruct (find_node c s2); [|apply sim_ret; exact HJ2].
  unfold after_lost_product_t. destruct (fst c); try exact I.
  - eapply sim_weaken; [apply (delete_hash_t_sim idf idf_inj); exact HJ2 | intros s' [H _]; exact H].
  - apply sim_ret. exact HJ2.
Qed.


(* ---- the operations whose simulation is proved: the ten node-preserving ones and delete_detached ---- *)
Definition proven_op (o : op) : bool :=
  node_preserving o || match o with OpDeleteDetached => true | _ => false end.

Theorem step_op_t_sim_proven a o s : J s -> proven_op o = true -> sim idf s (step_op_t idf a o s) (fun s' => J s').
Proof.
  intros HJ Hp. unfold proven_op in Hp. destruct (node_preserving o) eqn:En.
  - apply step_op_t_sim_preserving; assumption.
  - destruct o; try discriminate. cbn [step_op_t]. apply delete_detached_t_sim. exact HJ.
Qed.

End Delete.
