(* C01, graph level: the transaction-by-transaction results in one statement.
   [K_side o s] = the side condition under which transaction [o] is proved to preserve K in state
   [s]; for define_step it is "the full-recycle branch is not taken" (that branch is the refuted
   one: D4); it is [True] for eight of the fourteen operations.
   K_preserved_all: inv_core_b s, K_side o s, K_b s  =>  K_b (apply_op s o).
   K_history: along every history whose transactions meet their side conditions K holds at the
   end, given that the states of the history satisfy C09's invariant (which C09 proves for every
   history: C09_reachable_inv_core; its proof is not imported here, so it is a premise). *)
From Coq Require Import List NArith Bool Lia.
From SV Require Import lib.Bytes model.Graph model.GraphInv model.NoStale proofs.NoStaleProofs
     proofs.NoStaleMark proofs.NoStaleRescan proofs.NoStaleStep proofs.NoStaleComplete
     proofs.NoStaleExecEnd proofs.NoStaleInv proofs.NoStaleOps proofs.NoStaleDelete
     proofs.NoStaleDeclare proofs.NoStaleAmend proofs.NoStaleDefine.
Import ListNotations.
Open Scope N_scope.

Definition leaf_ready (l : str) (s : st) : Prop :=
  leaf_step l s /\
  (forall f, In f (file_products_in l is_built (rr_pre l s)) -> producers_not_succ (rr_pre l s) f).

Definition K_side (o : op) (s : st) : Prop :=
  match o with
  | OpDefineStep _ l inp env out vol _ => recycles l inp env out vol s = false
  | OpDeclareStatic _ _ | OpDeleteDetached | OpResetInterrupted | OpMarkStepPending _
  | OpDispatch _ | OpValidatePending _ | OpHold _ | OpRelease _ => True
  | OpUpdateHashes _ hs => static_update hs s
  | OpAmendStep l _ _ _ _ => sstate_of l s <> Some SSucceeded
  | OpResetForRerun l => leaf_ready l s
  | OpResetToPending l => leaf_ready l s
  | OpExecEnd l pre c hs ok wd =>
    pre = [] /\
    ((ok = true /\ c = CSucceeded /\ out_update hs s /\
      (forall s1, update_file_hashes CSucceeded hs s = Ok s1 ->
                  (forall k, In k (file_inputs_of_step l s1) -> input_ok k s1 = true) /\
                  (forall f, In f (file_sinks_of_step l s1) ->
                             output_ok f s1 = true \/ In f (file_products_in l is_outdated s1)))) \/
     (ok = false /\ c = CFailed /\ unbuilt_update hs s /\
      file_products_in l is_built s = [] /\ no_created_steps l s))
  end.

Lemma K_preserved_all (o : op) (s : st) :
  inv_core_b s = true -> K_side o s -> K_b s = true -> K_b (apply_op s o) = true.
Proof.
  intros Hi Hside HK. destruct (KI_of_inv s Hi HK) as (Hu & Hsp & _).
  destruct o; cbn [K_side] in Hside.
  - exact (K_op_declare_static creator paths s Hi HK).
  - exact (K_op_update_static c hs s Hu Hsp Hside HK).
  - exact (K_op_define_step_no_recycle creator label inp env out vol nd s Hi Hside HK).
  - exact (K_op_amend_step label inp env out vol s Hi Hside HK).
  - apply K_preserved_partial; [exact HK|left; reflexivity].
  - destruct Hside as [H1 H2]. exact (K_op_reset_for_rerun_leaf label s Hu Hsp H1 H2 HK).
  - destruct Hside as [-> [(-> & -> & Hout & Hproto)|(-> & -> & Hub & Hnb & Hleaf)]].
    + exact (K_op_exec_end_success label hs wants_defer s Hu Hsp Hout HK Hproto).
    + exact (K_op_exec_end_failure_leaf label hs wants_defer s Hu Hsp Hub Hnb Hleaf HK).
  - destruct Hside as [H1 H2]. exact (K_op_reset_to_pending_leaf label s Hu Hsp H1 H2 HK).
  - apply K_preserved_partial; [exact HK|left; reflexivity].
  - exact (K_op_mark_step_pending label s Hu Hsp HK).
  - exact (K_op_delete_detached s Hi HK).
  - apply K_preserved_partial; [exact HK|left; reflexivity].
  - apply K_preserved_partial; [exact HK|left; reflexivity].
  - exact (K_op_reset_interrupted s Hu Hsp HK).
Qed.

Fixpoint sides_ok (s : st) (ops : list op) : Prop :=
  match ops with
  | [] => True
  | o :: rest => K_side o s /\ sides_ok (apply_op s o) rest
  end.

Lemma K_run (ops : list op) :
  forall s, (forall pre, inv_core_b (run_ops pre s) = true) -> sides_ok s ops ->
            K_b s = true -> K_b (run_ops ops s) = true.
Proof.
  induction ops as [|o ops IH]; intros s Hinv Hs HK; [exact HK|].
  cbn [sides_ok] in Hs. destruct Hs as [H1 H2].
  change (run_ops (o :: ops) s) with (run_ops ops (apply_op s o)). apply IH.
  - intros pre. exact (Hinv (o :: pre)).
  - exact H2.
  - exact (K_preserved_all o s (Hinv []) H1 HK).
Qed.

Lemma K_history (cap : N) (ops : list op) :
  (forall pre, inv_core_b (run_ops pre (init_st cap)) = true) ->
  sides_ok (init_st cap) ops -> K_b (run_ops ops (init_st cap)) = true.
Proof. intros Hinv Hs. apply (K_run ops (init_st cap) Hinv Hs). reflexivity. Qed.

(* the side conditions along a real build: build 1 of the D4 history *)
Ltac in_cases H := vm_compute in H; repeat (destruct H as [H|H]; [subst|]); try contradiction.

Lemma sides_ok_build1 : sides_ok (init_st 3) d4_build1.
Proof.
  unfold d4_build1, boot_ops. cbn [app sides_ok K_side].
  repeat match goal with |- _ /\ _ => split end; try exact I; try (vm_compute; reflexivity).
  all: try (intros ph r Hin Hf; vm_compute in Hin; destruct Hin as [<-|[]]; vm_compute in Hf; injection Hf as <-;
            first [reflexivity | left; reflexivity | right; reflexivity]).
  all: try (unfold leaf_ready, leaf_step; cbv zeta; repeat split; try (vm_compute; reflexivity);
            intros f Hf; in_cases Hf).
  all: left; split; [reflexivity|]; split; [reflexivity|]; split;
    [intros ph r Hin Hf; in_cases Hin; vm_compute in Hf; injection Hf as <-;
       first [left; reflexivity | right; reflexivity]|].
  all: intros s1 E; vm_compute in E; injection E as <-; split;
    [intros k Hk; in_cases Hk; vm_compute; reflexivity
    |intros f Hf; in_cases Hf; left; vm_compute; reflexivity].
Qed.
