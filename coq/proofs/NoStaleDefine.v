(* C01, graph level: Workflow.define_step preserves K = NoStaleSuccess whenever it does NOT take the
   full-recycle branch (Trellis.try_recycle), in every state that satisfies C09's invariant.

   The full-recycle branch is the refuted one (D4: the recycled step keeps SUCCEEDED although the
   declaration of one of its inputs was dropped).  In the other branches the step is created
   anew -- a new node, or a detached node re-created (partial recycle): its old creator, detached,
   loses its hash, its input edges are cut, its products (detached like itself) are orphaned --
   and starts PENDING; then inputs, variables and outputs are attached exactly as amend_step
   does it (bundle [JA] of NoStaleAmend.v, at the new step). *)
From Coq Require Import List NArith Bool Lia.
From SV Require Import lib.Bytes model.Graph model.GraphInv model.NoStale proofs.NoStaleProofs
     proofs.NoStaleMark proofs.NoStaleRescan proofs.NoStaleInv proofs.NoStaleOps proofs.NoStaleDelete
     proofs.NoStaleDeclare proofs.NoStaleAmend.
Import ListNotations.
Open Scope N_scope.

(* ------------------------------------------------------------------------------------------ *)
(* Node updates                                                                                *)
(* ------------------------------------------------------------------------------------------ *)
Lemma find_node_upd (k x : key) (g : node -> node) (s : st) :
  (forall n, nk (g n) = nk n) ->
  find_node x (upd_node k g s) = if key_eqb x k then option_map g (find_node x s) else find_node x s.
Proof.
  intros Hg. destruct (key_eqb x k) eqn:E; [|exact (find_node_upd_other k x g s Hg E)].
  apply key_eqb_eq in E. subst x. unfold find_node, upd_node. cbn [nodes set_nodes].
  induction (nodes s) as [|a xs IH]; [reflexivity|]. cbn [map find].
  destruct (key_eqb (nk a) k) eqn:Ea.
  - rewrite Hg, Ea. reflexivity.
  - rewrite Ea. exact IH.
Qed.

(* Node.detach of a node that is detached already: only its creator column changes *)
Lemma node_detach_detached (p : key) (t t' : st) :
  node_detach p t = Ok t' -> is_detached p t = true ->
  steps t' = steps t /\ files t' = files t /\ deps t' = deps t /\ shash t' = shash t /\
  (forall x, is_detached x t' = is_detached x t) /\ nodes_kept t t' /\ (NF t -> NF t').
Proof.
  intros H Hd. unfold node_detach in H. unfold is_detached in Hd.
  destruct (find_node p t) as [n|] eqn:Ef; [|discriminate].
  destruct (ncre n) as [c|].
  - rewrite Hd in H. injection H as <-.
    set (g := fun n0 : node => mkNode (nk n0) None true).
    assert (Hg : forall n0, nk (g n0) = nk n0) by reflexivity.
    refine (conj eq_refl (conj eq_refl (conj eq_refl (conj eq_refl (conj _ (conj _ _)))))).
    + intros x. unfold is_detached. rewrite (find_node_upd p x g t Hg).
      destruct (key_eqb x p) eqn:E; [|reflexivity]. apply key_eqb_eq in E. subst x. rewrite Ef. cbn.
      symmetry. exact Hd.
    + intros x Hx. exact (find_node_some_mono_upd p x g t Hg Hx).
    + intros HN n0 c0 Hin Hc0. unfold upd_node in Hin. cbn [nodes set_nodes] in Hin.
      apply in_map_iff in Hin. destruct Hin as (n1 & Hn1 & Hin1).
      destruct (key_eqb (nk n1) p); subst n0; [discriminate Hc0|exact (HN n1 c0 Hin1 Hc0)].
  - injection H as <-.
    refine (conj eq_refl (conj eq_refl (conj eq_refl (conj eq_refl (conj (fun _ => eq_refl) (conj (nodes_kept_refl _) (fun H => H))))))).
Qed.

Lemma detach_fold (ps : list key) :
  forall t t', foldM (fun s p => detach_any p s) ps t = Ok t' ->
    (forall p, In p ps -> is_detached p t = true) ->
    steps t' = steps t /\ files t' = files t /\ deps t' = deps t /\ shash t' = shash t /\
    (forall x, is_detached x t' = is_detached x t) /\ nodes_kept t t' /\ (NF t -> NF t').
Proof.
  induction ps as [|p ps IH]; intros t t' H Hd; cbn [foldM] in H.
  - injection H as <-.
    refine (conj eq_refl (conj eq_refl (conj eq_refl (conj eq_refl (conj (fun _ => eq_refl) (conj (nodes_kept_refl _) (fun H => H))))))).
  - unfold bind in H. destruct (detach_any p t) as [t1| |] eqn:E1; try discriminate.
    destruct (node_detach_detached p t t1 E1 (Hd p (or_introl eq_refl))) as (A1 & A2 & A3 & A4 & A5 & A6 & A7).
    destruct (IH t1 t' H) as (B1 & B2 & B3 & B4 & B5 & B6 & B7).
    { intros q Hq. rewrite A5. apply Hd. right. exact Hq. }
    split; [congruence|]. split; [congruence|]. split; [congruence|]. split; [congruence|].
    split; [intros x; rewrite B5; apply A5|]. split; [exact (nodes_kept_trans t t1 t' A6 B6)|auto].
Qed.

(* ------------------------------------------------------------------------------------------ *)
(* What the (re-)creation of the step node [k] may change                                      *)
(* ------------------------------------------------------------------------------------------ *)
Definition DeclS (k : key) (s s' : st) : Prop :=
  (forall x, key_eqb x k = false -> is_detached x s' = is_detached x s) /\
  files s' = files s /\
  (exists q, deps s' = filter q (deps s) /\ forall d, key_eqb (dsnk d) k = false -> q d = true) /\
  (forall x, is_detached (KStep, x) s = false -> has_hash x s' = has_hash x s).

Definition fresh_rows (label : str) (nd : need) (s s' : st) : Prop :=
  steps s' = filter (fun r => negb (str_eqb (sl r) label)) (steps s) ++ [mkS label SPending nd false 0 0].

Lemma JA_DeclS (label : str) (nd : need) (s s' : st) :
  DeclS (KStep, label) s s' -> fresh_rows label nd s s' ->
  K_b s = true -> unique_labels s -> single_producer s -> NF s' -> ED s' ->
  find_node (KStep, label) s' <> None -> JA label s'.
Proof.
  intros (Hd & Hfi & (q & Eq & Hq) & Hh) Hrows HK Hu Hsp HN HE Hn.
  assert (Hfs : forall f, fstate_of f s' = fstate_of f s) by (intros f; unfold fstate_of, find_file; rewrite Hfi; reflexivity).
  assert (Hfk : forall f, key_eqb (KFile, f) (KStep, label) = false) by reflexivity.
  assert (Hsinks : forall x f, In f (file_sinks_of_step x s') -> In f (file_sinks_of_step x s)).
  { intros x f Hx. destruct (file_sink_edge x f s' Hx) as (d & Hdin & Hsrc & Hsnk).
    unfold file_sinks_of_step, sinks_of. apply in_map_iff. exists (KFile, f). split; [reflexivity|].
    apply filter_In. split; [|reflexivity]. apply in_map_iff. exists d. split; [exact Hsnk|].
    rewrite Eq in Hdin. apply filter_In in Hdin. destruct Hdin as [Hdin _].
    apply filter_In. split; [exact Hdin|]. rewrite Hsrc. apply key_eqb_refl. }
  split; [|split; [|split; [|split; [exact HN|split; [exact HE|split; [|exact Hn]]]]]].
  - unfold K_b in *. rewrite forallb_forall in *. intros r Hr. rewrite Hrows in Hr.
    apply in_app_or in Hr. destruct Hr as [Hr|[<-|[]]]; [|reflexivity].
    apply filter_In in Hr. destruct Hr as [Hr Hne]. apply negb_true_iff in Hne. specialize (HK r Hr).
    unfold K_step_b in *. destruct (sstate_eqb (sst r) SSucceeded); [|reflexivity]. cbn [negb orb] in *.
    assert (Hrk : key_eqb (KStep, sl r) (KStep, label) = false) by (unfold key_eqb; cbn; exact Hne).
    rewrite (Hd _ Hrk). destruct (is_detached (KStep, sl r) s) eqn:Edr; [reflexivity|]. cbn [orb] in *.
    apply andb_true_iff in HK. destruct HK as [HK Ho]. apply andb_true_iff in HK. destruct HK as [Hha Hi].
    rewrite (Hh (sl r) Edr), Hha. cbn [andb]. rewrite forallb_forall in Hi, Ho.
    apply andb_true_iff. split; rewrite forallb_forall.
    + intros x Hx.
      assert (Hxs : In x (file_inputs_of_step (sl r) s)).
      { unfold file_inputs_of_step, sources_of in *. rewrite Eq in Hx. apply filter_In in Hx.
        destruct Hx as [Hx Hkind]. apply filter_In. split; [|exact Hkind]. apply in_map_iff in Hx.
        destruct Hx as (d & Hdx & Hdin). apply in_map_iff. exists d. split; [exact Hdx|].
        apply filter_In in Hdin. destruct Hdin as [Hdin Hs0]. apply filter_In in Hdin. destruct Hdin as [Hdin _].
        apply filter_In. auto. }
      pose proof (Hi x Hxs) as Hok. unfold input_ok in *.
      assert (Hxf : x = (KFile, snd x)).
      { unfold file_inputs_of_step in Hxs. apply filter_In in Hxs. destruct Hxs as [_ Hkind].
        destruct x as [xk xl]. cbn in *. apply kind_eqb_eq in Hkind. subst. reflexivity. }
      rewrite Hxf, (Hd _ (Hfk (snd x))), Hfs. rewrite <- Hxf. exact Hok.
    + intros f Hf0. specialize (Ho f (Hsinks _ f Hf0)). unfold output_ok in *.
      rewrite (Hd _ (Hfk f)), Hfs. exact Ho.
  - (* labels stay unique *)
    unfold unique_labels in *. rewrite Hrows, map_app. cbn [map sl].
    assert (Hnd : forall xs, NoDup (map sl xs) -> NoDup (map sl (filter (fun r => negb (str_eqb (sl r) label)) xs) ++ [label])).
    { induction xs as [|a xs IH]; intros H; [cbn; constructor; [intros []|constructor]|].
      cbn [map] in H. inversion H as [|? ? Hna Hnd']; subst. cbn [filter].
      destruct (str_eqb (sl a) label) eqn:E; cbn [negb]; [exact (IH Hnd')|].
      cbn [map app]. constructor; [|exact (IH Hnd')]. intros Hin. apply in_app_or in Hin.
      destruct Hin as [Hin|[Hin|[]]].
      - apply Hna. apply in_map_iff in Hin. destruct Hin as (r & Hr & Hrin). apply filter_In in Hrin.
        apply in_map_iff. exists r. tauto.
      - apply str_eqb_false in E. congruence. }
    exact (Hnd (steps s) Hu).
  - intros f l1 l2 Ha H1 H2. rewrite (Hd _ (Hfk f)) in Ha.
    exact (Hsp f l1 l2 Ha (Hsinks _ f H1) (Hsinks _ f H2)).
  - unfold not_succ, sstate_of, find_step. rewrite Hrows.
    assert (E : find (fun r => str_eqb (sl r) label)
                     (filter (fun r => negb (str_eqb (sl r) label)) (steps s) ++ [mkS label SPending nd false 0 0])
                = Some (mkS label SPending nd false 0 0)).
    { induction (steps s) as [|a xs IH]; cbn [filter app find].
      - cbn [sl]. rewrite str_eqb_refl. reflexivity.
      - destruct (str_eqb (sl a) label) eqn:Ea; cbn [negb]; [exact IH|]. cbn [app find]. rewrite Ea. exact IH. }
    rewrite E. discriminate.
Qed.

(* ------------------------------------------------------------------------------------------ *)
(* Trellis.create of a step node + Step.initialize_row                                         *)
(* ------------------------------------------------------------------------------------------ *)
Lemma creator_ok_step_not_file (label : str) (c : key) (s : st) :
  creator_ok (KStep, label) (Some c) s = Ok tt -> fst c <> KFile.
Proof.
  unfold creator_ok. intros H. peel H. intros Hf.
  match goal with E : negb (creator_kind_ok _ (fst c)) = false |- _ =>
    apply negb_false_iff in E; cbn [fst] in E; rewrite Hf in E; discriminate E end.
Qed.

(* the products of a detached node are detached (inv_local_b, unique keys, the root is its own
   creator) *)
Lemma products_of_detached (k : key) (n : node) (s : st) :
  inv_local_b s = true -> inv_nodes_b s = true -> find_node k s = Some n -> ndet n = true ->
  forall n1, In n1 (nodes s) -> ncre n1 = Some k -> key_eqb (nk n1) k = false ->
             is_detached (nk n1) s = true.
Proof.
  intros Hl Hnb Ef Hd n1 Hin Hc Hne.
  unfold inv_nodes_b in Hnb. rewrite !andb_true_iff in Hnb. destruct Hnb as [[Huk Hroot] _].
  unfold is_detached. rewrite (find_node_in s n1 Huk Hin).
  unfold inv_local_b in Hl. rewrite forallb_forall in Hl. specialize (Hl n1 Hin).
  destruct (key_eqb (nk n1) root_key) eqn:Er.
  - (* the root is its own creator: k would be the root itself *)
    exfalso. apply key_eqb_eq in Er. pose proof (find_node_in s n1 Huk Hin) as Hf. rewrite Er in Hf.
    rewrite Hf in Hroot. apply andb_true_iff in Hroot. destruct Hroot as [Hroot _].
    rewrite Hc in Hroot. cbn [okey_eqb] in Hroot. apply key_eqb_eq in Hroot. subst k.
    rewrite Er, key_eqb_refl in Hne. discriminate.
  - cbn [orb] in Hl. rewrite Hc, Ef in Hl. rewrite !andb_true_iff in Hl. destruct Hl as [[Hl _] _].
    rewrite Hd in Hl. destruct (ndet n1); [reflexivity|discriminate].
Qed.

Lemma find_node_added (k : key) (n0 : node) (s : st) :
  nk n0 = k -> find_node k (set_nodes s (nodes s ++ [n0])) <> None.
Proof.
  intros Hn. unfold find_node. cbn [nodes set_nodes]. induction (nodes s) as [|a xs IH]; cbn [app find].
  - rewrite Hn, key_eqb_refl. discriminate.
  - destruct (key_eqb (nk a) k); [discriminate|exact IH].
Qed.

Lemma create_step (label : str) (creator : key) (nd : need) (s s' : st) :
  inv_local_b s = true -> inv_nodes_b s = true -> NF s -> ED s ->
  create (KStep, label) (Some creator) (InitStep nd) s = Ok s' ->
  DeclS (KStep, label) s s' /\ fresh_rows label nd s s' /\ NF s' /\ ED s' /\
  find_node (KStep, label) s' <> None.
Proof.
  intros Hl Hnb HN HE H. unfold create in H. set (k := (KStep, label)) in *.
  unfold bind in H. destruct (creator_ok k (Some creator) s) as [[]| |] eqn:Eco; try discriminate.
  pose proof (creator_ok_step_not_file label creator s Eco) as Hc.
  match type of H with match ?m with _ => _ end = _ => destruct m as [s1| |] eqn:E1; try discriminate end.
  cbn [snd k] in H. change (snd k) with label in H. unfold step_initialize_row in H. injection H as <-.
  assert (Hmid : DeclS k s s1 /\ steps s1 = steps s /\ NF s1 /\ ED s1 /\ find_node k s1 <> None).
  { destruct (find_node k s) as [n|] eqn:Ef.
    - destruct (negb (ndet n)) eqn:Edn; [discriminate|]. apply negb_false_iff in Edn.
      unfold bind in E1.
      set (g := fun n0 : node => mkNode (nk n0) (Some creator) (is_detached creator s)) in *.
      assert (Hg : forall n0, nk (g n0) = nk n0) by reflexivity.
      match type of E1 with match ?m with _ => _ end = _ => destruct m as [s2| |] eqn:E2; try discriminate end.
      (* s2 = upd_node k g s, possibly without the hash of the old (detached) creator *)
      assert (D2 : nodes s2 = nodes (upd_node k g s) /\ deps s2 = deps s /\ files s2 = files s /\
                   steps s2 = steps s /\
                   (forall x, is_detached (KStep, x) s = false -> has_hash x s2 = has_hash x s)).
      { destruct (ncre n) as [oc|].
        - destruct (negb (is_detached oc s)) eqn:Eoc; [discriminate|]. apply negb_false_iff in Eoc.
          unfold after_lost_product in E2. destruct oc as [ock ocl]. cbn [fst snd] in E2.
          destruct ock; try discriminate; injection E2 as <-;
            (split; [reflexivity|split; [reflexivity|split; [reflexivity|split; [reflexivity|]]]]).
          + intros x Hx. change (has_hash x s) with (has_hash x (upd_node k g s)).
            apply has_hash_delete_other. intros ->. congruence.
          + reflexivity.
        - injection E2 as <-. repeat (split; [reflexivity|]). reflexivity. }
      destruct D2 as (N2 & Dp2 & F2 & S2 & H2). cbv zeta in E1.
      set (s3 := del_all_sources k s2) in *.
      assert (Hdet3 : forall x, key_eqb x k = false -> is_detached x s3 = is_detached x s).
      { intros x Hx. unfold is_detached, find_node. change (nodes s3) with (nodes s2). rewrite N2.
        fold (find_node x (upd_node k g s)). rewrite (find_node_upd_other k x g s Hg Hx). reflexivity. }
      (* the products of k are detached *)
      assert (Hprod : forall p, In p (products k s3) -> is_detached p s3 = true).
      { intros p Hp. unfold products in Hp. apply in_map_iff in Hp. destruct Hp as (n' & <- & Hn').
        apply filter_In in Hn'. destruct Hn' as [Hin' Hcond]. apply andb_true_iff in Hcond.
        destruct Hcond as [Hcre Hnek]. apply negb_true_iff in Hnek.
        change (nodes s3) with (nodes s2) in Hin'. rewrite N2 in Hin'.
        unfold upd_node in Hin'. cbn [nodes set_nodes] in Hin'. apply in_map_iff in Hin'.
        destruct Hin' as (n1 & Hn1 & Hin1). destruct (key_eqb (nk n1) k) eqn:E1k.
        - subst n'. rewrite Hg, E1k in Hnek. discriminate.
        - subst n'. rewrite (Hdet3 _ Hnek).
          destruct (ncre n1) as [c1|] eqn:Ec1; [|discriminate]. cbn [okey_eqb] in Hcre.
          apply key_eqb_eq in Hcre. subst c1.
          exact (products_of_detached k n s Hl Hnb Ef Edn n1 Hin1 Ec1 Hnek). }
      destruct (detach_fold (products k s3) s3 s1 E1 Hprod) as (A1 & A2 & A3 & A4 & A5 & A6 & A7).
      assert (HN3 : NF s3).
      { intros n0 c0 Hn0 Hc0. change (nodes s3) with (nodes s2) in Hn0. rewrite N2 in Hn0.
        unfold upd_node in Hn0. cbn [nodes set_nodes] in Hn0. apply in_map_iff in Hn0.
        destruct Hn0 as (n1 & Hn1 & Hin1). destruct (key_eqb (nk n1) k); subst n0.
        - cbn [ncre g] in Hc0. injection Hc0 as <-. exact Hc.
        - exact (HN n1 c0 Hin1 Hc0). }
      assert (Hk3 : nodes_kept s s3).
      { intros x Hx. unfold find_node. change (nodes s3) with (nodes s2). rewrite N2.
        exact (find_node_some_mono_upd k x g s Hg Hx). }
      split; [|split; [|split; [exact (A7 HN3)|split]]].
      + split; [intros x Hx; rewrite A5; exact (Hdet3 x Hx)|]. split; [rewrite A2; exact F2|]. split.
        * exists (fun d => negb (key_eqb (dsnk d) k)). split.
          -- rewrite A3. change (deps s3) with (filter (fun d => negb (key_eqb (dsnk d) k)) (deps s2)).
             rewrite Dp2. reflexivity.
          -- intros d Hd. rewrite Hd. reflexivity.
        * intros x Hx. unfold has_hash. rewrite A4. change (shash s3) with (shash s2). exact (H2 x Hx).
      + rewrite A1. exact S2.
      + intros d Hd. rewrite A3 in Hd.
        change (deps s3) with (filter (fun d0 => negb (key_eqb (dsnk d0) k)) (deps s2)) in Hd.
        apply filter_In in Hd. destruct Hd as [Hd _]. rewrite Dp2 in Hd. exact (A6 _ (Hk3 _ (HE d Hd))).
      + apply A6. apply Hk3. rewrite Ef. discriminate.
    - injection E1 as <-.
      assert (Hkept : nodes_kept s (set_nodes s (nodes s ++ [mkNode k (Some creator) (is_detached creator s)]))).
      { intros x Hx. apply find_node_some_mono_add. exact Hx. }
      split; [|split; [reflexivity|split; [|split]]].
      + split.
        * destruct (Decl_add_node k (mkNode k (Some creator) (is_detached creator s)) s eq_refl) as (_ & Hd & _).
          exact Hd.
        * split; [reflexivity|]. split; [|reflexivity]. exists (fun _ => true). split; [exact (deps_filter_true s)|reflexivity].
      + intros n0 c0 Hn0 Hc0. cbn [nodes set_nodes] in Hn0. apply in_app_or in Hn0.
        destruct Hn0 as [Hn0|[<-|[]]]; [exact (HN n0 c0 Hn0 Hc0)|]. cbn in Hc0. injection Hc0 as <-. exact Hc.
      + intros d Hd. cbn [deps set_nodes] in Hd. exact (Hkept _ (HE d Hd)).
      + apply find_node_added. reflexivity. }
  destruct Hmid as (D1 & S1 & HN1 & HE1 & Hk1).
  split; [exact D1|]. split; [unfold fresh_rows; cbn [steps set_steps]; rewrite S1; reflexivity|].
  split; [exact HN1|]. split; [exact HE1|exact Hk1].
Qed.

(* ------------------------------------------------------------------------------------------ *)
(* Workflow.define_step without the full recycle                                               *)
(* ------------------------------------------------------------------------------------------ *)
Lemma JA_define_step_new (creator : key) (label : str) (inp env out vol : list str) (nd : need) (s s' : st) :
  inv_core_b s = true -> K_b s = true ->
  define_step_new creator label inp env out vol nd s = Ok s' -> JA label s'.
Proof.
  intros Hi HK H. destruct (inv_core_parts s Hi) as (Hl & _ & _). pose proof (inv_core_nodes s Hi) as Hnb.
  destruct (inv_core_NF_ED s Hi) as [HN HE]. unfold define_step_new in H. cbv zeta in H. unfold bind in H.
  match type of H with match ?m with _ => _ end = _ => destruct m as [[]| |]; try discriminate end.
  match type of H with match ?m with _ => _ end = _ => destruct m as [[]| |]; try discriminate end.
  match type of H with (if ?c then _ else _) = _ => destruct c; [discriminate|] end.
  destruct (create (KStep, label) (Some creator) (InitStep nd) s) as [s1| |] eqn:E1; try discriminate.
  destruct (create_step label creator nd s s1 Hl Hnb HN HE E1) as (D1 & R1 & HN1 & HE1 & Hk1).
  pose proof (JA_DeclS label nd s s1 D1 R1 HK (inv_core_unique_labels s Hi) (inv_core_single_producer s Hi)
                HN1 HE1 Hk1) as J1.
  destruct (supply_files label inp true false s1) as [s2| |] eqn:E2; try discriminate.
  pose proof (JA_supply_files label inp true false s1 s2 E2 J1) as J2.
  pose proof (JA_add_envs label false true env s2 J2) as J3.
  set (s3 := fold_left (fun s0 e => add_env label e false true s0) env s2) in *.
  match type of H with match ?m with _ => _ end = _ => destruct m as [s4| |] eqn:E4; try discriminate end.
  assert (J4 : JA label s4).
  { refine (foldM_inv _ (JA label) _ out s3 s4 J3 E4). intros t p t' Jt Hc.
    exact (JA_declare_output label p FPlanned false t t' Hc Jt). }
  refine (foldM_inv _ (JA label) _ vol s4 s' J4 H). intros t p t' Jt Hc.
  exact (JA_declare_output label p FVolatile false t t' Hc Jt).
Qed.

(* the full-recycle branch is taken *)
Definition recycles (label : str) (inp env out vol : list str) (s : st) : bool :=
  match find_node (KStep, label) s with
  | Some n => ndet n && can_recycle label inp env out vol s
  | None => false
  end.

Lemma K_define_step_no_recycle (creator : key) (label : str) (inp env out vol : list str) (nd : need)
      (s s' : st) :
  inv_core_b s = true -> recycles label inp env out vol s = false ->
  define_step creator label inp env out vol nd s = Ok s' -> K_b s = true -> K_b s' = true.
Proof.
  intros Hi Hr H HK. unfold define_step in H. cbv zeta in H. unfold recycles in Hr.
  assert (Hnew : define_step_new creator label inp env out vol nd s = Ok s' -> K_b s' = true).
  { intros Hn. exact (proj1 (JA_define_step_new creator label inp env out vol nd s s' Hi HK Hn)). }
  repeat match type of H with
         | (if ?c then _ else _) = _ =>
           match c with
           | context [can_recycle] => fail 1
           | _ => destruct c; try discriminate H
           end
         end.
  destruct (find_node (KStep, label) s) as [n|]; [|exact (Hnew H)].
  rewrite Hr in H. destruct (negb (ndet n)); [discriminate|exact (Hnew H)].
Qed.

Lemma K_op_define_step_no_recycle (creator : key) (label : str) (inp env out vol : list str) (nd : need)
      (s : st) :
  inv_core_b s = true -> recycles label inp env out vol s = false -> K_b s = true ->
  K_b (apply_op s (OpDefineStep creator label inp env out vol nd)) = true.
Proof.
  intros Hi Hr HK. unfold apply_op. cbn [step_op].
  destruct (define_step creator label inp env out vol nd s) as [s'| |] eqn:E; try exact HK.
  exact (K_define_step_no_recycle creator label inp env out vol nd s s' Hi Hr E HK).
Qed.
