(* C09: documented file state transitions for ALL operations of the alphabet with trees
   (transitions_documented, file rows; extends proofs/GraphTrans.v, which covers the operations that
   declare no file).  A declaring request (declare_static, define_step, amend_step,
   register_static_tree) moves an existing file row only along the closure of the documented
   declaration steps: File.initialize_row with one of the requestable states UNDECLARED (supplied as
   an input), UNCONFIRMED, PLANNED, VOLATILE and its keep rules (BUILT / OUTDATED kept when recreated
   as UNDECLARED / PLANNED, VOLATILE kept when recreated as UNDECLARED), and BUILT -> OUTDATED
   (mark_file_outdated).  As a table (decl_trans_b): a declaring request never makes an existing row
   CONFIRMED, MISSING or BUILT, and OUTDATED only from BUILT.  No invariant is needed. *)
From Coq Require Import List NArith Bool Lia Relations.
From SV Require Import lib.Bytes lib.Closure model.Graph model.GraphInv model.GraphTree model.GraphTreeInv
  proofs.GraphBase proofs.GraphNodes proofs.GraphInvP proofs.GraphPrims proofs.GraphFrames proofs.GraphCreate
  proofs.GraphOps proofs.GraphTrans proofs.GraphTreeSim.
Import ListNotations.
Open Scope N_scope.

(* the states a declaration can request (the _DECLARABLE_STATES and UNDECLARED of _resolve_supply_file) *)
Definition requestable (f : fstate) : bool :=
  match f with FUndeclared | FUnconfirmed | FPlanned | FVolatile => true | _ => false end.

(* File.initialize_row: the state an existing row gets *)
Definition init_state (req old : fstate) : fstate :=
  match req, old with
  | FUndeclared, (FBuilt | FOutdated | FVolatile) => old
  | FPlanned, (FBuilt | FOutdated) => old
  | _, _ => req
  end.

(* one documented step of a declaring transaction *)
Definition decl_step (old new : fstate) : Prop :=
  (exists req, requestable req = true /\ new = init_state req old) \/ (old = FBuilt /\ new = FOutdated).

Definition decl_trans_b (old new : fstate) : bool :=
  fstate_eqb old new ||
  match new with
  | FConfirmed | FMissing | FBuilt => false
  | FOutdated => match old with FBuilt => true | _ => false end
  | _ => true
  end.

Lemma decl_trans_b_refl a : decl_trans_b a a = true.
Proof. destruct a; reflexivity. Qed.
Lemma decl_trans_b_trans a b c : decl_trans_b a b = true -> decl_trans_b b c = true -> decl_trans_b a c = true.
Proof. destruct a, b; cbn; try discriminate; destruct c; cbn; auto. Qed.

Lemma decl_step_trans_b a b : decl_step a b -> decl_trans_b a b = true.
Proof.
  intros [[req [Hr ->]]|[-> ->]]; [|reflexivity]. destruct req; try discriminate; destruct a; reflexivity.
Qed.

Ltac ds req := apply rt_step; left; exists req; split; reflexivity.
Lemma decl_trans_b_closure a b : decl_trans_b a b = true <-> clos_refl_trans fstate decl_step a b.
Proof.
  split.
  - destruct a, b; cbn; intros H; try discriminate; try apply rt_refl;
      first [ ds FUndeclared | ds FUnconfirmed | ds FPlanned | ds FVolatile
            | apply rt_step; right; split; reflexivity
            | apply (rt_trans _ _ _ FUnconfirmed); [ds FUnconfirmed | first [ds FUndeclared | ds FPlanned]] ].
  - intros H. induction H as [x y H|x|x y z _ IH1 _ IH2].
    + apply decl_step_trans_b. exact H.
    + apply decl_trans_b_refl.
    + eapply decl_trans_b_trans; eassumption.
Qed.

(* ------------------------------------------------------------------------------------------ *)
(* the frame: every row persists and moves along the table                                     *)
(* ------------------------------------------------------------------------------------------ *)
Definition DT (s s' : st) : Prop :=
  forall l r, find_file l s = Some r ->
              exists r', find_file l s' = Some r' /\ decl_trans_b (fstt r) (fstt r') = true.

Lemma DT_refl s : DT s s.
Proof. intros l r H. exists r. split; [exact H | apply decl_trans_b_refl]. Qed.
Lemma DT_trans s1 s2 s3 : DT s1 s2 -> DT s2 s3 -> DT s1 s3.
Proof.
  intros A B l r H. destruct (A l r H) as [r2 [H2 T2]]. destruct (B l r2 H2) as [r3 [H3 T3]].
  exists r3. split; [exact H3 | eapply decl_trans_b_trans; eassumption].
Qed.
Lemma DT_files s s' : files s' = files s -> DT s s'.
Proof. intros E l r H. exists r. split; [unfold find_file in *; rewrite E; exact H | apply decl_trans_b_refl]. Qed.

Lemma wpg_DT_files (r : res st) s : wpg false r (fun s' => files s' = files s) -> wpg false r (DT s).
Proof. intros H. eapply wpg_weaken; [exact H|]. intros s' E. apply DT_files. exact E. Qed.
Lemma wpg_DT_bind (r : res st) (f : st -> res st) s :
  wpg false r (DT s) -> (forall s1, wpg false (f s1) (DT s1)) -> wpg false (bind r f) (DT s).
Proof.
  intros Hr Hf. apply wpg_bind. eapply wpg_weaken; [exact Hr|]. intros s1 H1.
  eapply wpg_weaken; [apply Hf|]. intros s2 H2. eapply DT_trans; eassumption.
Qed.
Lemma foldM_DT {A} (f : st -> A -> res st) (l : list A) s :
  (forall s a, wpg false (f s a) (DT s)) -> wpg false (foldM f l s) (DT s).
Proof.
  intros Hf. apply (wpg_foldM false f (DT s)); [|apply DT_refl].
  intros s1 a _ H1. eapply wpg_weaken; [apply Hf|]. intros s2 H2. eapply DT_trans; eassumption.
Qed.
Lemma foldM_files {A} (f : st -> A -> res st) (l : list A) s :
  (forall s a, wpg false (f s a) (fun s' => files s' = files s)) ->
  wpg false (foldM f l s) (fun s' => files s' = files s).
Proof.
  intros Hf. apply (wpg_foldM false f (fun s' => files s' = files s)); [|reflexivity].
  intros s1 a _ H1. eapply wpg_weaken; [apply Hf|]. intros s2 H2. congruence.
Qed.

Lemma set_fstate_hash_DT l new newh s s' :
  (forall r, find_file l s = Some r -> decl_trans_b (fstt r) new = true) ->
  set_fstate_hash l new newh s = Ok s' -> DT s s'.
Proof.
  intros Hn. unfold set_fstate_hash. destruct (find_file l s) as [r|] eqn:Hf; [|intros H; inversion H; apply DT_refl].
  destruct (needs_hash new && _); [discriminate|]. destruct (fstate_eqb new FUndeclared && _); [discriminate|].
  intros H; inversion H; subst s'. clear H.
  intros x r0 H0. unfold find_file. rewrite files_upd_file.
  match goal with |- exists _, find _ (updf _ ?g _) = _ /\ _ => fold (findf x (updf l g (files s))) end.
  rewrite findf_updf; [|reflexivity]. unfold find_file in H0. fold (findf x (files s)) in H0.
  destruct (str_eqb x l) eqn:E.
  - apply str_eqb_eq in E. subst x. rewrite H0. cbn. eexists. split; [reflexivity|]. cbn.
    apply Hn. unfold find_file. fold (findf l (files s)). rewrite <- Hf. unfold find_file. exact H0.
  - exists r0. split; [exact H0 | apply decl_trans_b_refl].
Qed.

(* state propagation: only BUILT -> OUTDATED *)
Lemma mark_DT fuel :
  (forall l s, wpg false (mark_step_pending_f fuel l s) (DT s)) /\
  (forall f s, wpg false (mark_file_outdated_f fuel f s) (DT s)).
Proof.
  induction fuel as [|fuel [IHs IHf]]; [split; intros; exact I|]. split.
  - intros l s. cbn [mark_step_pending_f]. destruct (sstate_of l s) as [old|]; [|exact I].
    assert (Hmain : forall after, (forall s1, wpg false (after s1) (DT s1)) ->
               wpg false (bind (set_sstate l SPending false s) after) (DT s)).
    { intros after Ha. apply wpg_DT_bind; [|exact Ha]. apply wpg_DT_files. apply wpg_of_ok.
      intros s1 E. eapply set_sstate_files. exact E. }
    assert (Hprop : forall s1, wpg false (foldM (fun s f => match fstate_of f s with
                                             | Some FBuilt => mark_file_outdated_f fuel f s
                                             | _ => Ok s end) (file_sinks_of_step l s1) s1) (DT s1)).
    { intros s1. apply foldM_DT. intros s2 f. destruct (fstate_of f s2) as [[]|]; try (cbn; apply DT_refl). apply IHf. }
    destruct old; try (cbn; apply DT_refl).
    + apply Hmain. intros s1. cbn. apply DT_refl.
    + apply Hmain. exact Hprop.
    + apply Hmain. exact Hprop.
  - intros f s. cbn [mark_file_outdated_f].
    destruct (fstate_of f s) as [[]|] eqn:Hfs; try exact I; [|cbn; apply DT_refl].
    apply wpg_DT_bind.
    + apply wpg_of_ok. intros s1 E. unfold set_fstate in E. eapply set_fstate_hash_DT; [|exact E].
      intros r Hr. unfold fstate_of in Hfs. rewrite Hr in Hfs. inversion Hfs as [Hst]. rewrite Hst. reflexivity.
    + intros s1. apply foldM_DT. intros s2 l. apply IHs.
Qed.

Lemma mark_step_pending_DT l s : wpg false (mark_step_pending l s) (DT s).
Proof. apply (proj1 (mark_DT _)). Qed.
Lemma mark_file_outdated_DT f s : wpg false (mark_file_outdated f s) (DT s).
Proof. apply (proj2 (mark_DT _)). Qed.

(* ------------------------------------------------------------------------------------------ *)
(* File.initialize_row and Trellis.create                                                      *)
(* ------------------------------------------------------------------------------------------ *)
Lemma file_initialize_row_DT l req s :
  requestable req = true -> wpg false (file_initialize_row l req s) (DT s).
Proof.
  intros Hreq. unfold file_initialize_row.
  set (state := match req, find_file l s with
                | FUndeclared, Some r => _ | FPlanned, Some r => _ | _, _ => req end).
  apply wpg_DT_bind.
  - destruct (find_file l s) as [r|] eqn:Hf.
    + apply wpg_of_ok. intros s1 H. unfold set_fstate in H. eapply set_fstate_hash_DT; [|exact H].
      intros r0 Hr0. rewrite Hf in Hr0. inversion Hr0; subst r0.
      subst state. destruct req; try discriminate; destruct (fstt r); reflexivity.
    + destruct (needs_hash state); [exact I|]. destruct (fstate_eqb state FUndeclared && _); [exact I|].
      cbn [wpg]. intros x r0 H0. exists r0. split; [|apply decl_trans_b_refl].
      unfold find_file in *. cbn [files set_files]. rewrite find_app. rewrite H0. reflexivity.
  - intros s1. destruct state; try (cbn; apply DT_refl). apply mark_file_outdated_DT.
Qed.

Lemma after_lost_product_files oc s s' : after_lost_product oc s = Ok s' -> files s' = files s.
Proof. unfold after_lost_product. destruct (fst oc); try discriminate; intros H; inversion H; reflexivity. Qed.

Lemma create_nodes_files k creator cdet s s1 : create_nodes k creator cdet s = Ok s1 -> files s1 = files s.
Proof.
  unfold create_nodes. destruct (find_node k s) as [n|]; [|intros H; inversion H; reflexivity].
  destruct (negb (ndet n)); [discriminate|].
  set (s1' := upd_node k _ s).
  destruct (match ncre n with Some oc => _ | None => Ok s1' end) as [s2|t|t] eqn:E2; try discriminate. cbn [bind].
  assert (H2 : files s2 = files s).
  { destruct (ncre n) as [oc|]; [|inversion E2; reflexivity].
    destruct (negb (is_detached oc s)); [discriminate|]. rewrite (after_lost_product_files _ _ _ E2). reflexivity. }
  intros H. rewrite <- H2.
  assert (Hw : wpg false (foldM (fun s p => detach_any p s) (products k (del_all_sources k s2)) (del_all_sources k s2))
                   (fun s' => files s' = files (del_all_sources k s2))).
  { apply foldM_files. intros s0 p. apply wpg_of_ok. intros s3 H3. eapply node_detach_files; exact H3. }
  exact (ok_of_wpg _ _ _ Hw H).
Qed.

Definition arg_requestable (arg : init_arg) : bool :=
  match arg with InitFile f => requestable f | _ => true end.

Lemma create_DT k creator arg s : arg_requestable arg = true -> wpg false (create k creator arg s) (DT s).
Proof.
  intros Harg. rewrite create_unfold. destruct (creator_ok k creator s) as [[]|t|t]; try exact I. cbn [bind].
  apply wpg_bind. destruct (create_nodes k creator (cdet_of creator s) s) as [s1|t|t] eqn:E1; try exact I. cbn [wpg].
  pose proof (create_nodes_files _ _ _ _ _ E1) as Hs1.
  destruct arg as [f|nd|].
  - eapply wpg_weaken; [apply file_initialize_row_DT; exact Harg|]. intros s' H.
    eapply DT_trans; [apply DT_files; exact Hs1 | exact H].
  - unfold step_initialize_row. cbn [wpg]. apply DT_files. exact Hs1.
  - cbn [wpg]. apply DT_files. exact Hs1.
Qed.

Lemma declare_file_DT c l f s : wpg false (declare_file c l f s) (DT s).
Proof.
  unfold declare_file.
  destruct f; try exact I; apply wpg_bind;
    (eapply wpg_weaken; [apply create_DT; reflexivity|]); intros s1 H1; cbn [wpg]; try exact H1.
  destruct (attached_step_sinks l s1); cbn; [exact H1 | exact I].
Qed.

Lemma declare_file_t_DT c l f s : wpg false (declare_file_t c l f s) (DT s).
Proof.
  unfold declare_file_t. destruct f; try exact I; (destruct (tree_guard c l s) as [[]|t|t]; [|exact I|exact I]); cbn [bind];
    apply declare_file_DT.
Qed.

Lemma declare_static_files_t_DT c paths s : wpg false (declare_static_files_t c paths s) (DT s).
Proof.
  unfold declare_static_files_t. destruct (negb _); [exact I|].
  apply wpg_bind. destruct (foldM _ paths []) as [todo|t|t]; try exact I. cbn [wpg].
  apply foldM_DT. intros s0 dl. apply declare_file_t_DT.
Qed.

Lemma resolve_supply_file_DT step l rn s : wpg false (resolve_supply_file step l rn s) (fun r => DT s (fst r)).
Proof.
  unfold resolve_supply_file. apply wpg_bind.
  assert (Hc : wpg false (create (KFile, l) None (InitFile FUndeclared) s) (DT s)) by (apply create_DT; reflexivity).
  assert (Hfin : forall s1, DT s s1 ->
            wpg false (let isnew := negb (has_dep (KFile, l) (KStep, step) s1) in
                       if negb isnew && rn then Usage 205 else Ok (s1, isnew)) (fun r => DT s (fst r))).
  { intros s1 H1. cbn zeta. destruct (negb (negb (has_dep (KFile, l) (KStep, step) s1)) && rn); cbn; auto. }
  destruct (find_node (KFile, l) s) as [n|].
  2:{ eapply wpg_weaken; [exact Hc | exact Hfin]. }
  destruct (ncre n); [|eapply wpg_weaken; [exact Hc | exact Hfin]].
  destruct (fstate_of l s) as [[]|]; try exact I; cbn [wpg]; apply Hfin; apply DT_refl.
Qed.

Lemma resolve_supply_file_t_DT step l rn s : wpg false (resolve_supply_file_t step l rn s) (fun r => DT s (fst r)).
Proof.
  unfold resolve_supply_file_t. destruct (is_detached (KFile, l) s); [|apply resolve_supply_file_DT].
  apply wpg_bind. destruct (find_owning_tree l s) as [[t|]|x|x]; try exact I; cbn [wpg]; [|apply resolve_supply_file_DT].
  apply wpg_bind. eapply wpg_weaken; [apply (create_DT (KFile, l) (Some (KTree, t)) (InitFile FUnconfirmed) s); reflexivity|].
  intros s1 H1. cbn zeta. destruct (negb (negb (has_dep (KFile, l) (KStep, step) s1)) && rn); cbn; auto.
Qed.

Lemma add_dep_files a b dyn s s' : add_dep a b dyn s = Ok s' -> files s' = files s.
Proof.
  unfold add_dep. destruct (has_dep a b s); [discriminate|]. destruct (negb _); [discriminate|].
  intros H; inversion H. reflexivity.
Qed.

Lemma supply_files_t_DT step paths rn dyn s : wpg false (supply_files_t step paths rn dyn s) (DT s).
Proof.
  unfold supply_files_t. apply wpg_bind. eapply wpg_weaken.
  { apply (wpg_foldM false _ (fun acc : st * list str => DT s (fst acc))).
    - intros acc l _ H1. apply wpg_bind. eapply wpg_weaken; [apply resolve_supply_file_t_DT|].
      intros r R1. cbn [wpg fst]. eapply DT_trans; [exact H1 | exact R1].
    - cbn. apply DT_refl. }
  intros [s1 news] H1. cbn [fst snd] in *.
  assert (Hadd : wpg false (foldM (fun s l => add_dep (KFile, l) (KStep, step) dyn s) news s1) (DT s)).
  { eapply wpg_weaken.
    - apply (wpg_DT_files _ s1). apply foldM_files. intros s0 l. apply wpg_of_ok. intros s2 H. eapply add_dep_files; exact H.
    - intros s2 H2. eapply DT_trans; [exact H1 | exact H2]. }
  destruct news as [|l0 news']; [exact Hadd|].
  destruct (would_cycle _ _ s1); [exact I | exact Hadd].
Qed.

Lemma fold_add_env_files label dyn rep env s : files (fold_left (fun s e => add_env label e dyn rep s) env s) = files s.
Proof.
  revert s. induction env as [|e env IH]; intros s; cbn; [reflexivity|]. rewrite IH.
  unfold add_env. destruct (existsb _ (envs s)); [destruct rep|]; reflexivity.
Qed.

Lemma out_fold_DT k label dyn f ls s :
  wpg false (foldM (fun s l => do s' <- declare_file_t k l f s; add_output_edge label l dyn s') ls s) (DT s).
Proof.
  apply foldM_DT. intros s0 l. apply wpg_DT_bind; [apply declare_file_t_DT|]. intros s1.
  apply wpg_DT_files. unfold add_output_edge. destruct (would_cycle _ _ s1); [exact I|].
  apply wpg_of_ok. intros s2 H. eapply add_dep_files; exact H.
Qed.

Lemma define_step_new_t_DT creator label inp env out vol nd s :
  wpg false (define_step_new_t creator label inp env out vol nd s) (DT s).
Proof.
  unfold define_step_new_t.
  apply wpg_bind. destruct (foldM _ out tt) as [u|t|t]; try exact I. cbn [wpg].
  apply wpg_bind. destruct (foldM _ vol tt) as [u'|t|t]; try exact I. cbn [wpg].
  destruct (existsb _ out); [exact I|].
  apply wpg_DT_bind; [apply create_DT; reflexivity|]. intros s1.
  apply wpg_DT_bind; [apply supply_files_t_DT|]. intros s2.
  eapply wpg_weaken.
  - apply wpg_DT_bind; [apply out_fold_DT | intros s4; apply out_fold_DT].
  - intros s5 H. eapply DT_trans; [|exact H]. apply DT_files. apply fold_add_env_files.
Qed.

Lemma node_reattach_files k c s s' : node_reattach k c s = Ok s' -> files s' = files s.
Proof.
  unfold node_reattach. destruct (find_node k s) as [n|]; [|discriminate]. destruct (find_node c s) as [cn|]; [|discriminate].
  destruct (negb (ndet n)); [discriminate|]. destruct (key_eqb c k); [discriminate|].
  destruct (negb (creator_kind_ok _ _)); [discriminate|]. destruct (mem_key c _); [discriminate|]. cbn zeta.
  set (s1 := upd_node k _ s).
  destruct (match ncre n with Some oc => _ | None => Ok s1 end) as [s2|t|t] eqn:E2; try discriminate. cbn [bind].
  intros H; inversion H. cbn.
  destruct (ncre n) as [oc|]; [|inversion E2; reflexivity].
  destruct (negb (is_detached oc s)); [discriminate|]. rewrite (after_lost_product_files _ _ _ E2). reflexivity.
Qed.

Lemma define_step_t_DT creator label inp env out vol nd s :
  wpg false (define_step_t creator label inp env out vol nd s) (DT s).
Proof.
  unfold define_step_t. destruct (negb _); [exact I|]. destruct (key_eqb creator root_key && _); [exact I|].
  destruct (key_eqb creator (KStep, label)); [exact I|]. destruct (mem_key creator _); [exact I|].
  pose proof (define_step_new_t_DT creator label inp env out vol nd s) as Hnew.
  destruct (find_node (KStep, label) s) as [n|]; [|exact Hnew].
  destruct (ndet n && can_recycle label inp env out vol s); [|destruct (negb (ndet n)); [exact I | exact Hnew]].
  apply wpg_bind. destruct (node_reattach (KStep, label) creator s) as [s1|t|t] eqn:E1; try exact I. cbn [wpg].
  set (g := fun r : srow => mkS (sl r) (sst r) nd (sdef r) (sdc r) 0).
  assert (H02 : DT s (upd_step label g s1)).
  { apply DT_files. cbn. eapply node_reattach_files. exact E1. }
  destruct (sstate_of label (upd_step label g s1)) as [[]|]; try (cbn; exact H02).
  eapply wpg_weaken; [apply mark_step_pending_DT|]. intros s3 H3. eapply DT_trans; eassumption.
Qed.

Lemma amend_step_t_DT label inp env out vol s : wpg false (amend_step_t label inp env out vol s) (DT s).
Proof.
  unfold amend_step_t. destruct (negb _); [exact I|].
  apply wpg_DT_bind; [apply supply_files_t_DT|]. intros s1.
  set (s2 := fold_left _ env s1).
  assert (H12 : DT s1 s2) by (apply DT_files; apply fold_add_env_files).
  apply wpg_bind. destruct (foldM _ out []) as [out'|t|t]; try exact I. cbn [wpg].
  apply wpg_bind. destruct (foldM _ vol []) as [vol'|t|t]; try exact I. cbn [wpg].
  destruct (existsb _ out'); [exact I|].
  eapply wpg_weaken.
  - apply wpg_DT_bind; [apply out_fold_DT | intros s4; apply out_fold_DT].
  - intros s5 H. eapply DT_trans; [exact H12 | exact H].
Qed.

Lemma fold_upd_node_files (g : node -> node -> node) (l : list node) : forall s,
  files (fold_left (fun s n => upd_node (nk n) (g n) s) l s) = files s.
Proof. induction l as [|n l IH]; intros s; cbn [fold_left]; [reflexivity|]. rewrite IH. reflexivity. Qed.

Lemma register_static_tree_DT c p s : wpg false (register_static_tree c p s) (DT s).
Proof.
  unfold register_static_tree. destruct (negb _); [exact I|].
  apply wpg_bind. destruct (find_owning_tree p s) as [[t|]|x|x]; try exact I; cbn [wpg].
  - destruct (okey_eqb _ _); [cbn; apply DT_refl|]. destruct (str_eqb t p); exact I.
  - destruct (existsb _ (nodes s)); [exact I|]. cbn zeta.
    destruct (existsb _ (file_nodes_under p false s)); [exact I|].
    destruct (existsb _ (file_nodes_under p false s)); [exact I|].
    apply wpg_DT_bind; [apply (create_DT (KTree, p) (Some c) InitTree s); reflexivity|]. intros s1.
    set (s2 := fold_left _ (file_nodes_under p false s) s1).
    assert (H12 : files s2 = files s1) by apply fold_upd_node_files.
    eapply wpg_weaken; [apply declare_static_files_t_DT|]. intros s3 H.
    eapply DT_trans; [apply DT_files; exact H12 | exact H].
Qed.

(* ------------------------------------------------------------------------------------------ *)
(* the theorem for the whole alphabet                                                          *)
(* ------------------------------------------------------------------------------------------ *)
Definition declares_files_t (o : op_t) : bool :=
  match o with OpBase o => declares_files o | OpRegisterTree _ _ => true end.

(* the documented moves of an existing file row under operation o *)
Definition file_move_b (o : op_t) (old new : fstate) : bool :=
  if declares_files_t o then decl_trans_b old new else file_trans_b old new.

Lemma delete_detached_t_FT s : wpg false (delete_detached_t s) (FT s).
Proof.
  unfold delete_detached_t. apply wpg_bind. eapply wpg_weaken; [apply detach_fold_FT|].
  intros s1 F1. eapply wpg_weaken; [apply delete_detached_FT|]. intros s2 F2. eapply FT_trans; eassumption.
Qed.

Lemma step_op_t_FT o s : declares_files_t o = false -> wpg false (step_op_t o s) (FT s).
Proof.
  intros Hd. destruct o as [o|c p]; [|discriminate]. cbn [declares_files_t] in Hd.
  destruct o; try discriminate; cbn [step_op_t]; try (apply (step_op_FT _ s); reflexivity).
  apply delete_detached_t_FT.
Qed.

Lemma step_op_t_DT o s : declares_files_t o = true -> wpg false (step_op_t o s) (DT s).
Proof.
  intros Hd. destruct o as [o|c p]; [destruct o; try discriminate|]; cbn [step_op_t].
  - apply declare_static_files_t_DT.
  - apply define_step_t_DT.
  - apply amend_step_t_DT.
  - apply register_static_tree_DT.
Qed.

Theorem file_transitions_documented_all o s l r r' :
  find_file l s = Some r -> find_file l (apply_op_t s o) = Some r' ->
  file_move_b o (fstt r) (fstt r') = true.
Proof.
  intros H0 H'. unfold file_move_b, apply_op_t in *. destruct (declares_files_t o) eqn:Hd.
  - pose proof (step_op_t_DT o s Hd) as Hw. destruct (step_op_t o s) as [s'|t|t].
    + cbn in Hw. destruct (Hw l r H0) as [r2 [H2 T]]. rewrite H' in H2. inversion H2; subst r2. exact T.
    + rewrite H0 in H'. inversion H'. apply decl_trans_b_refl.
    + rewrite H0 in H'. inversion H'. apply decl_trans_b_refl.
  - pose proof (step_op_t_FT o s Hd) as Hw. destruct (step_op_t o s) as [s'|t|t].
    + cbn in Hw. apply (proj1 Hw l r r' H0 H').
    + rewrite H0 in H'. inversion H'. apply file_trans_b_refl.
    + rewrite H0 in H'. inversion H'. apply file_trans_b_refl.
Qed.

(* a declaring transaction deletes no file row; the others create none *)
Theorem file_rows_persist_or_not_created o s l :
  (declares_files_t o = true -> find_file l s <> None -> find_file l (apply_op_t s o) <> None) /\
  (declares_files_t o = false -> find_file l (apply_op_t s o) <> None -> find_file l s <> None).
Proof.
  unfold apply_op_t. split; intros Hd.
  - pose proof (step_op_t_DT o s Hd) as Hw. destruct (step_op_t o s) as [s'|t|t]; auto.
    cbn in Hw. intros H. destruct (find_file l s) as [r|] eqn:E; [|congruence].
    destruct (Hw l r E) as [r' [H' _]]. rewrite H'. discriminate.
  - pose proof (step_op_t_FT o s Hd) as Hw. destruct (step_op_t o s) as [s'|t|t]; auto.
    cbn in Hw. apply (proj2 Hw).
Qed.

(* closure form, as in GraphTrans.v: the union of the documented single steps *)
Theorem file_transitions_documented_all_closure o s l r r' :
  find_file l s = Some r -> find_file l (apply_op_t s o) = Some r' ->
  if declares_files_t o then clos_refl_trans fstate decl_step (fstt r) (fstt r')
  else clos_refl_trans fstate file_step (fstt r) (fstt r').
Proof.
  intros H0 H'. pose proof (file_transitions_documented_all o s l r r' H0 H') as H. unfold file_move_b in H.
  destruct (declares_files_t o); [apply decl_trans_b_closure | apply file_trans_b_closure]; exact H.
Qed.
