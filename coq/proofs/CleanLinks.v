(* proofs/CleanLinks.v -- symbolic links in the cleanup (C06 / C07).
   Unfolds bodies of model/Clean.v only. *)
From Coq Require Import List NArith Bool Lia.
From SV Require Import lib.Bytes.
From SV Require Import gen.GenClean.
From SV Require Import model.TrellisDD.
From SV Require Import model.Clean.
From SV Require Import proofs.TrellisDDProofs.
From SV Require Import proofs.CleanProofs.
From SV Require Import proofs.CleanOptional.
Import ListNotations.
Open Scope N_scope.

(* ---- C06: a removed regular file that is not volatile holds exactly the recorded hash; a removed symbolic link
   that is not volatile leads to a regular file with exactly the recorded hash, and only the link goes --------- *)

Lemma lkind_regular f p : lkind f p = KRegular -> exists h, fs_get f p = Some (FFile h).
Proof. unfold lkind. destruct (fs_get f p) as [[h| |t]|]; intros H; try discriminate H. exists h. reflexivity. Qed.

Lemma lkind_symlink f p : lkind f p = KSymlink -> exists t, fs_get f p = Some (FLink t).
Proof. unfold lkind. destruct (fs_get f p) as [[h| |t]|]; intros H; try discriminate H. exists t. reflexivity. Qed.

(* a chain of links that ends in a regular file never ends in the link's own entry: what stat reads is the entry
   of another path *)
Lemma stat_fuel_reads_regular k : forall f p h, stat_fuel k f p = SFile h ->
  exists q, fs_get f q = Some (FFile h).
Proof.
  induction k as [|k IH]; intros f p h H; cbn [stat_fuel] in H;
    destruct (fs_get f p) as [[h'| |t]|] eqn:Hg; try discriminate H.
  - exists p. congruence.
  - exists p. congruence.
  - apply (IH f t h H).
Qed.

Theorem removed_file_kinds c g f ever :
  ever_inv g ever ->
  forall p, In p (s_files (finalize c (init_state g f))) ->
    exists n, In n (gnodes g) /\ nkind n = KFILE /\ nlabel n = p /\
      ((exists h, fs_get f p = Some (FFile h) /\
                  (memN (nfstate n) volatile_states = true \/ nfhash n = Some h)) \/
       (exists t, fs_get f p = Some (FLink t) /\
                  (memN (nfstate n) volatile_states = true \/
                   exists h q, stat f p = SFile h /\ nfhash n = Some h /\ fs_get f q = Some (FFile h)))).
Proof.
  intros Hev p Hp. destruct (removed_only_owned_finalize c g f ever Hev p Hp)
    as [n [Hn [Hk [Hl [_ [_ [_ [Hkind Hwhy]]]]]]]].
  exists n. split; [exact Hn | split; [exact Hk | split; [exact Hl|]]].
  destruct Hkind as [Hr|Hs].
  - left. destruct (lkind_regular f p Hr) as [h Hg]. exists h. split; [exact Hg|].
    destruct Hwhy as [H|[[h0 [Hs Hh]]|H]]; [left; exact H | | discriminate H].
    right. rewrite (stat_of_regular f p h h0 Hg Hs) in Hh. exact Hh.
  - right. destruct (lkind_symlink f p Hs) as [t Hg]. exists t. split; [exact Hg|].
    destruct Hwhy as [H|[[h0 [Hst Hh]]|H]]; [left; exact H | | discriminate H].
    right. unfold stat in Hst. destruct (stat_fuel_reads_regular _ f p h0 Hst) as [q Hq].
    exists h0, q. split; [exact Hst | split; [exact Hh | exact Hq]].
Qed.

(* ---- C07: an unmodified queued path is removed -- iff the decisions are taken before the first removal -------- *)

Lemma rdf_files_gen_removes_decided q f0 p ps : forall f log,
  rdf_decide q f0 p = true -> In p ps -> is_unlinkable (fs_get f p) = true ->
  fs_get (fst (rdf_files_gen q (Some f0) ps f log)) p = None.
Proof.
  induction ps as [|x ps IH]; intros f log Hdec Hin Hu; [destruct Hin|].
  cbn [rdf_files_gen]. destruct (rdf_file q f0 f x) as [f1 b] eqn:E.
  destruct (str_eqb x p) eqn:Exp.
  - apply str_eqb_eq in Exp. subst x. apply rdf_files_gen_none_stays.
    unfold rdf_file in E. rewrite Hdec in E. unfold rm_file in E. rewrite Hu in E. inversion E.
    apply fs_get_del_same.
  - apply str_eqb_neq in Exp. destruct Hin as [Hin|Hin]; [contradiction|].
    apply IH; [exact Hdec | exact Hin|].
    pose proof (rdf_file_shape q f0 f x) as Hs. rewrite E in Hs. cbn [fst] in Hs.
    destruct Hs as [->| ->]; [exact Hu | rewrite fs_get_del_other by congruence; exact Hu].
Qed.

(* the statement: whatever is queued, can be unlinked, and (unless volatile) reads as exactly the recorded hash
   when the cleanup starts, is gone when remove_deletable_files ends *)
Definition unmodified_queued_removed : Prop :=
  forall q f p v, qfile_get q p = Some v ->
    (v = None \/ exists h, v = Some h /\ stat f p = SFile h) ->
    is_unlinkable (fs_get f p) = true ->
    fs_get (r_fs (remove_deletable_files q f)) p = None.

Theorem unmodified_queued_removed_two_pass : rdf_decide_first = true -> unmodified_queued_removed.
Proof.
  intros Hflag q f p v Hq Hv Hu. unfold remove_deletable_files.
  destruct (rdf_files q _ f []) as [f1 flog] eqn:H1.
  destruct (prune_dirs (qdirs q) f1) as [f2 dlog] eqn:H2. cbn [r_fs].
  assert (fs_get f1 p = None) as Hnone.
  { unfold rdf_files, rdf_mode in H1. rewrite Hflag in H1.
    pose proof (rdf_files_gen_removes_decided q f p (sort_desc (dedup (map fst (qfiles q)))) f []) as Hr.
    rewrite H1 in Hr. cbn [fst] in Hr. apply Hr; [| |exact Hu].
    - unfold rdf_decide. rewrite Hq. destruct Hv as [->|[h [-> Hs]]]; [reflexivity|].
      destruct (rdf_hash_checked (lkind f p)); [|reflexivity].
      unfold refreshed. rewrite Hs. apply N.eqb_refl.
    - apply in_sort_desc, in_dedup. apply (qfile_get_in q p v Hq). }
  rewrite prune_dirs_eq in H2.
  pose proof (prune_loop_inv f1 _ _ f1 [] [] f2 dlog (trace_inv_init f1) H2) as Hinv.
  destruct (fs_get f2 p) as [e|] eqn:E; [|reflexivity].
  apply (ti_sub _ _ _ _ Hinv) in E. congruence.
Qed.

(* finding (C07, symlink-output-left-dangling): with one loop the statement is false.  Witness: a step made
   "z" (regular, hash 1) and "a" as a symbolic link to "z" (recorded hash: what the link led to, 1).  Both are
   queued; "z" sorts last, is handled first and removed; by then "a" is dangling, hashes as unknown, is skipped,
   and stays behind for good (its node is gone already). *)
Definition dl_a : str := [97].
Definition dl_z : str := [122].
Definition dl_q : queue := mkQ [(dl_a, Some 1); (dl_z, Some 1)] [].
Definition dl_fs : fsys := [(dl_a, FLink dl_z); (dl_z, FFile 1)].

Theorem unmodified_queued_removed_refuted : rdf_decide_first = false -> ~ unmodified_queued_removed.
Proof.
  intros Hflag H.
  specialize (H dl_q dl_fs dl_a (Some 1) eq_refl (or_intror (ex_intro _ 1 (conj eq_refl eq_refl))) eq_refl).
  unfold remove_deletable_files, rdf_files, rdf_mode in H. rewrite Hflag in H.
  vm_compute in H. discriminate H.
Qed.

(* regular files are not affected: whatever the loop shape, a queued regular file with the recorded hash goes
   (CleanProofs.rdf_removes); the defect needs an output that is a link to another queued output that sorts after it *)

(* ---- C07 at the level of Builder.finalize, for outputs of any kind, when the decisions come first ------------- *)

Theorem orphans_removed_any_kind c g f n v :
  rdf_decide_first = true ->
  existsb (guard_fires c) finalize_guards = false ->          (* successful, unrestricted, cleaning enabled *)
  keys_nodup g -> deps_closed g ->
  In n (gnodes g) -> nkind n = KFILE -> ndet n = true ->
  is_revert_target g n = false ->                                (* not an output of an attached optional step *)
  bd_value n = Some v ->                                         (* VOLATILE (None), or BUILT/OUTDATED with its hash *)
  (v = None \/ exists h, v = Some h /\ stat f (nlabel n) = SFile h) ->   (* reads as exactly the recorded hash *)
  is_unlinkable (fs_get f (nlabel n)) = true ->                  (* a regular file or a symbolic link *)
  (~ exists S, self_supporting g S /\ In (nkey n) S) ->          (* nothing attached and no cycle holds it *)
  let r := finalize c (init_state g f) in
  ~ In (nkey n) (map nkey (gnodes (s_g r))) /\ fs_get (s_fs r) (nlabel n) = None.
Proof.
  intros Hflag Hguard Hnd Hclosed Hn Hkind Hdet Hnot_rev Hv Hvv Hdisk Hfree. cbv zeta.
  rewrite (finalize_unguarded c g f Hguard).
  destruct (revert_optional g empty_queue) as [g1 q1] eqn:Hrev. cbv zeta. cbn [s_g s_fs].
  assert (g1 = fst (revert_optional g empty_queue)) as Hg1 by (rewrite Hrev; reflexivity).
  assert (prestep g1 = cleanup_graph g) as Hcg by (unfold cleanup_graph; rewrite Hg1; reflexivity).
  set (n2 := prestep_node g1 (revert_node g n)).
  assert (revert_node g n = n) as Hrn.
  { unfold revert_node. assert (is_optional_step n = false) as ->.
    { unfold is_optional_step. unfold nkind in Hkind. unfold nkind. rewrite Hkind. reflexivity. }
    rewrite Hnot_rev. reflexivity. }
  assert (nkey n2 = nkey n) as Hk2 by (unfold n2; rewrite prestep_node_key, Hrn; reflexivity).
  assert (In n2 (gnodes (prestep g1))) as Hn2.
  { rewrite Hcg, cleanup_graph_nodes. apply in_map_iff. exists n. rewrite <- Hg1. split; [reflexivity | exact Hn]. }
  assert (keys_nodup (prestep g1)) as Hnd2 by (unfold keys_nodup; rewrite Hcg, cleanup_graph_keys; exact Hnd).
  assert (deps_closed (prestep g1)) as Hcl2 by (rewrite Hcg; apply cleanup_graph_closed; exact Hclosed).
  assert (~ In (nkey n) (map nkey (gnodes (dd_g (workflow_dd g1))))) as Hgone.
  { unfold workflow_dd. intros Hin. apply (dd_survivors (prestep g1) Hnd2 Hcl2) in Hin.
    destruct Hin as [S [Hss HS]]. apply Hfree. exists S. split; [|exact HS].
    apply cleanup_graph_ss. rewrite <- Hcg. exact Hss. }
  split; [exact Hgone|].
  assert (In n2 (dd_deleted (workflow_dd g1))) as Hdel.
  { unfold workflow_dd. rewrite trellis_dd_deleted. apply -> in_rev.
    destruct (dd_loop_partition (dd_fuel (prestep g1)) (prestep g1) [] n2 Hnd2 Hn2) as [Hkeep|Hacc]; [|exact Hacc].
    exfalso. apply Hgone. unfold workflow_dd. rewrite trellis_dd_keys, <- Hk2. apply in_map. exact Hkeep. }
  assert (nkind n2 = KFILE) as Hkind2 by (unfold nkind; rewrite Hk2; exact Hkind).
  assert (nlabel n2 = nlabel n) as Hlab2 by (unfold nlabel; rewrite Hk2; reflexivity).
  assert (bd_value n2 = Some v) as Hv2.
  { unfold bd_value, n2. rewrite prestep_node_fstate, prestep_node_fhash, Hrn. exact Hv. }
  rewrite <- Hlab2.
  apply (unmodified_queued_removed_two_pass Hflag _ f (nlabel n2) v);
    [| rewrite Hlab2; exact Hvv | rewrite Hlab2; exact Hdisk].
  apply queue_deleted_sets; [exact Hdel | exact Hkind2 | | exact Hv2].
  intros x Hx Hxk Hxl.
  apply (nodup_map_inj nkey (gnodes (prestep g1))); [exact Hnd2 | | exact Hn2 |].
  - unfold workflow_dd in Hx. rewrite trellis_dd_deleted in Hx. apply in_rev in Hx.
    unfold dd_raw in Hx. apply dd_loop_acc_sub in Hx. destruct Hx as [[]|Hx]. exact Hx.
  - unfold nkind in Hxk, Hkind2. unfold nlabel in Hxl.
    destruct (nkey x) as [kx lx], (nkey n2) as [k2 l2]. cbn [fst snd] in *. congruence.
Qed.

(* ---- C06: what a removed link pointed to is not touched ------------------------------------------------------- *)

(* Any path q (in particular the target of a removed symbolic link) either still holds exactly what it held, or was
   itself reported removed -- and then it is covered by removed_only_owned_finalize / the directory rule on its own
   account. *)
Theorem untouched_unless_reported c g f q e :
  fs_get f q = Some e ->
  let r := finalize c (init_state g f) in
  fs_get (s_fs r) q = Some e \/ In q (s_files r) \/ In q (s_dirs r).
Proof.
  intros Hq. cbv zeta.
  destruct (dir_removed_only_if_empty_finalize c g f) as [_ [Hvan Hsub]].
  destruct (fs_get (s_fs (finalize c (init_state g f))) q) as [e'|] eqn:E.
  - left. rewrite (Hsub q e' E) in Hq. congruence.
  - right. apply Hvan; [congruence | exact E].
Qed.

(* ---- C07: outputs of unneeded optional steps, any kind, when the decisions come first -------------------------- *)

Theorem optional_outputs_removed_any_kind c g f n v :
  rdf_decide_first = true ->
  existsb (guard_fires c) finalize_guards = false ->          (* successful, unrestricted, cleaning enabled *)
  keys_nodup g ->
  In n (gnodes g) -> is_revert_target g n = true ->              (* a VOLATILE/BUILT/OUTDATED output of an attached step with _implied_need = OPTIONAL *)
  rq_value n = Some v ->
  (v = None \/ exists h, v = Some h /\ stat f (nlabel n) = SFile h) ->   (* VOLATILE, or reads as exactly the recorded hash *)
  is_unlinkable (fs_get f (nlabel n)) = true ->                  (* a regular file or a symbolic link *)
  fs_get (s_fs (finalize c (init_state g f))) (nlabel n) = None.
Proof.
  intros Hflag Hguard Hnd Hn Ht Hv Hvv Hdisk.
  rewrite (finalize_unguarded c g f Hguard).
  destruct (revert_optional g empty_queue) as [g1 q1] eqn:Hrev. cbv zeta. cbn [s_g s_fs].
  assert (g1 = fst (revert_optional g empty_queue)) as Hg1 by (rewrite Hrev; reflexivity).
  assert (q1 = snd (revert_optional g empty_queue)) as Hq1 by (rewrite Hrev; reflexivity).
  pose proof (revert_target_kind g n Ht) as Hkind.
  apply (unmodified_queued_removed_two_pass Hflag _ f (nlabel n) v); [|exact Hvv | exact Hdisk].
  apply queue_deleted_keeps_weak.
  + intros x Hx Hxk Hxl.
    unfold workflow_dd in Hx. rewrite trellis_dd_deleted in Hx. apply in_rev in Hx.
    unfold dd_raw in Hx. apply dd_loop_acc_sub in Hx. destruct Hx as [[]|Hx].
    unfold prestep in Hx. cbn [gnodes] in Hx. apply in_map_iff in Hx. destruct Hx as [x1 [<- Hx1]].
    rewrite Hg1 in Hx1. unfold revert_optional in Hx1. cbn [fst gnodes] in Hx1.
    apply in_map_iff in Hx1. destruct Hx1 as [m [<- Hm]].
    assert (m = n) as ->.
    { apply (nodup_map_inj nkey (gnodes g)); [exact Hnd | exact Hm | exact Hn|].
      rewrite <- (revert_node_key g m), <- (prestep_node_key g1 (revert_node g m)).
      apply same_file_label_same_key; assumption. }
    apply bd_value_reverted; assumption.
  + rewrite Hq1. unfold revert_optional. cbn [snd]. apply revert_fold_sets; [| | exact Hv].
    * apply filter_In. split; assumption.
    * intros x Hx Hxl. apply filter_In in Hx. destruct Hx as [Hx Hxt].
      apply (nodup_map_inj nkey (gnodes g)); [exact Hnd | exact Hx | exact Hn|].
      apply same_file_label_same_key; [apply (revert_target_kind g x Hxt) | exact Hkind | exact Hxl].
Qed.
