(* C13: proofs about model/Hash.v.  The scripts are written so that they go through for the
   shapes of gen/GenHash.v that the current code and the two proposed repairs produce:
   digest_word = WBytes digest | if unknown then WNone else WBytes digest;
   kw_ovr      = WStr text | WBytes text. *)
From Coq Require Import List NArith Bool Arith Lia Permutation.
From SV Require Import lib.Bytes lib.KeySort model.HashTypes gen.GenHash model.Hash.
Import ListNotations.
Open Scope N_scope.

(* ---------- facts read off the generated file (reflexivity breaks when the code changes) ---------- *)
Lemma markers_are : marker_bytes = [0;0] /\ marker_str = [0;1] /\ marker_none = [0;2].
Proof. repeat split; reflexivity. Qed.

Lemma unknown_digest_is_u : unknown_digest = [117].
Proof. reflexivity. Qed.

Lemma digest_len_32 : digest_len = 32%nat.
Proof. reflexivity. Qed.

Lemma inp_words_shape c : inp_words c = inp_words_spec c.
Proof. reflexivity. Qed.

Lemma out_words_shape m : out_words m = entries_words (sort_keys m).
Proof. reflexivity. Qed.

Lemma refreshed_same_is_stat_same old st : refreshed_same old st = stat_same old st.
Proof. reflexivity. Qed.

Lemma refreshed_build_fields d st :
  refreshed_build d st = mk_fhash d (st_mode st) (st_mtime st) (st_size st) (st_ino st).
Proof. reflexivity. Qed.

Lemma enc_bytes b : enc_word (WBytes b) = 0 :: 0 :: b. Proof. reflexivity. Qed.
Lemma enc_str s : enc_word (WStr s) = 0 :: 1 :: s. Proof. reflexivity. Qed.
Lemma enc_none : enc_word WNone = [0; 2]. Proof. reflexivity. Qed.

(* the digest word: bytes, or (repaired code) the missing-word marker for an unknown digest *)
Lemma digest_word_spec fs :
  (digest_word fs = WBytes (fs_digest fs) /\ (unknown_as_none = true -> fs_is_unknown fs = false))
  \/ (fs_is_unknown fs = true /\ digest_word fs = WNone).
Proof.
  first
    [ left; split; [reflexivity | intros Hu; vm_compute in Hu; discriminate Hu]
    | unfold digest_word; destruct (fs_is_unknown fs) eqn:E;
      [ right; split; reflexivity | left; split; [reflexivity | intros _; reflexivity] ] ].
Qed.

(* static conditions on the section keywords, computed from the generated constants *)
Definition kw_nulfree (w : word) : bool := match w with WStr t => nul_free t | _ => true end.

Definition files_end_for (k : word) : bool :=
  match kw_env, k with
  | WStr _, WBytes t2 =>
      match skipn mode_width t2 with x :: y :: _ => negb ((x =? 0) && (y =? 0)) | _ => false end
  | _, _ => true
  end.

(* the keyword of an empty override section is not a proper extension of the other keyword *)
Definition ovr_static : bool :=
  match strip (enc_word kw_ovrN) (enc_word kw_ovrE) with Some [] => true | None => true | _ => false end.

Lemma kw_static :
  kw_nulfree kw_env = true /\ (forall b, kw_nulfree (kw_ovr_of b) = true)
  /\ (forall b, files_end_for (kw_ovr_of b) = true) /\ ovr_static = true.
Proof. repeat split; try (intros []; reflexivity); reflexivity. Qed.

(* ---------- small list lemmas ---------- *)
Definition bnd (r : str) : bool := match r with [] => true | x :: _ => x =? 0 end.

Lemma read_str_app s rest :
  nul_free s = true -> bnd rest = true -> read_str (s ++ rest) = (s, rest).
Proof.
  intros Hs Hr. induction s as [|x s IH]; cbn [app].
  - destruct rest as [|y rest]; [reflexivity|]. cbn in Hr. cbn [read_str]. rewrite Hr. reflexivity.
  - cbn [nul_free forallb] in Hs. apply andb_true_iff in Hs as [Hx Hs].
    apply negb_true_iff in Hx. cbn [read_str]. rewrite Hx, (IH Hs). reflexivity.
Qed.

Lemma strip_app p r : strip p (p ++ r) = Some r.
Proof. induction p as [|a p IH]; cbn [strip app]; [reflexivity|]. rewrite N.eqb_refl. exact IH. Qed.

Lemma take_app a r n : length a = n -> take n (a ++ r) = Some (a, r).
Proof.
  intros <-. unfold take. rewrite app_length.
  destruct (Nat.leb_spec (length a) (length a + length r)) as [_|H]; [|lia].
  rewrite firstn_app, Nat.sub_diag, firstn_all, skipn_app, Nat.sub_diag, skipn_all. cbn.
  rewrite app_nil_r. reflexivity.
Qed.

Lemma skipn_app_exact (a r : str) n : length a = n -> skipn n (a ++ r) = r.
Proof. intros <-. rewrite skipn_app, Nat.sub_diag, skipn_all. reflexivity. Qed.

Lemma skipn_app_long (l Y : str) n x y t : skipn n l = x :: y :: t -> skipn n (l ++ Y) = x :: y :: t ++ Y.
Proof.
  intros H. rewrite skipn_app, H.
  assert (Hlt : (n < length l)%nat).
  { destruct (Nat.lt_ge_cases n (length l)) as [L|L]; [exact L|].
    rewrite skipn_all2 in H by exact L. discriminate. }
  replace (n - length l)%nat with 0%nat by lia. reflexivity.
Qed.

Lemma forallb_perm {A} (p : A -> bool) l l' : Permutation l l' -> forallb p l = true -> forallb p l' = true.
Proof.
  intros P H. rewrite forallb_forall in *. intros x Hx. apply H.
  eapply Permutation_in; [apply Permutation_sym; exact P|exact Hx].
Qed.

Lemma hw_encode_app a b : hw_encode (a ++ b) = hw_encode a ++ hw_encode b.
Proof. apply flat_map_app. Qed.

Lemma hw_encode_cons w ws : hw_encode (w :: ws) = enc_word w ++ hw_encode ws.
Proof. reflexivity. Qed.

Lemma bnd_enc_word w Z : bnd (enc_word w ++ Z) = true.
Proof. destruct w; reflexivity. Qed.

Lemma bnd_hw_encode ws Z : bnd Z = true -> bnd (hw_encode ws ++ Z) = true.
Proof.
  intros HZ. destruct ws as [|w ws]; [exact HZ|].
  cbn [hw_encode flat_map]. rewrite <- app_assoc. apply bnd_enc_word.
Qed.

(* ---------- one file entry ---------- *)
Definition after_okb (md : dmode) (X : str) : bool :=
  match md with
  | Fixed => true
  | Lookahead => match X with [] => true | _ => is_prefix marker_str X end
  end.

Lemma dec_digest_ok md fs X :
  digest_wf (fs_digest fs) = true -> dig_ok md fs = true -> after_okb md X = true ->
  dec_digest md (enc_word (digest_word fs) ++ X) = Some (fs_digest fs, X).
Proof.
  intros Hwf Hok Haft.
  destruct (digest_word_spec fs) as [[Hw Hun]|[Hu Hw]]; rewrite Hw.
  - rewrite enc_bytes. cbn [app dec_digest].
    unfold digest_wf in Hwf. apply orb_true_iff in Hwf.
    assert (Hcases : length (fs_digest fs) = digest_len
                     \/ (fs_digest fs = unknown_digest /\ md = Lookahead)).
    { destruct Hwf as [Hl|He]; [left; apply Nat.eqb_eq; exact Hl|].
      destruct md; [|right; split; [apply str_eqb_eq; exact He|reflexivity]].
      exfalso. cbn [dig_ok] in Hok. apply orb_true_iff in Hok as [Hn|Hn].
      - specialize (Hun Hn). unfold fs_is_unknown in Hun. congruence.
      - apply negb_true_iff in Hn. unfold fs_is_unknown in Hn. congruence. }
    destruct Hcases as [Hl|[He ->]].
    + destruct md; [apply take_app; exact Hl|].
      assert (Hlu : looks_unknown (fs_digest fs ++ X) = false).
      { cbn [dig_ok] in Hok. apply negb_true_iff in Hok. unfold is_ambiguous in Hok.
        unfold looks_unknown. rewrite unknown_digest_is_u in *. rewrite digest_len_32 in Hl.
        destruct (fs_digest fs) as [|x [|a [|b d]]]; try discriminate Hl.
        cbn [app strip]. destruct (117 =? x) eqn:Ex; [|reflexivity].
        cbn [app is_prefix marker_str] in Hok. rewrite Ex in Hok. cbn [andb] in Hok.
        cbn [is_prefix marker_str]. destruct (0 =? a) eqn:Ea; [|reflexivity].
        destruct (1 =? b) eqn:Eb; [|reflexivity]. cbn in Hok.
        discriminate Hok. }
      rewrite Hlu. apply take_app. exact Hl.
    + rewrite He. cbn [after_okb] in Haft. unfold looks_unknown.
      rewrite strip_app. rewrite skipn_app_exact by reflexivity.
      destruct X as [|y X]; [reflexivity|]. rewrite Haft. reflexivity.
  - rewrite enc_none. cbn [app dec_digest]. unfold fs_is_unknown in Hu. apply str_eqb_eq in Hu.
    rewrite Hu. reflexivity.
Qed.

Definition enc_entry (e : str * fsig) (X : str) : str :=
  0 :: 1 :: (fst e ++ 0 :: 0 :: (be_bytes mode_width (fs_mode (snd e)) ++
     0 :: 0 :: (be_bytes size_width (fs_size (snd e)) ++ (enc_word (digest_word (snd e)) ++ X)))).

Lemma enc_entry_eq e X : hw_encode (file_words_spec (fst e) (snd e)) ++ X = enc_entry e X.
Proof.
  unfold enc_entry, file_words_spec, hw_encode. cbn [flat_map].
  rewrite enc_str, !enc_bytes, app_nil_r. cbn [app].
  repeat (rewrite <- app_assoc; cbn [app]). reflexivity.
Qed.

Lemma is_entry_start_entry e X : nul_free (fst e) = true -> is_entry_start (enc_entry e X) = true.
Proof.
  intros Hp. unfold enc_entry, is_entry_start.
  rewrite read_str_app by (exact Hp || reflexivity). cbn [snd].
  rewrite skipn_app_exact by apply be_bytes_length. reflexivity.
Qed.

Lemma dec_entry_ok md e X :
  wf_entry e = true -> dig_ok md (snd e) = true -> after_okb md X = true ->
  dec_entry md (enc_entry e X) = Some (e, X).
Proof.
  intros Hwf Hok Haft. unfold wf_entry in Hwf.
  apply andb_true_iff in Hwf as [Hwf Hd]. apply andb_true_iff in Hwf as [Hwf Hs].
  apply andb_true_iff in Hwf as [Hp Hm]. apply N.ltb_lt in Hm, Hs.
  unfold enc_entry, dec_entry.
  rewrite read_str_app by (exact Hp || reflexivity).
  rewrite take_app by apply be_bytes_length.
  rewrite take_app by apply be_bytes_length.
  rewrite dec_digest_ok by assumption.
  rewrite !be_val_bytes by assumption.
  destruct e as [p [d m s]]. reflexivity.
Qed.

(* ---------- the list of file entries ---------- *)
Lemma hw_encode_entries_cons e es :
  hw_encode (entries_words (e :: es))
  = hw_encode (file_words_spec (fst e) (snd e)) ++ hw_encode (entries_words es).
Proof. unfold entries_words. cbn [flat_map]. apply hw_encode_app. Qed.

Lemma entries_head_str e es rest :
  exists t, hw_encode (entries_words (e :: es)) ++ rest = 0 :: 1 :: t.
Proof.
  rewrite hw_encode_entries_cons, <- app_assoc, enc_entry_eq. unfold enc_entry. eexists. reflexivity.
Qed.

Lemma dec_entries_ok md es : forall fuel rest,
  (length es < fuel)%nat ->
  forallb wf_entry es = true -> digests_ok md es = true ->
  is_entry_start rest = false -> after_okb md rest = true ->
  dec_entries md fuel (hw_encode (entries_words es) ++ rest) = Some (es, rest).
Proof.
  induction es as [|e es IH]; intros fuel rest Hf Hwf Hok Hend Haft.
  - destruct fuel as [|f]; [cbn in Hf; lia|]. cbn [entries_words flat_map hw_encode app dec_entries].
    rewrite Hend. reflexivity.
  - destruct fuel as [|f]; [cbn in Hf; lia|]. cbn [length] in Hf.
    cbn [forallb] in Hwf. apply andb_true_iff in Hwf as [Hwe Hwf].
    unfold digests_ok in Hok. cbn [forallb] in Hok. apply andb_true_iff in Hok as [Hoe Hok].
    rewrite hw_encode_entries_cons, <- app_assoc, enc_entry_eq. cbn [dec_entries].
    assert (Hp : nul_free (fst e) = true).
    { unfold wf_entry in Hwe. repeat (apply andb_true_iff in Hwe as [Hwe _]). exact Hwe. }
    rewrite is_entry_start_entry by exact Hp.
    rewrite dec_entry_ok; [| exact Hwe | exact Hoe |].
    + rewrite IH; [reflexivity | lia | exact Hwf | exact Hok | exact Hend | exact Haft].
    + destruct md; [reflexivity|]. cbn [after_okb].
      destruct es as [|e' es']; [exact Haft|].
      destruct (entries_head_str e' es' rest) as [t ->]. reflexivity.
Qed.

Lemma entries_length es : (length es <= length (hw_encode (entries_words es)))%nat.
Proof.
  induction es as [|e es IH]; [cbn; lia|].
  rewrite hw_encode_entries_cons, app_length.
  assert (1 <= length (hw_encode (file_words_spec (fst e) (snd e))))%nat; [|cbn [length]; lia].
  unfold file_words_spec, hw_encode. cbn [flat_map]. rewrite enc_str. cbn [app length]. lia.
Qed.

(* ---------- environment variables and overrides ---------- *)
Lemma hw_encode_env_cons n v l :
  hw_encode (env_words ((n, v) :: l)) = 0 :: 1 :: n ++ enc_word (opt_word v) ++ hw_encode (env_words l).
Proof.
  unfold env_words. cbn [flat_map fst snd app]. rewrite !hw_encode_cons, enc_str. reflexivity.
Qed.

Lemma hw_encode_ovr_cons n v l :
  hw_encode (ovr_words ((n, v) :: l)) = 0 :: 1 :: n ++ 0 :: 1 :: v ++ hw_encode (ovr_words l).
Proof.
  unfold ovr_words. cbn [flat_map fst snd app]. rewrite !hw_encode_cons, !enc_str. reflexivity.
Qed.

Lemma bnd_ovrs l : bnd (hw_encode (ovr_words l)) = true.
Proof. destruct l as [|[n v] l]; [reflexivity|]. rewrite hw_encode_ovr_cons. reflexivity. Qed.

Lemma bnd_envs_then l w Z : bnd (hw_encode (env_words l) ++ enc_word w ++ Z) = true.
Proof. apply bnd_hw_encode, bnd_enc_word. Qed.

Lemma dec_ovrs_ok ovrs : forall fuel,
  (length ovrs < fuel)%nat -> forallb wf_ovr ovrs = true ->
  dec_ovrs fuel (hw_encode (ovr_words ovrs)) = Some ovrs.
Proof.
  induction ovrs as [|[n v] ovrs IH]; intros fuel Hf Hwf.
  - destruct fuel as [|f]; [cbn in Hf; lia|]. reflexivity.
  - destruct fuel as [|f]; [cbn in Hf; lia|]. cbn [length] in Hf.
    cbn [forallb] in Hwf. apply andb_true_iff in Hwf as [Hw1 Hwf].
    unfold wf_ovr in Hw1. cbn [fst snd] in Hw1. apply andb_true_iff in Hw1 as [Hn Hv].
    rewrite hw_encode_ovr_cons. cbn [dec_ovrs].
    rewrite read_str_app; [| exact Hn | reflexivity ].
    rewrite read_str_app; [| exact Hv | apply bnd_ovrs ].
    rewrite IH; [reflexivity | lia | exact Hwf].
Qed.

Lemma ovrs_length l : (length l <= length (hw_encode (ovr_words l)))%nat.
Proof.
  induction l as [|[n v] l IH]; [cbn; lia|]. rewrite hw_encode_ovr_cons. cbn [length].
  rewrite !app_length. cbn [length]. rewrite app_length. lia.
Qed.

Lemma dec_ovr_section_ok ovrs :
  forallb wf_ovr ovrs = true -> dec_ovr_section (hw_encode (ovr_words ovrs)) = Some ([], ovrs).
Proof.
  intros Hwf. unfold dec_ovr_section. rewrite dec_ovrs_ok; [reflexivity| |exact Hwf].
  pose proof (ovrs_length ovrs). lia.
Qed.

(* the end of the variables: the override keyword (which one depends on whether there are
   overrides) and the override section *)
Lemma dec_envs_end fuel ovrs :
  forallb wf_ovr ovrs = true ->
  dec_envs (S fuel) (enc_word (kw_ovr_of (nonempty ovrs)) ++ hw_encode (ovr_words ovrs)) = Some ([], ovrs).
Proof.
  intros Hwf. destruct kw_static as [_ [Hk [_ Hos]]].
  pose proof (dec_ovr_section_ok ovrs Hwf) as Hsec.
  destruct ovrs as [|o ovrs].
  - (* no overrides: the keyword kw_ovrE is the whole rest *)
    cbn [nonempty ovr_words flat_map hw_encode]. rewrite app_nil_r.
    change (kw_ovr_of false) with kw_ovrE. specialize (Hk false). change (kw_ovr_of false) with kw_ovrE in Hk.
    cbn [dec_envs]. unfold ovr_static in Hos.
    destruct kw_ovrE as [b|t|] eqn:EE; cbn [kw_nulfree] in Hk.
    + rewrite enc_bytes in *. destruct (strip (enc_word kw_ovrN) (0 :: 0 :: b)) as [[|x r']|];
        [reflexivity | discriminate Hos | rewrite str_eqb_refl; reflexivity].
    + rewrite enc_str in *. rewrite <- (app_nil_r t) at 1. rewrite read_str_app by (exact Hk || reflexivity).
      destruct (word_eqb (WStr t) kw_ovrN); [reflexivity|].
      cbn [word_eqb]. rewrite str_eqb_refl. reflexivity.
    + rewrite enc_none in *. destruct (strip (enc_word kw_ovrN) [0; 2]) as [[|x r']|];
        [reflexivity | discriminate Hos | reflexivity].
  - (* overrides: the keyword kw_ovrN, then the section *)
    cbn [nonempty]. change (kw_ovr_of true) with kw_ovrN.
    specialize (Hk true). change (kw_ovr_of true) with kw_ovrN in Hk.
    set (Y := hw_encode (ovr_words (o :: ovrs))) in *.
    assert (HY : bnd Y = true) by apply bnd_ovrs.
    pose proof (strip_app (enc_word kw_ovrN) Y) as Hs.
    cbn [dec_envs].
    destruct kw_ovrN as [b|t|] eqn:EN; cbn [kw_nulfree] in Hk.
    + rewrite enc_bytes in *. cbn [app] in *. rewrite Hs. exact Hsec.
    + rewrite enc_str. cbn [app]. rewrite read_str_app by assumption.
      cbn [word_eqb]. rewrite str_eqb_refl. exact Hsec.
    + rewrite enc_none in *. cbn [app] in *. rewrite Hs. exact Hsec.
Qed.

Lemma dec_envs_ok envs : forall fuel ovrs,
  (length envs < fuel)%nat -> forallb wf_env envs = true ->
  forallb (fun kv => negb (word_eqb (WStr (fst kv)) kw_ovrN)) envs = true ->
  forallb wf_ovr ovrs = true ->
  dec_envs fuel (hw_encode (env_words envs) ++ enc_word (kw_ovr_of (nonempty ovrs)) ++ hw_encode (ovr_words ovrs))
  = Some (envs, ovrs).
Proof.
  induction envs as [|[n v] envs IH]; intros fuel ovrs Hf Hwf Hnm Hwo.
  - destruct fuel as [|f]; [cbn in Hf; lia|]. cbn [env_words flat_map hw_encode app].
    apply dec_envs_end. exact Hwo.
  - destruct fuel as [|f]; [cbn in Hf; lia|]. cbn [length] in Hf.
    cbn [forallb] in Hwf, Hnm. apply andb_true_iff in Hwf as [Hw1 Hwf].
    apply andb_true_iff in Hnm as [Hn1 Hnm]. apply negb_true_iff in Hn1. cbn [fst] in Hn1.
    unfold wf_env in Hw1. cbn [fst snd] in Hw1. apply andb_true_iff in Hw1 as [Hn Hv].
    rewrite hw_encode_env_cons. cbn [app]. rewrite <- !app_assoc. cbn [dec_envs].
    rewrite read_str_app; [| exact Hn | apply bnd_enc_word ]. rewrite Hn1.
    destruct v as [v|]; cbn [opt_word].
    + rewrite enc_str. cbn [app is_nil]. rewrite andb_false_r.
      rewrite read_str_app; [| exact Hv | apply bnd_envs_then ].
      rewrite IH; [reflexivity | lia | exact Hwf | exact Hnm | exact Hwo].
    + rewrite enc_none. cbn [app is_nil]. rewrite andb_false_r.
      rewrite IH; [reflexivity | lia | exact Hwf | exact Hnm | exact Hwo].
Qed.

Lemma envs_length l : (length l <= length (hw_encode (env_words l)))%nat.
Proof.
  induction l as [|[n v] l IH]; [cbn; lia|]. rewrite hw_encode_env_cons. cbn [length].
  rewrite !app_length. lia.
Qed.


(* The file loop of from_inp ends where the environment section starts. *)
Lemma files_end_inp envs b Y :
  bnd Y = true ->
  is_entry_start (enc_word kw_env ++ hw_encode (env_words envs) ++ enc_word (kw_ovr_of b) ++ Y) = false.
Proof.
  intros HY. destruct kw_static as [Hke [_ [Hst _]]]. specialize (Hst b). unfold files_end_for in Hst.
  destruct kw_env as [bb|t|] eqn:Ee; cbn [kw_nulfree] in Hke; [reflexivity| |reflexivity].
  rewrite enc_str. cbn [app]. unfold is_entry_start.
  rewrite read_str_app; [| exact Hke | apply bnd_envs_then ]. cbn [snd].
  destruct envs as [|[n v] envs].
  - cbn [env_words flat_map hw_encode app].
    destruct (kw_ovr_of b) as [t2|t2|] eqn:Eo; [| reflexivity | reflexivity].
    rewrite enc_bytes. cbn [app].
    destruct (skipn mode_width t2) as [|x [|y t3]] eqn:Es; try discriminate Hst.
    rewrite (skipn_app_long _ _ _ _ _ _ Es).
    destruct (x =? 0) eqn:Ex; [|apply N.eqb_neq in Ex; destruct x; [congruence|reflexivity]].
    destruct (y =? 0) eqn:Ey; [discriminate Hst|].
    apply N.eqb_eq in Ex. subst x. apply N.eqb_neq in Ey. destruct y; [congruence|reflexivity].
  - rewrite hw_encode_env_cons. reflexivity.
Qed.

Lemma nonempty_sort {V} (l : list (str * V)) : nonempty (sort_keys l) = nonempty l.
Proof.
  pose proof (Permutation_length (sort_perm l)) as H.
  destruct l; destruct (sort_keys _); cbn in *; try reflexivity; discriminate H.
Qed.

(* ---------- the decoders invert the encoders ---------- *)
Theorem decode_out_ok md m :
  wf_files m = true -> digests_ok md m = true ->
  decode_out md (out_preimage m) = Some (sort_keys m).
Proof.
  intros Hwf Hok. unfold wf_files in Hwf. apply andb_true_iff in Hwf as [_ Hwf].
  unfold decode_out, out_preimage. rewrite out_words_shape.
  set (es := sort_keys m).
  assert (P : Permutation m es) by (apply Permutation_sym, sort_perm).
  pose proof (dec_entries_ok md es (S (length (hw_encode (entries_words es)))) []) as E.
  rewrite app_nil_r in E. rewrite E; [reflexivity| | | | reflexivity |destruct md; reflexivity].
  - pose proof (entries_length es). lia.
  - eapply forallb_perm; [exact P|exact Hwf].
  - unfold digests_ok in *. eapply forallb_perm; [exact P|exact Hok].
Qed.

Lemma inp_preimage_eq c :
  inp_preimage c =
  0 :: 1 :: cfg_label c ++ enc_word kw_shell ++ 0 :: 0 :: N.b2n (cfg_shell c) :: enc_word kw_inp ++
  hw_encode (entries_words (sort_keys (cfg_inps c))) ++ enc_word kw_env ++
  hw_encode (env_words (sort_keys (cfg_envs c))) ++ enc_word (kw_ovr_of (nonempty (cfg_ovrs c))) ++
  hw_encode (ovr_words (sort_keys (cfg_ovrs c))).
Proof.
  unfold inp_preimage. rewrite inp_words_shape. unfold inp_words_spec.
  rewrite !hw_encode_app, !hw_encode_cons. cbn [hw_encode flat_map].
  rewrite enc_str, enc_bytes, !app_nil_r. cbn [app].
  repeat (rewrite <- app_assoc; cbn [app]). reflexivity.
Qed.

Theorem decode_inp_ok md c :
  wf c = true -> inp_ok md c = true -> decode_inp md (inp_preimage c) = Some (canon c).
Proof.
  intros Hwf Hok. unfold wf in Hwf.
  apply andb_true_iff in Hwf as [Hwf Ho]. apply andb_true_iff in Hwf as [Hwf He].
  apply andb_true_iff in Hwf as [Hl Hi].
  apply andb_true_iff in Ho as [_ Ho]. apply andb_true_iff in He as [_ He].
  unfold wf_files in Hi. apply andb_true_iff in Hi as [_ Hi].
  unfold inp_ok in Hok. apply andb_true_iff in Hok as [Hok Hnm]. apply andb_true_iff in Hok as [Hd Hmd].
  rewrite inp_preimage_eq.
  set (es := sort_keys (cfg_inps c)). set (envs := sort_keys (cfg_envs c)).
  set (ovrs := sort_keys (cfg_ovrs c)).
  assert (Pi : Permutation (cfg_inps c) es) by (apply Permutation_sym, sort_perm).
  assert (Pe : Permutation (cfg_envs c) envs) by (apply Permutation_sym, sort_perm).
  assert (Po : Permutation (cfg_ovrs c) ovrs) by (apply Permutation_sym, sort_perm).
  unfold decode_inp.
  match goal with |- context [S (length ?r)] => set (fuel := S (length r)) end.
  assert (Hfuel : (length es < fuel /\ length envs < fuel /\ length ovrs < fuel)%nat).
  { unfold fuel. cbn [length]. rewrite !app_length. cbn [length]. rewrite !app_length.
    pose proof (entries_length es). pose proof (envs_length envs). pose proof (ovrs_length ovrs). lia. }
  destruct Hfuel as [Hf1 [Hf2 Hf3]]. clearbody fuel.
  rewrite read_str_app; [| exact Hl | apply bnd_enc_word].
  rewrite strip_app.
  assert (Hsh : forall Z, dec_shell (0 :: 0 :: N.b2n (cfg_shell c) :: Z) = Some (cfg_shell c, Z))
    by (intros Z; destruct (cfg_shell c); reflexivity).
  rewrite Hsh. rewrite strip_app.
  rewrite dec_entries_ok; [| exact Hf1 | eapply forallb_perm; [exact Pi|exact Hi]
                           | unfold digests_ok in *; eapply forallb_perm; [exact Pi|exact Hd]
                           | apply files_end_inp, bnd_ovrs | ].
  - rewrite strip_app. rewrite <- (nonempty_sort (cfg_ovrs c)). fold ovrs.
    rewrite dec_envs_ok; [reflexivity | exact Hf2 | eapply forallb_perm; [exact Pe|exact He]
                          | unfold env_names_ok in Hnm; eapply forallb_perm; [exact Pe|exact Hnm]
                          | eapply forallb_perm; [exact Po|exact Ho] ].
  - destruct md; [reflexivity|]. unfold kw_env_is_str in Hmd.
    destruct kw_env as [b|t|]; try discriminate Hmd. rewrite enc_str. reflexivity.
Qed.

(* ---------- injectivity of the pre-images ---------- *)
Theorem out_preimage_injective md m1 m2 :
  wf_files m1 = true -> wf_files m2 = true ->
  digests_ok md m1 = true -> digests_ok md m2 = true ->
  out_preimage m1 = out_preimage m2 -> Permutation m1 m2.
Proof.
  intros W1 W2 D1 D2 E.
  pose proof (decode_out_ok md m1 W1 D1) as E1. pose proof (decode_out_ok md m2 W2 D2) as E2.
  rewrite E in E1. rewrite E1 in E2. injection E2 as E2. apply sort_eq_perm. exact E2.
Qed.

Theorem inp_preimage_injective md c1 c2 :
  wf c1 = true -> wf c2 = true -> inp_ok md c1 = true -> inp_ok md c2 = true ->
  inp_preimage c1 = inp_preimage c2 -> cfg_equiv c1 c2.
Proof.
  intros W1 W2 D1 D2 E.
  pose proof (decode_inp_ok md c1 W1 D1) as E1. pose proof (decode_inp_ok md c2 W2 D2) as E2.
  rewrite E in E1. rewrite E1 in E2. unfold canon in E2. injection E2 as El Es Ei Ee Eo.
  unfold cfg_equiv. repeat split; try assumption; apply sort_eq_perm; assumption.
Qed.

(* ---------- order independence ---------- *)
Theorem out_order_independent m1 m2 :
  nodup_keys m1 = true -> Permutation m1 m2 -> out_preimage m1 = out_preimage m2.
Proof.
  intros Hn P. unfold out_preimage. rewrite !out_words_shape.
  rewrite (sort_perm_eq m1 m2); [reflexivity | apply nodupb_NoDup; exact Hn | exact P].
Qed.

Theorem inp_order_independent c1 c2 :
  nodup_keys (cfg_inps c1) = true -> nodup_keys (cfg_envs c1) = true ->
  nodup_keys (cfg_ovrs c1) = true ->
  cfg_equiv c1 c2 -> inp_preimage c1 = inp_preimage c2.
Proof.
  intros N1 N2 N3 [El [Es [Pi [Pe Po]]]]. rewrite !inp_preimage_eq, El, Es.
  assert (En : nonempty (cfg_ovrs c1) = nonempty (cfg_ovrs c2)).
  { pose proof (Permutation_length Po) as L.
    destruct (cfg_ovrs c1), (cfg_ovrs c2); cbn in *; try reflexivity; discriminate L. }
  rewrite En.
  rewrite (sort_perm_eq _ _ (nodupb_NoDup _ N1) Pi), (sort_perm_eq _ _ (nodupb_NoDup _ N2) Pe),
          (sort_perm_eq _ _ (nodupb_NoDup _ N3) Po). reflexivity.
Qed.

(* ---------- the extra hypotheses vanish on repaired code ---------- *)
Lemma digests_ok_fixed_when_repaired m : unknown_as_none = true -> digests_ok Fixed m = true.
Proof.
  intros H. unfold digests_ok. apply forallb_forall. intros e _. cbn [dig_ok]. rewrite H. reflexivity.
Qed.

Lemma env_names_ok_when_repaired c : kw_ovr_is_str = false -> env_names_ok c = true.
Proof.
  intros H. unfold env_names_ok. apply forallb_forall. intros kv _. unfold kw_ovr_is_str in H.
  destruct kw_ovrN; [reflexivity | discriminate H | reflexivity].
Qed.

Theorem out_preimage_injective_when_repaired :
  unknown_as_none = true ->
  forall m1 m2, wf_files m1 = true -> wf_files m2 = true ->
    out_preimage m1 = out_preimage m2 -> Permutation m1 m2.
Proof.
  intros H m1 m2 W1 W2. apply (out_preimage_injective Fixed); try assumption;
    apply digests_ok_fixed_when_repaired; exact H.
Qed.

Theorem inp_preimage_injective_when_repaired :
  unknown_as_none = true -> kw_ovr_is_str = false ->
  forall c1 c2, wf c1 = true -> wf c2 = true ->
    inp_preimage c1 = inp_preimage c2 -> cfg_equiv c1 c2.
Proof.
  intros H1 H2 c1 c2 W1 W2. apply (inp_preimage_injective Fixed); try assumption;
    unfold inp_ok; rewrite digests_ok_fixed_when_repaired, env_names_ok_when_repaired by assumption;
    reflexivity.
Qed.

(* ---------- refutations on the current encoding (conditional on the generated shape, so the
   statements stay true, vacuously, once the code is repaired) ---------- *)

(* D2 (probe d2_out_digest_collision.py): b"u" is a one-byte bytes word among 32-byte ones. *)
Definition d2_A : list (str * fsig) :=
  [ ([97], mk_fsig [117] 0 0);
    ([98], mk_fsig [88;88;88;88;88;88;0;1;99;0;0;0;0;0;0;0;0;0;7;0;0;0;0;0;0;0;0;0;9;0;0;117] 33188 5) ].
Definition d2_B : list (str * fsig) :=
  [ ([97], mk_fsig [117;0;1;98;0;0;0;0;0;0;0;0;129;164;0;0;0;0;0;0;0;0;0;5;0;0;88;88;88;88;88;88] 0 0);
    ([99], mk_fsig [117] 7 9) ].

Lemma d2_not_perm : ~ Permutation d2_A d2_B.
Proof.
  intros P. apply (Permutation_in ([97], mk_fsig [117] 0 0)) in P; [|left; reflexivity].
  cbn in P. destruct P as [P|[P|[]]]; discriminate P.
Qed.

Theorem out_preimage_injective_refuted :
  unknown_as_none = false ->
  exists m1 m2, wf_files m1 = true /\ wf_files m2 = true /\ ~ Permutation m1 m2
                /\ out_preimage m1 = out_preimage m2.
Proof.
  intros Hshape.
  first [ solve [vm_compute in Hshape; discriminate Hshape]
        | exists d2_A, d2_B; split; [vm_compute; reflexivity|]; split; [vm_compute; reflexivity|];
          split; [exact d2_not_perm | vm_compute; reflexivity] ].
Qed.

Definition d2_cA : cfg := mk_cfg [99;109;100] false d2_A [] [].
Definition d2_cB : cfg := mk_cfg [99;109;100] false d2_B [] [].

Theorem inp_preimage_injective_refuted_unknown :
  unknown_as_none = false ->
  exists c1 c2, wf c1 = true /\ wf c2 = true /\ env_names_ok c1 = true /\ env_names_ok c2 = true
                /\ ~ cfg_equiv c1 c2 /\ inp_preimage c1 = inp_preimage c2.
Proof.
  intros Hshape.
  first [ solve [vm_compute in Hshape; discriminate Hshape]
        | exists d2_cA, d2_cB; repeat (split; [vm_compute; reflexivity|]);
          split; [intros [_ [_ [P _]]]; exact (d2_not_perm P) | vm_compute; reflexivity] ].
Qed.

(* D2b (probe d2b_env_override_boundary.py): the word that opens the override section is a str
   word, like the names and values around it. *)
Definition d2b_K : str := [95;95;101;110;118;95;111;118;101;114;114;105;100;101;115;95;95].
Definition d2b_c1 : cfg := mk_cfg [99;109;100] false [] [([65], Some [98])] [([99], d2b_K)].
Definition d2b_c2 : cfg := mk_cfg [99;109;100] false [] [([65], Some [98]); (d2b_K, Some [99])] [].

Theorem inp_preimage_injective_refuted_keyword :
  (forall b, kw_ovr_of b = WStr d2b_K) ->
  exists c1 c2, wf c1 = true /\ wf c2 = true
                /\ digests_ok Fixed (cfg_inps c1) = true /\ digests_ok Fixed (cfg_inps c2) = true
                /\ ~ cfg_equiv c1 c2 /\ inp_preimage c1 = inp_preimage c2.
Proof.
  intros Hshape. pose proof (Hshape true) as Hshape1.
  first [ solve [vm_compute in Hshape1; discriminate Hshape1]
        | exists d2b_c1, d2b_c2; repeat (split; [vm_compute; reflexivity|]);
          split; [intros [_ [_ [_ [P _]]]]; apply Permutation_length in P; discriminate P
                 | vm_compute; reflexivity] ].
Qed.

(* ---------- FileHash.refreshed ---------- *)
Lemma stat_same_false old st :
  stat_same old st = false <->
  (fh_mode old <> st_mode st \/ fh_mtime old <> st_mtime st \/ fh_size old <> st_size st
   \/ fh_inode old <> st_ino st).
Proof.
  unfold stat_same. rewrite !andb_false_iff, !N.eqb_neq. tauto.
Qed.

Section RefreshedProofs.
  Variable H : str -> str.

  (* Any difference in mode, mtime, size or inode makes refreshed hash the content again. *)
  Theorem refreshed_detects old st data :
    (fh_mode old <> st_mode st \/ fh_mtime old <> st_mtime st \/ fh_size old <> st_size st
     \/ fh_inode old <> st_ino st) ->
    refreshed H old (Some (st, data))
    = mk_fhash (H data) (st_mode st) (st_mtime st) (st_size st) (st_ino st).
  Proof.
    intros Hd. apply stat_same_false in Hd. unfold refreshed.
    rewrite refreshed_same_is_stat_same, Hd. apply refreshed_build_fields.
  Qed.

  (* ... and the result compares unequal to the old hash (FileHash.__eq__: digest, mode, size)
     exactly when the content digest, the mode or the size differs. *)
  Theorem refreshed_reports_change old st data :
    (fh_mode old <> st_mode st \/ fh_mtime old <> st_mtime st \/ fh_size old <> st_size st
     \/ fh_inode old <> st_ino st) ->
    fh_eqb (refreshed H old (Some (st, data))) old
    = str_eqb (H data) (fh_digest old) && (st_mode st =? fh_mode old) && (st_size st =? fh_size old).
  Proof. intros Hd. rewrite (refreshed_detects _ _ _ Hd). reflexivity. Qed.

  (* The only case in which a present file keeps its old hash: all four stat fields are the
     recorded ones. The content is not read then, so a change that preserves all four goes
     unnoticed. *)
  Theorem refreshed_returns_old_iff_stat_same old st data :
    stat_same old st = true -> refreshed H old (Some (st, data)) = old.
  Proof. intros Hs. unfold refreshed. rewrite refreshed_same_is_stat_same, Hs. reflexivity. Qed.

  (* A file that cannot be stat'ed: unknown, and an already unknown hash is returned as is. *)
  Theorem refreshed_missing old :
    refreshed H old None = (if fh_is_unknown old then old else fh_unknown)
    /\ fh_is_unknown (refreshed H old None) = true.
  Proof.
    split; [reflexivity|]. unfold refreshed. destruct (fh_is_unknown old) eqn:E; [exact E|reflexivity].
  Qed.
End RefreshedProofs.

(* ---------- cfg_equiv read as equality of finite maps ---------- *)
Theorem cfg_equiv_same_maps c1 c2 :
  nodup_keys (cfg_inps c1) = true -> nodup_keys (cfg_envs c1) = true ->
  nodup_keys (cfg_ovrs c1) = true -> cfg_equiv c1 c2 ->
  cfg_label c1 = cfg_label c2 /\ cfg_shell c1 = cfg_shell c2 /\
  forall k, lookup k (cfg_inps c1) = lookup k (cfg_inps c2)
            /\ lookup k (cfg_envs c1) = lookup k (cfg_envs c2)
            /\ lookup k (cfg_ovrs c1) = lookup k (cfg_ovrs c2).
Proof.
  intros N1 N2 N3 [El [Es [Pi [Pe Po]]]]. split; [exact El|]. split; [exact Es|]. intros k.
  repeat split; apply perm_lookup; try assumption; apply nodupb_NoDup; assumption.
Qed.

(* ---------- once unknown digests are hashed as the missing-word marker (repair of D2) but the
   override keyword is still a str word: the input digest needs env_names_ok only ---------- *)
Lemma inp_ok_fixed_when_d2_repaired c :
  unknown_as_none = true -> env_names_ok c = true -> inp_ok Fixed c = true.
Proof.
  intros Hu H. unfold inp_ok. rewrite (digests_ok_fixed_when_repaired _ Hu), H. reflexivity.
Qed.

Theorem inp_preimage_injective_env_when_d2_repaired :
  unknown_as_none = true ->
  forall c1 c2, wf c1 = true -> wf c2 = true -> env_names_ok c1 = true -> env_names_ok c2 = true ->
    inp_preimage c1 = inp_preimage c2 -> cfg_equiv c1 c2.
Proof.
  intros Hu c1 c2 W1 W2 E1 E2. apply (inp_preimage_injective Fixed); try assumption;
    apply inp_ok_fixed_when_d2_repaired; assumption.
Qed.
