(* C19: what the WHERE clauses translated from pending.py (gen/GenPending.v) mean.  Every lemma is
   proved semantically (case analysis over the atoms of the clause: boolean columns, comparisons of
   a column with a constant or another column), so an equivalent rewrite of a clause in pending.py
   keeps them, and a clause that means something else breaks the lemma that names the clause. *)
From Coq Require Import List Arith NArith Bool Lia.
From SV Require Import lib.Bytes lib.SqlExpr model.PendingTypes gen.GenPending model.Pending.
Import ListNotations.
Open Scope N_scope.

Ltac sql_unfold :=
  cbv [sholds seval truth option_map and3 or3 b2n cmp_eval mem_N existsb ob orb andb negb
       ps_env fb_env fb_env_raw prod_env res_env file_env self_env a_env w_env].

(* destruct one atom (a boolean column, a comparison, a lookup) and simplify *)
Ltac sql_atom :=
  match goal with
  | |- context [if ?b then _ else _] =>
      lazymatch b with
      | context [match _ with _ => _ end] => fail
      | negb _ => fail
      | true => fail | false => fail
      | _ => let E := fresh "E" in destruct b eqn:E
      end
  | |- context [match ?b with Some _ => _ | None => _ end] =>
      lazymatch b with
      | context [match _ with _ => _ end] => fail
      | Some _ => fail | None => fail
      | _ => let E := fresh "E" in destruct b eqn:E
      end
  end; cbn.
Ltac sql_arith :=
  repeat match goal with
  | H : (_ =? _) = true |- _ => apply N.eqb_eq in H
  | H : (_ =? _) = false |- _ => apply N.eqb_neq in H
  | H : (_ <? _) = true |- _ => apply N.ltb_lt in H
  | H : (_ <? _) = false |- _ => apply N.ltb_ge in H
  | H : (_ <=? _) = true |- _ => apply N.leb_le in H
  | H : (_ <=? _) = false |- _ => apply N.leb_gt in H
  end.
Ltac sql_solve := sql_unfold; cbn; repeat sql_atom; try reflexivity; try (exfalso; sql_arith; subst; lia).

(* _INSERT_PEND_STEP *)
Lemma in_U_spec sn s :
  in_U sn s = (s_state s =? SS_PENDING) && (sn_threshold sn <? s_ineed s) && negb (s_detached s).
Proof. unfold in_U, gen_pend_step_where, SS_PENDING. sql_solve. Qed.

(* _SELECT_NTOTAL counts the rows _INSERT_PEND_STEP inserts *)
Lemma ntotal_is_U sn s : in_ntotal sn s = in_U sn s.
Proof. unfold in_ntotal, in_U, gen_ntotal_where, gen_pend_step_where. sql_solve. Qed.

(* `unsafe` is the negated safety disjunct of STEP_DISPATCH_WHERE *)
Lemma s_unsafe_spec s : s_unsafe s = negb (s_safe s || (s_has_hash s && s_safe_nh s)).
Proof. unfold s_unsafe, gen_pend_step_unsafe. sql_solve. Qed.

(* _INSERT_PEND_FILE_BLOCK: every row is an input that dispatch finds unavailable, or an unbuilt
   dynamic input of a deferred step ... *)
Lemma file_block_sound state det dyn deferred unsafe :
  sholds (fb_env_raw state det dyn deferred unsafe) gen_file_block_where = true ->
  unavailable_input state det dyn = true
  \/ (deferred = true /\ dyn = true /\ state <> FS_CONFIRMED /\ state <> FS_BUILT).
Proof.
  unfold unavailable_input, gen_file_block_where, gen_unavailable_input, FS_CONFIRMED, FS_BUILT.
  destruct det, dyn, deferred, unsafe; sql_unfold; cbn; repeat sql_atom; intros H; try discriminate H;
    try (left; reflexivity); try (exfalso; sql_arith; subst; lia);
    right; sql_arith; repeat split; try reflexivity; assumption.
Qed.

(* ... and every input that dispatch finds unavailable is a row (the analysis cannot call a step
   runnable that dispatch would refuse for an input). *)
Lemma file_block_complete state det dyn deferred unsafe :
  unavailable_input state det dyn = true ->
  sholds (fb_env_raw state det dyn deferred unsafe) gen_file_block_where = true.
Proof.
  unfold unavailable_input, gen_file_block_where, gen_unavailable_input.
  destruct det, dyn, deferred, unsafe; sql_unfold; cbn; repeat sql_atom; intros H; try discriminate H;
    try reflexivity; exfalso; sql_arith; subst; lia.
Qed.

(* _INSERT_PEND_RESOURCE: undefined or fewer units than required *)
Lemma unsat_spec sn req :
  unsat sn req = match lookup_str (fst req) (sn_avail sn) with None => true | Some a => a <? snd req end.
Proof. unfold unsat, gen_pend_resource_where. sql_solve. Qed.

(* _INSERT_PEND_DEAD_FILE: a producer is live when it is in U or FAILED *)
Lemma live_producer_spec sn du p :
  sholds (prod_env sn du p) gen_live_producer = in_U sn p || is_failed p.
Proof. unfold gen_live_producer, is_failed, SS_FAILED. sql_solve. Qed.

Lemma dead_file_spec sn f :
  dead_file sn f = negb (existsb (fun p => in_U sn p || is_failed p) (producers sn (f_id f))).
Proof.
  unfold dead_file. f_equal. induction (producers sn (f_id f)) as [|p l IH]; [reflexivity|].
  cbn [existsb]. rewrite IH, live_producer_spec. reflexivity.
Qed.

(* _INSERT_PEND_UNSAFE_ANC: the walk starts from unsafe steps, passes through RUNNING / SUCCEEDED
   ancestors that hold nothing, and the stop condition is exactly the negation of "pass through"
   (so every ancestor either continues the walk or ends it: at most one row per step) *)
Lemma anc_gate_spec u : anc_gate u = s_unsafe u.
Proof. unfold anc_gate, gen_anc_seed_where. sql_solve. Qed.
Lemma chain_ok_spec p :
  chain_ok p = ((s_state p =? SS_RUNNING) || (s_state p =? SS_SUCCEEDED)) && (s_holding p =? 0).
Proof. unfold chain_ok, gen_anc_cont_where, SS_RUNNING, SS_SUCCEEDED. sql_solve. Qed.
Lemma anc_stop_spec p : anc_stop p = negb (chain_ok p).
Proof. unfold anc_stop, chain_ok, gen_anc_stop_where, gen_anc_cont_where. sql_solve. Qed.

(* _INSERT_PEND_ATTRIBUTED: seeds are the rows whose kind is not BLOCK_STEP, the recursive step joins
   the BLOCK_STEP rows whose src is the step just reached *)
Lemma is_seed_spec row : is_seed row = negb (c_kind (snd row) =? K_BLOCK_STEP).
Proof. unfold is_seed, gen_attr_seed_where, K_BLOCK_STEP. sql_solve. Qed.
Lemma is_child_spec i row : is_child i row = (c_kind (snd row) =? K_BLOCK_STEP) && (c_src (snd row) =? i).
Proof. unfold is_child, gen_attr_join, K_BLOCK_STEP. sql_solve. Qed.

(* _INSERT_PEND_BLOCKER_RUNNABLE: the steps without a row so far get a ROOT_RUNNABLE row *)
Lemma runnable_insert_spec :
  gen_runnable_kind = K_ROOT_RUNNABLE /\
  forall b, sholds (fun c => match c with B_has_blocker => ob b | _ => None end) gen_runnable_where = negb b.
Proof. split; [reflexivity|]. intros b. unfold gen_runnable_where. sql_solve. Qed.

(* _bucket / _cyclic_bucket *)
Lemma bucket_where_spec kind k : sholds (a_env kind k true) gen_bucket_where = (kind =? k).
Proof. unfold gen_bucket_where. sql_solve. Qed.
Lemma cyclic_where_spec b : sholds (a_env 0 0 b) gen_cyclic_where = negb b.
Proof. unfold gen_cyclic_where. sql_solve. Qed.

Lemma cyclic_ids_spec sn :
  cyclic_ids sn = filter (fun u => negb (memN u (map fst (attributed sn)))) (U_ids sn).
Proof. unfold cyclic_ids. apply filter_ext. intros u. apply cyclic_where_spec. Qed.

Lemma bucket_count_spec sn k : fst (bucket sn k) = count_kind k (attributed sn).
Proof.
  unfold bucket, count_kind. cbn [fst]. do 2 f_equal. apply filter_ext. intros row. apply bucket_where_spec.
Qed.

(* which query fills which field of PendingSummary *)
Lemma summary_buckets_spec :
  map snd gen_summary_buckets
  = [Some K_ROOT_FAILED; None; Some K_ROOT_DEFERRED; Some K_ROOT_OTHER; Some K_ROOT_RUNNABLE]
  /\ map fst gen_summary_buckets
     = [ [102;97;105;108;101;100]; [99;121;99;108;105;99]; [100;101;102;101;114;114;101;100];
         [111;116;104;101;114]; [114;117;110;110;97;98;108;101] ].
Proof. split; reflexivity. Qed.

(* ------------------------------------------------------------------------------------------ *)
(* The arms of _INSERT_PEND_BLOCKER: relation by relation, for ANY WHERE clause with the stated  *)
(* meaning; then the generated list of arms is the relation the comments of pending.py describe. *)
(* ------------------------------------------------------------------------------------------ *)

Lemma map_filter_map {A B C} (h : A -> B) (p : B -> bool) (g : B -> C) l :
  map g (filter p (map h l)) = map (fun x => g (h x)) (filter (fun x => p (h x)) l).
Proof. induction l as [|x l IH]; cbn; [reflexivity|]. destruct (p (h x)); cbn; rewrite IH; reflexivity. Qed.

Lemma filter_app' {A} (p : A -> bool) l1 l2 : filter p (l1 ++ l2) = filter p l1 ++ filter p l2.
Proof. induction l1 as [|x l IH]; cbn; [reflexivity|]. destruct (p x); cbn; rewrite IH; reflexivity. Qed.

Lemma map_filter_flat_map {A B C} (f : A -> list B) (p : B -> bool) (g : B -> C) l :
  map g (filter p (flat_map f l)) = flat_map (fun x => map g (filter p (f x))) l.
Proof. induction l as [|x l IH]; cbn; [reflexivity|]. rewrite filter_app', map_app, IH. reflexivity. Qed.

Lemma filter_filter {A} (p q : A -> bool) l : filter p (filter q l) = filter (fun x => q x && p x) l.
Proof. induction l as [|x l IH]; cbn; [reflexivity|]. destruct (q x); cbn; [destruct (p x)|]; rewrite IH; reflexivity. Qed.

Lemma filter_true {A} (p : A -> bool) l : (forall x, p x = true) -> filter p l = l.
Proof. intros H. induction l as [|x l IH]; cbn; [reflexivity|]. rewrite H, IH. reflexivity. Qed.

Lemma flat_map_ext' {A B} (f g : A -> list B) l : (forall x, f x = g x) -> flat_map f l = flat_map g l.
Proof. intros H. induction l as [|x l IH]; cbn; [reflexivity|]. rewrite H, IH. reflexivity. Qed.

Lemma mem_str_In x l : mem_str x l = true <-> In x l.
Proof.
  unfold mem_str. rewrite existsb_exists. split.
  - intros [y [Hy E]]. apply str_eqb_eq in E. subst. exact Hy.
  - intros H. exists x. split; [exact H|apply str_eqb_eq; reflexivity].
Qed.

Section Arms.
  Variables (sn : snap) (u : stepr) (K : N) (W : sexpr bcol).

  Lemma arm_dead_file :
    (forall du f, sholds (file_env sn du f) W = true) ->
    arm_cands sn u (mk_arm RDeadFile K W)
    = map (fun f => (K, f_label f, f_id f)) (filter (dead_file sn) (blocking_files sn u)).
  Proof.
    intros HW. unfold arm_cands, arm_rows_of. cbn [a_rel a_kind a_where rel_rows base_rows].
    rewrite map_filter_map. cbn [br_env br_label br_src]. rewrite filter_true; [reflexivity|].
    intros f. apply HW.
  Qed.

  (* the RESOURCE arm lists exactly the unsatisfiable requirements of u (u in U) *)
  Lemma arm_resource :
    (forall r, sholds (res_env sn true r) W = unsat sn r) ->
    In u (U sn) ->
    arm_cands sn u (mk_arm RResource K W) = map (fun r => (K, fst r, 0)) (unsat_reqs sn u).
  Proof.
    intros HW Hu. unfold arm_cands, arm_rows_of. cbn [a_rel a_kind a_where rel_rows base_rows].
    rewrite map_filter_map. cbn [br_env br_label br_src]. f_equal.
    assert (Hin : in_U sn u = true) by (apply filter_In in Hu; tauto). rewrite Hin.
    rewrite filter_filter. unfold unsat_reqs. apply filter_ext_in. intros r Hr. rewrite HW.
    destruct (unsat sn r) eqn:E; [|apply andb_false_r]. rewrite andb_true_r.
    apply mem_str_In. unfold pend_resource_names. apply in_map. apply in_flat_map. exists u. split; [exact Hu|].
    unfold unsat_reqs. apply filter_In. auto.
  Qed.

  Lemma arm_failed_prod (spec : stepr -> bool) :
    (forall du p, sholds (prod_env sn du p) W = spec p) ->
    arm_cands sn u (mk_arm RFailedProd K W)
    = flat_map (fun f => map (fun p => (K, s_label p, s_id p)) (filter spec (producers sn (f_id f))))
               (blocking_files sn u).
  Proof.
    intros HW. unfold arm_cands, arm_rows_of. cbn [a_rel a_kind a_where rel_rows base_rows].
    rewrite map_filter_flat_map. apply flat_map_ext'. intros f. rewrite map_filter_map.
    unfold step_row. cbn [br_env br_label br_src]. f_equal. apply filter_ext. intros p. apply HW.
  Qed.

  Lemma arm_anc (r : rel) (lab : bool) (spec : stepr -> bool) :
    (r = RAncStep /\ lab = true) \/ (r = RAncBare /\ lab = false) ->
    (forall du p, sholds (prod_env sn du p) W = spec p) ->
    arm_cands sn u (mk_arm r K W)
    = match unsafe_anc sn u with
      | Some a => if spec a then [(K, (if lab then s_label a else []), s_id a)] else []
      | None => []
      end.
  Proof.
    intros Hr HW. unfold arm_cands, arm_rows_of.
    destruct Hr as [[-> ->]|[-> ->]]; cbn [a_rel a_kind a_where rel_rows base_rows];
      (destruct (unsafe_anc sn u) as [a|]; [|reflexivity]); cbn [filter step_row br_env];
      rewrite HW; destruct (spec a); reflexivity.
  Qed.

  Lemma arm_self (spec : bool -> bool) :
    (forall hasfb, sholds (self_env u hasfb) W = spec hasfb) ->
    arm_cands sn u (mk_arm RSelf K W)
    = if spec (match blocking_files sn u with [] => false | _ => true end) then [(K, [], s_id u)] else [].
  Proof.
    intros HW. unfold arm_cands, arm_rows_of. cbn [a_rel a_kind a_where rel_rows base_rows filter br_env].
    rewrite HW. destruct (spec _); reflexivity.
  Qed.
End Arms.

(* _INSERT_PEND_STEP_BLOCK joined with node: producers in U of a blocking input, and the nearest
   chain-broken ancestor when it is in U. *)
Lemma step_block_rows_spec sn u :
  map (fun row => (K_BLOCK_STEP, br_label row, br_src row)) (step_block_rows sn u)
  = flat_map (fun f => map (fun p => (K_BLOCK_STEP, s_label p, s_id p))
                           (filter (in_U sn) (producers sn (f_id f)))) (blocking_files sn u)
    ++ match unsafe_anc sn u with
       | Some a => if in_U sn a then [(K_BLOCK_STEP, s_label a, s_id a)] else []
       | None => [] end.
Proof.
  unfold step_block_rows, gen_step_block_arms. cbn [flat_map]. rewrite app_nil_r, map_map, map_app.
  cbn [br_label br_src]. f_equal.
  - unfold arm_rows_of. cbn [a_rel a_where base_rows]. rewrite map_filter_flat_map. apply flat_map_ext'.
    intros f. rewrite map_filter_map. unfold step_row. cbn [br_env br_node_label br_src]. f_equal.
    apply filter_ext. intros p. sql_solve.
  - unfold arm_rows_of. cbn [a_rel a_where base_rows]. destruct (unsafe_anc sn u) as [a|]; [|reflexivity].
    cbn [filter step_row br_env].
    assert (E : sholds (prod_env sn (in_U sn u) a) (SCol B_src_in_U) = in_U sn a) by sql_solve.
    rewrite E. destruct (in_U sn a); reflexivity.
Qed.

Lemma arm_step_block sn u W :
  (forall row, sholds (br_env row) W = true) ->
  arm_cands sn u (mk_arm RStepBlock K_BLOCK_STEP W)
  = flat_map (fun f => map (fun p => (K_BLOCK_STEP, s_label p, s_id p))
                           (filter (in_U sn) (producers sn (f_id f)))) (blocking_files sn u)
    ++ match unsafe_anc sn u with
       | Some a => if in_U sn a then [(K_BLOCK_STEP, s_label a, s_id a)] else []
       | None => [] end.
Proof.
  intros HW. unfold arm_cands, arm_rows_of. cbn [a_rel a_kind a_where rel_rows].
  rewrite filter_true by exact HW. apply step_block_rows_spec.
Qed.

(* The generated UNION ALL is the hand-written relation, for every step of U. *)
Theorem cands_is_spec sn u : In u (U sn) -> cands sn u = cands_spec sn u.
Proof.
  intros Hu. unfold cands, gen_blocker_arms. cbn [flat_map]. rewrite app_nil_r.
  rewrite arm_dead_file by (intros; sql_solve).
  rewrite arm_resource; [|intros r; unfold unsat, gen_pend_resource_where; sql_solve|exact Hu].
  rewrite (arm_failed_prod sn u _ _ is_failed) by (intros; unfold is_failed, SS_FAILED; sql_solve).
  rewrite (arm_anc sn u _ _ RAncStep true is_failed)
    by (auto || (intros; unfold is_failed, SS_FAILED; sql_solve)).
  rewrite (arm_self sn u _ _ (fun hasfb => s_deferred u && negb hasfb)) by (intros; sql_solve).
  rewrite (arm_anc sn u _ _ RAncBare false (fun a => negb (in_U sn a) && negb (is_failed a)))
    by (auto || (intros; unfold is_failed, SS_FAILED; sql_solve)).
  rewrite arm_step_block by (intros; sql_solve).
  unfold cands_spec. repeat (f_equal; try reflexivity).
  destruct (blocking_files sn u); reflexivity.
Qed.

(* _INSERT_PEND_SEED_FILE / _RESOURCE (the seeds of the exact-count closure) are the FILE and RESOURCE
   candidates of _INSERT_PEND_BLOCKER *)
Theorem seed_arms_spec sn u : In u (U sn) ->
  flat_map (arm_cands sn u) gen_seed_arms
  = map (fun f => (K_ROOT_FILE, f_label f, f_id f)) (filter (dead_file sn) (blocking_files sn u))
    ++ map (fun r => (K_ROOT_RESOURCE, fst r, 0)) (unsat_reqs sn u).
Proof.
  intros Hu. unfold gen_seed_arms. cbn [flat_map]. rewrite app_nil_r.
  rewrite arm_dead_file by (intros; sql_solve).
  rewrite arm_resource; [reflexivity|intros r; unfold unsat, gen_pend_resource_where; sql_solve|exact Hu].
Qed.

(* kinds of the arms: the five root kinds that have an arm, and BLOCK_STEP; never RUNNABLE *)
Lemma arm_kinds_ok :
  forallb (fun a => memN (a_kind a) [K_ROOT_FILE; K_ROOT_RESOURCE; K_ROOT_FAILED; K_ROOT_DEFERRED; K_ROOT_OTHER; K_BLOCK_STEP]
                    && negb (a_kind a =? K_ROOT_RUNNABLE)) gen_blocker_arms = true.
Proof. reflexivity. Qed.

Lemma cands_arm sn u c : In c (cands sn u) -> exists a, In a gen_blocker_arms /\ c_kind c = a_kind a.
Proof.
  unfold cands. intros H. apply in_flat_map in H. destruct H as [a [Ha H]]. exists a. split; [exact Ha|].
  unfold arm_cands in H. apply in_map_iff in H. destruct H as [row [<- _]]. reflexivity.
Qed.
