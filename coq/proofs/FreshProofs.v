(* C03: proofs about model/Fresh.v (which composes the functions generated from /repo). *)
From Coq Require Import List NArith Bool Lia.
From SV Require Import lib.StampMap.
From SV Require Import gen.GenFresh.
From SV Require Import model.Fresh.
Import ListNotations.
Open Scope N_scope.
Open Scope bool_scope.

(* ====================================================================================== *)
(* A. The generated bookkeeping functions: what one record_run_stopped does to the maps    *)
(* ====================================================================================== *)

Lemma started_spec a o s t :
  record_run_started_gen a o s t = (sm_set s t a, o).
Proof. reflexivity. Qed.

(* This is where a change of record_run_stopped (pruning comparison, clearing rule, when the
   stop stamp is stored) breaks the development. *)
Lemma stopped_spec a o s t ok :
  record_run_stopped_gen a o s t ok =
  (sm_remove s a,
   let o1 := if ok then sm_set s t o else o in
   if sm_is_empty (sm_remove s a) then [] else sm_drop_if CLt (sm_min (sm_remove s a)) o1).
Proof. unfold record_run_stopped_gen. destruct ok; destruct (sm_is_empty (sm_remove s a)); reflexivity. Qed.

Lemma ran_conc_spec b p c :
  ran_conc b p c =
  match sm_get p (stops b), sm_get c (starts b) with
  | Some tp, Some sc => sc <=? tp
  | _, _ => false
  end.
Proof. unfold ran_conc, ran_concurrently_gen. destruct (sm_get p (stops b)), (sm_get c (starts b)); reflexivity. Qed.

Section StopStep.
  Variables (a o : smap) (s t : N) (ok : bool).
  Let a' := sm_remove s a.
  Let o1 := if ok then sm_set s t o else o.
  Let o' := if sm_is_empty a' then [] else sm_drop_if CLt (sm_min a') o1.

  Lemma stop_nodup : NoDup (sm_keys o) -> NoDup (sm_keys o').
  Proof.
    intros H. unfold o'. destruct (sm_is_empty a'); [constructor|].
    apply sm_nodup_drop. unfold o1. destruct ok; [apply sm_nodup_set; exact H|exact H].
  Qed.

  Lemma o1_nodup : NoDup (sm_keys o) -> NoDup (sm_keys o1).
  Proof. intros H. unfold o1. destruct ok; [apply sm_nodup_set; exact H|exact H]. Qed.

  (* nothing is invented: an entry of the new stop map is an entry of the updated old one *)
  Lemma stop_subset p v : NoDup (sm_keys o) -> sm_get p o' = Some v -> sm_get p o1 = Some v.
  Proof.
    intros Hnd. unfold o'. destruct (sm_is_empty a'); [discriminate|].
    rewrite sm_get_drop by (apply o1_nodup; exact Hnd).
    destruct (sm_get p o1) as [x|]; [|discriminate].
    destruct (cmp_eval CLt x (sm_min a')); [discriminate|]. intros H; exact H.
  Qed.

  (* an entry that some still-running step may need (its start stamp is not after the stop
     stamp) survives the pruning *)
  Lemma stop_kept p v c sc :
    NoDup (sm_keys o) ->
    sm_get p o1 = Some v -> sm_get c a' = Some sc -> sc <= v -> sm_get p o' = Some v.
  Proof.
    intros Hnd Hp Hc Hle. unfold o'.
    destruct (sm_is_empty a') eqn:He.
    - rewrite (sm_is_empty_get _ He c) in Hc. discriminate.
    - rewrite sm_get_drop by (apply o1_nodup; exact Hnd). rewrite Hp.
      pose proof (sm_min_le _ _ _ Hc) as Hmin. cbn [cmp_eval].
      destruct (N.ltb_spec v (sm_min a')); [lia|reflexivity].
  Qed.
End StopStep.

Lemma o1_get_same (o : smap) s t : sm_get s (sm_set s t o) = Some t.
Proof. apply sm_get_set_same. Qed.

(* ====================================================================================== *)
(* B. Strictly increasing clock: the pruned maps answer exactly like the full history       *)
(* ====================================================================================== *)

Record KInv (b : book) (h : hist) (now : N) : Prop := {
  k_starts : starts b = running h;
  k_nodup : NoDup (sm_keys (stops b));
  k_sub : forall p v, sm_get p (stops b) = Some v -> sm_get p (last_ok_stop h) = Some v;
  k_keep : forall p tp c sc, sm_get p (last_ok_stop h) = Some tp -> sm_get c (running h) = Some sc ->
                             sc <= tp -> sm_get p (stops b) = Some tp;
  k_run_le : forall c sc, sm_get c (running h) = Some sc -> sc <= now;
  k_stop_le : forall p tp, sm_get p (last_ok_stop h) = Some tp -> tp <= now
}.

Lemma KInv_init : KInv book0 hist0 0.
Proof. constructor; cbn; try reflexivity; try constructor; intros; discriminate. Qed.

Lemma get_set_cases k k' v m x :
  sm_get k (sm_set k' v m) = Some x -> (k = k' /\ x = v) \/ (k <> k' /\ sm_get k m = Some x).
Proof.
  destruct (N.eq_dec k k') as [->|Hne].
  - rewrite sm_get_set_same. intros H; inversion H; left; split; reflexivity.
  - rewrite sm_get_set_other by exact Hne. intros H; right; split; assumption.
Qed.

Lemma get_remove_some k k' m x : sm_get k (sm_remove k' m) = Some x -> k <> k' /\ sm_get k m = Some x.
Proof.
  destruct (N.eq_dec k k') as [->|Hne].
  - rewrite sm_get_remove_same. discriminate.
  - rewrite sm_get_remove_other by exact Hne. intros H; split; assumption.
Qed.

(* one event with a clock reading strictly after everything recorded so far *)
Lemma KInv_step b h now e :
  KInv b h now ->
  (forall t, bev_time e = Some t -> now < t) ->
  KInv (bstep b e) (hstep h e) (match bev_time e with Some t => t | None => now end).
Proof.
  intros [Hst Hnd Hsub Hkeep Hrl Hsl] Ht.
  destruct e as [s t|s t ok|].
  - (* start *)
    specialize (Ht t eq_refl). cbn [bstep hstep bev_time]. rewrite started_spec. cbn [starts stops running last_ok_stop].
    constructor; cbn [starts stops running last_ok_stop].
    + rewrite Hst. reflexivity.
    + exact Hnd.
    + exact Hsub.
    + intros p tp c sc Hp Hc Hle. apply get_set_cases in Hc as [[-> ->]|[Hne Hc]].
      * specialize (Hsl _ _ Hp). lia.
      * eapply Hkeep; eassumption.
    + intros c sc Hc. apply get_set_cases in Hc as [[-> ->]|[Hne Hc]]; [lia|]. specialize (Hrl _ _ Hc). lia.
    + intros p tp Hp. specialize (Hsl _ _ Hp). lia.
  - (* stop *)
    specialize (Ht t eq_refl). cbn [bstep hstep bev_time]. rewrite stopped_spec. cbn [starts stops running last_ok_stop].
    assert (Hsub1 : forall p v, sm_get p (if ok then sm_set s t (stops b) else stops b) = Some v ->
                                sm_get p (if ok then sm_set s t (last_ok_stop h) else last_ok_stop h) = Some v).
    { intros p v. destruct ok; [|apply Hsub]. intros H. apply get_set_cases in H as [[-> ->]|[Hne H]].
      - apply sm_get_set_same.
      - rewrite sm_get_set_other by exact Hne. apply Hsub. exact H. }
    constructor; cbn [starts stops running last_ok_stop].
    + rewrite Hst. reflexivity.
    + apply stop_nodup. exact Hnd.
    + intros p v Hp. apply Hsub1. eapply stop_subset; [exact Hnd|exact Hp].
    + intros p tp c sc Hp Hc Hle. rewrite Hst.
      eapply stop_kept with (c := c) (sc := sc); [exact Hnd| |exact Hc|exact Hle].
      apply get_remove_some in Hc as [Hcs Hc].
      destruct ok.
      * apply get_set_cases in Hp as [[-> ->]|[Hne Hp]].
        -- apply sm_get_set_same.
        -- rewrite sm_get_set_other by exact Hne. eapply Hkeep; eassumption.
      * eapply Hkeep; eassumption.
    + intros c sc Hc. apply get_remove_some in Hc as [_ Hc]. specialize (Hrl _ _ Hc). lia.
    + intros p tp Hp. destruct ok.
      * apply get_set_cases in Hp as [[-> ->]|[Hne Hp]]; [lia|]. specialize (Hsl _ _ Hp). lia.
      * specialize (Hsl _ _ Hp). lia.
  - (* build_completed *)
    cbn [bstep hstep bev_time]. constructor; cbn [starts stops running last_ok_stop].
    + reflexivity.
    + constructor.
    + intros p v H. discriminate.
    + intros p tp c sc _ Hc. discriminate.
    + intros c sc Hc. discriminate.
    + exact Hsl.
Qed.

Lemma KInv_run evs : forall b h now,
  KInv b h now -> smono now evs = true ->
  exists now', KInv (fold_left bstep evs b) (fold_left hstep evs h) now'.
Proof.
  induction evs as [|e evs IH]; intros b h now HK Hm; cbn [fold_left].
  - exists now. exact HK.
  - cbn [smono] in Hm. destruct (bev_time e) as [t|] eqn:Het.
    + apply andb_true_iff in Hm as [Hlt Hm]. apply N.ltb_lt in Hlt.
      eapply IH; [|exact Hm].
      pose proof (KInv_step b h now e HK) as Hs. rewrite Het in Hs. apply Hs.
      intros t' Ht'. inversion Ht'; subst. exact Hlt.
    + eapply IH; [|exact Hm].
      pose proof (KInv_step b h now e HK) as Hs. rewrite Het in Hs. apply Hs.
      intros t' Ht'. discriminate.
Qed.

Lemma KInv_answers b h now p c : KInv b h now -> ran_conc b p c = ran_ref h p c.
Proof.
  intros [Hst Hnd Hsub Hkeep Hrl Hsl]. rewrite ran_conc_spec. unfold ran_ref. rewrite Hst.
  destruct (sm_get c (running h)) as [sc|] eqn:Hc.
  - destruct (sm_get p (stops b)) as [tp|] eqn:Hp.
    + rewrite (Hsub _ _ Hp). reflexivity.
    + destruct (sm_get p (last_ok_stop h)) as [tp|] eqn:Hl; [|reflexivity].
      destruct (N.leb_spec sc tp) as [Hle|Hgt]; [|reflexivity].
      rewrite (Hkeep _ _ _ _ Hl Hc Hle) in Hp. discriminate.
  - destruct (sm_get p (stops b)); reflexivity.
Qed.

(* pruning_sound: for every history of starts, stops (successful or not) and build_completed of
   any number of steps whose clock readings strictly increase, every query the code can make is
   answered by the pruned maps exactly as by the full, never pruned history. *)
Theorem pruning_sound evs p c :
  smono 0 evs = true -> ran_conc (brun evs) p c = ran_ref (hrun evs) p c.
Proof.
  intros Hm. destruct (KInv_run evs book0 hist0 0 KInv_init Hm) as [now HK].
  eapply KInv_answers. exact HK.
Qed.

(* ====================================================================================== *)
(* C. Clock readings may repeat: no overlap (in event order) is ever missed                *)
(* ====================================================================================== *)

(* hs = full history with the real stamps, ho = the same history stamped with positions *)
Record JInv (b : book) (hs ho : hist) (n now : N) : Prop := {
  j_starts : starts b = running hs;
  j_nodup : NoDup (sm_keys (stops b));
  j_sub : forall p v, sm_get p (stops b) = Some v -> sm_get p (last_ok_stop hs) = Some v;
  j_keep : forall p tp ip c sc ic,
      sm_get p (last_ok_stop hs) = Some tp -> sm_get p (last_ok_stop ho) = Some ip ->
      sm_get c (running hs) = Some sc -> sm_get c (running ho) = Some ic ->
      ic <= ip -> sc <= tp /\ sm_get p (stops b) = Some tp;
  j_run_pair : forall c, (sm_get c (running hs) = None <-> sm_get c (running ho) = None);
  j_stop_pair : forall p, (sm_get p (last_ok_stop hs) = None <-> sm_get p (last_ok_stop ho) = None);
  j_run_le : forall c sc, sm_get c (running hs) = Some sc -> sc <= now;
  j_stop_le : forall p tp, sm_get p (last_ok_stop hs) = Some tp -> tp <= now;
  j_irun_lt : forall c ic, sm_get c (running ho) = Some ic -> ic < n;
  j_istop_lt : forall p ip, sm_get p (last_ok_stop ho) = Some ip -> ip < n
}.

Lemma JInv_init : JInv book0 hist0 hist0 1 0.
Proof. constructor; cbn; try reflexivity; try constructor; intros; try discriminate; tauto. Qed.

Lemma get_set_none_iff k k' v v' m m' :
  (sm_get k m = None <-> sm_get k m' = None) ->
  (sm_get k (sm_set k' v m) = None <-> sm_get k (sm_set k' v' m') = None).
Proof.
  intros H. destruct (N.eq_dec k k') as [->|Hne].
  - rewrite !sm_get_set_same. split; discriminate.
  - rewrite !sm_get_set_other by exact Hne. exact H.
Qed.

Lemma get_remove_none_iff k k' m m' :
  (sm_get k m = None <-> sm_get k m' = None) ->
  (sm_get k (sm_remove k' m) = None <-> sm_get k (sm_remove k' m') = None).
Proof.
  intros H. destruct (N.eq_dec k k') as [->|Hne].
  - rewrite !sm_get_remove_same. tauto.
  - rewrite !sm_get_remove_other by exact Hne. exact H.
Qed.

Lemma JInv_step b hs ho n now e :
  JInv b hs ho n now ->
  (forall t, bev_time e = Some t -> now <= t) ->
  JInv (bstep b e) (hstep hs e) (hstep ho (restamp e n)) (n + 1)
       (match bev_time e with Some t => t | None => now end).
Proof.
  intros [Hst Hnd Hsub Hkeep Hrp Hsp Hrl Hsl Hir His] Ht.
  destruct e as [s t|s t ok|].
  - specialize (Ht t eq_refl). cbn [bstep hstep bev_time restamp]. rewrite started_spec.
    constructor; cbn [starts stops running last_ok_stop].
    + rewrite Hst. reflexivity.
    + exact Hnd.
    + exact Hsub.
    + intros p tp ip c sc ic Hp Hip Hc Hic Hle.
      apply get_set_cases in Hc as [[-> ->]|[Hne Hc]].
      * rewrite sm_get_set_same in Hic. inversion Hic; subst ic. specialize (His _ _ Hip). lia.
      * rewrite sm_get_set_other in Hic by exact Hne. eapply Hkeep; eassumption.
    + intros c. apply get_set_none_iff. apply Hrp.
    + exact Hsp.
    + intros c sc Hc. apply get_set_cases in Hc as [[-> ->]|[Hne Hc]]; [lia|]. specialize (Hrl _ _ Hc). lia.
    + intros p tp Hp. specialize (Hsl _ _ Hp). lia.
    + intros c ic Hc. apply get_set_cases in Hc as [[-> ->]|[Hne Hc]]; [lia|]. specialize (Hir _ _ Hc). lia.
    + intros p ip Hp. specialize (His _ _ Hp). lia.
  - specialize (Ht t eq_refl). cbn [bstep hstep bev_time restamp]. rewrite stopped_spec.
    assert (Hsub1 : forall p v, sm_get p (if ok then sm_set s t (stops b) else stops b) = Some v ->
                                sm_get p (if ok then sm_set s t (last_ok_stop hs) else last_ok_stop hs) = Some v).
    { intros p v. destruct ok; [|apply Hsub]. intros H. apply get_set_cases in H as [[-> ->]|[Hne H]].
      - apply sm_get_set_same.
      - rewrite sm_get_set_other by exact Hne. apply Hsub. exact H. }
    constructor; cbn [starts stops running last_ok_stop].
    + rewrite Hst. reflexivity.
    + apply stop_nodup. exact Hnd.
    + intros p v Hp. apply Hsub1. eapply stop_subset; [exact Hnd|exact Hp].
    + intros p tp ip c sc ic Hp Hip Hc Hic Hle. rewrite Hst.
      pose proof Hc as Hc0. apply get_remove_some in Hc as [Hcs Hc].
      apply get_remove_some in Hic as [_ Hic].
      assert (Hboth : sc <= tp /\ sm_get p (if ok then sm_set s t (stops b) else stops b) = Some tp).
      { destruct ok.
        - apply get_set_cases in Hp as [[-> ->]|[Hne Hp]].
          + split; [specialize (Hrl _ _ Hc); lia|apply sm_get_set_same].
          + rewrite sm_get_set_other in Hip by exact Hne. rewrite sm_get_set_other by exact Hne.
            eapply Hkeep; eassumption.
        - eapply Hkeep; eassumption. }
      destruct Hboth as [Hle' Hp1]. split; [exact Hle'|].
      eapply stop_kept with (c := c) (sc := sc); [exact Hnd|exact Hp1|exact Hc0|exact Hle'].
    + intros c. apply get_remove_none_iff. apply Hrp.
    + intros p. destruct ok; [apply get_set_none_iff|]; apply Hsp.
    + intros c sc Hc. apply get_remove_some in Hc as [_ Hc]. specialize (Hrl _ _ Hc). lia.
    + intros p tp Hp. destruct ok.
      * apply get_set_cases in Hp as [[-> ->]|[Hne Hp]]; [lia|]. specialize (Hsl _ _ Hp). lia.
      * specialize (Hsl _ _ Hp). lia.
    + intros c ic Hc. apply get_remove_some in Hc as [_ Hc]. specialize (Hir _ _ Hc). lia.
    + intros p ip Hp. destruct ok.
      * apply get_set_cases in Hp as [[-> ->]|[Hne Hp]]; [lia|]. specialize (His _ _ Hp). lia.
      * specialize (His _ _ Hp). lia.
  - cbn [bstep hstep bev_time restamp]. constructor; cbn [starts stops running last_ok_stop].
    + reflexivity.
    + constructor.
    + intros p v H. discriminate.
    + intros p tp ip c sc ic _ _ Hc. discriminate.
    + intros c. tauto.
    + exact Hsp.
    + intros c sc Hc. discriminate.
    + exact Hsl.
    + intros c ic Hc. discriminate.
    + intros p ip Hp. specialize (His _ _ Hp). lia.
Qed.

Lemma JInv_run evs : forall b hs ho n now,
  JInv b hs ho n now -> mono now evs = true ->
  exists n' now', JInv (fold_left bstep evs b) (fold_left hstep evs hs) (fold_left hstep (reindex n evs) ho) n' now'.
Proof.
  induction evs as [|e evs IH]; intros b hs ho n now HJ Hm; cbn [fold_left reindex].
  - exists n, now. exact HJ.
  - cbn [mono] in Hm. destruct (bev_time e) as [t|] eqn:Het.
    + apply andb_true_iff in Hm as [Hle Hm]. apply N.leb_le in Hle.
      eapply IH; [|exact Hm].
      pose proof (JInv_step b hs ho n now e HJ) as Hs. rewrite Het in Hs. apply Hs.
      intros t' Ht'. inversion Ht'; subst. exact Hle.
    + eapply IH; [|exact Hm].
      pose proof (JInv_step b hs ho n now e HJ) as Hs. rewrite Het in Hs. apply Hs.
      intros t' Ht'. discriminate.
Qed.

(* No missed overlap, even when clock readings repeat: if the consumer's current start precedes
   the producer's last successful stop in the order of events, ran_concurrently answers True.
   (With `<` instead of `<=` in ran_concurrently, or `<=` instead of `<` in the pruning, this fails
   for equal readings.) *)
Theorem pruning_no_missed_overlap evs p c :
  mono 0 evs = true -> ran_order evs p c = true -> ran_conc (brun evs) p c = true.
Proof.
  intros Hm Ho. destruct (JInv_run evs book0 hist0 hist0 1 0 JInv_init Hm) as [n [now HJ]].
  destruct HJ as [Hst Hnd Hsub Hkeep Hrp Hsp Hrl Hsl Hir His].
  unfold ran_order, ran_ref, hrun in Ho.
  destruct (sm_get c (running (fold_left hstep (reindex 1 evs) hist0))) as [ic|] eqn:Hic; [|discriminate].
  destruct (sm_get p (last_ok_stop (fold_left hstep (reindex 1 evs) hist0))) as [ip|] eqn:Hip; [|discriminate].
  apply N.leb_le in Ho.
  destruct (sm_get c (running (fold_left hstep evs hist0))) as [sc|] eqn:Hc.
  2:{ apply Hrp in Hc. rewrite Hc in Hic. discriminate. }
  destruct (sm_get p (last_ok_stop (fold_left hstep evs hist0))) as [tp|] eqn:Hp.
  2:{ apply Hsp in Hp. rewrite Hp in Hip. discriminate. }
  destruct (Hkeep _ _ _ _ _ _ Hp Hip Hc Hic Ho) as [Hle Hstop].
  rewrite ran_conc_spec. unfold brun. rewrite Hstop, Hst, Hc. apply N.leb_le. exact Hle.
Qed.

(* ... and an answer True is never invented: the entry used is the producer's last successful
   stop, the start is the consumer's current start, and the readings are ordered. *)
Theorem ran_conc_true_is_justified evs p c :
  mono 0 evs = true -> ran_conc (brun evs) p c = true -> ran_ref (hrun evs) p c = true.
Proof.
  intros Hm Hr. destruct (JInv_run evs book0 hist0 hist0 1 0 JInv_init Hm) as [n [now HJ]].
  destruct HJ as [Hst Hnd Hsub Hkeep Hrp Hsp Hrl Hsl Hir His].
  rewrite ran_conc_spec in Hr. unfold brun in Hr. unfold ran_ref, hrun.
  destruct (sm_get p (stops (fold_left bstep evs book0))) as [tp|] eqn:Hp; [|discriminate].
  rewrite Hst in Hr.
  destruct (sm_get c (running (fold_left hstep evs hist0))) as [sc|] eqn:Hc; [|discriminate].
  rewrite (Hsub _ _ Hp). exact Hr.
Qed.

(* ====================================================================================== *)
(* D. Decision functions generated from the code                                            *)
(* ====================================================================================== *)

Lemma classify_unexpected ru rf s h :
  classify_gen ru rf s h true = (false, false, false, false, false, true).
Proof. reflexivity. Qed.

Lemma classify_defer ru rf s h :
  ru || rf = true -> classify_gen ru rf s h false = (false, true, false, ru, rf, false).
Proof. intros H. unfold classify_gen. rewrite H. reflexivity. Qed.

Lemma classify_plain s h :
  classify_gen false false s h false = (s && h, false, s, false, false, false).
Proof. destruct s, h; reflexivity. Qed.

Lemma mark_completed_fail dc cp hud st :
  mark_completed_gen false false dc cp hud st = (SS_FAILED, false, false, dc, false, true, true, false).
Proof. reflexivity. Qed.

Lemma mark_completed_defer dc cp hud st :
  mark_completed_gen false true dc cp hud st =
  if dc + 1 <=? cp then (SS_PENDING, hud, false, dc + 1, false, false, true, false)
  else (SS_FAILED, false, true, dc + 1, false, true, true, false).
Proof. unfold mark_completed_gen. cbn [negb cmp_eval]. destruct (dc + 1 <=? cp); reflexivity. Qed.

Lemma mark_completed_ok wd dc cp hud st :
  mark_completed_gen true wd dc cp hud st = (SS_SUCCEEDED, false, false, dc, true, false, false, true).
Proof. reflexivity. Qed.

(* The unavailable-input predicate of dispatch, spelled out. *)
Lemma initial_available_iff st det :
  unavailable_input_gen st false det = false <->
  det = false /\ (st = FS_BUILT \/ st = FS_CONFIRMED).
Proof.
  unfold unavailable_input_gen, FS_BUILT, FS_CONFIRMED. cbn [negb andb].
  destruct (N.eqb_spec st 18) as [->|H18]; [cbn; split; [discriminate|intros [_ [H|H]]; discriminate]|].
  destruct det; cbn [orb andb negb].
  - rewrite ?andb_false_r, ?orb_false_l, ?orb_true_l. cbn. split; [discriminate|intros [H _]; discriminate].
  - destruct (N.eqb_spec st 16) as [->|H16]; [cbn; rewrite ?andb_false_r; cbn; tauto|].
    destruct (N.eqb_spec st 14) as [->|H14]; [cbn; rewrite ?andb_false_r; cbn; tauto|].
    cbn. rewrite ?andb_false_r, ?andb_false_l. cbn. split; [discriminate|intros [_ [H|H]]; contradiction].
Qed.

(* Under the dispatch guard the sanity branches of _derive_job cannot fire. *)
Lemma derive_no_error st det dyn :
  unavailable_input_gen st dyn det = false -> derive_job_input_gen st det dyn <> DJ_error.
Proof.
  unfold unavailable_input_gen, derive_job_input_gen.
  destruct (N.eqb_spec st 18) as [->|H18]; [cbn; discriminate|].
  destruct (N.eqb_spec st 16) as [->|H16]; [destruct det, dyn; cbn; congruence|].
  destruct (N.eqb_spec st 14) as [->|H14]; [destruct det, dyn; cbn; congruence|].
  destruct (N.eqb_spec st 15) as [->|H15]; [destruct det, dyn; cbn; congruence|].
  destruct (N.eqb_spec st 17) as [->|H17]; [destruct det, dyn; cbn; congruence|].
  destruct det, dyn; cbn; congruence.
Qed.

Lemma derive_hash_iff st det dyn :
  derive_job_input_gen st det dyn = DJ_hash <-> det = false /\ (st = FS_BUILT \/ st = FS_CONFIRMED).
Proof.
  unfold derive_job_input_gen, FS_BUILT, FS_CONFIRMED.
  destruct (N.eqb_spec st 18) as [->|H18]; [cbn; split; [discriminate|intros [_ [H|H]]; discriminate]|].
  destruct (N.eqb_spec st 16) as [->|H16]; [destruct det, dyn; cbn; split; try discriminate; try tauto; intros [H _]; discriminate|].
  destruct (N.eqb_spec st 14) as [->|H14]; [destruct det, dyn; cbn; split; try discriminate; try tauto; intros [H _]; discriminate|].
  cbn [orb andb]. rewrite andb_false_r.
  split.
  - destruct dyn; [destruct (negb det && ((st =? 15) || (st =? 17)))|]; discriminate.
  - intros [_ [H|H]]; contradiction.
Qed.

(* What one iteration of the amend loop decides, spelled out. *)
Lemma amend_input_spec det st pis rc ne :
  amend_input_gen det st pis rc ne =
  (det || negb ((st =? FS_UNCONFIRMED) || (st =? FS_BUILT) || (st =? FS_CONFIRMED)),
   negb det && (st =? FS_UNCONFIRMED),
   negb det && (st =? FS_BUILT) && pis && rc,
   ne).
Proof.
  unfold amend_input_gen, availability_gen, FS_UNCONFIRMED, FS_BUILT, FS_CONFIRMED.
  destruct det; [destruct ne; reflexivity|].
  destruct (N.eqb_spec st 12) as [->|H12]; [destruct ne; reflexivity|].
  destruct (N.eqb_spec st 16) as [->|H16]; [destruct pis, rc, ne; reflexivity|].
  destruct (N.eqb_spec st 14) as [->|H14]; [destruct ne; reflexivity|].
  cbn. destruct ne; reflexivity.
Qed.

(* ====================================================================================== *)
(* E. The consumer step                                                                     *)
(* ====================================================================================== *)

Lemma nonempty_true {A} (l : list A) : l <> [] -> nonempty l = true.
Proof. destruct l; [contradiction|reflexivity]. Qed.

(* changed_input_fails_and_drains (after the command): any difference between the recorded hash
   and the post-run hash of an input that is BUILT or CONFIRMED when the command ends gives
   new_hash = None (stop recorded as not succeeded), FAILED (not deferred) and draining. *)
Theorem changed_input_fails_and_drains w r t ok :
  c_run w = Some r -> changed_inputs w <> [] ->
  let w' := fst (do_end w t ok) in
  c_state w' = SS_FAILED /\ c_deferred w' = false /\ draining w' = true /\ c_run w' = None /\
  bk w' = bstep (bk w) (BStop (c_id w) t false).
Proof.
  intros Hrun Hch. unfold do_end, do_end_gen, do_end_core. rewrite Hrun. cbv zeta.
  rewrite (nonempty_true _ Hch). rewrite classify_unexpected. cbv iota beta.
  rewrite mark_completed_fail. cbn. rewrite orb_true_r. repeat split; reflexivity.
Qed.

Lemma snap_changed_disk w1 w2 s : disk w1 = disk w2 -> snap_changed w1 s = snap_changed w2 s.
Proof. intros H. unfold snap_changed. rewrite H. reflexivity. Qed.

(* ... and before the command (_new_run): the step never starts its command. *)
Theorem changed_input_before_start_fails_and_drains w t :
  dispatchable w = true -> derive_error w = false -> snap_changed w (snapshot w) = true ->
  let '(w', r) := do_try w t in
  r = RTry false /\ c_state w' = SS_FAILED /\ draining w' = true /\ c_run w' = None.
Proof.
  intros Hd He Hs. unfold do_try. rewrite Hd, He. cbn [negb]. cbv zeta.
  match goal with |- context [snap_changed ?x (snapshot w)] =>
    rewrite (snap_changed_disk x w (snapshot w) eq_refl) end.
  rewrite Hs. rewrite mark_completed_fail. cbn.
  unfold dispatchable in Hd. apply andb_true_iff in Hd as [_ Hr]. unfold is_running in Hr.
  destruct (c_run w) eqn:Hcr; [discriminate Hr|]. repeat split; reflexivity.
Qed.

Lemma defer_spec ru rf rs au af : defer_gen ru rf rs au af = (ru || au, rf || af, false).
Proof. reflexivity. Qed.

Lemma amend_tail_spec u f :
  amend_tail_gen u f = (negb u && negb f, u || f).
Proof. destruct u, f; reflexivity. Qed.

Lemma amend_one_run a f : c_run (a_w (amend_one a f)) = c_run (a_w a).
Proof.
  unfold amend_one.
  destruct (resolve_supply_gen _ _ _ _ _) as [[st det]|]; [|reflexivity].
  destruct (amend_input_gen _ _ _ _ _) as [[[unav unconf] unfr] dyn].
  destruct dyn; reflexivity.
Qed.

Lemma amend_fold_run ps : forall a, c_run (a_w (fold_left amend_one ps a)) = c_run (a_w a).
Proof.
  induction ps as [|f ps IH]; intros a; cbn [fold_left]; [reflexivity|].
  rewrite IH. apply amend_one_run.
Qed.

Lemma confirm_fold_run l : forall w u, c_run (fst (fold_left confirm_one l (w, u))) = c_run w.
Proof.
  induction l as [|f l IH]; intros w u; cbn [fold_left]; [reflexivity|].
  unfold confirm_one at 2. cbv zeta.
  match goal with |- context [fold_left confirm_one l (?w1, ?u1)] => rewrite (IH w1 u1) end.
  reflexivity.
Qed.

(* What an accepted amend request does to the run flags, and what it answers. *)
Lemma do_amend_flags w r ps w' unav unfr carry :
  c_run w = Some r -> do_amend w ps = (w', RAmend false unav unfr carry) ->
  exists r', c_run w' = Some r' /\
             r_unavail r' = r_unavail r || nonempty unav /\
             r_unfresh r' = r_unfresh r || nonempty unfr /\
             carry = negb (nonempty unav) && negb (nonempty unfr).
Proof.
  intros Hrun. unfold do_amend. rewrite Hrun.
  destruct (a_rej (fold_left amend_one ps (mkAcc w [] [] [] false))) eqn:Hrej; [intros H; inversion H|].
  destruct (fold_left confirm_one _ _) as [w1 u1] eqn:Hc.
  rewrite amend_tail_spec. cbv iota beta.
  intros H. inversion H; subst w' unav unfr carry. clear H.
  destruct (nonempty u1 || nonempty (a_unfr _)) eqn:Hd.
  - eexists. split; [reflexivity|]. cbn. repeat split; reflexivity.
  - apply orb_false_iff in Hd as [Hu Hf]. rewrite Hu, Hf. exists r. split; [reflexivity|].
    rewrite !orb_false_r. repeat split; reflexivity.
Qed.

Lemma do_amend_rejected w ps w' unav unfr carry :
  do_amend w ps = (w', RAmend true unav unfr carry) -> w' = w.
Proof.
  unfold do_amend. destruct (c_run w) as [r|]; [|intros H; inversion H].
  destruct (a_rej _).
  - intros H; inversion H; reflexivity.
  - destruct (fold_left confirm_one _ _) as [w1 u1]. rewrite amend_tail_spec. cbv iota beta.
    intros H; inversion H.
Qed.

(* flags of the running command: None when no command runs *)
Definition flags (w : world) : option (bool * bool) :=
  match c_run w with Some r => Some (r_unavail r, r_unfresh r) | None => None end.

Definition in_window (e : ev) : bool := match e with EEnd _ _ => false | _ => true end.

(* Inside a command window nothing ever clears a defer request. *)
Lemma window_step_flags w e ru rf :
  in_window e = true -> flags w = Some (ru, rf) ->
  exists ru' rf', flags (fst (step w e)) = Some (ru', rf') /\ (ru = true -> ru' = true) /\ (rf = true -> rf' = true).
Proof.
  intros Hw Hf. unfold flags in Hf. destruct (c_run w) as [r|] eqn:Hrun; [|discriminate].
  inversion Hf; subst ru rf. clear Hf.
  destruct e as [f v|f row|st df dc|b|dr|t|ps|t ok]; try discriminate Hw; cbn [step fst].
  1-5: (exists (r_unavail r), (r_unfresh r); unfold flags; cbn; rewrite Hrun; auto).
  - (* ETry while the command runs: not dispatchable *)
    unfold do_try, dispatchable, is_running. rewrite Hrun. rewrite !andb_false_r. cbn [negb fst].
    exists (r_unavail r), (r_unfresh r). unfold flags. rewrite Hrun. auto.
  - destruct (do_amend w ps) as [w' res] eqn:Ha. cbn [fst].
    destruct res as [|s|rej unav unfr carry|].
    + unfold do_amend in Ha. rewrite Hrun in Ha. destruct (a_rej _) in Ha; [inversion Ha|].
      destruct (fold_left confirm_one _ _) as [w1 u1]. rewrite amend_tail_spec in Ha. inversion Ha.
    + unfold do_amend in Ha. rewrite Hrun in Ha. destruct (a_rej _) in Ha; [inversion Ha|].
      destruct (fold_left confirm_one _ _) as [w1 u1]. rewrite amend_tail_spec in Ha. inversion Ha.
    + destruct rej.
      * apply do_amend_rejected in Ha. subst w'. exists (r_unavail r), (r_unfresh r). unfold flags. rewrite Hrun. auto.
      * destruct (do_amend_flags _ _ _ _ _ _ _ Hrun Ha) as [r' [Hr' [Hu [Hf _]]]].
        exists (r_unavail r'), (r_unfresh r'). unfold flags. rewrite Hr'. split; [reflexivity|].
        rewrite Hu, Hf. split; intros ->; reflexivity.
    + unfold do_amend in Ha. rewrite Hrun in Ha. destruct (a_rej _) in Ha; [inversion Ha|].
      destruct (fold_left confirm_one _ _) as [w1 u1]. rewrite amend_tail_spec in Ha. inversion Ha.
Qed.

Lemma window_run_flags evs : forall w ru rf,
  forallb in_window evs = true -> flags w = Some (ru, rf) ->
  exists ru' rf', flags (run evs w) = Some (ru', rf') /\ (ru = true -> ru' = true) /\ (rf = true -> rf' = true).
Proof.
  induction evs as [|e evs IH]; intros w ru rf Hw Hf.
  - exists ru, rf. cbn. auto.
  - cbn [forallb] in Hw. apply andb_true_iff in Hw as [He Hw].
    destruct (window_step_flags w e ru rf He Hf) as [ru1 [rf1 [Hf1 [Hu1 Hr1]]]].
    destruct (IH (fst (step w e)) ru1 rf1 Hw Hf1) as [ru2 [rf2 [Hf2 [Hu2 Hr2]]]].
    exists ru2, rf2. unfold run in *. cbn [fold_left]. split; [exact Hf2|]. split; auto.
Qed.

(* What the end of a command does when a defer was requested. *)
Lemma do_end_deferring w r t ok :
  c_run w = Some r -> r_unavail r || r_unfresh r = true ->
  let w' := fst (do_end w t ok) in
  c_state w' <> SS_SUCCEEDED /\
  (changed_inputs w = [] ->
     (c_dc w + 1 <= cap w -> c_state w' = SS_PENDING /\ c_dc w' = c_dc w + 1) /\
     (cap w < c_dc w + 1 -> c_state w' = SS_FAILED)) /\
  bk w' = bstep (bk w) (BStop (c_id w) t false).
Proof.
  intros Hrun Hd. destruct (changed_inputs w) as [|x l] eqn:Hch.
  - assert (Hd' : r_unavail r || (r_unfresh r || (exec_flags_inputs_not_final && flagged w r)) = true).
    { apply orb_true_iff in Hd as [H|H]; rewrite H; rewrite ?orb_true_r; reflexivity. }
    unfold do_end, do_end_gen, do_end_core. rewrite Hrun. cbv zeta. rewrite Hch. cbn [nonempty negb].
    rewrite (classify_defer _ _ _ _ Hd'). cbv iota beta. rewrite mark_completed_defer.
    destruct (N.leb_spec (c_dc w + 1) (cap w)) as [Hle|Hgt]; cbn.
    + split; [discriminate|]. split; [|reflexivity]. intros _. split; [intros _; split; reflexivity|lia].
    + split; [discriminate|]. split; [|reflexivity]. intros _. split; [lia|reflexivity].
  - assert (Hne : changed_inputs w <> []) by (rewrite Hch; discriminate).
    destruct (changed_input_fails_and_drains w r t ok Hrun Hne) as [Hs [_ [_ [_ Hb]]]].
    cbv zeta in *. rewrite Hs. split; [discriminate|]. split; [intros H; discriminate H|exact Hb].
Qed.

(* amended_input_rule: if, anywhere inside the command window, an accepted amend request finds an
   input unavailable (detached, not BUILT/CONFIRMED, or unconfirmed and then missing) or unfresh
   (BUILT by a step that ran_concurrently), the director answers carry_on = False and the step
   cannot end SUCCEEDED: it ends PENDING (to run again) while the defer cap allows it, else FAILED. *)
Theorem amended_input_rule w r pre ps post unav unfr carry t ok :
  c_run w = Some r ->
  forallb in_window pre = true -> forallb in_window post = true ->
  snd (step (run pre w) (EAmend ps)) = RAmend false unav unfr carry ->
  unav <> [] \/ unfr <> [] ->
  let w2 := run (pre ++ EAmend ps :: post) w in
  let w3 := fst (step w2 (EEnd t ok)) in
  carry = false /\ c_state w3 <> SS_SUCCEEDED /\
  (changed_inputs w2 = [] -> c_dc w2 + 1 <= cap w2 -> c_state w3 = SS_PENDING) /\
  (changed_inputs w2 = [] -> cap w2 < c_dc w2 + 1 -> c_state w3 = SS_FAILED) /\
  (changed_inputs w2 <> [] -> c_state w3 = SS_FAILED /\ draining w3 = true).
Proof.
  intros Hrun Hpre Hpost Hres Hne. cbv zeta.
  assert (Hf0 : flags w = Some (r_unavail r, r_unfresh r)) by (unfold flags; rewrite Hrun; reflexivity).
  destruct (window_run_flags pre w _ _ Hpre Hf0) as [ru1 [rf1 [Hf1 _]]].
  set (w1 := run pre w) in *.
  unfold flags in Hf1. destruct (c_run w1) as [r1|] eqn:Hrun1; [|discriminate].
  cbn [step] in Hres. destruct (do_amend w1 ps) as [wa res] eqn:Ha. cbn [snd] in Hres. subst res.
  destruct (do_amend_flags _ _ _ _ _ _ _ Hrun1 Ha) as [ra [Hra [Hu [Hf Hcarry]]]].
  assert (Hflag : r_unavail ra || r_unfresh ra = true).
  { rewrite Hu, Hf. destruct Hne as [H|H]; rewrite (nonempty_true _ H); rewrite ?orb_true_r; reflexivity. }
  assert (Hcf : carry = false).
  { rewrite Hcarry. destruct Hne as [H|H]; rewrite (nonempty_true _ H); cbn; rewrite ?andb_false_r; reflexivity. }
  assert (Hfa : flags wa = Some (r_unavail ra, r_unfresh ra)) by (unfold flags; rewrite Hra; reflexivity).
  destruct (window_run_flags post wa _ _ Hpost Hfa) as [ru2 [rf2 [Hf2 [Hu2 Hr2]]]].
  assert (Hw2 : run (pre ++ EAmend ps :: post) w = run post wa).
  { unfold run. rewrite fold_left_app. cbn [fold_left]. fold (run pre w). fold w1. cbn [step]. rewrite Ha. reflexivity. }
  rewrite Hw2. set (w2 := run post wa) in *.
  unfold flags in Hf2. destruct (c_run w2) as [r2|] eqn:Hrun2; [|discriminate].
  inversion Hf2; subst ru2 rf2.
  assert (Hflag2 : r_unavail r2 || r_unfresh r2 = true).
  { apply orb_true_iff in Hflag as [H|H]; [rewrite (Hu2 H)|rewrite (Hr2 H), orb_true_r]; reflexivity. }
  cbn [step].
  destruct (do_end_deferring w2 r2 t ok Hrun2 Hflag2) as [Hns [Hcase _]]. cbv zeta in *.
  split; [exact Hcf|]. split; [exact Hns|].
  split; [intros Hch Hle; apply (proj1 (Hcase Hch)); exact Hle|].
  split; [intros Hch Hgt; apply (proj2 (Hcase Hch)); exact Hgt|].
  intros Hch. destruct (changed_input_fails_and_drains w2 r2 t ok Hrun2 Hch) as [Hs [_ [Hd _]]].
  split; assumption.
Qed.

(* ---- dispatch ---- *)

Lemma existsb_false_forall {A} (f : A -> bool) l : existsb f l = false -> forall x, In x l -> f x = false.
Proof.
  induction l as [|a l IH]; cbn; intros H x Hin; [contradiction|].
  apply orb_false_iff in H as [Ha Hl]. destruct Hin as [->|Hin]; [exact Ha|apply IH; assumption].
Qed.

Lemma ready_inputs w :
  ready w = true ->
  (forall f, In f (c_init w) -> input_unavailable w false f = false) /\
  (forall f, In f (c_dyn w) -> input_unavailable w true f = false).
Proof.
  unfold ready. intros H. apply negb_true_iff in H. apply orb_false_iff in H as [H1 H2].
  split; apply existsb_false_forall; assumption.
Qed.

(* The sanity branches of _derive_job are unreachable under the dispatch guard. *)
Theorem derive_job_sanity_unreachable w : ready w = true -> derive_error w = false.
Proof.
  intros Hr. destruct (ready_inputs w Hr) as [Hi Hd]. unfold derive_error.
  apply orb_false_iff. split.
  - destruct (existsb _ (c_init w)) eqn:He; [|reflexivity].
    apply existsb_exists in He as [f [Hin Hf]]. specialize (Hi f Hin).
    unfold input_unavailable in Hi. unfold derive_input in Hf.
    pose proof (derive_no_error _ _ _ Hi) as Hn. destruct (derive_job_input_gen _ _ _); try discriminate. contradiction.
  - destruct (existsb _ (c_dyn w)) eqn:He; [|reflexivity].
    apply existsb_exists in He as [f [Hin Hf]]. specialize (Hd f Hin).
    unfold input_unavailable in Hd. unfold derive_input in Hf.
    pose proof (derive_no_error _ _ _ Hd) as Hn. destruct (derive_job_input_gen _ _ _); try discriminate. contradiction.
Qed.

Lemma snap_unchanged_all w snap :
  snap_changed w snap = false -> forall f h, In (f, h) snap -> disk w f = h.
Proof.
  unfold snap_changed. intros H f h Hin.
  pose proof (existsb_false_forall _ _ H (f, h) Hin) as Hx. cbn in Hx.
  apply negb_false_iff in Hx. apply N.eqb_eq in Hx. exact Hx.
Qed.

(* not_started_before_inputs_available: whenever the command of c is started (dispatch to RUNNING
   followed by the pre-run hash check), the scheduler was not draining, c was PENDING and not
   deferred, every declared (initial) input was attached and BUILT or CONFIRMED, the file on disk
   had exactly the hash recorded for it (content, mode, size) and that pair is in the snapshot the
   command starts from; the amended inputs of earlier attempts have been dropped. *)
Theorem not_started_before_inputs_available w t w' :
  do_try w t = (w', RTry true) ->
  draining w = false /\ c_state w = SS_PENDING /\ c_deferred w = false /\
  (forall f, In f (c_init w) ->
     f_detached (files w f) = false /\
     (f_state (files w f) = FS_BUILT \/ f_state (files w f) = FS_CONFIRMED) /\
     disk w f = f_hash (files w f)) /\
  c_state w' = SS_RUNNING /\ c_dyn w' = [] /\ c_error w' = c_error w /\
  exists r, c_run w' = Some r /\ r_unavail r = false /\ r_unfresh r = false /\ r_snap r = snapshot w /\
            forall f, In f (c_init w) -> In (f, f_hash (files w f)) (r_snap r).
Proof.
  unfold do_try. destruct (dispatchable w) eqn:Hd; cbn [negb]; [|intros H; inversion H].
  destruct (derive_error w) eqn:He; [intros H; inversion H|]. cbv zeta.
  match goal with |- context [snap_changed ?x (snapshot w)] =>
    rewrite (snap_changed_disk x w (snapshot w) eq_refl) end.
  destruct (snap_changed w (snapshot w)) eqn:Hs.
  { rewrite mark_completed_fail. intros H; inversion H. }
  intros H. inversion H; subst w'. clear H.
  unfold dispatchable in Hd.
  apply andb_true_iff in Hd as [Hd Hnr]. apply andb_true_iff in Hd as [Hd Hrdy].
  apply andb_true_iff in Hd as [Hd Hndf]. apply andb_true_iff in Hd as [Hdr Hst].
  apply negb_true_iff in Hdr. apply negb_true_iff in Hndf. apply N.eqb_eq in Hst.
  destruct (ready_inputs w Hrdy) as [Hi _].
  assert (Hin_snap : forall f, In f (c_init w) -> In (f, f_hash (files w f)) (snapshot w)).
  { intros f Hin. unfold snapshot. apply in_map_iff. exists f. split; [reflexivity|].
    apply in_or_app. left. apply filter_In. split; [exact Hin|].
    specialize (Hi f Hin). unfold input_unavailable in Hi. apply initial_available_iff in Hi.
    unfold derive_input.
    rewrite (proj2 (derive_hash_iff (f_state (files w f)) (f_detached (files w f)) false) Hi).
    reflexivity. }
  split; [exact Hdr|]. split; [exact Hst|]. split; [exact Hndf|]. split.
  { intros f Hin. specialize (Hi f Hin) as Hif. unfold input_unavailable in Hif.
    apply initial_available_iff in Hif as [Hdet Hstate].
    split; [exact Hdet|]. split; [exact Hstate|].
    apply (snap_unchanged_all w (snapshot w) Hs). apply Hin_snap. exact Hin. }
  cbn. split; [reflexivity|]. split; [reflexivity|]. split; [reflexivity|].
  eexists. split; [reflexivity|]. cbn. repeat split; try reflexivity. exact Hin_snap.
Qed.

(* ====================================================================================== *)
(* F. A step that ends SUCCEEDED: what is known about its inputs                           *)
(* ====================================================================================== *)

Definition prefix_of {A} (l1 l : list A) : Prop := exists l2, l = l1 ++ l2.

(* The recorded hash of f does not change inside the window. *)
Definition db_stable (w1 : world) (mid : list ev) (f : N) : Prop :=
  f_hash (files (run mid w1) f) = f_hash (files w1 f).

(* End-point hashing cannot see a content that is changed and restored exactly (content, size and
   mode) inside one window: if the file is the same at both ends, it was the same throughout. *)
Definition no_aba (w1 : world) (mid : list ev) (f : N) : Prop :=
  disk (run mid w1) f = disk w1 f -> forall m1, prefix_of m1 mid -> disk (run m1 w1) f = disk w1 f.

Lemma filter_nil_forall {A} (p : A -> bool) l : filter p l = [] -> forall x, In x l -> p x = false.
Proof.
  induction l as [|a l IH]; cbn; intros H x Hin; [contradiction|].
  destruct (p a) eqn:Hp; [discriminate|]. destruct Hin as [->|Hin]; [exact Hp|apply IH; assumption].
Qed.

Lemma do_end_succeeded w r t ok :
  c_run w = Some r -> c_state (fst (do_end w t ok)) = SS_SUCCEEDED ->
  changed_inputs w = [] /\ r_unavail r = false /\ r_unfresh r = false /\ r_success r = true /\ ok = true /\
  files (fst (do_end w t ok)) = files w /\ disk (fst (do_end w t ok)) = disk w /\
  bk (fst (do_end w t ok)) = bstep (bk w) (BStop (c_id w) t true) /\
  flagged w r = false.
Proof.
  intros Hrun Hs.
  destruct (changed_inputs w) as [|x l] eqn:Hch.
  2:{ assert (Hne : changed_inputs w <> []) by (rewrite Hch; discriminate).
      destruct (changed_input_fails_and_drains w r t ok Hrun Hne) as [Hf _]. cbv zeta in Hf.
      rewrite Hf in Hs. discriminate. }
  destruct (r_unavail r || r_unfresh r) eqn:Hfl.
  { destruct (do_end_deferring w r t ok Hrun Hfl) as [Hns _]. cbv zeta in Hns. contradiction. }
  apply orb_false_iff in Hfl as [Hu Hf].
  destruct (flagged w r) eqn:Hfg.
  { exfalso. revert Hs. unfold do_end, do_end_gen, do_end_core. rewrite Hrun. cbv zeta. rewrite Hch, Hu, Hf, Hfg.
    unfold exec_flags_inputs_not_final. cbn [nonempty negb andb orb].
    rewrite (classify_defer false true _ _ eq_refl). cbv iota beta. rewrite mark_completed_defer.
    destruct (c_dc w + 1 <=? cap w); cbn; discriminate. }
  revert Hs. unfold do_end, do_end_gen, do_end_core. rewrite Hrun. cbv zeta. rewrite Hch, Hu, Hf, Hfg.
  unfold exec_flags_inputs_not_final. cbn [nonempty negb andb orb].
  rewrite classify_plain. cbv iota beta.
  destruct (r_success r), ok; cbn [andb]; try (rewrite mark_completed_fail; cbn; discriminate).
  rewrite mark_completed_ok. cbn. intros _. repeat split; reflexivity.
Qed.

Lemma do_try_started w t :
  snd (do_try w t) = RTry true ->
  disk (fst (do_try w t)) = disk w /\ files (fst (do_try w t)) = files w /\ c_init (fst (do_try w t)) = c_init w.
Proof.
  unfold do_try. destruct (dispatchable w); cbn [negb]; [|discriminate].
  destruct (derive_error w); [discriminate|]. cbv zeta.
  match goal with |- context [snap_changed ?x (snapshot w)] =>
    rewrite (snap_changed_disk x w (snapshot w) eq_refl) end.
  destruct (snap_changed w (snapshot w)).
  - rewrite mark_completed_fail. cbn. discriminate.
  - cbn. intros _. repeat split; reflexivity.
Qed.

Lemma prefix_refl {A} (l : list A) : prefix_of l l.
Proof. exists []. rewrite app_nil_r. reflexivity. Qed.

(* the snapshot the running command started from *)
Definition snapof (w : world) : option (list (N * N)) :=
  match c_run w with Some r => Some (r_snap r) | None => None end.

Lemma do_amend_snap w r ps : c_run w = Some r -> snapof (fst (do_amend w ps)) = Some (r_snap r).
Proof.
  intros Hrun. unfold do_amend. rewrite Hrun.
  destruct (a_rej _); [cbn [fst]; unfold snapof; rewrite Hrun; reflexivity|].
  destruct (fold_left confirm_one _ _) as [w1 u1]. rewrite amend_tail_spec. cbv iota beta. cbn [fst].
  unfold snapof. cbn [set_run c_run].
  destruct (nonempty u1 || nonempty _); reflexivity.
Qed.

Lemma window_step_snap w e sn :
  in_window e = true -> snapof w = Some sn -> snapof (fst (step w e)) = Some sn.
Proof.
  intros Hw Hs. unfold snapof in Hs. destruct (c_run w) as [r|] eqn:Hrun; [|discriminate].
  inversion Hs; subst sn. clear Hs.
  destruct e as [f v|f row|st df dc|b|dr|t|ps|t ok]; try discriminate Hw; cbn [step fst].
  1-5: (unfold snapof; cbn; rewrite Hrun; reflexivity).
  - unfold do_try, dispatchable, is_running. rewrite Hrun. rewrite !andb_false_r. cbn [negb fst].
    unfold snapof. rewrite Hrun. reflexivity.
  - apply do_amend_snap. exact Hrun.
Qed.

Lemma window_run_snap evs : forall w sn,
  forallb in_window evs = true -> snapof w = Some sn -> snapof (run evs w) = Some sn.
Proof.
  induction evs as [|e evs IH]; intros w sn Hw Hs; [exact Hs|].
  cbn [forallb] in Hw. apply andb_true_iff in Hw as [He Hw].
  unfold run. cbn [fold_left]. apply IH; [exact Hw|]. apply window_step_snap; assumption.
Qed.

Lemma sm_get_map_fn (g : N -> N) l f : In f l -> sm_get f (map (fun x => (x, g x)) l) = Some (g f).
Proof.
  induction l as [|a l IH]; intros Hin; [contradiction|]. cbn [map sm_get].
  destruct (N.eqb_spec a f) as [->|Hne]; [reflexivity|].
  destruct Hin as [->|Hin]; [contradiction|apply IH; exact Hin].
Qed.

Lemma flag_input_in_snap st same pis rc :
  posthash_considers_gen st = true -> flag_input_gen st true same pis rc = false -> same = true.
Proof.
  unfold posthash_considers_gen, flag_input_gen. intros Hc. rewrite Hc. cbn [negb].
  destruct same; [reflexivity|discriminate].
Qed.

Lemma flag_input_amended st pis rc :
  st = FS_BUILT -> flag_input_gen st false true pis rc = false -> pis && rc = false.
Proof. intros ->. unfold flag_input_gen. cbn. destruct (pis && rc); [discriminate|reflexivity]. Qed.

Lemma considered_attached w f : In f (considered w) ->
  In f (attached_inputs w) /\ posthash_considers_gen (f_state (files w f)) = true.
Proof.
  unfold considered, attached_inputs. intros H. apply filter_In in H as [Hin Hp].
  apply andb_true_iff in Hp as [Hd Hc]. split; [apply filter_In; split; assumption|exact Hc].
Qed.

(* succeeded_inputs_final_partial.  Let the command of c start (dispatch + pre-run check) in world
   w0 and end SUCCEEDED after the window `mid` (arbitrary events of any actor).  Then
   (A) every input that is attached and BUILT or CONFIRMED when the command ends (declared or
       amended) is on disk with exactly the hash recorded for it, and completion leaves the rows
       untouched;
   (B) every declared input was attached, BUILT or CONFIRMED and on disk with its recorded hash
       when the command started;
   (C) no accepted amend request in the window reported an unavailable or unfresh input
       (all answered carry_on = True);
   (D) for every declared input that counts at the end, the hash recorded at the end is the hash
       the command started from (enforced by _flag_inputs_not_final since a02f82b; formerly the
       hypothesis db_stable), so the file has the same content at both ends of the window, and
       under no_aba the content on disk equals the recorded hash at EVERY moment of the window;
   (E) every amended input (not in the start snapshot) that counts at the end and is BUILT by a
       step p has ran_concurrently(p, c) = False when the command returns. *)
Theorem succeeded_inputs_final_partial w0 t mid t' ok :
  snd (do_try w0 t) = RTry true ->
  forallb in_window mid = true ->
  let w1 := fst (do_try w0 t) in
  let w2 := run mid w1 in
  let w3 := fst (step w2 (EEnd t' ok)) in
  c_state w3 = SS_SUCCEEDED ->
  (forall f, In f (considered w2) -> disk w2 f = f_hash (files w2 f) /\ files w3 f = files w2 f) /\
  (forall f, In f (c_init w0) ->
     f_detached (files w0 f) = false /\
     (f_state (files w0 f) = FS_BUILT \/ f_state (files w0 f) = FS_CONFIRMED) /\
     disk w1 f = f_hash (files w0 f)) /\
  (forall pre ps post unav unfr carry,
     mid = pre ++ EAmend ps :: post ->
     snd (step (run pre w1) (EAmend ps)) = RAmend false unav unfr carry ->
     unav = [] /\ unfr = [] /\ carry = true) /\
  (forall f, In f (c_init w0) -> In f (considered w2) ->
     f_hash (files w3 f) = f_hash (files w0 f) /\ disk w2 f = disk w1 f /\
     (no_aba w1 mid f -> forall m1, prefix_of m1 mid -> disk (run m1 w1) f = f_hash (files w3 f))) /\
  (forall f p, In f (considered w2) -> sm_get f (snapshot w0) = None ->
     f_state (files w2 f) = FS_BUILT -> f_producer (files w2 f) = Some p ->
     ran_conc (bk w2) p (c_id w2) = false).
Proof.
  intros Htry Hwin. cbv zeta. intros Hs.
  destruct (do_try w0 t) as [w1 res] eqn:Hdt. cbn [fst snd] in *. subst res.
  destruct (not_started_before_inputs_available w0 t w1 Hdt)
    as [_ [_ [_ [Hinit [_ [_ [_ [r [Hrun [Hru [Hrf [Hsnap _]]]]]]]]]]]].
  pose proof (do_try_started w0 t) as Hst. rewrite Hdt in Hst. cbn [fst snd] in Hst.
  destruct (Hst eq_refl) as [Hdisk1 [Hfiles1 Hinit1]].
  assert (Hf1 : flags w1 = Some (r_unavail r, r_unfresh r)) by (unfold flags; rewrite Hrun; reflexivity).
  destruct (window_run_flags mid w1 _ _ Hwin Hf1) as [ru2 [rf2 [Hf2 _]]].
  unfold flags in Hf2. destruct (c_run (run mid w1)) as [r2|] eqn:Hrun2; [|discriminate].
  assert (Hsn2 : r_snap r2 = snapshot w0).
  { assert (H1 : snapof w1 = Some (snapshot w0)) by (unfold snapof; rewrite Hrun, Hsnap; reflexivity).
    pose proof (window_run_snap mid w1 _ Hwin H1) as H2. unfold snapof in H2. rewrite Hrun2 in H2.
    inversion H2. reflexivity. }
  cbn [step] in Hs.
  destruct (do_end_succeeded _ r2 t' ok Hrun2 Hs) as [Hch [_ [_ [_ [_ [Hfiles3 [Hdisk3 [_ Hflag]]]]]]]].
  assert (HA : forall f, In f (considered (run mid w1)) ->
               disk (run mid w1) f = f_hash (files (run mid w1) f)).
  { intros f Hin. pose proof (filter_nil_forall _ _ Hch f Hin) as Hx. cbn in Hx.
    apply negb_false_iff in Hx. apply N.eqb_eq in Hx. exact Hx. }
  assert (HF : forall f, In f (considered (run mid w1)) -> flagged_input (run mid w1) r2 f = false).
  { intros f Hin. destruct (considered_attached _ _ Hin) as [Hat _].
    unfold flagged in Hflag. exact (existsb_false_forall _ _ Hflag f Hat). }
  split; [intros f Hin; split; [apply HA; exact Hin|cbn [step]; rewrite Hfiles3; reflexivity]|].
  split.
  { intros f Hin. destruct (Hinit f Hin) as [Hd [Hstate Hdk]]. split; [exact Hd|]. split; [exact Hstate|].
    rewrite Hdisk1. exact Hdk. }
  split.
  { intros pre ps post unav unfr carry Hmid Hres.
    assert (Hpp : forallb in_window pre = true /\ forallb in_window post = true).
    { rewrite Hmid in Hwin. rewrite forallb_app in Hwin. apply andb_true_iff in Hwin as [H1 H2].
      cbn [forallb] in H2. apply andb_true_iff in H2 as [_ H2]. split; assumption. }
    destruct Hpp as [Hpre Hpost].
    assert (Hnil : unav = [] /\ unfr = []).
    { destruct unav as [|u unav'].
      - destruct unfr as [|v unfr']; [split; reflexivity|]. exfalso.
        assert (Hne : (@nil N) <> [] \/ v :: unfr' <> []) by (right; discriminate).
        pose proof (amended_input_rule w1 r pre ps post [] (v :: unfr') carry t' ok Hrun Hpre Hpost Hres Hne) as Hrule.
        cbv zeta in Hrule. destruct Hrule as [_ [Hns _]]. rewrite <- Hmid in Hns. apply Hns. exact Hs.
      - exfalso.
        assert (Hne : u :: unav' <> [] \/ unfr <> []) by (left; discriminate).
        pose proof (amended_input_rule w1 r pre ps post (u :: unav') unfr carry t' ok Hrun Hpre Hpost Hres Hne) as Hrule.
        cbv zeta in Hrule. destruct Hrule as [_ [Hns _]]. rewrite <- Hmid in Hns. apply Hns. exact Hs. }
    destruct Hnil as [-> ->]. split; [reflexivity|]. split; [reflexivity|].
    destruct (window_run_flags pre w1 _ _ Hpre Hf1) as [ru1 [rf1 [Hfl1 _]]].
    unfold flags in Hfl1. destruct (c_run (run pre w1)) as [rp|] eqn:Hrp; [|discriminate].
    cbn [step] in Hres. destruct (do_amend (run pre w1) ps) as [wa res] eqn:Ha. cbn [snd] in Hres. subst res.
    destruct (do_amend_flags _ _ _ _ _ _ _ Hrp Ha) as [_ [_ [_ [_ Hc]]]]. exact Hc. }
  split.
  { intros f Hin Hcons.
    destruct (Hinit f Hin) as [Hdet [Hstate Hdk]].
    assert (Hget : sm_get f (r_snap r2) = Some (f_hash (files w0 f))).
    { rewrite Hsn2. unfold snapshot. apply sm_get_map_fn. apply in_or_app. left. apply filter_In.
      split; [exact Hin|]. unfold derive_input.
      rewrite (proj2 (derive_hash_iff _ _ false) (conj Hdet Hstate)). reflexivity. }
    destruct (considered_attached _ _ Hcons) as [_ Hpc].
    pose proof (HF f Hcons) as Hfi. unfold flagged_input in Hfi. rewrite Hget in Hfi.
    apply (flag_input_in_snap _ _ _ _ Hpc) in Hfi. apply N.eqb_eq in Hfi.
    assert (Hends : disk (run mid w1) f = disk w1 f).
    { rewrite (HA f Hcons), <- Hfi, Hdisk1. symmetry. exact Hdk. }
    cbn [step]. rewrite Hfiles3. split; [symmetry; exact Hfi|]. split; [exact Hends|].
    intros Hna m1 Hpre. rewrite (Hna Hends m1 Hpre). rewrite <- Hends. apply HA. exact Hcons. }
  intros f p Hcons Hnone Hbuilt Hprod.
  pose proof (HF f Hcons) as Hfi. unfold flagged_input in Hfi. rewrite Hsn2, Hnone, Hprod in Hfi.
  apply (flag_input_amended _ _ _ Hbuilt) in Hfi. cbn [andb] in Hfi. exact Hfi.
Qed.

(* The full statement of the last clause: a step that ends SUCCEEDED had, at every moment of its
   command, every considered input on disk with the hash recorded at the end. *)
Definition inputs_final_full : Prop :=
  forall w0 t mid t' ok,
    snd (do_try w0 t) = RTry true -> forallb in_window mid = true ->
    let w1 := fst (do_try w0 t) in
    let w2 := run mid w1 in
    let w3 := fst (step w2 (EEnd t' ok)) in
    c_state w3 = SS_SUCCEEDED ->
    forall f, In f (considered w2) ->
      forall m1, prefix_of m1 mid -> disk (run m1 w1) f = f_hash (files w3 f).

Definition wit_world (st h : N) (prod : option N) : world :=
  set_disk (set_files (world0 5 [1] 2 false) (upd (fun _ => frow0) 1 (mkF true st h false true prod false)))
           (upd (fun _ => 0) 1 h).

(* Refutation 1: A-B-A.  The static input 1 (hash 3) is overwritten (9) and restored (3) during
   the command.  The recorded hash never changes (db_stable holds); only no_aba fails.  Inherent to
   end-point hashing: stated as an assumption, not a defect. *)
Lemma inputs_final_full_refuted_by_aba :
  exists w0 t mid t' ok f m1,
    snd (do_try w0 t) = RTry true /\ forallb in_window mid = true /\
    c_state (fst (step (run mid (fst (do_try w0 t))) (EEnd t' ok))) = SS_SUCCEEDED /\
    In f (considered (run mid (fst (do_try w0 t)))) /\ prefix_of m1 mid /\
    db_stable (fst (do_try w0 t)) mid f /\
    disk (run m1 (fst (do_try w0 t))) f <> f_hash (files (fst (step (run mid (fst (do_try w0 t))) (EEnd t' ok))) f).
Proof.
  exists (wit_world FS_CONFIRMED 3 None), 1, [EWrite 1 9; EWrite 1 3], 2, true, 1, [EWrite 1 9].
  split; [vm_compute; reflexivity|]. split; [reflexivity|]. split; [vm_compute; reflexivity|].
  split; [vm_compute; left; reflexivity|]. split; [exists [EWrite 1 3]; reflexivity|].
  split; [vm_compute; reflexivity|]. vm_compute. discriminate.
Qed.

(* Regression witness: the producer 8 of the declared input 1 is executed again while the command
   of c runs (its outputs go OUTDATED, it rewrites the file: 4 -> 7, completes, the row is BUILT with
   the new hash).  Nothing is restored: the file plainly differs between the two ends of the window.
   The code BEFORE fix a02f82b (do_end_gen false: no _flag_inputs_not_final) ends SUCCEEDED, because
   the post-run check compares the disk with the hash that is in the database at the end (finding
   D19 / C03-rerun).  The current code (do_end) reports the input unfresh and ends PENDING, to run
   again.  Replayed on the implementation by harness/p_c03.py (WITNESS_RERUN), harness/c03_sys.py
   (real serve()) and harness/c03_e3.py. *)
Definition rerun_mid : list ev :=
  [EBk (BStart 8 2); ERow 1 (mkF true FS_OUTDATED 4 false true (Some 8) false); EWrite 1 7;
   ERow 1 (mkF true FS_BUILT 7 false true (Some 8) false); EBk (BStop 8 3 true)].

Lemma prefix_variant_refuted_by_producer_rerun :
  let w0 := wit_world FS_BUILT 4 (Some 8) in
  let w1 := fst (do_try w0 1) in
  let w2 := run rerun_mid w1 in
  snd (do_try w0 1) = RTry true /\ forallb in_window rerun_mid = true /\
  In 1 (c_init w0) /\ In 1 (considered w2) /\ disk w2 1 <> disk w1 1 /\
  (* before the fix: SUCCEEDED on a content the command did not start from *)
  c_state (fst (do_end_gen false w2 4 true)) = SS_SUCCEEDED /\
  disk w1 1 <> f_hash (files (fst (do_end_gen false w2 4 true)) 1) /\
  (* now: not SUCCEEDED, PENDING and dispatchable again *)
  c_state (fst (do_end w2 4 true)) = SS_PENDING /\ c_deferred (fst (do_end w2 4 true)) = false.
Proof. vm_compute. repeat split; try reflexivity; try discriminate; left; reflexivity. Qed.

Theorem inputs_final_full_refuted : ~ inputs_final_full.
Proof.
  intros H.
  destruct inputs_final_full_refuted_by_aba as [w0 [t [mid [t' [ok [f [m1 [H1 [H2 [H3 [H4 [H5 [_ H7]]]]]]]]]]]]].
  apply H7. exact (H w0 t mid t' ok H1 H2 H3 f H4 m1 H5).
Qed.

(* What a "not unfresh" verdict means: with clock readings that never decrease, if
   ran_concurrently(p, c) is False then, in the order of events, c's current start does not
   precede p's last successful stop. *)
Corollary fresh_verdict_sound evs p c :
  mono 0 evs = true -> ran_conc (brun evs) p c = false -> ran_order evs p c = false.
Proof.
  intros Hm Hr. destruct (ran_order evs p c) eqn:Ho; [|reflexivity].
  rewrite (pruning_no_missed_overlap evs p c Hm Ho) in Hr. discriminate.
Qed.

(* ====================================================================================== *)
(* G. The stamp maps of a reachable world are the pruned image of one history               *)
(* ====================================================================================== *)

Fixpoint last_time (t0 : N) (bl : list bev) : N :=
  match bl with
  | [] => t0
  | e :: r => match bev_time e with Some t => last_time t r | None => last_time t0 r end
  end.

Lemma mono_app_one bl : forall t0 e,
  mono t0 (bl ++ [e]) = mono t0 bl && match bev_time e with Some t => last_time t0 bl <=? t | None => true end.
Proof.
  induction bl as [|b bl IH]; intros t0 e; cbn [app mono last_time].
  - destruct (bev_time e); [rewrite andb_true_r|]; reflexivity.
  - destruct (bev_time b) as [tb|]; rewrite IH; [rewrite andb_assoc|]; reflexivity.
Qed.

Lemma last_time_app_one bl : forall t0 e,
  last_time t0 (bl ++ [e]) = match bev_time e with Some t => t | None => last_time t0 bl end.
Proof.
  induction bl as [|b bl IH]; intros t0 e; cbn [app last_time].
  - destruct (bev_time e); reflexivity.
  - destruct (bev_time b); apply IH.
Qed.

Lemma brun_app_one bl e : brun (bl ++ [e]) = bstep (brun bl) e.
Proof. unfold brun. rewrite fold_left_app. reflexivity. Qed.
Lemma hrun_app_one bl e : hrun (bl ++ [e]) = hstep (hrun bl) e.
Proof. unfold hrun. rewrite fold_left_app. reflexivity. Qed.

(* the world's maps come from the history bl, whose readings never decrease and end at <= now *)
Definition book_hist (w : world) (now : N) : Prop :=
  exists bl, bk w = brun bl /\ hs w = hrun bl /\ mono 0 bl = true /\ last_time 0 bl <= now.

Lemma book_hist_set_book w now e t :
  book_hist w now -> bev_time e = Some t -> now <= t -> book_hist (set_book w e) t.
Proof.
  intros [bl [Hb [Hh [Hm Hl]]]] Het Hle. exists (bl ++ [e]). cbn [set_book bk hs].
  rewrite brun_app_one, hrun_app_one, Hb, Hh. split; [reflexivity|]. split; [reflexivity|].
  rewrite mono_app_one, last_time_app_one, Het, Hm. cbn [andb].
  split; [apply N.leb_le; lia|lia].
Qed.

Lemma book_hist_weaken w now now' : book_hist w now -> now <= now' -> book_hist w now'.
Proof. intros [bl [Hb [Hh [Hm Hl]]]] Hle. exists bl. repeat split; try assumption. lia. Qed.

Lemma book_hist_same w w' now : bk w' = bk w -> hs w' = hs w -> book_hist w now -> book_hist w' now.
Proof. intros Hb Hh [bl H]. exists bl. rewrite Hb, Hh. exact H. Qed.

Definition ev_time_ok (now : N) (e : ev) : Prop :=
  match e with
  | EBk b => match bev_time b with Some t => now <= t | None => True end
  | ETry t => now <= t
  | EEnd t _ => now <= t
  | _ => True
  end.

Definition ev_now (now : N) (e : ev) : N :=
  match e with
  | EBk b => match bev_time b with Some t => t | None => now end
  | ETry t => t
  | EEnd t _ => t
  | _ => now
  end.

Lemma amend_one_book a f : bk (a_w (amend_one a f)) = bk (a_w a) /\ hs (a_w (amend_one a f)) = hs (a_w a).
Proof.
  unfold amend_one.
  destruct (resolve_supply_gen _ _ _ _ _) as [[st det]|]; [|split; reflexivity].
  destruct (amend_input_gen _ _ _ _ _) as [[[unav unconf] unfr] dyn].
  destruct dyn; split; reflexivity.
Qed.

Lemma amend_fold_book ps : forall a,
  bk (a_w (fold_left amend_one ps a)) = bk (a_w a) /\ hs (a_w (fold_left amend_one ps a)) = hs (a_w a).
Proof.
  induction ps as [|f ps IH]; intros a; cbn [fold_left]; [split; reflexivity|].
  destruct (IH (amend_one a f)) as [H1 H2]. destruct (amend_one_book a f) as [H3 H4].
  split; congruence.
Qed.

Lemma confirm_fold_book l : forall w u,
  bk (fst (fold_left confirm_one l (w, u))) = bk w /\ hs (fst (fold_left confirm_one l (w, u))) = hs w.
Proof.
  induction l as [|f l IH]; intros w u; cbn [fold_left]; [split; reflexivity|].
  unfold confirm_one at 2 4. cbv zeta.
  match goal with |- context [fold_left confirm_one l (?w1, ?u1)] => destruct (IH w1 u1) as [H1 H2] end.
  split; [rewrite H1|rewrite H2]; reflexivity.
Qed.

Lemma do_amend_book w ps : bk (fst (do_amend w ps)) = bk w /\ hs (fst (do_amend w ps)) = hs w.
Proof.
  unfold do_amend. destruct (c_run w) as [r|]; [|split; reflexivity].
  destruct (a_rej _); [split; reflexivity|].
  destruct (fold_left confirm_one _ _) as [w1 u1] eqn:Hc.
  rewrite amend_tail_spec. cbv iota beta. cbn [fst set_run bk hs].
  pose proof (confirm_fold_book (a_check (fold_left amend_one ps (mkAcc w [] [] [] false)))
                (a_w (fold_left amend_one ps (mkAcc w [] [] [] false)))
                (a_unav (fold_left amend_one ps (mkAcc w [] [] [] false)))) as [H1 H2].
  rewrite Hc in H1, H2. cbn [fst] in H1, H2.
  destruct (amend_fold_book ps (mkAcc w [] [] [] false)) as [H3 H4]. cbn [a_w] in H3, H4.
  split; congruence.
Qed.

Lemma rehash_failed_book w l : bk (rehash_failed w l) = bk w /\ hs (rehash_failed w l) = hs w.
Proof. split; reflexivity. Qed.

Lemma book_hist_step w now e :
  book_hist w now -> ev_time_ok now e -> book_hist (fst (step w e)) (ev_now now e).
Proof.
  intros HB Hok. destruct e as [f v|f row|st df dc|b|dr|t|ps|t ok]; cbn [step fst ev_now ev_time_ok] in *.
  - eapply book_hist_same; [| |exact HB]; reflexivity.
  - eapply book_hist_same; [| |exact HB]; reflexivity.
  - eapply book_hist_same; [| |exact HB]; reflexivity.
  - destruct (bev_time b) as [t|] eqn:Hb.
    + eapply book_hist_set_book; eassumption.
    + destruct b; try discriminate Hb. destruct HB as [bl [H1 [H2 [H3 H4]]]].
      exists (bl ++ [BClear]). cbn [set_book bk hs]. rewrite brun_app_one, hrun_app_one, H1, H2.
      split; [reflexivity|]. split; [reflexivity|].
      rewrite mono_app_one, last_time_app_one, H3. cbn. split; [reflexivity|exact H4].
  - eapply book_hist_same; [| |exact HB]; reflexivity.
  - (* ETry *)
    unfold do_try. destruct (dispatchable w); cbn [negb fst]; [|eapply book_hist_weaken; eassumption].
    destruct (derive_error w); cbn [fst]; [eapply book_hist_same; [| |eapply book_hist_weaken; eassumption]; reflexivity|].
    cbv zeta.
    set (w1 := set_book (set_crow w SS_RUNNING false (c_dc w)) (BStart (c_id (set_crow w SS_RUNNING false (c_dc w))) t)).
    assert (H1 : book_hist w1 t).
    { unfold w1. eapply book_hist_set_book; [|reflexivity|exact Hok].
      eapply book_hist_same; [| |exact HB]; reflexivity. }
    destruct (snap_changed w1 (snapshot w)).
    + rewrite mark_completed_fail. cbn [fst].
      destruct H1 as [bl1 [Hb1 [Hh1 [Hm1 Hl1]]]].
      exists (bl1 ++ [BStop (c_id w) t false]).
      rewrite brun_app_one, hrun_app_one, <- Hb1, <- Hh1, mono_app_one, last_time_app_one, Hm1.
      cbn [bev_time andb].
      split; [reflexivity|]. split; [reflexivity|]. split; [apply N.leb_le; lia|lia].
    + cbn [fst]. eapply book_hist_same; [| |exact H1]; reflexivity.
  - (* EAmend *)
    destruct (do_amend_book w ps) as [H1 H2]. eapply book_hist_same; eassumption.
  - (* EEnd *)
    unfold do_end, do_end_gen, do_end_core. destruct (c_run w) as [r|]; cbn [fst]; [|eapply book_hist_weaken; eassumption].
    cbv zeta.
    destruct (classify_gen _ _ _ _ _) as [[[[[hash_some wants_defer] success] ru] rf] rehash].
    destruct (mark_completed_gen _ _ _ _ _ _) as [[[[[[[st df] interrupted] dc] x1] x2] x3] x4].
    cbn [fst].
    destruct HB as [bl [Hb [Hh [Hm Hl]]]].
    exists (bl ++ [BStop (c_id w) t hash_some]).
    rewrite brun_app_one, hrun_app_one, <- Hb, <- Hh, mono_app_one, last_time_app_one, Hm.
    cbn [bev_time andb].
    split; [destruct rehash; reflexivity|]. split; [destruct rehash; reflexivity|].
    split; [apply N.leb_le; lia|lia].
Qed.

(* In every world reached by events whose clock readings never decrease, a verdict "not unfresh"
   for producer p means: in the order of the stamp events so far, the current start of c does not
   precede p's last successful stop (and a verdict "unfresh" is justified by the full history). *)
Theorem reachable_verdict_sound w now p :
  book_hist w now ->
  (ran_conc (bk w) p (c_id w) = false ->
     exists bl, bk w = brun bl /\ mono 0 bl = true /\ ran_order bl p (c_id w) = false) /\
  (ran_conc (bk w) p (c_id w) = true -> ran_ref (hs w) p (c_id w) = true).
Proof.
  intros [bl [Hb [Hh [Hm _]]]]. split.
  - intros Hr. exists bl. split; [exact Hb|]. split; [exact Hm|].
    apply fresh_verdict_sound; [exact Hm|]. rewrite <- Hb. exact Hr.
  - intros Hr. rewrite Hh. apply ran_conc_true_is_justified; [exact Hm|]. rewrite <- Hb. exact Hr.
Qed.

Fixpoint times_ok (now : N) (evs : list ev) : Prop :=
  match evs with
  | [] => True
  | e :: r => ev_time_ok now e /\ times_ok (ev_now now e) r
  end.

Lemma book_hist_run evs : forall w now,
  book_hist w now -> times_ok now evs -> exists now', book_hist (run evs w) now'.
Proof.
  induction evs as [|e evs IH]; intros w now HB Ht.
  - exists now. exact HB.
  - destruct Ht as [He Hr]. unfold run. cbn [fold_left].
    apply (IH (fst (step w e)) (ev_now now e)); [apply book_hist_step; assumption|exact Hr].
Qed.

Lemma book_hist_world0 cid init capv kg : book_hist (world0 cid init capv kg) 0.
Proof. exists []. cbn. repeat split; try reflexivity. Qed.
