(* proofs/CleanProofs.v -- lemmas about model/Clean.v (file-system side of cleaning, finalize,
   the clean tool, histories of file rows). *)
From Coq Require Import List NArith Bool Lia.
From SV Require Import lib.Bytes.
From SV Require Import gen.GenClean.
From SV Require Import model.TrellisDD.
From SV Require Import model.Clean.
From SV Require Import proofs.TrellisDDProofs.
Import ListNotations.
Open Scope N_scope.

(* ---- the abstract file system ------------------------------------------------------------- *)

Lemma str_eqb_sym a b : str_eqb a b = str_eqb b a.
Proof.
  destruct (str_eqb a b) eqn:E1, (str_eqb b a) eqn:E2; try reflexivity.
  - apply str_eqb_eq in E1. subst. rewrite str_eqb_refl in E2. discriminate.
  - apply str_eqb_eq in E2. subst. rewrite str_eqb_refl in E1. discriminate.
Qed.

Lemma str_eqb_neq a b : str_eqb a b = false <-> a <> b.
Proof.
  split.
  - intros H E. apply str_eqb_eq in E. congruence.
  - intros H. destruct (str_eqb a b) eqn:E; [apply str_eqb_eq in E; contradiction | reflexivity].
Qed.

Lemma fs_get_del_same f p : fs_get (fs_del f p) p = None.
Proof.
  unfold fs_get, fs_del. induction f as [|[q e] f IH]; [reflexivity|].
  cbn [filter fst]. destruct (str_eqb q p) eqn:E; cbn [negb].
  - exact IH.
  - cbn [find fst]. rewrite E. exact IH.
Qed.

Lemma fs_get_del_other f p q : q <> p -> fs_get (fs_del f p) q = fs_get f q.
Proof.
  intros Hne. unfold fs_get, fs_del. induction f as [|[x e] f IH]; [reflexivity|].
  cbn [filter fst]. destruct (str_eqb x p) eqn:E; cbn [negb].
  - apply str_eqb_eq in E. subst x. cbn [find fst].
    assert (str_eqb p q = false) as -> by (apply str_eqb_neq; congruence). exact IH.
  - cbn [find fst]. destruct (str_eqb x q); [reflexivity | exact IH].
Qed.

Lemma fs_get_some_in f p e : fs_get f p = Some e -> In (p, e) f.
Proof.
  unfold fs_get. destruct (find _ f) as [[q e']|] eqn:Hf; [|discriminate].
  intros H. inversion H. subst. apply find_some in Hf. destruct Hf as [Hin Heq].
  cbn [fst] in Heq. apply str_eqb_eq in Heq. subst. exact Hin.
Qed.

Lemma dir_empty_none f d p : dir_empty f d = true -> under d p = true -> fs_get f p = None.
Proof.
  unfold dir_empty. rewrite negb_true_iff. intros He Hu.
  destruct (fs_get f p) as [e|] eqn:Hg; [|reflexivity].
  apply fs_get_some_in in Hg.
  assert (existsb (fun e => under d (fst e)) f = true) as Hx.
  { apply existsb_exists. exists (p, e). split; [exact Hg | exact Hu]. }
  congruence.
Qed.

Lemma rm_file_spec f p f' b : rm_file f p = (f', b) ->
  (b = true /\ is_unlinkable (fs_get f p) = true /\ f' = fs_del f p) \/ (b = false /\ f' = f).
Proof.
  unfold rm_file. destruct (is_unlinkable (fs_get f p)) eqn:Hu; intros H; inversion H; subst.
  - left. split; [reflexivity | split; reflexivity].
  - right. split; reflexivity.
Qed.

Lemma is_unlinkable_sub (f f0 : fsys) p :
  (forall q e, fs_get f q = Some e -> fs_get f0 q = Some e) ->
  is_unlinkable (fs_get f p) = true -> is_unlinkable (fs_get f0 p) = true.
Proof.
  intros Hsub H. destruct (fs_get f p) as [e|] eqn:Hg; [|discriminate H].
  rewrite (Hsub p e Hg). exact H.
Qed.

(* stat follows links inside the tree it is given: what it finds in a part of a tree it finds in the whole *)
Lemma stat_fuel_sub (f f0 : fsys) :
  (forall q e, fs_get f q = Some e -> fs_get f0 q = Some e) ->
  forall k p h, stat_fuel k f p = SFile h -> stat_fuel k f0 p = SFile h.
Proof.
  intros Hsub. induction k as [|k IH]; intros p h H.
  - cbn [stat_fuel] in *. destruct (fs_get f p) as [[h'| |t]|] eqn:Hg; try discriminate H.
    rewrite (Hsub p _ Hg). exact H.
  - cbn [stat_fuel] in *. destruct (fs_get f p) as [[h'| |t]|] eqn:Hg; try discriminate H.
    + rewrite (Hsub p _ Hg). exact H.
    + rewrite (Hsub p _ Hg). apply IH. exact H.
Qed.

Lemma stat_sub (f f0 : fsys) p h :
  (forall q e, fs_get f q = Some e -> fs_get f0 q = Some e) -> stat f p = SFile h -> stat f0 p = SFile h.
Proof. intros Hsub. unfold stat. apply stat_fuel_sub. exact Hsub. Qed.

Lemma stat_fuel_regular k f p h : fs_get f p = Some (FFile h) -> stat_fuel k f p = SFile h.
Proof. intros H. destruct k; cbn [stat_fuel]; rewrite H; reflexivity. Qed.

Lemma stat_regular f p h : fs_get f p = Some (FFile h) -> stat f p = SFile h.
Proof. intros H. unfold stat. apply stat_fuel_regular. exact H. Qed.

Lemma stat_of_regular f p h h' : fs_get f p = Some (FFile h) -> stat f p = SFile h' -> h' = h.
Proof. intros H Hs. rewrite (stat_regular f p h H) in Hs. congruence. Qed.

(* the primitive: a directory is removed only if it is a directory and has no entry below it *)
Lemma rmdir_if_empty_spec f d f' b : rmdir_if_empty f d = (f', b) ->
  (b = true /\ fs_get f d = Some FDir /\ dir_empty f d = true /\ f' = fs_del f d) \/ (b = false /\ f' = f).
Proof.
  unfold rmdir_if_empty. destruct (fs_get f d) as [[h| |t]|] eqn:Hg.
  - intros H; inversion H; subst. right. split; reflexivity.
  - destruct (dir_empty f d) eqn:He; intros H; inversion H; subst.
    + left. repeat split; reflexivity.
    + right. split; reflexivity.
  - intros H; inversion H; subst. right. split; reflexivity.
  - intros H; inversion H; subst. right. split; reflexivity.
Qed.

(* ---- removal traces ------------------------------------------------------------------------
   f0: the file system before, f: now, files/dirs: what was reported removed so far. *)

Record trace_inv (f0 f : fsys) (files dirs : list str) : Prop := mkTI {
  ti_sub : forall p e, fs_get f p = Some e -> fs_get f0 p = Some e;
  ti_vanished : forall p, fs_get f0 p <> None -> fs_get f p = None -> In p files \/ In p dirs;
  ti_files : forall p, In p files -> is_unlinkable (fs_get f0 p) = true /\ fs_get f p = None;
  ti_dirs : forall d, In d dirs -> fs_get f0 d = Some FDir /\ fs_get f d = None /\
              forall p, under d p = true -> fs_get f0 p <> None -> In p files \/ In p dirs
}.

Lemma trace_inv_init f : trace_inv f f [] [].
Proof.
  constructor.
  - intros p e H. exact H.
  - intros p H1 H2. contradiction.
  - intros p [].
  - intros d [].
Qed.

Lemma trace_inv_file f0 f files dirs p :
  trace_inv f0 f files dirs -> is_unlinkable (fs_get f p) = true ->
  trace_inv f0 (fs_del f p) (p :: files) dirs.
Proof.
  intros [Hsub Hvan Hfiles Hdirs] Hg. constructor.
  - intros q e Hq. destruct (str_eqb q p) eqn:E.
    + apply str_eqb_eq in E. subst. rewrite fs_get_del_same in Hq. discriminate.
    + apply str_eqb_neq in E. rewrite fs_get_del_other in Hq by exact E. apply Hsub. exact Hq.
  - intros q H0 Hq. destruct (str_eqb q p) eqn:E.
    + apply str_eqb_eq in E. subst. left. left. reflexivity.
    + apply str_eqb_neq in E. rewrite fs_get_del_other in Hq by exact E.
      destruct (Hvan q H0 Hq) as [H|H]; [left; right; exact H | right; exact H].
  - intros q [<-|Hq].
    + split; [apply (is_unlinkable_sub f f0 p Hsub Hg) | apply fs_get_del_same].
    + destruct (Hfiles q Hq) as [Hh Hn]. split; [exact Hh|].
      destruct (str_eqb q p) eqn:E.
      * apply str_eqb_eq in E. subst. apply fs_get_del_same.
      * apply str_eqb_neq in E. rewrite fs_get_del_other by exact E. exact Hn.
  - intros d Hd. destruct (Hdirs d Hd) as [H1 [H2 H3]]. split; [exact H1 | split].
    + destruct (str_eqb d p) eqn:E.
      * apply str_eqb_eq in E. subst. apply fs_get_del_same.
      * apply str_eqb_neq in E. rewrite fs_get_del_other by exact E. exact H2.
    + intros q Hu H0. destruct (H3 q Hu H0) as [H|H]; [left; right; exact H | right; exact H].
Qed.

Lemma trace_inv_dir f0 f files dirs d :
  trace_inv f0 f files dirs -> fs_get f d = Some FDir -> dir_empty f d = true ->
  trace_inv f0 (fs_del f d) files (d :: dirs).
Proof.
  intros [Hsub Hvan Hfiles Hdirs] Hg He. constructor.
  - intros q e Hq. destruct (str_eqb q d) eqn:E.
    + apply str_eqb_eq in E. subst. rewrite fs_get_del_same in Hq. discriminate.
    + apply str_eqb_neq in E. rewrite fs_get_del_other in Hq by exact E. apply Hsub. exact Hq.
  - intros q H0 Hq. destruct (str_eqb q d) eqn:E.
    + apply str_eqb_eq in E. subst. right. left. reflexivity.
    + apply str_eqb_neq in E. rewrite fs_get_del_other in Hq by exact E.
      destruct (Hvan q H0 Hq) as [H|H]; [left; exact H | right; right; exact H].
  - intros q Hq. destruct (Hfiles q Hq) as [Hh Hn]. split; [exact Hh|].
    destruct (str_eqb q d) eqn:E.
    + apply str_eqb_eq in E. subst. apply fs_get_del_same.
    + apply str_eqb_neq in E. rewrite fs_get_del_other by exact E. exact Hn.
  - intros x [<-|Hx].
    + split; [apply Hsub; exact Hg | split; [apply fs_get_del_same|]].
      intros q Hu H0. pose proof (dir_empty_none f d q He Hu) as Hnone.
      destruct (Hvan q H0 Hnone) as [H|H]; [left; exact H | right; right; exact H].
    + destruct (Hdirs x Hx) as [H1 [H2 H3]]. split; [exact H1 | split].
      * destruct (str_eqb x d) eqn:E.
        -- apply str_eqb_eq in E. subst. apply fs_get_del_same.
        -- apply str_eqb_neq in E. rewrite fs_get_del_other by exact E. exact H2.
      * intros q Hu H0. destruct (H3 q Hu H0) as [H|H]; [left; exact H | right; right; exact H].
Qed.

(* ---- remove_deletable_files ---------------------------------------------------------------- *)

(* the regenerated branch in front of the hash comparison covers every kind of path *)
Lemma gen_rdf_hash_checked k : rdf_hash_checked k = true.
Proof. destruct k; reflexivity. Qed.

(* why a queued file may be removed, judged on the file system before the cleanup: what was there could be
   unlinked (a regular file or a symbolic link, the link only), and it is volatile or reading through the path
   gave exactly the recorded hash *)
Definition rdf_ok (q : queue) (f0 : fsys) (p : str) : Prop :=
  is_unlinkable (fs_get f0 p) = true /\
  (qfile_get q p = Some None \/ exists h0, stat f0 p = SFile h0 /\ qfile_get q p = Some (Some h0)).

Definition fs_sub (f f0 : fsys) : Prop := forall q e, fs_get f q = Some e -> fs_get f0 q = Some e.

Lemma rdf_file_step q f0 fd f files dirs p f' b :
  trace_inv f0 f files dirs -> (forall x, In x files -> rdf_ok q f0 x) -> fs_sub fd f0 ->
  rdf_file q fd f p = (f', b) ->
  trace_inv f0 f' (if b then p :: files else files) dirs /\
  (forall x, In x (if b then p :: files else files) -> rdf_ok q f0 x).
Proof.
  intros Hinv Hok Hfd Hstep. unfold rdf_file in Hstep.
  destruct (rdf_decide q fd p) eqn:Hdec.
  - apply rm_file_spec in Hstep. destruct Hstep as [[-> [Hu ->]]|[-> ->]]; [|split; assumption].
    split; [apply trace_inv_file; assumption|].
    intros x [<-|Hx]; [|apply Hok; exact Hx].
    split; [apply (is_unlinkable_sub f f0 p (ti_sub _ _ _ _ Hinv) Hu)|].
    unfold rdf_decide in Hdec. destruct (qfile_get q p) as [[h|]|] eqn:Hq; [|left; reflexivity|discriminate Hdec].
    right. rewrite gen_rdf_hash_checked in Hdec. unfold refreshed in Hdec.
    destruct (stat fd p) as [|h'|] eqn:Hs; try discriminate Hdec.
    apply N.eqb_eq in Hdec. subst h'. exists h. split; [apply (stat_sub fd f0 p h Hfd Hs) | reflexivity].
  - inversion Hstep; subst. split; assumption.
Qed.

Lemma rdf_files_gen_inv q f0 fd ps : forall f files dirs f' log,
  trace_inv f0 f files dirs -> (forall x, In x files -> rdf_ok q f0 x) ->
  (forall x, fd = Some x -> fs_sub x f0) ->
  rdf_files_gen q fd ps f files = (f', log) ->
  trace_inv f0 f' log dirs /\ (forall x, In x log -> rdf_ok q f0 x).
Proof.
  induction ps as [|p ps IH]; intros f files dirs f' log Hinv Hok Hfd Hrun.
  - cbn [rdf_files_gen] in Hrun. inversion Hrun; subst. split; assumption.
  - cbn [rdf_files_gen] in Hrun.
    destruct (rdf_file q (match fd with Some x => x | None => f end) f p) as [f1 b] eqn:Hstep.
    assert (fs_sub (match fd with Some x => x | None => f end) f0) as Hsub.
    { destruct fd as [x|]; [apply Hfd; reflexivity | exact (ti_sub _ _ _ _ Hinv)]. }
    destruct (rdf_file_step q f0 _ f files dirs p f1 b Hinv Hok Hsub Hstep) as [Hinv1 Hok1].
    apply (IH f1 _ dirs f' log Hinv1 Hok1 Hfd Hrun).
Qed.

Lemma rdf_files_inv q f0 ps : forall files f' log,
  (forall x, In x files -> rdf_ok q f0 x) -> trace_inv f0 f0 files [] ->
  rdf_files q ps f0 files = (f', log) ->
  trace_inv f0 f' log [] /\ (forall x, In x log -> rdf_ok q f0 x).
Proof.
  intros files f' log Hok Hinv Hrun. unfold rdf_files in Hrun.
  apply (rdf_files_gen_inv q f0 (rdf_mode f0) ps f0 files [] f' log Hinv Hok); [|exact Hrun].
  intros x Hx. unfold rdf_mode in Hx. destruct rdf_decide_first; [|discriminate Hx].
  inversion Hx; subst. intros a e H. exact H.
Qed.

Lemma prune_loop_inv f0 fuel : forall todo f files dirs f' log,
  trace_inv f0 f files dirs -> prune_loop fuel todo f dirs = (f', log) -> trace_inv f0 f' files log.
Proof.
  induction fuel as [|fuel IH]; intros todo f files dirs f' log Hinv Hrun.
  - cbn [prune_loop] in Hrun. inversion Hrun; subst. exact Hinv.
  - cbn [prune_loop] in Hrun. destruct todo as [|d rest].
    + inversion Hrun; subst. exact Hinv.
    + destruct (rmdir_if_empty f d) as [f1 b] eqn:Hr. apply rmdir_if_empty_spec in Hr.
      destruct Hr as [[-> [Hg [He ->]]]|[-> ->]].
      * apply (IH _ _ files _ _ _ (trace_inv_dir f0 f files dirs d Hinv Hg He) Hrun).
      * apply (IH _ _ files _ _ _ Hinv Hrun).
Qed.

(* the regenerated shape of _prune_empty_dirs: a parent pushed after a removed child is examined again *)
Lemma gen_prune_revisits : prune_visits_once = false.
Proof. reflexivity. Qed.

Lemma prune_dirs_eq dirs f :
  prune_dirs dirs f = prune_loop (prune_fuel (sort_desc (dedup dirs)) f) (sort_desc (dedup dirs)) f [].
Proof. unfold prune_dirs, prune_dirs_gen. rewrite gen_prune_revisits. reflexivity. Qed.

Lemma rdf_trace q f :
  let r := remove_deletable_files q f in
  trace_inv f (r_fs r) (r_files r) (r_dirs r) /\ (forall x, In x (r_files r) -> rdf_ok q f x).
Proof.
  unfold remove_deletable_files.
  destruct (rdf_files q _ f []) as [f1 flog] eqn:H1.
  destruct (prune_dirs (qdirs q) f1) as [f2 dlog] eqn:H2. cbn [r_fs r_files r_dirs].
  destruct (rdf_files_inv q f _ [] f1 flog (fun x (H : In x []) => match H with end) (trace_inv_init f) H1)
    as [Hinv1 Hok1].
  rewrite prune_dirs_eq in H2. pose proof (prune_loop_inv f _ _ f1 flog [] f2 dlog Hinv1 H2) as Hinv2.
  split.
  - destruct Hinv2 as [A B C D]. constructor.
    + exact A.
    + intros p H0 Hn. destruct (B p H0 Hn) as [H|H]; [left | right]; apply -> in_rev; exact H.
    + intros p Hp. apply in_rev in Hp. apply C. exact Hp.
    + intros d Hd. apply in_rev in Hd. destruct (D d Hd) as [D1 [D2 D3]]. split; [exact D1 | split; [exact D2|]].
      intros p Hu H0. destruct (D3 p Hu H0) as [H|H]; [left | right]; apply -> in_rev; exact H.
  - intros x Hx. apply in_rev in Hx. apply Hok1. exact Hx.
Qed.

(* ---- facts about the generated constants (checked by computation on every run) ------------- *)

Lemma memN_In x l : memN x l = true <-> In x l.
Proof.
  unfold memN. rewrite existsb_exists. split.
  - intros [y [Hy He]]. apply N.eqb_eq in He. subst. exact Hy.
  - intros H. exists x. split; [exact H | apply N.eqb_refl].
Qed.

Lemma memN_forallb (P : N -> bool) x l : memN x l = true -> forallb P l = true -> P x = true.
Proof. intros Hm Hf. apply memN_In in Hm. rewrite forallb_forall in Hf. apply Hf. exact Hm. Qed.

Lemma gen_bd_volatile s : memN s bd_volatile_states = true -> memN s volatile_states = true.
Proof. intros H. apply (memN_forallb (fun x => memN x volatile_states) s _ H). vm_compute. reflexivity. Qed.

Lemma gen_bd_hashed s : memN s bd_hashed_states = true -> memN s output_states = true.
Proof. intros H. apply (memN_forallb (fun x => memN x output_states) s _ H). vm_compute. reflexivity. Qed.

Lemma gen_revert_to_not_queued :
  memN revert_to bd_volatile_states = false /\ memN revert_to bd_hashed_states = false.
Proof. vm_compute. split; reflexivity. Qed.

Lemma gen_revert_from s : memN s revert_from = true ->
  (if s =? revert_exempt then memN s volatile_states else memN s output_states) = true.
Proof.
  intros H.
  apply (memN_forallb (fun x => if x =? revert_exempt then memN x volatile_states else memN x output_states) s _ H).
  vm_compute. reflexivity.
Qed.

Lemma gen_roles_disjoint s :
  is_output_role s = true -> memN s static_states = false.
Proof.
  unfold is_output_role. intros H. apply orb_true_iff in H.
  destruct (memN s static_states) eqn:E; [|reflexivity]. exfalso.
  assert (forallb (fun x => negb (memN x output_states || memN x volatile_states)) static_states = true) as Hf
    by (vm_compute; reflexivity).
  pose proof (memN_forallb _ s _ E Hf) as Hn. cbv beta in Hn. apply negb_true_iff in Hn.
  apply orb_false_iff in Hn. destruct Hn as [H1 H2]. destruct H as [H|H]; congruence.
Qed.

Lemma gen_clean_select s : memN s clean_select_states = true -> is_output_role s = true.
Proof. intros H. apply (memN_forallb is_output_role s _ H). vm_compute. reflexivity. Qed.

(* ---- the queue only ever holds paths of output-role file rows of the graph ------------------ *)

Definition node_owns (g : graph) (p : str) (v : option N) : Prop :=
  exists n, In n (gnodes g) /\ nkind n = KFILE /\ nlabel n = p /\
    ((v = None /\ memN (nfstate n) volatile_states = true) \/
     (exists h, v = Some h /\ nfhash n = Some h /\ memN (nfstate n) output_states = true)).

Definition queue_owned (g : graph) (q : queue) : Prop :=
  forall p v, qfile_get q p = Some v -> node_owns g p v.

Lemma find_filter_other (l : list (str * option N)) p p' : p' <> p ->
  find (fun e => str_eqb (fst e) p') (filter (fun e => negb (str_eqb (fst e) p)) l) =
  find (fun e => str_eqb (fst e) p') l.
Proof.
  intros Hne. induction l as [|[x v] l IH]; [reflexivity|].
  cbn [filter fst]. destruct (str_eqb x p) eqn:E; cbn [negb].
  - apply str_eqb_eq in E. subst x. cbn [find fst].
    assert (str_eqb p p' = false) as -> by (apply str_eqb_neq; congruence). exact IH.
  - cbn [find fst]. destruct (str_eqb x p'); [reflexivity | exact IH].
Qed.

Lemma qfile_get_set q p v p' :
  qfile_get (qfile_set q p v) p' = if str_eqb p p' then Some v else qfile_get q p'.
Proof.
  unfold qfile_get, qfile_set. cbn [qfiles find fst snd].
  destruct (str_eqb p p') eqn:E; [reflexivity|].
  apply str_eqb_neq in E. rewrite find_filter_other by congruence. reflexivity.
Qed.

Lemma qfile_get_mark_dir trees q d p : qfile_get (mark_dir trees q d) p = qfile_get q p.
Proof. unfold mark_dir. destruct (is_dot (normdir d) || _); reflexivity. Qed.

Lemma queue_owned_set g q p v : queue_owned g q -> node_owns g p v -> queue_owned g (qfile_set q p v).
Proof.
  intros Hq Hn p' v' Hg. rewrite qfile_get_set in Hg. destruct (str_eqb p p') eqn:E.
  - apply str_eqb_eq in E. subst. inversion Hg. subst. exact Hn.
  - apply Hq. exact Hg.
Qed.

Lemma queue_owned_mark g trees q d : queue_owned g q -> queue_owned g (mark_dir trees q d).
Proof. intros Hq p v Hg. rewrite qfile_get_mark_dir in Hg. apply Hq. exact Hg. Qed.

Lemma queue_owned_empty g : queue_owned g empty_queue.
Proof. intros p v H. discriminate. Qed.

(* a later node stems from a node of g with the same file row, or was reverted to revert_to *)
Definition row_from (g : graph) (n' : node) : Prop :=
  exists n, In n (gnodes g) /\ nkey n = nkey n' /\
    ((nfstate n' = nfstate n /\ nfhash n' = nfhash n) \/ nfstate n' = revert_to).

Lemma before_delete_owned g trees q n' :
  queue_owned g q -> row_from g n' -> queue_owned g (before_delete trees n' q).
Proof.
  intros Hq [n [Hn [Hk Hrow]]]. unfold before_delete.
  destruct (nkind n' =? KFILE) eqn:Ekind.
  - apply N.eqb_eq in Ekind. apply queue_owned_mark.
    assert (nkind n = KFILE) as Hkind by (unfold nkind in *; rewrite Hk; exact Ekind).
    assert (nlabel n = nlabel n') as Hlab by (unfold nlabel; rewrite Hk; reflexivity).
    destruct (memN (nfstate n') bd_volatile_states) eqn:Ev.
    + apply queue_owned_set; [exact Hq|]. destruct Hrow as [[Hs Hh]|Hs].
      * exists n. split; [exact Hn | split; [exact Hkind | split; [exact Hlab|]]]. left. split; [reflexivity|].
        rewrite <- Hs. apply gen_bd_volatile. exact Ev.
      * rewrite Hs in Ev. destruct gen_revert_to_not_queued as [H _]. congruence.
    + destruct (memN (nfstate n') bd_hashed_states) eqn:Eh; [|exact Hq].
      destruct (nfhash n') as [h|] eqn:Ehash; [|exact Hq].
      apply queue_owned_set; [exact Hq|]. destruct Hrow as [[Hs Hh]|Hs].
      * exists n. split; [exact Hn | split; [exact Hkind | split; [exact Hlab|]]]. right. exists h.
        split; [reflexivity | split; [congruence|]]. rewrite <- Hs. apply gen_bd_hashed. exact Eh.
      * rewrite Hs in Eh. destruct gen_revert_to_not_queued as [_ H]. congruence.
  - destruct (nkind n' =? KSTEP); [apply queue_owned_mark|]; exact Hq.
Qed.

Lemma queue_deleted_owned g trees deleted : forall q,
  queue_owned g q -> (forall n', In n' deleted -> row_from g n') -> queue_owned g (queue_deleted trees deleted q).
Proof.
  unfold queue_deleted. induction deleted as [|d deleted IH]; intros q Hq Hall; [exact Hq|].
  cbn [fold_left]. apply IH.
  - apply before_delete_owned; [exact Hq | apply Hall; left; reflexivity].
  - intros n' Hin. apply Hall. right. exact Hin.
Qed.

(* revert_optional_steps *)
Lemma revert_queue_node_owned g trees q n :
  queue_owned g q -> In n (gnodes g) -> is_revert_target g n = true -> queue_owned g (revert_queue_node trees n q).
Proof.
  intros Hq Hn Ht. unfold revert_queue_node. apply queue_owned_mark.
  unfold is_revert_target in Ht. apply andb_true_iff in Ht. destruct Ht as [Ht _].
  apply andb_true_iff in Ht. destruct Ht as [Hkind Hfrom]. apply N.eqb_eq in Hkind.
  pose proof (gen_revert_from _ Hfrom) as Hrole.
  destruct (nfstate n =? revert_exempt) eqn:Ex.
  - apply queue_owned_set; [exact Hq|]. exists n. split; [exact Hn | split; [exact Hkind | split; [reflexivity|]]].
    left. split; [reflexivity | exact Hrole].
  - destruct (nfhash n) as [h|] eqn:Eh; [|exact Hq].
    apply queue_owned_set; [exact Hq|]. exists n. split; [exact Hn | split; [exact Hkind | split; [reflexivity|]]].
    right. exists h. split; [reflexivity | split; [exact Eh | exact Hrole]].
Qed.

Lemma revert_optional_owned g q :
  queue_owned g q -> queue_owned g (snd (revert_optional g q)).
Proof.
  intros Hq. unfold revert_optional. cbn [snd].
  assert (forall l q0, (forall n, In n l -> In n (gnodes g) /\ is_revert_target g n = true) ->
            queue_owned g q0 ->
            queue_owned g (fold_left (fun q n => revert_queue_node (attached_tree_labels g) n q) l q0)) as Hgen.
  { induction l as [|a l IH]; intros q0 Hl Hq0; [exact Hq0|]. cbn [fold_left]. apply IH.
    - intros n Hin. apply Hl. right. exact Hin.
    - destruct (Hl a (or_introl eq_refl)) as [Ha1 Ha2]. apply revert_queue_node_owned; assumption. }
  apply Hgen; [|exact Hq]. intros n Hin. apply filter_In in Hin. exact Hin.
Qed.

Lemma revert_node_row_from g n : In n (gnodes g) -> row_from g (revert_node g n).
Proof.
  intros Hn. exists n. split; [exact Hn|]. unfold revert_node.
  destruct (is_optional_step n); [split; [reflexivity | left; split; reflexivity]|].
  destruct (is_revert_target g n && negb (nfstate n =? revert_exempt)).
  - split; [reflexivity | right; reflexivity].
  - split; [reflexivity | left; split; reflexivity].
Qed.

Lemma prestep_node_row g0 g n : row_from g0 n -> row_from g0 (prestep_node g n).
Proof.
  intros H. unfold prestep_node. destruct (ncreator n) as [c|]; [|exact H].
  destruct (_ && _); [|exact H]. destruct H as [m [Hm [Hk Hr]]]. exists m. split; [exact Hm | split; [exact Hk | exact Hr]].
Qed.

Lemma dd_loop_acc_sub fuel : forall g acc x,
  In x (snd (dd_loop fuel g acc)) -> In x acc \/ In x (gnodes g).
Proof.
  induction fuel as [|fuel IH]; intros g acc x Hin; [left; exact Hin|].
  cbn [dd_loop] in Hin. destruct (find (eligible g) (gnodes g)) as [n|] eqn:Hf; [|left; exact Hin].
  apply find_some in Hf. destruct Hf as [Hn _].
  destruct (IH _ _ _ Hin) as [[<-|H]|H].
  - right. exact Hn.
  - left. exact H.
  - right. apply del_node_nodes_in in H. apply H.
Qed.

Lemma workflow_dd_deleted_from g0 g :
  (forall n, In n (gnodes g) -> row_from g0 n) ->
  forall n', In n' (dd_deleted (workflow_dd g)) -> row_from g0 n'.
Proof.
  intros Hall n' Hin. unfold workflow_dd in Hin. rewrite trellis_dd_deleted in Hin.
  apply in_rev in Hin. unfold dd_raw in Hin. apply dd_loop_acc_sub in Hin. destruct Hin as [[]|Hin].
  unfold prestep in Hin. cbn [gnodes] in Hin. apply in_map_iff in Hin. destruct Hin as [m [<- Hm]].
  apply prestep_node_row. apply Hall. exact Hm.
Qed.

(* ---- Builder.finalize ---------------------------------------------------------------------- *)

Theorem no_cleanup_when_guarded c s :
  c_targets c = true \/ N.ldiff (c_returncode c) RC_WARNING <> 0 \/ c_clean c = false ->
  finalize c s = s.
Proof.
  intros H. unfold finalize, finalize_with.
  assert (existsb (guard_fires c) finalize_guards = true) as ->; [|reflexivity].
  apply existsb_exists. destruct H as [H|[H|H]].
  - exists GTargets. split; [cbv [finalize_guards In]; tauto | exact H].
  - exists (GRcMasked RC_WARNING). split; [cbv [finalize_guards RC_WARNING In]; tauto|].
    cbn [guard_fires]. apply negb_true_iff. apply N.eqb_neq. exact H.
  - exists GNoClean. split; [cbv [finalize_guards In]; tauto|]. cbn [guard_fires]. rewrite H. reflexivity.
Qed.

(* the three cleanup calls, in the order of the source *)
Lemma finalize_unguarded c g f :
  existsb (guard_fires c) finalize_guards = false ->
  finalize c (init_state g f) =
  let '(g1, q1) := revert_optional g empty_queue in
  let o := workflow_dd g1 in
  let q2 := queue_deleted (attached_tree_labels g1) (dd_deleted o) q1 in
  let r := remove_deletable_files q2 f in
  mkFin (dd_g o) (queue_after_removal (attached_tree_labels (dd_g o)) q2 f) (r_fs r) (r_files r) (r_dirs r) (dd_err o).
Proof.
  intros Hg. unfold finalize, finalize_with. rewrite Hg.
  change finalize_cleanup_calls with [CRevert; CDeleteDetached; CRemoveFiles].
  unfold run_calls, init_state. cbn [fold_left run_call s_g s_q s_fs s_files s_dirs s_err].
  destruct (revert_optional g empty_queue) as [g1 q1].
  cbn [s_g s_q s_fs s_files s_dirs s_err app orb]. reflexivity.
Qed.

Lemma finalize_queue_owned g :
  let '(g1, q1) := revert_optional g empty_queue in
  queue_owned g (queue_deleted (attached_tree_labels g1) (dd_deleted (workflow_dd g1)) q1).
Proof.
  pose proof (revert_optional_owned g empty_queue (queue_owned_empty g)) as H1.
  destruct (revert_optional g empty_queue) as [g1 q1] eqn:Hr. cbn [snd] in H1.
  apply queue_deleted_owned; [exact H1|].
  apply workflow_dd_deleted_from. intros n Hn.
  unfold revert_optional in Hr. inversion Hr. subst g1. cbn [gnodes] in Hn.
  apply in_map_iff in Hn. destruct Hn as [m [<- Hm]]. apply revert_node_row_from. exact Hm.
Qed.

(* invariant tying the graph to the ghost set *)
Definition ever_inv (g : graph) (ever : list str) : Prop :=
  forall n, In n (gnodes g) -> nkind n = KFILE -> is_output_role (nfstate n) = true -> In (nlabel n) ever.

Definition owned_removal (g : graph) (f : fsys) (ever : list str) (unsafe : bool) (p : str) : Prop :=
  exists n, In n (gnodes g) /\ nkind n = KFILE /\ nlabel n = p /\
    In p ever /\ memN (nfstate n) static_states = false /\ is_output_role (nfstate n) = true /\
    (lkind f p = KRegular \/ lkind f p = KSymlink) /\
    (memN (nfstate n) volatile_states = true \/ (exists h0, stat f p = SFile h0 /\ nfhash n = Some h0) \/ unsafe = true).

Lemma is_unlinkable_lkind f p : is_unlinkable (fs_get f p) = true -> lkind f p = KRegular \/ lkind f p = KSymlink.
Proof. unfold lkind. destruct (fs_get f p) as [[h| |t]|]; intros H; try discriminate H; [left | right]; reflexivity. Qed.

Theorem removed_only_owned_finalize c g f ever :
  ever_inv g ever ->
  forall p, In p (s_files (finalize c (init_state g f))) -> owned_removal g f ever false p.
Proof.
  intros Hev p Hp.
  destruct (existsb (guard_fires c) finalize_guards) eqn:Hg.
  - unfold finalize, finalize_with in Hp. rewrite Hg in Hp. destruct Hp.
  - rewrite (finalize_unguarded c g f Hg) in Hp. pose proof (finalize_queue_owned g) as Hown.
    destruct (revert_optional g empty_queue) as [g1 q1]. cbv zeta in Hp. cbn [s_files] in Hp.
    destruct (rdf_trace (queue_deleted (attached_tree_labels g1) (dd_deleted (workflow_dd g1)) q1) f) as [_ Hok].
    destruct (Hok p Hp) as [Hf Hq].
    assert (exists v, qfile_get (queue_deleted (attached_tree_labels g1) (dd_deleted (workflow_dd g1)) q1) p = Some v /\
                      (v = None \/ exists h0, v = Some h0 /\ stat f p = SFile h0)) as [v [Hv Hvv]].
    { destruct Hq as [Hq|[h0 [Hs Hq]]]; [exists None | exists (Some h0)]; split; auto. right. exists h0. auto. }
    destruct (Hown p v Hv) as [n [Hn [Hkind [Hlab Hrole]]]].
    assert (is_output_role (nfstate n) = true) as Hout.
    { unfold is_output_role. destruct Hrole as [[_ H]|[h [_ [_ H]]]]; rewrite H; [apply orb_true_r | reflexivity]. }
    exists n. split; [exact Hn | split; [exact Hkind | split; [exact Hlab|]]].
    split; [rewrite <- Hlab; apply Hev; assumption|].
    split; [apply gen_roles_disjoint; exact Hout|]. split; [exact Hout|].
    split; [apply is_unlinkable_lkind; exact Hf|].
    destruct Hrole as [[_ H]|[h [Hvh [Hh _]]]]; [left; exact H|].
    right. left. destruct Hvv as [Hvv|[h0 [Hvv Hs]]]; [congruence|].
    exists h0. split; [exact Hs | congruence].
Qed.

(* a removed directory was a directory, and everything that was below it was itself removed by
   the same cleanup; nothing else vanishes *)
Definition dirs_only_when_emptied (f f' : fsys) (files dirs : list str) : Prop :=
  (forall d, In d dirs -> fs_get f d = Some FDir /\
     forall p, under d p = true -> fs_get f p <> None -> In p files \/ In p dirs) /\
  (forall p, fs_get f p <> None -> fs_get f' p = None -> In p files \/ In p dirs) /\
  (forall p e, fs_get f' p = Some e -> fs_get f p = Some e).

Lemma trace_inv_dirs f f' files dirs : trace_inv f f' files dirs -> dirs_only_when_emptied f f' files dirs.
Proof.
  intros [A B C D]. split; [|split].
  - intros d Hd. destruct (D d Hd) as [D1 [_ D3]]. split; assumption.
  - exact B.
  - exact A.
Qed.

Theorem dir_removed_only_if_empty_rdf q f :
  let r := remove_deletable_files q f in dirs_only_when_emptied f (r_fs r) (r_files r) (r_dirs r).
Proof. cbv zeta. apply trace_inv_dirs. apply rdf_trace. Qed.

Theorem dir_removed_only_if_empty_finalize c g f :
  let r := finalize c (init_state g f) in dirs_only_when_emptied f (s_fs r) (s_files r) (s_dirs r).
Proof.
  cbv zeta. destruct (existsb (guard_fires c) finalize_guards) eqn:Hg.
  - unfold finalize, finalize_with. rewrite Hg. cbn [init_state s_fs s_files s_dirs].
    apply trace_inv_dirs. apply trace_inv_init.
  - rewrite (finalize_unguarded c g f Hg). destruct (revert_optional g empty_queue) as [g1 q1].
    cbv zeta. cbn [s_fs s_files s_dirs]. apply dir_removed_only_if_empty_rdf.
Qed.

(* ---- histories of file rows: output-role states only arise from declared outputs ------------ *)

Definition rows_inv (rows : list frow) (ever : list str) : Prop :=
  forall r, In r rows -> is_output_role (fr_state r) = true -> In (fr_path r) ever.

Lemma write_state_path r s h : fr_path (write_state r s h) = fr_path r.
Proof. reflexivity. Qed.
Lemma write_state_state r s h : fr_state (write_state r s h) = s.
Proof. reflexivity. Qed.

Lemma upd_row_inv rows ever p fn :
  (forall r, fr_path (fn r) = fr_path r /\
             (is_output_role (fr_state (fn r)) = true -> is_output_role (fr_state r) = true)) ->
  rows_inv rows ever -> rows_inv (upd_row rows p fn) ever.
Proof.
  intros Hfn Hinv r Hin Hrole. unfold upd_row in Hin. apply in_map_iff in Hin.
  destruct Hin as [r0 [Hr0 Hin0]]. destruct (str_eqb (fr_path r0) p).
  - subst r. destruct (Hfn r0) as [Hp Hs]. rewrite Hp. apply Hinv; [exact Hin0 | apply Hs; exact Hrole].
  - subst r. apply Hinv; assumption.
Qed.

Lemma rows_inv_weaken rows ever p : rows_inv rows ever -> rows_inv rows (p :: ever).
Proof. intros H r Hin Hrole. right. apply H; assumption. Qed.

Lemma gen_transitions_keep_role cause old known n :
  lookup_transition cause old known = Some n -> is_output_role n = true -> is_output_role old = true.
Proof.
  unfold lookup_transition.
  destruct (find _ hash_transitions) as [[[[c o] k] n']|] eqn:Hf; [|discriminate].
  intros H. inversion H. subst n'. apply find_some in Hf. destruct Hf as [Hin Hm].
  apply andb_true_iff in Hm. destruct Hm as [Hm _]. apply andb_true_iff in Hm. destruct Hm as [_ Ho].
  apply N.eqb_eq in Ho. subst o.
  assert (forallb (fun t : (N * N * bool) * N => let '((_, o, _), n) := t in
            implb (is_output_role n) (is_output_role o)) hash_transitions = true) as Hall
    by (vm_compute; reflexivity).
  rewrite forallb_forall in Hall. specialize (Hall _ Hin). cbv beta iota in Hall.
  intros Hn. rewrite Hn in Hall. exact Hall.
Qed.

Lemma gen_set_state_keep_role site from to :
  nth_error set_state_sites site = Some (from, to) -> is_output_role to = true -> is_output_role from = true.
Proof.
  intros Hn. apply nth_error_In in Hn.
  assert (forallb (fun t : N * N => implb (is_output_role (snd t)) (is_output_role (fst t))) set_state_sites = true)
    as Hall by (vm_compute; reflexivity).
  rewrite forallb_forall in Hall. specialize (Hall _ Hn). cbn [fst snd] in Hall.
  intros Ht. rewrite Ht in Hall. exact Hall.
Qed.

Lemma gen_keep_old s : memN s keep_old = true -> is_output_role s = true.
Proof. intros H. apply (memN_forallb is_output_role s _ H). vm_compute. reflexivity. Qed.

Lemma gen_static_requests :
  is_output_role FS_UNCONFIRMED = false /\ is_output_role FS_UNDECLARED = false /\
  memN FS_UNCONFIRMED keep_requested = false.
Proof. vm_compute. repeat split; reflexivity. Qed.

Lemma gen_revert_from_role s : memN s revert_from = true -> is_output_role s = true.
Proof. intros H. apply (memN_forallb is_output_role s _ H). vm_compute. reflexivity. Qed.

Lemma init_row_state_role req old :
  is_output_role (init_row_state req old) = true -> is_output_role req = true \/ is_output_role old = true.
Proof.
  unfold init_row_state. destruct (memN req keep_requested && memN old keep_old) eqn:E.
  - intros H. right. exact H.
  - destruct (keep_volatile_on_supply && (req =? FS_UNDECLARED) && (old =? FS_VOLATILE)) eqn:E2.
    + intros H. right. apply andb_true_iff in E2. destruct E2 as [_ E2]. apply N.eqb_eq in E2. rewrite E2. exact H.
    + intros H. left. exact H.
Qed.

Lemma init_row_inv rows ever p req :
  rows_inv rows ever -> (is_output_role req = true -> In p ever) -> rows_inv (init_row rows p req) ever.
Proof.
  intros Hinv Hreq. unfold init_row. destruct (has_row rows p).
  - intros r Hin Hrole. unfold upd_row in Hin. apply in_map_iff in Hin. destruct Hin as [r0 [Hr0 Hin0]].
    destruct (str_eqb (fr_path r0) p) eqn:E.
    + subst r. rewrite write_state_path. rewrite write_state_state in Hrole.
      apply init_row_state_role in Hrole. destruct Hrole as [H|H].
      * apply str_eqb_eq in E. rewrite E. apply Hreq. exact H.
      * apply Hinv; assumption.
    + subst r. apply Hinv; assumption.
  - intros r Hin Hrole. apply in_app_or in Hin. destruct Hin as [Hin|[<-|[]]].
    + apply Hinv; assumption.
    + cbn [fr_path fr_state] in *. apply Hreq. exact Hrole.
Qed.

Lemma apply_fop_inv h o : rows_inv (h_rows h) (h_ever h) -> rows_inv (h_rows (apply_fop h o)) (h_ever (apply_fop h o)).
Proof.
  intros Hinv. destruct gen_static_requests as [G1 [G2 G3]].
  destruct o as [p st|p|p|cause p hh|site p|p|p]; cbn [apply_fop].
  - destruct (is_output_role st && memN st declare_states); [|exact Hinv]. cbn [h_rows h_ever].
    apply init_row_inv; [apply rows_inv_weaken; exact Hinv | intros _; left; reflexivity].
  - cbn [h_rows h_ever]. apply init_row_inv; [exact Hinv | intros H; congruence].
  - cbn [h_rows h_ever]. apply init_row_inv; [exact Hinv | intros H; congruence].
  - cbn [h_rows h_ever]. apply upd_row_inv; [|exact Hinv]. intros r.
    destruct (lookup_transition cause (fr_state r) _) as [n|] eqn:Hl.
    + split; [reflexivity|]. rewrite write_state_state. apply (gen_transitions_keep_role _ _ _ _ Hl).
    + split; [reflexivity | auto].
  - destruct (nth_error set_state_sites site) as [[from to]|] eqn:Hn; [|exact Hinv].
    cbn [h_rows h_ever]. apply upd_row_inv; [|exact Hinv]. intros r.
    destruct (fr_state r =? from) eqn:E.
    + split; [reflexivity|]. rewrite write_state_state. apply N.eqb_eq in E. rewrite E.
      apply (gen_set_state_keep_role _ _ _ Hn).
    + split; [reflexivity | auto].
  - cbn [h_rows h_ever]. apply upd_row_inv; [|exact Hinv]. intros r.
    destruct (memN (fr_state r) revert_from && negb (fr_state r =? revert_exempt)) eqn:E.
    + split; [reflexivity|]. intros _. apply andb_true_iff in E. apply gen_revert_from_role. apply E.
    + split; [reflexivity | auto].
  - cbn [h_rows h_ever]. intros r Hin Hrole. apply filter_In in Hin. apply Hinv; [apply Hin | exact Hrole].
Qed.

Theorem ever_output_invariant ops :
  let h := run_fops ops empty_hist in rows_inv (h_rows h) (h_ever h).
Proof.
  cbv zeta. unfold run_fops.
  assert (forall h0, rows_inv (h_rows h0) (h_ever h0) ->
            rows_inv (h_rows (fold_left apply_fop ops h0)) (h_ever (fold_left apply_fop ops h0))) as Hgen.
  { induction ops as [|o ops IH]; intros h0 H0; [exact H0|]. cbn [fold_left]. apply IH. apply apply_fop_inv. exact H0. }
  apply Hgen. intros r [].
Qed.

(* ever_output only grows *)
Lemma apply_fop_ever_mono h o p : In p (h_ever h) -> In p (h_ever (apply_fop h o)).
Proof.
  intros H. destruct o as [q st|q|q|cause q hh|site q|q|q]; cbn [apply_fop]; try exact H.
  - destruct (_ && _); [right; exact H | exact H].
  - destruct (nth_error set_state_sites site) as [[from to]|]; exact H.
Qed.

(* the rows of a graph carry the invariant over to ever_inv *)
Lemma rows_inv_ever_inv g ever : rows_inv (rows_of g) ever -> ever_inv g ever.
Proof.
  intros H n Hn Hk Hrole. unfold rows_inv, rows_of in H.
  apply (H (mkRow (nlabel n) (nfstate n) (nfhash n))); [|exact Hrole].
  apply in_map_iff. exists n. split; [reflexivity|]. apply filter_In. split; [exact Hn|].
  apply N.eqb_eq. exact Hk.
Qed.

(* ---- static adoption ----------------------------------------------------------------------- *)

Theorem static_adoption_forgets_output_hash r :
  memN (fr_state r) clear_pair_old = true ->
  let r' := write_state r (init_row_state FS_UNCONFIRMED (fr_state r)) (fr_hash r) in
  fr_state r' = FS_UNCONFIRMED /\ fr_hash r' = None /\ is_output_role (fr_state r') = false /\
  memN (fr_state r') clean_select_states = false /\
  memN (fr_state r') bd_volatile_states = false /\ memN (fr_state r') bd_hashed_states = false.
Proof.
  intros Hold. cbv zeta. destruct gen_static_requests as [G1 [G2 G3]].
  assert (init_row_state FS_UNCONFIRMED (fr_state r) = FS_UNCONFIRMED) as Hs.
  { unfold init_row_state. rewrite G3. cbn [andb].
    assert ((FS_UNCONFIRMED =? FS_UNDECLARED) = false) as -> by (vm_compute; reflexivity).
    rewrite andb_false_r. reflexivity. }
  rewrite Hs. split; [reflexivity|]. split.
  - unfold write_state, clear_hash_when. cbn [fr_hash]. rewrite Hold.
    assert (memN FS_UNCONFIRMED clear_pair_new = true) as -> by (vm_compute; reflexivity).
    rewrite orb_true_r. destruct (fr_hash r); reflexivity.
  - rewrite write_state_state. vm_compute. repeat split; reflexivity.
Qed.

(* an adopted file is not queued by File.before_delete *)
Lemma before_delete_static_no_file n q :
  nkind n = KFILE -> memN (nfstate n) bd_volatile_states = false -> memN (nfstate n) bd_hashed_states = false ->
  forall trees p, qfile_get (before_delete trees n q) p = qfile_get q p.
Proof.
  intros Hk Hv Hh trees p. unfold before_delete. rewrite Hk, N.eqb_refl, Hv, Hh. apply qfile_get_mark_dir.
Qed.

(* ---- D12: an emptied directory of a still-declared static tree is removed ------------------- *)

(* what one would want: no removed directory is the root of an attached static tree *)
Definition dirs_spare_attached_static_trees : Prop :=
  forall c g f d t,
    let r := finalize c (init_state g f) in
    In d (s_dirs r) -> In t (gnodes (s_g r)) -> nkind t = KTREE -> ndet t = false -> nlabel t <> d ++ [SLASH].

Definition d12_data : str := [100; 97; 116; 97].                                   (* "data" *)
Definition d12_d1 : str := d12_data ++ [SLASH; 100; 49; 46; 116; 120; 116].         (* "data/d1.txt" *)
Definition d12_o : str := [111; 46; 116; 120; 116].                                 (* "o.txt" *)
Definition d12_graph : graph :=
  let root := (KROOT, []) in let plan := (KSTEP, [112]) in let tree := (KTREE, d12_data ++ [SLASH]) in
  let t := (KSTEP, [116]) in
  mkGraph [mkNode root (Some root) false 0 None false 0 0;
           mkNode plan (Some root) false 0 None true 34 23;
           mkNode tree (Some plan) false 0 None false 0 0;
           mkNode (KFILE, d12_d1) (Some tree) false FS_MISSING None false 0 0;     (* the user deleted it *)
           mkNode t None true 0 None true 32 23;                                    (* dropped from the plan *)
           mkNode (KFILE, d12_o) (Some t) true FS_BUILT (Some 1) false 0 0]
          [((KFILE, d12_d1), t); (t, (KFILE, d12_o))].
Definition d12_fs : fsys := [(d12_data, FDir); (d12_o, FFile 1)].

Theorem dirs_spare_attached_static_trees_refuted :
  mark_dir_skips_static_trees = false -> ~ dirs_spare_attached_static_trees.
Proof.
  intros Hflag H. unfold mark_dir_skips_static_trees in Hflag.
  first
    [ discriminate Hflag
    | apply (H (mkCtx false 0 true) d12_graph d12_fs d12_data
               (mkNode (KTREE, d12_data ++ [SLASH]) (Some (KSTEP, [112])) false 0 None false 0 0));
      [ vm_compute; left; reflexivity
      | vm_compute; right; right; left; reflexivity
      | reflexivity | reflexivity | reflexivity ] ].
Qed.

(* ---- stepup clean -------------------------------------------------------------------------- *)

Lemma insert_node_desc_in x l y : In y (insert_node_desc x l) -> y = x \/ In y l.
Proof.
  induction l as [|a l IH]; cbn [insert_node_desc]; intros H.
  - destruct H as [<-|[]]. left. reflexivity.
  - destruct (lex_lt (nlabel x) (nlabel a)).
    + destruct H as [<-|H]; [right; left; reflexivity|]. destruct (IH H) as [->|H']; [left; reflexivity | right; right; exact H'].
    + destruct H as [<-|H]; [left; reflexivity | right; exact H].
Qed.

Lemma sort_nodes_desc_in l y : In y (sort_nodes_desc l) -> In y l.
Proof.
  induction l as [|a l IH]; cbn [sort_nodes_desc fold_right]; intros H; [exact H|].
  apply insert_node_desc_in in H. destruct H as [->|H]; [left; reflexivity | right; apply IH; exact H].
Qed.

Lemma gen_clean_hash_checked k : clean_hash_checked k = true.
Proof. destruct k; reflexivity. Qed.


(* the part of one iteration after `changed` is known *)
Definition clean_tail (a : clean_args) (f : fsys) (p : str) (changed : bool) : fsys * cstep :=
  if a_safe a && changed then (f, CSkip)
  else if a_commit a then
    match fs_get f p with
    | Some FDir => (f, CCrash)
    | None => (f, CSkip)
    | Some _ => (fs_del f p, CRemoved)
    end
  else (f, CSkip).

Lemma clean_tail_removed a f p c f' : clean_tail a f p c = (f', CRemoved) ->
  is_unlinkable (fs_get f p) = true /\ f' = fs_del f p /\ a_commit a = true /\ (c = false \/ a_safe a = false).
Proof.
  unfold clean_tail. destruct (a_safe a && c) eqn:Hsc; [intros H; inversion H|].
  destruct (a_commit a) eqn:Hc; [|intros H; inversion H].
  destruct (fs_get f p) as [[h| |t]|] eqn:Hg; intros H; inversion H; subst;
    (split; [reflexivity | split; [reflexivity | split; [reflexivity|]]]);
    (destruct c; [right; destruct (a_safe a); [discriminate Hsc | reflexivity] | left; reflexivity]).
Qed.

Lemma clean_tail_other a f p c f' st : clean_tail a f p c = (f', st) -> st <> CRemoved -> f' = f.
Proof.
  unfold clean_tail. destruct (a_safe a && c); [intros H; inversion H; reflexivity|].
  destruct (a_commit a); [|intros H; inversion H; reflexivity].
  destruct (fs_get f p) as [[h| |t]|]; intros H; inversion H; subst; intros Hne; try reflexivity; congruence.
Qed.

Lemma clean_one_unfold a f n :
  clean_one a f n =
  (if (if clean_missing_follows_links
       then match stat f (nlabel n) with SMissing => true | _ => false end
       else match fs_get f (nlabel n) with None => true | _ => false end)
   then (f, CSkip)
   else match (if negb (memN (nfstate n) clean_compared_states) then Some false else
               if negb (clean_hash_checked (lkind f (nlabel n))) then Some false else
                 match stat f (nlabel n) with
                 | SDir => None
                 | SFile h => Some (negb (match nfhash n with Some r => h =? r | None => false end))
                 | SMissing => Some (match nfhash n with Some _ => true | None => false end)
                 end) with
        | None => (f, CCrash)
        | Some changed => clean_tail a f (nlabel n) changed
        end).
Proof. reflexivity. Qed.

(* file rows in a hashed output state carry a hash (CHECK constraint of the file table); only needed when `missing`
   is decided without following links *)
Definition hash_if_lexists (n : node) : Prop :=
  clean_missing_follows_links = false -> memN (nfstate n) volatile_states = false -> nfhash n <> None.

(* the regenerated state conjuncts of `changed`: among the states SELECT_OUTPUTS selects, the hash comparison is
   skipped for volatile outputs only *)
Lemma gen_clean_compared s :
  memN s clean_select_states = true -> memN s clean_compared_states = false -> memN s volatile_states = true.
Proof.
  intros Hs Hc.
  assert (forallb (fun x => memN x clean_compared_states || memN x volatile_states) clean_select_states = true) as Hall
    by reflexivity.
  pose proof (memN_forallb _ s _ Hs Hall) as H. cbv beta in H. rewrite Hc in H. exact H.
Qed.

Lemma clean_one_removed a f n f' :
  hash_if_lexists n -> memN (nfstate n) clean_select_states = true ->
  clean_one a f n = (f', CRemoved) ->
  is_unlinkable (fs_get f (nlabel n)) = true /\ f' = fs_del f (nlabel n) /\ a_commit a = true /\
    (memN (nfstate n) volatile_states = true \/ (exists h, stat f (nlabel n) = SFile h /\ nfhash n = Some h) \/
     a_safe a = false).
Proof.
  intros Hhash Hsel. rewrite clean_one_unfold. unfold hash_if_lexists in Hhash.
  pose proof (gen_clean_compared (nfstate n) Hsel) as Hcmp.
  destruct clean_missing_follows_links eqn:Hmf.
  - (* exists(): follows links *)
    destruct (stat f (nlabel n)) as [|h|] eqn:Hs; [intros H; inversion H| |].
    all: destruct (memN (nfstate n) clean_compared_states) eqn:Hv; cbn [negb].
    2,4: intros H; apply clean_tail_removed in H; destruct H as [Hu [-> [Hc _]]];
         (split; [exact Hu | split; [reflexivity | split; [exact Hc | left; apply Hcmp; reflexivity]]]).
    all: rewrite gen_clean_hash_checked; cbn [negb].
    + intros H. apply clean_tail_removed in H. destruct H as [Hu [-> [Hc Hwhy]]].
      split; [exact Hu | split; [reflexivity | split; [exact Hc|]]].
      destruct Hwhy as [Hwhy|Hwhy]; [|right; right; exact Hwhy].
      destruct (nfhash n) as [r|]; [|discriminate Hwhy].
      apply negb_false_iff in Hwhy. apply N.eqb_eq in Hwhy. subst r. right. left. exists h. split; reflexivity.
    + intros H. inversion H.
  - (* lexists(): a dangling link is not missing *)
    destruct (fs_get f (nlabel n)) as [e|] eqn:Hg; [|intros H; inversion H].
    destruct (memN (nfstate n) clean_compared_states) eqn:Hv; cbn [negb].
    2: { intros H. apply clean_tail_removed in H. destruct H as [Hu [-> [Hc _]]]. rewrite Hg in Hu.
         split; [exact Hu | split; [reflexivity | split; [exact Hc | left; apply Hcmp; reflexivity]]]. }
    + rewrite gen_clean_hash_checked. cbn [negb].
      destruct (memN (nfstate n) volatile_states) eqn:Hvol.
      { intros H. destruct (stat f (nlabel n)); try (apply clean_tail_removed in H; destruct H as [Hu [-> [Hc _]]]; rewrite Hg in Hu;
          split; [exact Hu | split; [reflexivity | split; [exact Hc | left; reflexivity]]]). inversion H. }
      destruct (stat f (nlabel n)) as [|h|] eqn:Hs.
      * intros H. apply clean_tail_removed in H. destruct H as [Hu [-> [Hc Hwhy]]]. rewrite Hg in Hu.
        split; [exact Hu | split; [reflexivity | split; [exact Hc|]]].
        destruct Hwhy as [Hwhy|Hwhy]; [|right; right; exact Hwhy].
        destruct (nfhash n) as [r|] eqn:Hh; [discriminate Hwhy|].
        exfalso. apply (Hhash eq_refl eq_refl). reflexivity.
      * intros H. apply clean_tail_removed in H. destruct H as [Hu [-> [Hc Hwhy]]]. rewrite Hg in Hu.
        split; [exact Hu | split; [reflexivity | split; [exact Hc|]]].
        destruct Hwhy as [Hwhy|Hwhy]; [|right; right; exact Hwhy].
        destruct (nfhash n) as [r|]; [|discriminate Hwhy].
        apply negb_false_iff in Hwhy. apply N.eqb_eq in Hwhy. subst r. right. left. exists h. split; reflexivity.
      * intros H. inversion H.
Qed.

(* the shape of a removal, without any hypothesis *)
Lemma clean_one_removed_shape a f n f' :
  clean_one a f n = (f', CRemoved) ->
  is_unlinkable (fs_get f (nlabel n)) = true /\ f' = fs_del f (nlabel n) /\ a_commit a = true.
Proof.
  rewrite clean_one_unfold.
  destruct (if clean_missing_follows_links then _ else _); [intros H; inversion H|].
  destruct (if negb (memN (nfstate n) clean_compared_states) then _ else _) as [changed|]; [|intros H; inversion H].
  intros H. apply clean_tail_removed in H. destruct H as [Hu [-> [Hc _]]]. split; [exact Hu | split; [reflexivity | exact Hc]].
Qed.

Lemma clean_one_other a f n f' st : clean_one a f n = (f', st) -> st <> CRemoved -> f' = f.
Proof.
  rewrite clean_one_unfold.
  destruct (if clean_missing_follows_links then _ else _); [intros H; inversion H; reflexivity|].
  destruct (if negb (memN (nfstate n) clean_compared_states) then _ else _) as [changed|].
  - apply clean_tail_other.
  - intros H; inversion H; reflexivity.
Qed.

Definition clean_ok (a : clean_args) (f0 : fsys) (sel : list node) (p : str) : Prop :=
  exists n, In n sel /\ nlabel n = p /\ a_commit a = true /\ is_unlinkable (fs_get f0 p) = true /\
    (memN (nfstate n) volatile_states = true \/ (exists h0, stat f0 p = SFile h0 /\ nfhash n = Some h0) \/ a_safe a = false).

Lemma clean_loop_inv a f0 sel ns : forall f removed f' removed' crash,
  (forall n, In n sel -> hash_if_lexists n /\ memN (nfstate n) clean_select_states = true) ->
  (forall n, In n ns -> In n sel) ->
  trace_inv f0 f removed [] -> (forall x, In x removed -> clean_ok a f0 sel x) ->
  clean_loop a ns f removed = (f', removed', crash) ->
  trace_inv f0 f' removed' [] /\ (forall x, In x removed' -> clean_ok a f0 sel x).
Proof.
  induction ns as [|n ns IH]; intros f removed f' removed' crash Hhash Hsel Hinv Hok Hrun.
  - cbn [clean_loop] in Hrun. inversion Hrun; subst. split; assumption.
  - cbn [clean_loop] in Hrun. destruct (clean_one a f n) as [f1 st] eqn:Hone.
    assert (forall m, In m ns -> In m sel) as Hsel' by (intros m Hm; apply Hsel; right; exact Hm).
    destruct st.
    + assert (f1 = f) as -> by (apply (clean_one_other _ _ _ _ _ Hone); discriminate).
      apply (IH _ _ _ _ _ Hhash Hsel' Hinv Hok Hrun).
    + destruct (Hhash n (Hsel n (or_introl eq_refl))) as [Hh1 Hh2].
      destruct (clean_one_removed _ _ _ _ Hh1 Hh2 Hone) as [Hg [-> [Hc Hwhy]]].
      apply (IH _ _ f' removed' crash Hhash Hsel' (trace_inv_file _ _ _ _ _ Hinv Hg)); [|exact Hrun].
      intros x [<-|Hx]; [|apply Hok; exact Hx].
      exists n. split; [apply Hsel; left; reflexivity | split; [reflexivity | split; [exact Hc|]]].
      split; [apply (is_unlinkable_sub f f0 _ (ti_sub _ _ _ _ Hinv) Hg)|].
      destruct Hwhy as [H|[[h [Hs Hh]]|H]]; [left; exact H | | right; right; exact H].
      right. left. exists h. split; [apply (stat_sub f f0 _ h (ti_sub _ _ _ _ Hinv) Hs) | exact Hh].
    + assert (f1 = f) as -> by (apply (clean_one_other _ _ _ _ _ Hone); discriminate).
      inversion Hrun; subst. split; assumption.
Qed.

Lemma walk_up_inv f0 files fuel : forall d f dirs f' log,
  trace_inv f0 f files dirs -> walk_up fuel d f dirs = (f', log) -> trace_inv f0 f' files log.
Proof.
  induction fuel as [|fuel IH]; intros d f dirs f' log Hinv Hrun.
  - cbn [walk_up] in Hrun. inversion Hrun; subst. exact Hinv.
  - cbn [walk_up] in Hrun. destruct (is_dot d || str_eqb d [SLASH]).
    + inversion Hrun; subst. exact Hinv.
    + destruct (rmdir_if_empty f d) as [f1 b] eqn:Hr. apply rmdir_if_empty_spec in Hr.
      destruct Hr as [[-> [Hg [He ->]]]|[-> ->]].
      * apply (IH _ _ _ _ _ (trace_inv_dir _ _ _ _ _ Hinv Hg He) Hrun).
      * inversion Hrun; subst. exact Hinv.
Qed.

Lemma walk_up_fold_inv f0 files parents : forall f dirs f' log,
  trace_inv f0 f files dirs ->
  fold_left (fun acc d => let '(ff, lg) := acc in walk_up (S (length d)) d ff lg) parents (f, dirs) = (f', log) ->
  trace_inv f0 f' files log.
Proof.
  induction parents as [|d parents IH]; intros f dirs f' log Hinv Hrun.
  - cbn [fold_left] in Hrun. inversion Hrun; subst. exact Hinv.
  - cbn [fold_left] in Hrun. destruct (walk_up (S (length d)) d f dirs) as [f1 l1] eqn:Hw.
    apply (IH _ _ _ _ (walk_up_inv _ _ _ _ _ _ _ _ Hinv Hw) Hrun).
Qed.

Lemma clean_loop_trace a f0 ns : forall f removed f' removed' crash,
  trace_inv f0 f removed [] -> (removed <> [] -> a_commit a = true) ->
  clean_loop a ns f removed = (f', removed', crash) ->
  trace_inv f0 f' removed' [] /\ (removed' <> [] -> a_commit a = true).
Proof.
  induction ns as [|n ns IH]; intros f removed f' removed' crash Hinv Hc Hrun.
  - cbn [clean_loop] in Hrun. inversion Hrun; subst. split; assumption.
  - cbn [clean_loop] in Hrun. destruct (clean_one a f n) as [f1 st] eqn:Hone. destruct st.
    + assert (f1 = f) as -> by (apply (clean_one_other _ _ _ _ _ Hone); discriminate).
      apply (IH _ _ _ _ _ Hinv Hc Hrun).
    + destruct (clean_one_removed_shape _ _ _ _ Hone) as [Hg [-> Hcommit]].
      apply (IH _ _ f' removed' crash (trace_inv_file _ _ _ _ _ Hinv Hg)); [intros _; exact Hcommit | exact Hrun].
    + assert (f1 = f) as -> by (apply (clean_one_other _ _ _ _ _ Hone); discriminate).
      inversion Hrun; subst. split; assumption.
Qed.

Lemma trace_inv_rev f fa fl dl : trace_inv f fa fl dl -> trace_inv f fa (rev fl) (rev dl).
Proof.
  intros [A B C D]. constructor.
  - exact A.
  - intros p H0 Hn. destruct (B p H0 Hn) as [H|H]; [left | right]; apply -> in_rev; exact H.
  - intros p Hp. apply in_rev in Hp. apply C. exact Hp.
  - intros d Hd. apply in_rev in Hd. destruct (D d Hd) as [D1 [D2 D3]]. split; [exact D1 | split; [exact D2|]].
    intros p Hu H0. destruct (D3 p Hu H0) as [H|H]; [left | right]; apply -> in_rev; exact H.
Qed.

Lemma clean_tool_trace_only g a trs f :
  let r := clean_tool g a trs f in
  trace_inv f (k_fs r) (k_files r) (k_dirs r) /\ (k_files r <> [] -> a_commit a = true).
Proof.
  unfold clean_tool.
  destruct (clean_loop a (sort_nodes_desc (clean_selected g a trs)) f []) as [[f1 removed] crash] eqn:Hloop.
  destruct (clean_loop_trace a f _ f [] f1 removed crash (trace_inv_init f) (fun H => match H eq_refl with end) Hloop)
    as [Hinv Hc].
  assert (rev removed <> [] -> a_commit a = true) as Hc'.
  { intros Hne. apply Hc. intros ->. apply Hne. reflexivity. }
  destruct crash.
  - cbn [k_fs k_files k_dirs]. split; [apply (trace_inv_rev f f1 removed []); exact Hinv | exact Hc'].
  - destruct (fold_left _ _ (f1, [])) as [f2 dlog] eqn:Hfold. cbn [k_fs k_files k_dirs].
    split; [apply trace_inv_rev; apply (walk_up_fold_inv _ _ _ _ _ _ _ Hinv Hfold) | exact Hc'].
Qed.

Definition hashed_rows (g : graph) : Prop := forall n, In n (gnodes g) -> hash_if_lexists n.

Lemma clean_tool_trace g a trs f :
  hashed_rows g ->
  let r := clean_tool g a trs f in
  trace_inv f (k_fs r) (k_files r) (k_dirs r) /\
  (forall x, In x (k_files r) -> clean_ok a f (clean_selected g a trs) x).
Proof.
  intros Hrows. unfold clean_tool.
  destruct (clean_loop a (sort_nodes_desc (clean_selected g a trs)) f []) as [[f1 removed] crash] eqn:Hloop.
  assert (forall n, In n (clean_selected g a trs) -> hash_if_lexists n /\ memN (nfstate n) clean_select_states = true) as Hhash.
  { intros n Hn. unfold clean_selected in Hn. apply filter_In in Hn. destruct Hn as [Hn Hcond]. split; [apply Hrows; exact Hn|].
    apply andb_true_iff in Hcond. destruct Hcond as [Hcond _]. apply andb_true_iff in Hcond. exact (proj2 Hcond). }
  destruct (clean_loop_inv a f (clean_selected g a trs) _ f [] f1 removed crash Hhash
              (fun n Hn => sort_nodes_desc_in _ _ Hn) (trace_inv_init f)
              (fun x (H : In x []) => match H with end) Hloop) as [Hinv Hok].
  assert (forall fa fl dl, trace_inv f fa fl dl -> trace_inv f fa (rev fl) (rev dl)) as Hrev.
  { intros fa fl dl [A B C D]. constructor.
    - exact A.
    - intros p H0 Hn. destruct (B p H0 Hn) as [H|H]; [left | right]; apply -> in_rev; exact H.
    - intros p Hp. apply in_rev in Hp. apply C. exact Hp.
    - intros d Hd. apply in_rev in Hd. destruct (D d Hd) as [D1 [D2 D3]]. split; [exact D1 | split; [exact D2|]].
      intros p Hu H0. destruct (D3 p Hu H0) as [H|H]; [left | right]; apply -> in_rev; exact H. }
  destruct crash.
  - cbn [k_fs k_files k_dirs]. split; [apply (Hrev f1 removed []); exact Hinv|].
    intros x Hx. apply in_rev in Hx. apply Hok. exact Hx.
  - destruct (fold_left _ _ (f1, [])) as [f2 dlog] eqn:Hfold. cbn [k_fs k_files k_dirs].
    split; [apply Hrev; apply (walk_up_fold_inv _ _ _ _ _ _ _ Hinv Hfold)|].
    intros x Hx. apply in_rev in Hx. apply Hok. exact Hx.
Qed.

Theorem removed_only_owned_clean g a trs f ever :
  ever_inv g ever -> hashed_rows g ->
  forall p, In p (k_files (clean_tool g a trs f)) -> owned_removal g f ever (negb (a_safe a)) p.
Proof.
  intros Hev Hrows p Hp. destruct (clean_tool_trace g a trs f Hrows) as [_ Hok].
  destruct (Hok p Hp) as [n [Hsel [Hlab [_ [Hf Hwhy]]]]].
  unfold clean_selected in Hsel. apply filter_In in Hsel. destruct Hsel as [Hn Hcond].
  apply andb_true_iff in Hcond. destruct Hcond as [Hcond _].
  apply andb_true_iff in Hcond. destruct Hcond as [Hcond Hstate].
  apply andb_true_iff in Hcond. destruct Hcond as [Hkind _]. apply N.eqb_eq in Hkind.
  pose proof (gen_clean_select _ Hstate) as Hout.
  exists n. split; [exact Hn | split; [exact Hkind | split; [exact Hlab|]]].
  split; [rewrite <- Hlab; apply Hev; assumption|].
  split; [apply gen_roles_disjoint; exact Hout|]. split; [exact Hout|].
  split; [apply is_unlinkable_lkind; exact Hf|].
  destruct Hwhy as [H|[H|H]]; [left; exact H | right; left; exact H | right; right; rewrite H; reflexivity].
Qed.

Theorem dir_removed_only_if_empty_clean g a trs f :
  let r := clean_tool g a trs f in dirs_only_when_emptied f (k_fs r) (k_files r) (k_dirs r).
Proof. cbv zeta. apply trace_inv_dirs. apply clean_tool_trace_only. Qed.

(* without --commit nothing is removed *)
Theorem clean_without_commit g a trs f : a_commit a = false -> k_files (clean_tool g a trs f) = [].
Proof.
  intros Hc. destruct (clean_tool_trace_only g a trs f) as [_ Hok].
  destruct (k_files (clean_tool g a trs f)) as [|x l] eqn:E; [reflexivity|].
  assert (a_commit a = true) by (apply Hok; discriminate). congruence.
Qed.

(* ---- C07: orphans are removed from graph and disk ------------------------------------------ *)

Lemma revert_node_key g n : nkey (revert_node g n) = nkey n.
Proof. unfold revert_node. destruct (is_optional_step n); [reflexivity|]. destruct (_ && _); reflexivity. Qed.
Lemma revert_node_det g n : ndet (revert_node g n) = ndet n.
Proof. unfold revert_node. destruct (is_optional_step n); [reflexivity|]. destruct (_ && _); reflexivity. Qed.
Lemma revert_node_creator g n : ncreator (revert_node g n) = ncreator n.
Proof. unfold revert_node. destruct (is_optional_step n); [reflexivity|]. destruct (_ && _); reflexivity. Qed.

Lemma prestep_node_key g n : nkey (prestep_node g n) = nkey n.
Proof. unfold prestep_node. destruct (ncreator n); [|reflexivity]. destruct (_ && _); reflexivity. Qed.
Lemma prestep_node_fstate g n : nfstate (prestep_node g n) = nfstate n.
Proof. unfold prestep_node. destruct (ncreator n); [|reflexivity]. destruct (_ && _); reflexivity. Qed.
Lemma prestep_node_fhash g n : nfhash (prestep_node g n) = nfhash n.
Proof. unfold prestep_node. destruct (ncreator n); [|reflexivity]. destruct (_ && _); reflexivity. Qed.
Lemma prestep_node_attached g n : ndet (prestep_node g n) = false -> ndet n = false.
Proof.
  unfold prestep_node. destruct (ncreator n); [|auto]. destruct (_ && _); [|auto]. cbn [detach_leaf ndet]. discriminate.
Qed.
Lemma prestep_node_creator g n k : ncreator (prestep_node g n) = Some k -> ncreator n = Some k.
Proof.
  unfold prestep_node. destruct (ncreator n) as [c|] eqn:E.
  - destruct (_ && _).
    + cbn [detach_leaf ncreator]. discriminate.
    + intros H. rewrite E in H. exact H.
  - intros H. rewrite E in H. discriminate.
Qed.

(* the graph the deletion loop starts from *)
Definition cleanup_graph (g : graph) : graph := prestep (fst (revert_optional g empty_queue)).

Lemma cleanup_graph_nodes g :
  gnodes (cleanup_graph g) =
  map (fun n => prestep_node (fst (revert_optional g empty_queue)) (revert_node g n)) (gnodes g).
Proof. unfold cleanup_graph, prestep, revert_optional. cbn [fst gnodes]. rewrite map_map. reflexivity. Qed.

Lemma cleanup_graph_deps g : gdeps (cleanup_graph g) = gdeps g.
Proof. reflexivity. Qed.

Lemma cleanup_graph_keys g : map nkey (gnodes (cleanup_graph g)) = map nkey (gnodes g).
Proof.
  rewrite cleanup_graph_nodes, map_map. apply map_ext. intros n.
  rewrite prestep_node_key, revert_node_key. reflexivity.
Qed.

Lemma cleanup_graph_closed g : deps_closed g -> deps_closed (cleanup_graph g).
Proof.
  intros Hc d Hd. rewrite cleanup_graph_deps in Hd. destruct (Hc d Hd) as [n [Hn Hk]].
  exists (prestep_node (fst (revert_optional g empty_queue)) (revert_node g n)). split.
  - rewrite cleanup_graph_nodes. apply in_map_iff. exists n. split; [reflexivity | exact Hn].
  - rewrite prestep_node_key, revert_node_key. exact Hk.
Qed.

(* whatever supports itself after revert + pre-step already did so before *)
Lemma cleanup_graph_ss g S : self_supporting (cleanup_graph g) S -> self_supporting g S.
Proof.
  intros Hss k Hk. destruct (Hss k Hk) as [n' [Hn' [Hkey Hc]]].
  rewrite cleanup_graph_nodes in Hn'. apply in_map_iff in Hn'. destruct Hn' as [m [<- Hm]].
  rewrite prestep_node_key, revert_node_key in Hkey.
  exists m. split; [exact Hm | split; [exact Hkey|]].
  destruct Hc as [Hc|[x [Hx HxS]]].
  - left. apply prestep_node_attached in Hc. rewrite revert_node_det in Hc. exact Hc.
  - right. exists x. split; [|exact HxS]. destruct Hx as [[p' [Hp' [Hpk Hpc]]]|Hd].
    + left. rewrite cleanup_graph_nodes in Hp'. apply in_map_iff in Hp'. destruct Hp' as [p [<- Hp]].
      rewrite prestep_node_key, revert_node_key in Hpk. apply prestep_node_creator in Hpc.
      rewrite revert_node_creator in Hpc. exists p. split; [exact Hp | split; assumption].
    + right. exact Hd.
Qed.

(* every node is kept or ends up in the list of deleted nodes *)
Lemma dd_loop_acc_mono fuel : forall g acc x, In x acc -> In x (snd (dd_loop fuel g acc)).
Proof.
  induction fuel as [|fuel IH]; intros g acc x Hx; [exact Hx|].
  cbn [dd_loop]. destruct (find (eligible g) (gnodes g)); [apply IH; right; exact Hx | exact Hx].
Qed.

Lemma dd_loop_partition fuel : forall g acc x,
  keys_nodup g -> In x (gnodes g) ->
  In x (gnodes (fst (dd_loop fuel g acc))) \/ In x (snd (dd_loop fuel g acc)).
Proof.
  induction fuel as [|fuel IH]; intros g acc x Hnd Hx; [left; exact Hx|].
  cbn [dd_loop]. destruct (find (eligible g) (gnodes g)) as [m|] eqn:Hf; [|left; exact Hx].
  apply find_some in Hf. destruct Hf as [Hm _].
  destruct (key_eqb (nkey x) (nkey m)) eqn:E.
  - apply key_eqb_eq in E. assert (x = m) as -> by (apply (nodup_map_inj nkey (gnodes g)); assumption).
    right. apply dd_loop_acc_mono. left. reflexivity.
  - apply key_eqb_neq in E. apply IH; [apply keys_nodup_del; exact Hnd|].
    apply del_node_nodes_in. split; assumption.
Qed.

(* what File.before_delete assigns *)
Definition bd_value (x : node) : option (option N) :=
  if memN (nfstate x) bd_volatile_states then Some None
  else if memN (nfstate x) bd_hashed_states then
    match nfhash x with Some h => Some (Some h) | None => None end
  else None.

Lemma before_delete_get trees x q p :
  qfile_get (before_delete trees x q) p =
  if (nkind x =? KFILE) && str_eqb (nlabel x) p
  then match bd_value x with Some v => Some v | None => qfile_get q p end
  else qfile_get q p.
Proof.
  unfold before_delete, bd_value. destruct (nkind x =? KFILE) eqn:Ek; cbn [andb].
  - rewrite qfile_get_mark_dir. destruct (memN (nfstate x) bd_volatile_states).
    + rewrite qfile_get_set. destruct (str_eqb (nlabel x) p); reflexivity.
    + destruct (memN (nfstate x) bd_hashed_states).
      * destruct (nfhash x); [rewrite qfile_get_set|]; destruct (str_eqb (nlabel x) p); reflexivity.
      * destruct (str_eqb (nlabel x) p); reflexivity.
  - destruct (nkind x =? KSTEP); [apply qfile_get_mark_dir | reflexivity].
Qed.

Lemma queue_deleted_keeps trees n2 v p l : forall q,
  (forall x, In x l -> nkind x = KFILE -> nlabel x = p -> x = n2) ->
  bd_value n2 = Some v -> qfile_get q p = Some v ->
  qfile_get (queue_deleted trees l q) p = Some v.
Proof.
  unfold queue_deleted. induction l as [|x l IH]; intros q Huniq Hv Hq; [exact Hq|].
  cbn [fold_left]. apply IH; [intros y Hy; apply Huniq; right; exact Hy | exact Hv|].
  rewrite before_delete_get. destruct ((nkind x =? KFILE) && str_eqb (nlabel x) p) eqn:E; [|exact Hq].
  apply andb_true_iff in E. destruct E as [E1 E2]. apply N.eqb_eq in E1. apply str_eqb_eq in E2.
  rewrite (Huniq x (or_introl eq_refl) E1 E2), Hv. reflexivity.
Qed.

Lemma queue_deleted_sets trees n2 v l : forall q,
  In n2 l -> nkind n2 = KFILE ->
  (forall x, In x l -> nkind x = KFILE -> nlabel x = nlabel n2 -> x = n2) ->
  bd_value n2 = Some v ->
  qfile_get (queue_deleted trees l q) (nlabel n2) = Some v.
Proof.
  induction l as [|x l IH]; intros q Hin Hk Huniq Hv; [destruct Hin|].
  assert (forall y, In y l -> nkind y = KFILE -> nlabel y = nlabel n2 -> y = n2) as Huniq'
    by (intros y Hy; apply Huniq; right; exact Hy).
  destruct Hin as [->|Hin].
  - unfold queue_deleted. cbn [fold_left]. apply (queue_deleted_keeps trees n2 v); [exact Huniq' | exact Hv|].
    rewrite before_delete_get. rewrite Hk, N.eqb_refl, str_eqb_refl, Hv. reflexivity.
  - unfold queue_deleted. cbn [fold_left]. apply IH; assumption.
Qed.

(* remove_deletable_files really removes a queued, unmodified file *)
Lemma rdf_file_shape q fd f x : fst (rdf_file q fd f x) = f \/ fst (rdf_file q fd f x) = fs_del f x.
Proof.
  unfold rdf_file, rm_file. destruct (rdf_decide q fd x); [destruct (is_unlinkable (fs_get f x))|]; cbn [fst]; auto.
Qed.

Lemma fs_del_none_stays f x p : fs_get f p = None -> fs_get (fs_del f x) p = None.
Proof.
  intros H. destruct (str_eqb p x) eqn:E.
  - apply str_eqb_eq in E. subst. apply fs_get_del_same.
  - apply str_eqb_neq in E. rewrite fs_get_del_other by exact E. exact H.
Qed.

Lemma rdf_files_gen_none_stays q fd p ps : forall f log,
  fs_get f p = None -> fs_get (fst (rdf_files_gen q fd ps f log)) p = None.
Proof.
  induction ps as [|x ps IH]; intros f log H; [exact H|].
  cbn [rdf_files_gen]. destruct (rdf_file q _ f x) as [f1 b] eqn:E. apply IH.
  pose proof (rdf_file_shape q (match fd with Some y => y | None => f end) f x) as Hs. rewrite E in Hs. cbn [fst] in Hs.
  destruct Hs as [->| ->]; [exact H | apply fs_del_none_stays; exact H].
Qed.

(* a queued regular file that holds the recorded content (or is volatile) is always selected *)
Lemma rdf_decide_regular q fd p v h :
  qfile_get q p = Some v -> (v = None \/ v = Some h) -> fs_get fd p = Some (FFile h) -> rdf_decide q fd p = true.
Proof.
  intros Hq Hv Hg. unfold rdf_decide. rewrite Hq. destruct Hv as [-> | ->]; [reflexivity|].
  destruct (rdf_hash_checked (lkind fd p)); [|reflexivity].
  unfold refreshed. rewrite (stat_regular _ _ _ Hg). apply N.eqb_refl.
Qed.

Lemma rdf_files_gen_removes q fd p v h ps : forall f log,
  qfile_get q p = Some v -> (v = None \/ v = Some h) ->
  In p ps -> fs_get f p = Some (FFile h) -> (forall x, fd = Some x -> fs_get x p = Some (FFile h)) ->
  fs_get (fst (rdf_files_gen q fd ps f log)) p = None.
Proof.
  induction ps as [|x ps IH]; intros f log Hq Hv Hin Hg Hfd; [destruct Hin|].
  cbn [rdf_files_gen]. destruct (rdf_file q _ f x) as [f1 b] eqn:E.
  destruct (str_eqb x p) eqn:Exp.
  - apply str_eqb_eq in Exp. subst x. apply rdf_files_gen_none_stays.
    unfold rdf_file in E. rewrite (rdf_decide_regular q _ p v h Hq Hv) in E.
    + unfold rm_file in E. rewrite Hg in E. cbn [is_unlinkable] in E. inversion E. apply fs_get_del_same.
    + destruct fd as [y|]; [apply Hfd; reflexivity | exact Hg].
  - apply str_eqb_neq in Exp. destruct Hin as [Hin|Hin]; [contradiction|].
    apply IH; [exact Hq | exact Hv | exact Hin | | exact Hfd].
    pose proof (rdf_file_shape q (match fd with Some y => y | None => f end) f x) as Hs. rewrite E in Hs. cbn [fst] in Hs.
    destruct Hs as [->| ->]; [exact Hg | rewrite fs_get_del_other by congruence; exact Hg].
Qed.

Lemma rdf_files_none_stays q p ps f log : fs_get f p = None -> fs_get (fst (rdf_files q ps f log)) p = None.
Proof. unfold rdf_files. apply rdf_files_gen_none_stays. Qed.

Lemma rdf_files_removes q p v h ps f log :
  qfile_get q p = Some v -> (v = None \/ v = Some h) ->
  In p ps -> fs_get f p = Some (FFile h) ->
  fs_get (fst (rdf_files q ps f log)) p = None.
Proof.
  intros Hq Hv Hin Hg. unfold rdf_files. apply (rdf_files_gen_removes q _ p v h); try assumption.
  intros x Hx. unfold rdf_mode in Hx. destruct rdf_decide_first; [|discriminate Hx]. inversion Hx; subst. exact Hg.
Qed.

Lemma in_dedup x l : In x l -> In x (dedup l).
Proof.
  induction l as [|a l IH]; intros H; [destruct H|]. cbn [dedup].
  destruct (existsb (str_eqb a) l) eqn:E.
  - destruct H as [->|H]; [|apply IH; exact H]. apply IH.
    apply existsb_exists in E. destruct E as [y [Hy Hey]]. apply str_eqb_eq in Hey. subst. exact Hy.
  - destruct H as [->|H]; [left; reflexivity | right; apply IH; exact H].
Qed.

Lemma in_insert_desc x y l : y = x \/ In y l -> In y (insert_desc x l).
Proof.
  induction l as [|a l IH]; intros H; cbn [insert_desc].
  - destruct H as [->|[]]. left. reflexivity.
  - destruct (lex_lt x a).
    + destruct H as [->|[->|H]]; [right; apply IH; left; reflexivity | left; reflexivity | right; apply IH; right; exact H].
    + destruct H as [->|H]; [left; reflexivity | right; exact H].
Qed.

Lemma in_sort_desc y l : In y l -> In y (sort_desc l).
Proof.
  induction l as [|a l IH]; intros H; [destruct H|]. cbn [sort_desc fold_right].
  apply in_insert_desc. destruct H as [->|H]; [left; reflexivity | right; apply IH; exact H].
Qed.

Lemma qfile_get_in q p v : qfile_get q p = Some v -> In p (map fst (qfiles q)).
Proof.
  unfold qfile_get. destruct (find _ (qfiles q)) as [e|] eqn:Hf; [|discriminate]. intros _.
  apply find_some in Hf. destruct Hf as [Hin He]. apply str_eqb_eq in He. rewrite <- He. apply in_map. exact Hin.
Qed.

Lemma rdf_removes q f p v h :
  qfile_get q p = Some v -> (v = None \/ v = Some h) -> fs_get f p = Some (FFile h) ->
  fs_get (r_fs (remove_deletable_files q f)) p = None.
Proof.
  intros Hq Hv Hg. unfold remove_deletable_files.
  destruct (rdf_files q _ f []) as [f1 flog] eqn:H1.
  destruct (prune_dirs (qdirs q) f1) as [f2 dlog] eqn:H2. cbn [r_fs].
  assert (fs_get f1 p = None) as Hnone.
  { pose proof (rdf_files_removes q p v h (sort_desc (dedup (map fst (qfiles q)))) f [] Hq Hv) as Hr.
    rewrite H1 in Hr. cbn [fst] in Hr. apply Hr; [|exact Hg].
    apply in_sort_desc, in_dedup. apply (qfile_get_in q p v Hq). }
  rewrite prune_dirs_eq in H2.
  pose proof (prune_loop_inv f1 _ _ f1 [] [] f2 dlog (trace_inv_init f1) H2) as Hinv.
  destruct (fs_get f2 p) as [e|] eqn:E; [|reflexivity].
  apply (ti_sub _ _ _ _ Hinv) in E. congruence.
Qed.

Theorem orphans_removed c g f n v h :
  existsb (guard_fires c) finalize_guards = false ->          (* successful, unrestricted, cleaning enabled *)
  keys_nodup g -> deps_closed g ->
  In n (gnodes g) -> nkind n = KFILE -> ndet n = true ->
  is_revert_target g n = false ->                                (* not an output of an attached optional step *)
  bd_value n = Some v -> (v = None \/ v = Some h) ->             (* VOLATILE, or BUILT/OUTDATED with recorded hash h *)
  fs_get f (nlabel n) = Some (FFile h) ->                        (* on disk, unmodified when a hash is recorded *)
  (~ exists S, self_supporting g S /\ In (nkey n) S) ->          (* nothing attached and no cycle holds it *)
  let r := finalize c (init_state g f) in
  ~ In (nkey n) (map nkey (gnodes (s_g r))) /\ fs_get (s_fs r) (nlabel n) = None.
Proof.
  intros Hguard Hnd Hclosed Hn Hkind Hdet Hnot_rev Hv Hvv Hdisk Hfree. cbv zeta.
  rewrite (finalize_unguarded c g f Hguard).
  destruct (revert_optional g empty_queue) as [g1 q1] eqn:Hrev. cbv zeta. cbn [s_g s_fs].
  assert (g1 = fst (revert_optional g empty_queue)) as Hg1 by (rewrite Hrev; reflexivity).
  assert (prestep g1 = cleanup_graph g) as Hcg by (unfold cleanup_graph; rewrite Hg1; reflexivity).
  (* the node as the deletion loop sees it *)
  set (n2 := prestep_node g1 (revert_node g n)).
  assert (revert_node g n = n) as Hrn.
  { unfold revert_node. assert (is_optional_step n = false) as ->.
    { unfold is_optional_step. unfold nkind in Hkind. unfold nkind. rewrite Hkind. reflexivity. }
    rewrite Hnot_rev. reflexivity. }
  assert (nkey n2 = nkey n) as Hk2 by (unfold n2; rewrite prestep_node_key, Hrn; reflexivity).
  assert (In n2 (gnodes (prestep g1))) as Hn2.
  { rewrite Hcg, cleanup_graph_nodes. apply in_map_iff. exists n. rewrite <- Hg1. split; [reflexivity | exact Hn]. }
  assert (keys_nodup (prestep g1)) as Hnd2 by (unfold keys_nodup; rewrite Hcg, cleanup_graph_keys; exact Hnd).
  assert (deps_closed (prestep g1)) as Hcl2 by (rewrite Hcg; apply cleanup_graph_closed; exact Hclosed).
  (* graph part *)
  assert (~ In (nkey n) (map nkey (gnodes (dd_g (workflow_dd g1))))) as Hgone.
  { unfold workflow_dd. intros Hin. apply (dd_survivors (prestep g1) Hnd2 Hcl2) in Hin.
    destruct Hin as [S [Hss HS]]. apply Hfree. exists S. split; [|exact HS].
    apply cleanup_graph_ss. rewrite <- Hcg. exact Hss. }
  split; [exact Hgone|].
  (* n2 was deleted, so it was queued *)
  assert (In n2 (dd_deleted (workflow_dd g1))) as Hdel.
  { unfold workflow_dd. rewrite trellis_dd_deleted. apply -> in_rev.
    destruct (dd_loop_partition (dd_fuel (prestep g1)) (prestep g1) [] n2 Hnd2 Hn2) as [Hkeep|Hacc]; [|exact Hacc].
    exfalso. apply Hgone. unfold workflow_dd. rewrite trellis_dd_keys, <- Hk2. apply in_map. exact Hkeep. }
  assert (nkind n2 = KFILE) as Hkind2 by (unfold nkind; rewrite Hk2; exact Hkind).
  assert (nlabel n2 = nlabel n) as Hlab2 by (unfold nlabel; rewrite Hk2; reflexivity).
  assert (bd_value n2 = Some v) as Hv2.
  { unfold bd_value, n2. rewrite prestep_node_fstate, prestep_node_fhash, Hrn. exact Hv. }
  rewrite <- Hlab2.
  apply (rdf_removes _ f (nlabel n2) v h); [|exact Hvv | rewrite Hlab2; exact Hdisk].
  apply queue_deleted_sets; [exact Hdel | exact Hkind2 | | exact Hv2].
  intros x Hx Hxk Hxl.
  apply (nodup_map_inj nkey (gnodes (prestep g1))); [exact Hnd2 | | exact Hn2 |].
  - unfold workflow_dd in Hx. rewrite trellis_dd_deleted in Hx. apply in_rev in Hx.
    unfold dd_raw in Hx. apply dd_loop_acc_sub in Hx. destruct Hx as [[]|Hx]. exact Hx.
  - unfold nkind in Hxk, Hkind2. unfold nlabel in Hxl.
    destruct (nkey x) as [kx lx], (nkey n2) as [k2 l2]. cbn [fst snd] in *. congruence.
Qed.

(* ---- C07: marked directories that the file removals left empty are pruned ------------------- *)

Lemma fs_del_length_lt f x e : fs_get f x = Some e -> (length (fs_del f x) < length f)%nat.
Proof.
  intros H. apply fs_get_some_in in H. unfold fs_del.
  apply filter_length_lt with (x := (x, e)); [exact H|]. cbn [fst]. rewrite str_eqb_refl. reflexivity.
Qed.

Lemma dir_empty_del f x d : dir_empty f d = true -> dir_empty (fs_del f x) d = true.
Proof.
  unfold dir_empty. rewrite !negb_true_iff. intros H.
  destruct (existsb (fun e => under d (fst e)) (fs_del f x)) eqn:E; [|reflexivity].
  apply existsb_exists in E. destruct E as [e [He Hu]]. unfold fs_del in He. apply filter_In in He.
  assert (existsb (fun e => under d (fst e)) f = true) as Hx by (apply existsb_exists; exists e; split; [apply He | exact Hu]).
  congruence.
Qed.

Lemma prune_loop_none_stays p fuel : forall todo f log,
  fs_get f p = None -> fs_get (fst (prune_loop fuel todo f log)) p = None.
Proof.
  induction fuel as [|fuel IH]; intros todo f log H; [exact H|].
  cbn [prune_loop]. destruct todo as [|d rest]; [exact H|].
  destruct (rmdir_if_empty f d) as [f1 b] eqn:Hr. apply rmdir_if_empty_spec in Hr.
  destruct Hr as [[-> [_ [_ ->]]]|[-> ->]].
  - apply IH. apply fs_del_none_stays. exact H.
  - apply IH. exact H.
Qed.

Lemma prune_loop_removes_empty d fuel : forall todo f log,
  (length todo + length f < fuel)%nat -> In d todo ->
  fs_get f d = Some FDir -> dir_empty f d = true ->
  fs_get (fst (prune_loop fuel todo f log)) d = None.
Proof.
  induction fuel as [|fuel IH]; intros todo f log Hlen Hin Hg He; [lia|].
  cbn [prune_loop]. destruct todo as [|x rest]; [destruct Hin|].
  destruct (str_eqb x d) eqn:Exd.
  - apply str_eqb_eq in Exd. subst x. unfold rmdir_if_empty. rewrite Hg, He.
    apply prune_loop_none_stays. apply fs_get_del_same.
  - apply str_eqb_neq in Exd. destruct Hin as [Hin|Hin]; [contradiction|].
    destruct (rmdir_if_empty f x) as [f1 b] eqn:Hr. apply rmdir_if_empty_spec in Hr.
    cbn [length] in Hlen.
    destruct Hr as [[-> [Hgx [_ ->]]]|[-> ->]].
    + pose proof (fs_del_length_lt f x FDir Hgx) as Hlt.
      apply IH.
      * destruct (parent_ok (dirname x)); cbn [length]; lia.
      * destruct (parent_ok (dirname x)); [right; exact Hin | exact Hin].
      * rewrite fs_get_del_other by congruence. exact Hg.
      * apply dir_empty_del. exact He.
    + apply IH; [lia | exact Hin | exact Hg | exact He].
Qed.

(* Full statement (not proved; validated by E1a/E1c and the oracle): no marked directory is an
   empty directory at the end.  Proved below: the case where the directory is already empty once
   the queued files are gone, i.e. a directory that held nothing but removed outputs. *)
Definition dirs_pruned_when_empty_full : Prop :=
  forall q f d, In d (qdirs q) ->
    let r := remove_deletable_files q f in
    ~ (fs_get (r_fs r) d = Some FDir /\ dir_empty (r_fs r) d = true).

Theorem dirs_pruned_when_empty_partial q f d :
  In d (qdirs q) ->
  let f1 := fst (rdf_files q (sort_desc (dedup (map fst (qfiles q)))) f []) in
  fs_get f1 d = Some FDir -> dir_empty f1 d = true ->
  fs_get (r_fs (remove_deletable_files q f)) d = None.
Proof.
  intros Hin. cbv zeta. intros Hg He. unfold remove_deletable_files.
  destruct (rdf_files q _ f []) as [f1 flog] eqn:H1. cbn [fst] in Hg, He.
  destruct (prune_dirs (qdirs q) f1) as [f2 dlog] eqn:H2. cbn [r_fs].
  rewrite prune_dirs_eq in H2.
  pose proof (prune_loop_removes_empty d (prune_fuel (sort_desc (dedup (qdirs q))) f1)
                (sort_desc (dedup (qdirs q))) f1 []) as Hp.
  rewrite H2 in Hp. cbn [fst] in Hp. apply Hp; [unfold prune_fuel; lia | | exact Hg | exact He].
  apply in_sort_desc, in_dedup. exact Hin.
Qed.

(* the parent directory of a deleted file node is marked, unless it is the project root or
   (when the source says so) owned by an attached static tree *)
Lemma before_delete_marks_parent trees x q :
  nkind x = KFILE ->
  let d := normdir (dirname (nlabel x)) in
  is_dot d || (mark_dir_skips_static_trees && owned_by_tree trees d) = false ->
  In d (qdirs (before_delete trees x q)).
Proof.
  intros Hk. cbv zeta. intros Hskip. unfold before_delete. rewrite Hk, N.eqb_refl.
  unfold mark_dir. rewrite Hskip. cbn [qdirs]. left. reflexivity.
Qed.


(* ---- a row that File.before_delete would queue, supplied as an input while creator-less --------
   (File.initialize_row with UNDECLARED requested): does it keep the state that makes the cleanup
   remove the file later?  BUILT/OUTDATED: yes (keep rule).  VOLATILE: only with the second arm of
   the keep rule (regenerated flag keep_volatile_on_supply). *)
Definition queued_on_delete (s : N) : bool := memN s bd_volatile_states || memN s bd_hashed_states.

Definition supply_keeps_cleanup_memory : Prop :=
  forall s, queued_on_delete s = true -> queued_on_delete (init_row_state FS_UNDECLARED s) = true.

Theorem supply_keeps_cleanup_memory_hashed s :
  memN s bd_hashed_states = true -> queued_on_delete (init_row_state FS_UNDECLARED s) = true.
Proof.
  intros H.
  apply (memN_forallb (fun x => queued_on_delete (init_row_state FS_UNDECLARED x)) s _ H).
  vm_compute. reflexivity.
Qed.

Theorem supply_keeps_cleanup_memory_refuted :
  keep_volatile_on_supply = false -> ~ supply_keeps_cleanup_memory.
Proof.
  intros Hflag H. unfold keep_volatile_on_supply in Hflag.
  first
    [ discriminate Hflag
    | specialize (H FS_VOLATILE); vm_compute in H; specialize (H eq_refl); discriminate H ].
Qed.

Theorem supply_keeps_cleanup_memory_fixed :
  keep_volatile_on_supply = true -> supply_keeps_cleanup_memory.
Proof.
  intros Hflag s Hs. unfold keep_volatile_on_supply in Hflag.
  first
    [ discriminate Hflag
    | unfold queued_on_delete in Hs; apply orb_true_iff in Hs; destruct Hs as [Hs|Hs];
      [ apply (memN_forallb (fun x => queued_on_delete (init_row_state FS_UNDECLARED x)) s _ Hs); vm_compute; reflexivity
      | apply supply_keeps_cleanup_memory_hashed; exact Hs ] ].
Qed.
