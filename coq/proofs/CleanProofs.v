(* proofs/CleanProofs.v -- lemmas about model/Clean.v (file-system side of cleaning, finalize,
   the clean tool, histories of file rows). *)
From Coq Require Import List NArith Bool Lia.
From SV Require Import lib.Bytes gen.GenClean model.TrellisDD model.Clean proofs.TrellisDDProofs.
Import ListNotations.
Open Scope N_scope.

(* ---- the abstract file system ------------------------------------------------------------- *)

Lemma str_eqb_sym a b : str_eqb a b = str_eqb b a.
Proof.
  destruct (str_eqb a b) eqn:E1, (str_eqb b a) eqn:E2; try reflexivity.
  - apply str_eqb_eq in E1. subst. rewrite str_eqb_refl in E2. discriminate.
  - apply str_eqb_eq in E2. subst. rewrite str_eqb_refl in E1. discriminate.
Qed.

Lemma str_eqb_neq a b : str_eqb a b = false <-> a <> b.
Proof.
  split.
  - intros H E. apply str_eqb_eq in E. congruence.
  - intros H. destruct (str_eqb a b) eqn:E; [apply str_eqb_eq in E; contradiction | reflexivity].
Qed.

Lemma fs_get_del_same f p : fs_get (fs_del f p) p = None.
Proof.
  unfold fs_get, fs_del. induction f as [|[q e] f IH]; [reflexivity|].
  cbn [filter fst]. destruct (str_eqb q p) eqn:E; cbn [negb].
  - exact IH.
  - cbn [find fst]. rewrite E. exact IH.
Qed.

Lemma fs_get_del_other f p q : q <> p -> fs_get (fs_del f p) q = fs_get f q.
Proof.
  intros Hne. unfold fs_get, fs_del. induction f as [|[x e] f IH]; [reflexivity|].
  cbn [filter fst]. destruct (str_eqb x p) eqn:E; cbn [negb].
  - apply str_eqb_eq in E. subst x. cbn [find fst].
    assert (str_eqb p q = false) as -> by (apply str_eqb_neq; congruence). exact IH.
  - cbn [find fst]. destruct (str_eqb x q); [reflexivity | exact IH].
Qed.

Lemma fs_get_some_in f p e : fs_get f p = Some e -> In (p, e) f.
Proof.
  unfold fs_get. destruct (find _ f) as [[q e']|] eqn:Hf; [|discriminate].
  intros H. inversion H. subst. apply find_some in Hf. destruct Hf as [Hin Heq].
  cbn [fst] in Heq. apply str_eqb_eq in Heq. subst. exact Hin.
Qed.

Lemma dir_empty_none f d p : dir_empty f d = true -> under d p = true -> fs_get f p = None.
Proof.
  unfold dir_empty. rewrite negb_true_iff. intros He Hu.
  destruct (fs_get f p) as [e|] eqn:Hg; [|reflexivity].
  apply fs_get_some_in in Hg.
  assert (existsb (fun e => under d (fst e)) f = true) as Hx.
  { apply existsb_exists. exists (p, e). split; [exact Hg | exact Hu]. }
  congruence.
Qed.

Lemma rm_file_spec f p f' b : rm_file f p = (f', b) ->
  (b = true /\ (exists h, fs_get f p = Some (FFile h)) /\ f' = fs_del f p) \/ (b = false /\ f' = f).
Proof.
  unfold rm_file. destruct (fs_get f p) as [[h|]|] eqn:Hg; intros H; inversion H; subst.
  - left. split; [reflexivity | split; [exists h; reflexivity | reflexivity]].
  - right. split; reflexivity.
  - right. split; reflexivity.
Qed.

(* the primitive: a directory is removed only if it is a directory and has no entry below it *)
Lemma rmdir_if_empty_spec f d f' b : rmdir_if_empty f d = (f', b) ->
  (b = true /\ fs_get f d = Some FDir /\ dir_empty f d = true /\ f' = fs_del f d) \/ (b = false /\ f' = f).
Proof.
  unfold rmdir_if_empty. destruct (fs_get f d) as [[h|]|] eqn:Hg.
  - intros H; inversion H; subst. right. split; reflexivity.
  - destruct (dir_empty f d) eqn:He; intros H; inversion H; subst.
    + left. repeat split; reflexivity.
    + right. split; reflexivity.
  - intros H; inversion H; subst. right. split; reflexivity.
Qed.

(* ---- removal traces ------------------------------------------------------------------------
   f0: the file system before, f: now, files/dirs: what was reported removed so far. *)

Record trace_inv (f0 f : fsys) (files dirs : list str) : Prop := mkTI {
  ti_sub : forall p e, fs_get f p = Some e -> fs_get f0 p = Some e;
  ti_vanished : forall p, fs_get f0 p <> None -> fs_get f p = None -> In p files \/ In p dirs;
  ti_files : forall p, In p files -> (exists h, fs_get f0 p = Some (FFile h)) /\ fs_get f p = None;
  ti_dirs : forall d, In d dirs -> fs_get f0 d = Some FDir /\ fs_get f d = None /\
              forall p, under d p = true -> fs_get f0 p <> None -> In p files \/ In p dirs
}.

Lemma trace_inv_init f : trace_inv f f [] [].
Proof.
  constructor.
  - intros p e H. exact H.
  - intros p H1 H2. contradiction.
  - intros p [].
  - intros d [].
Qed.

Lemma trace_inv_file f0 f files dirs p h :
  trace_inv f0 f files dirs -> fs_get f p = Some (FFile h) ->
  trace_inv f0 (fs_del f p) (p :: files) dirs.
Proof.
  intros [Hsub Hvan Hfiles Hdirs] Hg. constructor.
  - intros q e Hq. destruct (str_eqb q p) eqn:E.
    + apply str_eqb_eq in E. subst. rewrite fs_get_del_same in Hq. discriminate.
    + apply str_eqb_neq in E. rewrite fs_get_del_other in Hq by exact E. apply Hsub. exact Hq.
  - intros q H0 Hq. destruct (str_eqb q p) eqn:E.
    + apply str_eqb_eq in E. subst. left. left. reflexivity.
    + apply str_eqb_neq in E. rewrite fs_get_del_other in Hq by exact E.
      destruct (Hvan q H0 Hq) as [H|H]; [left; right; exact H | right; exact H].
  - intros q [<-|Hq].
    + split; [exists h; apply Hsub; exact Hg | apply fs_get_del_same].
    + destruct (Hfiles q Hq) as [Hh Hn]. split; [exact Hh|].
      destruct (str_eqb q p) eqn:E.
      * apply str_eqb_eq in E. subst. apply fs_get_del_same.
      * apply str_eqb_neq in E. rewrite fs_get_del_other by exact E. exact Hn.
  - intros d Hd. destruct (Hdirs d Hd) as [H1 [H2 H3]]. split; [exact H1 | split].
    + destruct (str_eqb d p) eqn:E.
      * apply str_eqb_eq in E. subst. apply fs_get_del_same.
      * apply str_eqb_neq in E. rewrite fs_get_del_other by exact E. exact H2.
    + intros q Hu H0. destruct (H3 q Hu H0) as [H|H]; [left; right; exact H | right; exact H].
Qed.

Lemma trace_inv_dir f0 f files dirs d :
  trace_inv f0 f files dirs -> fs_get f d = Some FDir -> dir_empty f d = true ->
  trace_inv f0 (fs_del f d) files (d :: dirs).
Proof.
  intros [Hsub Hvan Hfiles Hdirs] Hg He. constructor.
  - intros q e Hq. destruct (str_eqb q d) eqn:E.
    + apply str_eqb_eq in E. subst. rewrite fs_get_del_same in Hq. discriminate.
    + apply str_eqb_neq in E. rewrite fs_get_del_other in Hq by exact E. apply Hsub. exact Hq.
  - intros q H0 Hq. destruct (str_eqb q d) eqn:E.
    + apply str_eqb_eq in E. subst. right. left. reflexivity.
    + apply str_eqb_neq in E. rewrite fs_get_del_other in Hq by exact E.
      destruct (Hvan q H0 Hq) as [H|H]; [left; exact H | right; right; exact H].
  - intros q Hq. destruct (Hfiles q Hq) as [Hh Hn]. split; [exact Hh|].
    destruct (str_eqb q d) eqn:E.
    + apply str_eqb_eq in E. subst. apply fs_get_del_same.
    + apply str_eqb_neq in E. rewrite fs_get_del_other by exact E. exact Hn.
  - intros x [<-|Hx].
    + split; [apply Hsub; exact Hg | split; [apply fs_get_del_same|]].
      intros q Hu H0. pose proof (dir_empty_none f d q He Hu) as Hnone.
      destruct (Hvan q H0 Hnone) as [H|H]; [left; exact H | right; right; exact H].
    + destruct (Hdirs x Hx) as [H1 [H2 H3]]. split; [exact H1 | split].
      * destruct (str_eqb x d) eqn:E.
        -- apply str_eqb_eq in E. subst. apply fs_get_del_same.
        -- apply str_eqb_neq in E. rewrite fs_get_del_other by exact E. exact H2.
      * intros q Hu H0. destruct (H3 q Hu H0) as [H|H]; [left; exact H | right; right; exact H].
Qed.

(* ---- remove_deletable_files ---------------------------------------------------------------- *)

(* why a queued file may be removed, judged on the file system before the cleanup *)
Definition rdf_ok (q : queue) (f0 : fsys) (p : str) : Prop :=
  exists h0, fs_get f0 p = Some (FFile h0) /\
    (qfile_get q p = Some None \/ qfile_get q p = Some (Some h0)).

Lemma rdf_file_step q f0 f files dirs p f' b :
  trace_inv f0 f files dirs -> (forall x, In x files -> rdf_ok q f0 x) ->
  rdf_file q f p = (f', b) ->
  trace_inv f0 f' (if b then p :: files else files) dirs /\
  (forall x, In x (if b then p :: files else files) -> rdf_ok q f0 x).
Proof.
  intros Hinv Hok Hstep. unfold rdf_file in Hstep.
  destruct (qfile_get q p) as [[h|]|] eqn:Hq.
  - unfold refreshed in Hstep. destruct (fs_get f p) as [[h'|]|] eqn:Hg.
    + destruct (h' =? h) eqn:Hh.
      * apply N.eqb_eq in Hh. subst h'. apply rm_file_spec in Hstep.
        destruct Hstep as [[-> [_ ->]]|[-> ->]].
        -- split; [apply trace_inv_file with (h := h); assumption|].
           intros x [<-|Hx]; [|apply Hok; exact Hx].
           exists h. split; [apply (ti_sub _ _ _ _ Hinv); exact Hg | right; exact Hq].
        -- split; assumption.
      * inversion Hstep; subst. split; assumption.
    + inversion Hstep; subst. split; assumption.
    + inversion Hstep; subst. split; assumption.
  - pose proof Hstep as Hs. apply rm_file_spec in Hs. destruct Hs as [[-> [[h Hg] ->]]|[-> ->]].
    + split; [apply trace_inv_file with (h := h); assumption|].
      intros x [<-|Hx]; [|apply Hok; exact Hx].
      exists h. split; [apply (ti_sub _ _ _ _ Hinv); exact Hg | left; exact Hq].
    + split; assumption.
  - inversion Hstep; subst. split; assumption.
Qed.

Lemma rdf_files_inv q f0 ps : forall f files dirs f' log,
  trace_inv f0 f files dirs -> (forall x, In x files -> rdf_ok q f0 x) ->
  rdf_files q ps f files = (f', log) ->
  trace_inv f0 f' log dirs /\ (forall x, In x log -> rdf_ok q f0 x).
Proof.
  induction ps as [|p ps IH]; intros f files dirs f' log Hinv Hok Hrun.
  - cbn [rdf_files] in Hrun. inversion Hrun; subst. split; assumption.
  - cbn [rdf_files] in Hrun. destruct (rdf_file q f p) as [f1 b] eqn:Hstep.
    destruct (rdf_file_step q f0 f files dirs p f1 b Hinv Hok Hstep) as [Hinv1 Hok1].
    apply (IH f1 _ dirs f' log Hinv1 Hok1 Hrun).
Qed.

Lemma prune_loop_inv f0 fuel : forall todo f files dirs f' log,
  trace_inv f0 f files dirs -> prune_loop fuel todo f dirs = (f', log) -> trace_inv f0 f' files log.
Proof.
  induction fuel as [|fuel IH]; intros todo f files dirs f' log Hinv Hrun.
  - cbn [prune_loop] in Hrun. inversion Hrun; subst. exact Hinv.
  - cbn [prune_loop] in Hrun. destruct todo as [|d rest].
    + inversion Hrun; subst. exact Hinv.
    + destruct (rmdir_if_empty f d) as [f1 b] eqn:Hr. apply rmdir_if_empty_spec in Hr.
      destruct Hr as [[-> [Hg [He ->]]]|[-> ->]].
      * apply (IH _ _ files _ _ _ (trace_inv_dir f0 f files dirs d Hinv Hg He) Hrun).
      * apply (IH _ _ files _ _ _ Hinv Hrun).
Qed.

Lemma rdf_trace q f :
  let r := remove_deletable_files q f in
  trace_inv f (r_fs r) (r_files r) (r_dirs r) /\ (forall x, In x (r_files r) -> rdf_ok q f x).
Proof.
  unfold remove_deletable_files.
  destruct (rdf_files q _ f []) as [f1 flog] eqn:H1.
  destruct (prune_dirs (qdirs q) f1) as [f2 dlog] eqn:H2. cbn [r_fs r_files r_dirs].
  destruct (rdf_files_inv q f _ f [] [] f1 flog (trace_inv_init f) (fun x (H : In x []) => match H with end) H1)
    as [Hinv1 Hok1].
  unfold prune_dirs in H2. pose proof (prune_loop_inv f _ _ f1 flog [] f2 dlog Hinv1 H2) as Hinv2.
  split.
  - destruct Hinv2 as [A B C D]. constructor.
    + exact A.
    + intros p H0 Hn. destruct (B p H0 Hn) as [H|H]; [left | right]; apply -> in_rev; exact H.
    + intros p Hp. apply in_rev in Hp. apply C. exact Hp.
    + intros d Hd. apply in_rev in Hd. destruct (D d Hd) as [D1 [D2 D3]]. split; [exact D1 | split; [exact D2|]].
      intros p Hu H0. destruct (D3 p Hu H0) as [H|H]; [left | right]; apply -> in_rev; exact H.
  - intros x Hx. apply in_rev in Hx. apply Hok1. exact Hx.
Qed.
