(* C17 part 3 (partial): a named wildcard in place of an anonymous one.  At the level of the regex
   semantics: wrapping one part of a part list into a named group that no later part refers to
   does not change which strings are accepted. *)
From Coq Require Import List NArith Bool Arith Lia.
From SV Require Import lib.Bytes.
From SV Require Import lib.Regex.
From SV Require Import model.Nglob.
From SV Require Import proofs.NglobBackref.
Import ListNotations.
Open Scope N_scope.

(* no back-reference to n *)
Fixpoint noref (n : str) (r : re) : bool :=
  match r with
  | RRef m => negb (str_eqb n m)
  | RCat a b | RAlt a b => noref n a && noref n b
  | RStar a | RPlus a | ROpt a | RNcg a | RGrp _ a => noref n a
  | REps | RStr _ | RAny _ | RCls _ _ => true
  end.

Definition agree_except (n : str) (e1 e2 : env) : Prop :=
  forall m, m <> n -> env_get m e1 = env_get m e2.

Lemma agree_set n m v e1 e2 : agree_except n e1 e2 -> agree_except n (env_set m v e1) (env_set m v e2).
Proof.
  intros H k Hk. unfold env_set. cbn. destruct (str_eqb k m); [reflexivity|apply H; exact Hk].
Qed.

Lemma mt_agree n r e1 s e1' : mt r e1 s e1' -> noref n r = true ->
  forall e2, agree_except n e1 e2 -> exists e2', mt r e2 s e2' /\ agree_except n e1' e2'.
Proof.
  induction 1; cbn [noref]; intros Hn e2x Ha;
    try (apply andb_true_iff in Hn as [Hn1 Hn2]).
  - exists e2x. split; [constructor|exact Ha].
  - exists e2x. split; [constructor|exact Ha].
  - exists e2x. split; [constructor; assumption|exact Ha].
  - exists e2x. split; [constructor; assumption|exact Ha].
  - destruct (IHmt1 Hn1 _ Ha) as [ea [Hm1 Ha1]]. destruct (IHmt2 Hn2 _ Ha1) as [eb [Hm2 Ha2]].
    exists eb. split; [econstructor; eassumption|exact Ha2].
  - destruct (IHmt Hn1 _ Ha) as [ea [Hm1 Ha1]]. exists ea. split; [apply MAltL; exact Hm1|exact Ha1].
  - destruct (IHmt Hn2 _ Ha) as [ea [Hm1 Ha1]]. exists ea. split; [apply MAltR; exact Hm1|exact Ha1].
  - exists e2x. split; [constructor|exact Ha].
  - destruct (IHmt1 Hn _ Ha) as [ea [Hm1 Ha1]]. destruct (IHmt2 Hn _ Ha1) as [eb [Hm2 Ha2]].
    exists eb. split; [econstructor; eassumption|exact Ha2].
  - destruct (IHmt1 Hn _ Ha) as [ea [Hm1 Ha1]].
    assert (Hs : noref n (RStar a) = true) by exact Hn.
    destruct (IHmt2 Hs _ Ha1) as [eb [Hm2 Ha2]].
    exists eb. split; [econstructor; eassumption|exact Ha2].
  - exists e2x. split; [constructor|exact Ha].
  - destruct (IHmt Hn _ Ha) as [ea [Hm1 Ha1]]. exists ea. split; [apply MOptS; exact Hm1|exact Ha1].
  - destruct (IHmt Hn _ Ha) as [ea [Hm1 Ha1]]. exists ea. split; [constructor; exact Hm1|exact Ha1].
  - destruct (IHmt Hn _ Ha) as [ea [Hm1 Ha1]]. exists (env_set n0 s ea).
    split; [constructor; exact Hm1|apply agree_set; exact Ha1].
  - exists e2x. split; [|exact Ha]. constructor. rewrite <- (Ha n0); [assumption|].
    intros ->. rewrite str_eqb_refl in Hn. discriminate.
Qed.

Lemma mt_parts_agree n ps : forall e1 ss e1', mt_parts ps e1 ss e1' -> forallb (noref n) ps = true ->
  forall e2, agree_except n e1 e2 -> exists e2', mt_parts ps e2 ss e2' /\ agree_except n e1' e2'.
Proof.
  induction ps as [|r rs IH]; intros e1 ss e1' H Hn e2 Ha.
  - apply mt_parts_nil_inv in H as [-> ->]. exists e2. split; [constructor|exact Ha].
  - apply mt_parts_cons_inv in H as [s0 [ss' [ea [-> [Hr Hrs]]]]].
    cbn [forallb] in Hn. apply andb_true_iff in Hn as [Hn1 Hn2].
    destruct (mt_agree n _ _ _ _ Hr Hn1 _ Ha) as [eb [Hm Hb]].
    destruct (IH _ _ _ Hrs Hn2 _ Hb) as [ec [Hp Hc]].
    exists ec. split; [econstructor; eassumption|exact Hc].
Qed.

Lemma mt_parts_app ps1 : forall ps2 e ss e',
  mt_parts (ps1 ++ ps2) e ss e' <->
  exists ss1 ss2 e1, ss = ss1 ++ ss2 /\ mt_parts ps1 e ss1 e1 /\ mt_parts ps2 e1 ss2 e'.
Proof.
  induction ps1 as [|r rs IH]; intros ps2 e ss e'; cbn [app].
  - split.
    + intros H. exists [], ss, e. split; [reflexivity|]. split; [constructor|exact H].
    + intros [ss1 [ss2 [e1 [-> [H1 H2]]]]]. apply mt_parts_nil_inv in H1 as [-> ->]. exact H2.
  - split.
    + intros H. apply mt_parts_cons_inv in H as [s0 [ss' [ea [-> [Hr Hrs]]]]].
      apply IH in Hrs as [ss1 [ss2 [e1 [-> [H1 H2]]]]].
      exists (s0 :: ss1), ss2, e1. split; [reflexivity|]. split; [econstructor; eassumption|exact H2].
    + intros [ss1 [ss2 [e1 [-> [H1 H2]]]]].
      apply mt_parts_cons_inv in H1 as [s0 [ss' [ea [-> [Hr Hrs]]]]].
      cbn [app]. econstructor; [exact Hr|]. apply IH. exists ss', ss2, e1. repeat split; assumption.
Qed.

Lemma agree_drop n v e : agree_except n e (env_set n v e).
Proof.
  intros m Hm. unfold env_set. cbn. destruct (str_eqb m n) eqn:E; [|reflexivity].
  apply str_eqb_eq in E. congruence.
Qed.

Lemma agree_sym n e1 e2 : agree_except n e1 e2 -> agree_except n e2 e1.
Proof. intros H m Hm. symmetry. apply H. exact Hm. Qed.

Lemma mt_grp_inv n a e s e' : mt (RGrp n a) e s e' -> exists e0, e' = env_set n s e0 /\ mt a e s e0.
Proof. intros H. inversion H; subst. eexists. split; [reflexivity|eassumption]. Qed.

Theorem named_group_wrapping_preserves_acceptance :
  forall (ps1 : list re) (a : re) (ps2 : list re) (n : str) (s : str),
    forallb (noref n) ps2 = true ->
    (accepted (rcat (ps1 ++ a :: ps2)) s <-> accepted (rcat (ps1 ++ RGrp n a :: ps2)) s).
Proof.
  intros ps1 a ps2 n s Hn. unfold accepted. split; intros [e' H];
    apply mt_rcat in H as [ss [Hc H]]; apply mt_parts_app in H as [ss1 [ss2 [e1 [-> [H1 H2]]]]];
    apply mt_parts_cons_inv in H2 as [s0 [ss' [ea [-> [Hr Hrs]]]]].
  - destruct (mt_parts_agree n _ _ _ _ Hrs Hn (env_set n s0 ea) (agree_drop n s0 ea)) as [eb [Hp _]].
    exists eb. apply mt_rcat. exists (ss1 ++ s0 :: ss'). split; [exact Hc|].
    apply mt_parts_app. exists ss1, (s0 :: ss'), e1. split; [reflexivity|]. split; [exact H1|].
    econstructor; [constructor; exact Hr|exact Hp].
  - apply mt_grp_inv in Hr as [ex [-> Ha]].
    destruct (mt_parts_agree n _ _ _ _ Hrs Hn ex (agree_sym _ _ _ (agree_drop n s0 ex))) as [eb [Hp _]].
    exists eb. apply mt_rcat. exists (ss1 ++ s0 :: ss'). split; [exact Hc|].
    apply mt_parts_app. exists ss1, (s0 :: ss'), e1. split; [reflexivity|]. split; [exact H1|].
    econstructor; [exact Ha|exact Hp].
Qed.
