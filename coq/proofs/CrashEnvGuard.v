(* proofs/CrashEnvGuard.v -- C05: the in-memory comparison of startup.rescan_env_vars as translated
   from the source (gen/GenCrash.v rescan_env_vars_guards) is the one model/CrashStartup.v
   [phase_env] executes: a row's step is collected for mark_step_pending, and the row for the UPDATE,
   exactly when the value of the variable now differs from the stored value. *)
From Coq Require Import List NArith.
From SV Require Import gen.GenCrash.
Import ListNotations.
Open Scope N_scope.

Lemma env_guards_eq : rescan_env_vars_guards = [1; 1].
Proof. reflexivity. Qed.
