(* C14: the watch-set state machine (model/WatchSet.v): the invariant "the dictionary agrees with the
   kernel, every needed directory is watched" is REFUTED by three histories (replayed on the real
   AsyncInotifyWrapper + real inotify by harness/p_c14.py), and holds on the swept fragment without
   renames and without operations racing ahead of the wrapper. *)
From Coq Require Import List NArith Bool.
From SV Require Import lib.Bytes gen.GenWatch model.Watch model.WatchSet.
Import ListNotations.
Open Scope N_scope.

Definition p_d1 : path := [100;49].
Definition p_d1sub : path := [100;49;47;115;117;98].
Definition p_d5 : path := [100;53].
Definition p_d8 : path := [100;56].
Definition p_d9 : path := [100;57].

(* the full invariant, for every history of batches from an agreeing state *)
Definition watchset_invariant_full : Prop :=
  forall (s : sys) (bs : list (list dop)), s_queue s = [] -> agree s = true -> agree (run_batches s bs) = true.

(* ---- W1: a watched directory moves away together with a watched sub-directory ------------------ *)
(* `mv d1 d9` removes the watch of d1 only; watches["d1/sub"] keeps the Watch object that now sits on
   d9/sub.  When d1/sub is created again the rescan finds an entry that is not None and installs nothing:
   the new d1/sub is recorded as watched and is not. *)
Definition s_W1 : sys :=
  mk_sys [(1, p_d1); (2, p_d1sub)] 3 [(0, DOT); (1, p_d1); (2, p_d1sub)] []
         [(DOT, true); (p_d1, true); (p_d1sub, true)] [].
Definition h_W1 : list (list dop) := [[OMove p_d1 p_d9]; [OMkdir p_d1]; [OMkdir p_d1sub]].

Lemma stale_subdirectory_watch_refuted :
  s_queue s_W1 = [] /\ agree s_W1 = true /\
  let s := run_batches s_W1 h_W1 in
  s_queue s = [] /\
  ino_of s p_d1sub = Some 4 /\ installed (s_w s) p_d1sub = true /\
  existsb (fun k => fst k =? 4) (s_kw s) = false /\          (* no kernel watch on the new d1/sub *)
  agree s = false /\ needed_watched (fun p => str_eqb p p_d1sub) s = false.
Proof. vm_compute. repeat split; reflexivity. Qed.

(* ---- W2: IGNORED arrives after the directory was re-created ------------------------------------ *)
(* `mv d1 d9; mkdir d1` before change_loop runs: MOVED_FROM|ISDIR d1 -> rm_watch (the kernel queues IGNORED
   behind CREATE|ISDIR d1) and watches[d1] = None; CREATE|ISDIR d1 -> a new watch is installed; IGNORED d1 ->
   watches[d1] = None again.  The kernel watches the new d1, the dictionary says pending; the next time
   d1 is moved away no DELETED_PARENT is queued. *)
Definition s_W2 : sys :=
  mk_sys [(1, p_d1)] 2 [(0, DOT); (1, p_d1)] [] [(DOT, true); (p_d1, true)] [].
Definition is_deleted_parent (d : path) (it : item) : bool :=
  match it_change it with DeletedParent => str_eqb (it_path it) d | _ => false end.

Lemma late_ignored_clobbers_new_watch_refuted :
  agree s_W2 = true /\
  (* the same operations, the wrapper keeping up: fine *)
  (let s := run_batches s_W2 [[OMove p_d1 p_d9]; [OMkdir p_d1]; [OMove p_d1 p_d8]] in
   agree s = true /\ length (filter (is_deleted_parent p_d1) (s_items s)) = 2%nat) /\
  (* one batch *)
  (let s := run_batches s_W2 [[OMove p_d1 p_d9; OMkdir p_d1]] in
   s_queue s = [] /\ installed (s_w s) p_d1 = false /\ existsb (fun k => str_eqb (snd k) p_d1) (s_kw s) = true /\
   agree s = false) /\
  (let s := run_batches s_W2 [[OMove p_d1 p_d9; OMkdir p_d1]; [OMove p_d1 p_d8]] in
   length (filter (is_deleted_parent p_d1) (s_items s)) = 1%nat).
Proof. vm_compute. repeat split; reflexivity. Qed.

Theorem watchset_invariant_refuted : ~ watchset_invariant_full.
Proof.
  intros H. specialize (H s_W1 h_W1 eq_refl). vm_compute in H. specialize (H eq_refl). discriminate.
Qed.

(* ---- D10d: the dictionary agrees with the kernel, yet a needed directory is not watched --------- *)
(* pattern "*/x.dat": every directory directly below the root can contain a match; only "." and the parents
   of the current matches were ever requested (Workflow.watch_nglob_dirs) *)
Definition s_D10d : sys := mk_sys [(1, p_d1)] 2 [(0, DOT); (1, p_d1)] [] [(DOT, true); (p_d1, true)] [].
Definition depth1 (p : path) : bool := negb (existsb (N.eqb SLASH) p).

Lemma new_directory_not_watched_refuted :
  needed_watched depth1 s_D10d = true /\
  let s := run_batches s_D10d [[OMkdir p_d5]] in
  agree s = true /\ needed_watched depth1 s = false.
Proof. vm_compute. repeat split; reflexivity. Qed.

(* ---- the fragment where it holds, swept ---------------------------------------------------------- *)
(* mkdir / rmdir / rename over the paths a, a/b, c, one operation per batch (the wrapper keeps up), from
   the state in which a and a/b exist and are watched: every history of up to 4 operations WITHOUT a rename
   keeps the invariant (bounded sweep = evidence for the fragment, not a theorem about all histories); with
   renames the sweep finds W1-shaped histories. *)
Definition q_a : path := [97].
Definition q_ab : path := [97;47;98].
Definition q_c : path := [99].
Definition s_sweep : sys :=
  mk_sys [(1, q_a); (2, q_ab)] 3 [(0, DOT); (1, q_a); (2, q_ab)] []
         [(DOT, true); (q_a, true); (q_ab, true); (q_c, false)] [].
Definition ops_plain : list dop := [OMkdir q_a; OMkdir q_ab; OMkdir q_c; ORmdir q_a; ORmdir q_ab; ORmdir q_c].
Definition ops_moves : list dop := [OMove q_a q_c; OMove q_c q_a; OMove q_ab q_c].

Fixpoint histories (ops : list dop) (n : nat) : list (list (list dop)) :=
  match n with
  | O => [[]]
  | S k => [] :: flat_map (fun o => map (fun h => [o] :: h) (histories ops k)) ops
  end.

Lemma sweep_without_renames :
  forallb (fun h => agree (run_batches s_sweep h)) (histories ops_plain 4) = true.
Proof. vm_compute. reflexivity. Qed.

Lemma sweep_with_renames_finds_counterexample :
  forallb (fun h => agree (run_batches s_sweep h)) (histories (ops_plain ++ ops_moves) 3) = false.
Proof. vm_compute. reflexivity. Qed.
Lemma rm_watch_on_dropped_watch_refuted :
  agree s_W2 = true /\ s_queue s_W2 = [] /\
  dies_settling 200 (apply_batch s_W2 [OMove p_d1 p_d9; ORmdir p_d9]) = true /\
  dies_settling 200 (apply_batch s_W2 [OMove p_d1 p_d9]) = false /\
  dies_settling 200 (apply_batch s_W2 [ORmdir p_d1]) = false /\
  dies_settling 200 (apply_batch (settle 200 (apply_batch s_W2 [OMove p_d1 p_d9])) [ORmdir p_d9]) = false.
Proof. vm_compute. repeat split; reflexivity. Qed.
