(* C17: the main loop of convert_nglob_to_regex as translated from the Python AST on every run
   (gen/GenNglobRegex.v, one decision tree per loop iteration) is, for ALL patterns and
   substitution dictionaries, the loop of the hand-written compiler model (model/Nglob.v conv_loop,
   conv_sub, top_named) that the C17 compile theorems are about. *)
From Coq Require Import List NArith Bool Arith Lia.
From SV Require Import lib.Bytes.
From SV Require Import lib.Regex.
From SV Require Import model.Nglob.
From SV Require Import model.NglobPy.
From SV Require Import model.NglobPyRegex.
From SV Require Import gen.GenNglobCode.
From SV Require Import gen.GenNglobRegex.
From SV Require Import proofs.NglobCodeTie.
Import ListNotations.
Open Scope N_scope.

Lemma cst_eta st : mk_cst (c_parts st) (c_last st) (c_enc st) (c_stars st) = st.
Proof. destruct st. reflexivity. Qed.

Lemma rev_snoc (a : str) c : rev (a ++ [c]) = c :: rev a.
Proof. rewrite rev_app_distr. reflexivity. Qed.

(* ---- facts about the text of a class / a named wildcard ---- *)
Lemma cls_ends i : t_endswith (TCls i) [93] = true.
Proof. unfold t_endswith. cbn [tok_text app rev]. rewrite rev_snoc. reflexivity. Qed.

Lemma name_ends n : t_endswith (TName n) [125] = true.
Proof.
  unfold t_endswith. cbn [tok_text app rev]. rewrite !rev_app_distr. cbn [rev app]. cbn. reflexivity.
Qed.

Lemma firstn_all_app {A} (a b : list A) : firstn (length a) (a ++ b) = a.
Proof. induction a; cbn; [destruct b; reflexivity|]. f_equal. assumption. Qed.

Lemma cls_slice1 i : t_slice (TCls i) 1 1 = i.
Proof.
  unfold t_slice. cbn [tok_text app skipn length]. rewrite app_length. cbn [length].
  replace (S (length i + 1) - 1 - 1)%nat with (length i) by lia. apply firstn_all_app.
Qed.

Lemma cls_slice2 c i : t_slice (TCls (c :: i)) 2 1 = i.
Proof.
  unfold t_slice. cbn [tok_text app skipn length]. rewrite app_length. cbn [length].
  replace (S (S (length i + 1)) - 2 - 1)%nat with (length i) by lia. apply firstn_all_app.
Qed.

Lemma cls_char1 i : ochar_eq (t_char (TCls i) 1) 33 = head_is 33 i.
Proof. unfold t_char. cbn [tok_text app nth_error]. destruct i; reflexivity. Qed.

Lemma cls_regex i :
  (if ochar_eq (t_char (TCls i) 1) 33 then RCls true (t_slice (TCls i) 2 1) else RCls false (t_slice (TCls i) 1 1))
  = re_cls i.
Proof.
  rewrite cls_char1. unfold re_cls. destruct i as [|c i]; [cbn [head_is]; rewrite cls_slice1; reflexivity|].
  cbn [head_is tl]. destruct (c =? 33); [rewrite cls_slice2|rewrite cls_slice1]; reflexivity.
Qed.

(* the `last` fragment is a token of the pattern: its text is "*" / "**" / "**/" only if it IS that token *)
Definition last_ok (st : cst) : Prop := match c_last st with Some t => lit_ok t | None => True end.

Lemma last_tests o : match o with Some t => lit_ok t | None => True end ->
  ot_in o [[42]; [42; 42]] = is_tstar o || is_tdstar o
  /\ ot_eq o [42; 42] = is_tdstar o /\ ot_eq o [42] = is_tstar o /\ ot_eq o [42; 42; 47] = is_tdstarslash o.
Proof.
  intros H. destruct o as [t|]; [|repeat split; reflexivity].
  destruct t as [s| | | | |i|n]; try (repeat split; reflexivity).
  destruct H as [_ Hp]. destruct (lit_tests s Hp) as (E1 & E2 & E3 & E4 & E5).
  unfold ot_in, ot_eq. cbn [is_tstar is_tdstar is_tdstarslash orb]. rewrite E2, E3, E4, E5. repeat split; reflexivity.
Qed.

Definition handler (allow : bool) (subs : subs_t) : named_handler :=
  if allow then top_named subs else (fun _ _ => CErr ENamesNotAllowed).

(* what one iteration does, fragment by fragment *)
Definition frag_spec (allow : bool) (subs : subs_t) (st : cst) (ip : bool * tok) : cres cst :=
  match ip with
  | (false, TLit []) => COk st
  | (_, t) => conv_step (handler allow subs) st t
  end.

(* RE_ANY_WILD.split puts texts at even positions and wildcards at odd ones *)
Definition even_lit (ip : bool * tok) : Prop :=
  match ip with (false, TLit _) => True | (false, _) => False | _ => True end.

Lemma py_frags_even ts : forall b, Forall even_lit (py_frags ts b).
Proof.
  induction ts as [|t ts IH]; intros b.
  - destruct b; repeat constructor.
  - destruct t; cbn [py_frags]; destruct b; cbn [app]; repeat (constructor; try exact I); apply IH.
Qed.

Lemma nonempty_len (s : str) : s <> [] -> Nat.eqb (length s) 0 = false.
Proof. destruct s; [congruence|reflexivity]. Qed.

Lemma gen_regex_frag_spec rec allow subs st ip :
  (forall p, rec p = conv_sub p) -> last_ok st -> ok_frag ip -> even_lit ip -> lit_ok (snd ip) ->
  gen_regex_frag rec allow subs st ip = frag_spec allow subs st ip.
Proof.
  intros Hrec Hlast Hok Heven Hlit. destruct (last_tests (c_last st) Hlast) as (L1 & L2 & L3 & L4).
  destruct ip as [odd t]. unfold gen_regex_frag. cbv zeta. cbn [fst snd] in *.
  destruct odd.
  - (* a wildcard fragment *)
    destruct t as [s| | | | |i|n]; [destruct Hok| | | | | |]; cbn [negb frag_spec conv_step].
    + (* ? *) reflexivity.
    + (* * *) change (t_eq TStar [63]) with false. change (t_eq TStar [42]) with true. cbn iota.
      rewrite L1. unfold push. destruct (is_tstar (c_last st) || is_tdstar (c_last st)); reflexivity.
    + (* ** *) change (t_eq TDStar [63]) with false. change (t_eq TDStar [42]) with false.
      change (t_eq TDStar [42; 42]) with true. cbn iota. rewrite L2, L3. unfold push.
      destruct (is_tdstar (c_last st)); [reflexivity|]. destruct (is_tstar (c_last st)); reflexivity.
    + (* **/ *) change (t_eq TDStarSlash [63]) with false. change (t_eq TDStarSlash [42]) with false.
      change (t_eq TDStarSlash [42; 42]) with false. change (t_eq TDStarSlash [42; 42; 47]) with true. cbn iota.
      rewrite L4, L1. unfold push.
      destruct (is_tdstarslash (c_last st)); [reflexivity|]. destruct (is_tstar (c_last st) || is_tdstar (c_last st)); reflexivity.
    + (* class *)
      change (t_eq (TCls i) [63]) with false. change (t_eq (TCls i) [42]) with false.
      change (t_eq (TCls i) [42; 42]) with false. change (t_eq (TCls i) [42; 42; 47]) with false.
      change (t_startswith (TCls i) [91]) with true. rewrite cls_ends. cbn [andb]. cbn iota.
      rewrite cls_regex. unfold push.
      assert (Hn : is_nil (pr (re_cls i)) = false) by (unfold re_cls; destruct (head_is 33 i); reflexivity).
      rewrite Hn.
      assert (Hl : Nat.eqb (length (pr (re_cls i))) 0 = false) by (unfold re_cls; destruct (head_is 33 i); reflexivity).
      rewrite Hl. reflexivity.
    + (* named *)
      change (t_eq (TName n) [63]) with false. change (t_eq (TName n) [42]) with false.
      change (t_eq (TName n) [42; 42]) with false. change (t_eq (TName n) [42; 42; 47]) with false.
      change (t_startswith (TName n) [91]) with false. cbn [andb]. cbn iota.
      change (t_startswith (TName n) [36; 123; 42]) with true. rewrite name_ends. cbn [andb]. cbn iota.
      unfold handler. destruct allow; cbn [negb]; [|reflexivity].
      rewrite gen_get_wildcard_name_eq. unfold top_named. destruct (is_nil n); [reflexivity|].
      destruct (mem_str n (c_enc st)); [unfold push; reflexivity|].
      rewrite Hrec. change (subs_get_default n subs [42]) with (sub_of n subs).
      destruct (conv_sub (sub_of n subs)) as [ps|e]; [|reflexivity].
      unfold push, star_text. change (is_nil (pr (RGrp n (rcat ps)))) with false. cbn iota.
      change (Nat.eqb (length (pr (RGrp n (rcat ps)))) 0) with false. cbn [negb]. cbn iota.
      destruct (str_eqb (pr (rcat ps)) [91; 94; 47; 93; 42]); reflexivity.
  - (* the text between two wildcards *)
    cbn [negb]. destruct t as [s| | | | |i|n]; try (destruct Heven).
    destruct s as [|c s]; [cbn; rewrite cst_eta; reflexivity|]. reflexivity.
Qed.

Lemma frag_spec_last_ok allow subs st ip st' :
  last_ok st -> lit_ok (snd ip) -> frag_spec allow subs st ip = COk st' -> last_ok st'.
Proof.
  intros Hl Ht H. destruct ip as [odd t]. cbn [snd] in Ht.
  assert (Hstep : forall st1, conv_step (handler allow subs) st t = COk st1 -> last_ok st1).
  { intros st1 Hs. unfold last_ok.
    destruct t; cbn [conv_step] in Hs;
      try (inversion Hs; subst; unfold push;
           repeat match goal with |- context [if ?c then _ else _] => destruct c end; exact Ht).
    destruct (handler allow subs name st) as [[[r sn] enc]|]; [|discriminate]. inversion Hs; subst. unfold push.
    destruct (is_nil (pr r)); exact Ht. }
  unfold frag_spec in H. destruct odd; [apply Hstep; exact H|].
  destruct t as [[|c s]| | | | | |]; try (apply Hstep; exact H). inversion H; subst. exact Hl.
Qed.

(* the fold over RE_ANY_WILD.split is the loop over the tokens *)
Lemma frags_loop allow subs ts : Forall lit_ok ts -> forall b st,
  fold_cres (frag_spec allow subs) (py_frags ts b) st = conv_loop (handler allow subs) ts st.
Proof.
  induction 1 as [|t ts Ht Hts IH]; intros b st.
  - destruct b; reflexivity.
  - assert (Hpre : forall rest, fold_cres (frag_spec allow subs) ((if b then [] else [(false, TLit [])]) ++ rest) st
                                = fold_cres (frag_spec allow subs) rest st) by (intros; destruct b; reflexivity).
    destruct t as [s| | | | |i|n]; cbn [py_frags conv_loop].
    + cbn [fold_cres]. assert (E : frag_spec allow subs st (false, TLit s) = conv_step (handler allow subs) st (TLit s)).
      { destruct Ht as [Hne _]. destruct s; [congruence|reflexivity]. }
      rewrite E. destruct (conv_step (handler allow subs) st (TLit s)); [apply IH|reflexivity].
    + rewrite Hpre. cbn [fold_cres frag_spec]. destruct (conv_step (handler allow subs) st TQ); [apply IH|reflexivity].
    + rewrite Hpre. cbn [fold_cres frag_spec]. destruct (conv_step (handler allow subs) st TStar); [apply IH|reflexivity].
    + rewrite Hpre. cbn [fold_cres frag_spec]. destruct (conv_step (handler allow subs) st TDStar); [apply IH|reflexivity].
    + rewrite Hpre. cbn [fold_cres frag_spec]. destruct (conv_step (handler allow subs) st TDStarSlash); [apply IH|reflexivity].
    + rewrite Hpre. cbn [fold_cres frag_spec]. destruct (conv_step (handler allow subs) st (TCls i)); [apply IH|reflexivity].
    + rewrite Hpre. cbn [fold_cres frag_spec]. destruct (conv_step (handler allow subs) st (TName n)); [apply IH|reflexivity].
Qed.

Lemma py_frags_lits ts : Forall lit_ok ts -> forall b, Forall (fun ip => lit_ok (snd ip) \/ snd ip = TLit []) (py_frags ts b).
Proof.
  induction 1 as [|t ts Ht Hts IH]; intros b.
  - destruct b; cbn [py_frags]; [constructor|]. constructor; [right; reflexivity|constructor].
  - destruct t; cbn [py_frags]; destruct b; cbn [app];
      repeat (apply Forall_cons; [first [left; exact Ht | right; reflexivity]|]); apply IH.
Qed.

Lemma gen_fold_is_spec rec allow subs : (forall p, rec p = conv_sub p) ->
  forall l, Forall ok_frag l -> Forall even_lit l -> Forall (fun ip => lit_ok (snd ip) \/ snd ip = TLit []) l ->
  forall st, last_ok st ->
  fold_cres (gen_regex_frag rec allow subs) l st = fold_cres (frag_spec allow subs) l st.
Proof.
  intros Hrec l Hok. induction Hok as [|ip l Hip Hl IH]; intros Hev Hlit st Hst; [reflexivity|].
  inversion Hlit as [|? ? Hh Ht]; subst. inversion Hev as [|? ? Hev1 Hev2]; subst. cbn [fold_cres].
  assert (E : gen_regex_frag rec allow subs st ip = frag_spec allow subs st ip).
  { destruct Hh as [Hh|Hh]; [apply gen_regex_frag_spec; assumption|].
    destruct ip as [odd t]. cbn [snd] in Hh. subst t. destruct odd; [destruct Hip|].
    unfold gen_regex_frag. cbv zeta. cbn. rewrite cst_eta. reflexivity. }
  rewrite E. destruct (frag_spec allow subs st ip) as [st'|] eqn:Es; [|reflexivity].
  apply IH; [exact Hev2|exact Ht|].
  destruct Hh as [Hh|Hh]; [eapply frag_spec_last_ok; eassumption|].
  destruct ip as [odd t]. cbn [snd] in Hh. subst t. destruct odd; [destruct Hip|]. cbn in Es. inversion Es; subst. exact Hst.
Qed.

Lemma st0_last_ok : last_ok st0.
Proof. exact I. Qed.

(* The loop of the code, for the recursive call of a sub-pattern (allow_names = False: the
   post-processing block is skipped, `if allow_names:` is checked by translator/gen_nglob.py) ... *)
Definition gen_conv_sub (p : str) : cres (list re) :=
  if is_nil p then CErr EEmptyPattern
  else match fold_cres (gen_regex_frag (fun _ => CErr ENamesNotAllowed) false []) (py_split_enum p) st0 with
       | CErr e => CErr e
       | COk st => COk (c_parts st)
       end.

(* ... and at the top level *)
Definition gen_conv_loop (p : str) (subs : subs_t) : cres cst :=
  fold_cres (gen_regex_frag gen_conv_sub true subs) (py_split_enum p) st0.

Lemma gen_fold_sub_any_rec rec1 rec2 subs l st :
  fold_cres (gen_regex_frag rec1 false subs) l st = fold_cres (gen_regex_frag rec2 false subs) l st.
Proof.
  revert st. induction l as [|ip l IH]; intros st; [reflexivity|]. cbn [fold_cres].
  assert (E : gen_regex_frag rec1 false subs st ip = gen_regex_frag rec2 false subs st ip).
  { unfold gen_regex_frag. cbv zeta. cbn [negb].
    repeat match goal with |- context [if ?c then _ else _] => destruct c; try reflexivity end. }
  rewrite E. destruct (gen_regex_frag rec2 false subs st ip); [apply IH|reflexivity].
Qed.

Theorem gen_conv_sub_eq p : gen_conv_sub p = conv_sub p.
Proof.
  unfold gen_conv_sub, conv_sub. destruct (is_nil p); [reflexivity|]. unfold py_split_enum.
  rewrite (gen_fold_sub_any_rec _ conv_sub).
  rewrite (gen_fold_is_spec conv_sub false [] (fun _ => eq_refl) _ (py_frags_ok _ _) (py_frags_even _ _)
             (py_frags_lits _ (tokenize_lits p) _) st0 st0_last_ok).
  rewrite (frags_loop false [] _ (tokenize_lits p)). reflexivity.
Qed.

Theorem gen_conv_loop_eq p subs : gen_conv_loop p subs = conv_loop (top_named subs) (tokenize p) st0.
Proof.
  unfold gen_conv_loop, py_split_enum.
  rewrite (gen_fold_is_spec gen_conv_sub true subs gen_conv_sub_eq _ (py_frags_ok _ _) (py_frags_even _ _)
             (py_frags_lits _ (tokenize_lits p) _) st0 st0_last_ok).
  rewrite (frags_loop true subs _ (tokenize_lits p)). reflexivity.
Qed.

(* the regex fragments the code assigns print as the texts the code has *)
Lemma gen_regex_consts_ok : forallb (fun x => str_eqb (pr (fst x)) (snd x)) gen_regex_consts = true.
Proof. reflexivity. Qed.

(* The compiler of the code (translated loop + the model's reading of the verbatim-checked
   post-processing block) is the compiler model. *)
Definition gen_conv_regex (p : str) (subs : subs_t) : cres (list re) :=
  if is_nil p then CErr EEmptyPattern
  else match gen_conv_loop p subs with
       | CErr e => CErr e
       | COk st => COk (trailing (c_stars st) (enclosed (c_stars st) (length (c_parts st)) 0 (c_parts st)))
       end.

Theorem translated_regex_loop_equals_model :
  (forall p subs, gen_conv_loop p subs = conv_loop (top_named subs) (tokenize p) st0)
  /\ (forall p, gen_conv_sub p = conv_sub p)
  /\ (forall p subs, gen_conv_regex p subs = conv_regex p subs)
  /\ forallb (fun x => str_eqb (pr (fst x)) (snd x)) gen_regex_consts = true.
Proof.
  split; [exact gen_conv_loop_eq|]. split; [exact gen_conv_sub_eq|]. split; [|exact gen_regex_consts_ok].
  intros p subs. unfold gen_conv_regex, conv_regex. rewrite gen_conv_loop_eq. reflexivity.
Qed.

(* The compile theorems restated for the compiler as the code has it NOW (translated loop): they
   follow from the model theorems through the tie above, so a changed rule of the loop breaks them
   here, by name. *)
From SV Require Import proofs.NglobShape.
From SV Require Import proofs.NglobCorrect.

Theorem translated_compiler_parts_shape p subs ps :
  gen_conv_regex p subs = COk ps -> parts_ok ps = true.
Proof. rewrite (proj1 (proj2 (proj2 translated_regex_loop_equals_model))). apply conv_regex_parts_ok. Qed.

Theorem translated_compiler_correct_partial p subs ps s :
  f1 p subs = true -> gen_conv_regex p subs = COk ps -> wf_path s = true ->
  nglob_ref false p subs s = Some (accepts (rcat ps) s).
Proof. rewrite (proj1 (proj2 (proj2 translated_regex_loop_equals_model))). apply compile_regex_correct_partial. Qed.
