(* C03 -- proofs about the CHECKING path (model/FreshSkip.v): a step that holds a stored hash is
   skipped only if the files still have the stored ingredients; validate_dynamic_job never records a
   success and never runs a command; a cancelled hash computation never records a success. *)
From Coq Require Import List NArith Bool Lia.
From SV Require Import lib.StampMap.
From SV Require Import gen.GenFresh.
From SV Require Import model.Fresh.
From SV Require Import model.FreshSkip.
From SV Require Import proofs.FreshProofs.
Import ListNotations.
Open Scope N_scope.
Open Scope bool_scope.

(* ====================================================================================== *)
(* A. Ingredient lists                                                                      *)
(* ====================================================================================== *)

Lemma pairs_eqb_eq a : forall b, pairs_eqb a b = true -> a = b.
Proof.
  induction a as [|[x1 y1] a IH]; intros [|[x2 y2] b] H; cbn in H; try discriminate; [reflexivity|].
  apply andb_true_iff in H as [H Hr]. apply andb_true_iff in H as [Hx Hy].
  apply N.eqb_eq in Hx. apply N.eqb_eq in Hy. subst. f_equal. apply IH. exact Hr.
Qed.

Lemma pairs_eqb_refl a : pairs_eqb a a = true.
Proof. induction a as [|[x y] a IH]; cbn; [reflexivity|]. rewrite !N.eqb_refl, IH. reflexivity. Qed.

Lemma In_insert_pair x l y : In y (insert_pair x l) <-> y = x \/ In y l.
Proof.
  induction l as [|z l IH]; cbn.
  - split; [intros [H|[]]; left; symmetry; exact H|intros [H|[]]; left; symmetry; exact H].
  - destruct (fst x <=? fst z); cbn.
    + split; [intros [H|H]; [left; symmetry; exact H|right; exact H]|intros [H|H]; [left; symmetry; exact H|right; exact H]].
    + rewrite IH. split.
      * intros [H|[H|H]]; [right; left; exact H|left; exact H|right; right; exact H].
      * intros [H|[H|H]]; [right; left; exact H|left; exact H|right; right; exact H].
Qed.

Lemma In_canon l y : In y (canon l) <-> In y l.
Proof.
  induction l as [|x l IH]; cbn; [tauto|].
  rewrite In_insert_pair, IH. split; intros [H|H]; auto.
Qed.

(* ====================================================================================== *)
(* B. The generated decision functions, spelled out                                        *)
(* ====================================================================================== *)

Lemma get_next_step_state_spec h :
  get_next_step_state_gen h = if h then SS_CHECKING else SS_RUNNING.
Proof. destruct h; reflexivity. Qed.

(* execute_job iff there is no stored hash; with a hash: try_skip_job iff every dynamic input is
   ready, else validate_dynamic_job *)
Lemma derive_job_kind_spec d h :
  derive_job_kind_gen d h = if h then (if d then JK_try_skip else JK_validate) else JK_execute.
Proof. destruct d, h; reflexivity. Qed.

Lemma validate_spec ie u :
  validate_gen true ie u =
  if ie then (false, true, SS_PENDING, validate_unchanged_deferred_gen u) else (true, false, 0, false).
Proof. destruct ie; reflexivity. Qed.

(* ---- Step.has_unusable_dynamic_input versus the dynamic_inputs_ready test of _derive_job ---- *)
Lemma has_unusable_dyn_crow w st df dc : has_unusable_dyn (set_crow w st df dc) = has_unusable_dyn w.
Proof. reflexivity. Qed.

Lemma static_input_never_not_ready st det :
  dj_is_not_ready (derive_job_input_gen st det false) = false.
Proof.
  unfold derive_job_input_gen.
  destruct (st =? 18); [reflexivity|]. destruct det; cbn [negb andb];
    [reflexivity|destruct ((st =? 16) || (st =? 14)); reflexivity].
Qed.

Lemma dynamic_input_not_ready_iff_unusable st det :
  dj_is_error (derive_job_input_gen st det true) = false ->
  dj_is_not_ready (derive_job_input_gen st det true) = unusable_dyn_input_gen st det.
Proof.
  unfold derive_job_input_gen, unusable_dyn_input_gen.
  destruct (st =? 18); [discriminate|].
  destruct det; cbn [negb andb orb]; [reflexivity|].
  destruct (st =? 16), (st =? 14); cbn [orb negb]; try reflexivity.
  destruct ((st =? 15) || (st =? 17)); [discriminate|reflexivity].
Qed.

Lemma existsb_false_forall {A} (p : A -> bool) l : existsb p l = false -> forall a, In a l -> p a = false.
Proof.
  intros H a Ha. destruct (p a) eqn:E; [|reflexivity].
  assert (X : existsb p l = true) by (apply existsb_exists; eauto). rewrite X in H. discriminate.
Qed.

Lemma existsb_ext_in {A} (p q : A -> bool) l : (forall a, In a l -> p a = q a) -> existsb p l = existsb q l.
Proof.
  induction l as [|a l IH]; intros H; [reflexivity|]. cbn [existsb].
  rewrite (H a (or_introl eq_refl)), IH; [reflexivity|]. intros b Hb. apply H. right. exact Hb.
Qed.

(* has_unusable_dynamic_input() is the exact opposite of dynamic_inputs_ready (no sanity error) *)
Lemma unusable_iff_not_ready w :
  derive_error w = false -> has_unusable_dyn w = negb (dyn_ready w).
Proof.
  intros He. unfold derive_error in He. apply orb_false_iff in He. destruct He as [_ Hd].
  unfold dyn_ready, has_unusable_dyn. rewrite negb_involutive.
  assert (H1 : existsb (fun f => dj_is_not_ready (derive_input w false f)) (c_init w) = false).
  { destruct (existsb _ (c_init w)) eqn:E; [|reflexivity].
    apply existsb_exists in E. destruct E as (f & _ & Hf). unfold derive_input in Hf.
    rewrite static_input_never_not_ready in Hf. discriminate. }
  rewrite H1. cbn [orb]. apply existsb_ext_in. intros f Hf.
  unfold derive_input. symmetry. apply dynamic_input_not_ready_iff_unusable.
  exact (existsb_false_forall _ _ Hd f Hf).
Qed.

Lemma try_skip_phase1_spec ie :
  try_skip_phase1_gen true ie = if ie then (false, false) else (true, true).
Proof. destruct ie; reflexivity. Qed.

(* holds for both reviewed shapes of try_skip_job: without the re-check of the input records
   (skip_rechecks_inputs = false: `overtaken` is ignored) and with it *)
Lemma try_skip_phase2_spec ok ie oe ov :
  try_skip_phase2_gen ok ie oe ov =
  if ok then (if oe then (if skip_rechecks_inputs && ov
                          then (false, false, false, false, false, true, SS_PENDING, false)
                          else (false, false, true, true, true, false, 0, false))
              else (false, true, false, false, false, false, 0, false))
  else (true, false, false, false, false, false, 0, false).
Proof. destruct ok, ie, oe, ov; reflexivity. Qed.

Lemma reset_to_pending_spec : reset_to_pending_gen = (true, true, true, SS_PENDING, false).
Proof. reflexivity. Qed.

(* Step.mark_completed stores a hash exactly when it makes the step SUCCEEDED (else it deletes it) *)
Lemma mark_completed_hash_iff hs wd dc cp hud st0 :
  let '(st, _, _, _, stored, _, _, _) := mark_completed_gen hs wd dc cp hud st0 in
  stored = (st =? SS_SUCCEEDED).
Proof.
  destruct hs.
  - rewrite mark_completed_ok. reflexivity.
  - destruct wd.
    + rewrite mark_completed_defer. destruct (dc + 1 <=? cp); reflexivity.
    + rewrite mark_completed_fail. reflexivity.
Qed.

Lemma apply_reset_spec x w :
  apply_reset x w = mkX (set_crow (set_dyn w []) SS_PENDING false (c_dc w)) None (x_outs x) (x_envc x) None.
Proof. unfold apply_reset. rewrite reset_to_pending_spec. reflexivity. Qed.

(* the translated _report_run: drains iff the tag is FAIL and keep_going is off *)
Lemma report_drains_spec tag kg : report_drains_gen tag kg = (tag =? TAG_FAIL) && negb kg.
Proof. unfold report_drains_gen, TAG_FAIL. destruct (tag =? 2), kg; reflexivity. Qed.

(* the translated _drain_for_unexpected_input_changes sets scheduler.draining (breaks when it only reports) *)
Lemma drain_for_changes_spec : drain_for_changes_gen = true.
Proof. reflexivity. Qed.

Lemma finalize_failed_spec w t :
  c_state (finalize_failed w t) = SS_FAILED /\ c_deferred (finalize_failed w t) = false /\
  c_run (finalize_failed w t) = c_run w /\ files (finalize_failed w t) = files w /\
  disk (finalize_failed w t) = disk w /\ c_dyn (finalize_failed w t) = c_dyn w /\
  bk (finalize_failed w t) = bstep (bk w) (BStop (c_id w) t false) /\
  draining (finalize_failed w t) = draining w || negb (keep_going w).
Proof.
  unfold finalize_failed. rewrite mark_completed_fail, report_drains_spec. cbn. repeat split; reflexivity.
Qed.

Lemma rehash_failed_crow w l :
  c_state (rehash_failed w l) = c_state w /\ c_run (rehash_failed w l) = c_run w /\
  c_dc (rehash_failed w l) = c_dc w /\ cap (rehash_failed w l) = cap w /\ c_id (rehash_failed w l) = c_id w.
Proof. unfold rehash_failed. cbn. repeat split; reflexivity. Qed.

Lemma fail_new_run_spec w t ch :
  c_state (fail_new_run w t ch) = SS_FAILED /\ c_deferred (fail_new_run w t ch) = false /\
  c_run (fail_new_run w t ch) = c_run w /\
  (ch <> [] -> draining (fail_new_run w t ch) = true).
Proof.
  unfold fail_new_run.
  destruct (finalize_failed_spec (rehash_failed w ch) t) as [Hs [Hd [Hr _]]].
  destruct (rehash_failed_crow w ch) as [_ [Hr' _]].
  destruct (nonempty ch) eqn:Hn.
  - cbn [set_draining c_state c_deferred c_run draining]. rewrite Hs, Hd, Hr, Hr'. repeat split; reflexivity.
  - rewrite Hs, Hd, Hr, Hr'. repeat split; try reflexivity.
    intros Hne. rewrite (nonempty_true _ Hne) in Hn. discriminate.
Qed.

(* ====================================================================================== *)
(* C. Dispatch of a step that holds a stored hash                                           *)
(* ====================================================================================== *)

Definition all_inputs (w : world) : list N := c_init w ++ c_dyn w.

(* no sanity branch fired and every dynamic input is ready: every input is hashed *)
Lemma all_inputs_hashed w :
  derive_error w = false -> dyn_ready w = true ->
  forall f, In f (all_inputs w) ->
    f_detached (files w f) = false /\
    (f_state (files w f) = FS_BUILT \/ f_state (files w f) = FS_CONFIRMED) /\
    In (f, f_hash (files w f)) (snapshot w).
Proof.
  unfold derive_error, dyn_ready, all_inputs. intros He Hd f Hin.
  apply orb_false_iff in He as [He1 He2].
  apply negb_true_iff in Hd. apply orb_false_iff in Hd as [Hd1 Hd2].
  apply in_app_or in Hin as [Hin|Hin].
  - pose proof (existsb_false_forall _ _ He1 f Hin) as H1.
    pose proof (existsb_false_forall _ _ Hd1 f Hin) as H2. cbn in H1, H2.
    destruct (derive_input w false f) eqn:Hdi; try discriminate.
    unfold derive_input in Hdi. apply derive_hash_iff in Hdi as [Hdet Hst].
    split; [exact Hdet|]. split; [exact Hst|].
    unfold snapshot. apply in_map_iff. exists f. split; [reflexivity|]. apply in_or_app. left.
    apply filter_In. split; [exact Hin|]. unfold derive_input.
    rewrite (proj2 (derive_hash_iff _ _ false) (conj Hdet Hst)). reflexivity.
  - pose proof (existsb_false_forall _ _ He2 f Hin) as H1.
    pose proof (existsb_false_forall _ _ Hd2 f Hin) as H2. cbn in H1, H2.
    destruct (derive_input w true f) eqn:Hdi; try discriminate.
    unfold derive_input in Hdi. apply derive_hash_iff in Hdi as [Hdet Hst].
    split; [exact Hdet|]. split; [exact Hst|].
    unfold snapshot. apply in_map_iff. exists f. split; [reflexivity|]. apply in_or_app. right.
    apply filter_In. split; [exact Hin|]. unfold derive_input.
    rewrite (proj2 (derive_hash_iff _ _ true) (conj Hdet Hst)). reflexivity.
Qed.

Lemma snapshot_inputs w f h : In (f, h) (snapshot w) -> In f (all_inputs w) /\ h = f_hash (files w f).
Proof.
  unfold snapshot, all_inputs. intros H. apply in_map_iff in H as [g [Hg Hin]]. inversion Hg; subst g h.
  split; [|reflexivity]. apply in_app_or in Hin as [H|H]; apply filter_In in H as [H _]; apply in_or_app; auto.
Qed.

Lemma snap_changed_crow w st df dc s : snap_changed (set_crow w st df dc) s = snap_changed w s.
Proof. reflexivity. Qed.

Lemma map_disk_snapshot w s :
  snap_changed w s = false -> map (fun fh => (fst fh, disk w (fst fh))) s = s.
Proof.
  intros H. pose proof (snap_unchanged_all w s H) as Hall. clear H.
  induction s as [|[f h] s IH]; [reflexivity|]. cbn [map fst]. f_equal.
  - rewrite (Hall f h (or_introl eq_refl)). reflexivity.
  - apply IH. intros f' h' Hin. apply Hall. right. exact Hin.
Qed.

Lemma new_run_cases w s cancel :
  match new_run w s cancel with
  | NR_cancelled => cancel = true
  | NR_changed ch => cancel = false /\ snap_changed w s = true /\ ch <> []
  | NR_ok inp => cancel = false /\ snap_changed w s = false /\ inp = canon s
  end.
Proof.
  unfold new_run. destruct cancel; [reflexivity|]. destruct (snap_changed w s) eqn:Hs.
  - split; [reflexivity|]. split; [reflexivity|].
    unfold snap_changed in Hs. apply existsb_exists in Hs as [fh [Hin Hfh]].
    intros Hnil. assert (Hx : In (fst fh) (map fst (filter (fun fh0 => negb (disk w (fst fh0) =? snd fh0)) s))).
    { apply in_map. apply filter_In. split; assumption. }
    rewrite Hnil in Hx. exact Hx.
  - split; [reflexivity|]. split; [reflexivity|]. rewrite (map_disk_snapshot w s Hs). reflexivity.
Qed.

(* The lemmas about a dispatch are proved for any decision function `vg` of validate_dynamic_job that
   has the reviewed shape with some `deferred` flag d in its "digest unchanged" branch; they are
   instantiated below with the generated validate_gen (d = validate_unchanged_deferred) and with
   validate_prefix, the code before fix d760e3e (d = false). *)
Section ValidateDecision.
Variable vg : bool -> bool -> bool -> bool * bool * N * bool.
Variable d : bool -> bool.
Hypothesis Hvg : forall ie u, vg true ie u = if ie then (false, true, SS_PENDING, d u) else (true, false, 0, false).

(* The dispatch decision itself. *)
Lemma g_do_xtry_dispatched x t cancel x' k s :
  do_xtry_gen vg x t cancel = (x', XRTry k s) -> k <> 0 ->
  dispatchable (xb x) = true /\ is_checking x = false /\ derive_error (xb x) = false /\
  ((k = 1 /\ x_hash x = None) \/
   (k = 2 /\ dyn_ready (xb x) = true /\ exists sh, x_hash x = Some sh) \/
   (k = 3 /\ dyn_ready (xb x) = false /\ exists sh, x_hash x = Some sh)).
Proof.
  unfold do_xtry_gen. intros H Hk.
  destruct (dispatchable (xb x)) eqn:Hd; cbn [negb orb] in H; [|inversion H; subst; contradiction].
  destruct (is_checking x) eqn:Hc; [inversion H; subst; contradiction|].
  destruct (derive_error (xb x)) eqn:He; [inversion H; subst; contradiction|].
  split; [reflexivity|]. split; [reflexivity|]. split; [reflexivity|].
  rewrite derive_job_kind_spec in H. unfold has_hash in H.
  destruct (x_hash x) as [sh|] eqn:Hh.
  - destruct (dyn_ready (xb x)) eqn:Hr.
    + right. left. split; [|split; [reflexivity|exists sh; reflexivity]].
      destruct (new_run _ _ _); [|inversion H; reflexivity|inversion H; reflexivity].
      rewrite try_skip_phase1_spec in H. destruct (inp_equal _ _ _); inversion H; reflexivity.
    + right. right. split; [|split; [reflexivity|exists sh; reflexivity]].
      destruct (new_run _ _ _); [|inversion H; reflexivity|inversion H; reflexivity].
      rewrite Hvg in H. destruct (inp_equal _ _ _); inversion H; reflexivity.
  - left. split; [|reflexivity].
    destruct cancel; [inversion H; reflexivity|].
    destruct (do_try (xb x) t) as [w' r]. inversion H; reflexivity.
Qed.

(* The dispatch of a step that holds a stored hash, as one case analysis (both kinds of job). *)
Lemma g_do_xtry_with_hash x t cancel sh :
  dispatchable (xb x) = true -> is_checking x = false -> derive_error (xb x) = false ->
  x_hash x = Some sh ->
  let w := xb x in
  let w1 := set_crow w SS_CHECKING false (c_dc w) in
  let kn := if dyn_ready w then 2 else 3 in
  do_xtry_gen vg x t cancel =
    match new_run w1 (snapshot w) cancel with
    | NR_cancelled => (set_xhash (set_xb x (fail_new_run w1 t [])) None, XRTry kn false)
    | NR_changed ch => (set_xhash (set_xb x (fail_new_run w1 t ch)) None, XRTry kn false)
    | NR_ok inp =>
        if inp_equal sh (x_envc x) inp then
          if dyn_ready w then (set_xchk (set_xb x w1) (Some (mkChk sh (x_envc x) inp (snapshot w))), XRTry 2 false)
          else (set_xb x (set_crow w1 SS_PENDING (d (has_unusable_dyn w)) (c_dc w)), XRTry 3 false)
        else (apply_reset x w1, XRTry kn false)
    end.
Proof.
  intros Hd Hc He Hh. cbv zeta. unfold do_xtry_gen. rewrite Hd, Hc, He. cbn [negb orb].
  rewrite derive_job_kind_spec. unfold has_hash. rewrite Hh. rewrite get_next_step_state_spec.
  destruct (dyn_ready (xb x)).
  - destruct (new_run _ _ _); try reflexivity.
    rewrite try_skip_phase1_spec. destruct (inp_equal _ _ _); reflexivity.
  - destruct (new_run _ _ _); try reflexivity.
    rewrite Hvg. destruct (inp_equal _ _ _); reflexivity.
Qed.

(* try_skip_job after the output hashing, as one case analysis. *)
Definition rechecked (recheck : bool) (x : xworld) (k : chk) : bool :=
  skip_rechecks_inputs && (recheck && overtaken (xb x) k).

Lemma do_xchk_gen_spec recheck x t cancel k :
  x_chk x = Some k ->
  do_xchk_gen recheck x t cancel =
    if cancel then (mkX (finalize_failed (xb x) t) None (x_outs x) (x_envc x) None, XRChk false)
    else if pairs_eqb (sh_out (k_old k)) (out_ingredients x)
         then if rechecked recheck x k
              then (mkX (set_crow (xb x) SS_PENDING false (c_dc (xb x))) (x_hash x) (x_outs x) (x_envc x) None,
                    XRChk false)
              else (mkX (set_crow (xb x) SS_SUCCEEDED false 0)
                        (Some (mkSH (k_env k) (k_inp k) (out_ingredients x))) (x_outs x) (x_envc x) None, XRChk true)
         else (apply_reset x (xb x), XRChk false).
Proof.
  intros Hk. unfold do_xchk_gen, rechecked. rewrite Hk. rewrite try_skip_phase2_spec.
  destruct cancel; cbn [negb]; [reflexivity|].
  destruct (pairs_eqb _ _); [|reflexivity].
  destruct (skip_rechecks_inputs && (recheck && overtaken (xb x) k)); [reflexivity|].
  rewrite mark_completed_ok. reflexivity.
Qed.

Lemma do_xchk_spec x t cancel k :
  x_chk x = Some k ->
  do_xchk x t cancel =
    if cancel then (mkX (finalize_failed (xb x) t) None (x_outs x) (x_envc x) None, XRChk false)
    else if pairs_eqb (sh_out (k_old k)) (out_ingredients x)
         then if rechecked skip_rechecks_inputs x k
              then (mkX (set_crow (xb x) SS_PENDING false (c_dc (xb x))) (x_hash x) (x_outs x) (x_envc x) None,
                    XRChk false)
              else (mkX (set_crow (xb x) SS_SUCCEEDED false 0)
                        (Some (mkSH (k_env k) (k_inp k) (out_ingredients x))) (x_outs x) (x_envc x) None, XRChk true)
         else (apply_reset x (xb x), XRChk false).
Proof. exact (do_xchk_gen_spec skip_rechecks_inputs x t cancel k). Qed.

(* ---- events of other actors ---- *)
Definition xenv_only (e : xev) : bool := match e with XE _ | XEnvC _ | XHashDel => true | _ => false end.

Lemma step_env_run_none w e : env_ev e = true -> c_run w = None -> c_run (fst (step w e)) = None.
Proof.
  intros He Hr. destruct e as [f v|f row|st df dc|b|dr|t|ps|t ok]; try discriminate He; cbn [step fst];
    try exact Hr.
  unfold do_amend. rewrite Hr. exact Hr.
Qed.

Lemma xstep_env_frame x e :
  xenv_only e = true ->
  x_chk (fst (xstep x e)) = x_chk x /\ x_outs (fst (xstep x e)) = x_outs x /\
  (c_run (xb x) = None -> c_run (xb (fst (xstep x e))) = None).
Proof.
  intros He. destruct e as [e| n | |t c|t c|t ok c]; try discriminate He; cbn [xstep].
  - destruct (env_ev e) eqn:Hev; [|cbn; auto].
    pose proof (step_env_run_none (xb x) e Hev) as Hrun.
    destruct (step (xb x) e) as [w r]. cbn in *. auto.
  - cbn. auto.
  - cbn. auto.
Qed.

Lemma xrun_env_frame evs : forall x,
  forallb xenv_only evs = true ->
  x_chk (xrun evs x) = x_chk x /\ x_outs (xrun evs x) = x_outs x /\
  (c_run (xb x) = None -> c_run (xb (xrun evs x)) = None).
Proof.
  induction evs as [|e evs IH]; intros x H; [cbn; auto|].
  cbn [forallb] in H. apply andb_true_iff in H as [He H].
  destruct (xstep_env_frame x e He) as [H1 [H2 H3]].
  destruct (IH (fst (xstep x e)) H) as [H4 [H5 H6]].
  unfold xrun in *. cbn [fold_left]. rewrite H4, H5, H1, H2. auto.
Qed.

(* ====================================================================================== *)
(* D. The theorems                                                                          *)
(* ====================================================================================== *)

(* g_skip_succeeded_describes_files.  If a dispatch in x0 starts try_skip_job (kind 2), other actors
   act (mid) while the outputs are being hashed, and try_skip_job then reports a skip, then: c held a
   stored hash sh; when the inputs were hashed every declared and every recorded amended input was
   attached, BUILT or CONFIRMED, on disk with its recorded hash, and the ingredient list of the stored
   input digest is exactly {(f, hash of f on disk)} over those inputs, with the same non-file
   ingredients; when the outputs were hashed the ingredient list of the stored output digest is
   exactly {(o, hash of o on disk)} over the outputs; c becomes SUCCEEDED with the same hash, no
   command ran and no stamp was recorded. *)
Theorem g_skip_succeeded_describes_files x0 t x1 mid t' x3 :
  do_xtry_gen vg x0 t false = (x1, XRTry 2 false) -> is_checking x1 = true ->
  forallb xenv_only mid = true ->
  let x2 := xrun mid x1 in
  do_xchk x2 t' false = (x3, XRChk true) ->
  exists sh,
    x_hash x0 = Some sh /\ sh_env sh = x_envc x0 /\
    (forall f, In f (all_inputs (xb x0)) ->
       f_detached (files (xb x0) f) = false /\
       (f_state (files (xb x0) f) = FS_BUILT \/ f_state (files (xb x0) f) = FS_CONFIRMED) /\
       disk (xb x0) f = f_hash (files (xb x0) f) /\
       In (f, disk (xb x0) f) (sh_inp sh)) /\
    (forall f h, In (f, h) (sh_inp sh) -> In f (all_inputs (xb x0)) /\ disk (xb x0) f = h) /\
    (forall o, In o (x_outs x0) -> In (o, disk (xb x2) o) (sh_out sh)) /\
    (forall o h, In (o, h) (sh_out sh) -> In o (x_outs x0) /\ disk (xb x2) o = h) /\
    c_state (xb x3) = SS_SUCCEEDED /\ c_run (xb x3) = None /\ bk (xb x3) = bk (xb x2) /\
    x_hash x3 = Some sh /\ x_chk x3 = None.
Proof.
  intros Htry Hchk Hmid. cbv zeta. intros Hend.
  assert (Hk2 : (2 : N) <> 0) by discriminate.
  destruct (g_do_xtry_dispatched _ _ _ _ _ _ Htry Hk2) as [Hd [Hc [He Hkind]]].
  destruct Hkind as [[Hk _]|[[_ [Hr [sh Hh]]]|[Hk _]]]; try discriminate Hk.
  pose proof (g_do_xtry_with_hash x0 t false sh Hd Hc He Hh) as Hspec. cbv zeta in Hspec.
  rewrite Hspec in Htry. clear Hspec. rewrite Hr in Htry.
  pose proof (new_run_cases (set_crow (xb x0) SS_CHECKING false (c_dc (xb x0))) (snapshot (xb x0)) false) as Hnr.
  destruct (new_run _ _ false) as [inp| |ch].
  2:{ discriminate Hnr. }
  2:{ inversion Htry; subst x1. unfold is_checking in Hchk, Hc. cbn in Hchk. congruence. }
  destruct Hnr as [_ [Hsc Hinp]]. rewrite snap_changed_crow in Hsc. subst inp.
  destruct (inp_equal sh (x_envc x0) (canon (snapshot (xb x0)))) eqn:Hie.
  2:{ inversion Htry; subst x1. rewrite apply_reset_spec in Hchk. cbn in Hchk. discriminate Hchk. }
  inversion Htry; subst x1. clear Htry.
  unfold inp_equal in Hie. apply andb_true_iff in Hie as [Henv Hinp].
  apply N.eqb_eq in Henv. apply pairs_eqb_eq in Hinp.
  set (x1 := set_xchk (set_xb x0 (set_crow (xb x0) SS_CHECKING false (c_dc (xb x0))))
                      (Some (mkChk sh (x_envc x0) (canon (snapshot (xb x0))) (snapshot (xb x0))))) in *.
  destruct (xrun_env_frame mid x1 Hmid) as [Hk [Ho Hrun]].
  assert (Hrun0 : c_run (xb x0) = None).
  { unfold dispatchable in Hd. apply andb_true_iff in Hd as [_ Hnr]. unfold is_running in Hnr.
    destruct (c_run (xb x0)); [discriminate|reflexivity]. }
  specialize (Hrun Hrun0).
  set (x2 := xrun mid x1) in *.
  assert (Hk2' : x_chk x2 = Some (mkChk sh (x_envc x0) (canon (snapshot (xb x0))) (snapshot (xb x0)))) by (rewrite Hk; reflexivity).
  rewrite (do_xchk_spec x2 t' false _ Hk2') in Hend. cbn [k_old k_env k_inp] in Hend.
  destruct (pairs_eqb (sh_out sh) (out_ingredients x2)) eqn:Hoe.
  2:{ rewrite apply_reset_spec in Hend. inversion Hend. }
  destruct (rechecked skip_rechecks_inputs x2 _) eqn:Hrc; [inversion Hend|].
  apply pairs_eqb_eq in Hoe. inversion Hend; subst x3. clear Hend.
  assert (Houts : x_outs x2 = x_outs x0) by (rewrite Ho; reflexivity).
  exists sh. split; [exact Hh|]. split; [exact Henv|].
  split.
  { intros f Hin. destruct (all_inputs_hashed (xb x0) He Hr f Hin) as [Hdet [Hst Hsnap]].
    split; [exact Hdet|]. split; [exact Hst|].
    pose proof (snap_unchanged_all _ _ Hsc f _ Hsnap) as Hdisk.
    split; [exact Hdisk|]. rewrite Hinp. apply In_canon. rewrite Hdisk. exact Hsnap. }
  split.
  { intros f h Hin. rewrite Hinp in Hin. apply (proj1 (In_canon _ _)) in Hin.
    destruct (snapshot_inputs _ _ _ Hin) as [Hf Hh']. split; [exact Hf|].
    exact (snap_unchanged_all _ _ Hsc f h Hin). }
  split.
  { intros o Hin. rewrite Hoe. unfold out_ingredients. apply In_canon.
    apply in_map_iff. exists o. split; [reflexivity|]. rewrite Houts. exact Hin. }
  split.
  { intros o h Hin. rewrite Hoe in Hin. unfold out_ingredients in Hin. apply (proj1 (In_canon _ _)) in Hin.
    apply in_map_iff in Hin as [o' [Heq Hin]]. inversion Heq; subst o' h. rewrite Houts in Hin.
    split; [exact Hin|reflexivity]. }
  cbn [xb x_hash x_chk]. split; [reflexivity|]. split; [exact Hrun|]. split; [reflexivity|].
  split; [|reflexivity].
  rewrite <- Hoe, <- Hinp, <- Henv. destruct sh; reflexivity.
Qed.

Lemma dispatchable_facts w :
  dispatchable w = true ->
  draining w = false /\ c_state w = SS_PENDING /\ c_deferred w = false /\ ready w = true /\ c_run w = None.
Proof.
  unfold dispatchable. intros Hd.
  apply andb_true_iff in Hd as [Hd Hnr]. apply andb_true_iff in Hd as [Hd Hrdy].
  apply andb_true_iff in Hd as [Hd Hndf]. apply andb_true_iff in Hd as [Hdr Hst].
  apply negb_true_iff in Hdr. apply negb_true_iff in Hndf. apply N.eqb_eq in Hst.
  unfold is_running in Hnr. destruct (c_run w); [discriminate|]. repeat split; assumption.
Qed.

(* g_checking_outcomes.  The dispatch of a step that holds a stored hash (try_skip_job or
   validate_dynamic_job), hash computation not cancelled:
   - an input that differs from its record: FAILED, draining, hash deleted;
   - the input digest differs from the stored one: PENDING, not deferred, hash deleted, amended
     inputs dropped;
   - otherwise try_skip_job goes on to hash the outputs (the step stays CHECKING) and
     validate_dynamic_job puts the step back to PENDING.
   In no case does the command start, and the step is never SUCCEEDED afterwards. *)
Theorem g_checking_outcomes x t x' k s sh :
  do_xtry_gen vg x t false = (x', XRTry k s) -> (k = 2 \/ k = 3) -> x_hash x = Some sh ->
  s = false /\ c_run (xb x') = None /\ c_state (xb x') <> SS_SUCCEEDED /\
  (snap_changed (xb x) (snapshot (xb x)) = true ->
     c_state (xb x') = SS_FAILED /\ draining (xb x') = true /\ x_hash x' = None /\ x_chk x' = None) /\
  (snap_changed (xb x) (snapshot (xb x)) = false ->
   inp_equal sh (x_envc x) (canon (snapshot (xb x))) = false ->
     c_state (xb x') = SS_PENDING /\ c_deferred (xb x') = false /\ c_dyn (xb x') = [] /\
     x_hash x' = None /\ x_chk x' = None) /\
  (snap_changed (xb x) (snapshot (xb x)) = false ->
   inp_equal sh (x_envc x) (canon (snapshot (xb x))) = true ->
     x_hash x' = Some sh /\
     (k = 2 -> c_state (xb x') = SS_CHECKING /\
               x_chk x' = Some (mkChk sh (x_envc x) (canon (snapshot (xb x))) (snapshot (xb x)))) /\
     (k = 3 -> c_state (xb x') = SS_PENDING /\ c_deferred (xb x') = d (has_unusable_dyn (xb x)) /\
               x_chk x' = x_chk x /\ (d (has_unusable_dyn (xb x)) = false -> x' = x))).
Proof.
  intros Htry Hk Hh.
  assert (Hk0 : k <> 0) by (destruct Hk; subst; discriminate).
  destruct (g_do_xtry_dispatched _ _ _ _ _ _ Htry Hk0) as [Hd [Hc [He Hkind]]].
  destruct (dispatchable_facts _ Hd) as [_ [Hst [Hdf [_ Hrun]]]].
  pose proof (g_do_xtry_with_hash x t false sh Hd Hc He Hh) as Hspec. cbv zeta in Hspec.
  rewrite Hspec in Htry. clear Hspec.
  pose proof (new_run_cases (set_crow (xb x) SS_CHECKING false (c_dc (xb x))) (snapshot (xb x)) false) as Hnr.
  rewrite snap_changed_crow in Hnr.
  destruct (new_run _ _ false) as [inp| |ch].
  - destruct Hnr as [_ [Hsc Hinp]]. subst inp.
    destruct (inp_equal sh (x_envc x) (canon (snapshot (xb x)))) eqn:Hie.
    + destruct (dyn_ready (xb x)) eqn:Hr; inversion Htry; subst x' k s; clear Htry.
      * cbn. split; [reflexivity|]. split; [exact Hrun|]. split; [discriminate|].
        split; [intros H; rewrite H in Hsc; discriminate|]. split; [intros _ H; discriminate H|].
        intros _ _. split; [exact Hh|]. split; [intros _; split; reflexivity|intros H; discriminate H].
      * cbn. split; [reflexivity|]. split; [exact Hrun|]. split; [discriminate|].
        split; [intros H; rewrite H in Hsc; discriminate|]. split; [intros _ H; discriminate H|].
        intros _ _. split; [exact Hh|]. split; [intros H; discriminate H|]. intros _.
        split; [reflexivity|]. split; [reflexivity|]. split; [reflexivity|]. intros Hv. rewrite Hv.
        destruct x as [w h o e kk]. destruct w. cbn in *. subst. reflexivity.
    + inversion Htry; subst x' s; clear Htry. rewrite apply_reset_spec. cbn.
      split; [reflexivity|]. split; [exact Hrun|]. split; [discriminate|].
      split; [intros H; rewrite H in Hsc; discriminate|].
      split; [intros _ _; repeat split; reflexivity|]. intros _ H; discriminate H.
  - discriminate Hnr.
  - destruct Hnr as [_ [Hsc Hne]].
    inversion Htry; subst x' s; clear Htry. cbn [xb set_xhash set_xb x_hash x_chk].
    destruct (fail_new_run_spec (set_crow (xb x) SS_CHECKING false (c_dc (xb x))) t ch) as [Hs [_ [Hr Hdr]]].
    cbn in Hr. split; [reflexivity|]. split; [rewrite Hr; exact Hrun|]. split; [rewrite Hs; discriminate|].
    split.
    { intros _. split; [exact Hs|]. split; [exact (Hdr Hne)|]. split; [reflexivity|].
      unfold is_checking in Hc. destruct (x_chk x); [discriminate|reflexivity]. }
    split; [intros H; rewrite H in Hsc; discriminate|]. intros H; rewrite H in Hsc; discriminate.
Qed.

(* g_validate_never_succeeds_never_runs.  Whatever validate_dynamic_job finds (cancelled or not), the
   command does not start, the step ends PENDING or FAILED, never SUCCEEDED; and when the stored
   hash survives (the "digest unchanged" branch) the whole state is exactly what it was before the
   dispatch. *)
Theorem g_validate_never_succeeds_never_runs x t cancel x' s :
  do_xtry_gen vg x t cancel = (x', XRTry 3 s) ->
  s = false /\ c_run (xb x') = None /\ x_chk x' = None /\
  (c_state (xb x') = SS_PENDING \/ c_state (xb x') = SS_FAILED) /\
  (has_hash x' = true -> d (has_unusable_dyn (xb x)) = false -> x' = x).
Proof.
  intros Htry.
  assert (Hk0 : (3 : N) <> 0) by discriminate.
  destruct (g_do_xtry_dispatched _ _ _ _ _ _ Htry Hk0) as [Hd [Hc [He Hkind]]].
  destruct Hkind as [[Hk _]|[[Hk _]|[_ [Hr [sh Hh]]]]]; try discriminate Hk.
  destruct (dispatchable_facts _ Hd) as [_ [Hst [Hdf [_ Hrun]]]].
  assert (Hchk : x_chk x = None) by (unfold is_checking in Hc; destruct (x_chk x); [discriminate|reflexivity]).
  destruct cancel.
  - pose proof (g_do_xtry_with_hash x t true sh Hd Hc He Hh) as Hspec. cbv zeta in Hspec.
    rewrite Hspec in Htry. clear Hspec. unfold new_run in Htry. inversion Htry; subst x' s. clear Htry.
    destruct (fail_new_run_spec (set_crow (xb x) SS_CHECKING false (c_dc (xb x))) t []) as [Hs [_ [Hr' _]]].
    cbn [xb set_xhash set_xb x_chk]. split; [reflexivity|]. split; [rewrite Hr'; exact Hrun|].
    split; [exact Hchk|]. split; [right; exact Hs|]. intros H; discriminate H.
  - assert (H3 : (3 : N) = 2 \/ (3 : N) = 3) by (right; reflexivity).
    destruct (g_checking_outcomes x t x' 3 s sh Htry H3 Hh) as [Hs [Hrun' [_ [Hch [Hre Hsame]]]]].
    split; [exact Hs|]. split; [exact Hrun'|].
    destruct (snap_changed (xb x) (snapshot (xb x))) eqn:Hsc.
    + destruct (Hch eq_refl) as [Hf [_ [Hnh Hk']]]. split; [exact Hk'|]. split; [right; exact Hf|].
      unfold has_hash. rewrite Hnh. discriminate.
    + destruct (inp_equal sh (x_envc x) (canon (snapshot (xb x)))) eqn:Hie.
      * destruct (Hsame eq_refl eq_refl) as [_ [_ Hx]]. destruct (Hx eq_refl) as [Hp [_ [Hk' Hxx]]].
        split; [rewrite Hk'; exact Hchk|]. split; [left; exact Hp|]. intros _ Hv. exact (Hxx Hv).
      * destruct (Hre eq_refl eq_refl) as [Hp [_ [_ [Hnh Hk']]]]. split; [exact Hk'|]. split; [left; exact Hp|].
        unfold has_hash. rewrite Hnh. discriminate.
Qed.

(* g_validate_unchanged_redispatches (a hazard of the code, see design.d/C03.md): the "digest
   unchanged" branch of validate_dynamic_job leaves the step PENDING, not deferred, with its hash,
   i.e. exactly as it was dispatched; unless another actor changes something, every further dispatch
   derives the same job again with the same result. *)
Theorem g_validate_unchanged_redispatches x t x' s :
  (forall u, d u = false) ->
  do_xtry_gen vg x t false = (x', XRTry 3 s) -> has_hash x' = true ->
  x' = x /\ forall t', do_xtry_gen vg x t' false = (x, XRTry 3 false).
Proof.
  intros Hv Htry Hh.
  destruct (g_validate_never_succeeds_never_runs x t false x' s Htry) as [Hs [_ [_ [_ Hx]]]].
  specialize (Hx Hh (Hv _)). subst x' s. split; [reflexivity|].
  assert (Hany : forall t', do_xtry_gen vg x t' false = (x, XRTry 3 false)).
  { intros t'.
    assert (Hk0 : (3 : N) <> 0) by discriminate.
    destruct (g_do_xtry_dispatched _ _ _ _ _ _ Htry Hk0) as [Hd [Hc [He Hkind]]].
    destruct Hkind as [[Hk _]|[[Hk _]|[_ [Hr [sh Hsh]]]]]; try discriminate Hk.
    pose proof (g_do_xtry_with_hash x t false sh Hd Hc He Hsh) as S1.
    pose proof (g_do_xtry_with_hash x t' false sh Hd Hc He Hsh) as S2. cbv zeta in S1, S2.
    rewrite S1 in Htry. rewrite S2. rewrite Hr in *. unfold new_run in *.
    destruct (snap_changed _ _).
    - exfalso. injection Htry as Hx. apply (f_equal x_hash) in Hx. cbn in Hx. congruence.
    - destruct (inp_equal sh (x_envc x) _).
      + exact Htry.
      + exfalso. injection Htry as Hx. rewrite apply_reset_spec in Hx.
        apply (f_equal x_hash) in Hx. cbn in Hx. congruence. }
  exact Hany.
Qed.

(* Events of other actors that do not touch the row of c (mark_step_pending is an ECRow event). *)
Definition not_crow (e : xev) : bool :=
  match e with XE (ECRow _ _ _) => false | XE _ | XEnvC _ | XHashDel => true | _ => false end.

Lemma not_crow_frame x e :
  not_crow e = true -> c_run (xb x) = None ->
  c_state (xb (fst (xstep x e))) = c_state (xb x) /\ c_deferred (xb (fst (xstep x e))) = c_deferred (xb x) /\
  c_run (xb (fst (xstep x e))) = None.
Proof.
  intros He Hrun. destruct e as [e|n| |t c|t c|t ok c]; try discriminate He; cbn [xstep].
  - destruct e as [f v|f row|st df dc|b|dr|t|ps|t ok]; try discriminate He; cbn [env_ev step fst];
      try (cbn; auto; fail).
    unfold do_amend. rewrite Hrun. cbn. auto.
  - cbn. auto.
  - cbn. auto.
Qed.

Lemma not_crow_run evs : forall x,
  forallb not_crow evs = true -> c_run (xb x) = None ->
  c_state (xb (xrun evs x)) = c_state (xb x) /\ c_deferred (xb (xrun evs x)) = c_deferred (xb x) /\
  c_run (xb (xrun evs x)) = None.
Proof.
  induction evs as [|e evs IH]; intros x H Hrun; [cbn; auto|].
  cbn [forallb] in H. apply andb_true_iff in H as [He H].
  destruct (not_crow_frame x e He Hrun) as [H1 [H2 H3]].
  destruct (IH (fst (xstep x e)) H H3) as [H4 [H5 H6]].
  unfold xrun in *. cbn [fold_left]. rewrite H4, H5, H1, H2. auto.
Qed.

(* validate_unchanged_waits: when the "digest unchanged" branch sets `deferred` (d = true, the code
   since fix d760e3e), the step is left PENDING and deferred with its hash, and it is NOT dispatched
   again, whatever other actors do, until a transaction changes the row of c itself (which is what
   Workflow.mark_step_pending does when an input of c changes: it clears `deferred`). *)
Theorem g_validate_unchanged_waits x t x' s :
  d true = true ->
  do_xtry_gen vg x t false = (x', XRTry 3 s) -> has_hash x' = true ->
  c_state (xb x') = SS_PENDING /\ c_deferred (xb x') = true /\ x_hash x' = x_hash x /\
  forall mid, forallb not_crow mid = true ->
    forall t' c, do_xtry_gen vg (xrun mid x') t' c = (xrun mid x', XRTry 0 false).
Proof.
  intros Hd Htry Hh.
  assert (Hk0 : (3 : N) <> 0) by discriminate.
  destruct (g_do_xtry_dispatched _ _ _ _ _ _ Htry Hk0) as [Hdisp [Hc [He Hkind]]].
  destruct Hkind as [[Hk _]|[[Hk _]|[_ [Hr [sh Hsh]]]]]; try discriminate Hk.
  assert (H3 : (3 : N) = 2 \/ (3 : N) = 3) by (right; reflexivity).
  destruct (g_checking_outcomes x t x' 3 s sh Htry H3 Hsh) as [_ [Hrun [_ [Hch [Hre Hsame]]]]].
  assert (Hbranch : snap_changed (xb x) (snapshot (xb x)) = false /\
                    inp_equal sh (x_envc x) (canon (snapshot (xb x))) = true).
  { destruct (snap_changed (xb x) (snapshot (xb x))) eqn:Hsc.
    - destruct (Hch eq_refl) as [_ [_ [Hn _]]]. unfold has_hash in Hh. rewrite Hn in Hh. discriminate Hh.
    - split; [reflexivity|]. destruct (inp_equal sh (x_envc x) (canon (snapshot (xb x)))) eqn:Hie; [reflexivity|].
      destruct (Hre eq_refl eq_refl) as [_ [_ [_ [Hn _]]]]. unfold has_hash in Hh. rewrite Hn in Hh. discriminate Hh. }
  destruct Hbranch as [Hsc Hie].
  destruct (Hsame Hsc Hie) as [Hhash [_ H3']]. destruct (H3' eq_refl) as [Hp [Hdf _]].
  rewrite (unusable_iff_not_ready _ He), Hr in Hdf. cbn [negb] in Hdf. rewrite Hd in Hdf.
  split; [exact Hp|]. split; [exact Hdf|]. split; [rewrite Hhash; symmetry; exact Hsh|].
  intros mid Hmid t' c.
  destruct (not_crow_run mid x' Hmid Hrun) as [_ [Hdf' _]].
  unfold do_xtry_gen, dispatchable. rewrite Hdf', Hdf. cbn [negb]. rewrite !andb_false_r. cbn [negb andb orb].
  reflexivity.
Qed.

End ValidateDecision.

(* ---- instances: the generated decision ---- *)

Lemma do_xtry_dispatched x t cancel x' k s :
  do_xtry x t cancel = (x', XRTry k s) -> k <> 0 ->
  dispatchable (xb x) = true /\ is_checking x = false /\ derive_error (xb x) = false /\
  ((k = 1 /\ x_hash x = None) \/
   (k = 2 /\ dyn_ready (xb x) = true /\ exists sh, x_hash x = Some sh) \/
   (k = 3 /\ dyn_ready (xb x) = false /\ exists sh, x_hash x = Some sh)).
Proof. exact (g_do_xtry_dispatched validate_gen _ validate_spec x t cancel x' k s). Qed.

Lemma do_xtry_with_hash x t cancel sh :
  dispatchable (xb x) = true -> is_checking x = false -> derive_error (xb x) = false ->
  x_hash x = Some sh ->
  let w := xb x in
  let w1 := set_crow w SS_CHECKING false (c_dc w) in
  let kn := if dyn_ready w then 2 else 3 in
  do_xtry x t cancel =
    match new_run w1 (snapshot w) cancel with
    | NR_cancelled => (set_xhash (set_xb x (fail_new_run w1 t [])) None, XRTry kn false)
    | NR_changed ch => (set_xhash (set_xb x (fail_new_run w1 t ch)) None, XRTry kn false)
    | NR_ok inp =>
        if inp_equal sh (x_envc x) inp then
          if dyn_ready w then (set_xchk (set_xb x w1) (Some (mkChk sh (x_envc x) inp (snapshot w))), XRTry 2 false)
          else (set_xb x (set_crow w1 SS_PENDING (validate_unchanged_deferred_gen (has_unusable_dyn w)) (c_dc w)), XRTry 3 false)
        else (apply_reset x w1, XRTry kn false)
    end.
Proof. exact (g_do_xtry_with_hash validate_gen _ validate_spec x t cancel sh). Qed.

Theorem skip_succeeded_describes_files x0 t x1 mid t' x3 :
  do_xtry x0 t false = (x1, XRTry 2 false) -> is_checking x1 = true ->
  forallb xenv_only mid = true ->
  let x2 := xrun mid x1 in
  do_xchk x2 t' false = (x3, XRChk true) ->
  exists sh,
    x_hash x0 = Some sh /\ sh_env sh = x_envc x0 /\
    (forall f, In f (all_inputs (xb x0)) ->
       f_detached (files (xb x0) f) = false /\
       (f_state (files (xb x0) f) = FS_BUILT \/ f_state (files (xb x0) f) = FS_CONFIRMED) /\
       disk (xb x0) f = f_hash (files (xb x0) f) /\
       In (f, disk (xb x0) f) (sh_inp sh)) /\
    (forall f h, In (f, h) (sh_inp sh) -> In f (all_inputs (xb x0)) /\ disk (xb x0) f = h) /\
    (forall o, In o (x_outs x0) -> In (o, disk (xb x2) o) (sh_out sh)) /\
    (forall o h, In (o, h) (sh_out sh) -> In o (x_outs x0) /\ disk (xb x2) o = h) /\
    c_state (xb x3) = SS_SUCCEEDED /\ c_run (xb x3) = None /\ bk (xb x3) = bk (xb x2) /\
    x_hash x3 = Some sh /\ x_chk x3 = None.
Proof. exact (g_skip_succeeded_describes_files validate_gen _ validate_spec x0 t x1 mid t' x3). Qed.

Theorem checking_outcomes x t x' k s sh :
  do_xtry x t false = (x', XRTry k s) -> (k = 2 \/ k = 3) -> x_hash x = Some sh ->
  s = false /\ c_run (xb x') = None /\ c_state (xb x') <> SS_SUCCEEDED /\
  (snap_changed (xb x) (snapshot (xb x)) = true ->
     c_state (xb x') = SS_FAILED /\ draining (xb x') = true /\ x_hash x' = None /\ x_chk x' = None) /\
  (snap_changed (xb x) (snapshot (xb x)) = false ->
   inp_equal sh (x_envc x) (canon (snapshot (xb x))) = false ->
     c_state (xb x') = SS_PENDING /\ c_deferred (xb x') = false /\ c_dyn (xb x') = [] /\
     x_hash x' = None /\ x_chk x' = None) /\
  (snap_changed (xb x) (snapshot (xb x)) = false ->
   inp_equal sh (x_envc x) (canon (snapshot (xb x))) = true ->
     x_hash x' = Some sh /\
     (k = 2 -> c_state (xb x') = SS_CHECKING /\
               x_chk x' = Some (mkChk sh (x_envc x) (canon (snapshot (xb x))) (snapshot (xb x)))) /\
     (k = 3 -> c_state (xb x') = SS_PENDING /\
               c_deferred (xb x') = validate_unchanged_deferred_gen (has_unusable_dyn (xb x)) /\
               x_chk x' = x_chk x /\
               (validate_unchanged_deferred_gen (has_unusable_dyn (xb x)) = false -> x' = x))).
Proof. exact (g_checking_outcomes validate_gen _ validate_spec x t x' k s sh). Qed.

Theorem validate_never_succeeds_never_runs x t cancel x' s :
  do_xtry x t cancel = (x', XRTry 3 s) ->
  s = false /\ c_run (xb x') = None /\ x_chk x' = None /\
  (c_state (xb x') = SS_PENDING \/ c_state (xb x') = SS_FAILED) /\
  (has_hash x' = true -> validate_unchanged_deferred_gen (has_unusable_dyn (xb x)) = false -> x' = x).
Proof. exact (g_validate_never_succeeds_never_runs validate_gen _ validate_spec x t cancel x' s). Qed.

(* The source sets `deferred` in the "digest unchanged" branch (fix d760e3e): this is the generated
   fact the positive theorem needs; it breaks (together with the regression replay of the oracle) if
   the flag disappears again. *)
Lemma validate_unchanged_is_deferred : validate_unchanged_deferred_gen true = true.
Proof. reflexivity. Qed.

(* The other half of the termination argument (D36) since 84081f2: the flag is decided in the
   transaction that records the outcome, in whatever world y that is.  If it comes out False, no
   dynamic input of c is unusable in y, and then -- for any row of c, at any clock reading, cancelled
   or not -- the next dispatch of c is NOT a validation job: it is a try_skip_job (a check) or none. *)
Theorem validate_outcome_redispatched_only_as_check y st df dc t c x' k s :
  validate_unchanged_deferred_gen (has_unusable_dyn (xb y)) = false ->
  do_xtry (set_xb y (set_crow (xb y) st df dc)) t c = (x', XRTry k s) ->
  has_unusable_dyn (xb y) = false /\ k <> 3.
Proof.
  intros Hflag Htry.
  assert (Hu : has_unusable_dyn (xb y) = false).
  { destruct (has_unusable_dyn (xb y)); [|reflexivity].
    rewrite validate_unchanged_is_deferred in Hflag. discriminate. }
  split; [exact Hu|]. intros ->.
  assert (Hk0 : (3 : N) <> 0) by discriminate.
  destruct (do_xtry_dispatched _ _ _ _ _ _ Htry Hk0) as [_ [_ [He Hkind]]].
  destruct Hkind as [[Hk _]|[[Hk _]|[_ [Hr _]]]]; try discriminate Hk.
  cbn [xb set_xb] in He, Hr.
  pose proof (unusable_iff_not_ready _ He) as E. rewrite has_unusable_dyn_crow, Hu, Hr in E. discriminate.
Qed.

Theorem validate_unchanged_waits x t x' s :
  do_xtry x t false = (x', XRTry 3 s) -> has_hash x' = true ->
  c_state (xb x') = SS_PENDING /\ c_deferred (xb x') = true /\ x_hash x' = x_hash x /\
  forall mid, forallb not_crow mid = true ->
    forall t' c, do_xtry (xrun mid x') t' c = (xrun mid x', XRTry 0 false).
Proof.
  exact (g_validate_unchanged_waits validate_gen _ validate_spec x t x' s validate_unchanged_is_deferred).
Qed.

(* ---- instance: the code before fix d760e3e (finding D36) ---- *)

Lemma validate_prefix_spec ie (u : bool) :
  validate_prefix true ie u = if ie then (false, true, SS_PENDING, false) else (true, false, 0, false).
Proof. destruct ie; reflexivity. Qed.

(* prefix_validate_unchanged_redispatches: with set_state(PENDING) (not deferred) in the "digest
   unchanged" branch, a VALIDATE_DYNAMIC dispatch that keeps the hash leaves the whole state exactly
   as it was, so every further dispatch derives the same job with the same result, for ever. *)
Theorem prefix_validate_unchanged_redispatches x t x' s :
  do_xtry_gen validate_prefix x t false = (x', XRTry 3 s) -> has_hash x' = true ->
  x' = x /\ forall t', do_xtry_gen validate_prefix x t' false = (x, XRTry 3 false).
Proof.
  intros Htry Hh.
  exact (g_validate_unchanged_redispatches validate_prefix (fun _ => false) validate_prefix_spec x t x' s
           (fun _ => eq_refl) Htry Hh).
Qed.

(* skip_outcomes: try_skip_job after the output hashing.  The step becomes SUCCEEDED iff the hash
   computation was not cancelled, the ingredient list of the stored output digest is the list of the
   outputs as they are on disk now, and (when the source re-reads the input records there:
   skip_rechecks_inputs) no input record was overtaken since the job was created; a cancelled
   computation gives FAILED, a different output digest gives PENDING without hash and without amended
   inputs, an overtaken input record gives PENDING with the hash kept (the step is checked again). *)
Theorem skip_outcomes x t cancel k :
  x_chk x = Some k ->
  let x' := fst (do_xchk x t cancel) in
  let rc := rechecked skip_rechecks_inputs x k in
  x_chk x' = None /\ c_run (xb x') = c_run (xb x) /\
  (cancel = true ->
     c_state (xb x') = SS_FAILED /\ x_hash x' = None /\ snd (do_xchk x t cancel) = XRChk false /\
     (keep_going (xb x) = false -> draining (xb x') = true)) /\
  (cancel = false -> pairs_eqb (sh_out (k_old k)) (out_ingredients x) = false ->
     c_state (xb x') = SS_PENDING /\ c_deferred (xb x') = false /\ c_dyn (xb x') = [] /\ x_hash x' = None /\
     snd (do_xchk x t cancel) = XRChk false) /\
  (cancel = false -> pairs_eqb (sh_out (k_old k)) (out_ingredients x) = true -> rc = true ->
     c_state (xb x') = SS_PENDING /\ c_deferred (xb x') = false /\ x_hash x' = x_hash x /\
     snd (do_xchk x t cancel) = XRChk false) /\
  (cancel = false -> pairs_eqb (sh_out (k_old k)) (out_ingredients x) = true -> rc = false ->
     c_state (xb x') = SS_SUCCEEDED /\ snd (do_xchk x t cancel) = XRChk true /\
     x_hash x' = Some (mkSH (k_env k) (k_inp k) (sh_out (k_old k))) /\ bk (xb x') = bk (xb x)) /\
  (c_state (xb x') = SS_SUCCEEDED -> cancel = false /\ sh_out (k_old k) = out_ingredients x /\ rc = false).
Proof.
  intros Hk. cbv zeta. rewrite (do_xchk_spec x t cancel k Hk).
  destruct cancel.
  - cbn [fst snd xb x_chk x_hash].
    destruct (finalize_failed_spec (xb x) t) as [Hs [_ [Hr [_ [_ [_ [_ Hdr]]]]]]].
    split; [reflexivity|]. split; [exact Hr|].
    split.
    { intros _. split; [exact Hs|]. split; [reflexivity|]. split; [reflexivity|].
      intros Hkg. rewrite Hdr, Hkg. apply orb_true_r. }
    split; [intros H; discriminate H|]. split; [intros H; discriminate H|]. split; [intros H; discriminate H|].
    intros H. rewrite Hs in H. discriminate H.
  - destruct (pairs_eqb (sh_out (k_old k)) (out_ingredients x)) eqn:Hoe.
    + destruct (rechecked skip_rechecks_inputs x k) eqn:Hrc.
      * cbn [fst snd xb x_chk x_hash]. split; [reflexivity|]. split; [reflexivity|].
        split; [intros H; discriminate H|]. split; [intros _ H; discriminate H|].
        split; [intros _ _ _; repeat split; reflexivity|]. split; [intros _ _ H; discriminate H|].
        cbn. intros H. discriminate H.
      * cbn [fst snd xb x_chk x_hash]. split; [reflexivity|]. split; [reflexivity|].
        split; [intros H; discriminate H|]. split; [intros _ H; discriminate H|].
        split; [intros _ _ H; discriminate H|].
        apply pairs_eqb_eq in Hoe.
        split; [intros _ _ _; rewrite Hoe; repeat split; reflexivity|]. intros _. repeat split; try reflexivity. exact Hoe.
    + rewrite apply_reset_spec. cbn [fst snd xb x_chk x_hash].
      split; [reflexivity|]. split; [reflexivity|].
      split; [intros H; discriminate H|]. split; [intros _ _; repeat split; reflexivity|].
      split; [intros _ H; discriminate H|]. split; [intros _ H; discriminate H|]. cbn. intros H. discriminate H.
Qed.

(* ---- hash cancellation ---- *)

(* A cancelled hash computation in _new_run (any kind of job): the command does not start, the step
   is FAILED, its hash is deleted, the scheduler drains unless keep_going. *)
Theorem cancelled_dispatch_fails x t x' k s :
  do_xtry x t true = (x', XRTry k s) -> k <> 0 ->
  s = false /\ c_state (xb x') = SS_FAILED /\ x_hash x' = None /\ x_chk x' = None /\
  c_run (xb x') = None /\ (keep_going (xb x) = false -> draining (xb x') = true).
Proof.
  intros Htry Hk0.
  destruct (do_xtry_dispatched _ _ _ _ _ _ Htry Hk0) as [Hd [Hc [He Hkind]]].
  destruct (dispatchable_facts _ Hd) as [_ [_ [_ [_ Hrun]]]].
  assert (Hchk : x_chk x = None) by (unfold is_checking in Hc; destruct (x_chk x); [discriminate|reflexivity]).
  assert (Hfin : forall w, c_run w = None -> keep_going w = keep_going (xb x) ->
            c_state (fail_new_run w t []) = SS_FAILED /\ c_run (fail_new_run w t []) = None /\
            (keep_going (xb x) = false -> draining (fail_new_run w t []) = true)).
  { intros w Hr Hkg. unfold fail_new_run. cbn [nonempty].
    destruct (finalize_failed_spec (rehash_failed w []) t) as [Hs [_ [Hr' [_ [_ [_ [_ Hdr]]]]]]].
    split; [exact Hs|]. split; [rewrite Hr'; exact Hr|]. intros Hf. rewrite Hdr.
    unfold rehash_failed. cbn [keep_going set_files]. rewrite Hkg, Hf. apply orb_true_r. }
  destruct Hkind as [[Hk Hh]|[[Hk [Hr [sh Hh]]]|[Hk [Hr [sh Hh]]]]].
  - revert Htry. unfold do_xtry, do_xtry_gen. rewrite Hd, Hc, He. cbn [negb orb].
    rewrite derive_job_kind_spec. unfold has_hash. rewrite Hh. intros Htry. inversion Htry; subst x' s. clear Htry.
    cbn [xb set_xhash set_xb x_hash x_chk].
    destruct (Hfin (set_book (set_crow (xb x) (get_next_step_state_gen false) false (c_dc (xb x)))
                             (BStart (c_id (set_crow (xb x) (get_next_step_state_gen false) false (c_dc (xb x)))) t))
                   Hrun eq_refl) as [Hs [Hr Hdr]].
    repeat split; try assumption; reflexivity.
  - pose proof (do_xtry_with_hash x t true sh Hd Hc He Hh) as Hspec. cbv zeta in Hspec.
    rewrite Hspec in Htry. clear Hspec. unfold new_run in Htry. inversion Htry; subst x' s. clear Htry.
    cbn [xb set_xhash set_xb x_hash x_chk].
    destruct (Hfin (set_crow (xb x) SS_CHECKING false (c_dc (xb x))) Hrun eq_refl) as [Hs [Hr' Hdr]].
    repeat split; try assumption; reflexivity.
  - pose proof (do_xtry_with_hash x t true sh Hd Hc He Hh) as Hspec. cbv zeta in Hspec.
    rewrite Hspec in Htry. clear Hspec. unfold new_run in Htry. inversion Htry; subst x' s. clear Htry.
    cbn [xb set_xhash set_xb x_hash x_chk].
    destruct (Hfin (set_crow (xb x) SS_CHECKING false (c_dc (xb x))) Hrun eq_refl) as [Hs [Hr' Hdr]].
    repeat split; try assumption; reflexivity.
Qed.

Lemma classify_failed ru rf h : classify_gen ru rf false h false = (false, ru || rf, false, ru, rf, false).
Proof. destruct ru, rf, h; reflexivity. Qed.

(* The completion step with run.success = False and no input seen as changed never records a
   success (used for a cancelled post-run hash computation). *)
Lemma do_end_core_failed flagging w t r :
  c_run w = Some r ->
  c_state (fst (do_end_core flagging w t false [])) <> SS_SUCCEEDED /\
  c_run (fst (do_end_core flagging w t false [])) = None.
Proof.
  intros Hrun. unfold do_end_core. rewrite Hrun. cbv zeta. cbn [nonempty negb].
  rewrite !andb_false_r. cbn [andb]. rewrite classify_failed. cbv iota beta.
  destruct (r_unavail r || (r_unfresh r || flagging && flagged w r)).
  - rewrite mark_completed_defer. destruct (c_dc w + 1 <=? cap w); cbn; split; try discriminate; reflexivity.
  - rewrite mark_completed_fail. cbn. split; [discriminate|reflexivity].
Qed.

(* A cancelled post-run hash computation (_compute_full_step_hash returning None): the step does
   not become SUCCEEDED and keeps no hash. *)
Theorem cancelled_post_run_hash_not_succeeded x t ok r :
  c_run (xb x) = Some r ->
  let x' := fst (do_xend x t ok true) in
  c_state (xb x') <> SS_SUCCEEDED /\ x_hash x' = None /\ c_run (xb x') = None.
Proof.
  intros Hrun. cbv zeta. unfold do_xend. rewrite Hrun. cbn [fst xb set_xhash set_xb x_hash].
  destruct (do_end_core_failed exec_flags_inputs_not_final (xb x) t r Hrun) as [Hns Hr].
  split; [exact Hns|]. split; [|exact Hr].
  destruct (N.eqb_spec (c_state (fst (do_end_core exec_flags_inputs_not_final (xb x) t false []))) SS_SUCCEEDED) as [E|E];
    [contradiction|reflexivity].
Qed.

(* ---- the stored hash after a command ---- *)

Lemma outs_present_all x : outs_present x = true -> forall o, In o (x_outs x) -> disk (xb x) o <> 0.
Proof.
  unfold outs_present. intros H o Hin. rewrite forallb_forall in H. specialize (H o Hin).
  apply negb_true_iff in H. apply N.eqb_neq in H. exact H.
Qed.

(* run_succeeded_hash_describes_files.  A command that ends SUCCEEDED stores a hash whose input
   ingredients are exactly the inputs that count at the end (attached, BUILT or CONFIRMED, declared or
   amended) with the hash they have on disk and in the database, and whose output ingredients are the
   outputs with the hash they have on disk, all present; otherwise no hash is kept. *)
Theorem run_succeeded_hash_describes_files x t ok r :
  c_run (xb x) = Some r ->
  let x' := fst (do_xend x t ok false) in
  (c_state (xb x') <> SS_SUCCEEDED -> x_hash x' = None) /\
  (c_state (xb x') = SS_SUCCEEDED ->
     exists sh, x_hash x' = Some sh /\ sh_env sh = x_envc x /\ ok = true /\
       (forall f, In f (considered (xb x)) -> In (f, disk (xb x) f) (sh_inp sh)) /\
       (forall f h, In (f, h) (sh_inp sh) ->
          In f (considered (xb x)) /\ disk (xb x) f = h /\ f_hash (files (xb x) f) = h) /\
       (forall o, In o (x_outs x) -> In (o, disk (xb x) o) (sh_out sh)) /\
       (forall o h, In (o, h) (sh_out sh) -> In o (x_outs x) /\ disk (xb x) o = h /\ h <> 0)).
Proof.
  intros Hrun. cbv zeta. unfold do_xend. rewrite Hrun. cbn [fst xb set_xhash set_xb x_hash].
  set (w' := fst (do_end (xb x) t (ok && outs_present x))).
  destruct (N.eqb_spec (c_state w') SS_SUCCEEDED) as [E|E].
  - split; [intros H; contradiction|]. intros _.
    destruct (do_end_succeeded (xb x) r t _ Hrun E) as [Hch [_ [_ [_ [Hok _]]]]].
    apply andb_true_iff in Hok as [Hok Hpres].
    eexists. split; [reflexivity|]. cbn [sh_env sh_inp sh_out]. split; [reflexivity|]. split; [exact Hok|].
    split.
    { intros f Hin. unfold inp_ingredients. apply In_canon. apply in_map_iff. exists f. split; [reflexivity|exact Hin]. }
    split.
    { intros f h Hin. unfold inp_ingredients in Hin. apply (proj1 (In_canon _ _)) in Hin.
      apply in_map_iff in Hin as [f' [Heq Hin]]. inversion Heq; subst f' h.
      split; [exact Hin|]. split; [reflexivity|].
      pose proof (filter_nil_forall _ _ Hch f Hin) as Hx. cbn in Hx.
      apply negb_false_iff in Hx. apply N.eqb_eq in Hx. symmetry. exact Hx. }
    split.
    { intros o Hin. unfold out_ingredients. apply In_canon. apply in_map_iff. exists o. split; [reflexivity|exact Hin]. }
    intros o h Hin. unfold out_ingredients in Hin. apply (proj1 (In_canon _ _)) in Hin.
    apply in_map_iff in Hin as [o' [Heq Hin]]. inversion Heq; subst o' h.
    split; [exact Hin|]. split; [reflexivity|]. exact (outs_present_all x Hpres o Hin).
  - split; [intros _; reflexivity|]. intros H. contradiction.
Qed.

(* ---- the command is started by execute_job only, i.e. only for a step without stored hash ---- *)

Theorem xtry_execute_is_do_try x t x' s :
  do_xtry x t false = (x', XRTry 1 s) ->
  x_hash x = None /\ xb x' = fst (do_try (xb x) t) /\
  (s = true <-> snd (do_try (xb x) t) = RTry true) /\ (s = true <-> c_run (xb x') <> None).
Proof.
  intros Htry. assert (Hk0 : (1 : N) <> 0) by discriminate.
  destruct (do_xtry_dispatched _ _ _ _ _ _ Htry Hk0) as [Hd [Hc [He Hkind]]].
  destruct Hkind as [[_ Hh]|[[Hk _]|[Hk _]]]; try discriminate Hk.
  split; [exact Hh|]. revert Htry. unfold do_xtry, do_xtry_gen. rewrite Hd, Hc, He. cbn [negb orb].
  rewrite derive_job_kind_spec. unfold has_hash. rewrite Hh.
  destruct (do_try (xb x) t) as [w' r] eqn:Hdt. intros H. inversion H; subst x' s. clear H.
  cbn [xb set_xhash set_xb fst snd]. split; [reflexivity|].
  revert Hdt. unfold do_try. rewrite Hd, He. cbn [negb]. cbv zeta.
  match goal with |- context [snap_changed ?y (snapshot (xb x))] =>
    rewrite (snap_changed_disk y (xb x) (snapshot (xb x)) eq_refl) end.
  destruct (dispatchable_facts _ Hd) as [_ [_ [_ [_ Hrun]]]].
  destruct (snap_changed (xb x) (snapshot (xb x))).
  - rewrite mark_completed_fail. intros H. inversion H; subst w' r. unfold is_running. cbn. rewrite Hrun.
    split; split; intros H'; try discriminate H'. contradiction.
  - intros H. inversion H; subst w' r. unfold is_running. cbn.
    split; split; intros _; try reflexivity. discriminate.
Qed.

(* command_starts_only_without_hash: the only event after which a command of c runs while none ran
   before is a dispatch (not cancelled) of a step WITHOUT stored hash whose pre-run check passed;
   no CHECKING job (try_skip_job, validate_dynamic_job) and no event of another actor starts it. *)
Theorem command_starts_only_without_hash x e :
  c_run (xb x) = None -> c_run (xb (fst (xstep x e))) <> None ->
  exists t, e = XTry t false /\ x_hash x = None /\ snd (do_try (xb x) t) = RTry true.
Proof.
  intros Hrun Hstart. destruct e as [e|n| |t c|t c|t ok c]; cbn [xstep] in Hstart.
  - exfalso. destruct (env_ev e) eqn:Hev; [|cbn in Hstart; contradiction].
    pose proof (step_env_run_none (xb x) e Hev Hrun) as H. destruct (step (xb x) e) as [w r]. cbn in *. contradiction.
  - exfalso. cbn in Hstart. contradiction.
  - exfalso. cbn in Hstart. contradiction.
  - destruct (do_xtry x t c) as [x' res] eqn:Htry. cbn [fst] in Hstart.
    assert (Hres : exists k s, res = XRTry k s).
    { revert Htry. unfold do_xtry, do_xtry_gen.
      destruct (negb (dispatchable (xb x)) || is_checking x); [intros H; inversion H; eauto|].
      destruct (derive_error (xb x)); [intros H; inversion H; eauto|].
      destruct (derive_job_kind_gen _ _); destruct (x_hash x); destruct c; cbn [negb];
        try (destruct (do_try (xb x) t)); try (destruct (new_run _ _ _));
        try (destruct (validate_gen _ _ _) as [[[a1 a2] a3] a4]; destruct a1; [|destruct a2]);
        try (destruct (try_skip_phase1_gen _ _) as [b1 b2]; destruct b2; [|destruct b1]);
        intros H; inversion H; eauto. }
    destruct Hres as [k [s ->]].
    destruct (N.eqb_spec k 0) as [->|Hk0].
    { exfalso. revert Htry. unfold do_xtry, do_xtry_gen.
      destruct (negb (dispatchable (xb x)) || is_checking x); [intros H; inversion H; subst; contradiction|].
      destruct (derive_error (xb x)); [intros H; inversion H; subst; cbn in Hstart; contradiction|].
      destruct (derive_job_kind_gen _ _); destruct (x_hash x); destruct c; cbn [negb];
        try (destruct (do_try (xb x) t)); try (destruct (new_run _ _ _));
        try (destruct (validate_gen _ _ _) as [[[a1 a2] a3] a4]; destruct a1; [|destruct a2]);
        try (destruct (try_skip_phase1_gen _ _) as [b1 b2]; destruct b2; [|destruct b1]);
        intros H; inversion H; subst; contradiction. }
    destruct c.
    { exfalso. destruct (cancelled_dispatch_fails x t x' k s Htry Hk0) as [_ [_ [_ [_ [Hr _]]]]]. contradiction. }
    destruct (do_xtry_dispatched _ _ _ _ _ _ Htry Hk0) as [_ [_ [_ Hkind]]].
    destruct Hkind as [[-> Hh]|[[-> [_ [sh Hh]]]|[-> [_ [sh Hh]]]]].
    + destruct (xtry_execute_is_do_try x t x' s Htry) as [_ [_ [Hs1 Hs2]]].
      exists t. split; [reflexivity|]. split; [exact Hh|]. apply Hs1. apply Hs2. exact Hstart.
    + exfalso. assert (H2 : (2 : N) = 2 \/ (2 : N) = 3) by (left; reflexivity).
      destruct (checking_outcomes x t x' 2 s sh Htry H2 Hh) as [_ [Hr _]]. contradiction.
    + exfalso. assert (H3 : (3 : N) = 2 \/ (3 : N) = 3) by (right; reflexivity).
      destruct (checking_outcomes x t x' 3 s sh Htry H3 Hh) as [_ [Hr _]]. contradiction.
  - exfalso. destruct (x_chk x) as [k|] eqn:Hk.
    + destruct (skip_outcomes x t c k Hk) as [_ [Hr _]]. cbv zeta in Hr. rewrite Hr in Hstart. contradiction.
    + unfold do_xchk, do_xchk_gen in Hstart. rewrite Hk in Hstart. cbn in Hstart. contradiction.
  - exfalso. unfold do_xend in Hstart. rewrite Hrun in Hstart. cbn in Hstart. contradiction.
Qed.

(* ---- invariant: a stored hash never lists a missing output ---- *)

Definition outs_nonzero (l : list (N * N)) : Prop := forall o h, In (o, h) l -> h <> 0.

Definition hash_ok (x : xworld) : Prop :=
  (forall sh, x_hash x = Some sh -> outs_nonzero (sh_out sh)) /\
  (forall k, x_chk x = Some k -> outs_nonzero (sh_out (k_old k))).

Lemma hash_ok_none x' : x_hash x' = None -> x_chk x' = None -> hash_ok x'.
Proof. intros H1 H2. split; intros ? H; congruence. Qed.

Lemma hash_ok_same x x' : hash_ok x -> x_hash x' = x_hash x -> x_chk x' = x_chk x -> hash_ok x'.
Proof. intros [Ha Hb] H1 H2. split; intros ? H; [apply Ha|apply Hb]; congruence. Qed.

Lemma hash_ok_xtry x t c : hash_ok x -> hash_ok (fst (do_xtry x t c)).
Proof.
  intros Hok.
  destruct (dispatchable (xb x)) eqn:Hd.
  2:{ unfold do_xtry, do_xtry_gen. rewrite Hd. exact Hok. }
  destruct (is_checking x) eqn:Hc.
  { unfold do_xtry, do_xtry_gen. rewrite Hd, Hc. exact Hok. }
  destruct (derive_error (xb x)) eqn:He.
  { unfold do_xtry, do_xtry_gen. rewrite Hd, Hc, He. cbn [negb orb fst]. apply (hash_ok_same x); [exact Hok|reflexivity|reflexivity]. }
  assert (Hchk : x_chk x = None) by (unfold is_checking in Hc; destruct (x_chk x); [discriminate|reflexivity]).
  destruct (x_hash x) as [sh|] eqn:Hh.
  - pose proof (do_xtry_with_hash x t c sh Hd Hc He Hh) as Hspec. cbv zeta in Hspec. rewrite Hspec. clear Hspec.
    destruct (new_run _ _ c) as [inp| |ch].
    + destruct (inp_equal sh (x_envc x) inp).
      * destruct (dyn_ready (xb x)); cbn [fst].
        -- destruct Hok as [Ha Hb]. split; cbn; intros ? H.
           ++ apply Ha. congruence.
           ++ inversion H; subst. cbn. apply Ha. exact Hh.
        -- apply (hash_ok_same x); [exact Hok|reflexivity|reflexivity].
      * cbn [fst]. rewrite apply_reset_spec. apply hash_ok_none; reflexivity.
    + cbn [fst]. apply hash_ok_none; [reflexivity|exact Hchk].
    + cbn [fst]. apply hash_ok_none; [reflexivity|exact Hchk].
  - unfold do_xtry, do_xtry_gen. rewrite Hd, Hc, He. cbn [negb orb]. rewrite derive_job_kind_spec. unfold has_hash. rewrite Hh.
    destruct c; cbn [fst].
    + apply hash_ok_none; [reflexivity|exact Hchk].
    + destruct (do_try (xb x) t) as [w' r]. cbn [fst]. destruct (is_running w'); apply hash_ok_none; try reflexivity; exact Hchk.
Qed.

Lemma hash_ok_step x e : hash_ok x -> hash_ok (fst (xstep x e)).
Proof.
  intros Hok. destruct e as [e|n| |t c|t c|t ok c]; cbn [xstep].
  - destruct (env_ev e); [|exact Hok]. destruct (step (xb x) e) as [w r]. cbn [fst].
    apply (hash_ok_same x); [exact Hok|reflexivity|reflexivity].
  - apply (hash_ok_same x); [exact Hok|reflexivity|reflexivity].
  - destruct Hok as [Ha Hb]. split; cbn; intros ? H; [discriminate H|apply Hb; exact H].
  - apply hash_ok_xtry. exact Hok.
  - destruct (x_chk x) as [k|] eqn:Hk.
    + rewrite (do_xchk_spec x t c k Hk). destruct c; cbn [fst]; [apply hash_ok_none; reflexivity|].
      destruct (pairs_eqb (sh_out (k_old k)) (out_ingredients x)) eqn:Hoe; cbn [fst].
      * destruct (rechecked skip_rechecks_inputs x k); cbn [fst].
        -- destruct Hok as [Ha _]. split; cbn; intros ? H; [apply Ha; exact H|discriminate H].
        -- apply pairs_eqb_eq in Hoe. destruct Hok as [_ Hb]. split; cbn; intros ? H; [|discriminate H].
           inversion H; subst. cbn. rewrite <- Hoe. apply Hb. exact Hk.
      * rewrite apply_reset_spec. apply hash_ok_none; reflexivity.
    + unfold do_xchk, do_xchk_gen. rewrite Hk. exact Hok.
  - destruct (c_run (xb x)) as [r|] eqn:Hrun.
    + destruct c.
      * destruct (cancelled_post_run_hash_not_succeeded x t ok r Hrun) as [_ [Hn _]]. cbv zeta in Hn.
        destruct Hok as [_ Hb]. split; intros ? H; [congruence|].
        apply Hb. revert H. unfold do_xend. rewrite Hrun. cbn. intros H; exact H.
      * pose proof (run_succeeded_hash_describes_files x t ok r Hrun) as Hrs. cbv zeta in Hrs.
        destruct Hrs as [Hn Hs]. destruct Hok as [_ Hb]. split.
        -- intros sh H.
           destruct (N.eq_dec (c_state (xb (fst (do_xend x t ok false)))) SS_SUCCEEDED) as [E|E].
           ++ destruct (Hs E) as [sh' [Hsh' [_ [_ [_ [_ [_ Ho]]]]]]]. rewrite Hsh' in H. inversion H; subst sh'.
              intros o h Hin. exact (proj2 (proj2 (Ho o h Hin))).
           ++ rewrite (Hn E) in H. discriminate H.
        -- intros k H. apply Hb. revert H. unfold do_xend. rewrite Hrun. cbn. intros H; exact H.
    + unfold do_xend. rewrite Hrun. exact Hok.
Qed.

Theorem hash_ok_reachable evs : forall x, hash_ok x -> hash_ok (xrun evs x).
Proof.
  induction evs as [|e evs IH]; intros x H; [exact H|]. unfold xrun. cbn [fold_left].
  apply IH. apply hash_ok_step. exact H.
Qed.

Lemma hash_ok_xworld0 cid init outs capv kg envc : hash_ok (xworld0 cid init outs capv kg envc).
Proof. apply hash_ok_none; reflexivity. Qed.

(* Hence a skip finds every output on disk. *)
Corollary skip_outputs_present x0 t x1 mid t' x3 :
  hash_ok x0 ->
  do_xtry x0 t false = (x1, XRTry 2 false) -> is_checking x1 = true ->
  forallb xenv_only mid = true ->
  do_xchk (xrun mid x1) t' false = (x3, XRChk true) ->
  forall o, In o (x_outs x0) -> disk (xb (xrun mid x1)) o <> 0.
Proof.
  intros Hok Htry Hchk Hmid Hend o Hin.
  destruct (skip_succeeded_describes_files x0 t x1 mid t' x3 Htry Hchk Hmid Hend)
    as [sh [Hh [_ [_ [_ [Ho _]]]]]].
  destruct Hok as [Ha _]. exact (Ha sh Hh o _ (Ho o Hin)).
Qed.

(* ====================================================================================== *)
(* E. The record of an input replaced while the step is being checked (finding D37)         *)
(* ====================================================================================== *)

(* The statement one would like for the moment the skip is RECORDED (not only for the moments the
   files were hashed): the hash kept for c still describes the recorded hash of every input.  Stated
   for the code WITHOUT the re-check of the input records (do_xchk_gen false; this is do_xchk as long
   as the source has no such re-check: skip_rechecks_inputs = false). *)
Definition skip_record_full : Prop :=
  forall x0 t x1 mid t' x3,
    do_xtry x0 t false = (x1, XRTry 2 false) -> is_checking x1 = true ->
    forallb xenv_only mid = true -> do_xchk_gen false (xrun mid x1) t' false = (x3, XRChk true) ->
    forall sh f h, x_hash x3 = Some sh -> In (f, h) (sh_inp sh) -> f_hash (files (xb x3) f) = h.

(* Witness (the skip-path analogue of finding D19): consumer 5 holds the hash ([(1,4)], [(9,7)]);
   its input 1 is BUILT by step 8.  While try_skip_job hashes the outputs, step 8 is executed again
   (Workflow.mark_step_pending ignores the CHECKING consumer), rewrites the file (4 -> 7) and
   completes; try_skip_job never looks at the input records again and records the skip. *)
Definition skipwin_x0 : xworld :=
  let w := wit_world FS_BUILT 4 (Some 8) in
  mkX (set_disk w (upd (disk w) 9 7)) (Some (mkSH 1 [(1, 4)] [(9, 7)])) [9] 1 None.
Definition skipwin_mid : list xev := map XE rerun_mid.

Lemma skip_record_refuted_by_producer_rerun :
  let x1 := fst (do_xtry skipwin_x0 1 false) in
  let x2 := xrun skipwin_mid x1 in
  let x3 := fst (do_xchk_gen false x2 4 false) in
  do_xtry skipwin_x0 1 false = (x1, XRTry 2 false) /\ is_checking x1 = true /\
  forallb xenv_only skipwin_mid = true /\
  snd (do_xchk_gen false x2 4 false) = XRChk true /\
  c_state (xb x3) = SS_SUCCEEDED /\ x_hash x3 = Some (mkSH 1 [(1, 4)] [(9, 7)]) /\
  f_hash (files (xb x3) 1) = 7 /\ disk (xb x3) 1 = 7 /\ f_state (files (xb x3) 1) = FS_BUILT /\
  (* with the re-check the same history is NOT recorded as a skip when the source performs it *)
  (skip_rechecks_inputs = true ->
     snd (do_xchk_gen true x2 4 false) = XRChk false /\
     c_state (xb (fst (do_xchk_gen true x2 4 false))) = SS_PENDING).
Proof.
  cbv zeta. split.
  { rewrite (surjective_pairing (do_xtry skipwin_x0 1 false)) at 1. f_equal; try (vm_compute; reflexivity). }
  split; [vm_compute; reflexivity|]. split; [vm_compute; reflexivity|]. split; [vm_compute; reflexivity|].
  split; [vm_compute; reflexivity|]. split; [vm_compute; reflexivity|]. split; [vm_compute; reflexivity|].
  split; [vm_compute; reflexivity|]. split; [vm_compute; reflexivity|].
  unfold skip_rechecks_inputs. intros H. vm_compute in H. vm_compute. split; first [reflexivity|discriminate H].
Qed.

Theorem skip_record_full_refuted : ~ skip_record_full.
Proof.
  intros H. destruct skip_record_refuted_by_producer_rerun as [H1 [H2 [H3 [H4 [_ [H6 [H7 _]]]]]]].
  cbv zeta in *.
  assert (Hend : do_xchk_gen false (xrun skipwin_mid (fst (do_xtry skipwin_x0 1 false))) 4 false =
                 (fst (do_xchk_gen false (xrun skipwin_mid (fst (do_xtry skipwin_x0 1 false))) 4 false), XRChk true)).
  { rewrite (surjective_pairing (do_xchk_gen false _ 4 false)) at 1. rewrite H4. reflexivity. }
  pose proof (H _ _ _ _ _ _ H1 H2 H3 Hend _ 1 4 H6 (or_introl eq_refl)) as Hr.
  rewrite H7 in Hr. discriminate Hr.
Qed.

(* What the re-check gives once the source performs it (skip_rechecks_inputs = true and the
   generated per-record test has the reviewed meaning): a recorded skip implies that, in the
   transaction that records it, c has exactly as many input records as the job was created with,
   every one of them is BUILT or CONFIRMED and carries the hash it had when the job was created. *)
Lemma skip_recorded_not_overtaken x t k x3 :
  x_chk x = Some k -> skip_rechecks_inputs = true ->
  do_xchk x t false = (x3, XRChk true) -> overtaken (xb x) k = false.
Proof.
  intros Hk Hr Hend. rewrite (do_xchk_spec x t false k Hk) in Hend.
  destruct (pairs_eqb _ _); [|rewrite apply_reset_spec in Hend; inversion Hend].
  unfold rechecked in Hend. rewrite Hr in Hend. cbn [andb] in Hend.
  destruct (overtaken (xb x) k); [inversion Hend|reflexivity].
Qed.

Lemma not_overtaken_records w k :
  (forall st same, overtaken_record_gen st same = negb (posthash_considers_gen st) || negb same) ->
  overtaken w k = false ->
  length (attached_inputs w) = length (k_snap k) /\
  forall f, In f (attached_inputs w) ->
    posthash_considers_gen (f_state (files w f)) = true /\ sm_get f (k_snap k) = Some (f_hash (files w f)).
Proof.
  intros Hspec Hov. unfold overtaken in Hov. apply orb_false_iff in Hov as [Hlen Hall].
  apply negb_false_iff in Hlen. apply N.eqb_eq in Hlen. apply Nnat.Nat2N.inj in Hlen.
  split; [exact Hlen|]. intros f Hin.
  pose proof (existsb_false_forall _ _ Hall f Hin) as Hf. cbn in Hf. rewrite Hspec in Hf.
  apply orb_false_iff in Hf as [H1 H2]. apply negb_false_iff in H1. apply negb_false_iff in H2.
  split; [exact H1|]. destruct (sm_get f (k_snap k)) as [h|]; [|discriminate H2].
  apply N.eqb_eq in H2. rewrite H2. reflexivity.
Qed.
