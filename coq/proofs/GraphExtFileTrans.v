(* C09: transitions_documented, file rows, for the alphabet op_x of model/GraphExt.v. *)
From Coq Require Import List NArith Bool Lia Relations.
From SV Require Import lib.Bytes lib.Closure model.Graph model.GraphDump model.GraphInv model.GraphTree model.GraphTreeInv
  model.GraphCheck model.GraphExt
  proofs.GraphBase proofs.GraphNodes proofs.GraphInvP proofs.GraphPrims proofs.GraphFrames proofs.GraphCreate
  proofs.GraphOps proofs.GraphLife proofs.GraphSucc proofs.GraphTrans proofs.GraphTreeSim proofs.GraphNodeFrame
  proofs.GraphProofs proofs.GraphTreeT1 proofs.GraphTreeOps
  proofs.GraphStepTrans proofs.GraphFileTrans proofs.GraphExtP proofs.GraphExtFull proofs.GraphExtRevert.
Import ListNotations.
Open Scope N_scope.

Definition fstates8 : list fstate :=
  [FUndeclared; FUnconfirmed; FMissing; FConfirmed; FPlanned; FBuilt; FOutdated; FVolatile].
Lemma fstates8_complete f : In f fstates8.
Proof. destruct f; cbn; tauto. Qed.

(* finalize.revert_optional_steps: a regular output of a reverted step goes back to PLANNED *)
Definition revert_trans_b (old new : fstate) : bool :=
  fstate_eqb old new ||
  (match old with FBuilt | FOutdated => true | _ => false end && fstate_eqb new FPlanned).
(* Workflow.initialize_boot: a declaring part, the CONFIRMED hash result, a declaring part *)
Definition boot_trans_b (old new : fstate) : bool :=
  existsb (fun m1 => existsb (fun m2 => decl_trans_b old m1 && file_trans_b m1 m2 && decl_trans_b m2 new)
                             fstates8) fstates8.

(* the documented moves of an existing file row under an operation of op_x *)
Definition file_move_x_b (o : op_x) (old new : fstate) : bool :=
  match o with
  | OpC (OpT o) => file_move_b o old new
  | OpRevertOptional _ => revert_trans_b old new
  | OpInitBoot _ => boot_trans_b old new
  | OpFrame => fstate_eqb old new
  | _ => file_trans_b old new
  end.

Lemma undefer_fold_files ls : forall a, files (fold_left (fun a l => upd_step l undefer_row a) ls a) = files a.
Proof. induction ls as [|l ls IH]; intros a; cbn [fold_left]; [reflexivity|]. rewrite IH. reflexivity. Qed.
Lemma undefer_post_files s s' : files (undefer_post s s') = files s'.
Proof. apply undefer_fold_files. Qed.
Lemma undefer_post_find_file l s s' : find_file l (undefer_post s s') = find_file l s'.
Proof. unfold find_file. rewrite undefer_post_files. reflexivity. Qed.

Lemma fold_mark_FT ls s : wpg false (foldM (fun s l => mark_step_pending l s) ls s) (FT s).
Proof. apply foldM_FT. intros s0 l. apply mark_step_pending_FT. Qed.
Lemma check_consistency_FT s : wpg false (check_consistency s) (FT s).
Proof. unfold check_consistency. destruct (negb _); [exact I|]. apply fold_mark_FT. Qed.
Lemma invalidate_steps_FT ls s : wpg false (invalidate_steps ls s) (FT s).
Proof.
  unfold invalidate_steps. apply foldM_FT. intros s0 l. unfold invalidate_step.
  eapply wpg_weaken; [apply mark_step_pending_FT|]. intros s1 H. eapply FT_trans; [apply FT_files; reflexivity | exact H].
Qed.
Lemma skip_overtaken_FT l s : wpg false (skip_overtaken l s) (FT s).
Proof. unfold skip_overtaken. apply wpg_of_ok. intros s' H. apply FT_files. eapply set_sstate_files; exact H. Qed.
Lemma reset_interrupted_raw_FT s : wpg false (reset_interrupted_raw s) (FT s).
Proof.
  unfold reset_interrupted_raw. apply wpg_bind. eapply wpg_weaken.
  { apply foldM_FT. intros s0 r. destruct (sst r); try (cbn; apply FT_refl).
    apply wpg_of_ok. intros s1 H. apply FT_files. eapply set_sstate_raw_files; exact H. }
  intros s1 F1. eapply wpg_weaken.
  { apply foldM_FT. intros s0 r. destruct (sst r); try (cbn; apply FT_refl).
    apply wpg_of_ok. intros s2 H. apply FT_files. eapply set_sstate_raw_files; exact H. }
  intros s2 F2. eapply FT_trans; eassumption.
Qed.

(* revert_optional: row by row *)
Definition RV (s s' : st) : Prop :=
  forall l, fstate_of l s' = fstate_of l s \/
            ((fstate_of l s = Some FBuilt \/ fstate_of l s = Some FOutdated) /\ fstate_of l s' = Some FPlanned).

Lemma revert_optional_RV hh ls s : Inv hh s -> wpg false (revert_optional ls s) (RV s).
Proof.
  intros HI. unfold revert_optional.
  set (sel := filter (fun l => is_some (find_step l s) && negb (is_detached (KStep, l) s)) ls).
  set (outs := flat_map (fun l => filter (revertible_output s) (file_sinks_of_step l s)) sel).
  change (fun s0 l => match sstate_of l s0 with Some SPending => Ok s0 | _ => set_sstate_raw l SPending s0 end) with pendF.
  assert (Hrows : forall l, In l sel -> find_step l s <> None).
  { intros l Hl. apply filter_In in Hl. destruct Hl as [_ Hl]. apply andb_true_iff in Hl. destruct Hl as [Hl _].
    destruct (find_step l s); [discriminate | discriminate Hl]. }
  apply wpg_bind. eapply wpg_weaken; [apply (@fold1_spec hh s sel HI Hrows)|].
  intros s1 [I1 [_ [_ [F1 _]]]].
  assert (Hfs : forall l, fstate_of l s1 = fstate_of l s) by (intros l; unfold fstate_of, find_file; rewrite F1; reflexivity).
  assert (Hout : forall f, In f outs -> revertible_output s f = true).
  { intros f Hf. unfold outs in Hf. apply in_flat_map in Hf. destruct Hf as [l0 [_ Hf]]. apply filter_In in Hf. tauto. }
  eapply wpg_weaken.
  { apply (wpg_foldM false _ (fun s2 => Inv hh s2 /\ RV s s2)).
    - intros s2 f Hf [I2 R2].
      assert (Hset : find_file f s2 <> None ->
                (fstate_of f s = Some FBuilt \/ fstate_of f s = Some FOutdated) ->
                wpg false (set_fstate_hash f FPlanned (Some None) s2) (fun s3 => Inv hh s3 /\ RV s s3)).
      { intros Hex Hbo. eapply wpg_weaken.
        - apply (@set_fstate_hash_spec hh); [exact I2 | discriminate | | intros H; discriminate H].
          intros d sl0 _ _ _ n c _ _. reflexivity.
        - intros s3 [I3 [_ [_ [_ [Hoth [Hnew _]]]]]]. split; [exact I3|]. intros l.
          destruct (str_eq_dec l f) as [->|Hne]; [right; split; [exact Hbo | apply Hnew; exact Hex]|].
          unfold fstate_of in *. rewrite (Hoth l Hne). apply R2. }
      specialize (Hout f Hf). unfold revertible_output in Hout.
      destruct (R2 f) as [E|[Hbo Hp]].
      + rewrite E. destruct (fstate_of f s) as [[]|] eqn:Es; try discriminate; try (cbn; split; assumption);
          (apply Hset; [unfold fstate_of in E; destruct (find_file f s2); [discriminate | cbn in E; discriminate E] | auto]).
      + rewrite Hp. apply Hset; [unfold fstate_of in Hp; destruct (find_file f s2); [discriminate | cbn in Hp; discriminate Hp] | exact Hbo].
    - split; [exact I1|]. intros l. left. apply Hfs. }
  intros s2 [_ R2]. exact R2.
Qed.

Lemma RV_move s s' l r r' : RV s s' -> find_file l s = Some r -> find_file l s' = Some r' ->
  revert_trans_b (fstt r) (fstt r') = true.
Proof.
  intros HR H0 H'. unfold revert_trans_b. destruct (HR l) as [E|[Hbo Hp]]; unfold fstate_of in *; rewrite H0, H' in *.
  - inversion E as [E']. rewrite E'. destruct (fstt r); reflexivity.
  - inversion Hp as [Hp']. rewrite Hp'. destruct Hbo as [Hb|Hb]; inversion Hb as [Hb']; rewrite Hb'; reflexivity.
Qed.

(* initialize_boot *)
Definition BT (s s' : st) : Prop :=
  forall l r r', find_file l s = Some r -> find_file l s' = Some r' -> boot_trans_b (fstt r) (fstt r') = true.

Lemma boot_trans_intro a m1 m2 b :
  decl_trans_b a m1 = true -> file_trans_b m1 m2 = true -> decl_trans_b m2 b = true -> boot_trans_b a b = true.
Proof.
  intros H1 H2 H3. unfold boot_trans_b. apply existsb_exists. exists m1. split; [apply fstates8_complete|].
  apply existsb_exists. exists m2. split; [apply fstates8_complete|]. rewrite H1, H2, H3. reflexivity.
Qed.

Lemma init_boot_BT hh h s : Inv hh s -> wpg false (init_boot h s) (BT s).
Proof.
  intros HI. unfold init_boot. destruct (boot_present s).
  { cbn. intros l r r' H0 H'. rewrite H0 in H'. inversion H'. subst r'.
    eapply boot_trans_intro; [apply decl_trans_b_refl | apply file_trans_b_refl | apply decl_trans_b_refl]. }
  apply wpg_bind. eapply wpg_weaken.
  { apply wpg_conj; [apply (@detach_list_spec hh false); [exact HI | intros p Hp; apply products_members; exact Hp]|].
    apply (wpg_foldM false _ (fun s1 => files s1 = files s)); [|reflexivity].
    intros s0 k _ E0. apply wpg_of_ok. intros s1 H1. rewrite <- E0. unfold node_detach in H1.
    destruct (find_node k s0) as [n|]; [|discriminate]. destruct (ncre n); inversion H1; [destruct (ndet n)|]; reflexivity. }
  intros s1 [[I1 _] F1]. apply wpg_bind. eapply wpg_weaken.
  { apply wpg_conj; [apply (@declare_static_files_t_spec hh); exact I1 | apply declare_static_files_t_DT]. }
  intros s2 [[I2 _] D12]. apply wpg_bind.
  assert (Hfin : forall s3, Inv hh s3 -> FT s2 s3 -> (forall l, find_file l s2 <> None -> find_file l s3 <> None) ->
            wpg false (define_step_t root_key boot_label [plan_py] [] [] [] NPlan s3) (BT s)).
  { intros s3 I3 F23 Hper. eapply wpg_weaken; [apply define_step_t_DT|]. intros s4 D34 l r r' H0 H'.
    assert (H1 : find_file l s1 = Some r) by (unfold find_file in *; rewrite F1; exact H0).
    destruct (D12 l r H1) as [r2 [H2 T12]].
    assert (Hex3 : find_file l s3 <> None) by (apply Hper; rewrite H2; discriminate).
    destruct (find_file l s3) as [r3|] eqn:H3; [|congruence].
    destruct (D34 l r3 H3) as [r4 [H4 T34]]. rewrite H' in H4. inversion H4; subst r4.
    eapply boot_trans_intro; [exact T12 | apply (proj1 F23 l r2 r3 H2 H3) | exact T34]. }
  assert (Hupd : wpg false (update_file_hashes CConfirmed [(plan_py, h)] s2)
            (fun s3 => Inv hh s3 /\ FT s2 s3 /\ (forall l, find_file l s2 <> None -> find_file l s3 <> None))).
  { eapply wpg_weaken.
    - apply wpg_conj; [apply (@update_file_hashes_spec hh); [exact I2 | intros H; discriminate H] | apply update_file_hashes_FT].
    - intros s3 [[I3 S3] F3]. split; [exact I3|]. split; [exact F3|]. intros l Hl.
      apply find_file_FL. rewrite (so_fl _ _ S3). apply find_file_FL. exact Hl. }
  destruct (fstate_of plan_py s2) as [[]|];
    try (cbn [wpg]; apply Hfin; [exact I2 | apply FT_refl | auto]);
    (eapply wpg_weaken; [exact Hupd | intros s3 [I3 [F3 P3]]; apply Hfin; assumption]).
Qed.

Theorem file_transitions_documented_x o s l r r' :
  inv_core_b s = true -> find_file l s = Some r -> find_file l (apply_op_x s o) = Some r' ->
  file_move_x_b o (fstt r) (fstt r') = true.
Proof.
  intros Hc H0 H'. apply inv_core_b_iff in Hc.
  (* generic: a body with an FT frame, followed by the trigger pass (files untouched) *)
  assert (HFT : forall body : res st, wpg false body (FT s) ->
            find_file l (match (match body with Ok s' => Ok (undefer_post s s') | Usage t => Usage t | Internal t => Internal t end)
                         with Ok s' => s' | _ => s end) = Some r' -> file_trans_b (fstt r) (fstt r') = true).
  { intros body Hw Hb. destruct body as [s'|t|t]; cbn in *.
    - rewrite undefer_post_find_file in Hb. apply (proj1 Hw l r r' H0 Hb).
    - rewrite H0 in Hb. inversion Hb. apply file_trans_b_refl.
    - rewrite H0 in Hb. inversion Hb. apply file_trans_b_refl. }
  destruct o as [oc|l'|ls|ls|ls| |h|]; cbn [file_move_x_b].
  - destruct oc as [ot|]; [|apply (HFT (check_consistency s)); [apply check_consistency_FT | exact H']].
    assert (Hwrap : find_file l (match (match step_op_t ot s with Ok s' => Ok (undefer_post s s') | Usage t => Usage t | Internal t => Internal t end)
                                 with Ok s' => s' | _ => s end) = Some r' -> file_move_b ot (fstt r) (fstt r') = true).
    { intros H. apply (file_transitions_documented_all ot s l r r' H0). unfold apply_op_t.
      destruct (step_op_t ot s); cbn in *; [rewrite undefer_post_find_file in H; exact H | exact H | exact H]. }
    unfold apply_op_x in H'. destruct ot as [ob|c p]; [|apply Hwrap; exact H'].
    destruct ob; try (apply Hwrap; exact H').
    (* validate: only the step row changes *)
    cbn [step_op_x] in H'. unfold file_move_b. cbn.
    destruct (set_sstate label SPending (has_unusable_dynamic_input label s) s) as [s'|t|t] eqn:Es; cbn in H'.
    + unfold find_file in H'. rewrite (set_sstate_files _ _ _ _ _ Es) in H'. fold (find_file l s) in H'.
      rewrite H0 in H'. inversion H'. apply file_trans_b_refl.
    + rewrite H0 in H'. inversion H'. apply file_trans_b_refl.
    + rewrite H0 in H'. inversion H'. apply file_trans_b_refl.
  - apply (HFT (skip_overtaken l' s)); [apply skip_overtaken_FT | exact H'].
  - apply (HFT (invalidate_steps ls s)); [apply invalidate_steps_FT | exact H'].
  - apply (HFT (mark_steps_pending ls s)); [apply fold_mark_FT | exact H'].
  - unfold apply_op_x in H'. cbn [step_op_x step_op_x0] in H'. pose proof (revert_optional_RV false ls s Hc) as Hw.
    destruct (revert_optional ls s) as [s'|t|t]; cbn in *.
    + rewrite undefer_post_find_file in H'. eapply RV_move; eassumption.
    + rewrite H0 in H'. inversion H'. unfold revert_trans_b. destruct (fstt r'); reflexivity.
    + rewrite H0 in H'. inversion H'. unfold revert_trans_b. destruct (fstt r'); reflexivity.
  - apply (HFT (reset_interrupted_raw s)); [apply reset_interrupted_raw_FT | exact H'].
  - unfold apply_op_x in H'. cbn [step_op_x step_op_x0] in H'. pose proof (init_boot_BT false h s Hc) as Hw.
    destruct (init_boot h s) as [s'|t|t]; cbn in *.
    + rewrite undefer_post_find_file in H'. apply (Hw l r r' H0 H').
    + rewrite H0 in H'. inversion H'. eapply boot_trans_intro; [apply decl_trans_b_refl | apply file_trans_b_refl | apply decl_trans_b_refl].
    + rewrite H0 in H'. inversion H'. eapply boot_trans_intro; [apply decl_trans_b_refl | apply file_trans_b_refl | apply decl_trans_b_refl].
  - unfold apply_op_x in H'. cbn in H'. rewrite undefer_post_find_file in H'. rewrite H0 in H'. inversion H'. destruct (fstt r'); reflexivity.
Qed.
