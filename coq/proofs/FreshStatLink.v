(* C03: model/FreshStat.v (files, stat fields, FileHash.refreshed) under model/Fresh.v (hash codes).
   Fresh.v compares `disk w f` with `f_hash (files w f)`; both are numbers of (digest, mode, size)
   triples.  Here: if the record of a counted input was taken from the file c0 and an honest history
   of file system operations leaves other content, size or mode under the path, then the real chain
   (refreshed -> compute_inp_hashes -> new_hashes) flags the input AND the completion step of Fresh.v
   ends FAILED and draining; before the start the command is not launched. *)
From Coq Require Import List NArith Bool Lia.
From SV Require Import lib.StampMap gen.GenFresh model.Fresh proofs.FreshProofs.
From SV Require Import model.FreshStatTypes gen.GenFreshStat model.FreshStat proofs.FreshStatProofs.
Import ListNotations.
Open Scope N_scope.

Section Link.
  Variable enc : N * N * N -> N.
  Hypothesis enc_inj : forall a b, enc a = enc b -> a = b.

  (* the row and the disk of Fresh.v are the numbers of a record and of a file of FreshStat.v *)
  Definition abstracts (w : world) (f : N) (c0 : cfile) (ops : list fsop) : Prop :=
    f_hash (files w f) = enc (code_of_hash (record_of c0)) /\
    disk w f = enc (code_of_disk (fs_run (Some c0) ops)).

  Lemma replaced_input_fails_and_drains :
    forall (w : world) (r : runst) (t : N) (ok : bool) (f : N) (c0 : cfile) (ops : list fsop),
      c_run w = Some r -> In f (considered w) ->
      cf_digest c0 <> 0 -> honest c0 (Some c0) ops = true -> abstracts w f c0 ops ->
      code_of_disk (fs_run (Some c0) ops) <> code_of_hash (record_of c0) ->
      fst (fst (inp_entry (record_of c0) (fs_run (Some c0) ops))) = true /\
      let w' := fst (do_end w t ok) in
      c_state w' = SS_FAILED /\ c_deferred w' = false /\ draining w' = true /\ c_run w' = None.
  Proof.
    intros w r t ok f c0 ops Hrun Hin H0 Hh [Hrec Hdisk] Hne.
    assert (Hflag : fst (fst (inp_entry (record_of c0) (fs_run (Some c0) ops))) = true).
    { pose proof (fresh_disk_test_exact enc enc_inj c0 ops H0 Hh) as E. cbv zeta in E. rewrite E.
      apply negb_true_iff, N.eqb_neq. intros X. apply enc_inj in X. contradiction. }
    split; [exact Hflag|].
    assert (Hch : changed_inputs w <> []).
    { unfold changed_inputs. intros Hnil.
      assert (Hf : In f (filter (fun f => negb (disk w f =? f_hash (files w f))) (considered w))).
      { apply filter_In. split; [exact Hin|]. apply negb_true_iff, N.eqb_neq.
        rewrite Hrec, Hdisk. intros X. apply enc_inj in X. contradiction. }
      rewrite Hnil in Hf. exact Hf. }
    destruct (changed_input_fails_and_drains w r t ok Hrun Hch) as (A & B & C & D & _).
    cbv zeta. auto.
  Qed.

  (* conversely: when nothing differs (same bytes in a new inode, touch, chmod back, ...) the input is
     not flagged by the real chain and is not among the changed inputs of Fresh.v *)
  Lemma unchanged_input_not_flagged :
    forall (w : world) (f : N) (c0 : cfile) (ops : list fsop),
      cf_digest c0 <> 0 -> honest c0 (Some c0) ops = true -> abstracts w f c0 ops ->
      code_of_disk (fs_run (Some c0) ops) = code_of_hash (record_of c0) ->
      inp_entry (record_of c0) (fs_run (Some c0) ops) = (false, 0, false) /\ ~ In f (changed_inputs w).
  Proof.
    intros w f c0 ops H0 Hh [Hrec Hdisk] Heq. split.
    - pose proof (inp_entry_exact c0 ops H0 Hh) as E. cbv zeta in E. rewrite E.
      rewrite Heq, code_eqb_refl. reflexivity.
    - unfold changed_inputs. intros Hf. apply filter_In in Hf. destruct Hf as [_ Hf].
      apply negb_true_iff, N.eqb_neq in Hf. apply Hf. rewrite Hrec, Hdisk, Heq. reflexivity.
  Qed.
End Link.
