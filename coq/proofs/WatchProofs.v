(* Proofs about model/Watch.v (C14). *)
From Coq Require Import List NArith Bool Lia.
From SV Require Import lib.Bytes gen.GenWatch model.Watch.
Import ListNotations.
Open Scope N_scope.

(* ------------------------------------------------------------------------------------------ *)
(* generic list / string facts                                                                 *)
(* ------------------------------------------------------------------------------------------ *)

Lemma str_eqb_sym a b : str_eqb a b = str_eqb b a.
Proof.
  destruct (str_eqb a b) eqn:E1; destruct (str_eqb b a) eqn:E2; try reflexivity.
  - apply str_eqb_eq in E1. subst. rewrite str_eqb_refl in E2. discriminate.
  - apply str_eqb_eq in E2. subst. rewrite str_eqb_refl in E1. discriminate.
Qed.

Lemma pmem_In p l : pmem p l = true <-> In p l.
Proof.
  unfold pmem. rewrite existsb_exists. split.
  - intros [q [Hq He]]. apply str_eqb_eq in He. subst. exact Hq.
  - intros H. exists p. split; [exact H | apply str_eqb_refl].
Qed.

Lemma pmem_cons p q l : pmem p (q :: l) = str_eqb p q || pmem p l.
Proof. reflexivity. Qed.

Lemma pmem_filter p f l : pmem p (filter f l) = f p && pmem p l.
Proof.
  induction l as [|q l IH]; cbn.
  - rewrite andb_false_r. reflexivity.
  - destruct (f q) eqn:Fq; cbn; fold (pmem p (filter f l)); fold (pmem p l); rewrite IH.
    + destruct (str_eqb p q) eqn:E; cbn; [|reflexivity].
      apply str_eqb_eq in E. subst. rewrite Fq. reflexivity.
    + destruct (str_eqb p q) eqn:E; cbn; [|reflexivity].
      apply str_eqb_eq in E. subst. rewrite Fq. reflexivity.
Qed.

Lemma pmem_premove x p l : pmem x (premove p l) = negb (str_eqb x p) && pmem x l.
Proof. unfold premove. rewrite pmem_filter. rewrite (str_eqb_sym p x). reflexivity. Qed.

Lemma pmem_app p a b : pmem p (a ++ b) = pmem p a || pmem p b.
Proof. unfold pmem. apply existsb_app. Qed.

(* ------------------------------------------------------------------------------------------ *)
(* (b) fold_last_event_wins                                                                    *)
(* ------------------------------------------------------------------------------------------ *)

Section FoldProofs.
  Variable relevant : bool -> path -> bool.
  Variable under : bool -> path -> list path.

  Definition disj (w : wsets) : Prop :=
    forall p, pmem p (ws_updated w) = true -> pmem p (ws_deleted w) = false.

  Definition upd_after (o : option bool) (w : wsets) (p : path) : bool :=
    match o with Some b => b | None => pmem p (ws_updated w) end.
  Definition del_after (o : option bool) (w : wsets) (p : path) : bool :=
    match o with Some b => negb b | None => pmem p (ws_deleted w) end.

  Lemma add_deleted_spec w q :
    disj w ->
    disj (add_deleted w q) /\
    forall p, pmem p (ws_updated (add_deleted w q)) = negb (str_eqb p q) && pmem p (ws_updated w)
           /\ pmem p (ws_deleted (add_deleted w q)) = str_eqb p q || pmem p (ws_deleted w).
  Proof.
    intros Hd. unfold add_deleted. destruct (pmem q (ws_deleted w)) eqn:G.
    - split; [exact Hd|]. intros p. destruct (str_eqb p q) eqn:E; cbn; [|split; reflexivity].
      apply str_eqb_eq in E. subst p. split; [|exact G].
      destruct (pmem q (ws_updated w)) eqn:U; [|reflexivity]. apply Hd in U. congruence.
    - split.
      + intros p. cbn [ws_updated ws_deleted]. rewrite pmem_premove, pmem_cons.
        destruct (str_eqb p q); cbn; [discriminate|]. apply Hd.
      + intros p. cbn [ws_updated ws_deleted]. rewrite pmem_premove, pmem_cons. split; reflexivity.
  Qed.

  Lemma add_updated_spec w q :
    disj w ->
    disj (add_updated w q) /\
    forall p, pmem p (ws_updated (add_updated w q)) = str_eqb p q || pmem p (ws_updated w)
           /\ pmem p (ws_deleted (add_updated w q)) = negb (str_eqb p q) && pmem p (ws_deleted w).
  Proof.
    intros Hd. unfold add_updated. destruct (pmem q (ws_updated w)) eqn:G.
    - split; [exact Hd|]. intros p. destruct (str_eqb p q) eqn:E; cbn; [|split; reflexivity].
      apply str_eqb_eq in E. subst p. split; [exact G|]. apply Hd. exact G.
    - split.
      + intros p. cbn [ws_updated ws_deleted]. rewrite pmem_premove, pmem_cons.
        destruct (str_eqb p q); cbn; [reflexivity|]. apply Hd.
      + intros p. cbn [ws_updated ws_deleted]. rewrite pmem_premove, pmem_cons. split; reflexivity.
  Qed.

  Lemma add_deleted_many l : forall w,
    disj w ->
    disj (fold_left add_deleted l w) /\
    forall p, pmem p (ws_updated (fold_left add_deleted l w)) = negb (pmem p l) && pmem p (ws_updated w)
           /\ pmem p (ws_deleted (fold_left add_deleted l w)) = pmem p l || pmem p (ws_deleted w).
  Proof.
    induction l as [|q l IH]; intros w Hd; cbn [fold_left].
    - split; [exact Hd|]. intros p. split; reflexivity.
    - destruct (add_deleted_spec w q Hd) as [Hd1 H1].
      destruct (IH _ Hd1) as [Hd2 H2]. split; [exact Hd2|].
      intros p. destruct (H2 p) as [A B]. destruct (H1 p) as [C D]. rewrite A, B, C, D, pmem_cons.
      split; destruct (str_eqb p q), (pmem p l); reflexivity.
  Qed.

  Lemma record_spec w it :
    disj w ->
    disj (record relevant under w it) /\
    forall p, pmem p (ws_updated (record relevant under w it)) = upd_after (effect relevant under it p) w p
           /\ pmem p (ws_deleted (record relevant under w it)) = del_after (effect relevant under it p) w p.
  Proof.
    intros Hd. unfold record, effect. destruct it as [c q b]. cbn [it_change it_path it_build].
    destruct c.
    - (* Updated *)
      destruct (pmem q (ws_updated w)) eqn:G.
      + split; [exact Hd|]. intros p. destruct (str_eqb q p) eqn:E; cbn; [|split; reflexivity].
        apply str_eqb_eq in E. subst p. destruct (relevant b q); cbn; [|split; reflexivity].
        split; [exact G | apply Hd; exact G].
      + destruct (relevant b q) eqn:R.
        * destruct (add_updated_spec w q Hd) as [Hd1 H1]. split; [exact Hd1|].
          intros p. destruct (H1 p) as [A B]. rewrite A, B, (str_eqb_sym q p).
          destruct (str_eqb p q) eqn:E; cbn; [|split; reflexivity].
          apply str_eqb_eq in E. subst p. rewrite R. cbn. split; reflexivity.
        * split; [exact Hd|]. intros p. destruct (str_eqb q p) eqn:E; cbn; [|split; reflexivity].
          apply str_eqb_eq in E. subst p. rewrite R. cbn. split; reflexivity.
    - (* Deleted *)
      destruct (pmem q (ws_deleted w)) eqn:G.
      + split; [exact Hd|]. intros p. destruct (str_eqb q p) eqn:E; cbn; [|split; reflexivity].
        apply str_eqb_eq in E. subst p. destruct (relevant b q); cbn; [|split; reflexivity].
        split; [|exact G].
        destruct (pmem q (ws_updated w)) eqn:U; [|reflexivity]. apply Hd in U. congruence.
      + destruct (relevant b q) eqn:R.
        * destruct (add_deleted_spec w q Hd) as [Hd1 H1]. split; [exact Hd1|].
          intros p. destruct (H1 p) as [A B]. rewrite A, B, (str_eqb_sym q p).
          destruct (str_eqb p q) eqn:E; cbn; [|split; reflexivity].
          apply str_eqb_eq in E. subst p. rewrite R. cbn. split; reflexivity.
        * split; [exact Hd|]. intros p. destruct (str_eqb q p) eqn:E; cbn; [|split; reflexivity].
          apply str_eqb_eq in E. subst p. rewrite R. cbn. split; reflexivity.
    - (* DeletedParent *)
      destruct (add_deleted_many (under b q) w Hd) as [Hd1 H1]. split; [exact Hd1|].
      intros p. destruct (H1 p) as [A B]. rewrite A, B.
      destruct (pmem p (under b q)); cbn; split; reflexivity.
  Qed.

  Lemma fold_spec items : forall w,
    disj w ->
    disj (fold_changes relevant under items w) /\
    forall p, pmem p (ws_updated (fold_changes relevant under items w))
                = upd_after (last_effect relevant under items p) w p
           /\ pmem p (ws_deleted (fold_changes relevant under items w))
                = del_after (last_effect relevant under items p) w p.
  Proof.
    unfold fold_changes. induction items as [|it items IH]; intros w Hd; cbn [fold_left last_effect].
    - split; [exact Hd|]. intros p. split; reflexivity.
    - destruct (record_spec w it Hd) as [Hd1 H1].
      destruct (IH _ Hd1) as [Hd2 H2]. split; [exact Hd2|].
      intros p. destruct (H2 p) as [A B]. destruct (H1 p) as [C D]. rewrite A, B.
      destruct (last_effect relevant under items p); cbn; [split; reflexivity|].
      rewrite C, D. split; reflexivity.
  Qed.

  Lemma disj_empty : disj ws_empty.
  Proof. intros p H. reflexivity. Qed.

  Theorem fold_last_event_wins :
    forall (items : list item) (p : path),
      let w := fold_changes relevant under items ws_empty in
      (pmem p (ws_updated w) = true <-> last_effect relevant under items p = Some true) /\
      (pmem p (ws_deleted w) = true <-> last_effect relevant under items p = Some false) /\
      (pmem p (ws_updated w) = true -> pmem p (ws_deleted w) = false).
  Proof.
    intros items p w. destruct (fold_spec items ws_empty disj_empty) as [Hd H].
    destruct (H p) as [A B]. subst w. rewrite A, B.
    destruct (last_effect relevant under items p) as [[|]|]; cbn;
      repeat split; intros; try congruence; try discriminate.
  Qed.

  Lemma last_effect_app a b p :
    last_effect relevant under (a ++ b) p =
    match last_effect relevant under b p with Some v => Some v | None => last_effect relevant under a p end.
  Proof.
    induction a as [|it a IH]; cbn [app last_effect].
    - destruct (last_effect relevant under b p); reflexivity.
    - rewrite IH. destruct (last_effect relevant under b p); reflexivity.
  Qed.
End FoldProofs.

(* ------------------------------------------------------------------------------------------ *)
(* (a) changes_cover_difference, file fragment                                                 *)
(* ------------------------------------------------------------------------------------------ *)

Definition all_relevant : bool -> path -> bool := fun _ _ => true.
Definition no_under : bool -> path -> list path := fun _ _ => [].
Definition raw_last := last_effect all_relevant no_under.

(* classification of the file events (depends on the generated mask values) *)
Lemma pe_create p : snd (process_event [] [] (mk_event M_CREATE p)) = [mk_item Updated p false].
Proof. reflexivity. Qed.
Lemma pe_modify p : snd (process_event [] [] (mk_event M_MODIFY p)) = [mk_item Updated p false].
Proof. reflexivity. Qed.
Lemma pe_close_write p : snd (process_event [] [] (mk_event M_CLOSE_WRITE p)) = [mk_item Updated p false].
Proof. reflexivity. Qed.
Lemma pe_moved_to p : snd (process_event [] [] (mk_event M_MOVED_TO p)) = [mk_item Updated p false].
Proof. reflexivity. Qed.
Lemma pe_delete p : snd (process_event [] [] (mk_event M_DELETE p)) = [mk_item Deleted p false].
Proof. reflexivity. Qed.
Lemma pe_moved_from p : snd (process_event [] [] (mk_event M_MOVED_FROM p)) = [mk_item Deleted p false].
Proof. reflexivity. Qed.

Definition cover_rel (o : option bool) (before after : option N) : Prop :=
  match o with
  | Some true => after <> None
  | Some false => after = None
  | None => after = before
  end.

Lemma raw_upd q p : effect all_relevant no_under (mk_item Updated q false) p = if str_eqb q p then Some true else None.
Proof. unfold effect, all_relevant. cbn. rewrite andb_true_r. reflexivity. Qed.
Lemma raw_del q p : effect all_relevant no_under (mk_item Deleted q false) p = if str_eqb q p then Some false else None.
Proof. unfold effect, all_relevant. cbn. rewrite andb_true_r. reflexivity. Qed.

Lemma fupd_same f p v : fupd f p v p = v.
Proof. unfold fupd. rewrite str_eqb_refl. reflexivity. Qed.
Lemma fupd_other f p v x : str_eqb p x = false -> fupd f p v x = f x.
Proof. unfold fupd. intros ->. reflexivity. Qed.

Section CoverFiles.
  Variable watched : path -> bool.

  Definition op_items (f : ffs) (o : fop) : list item :=
    flat_map (fun ev => snd (process_event [] [] ev)) (kernel_events watched f o).

  Lemma single_op_cover f o x :
    watched x = true ->
    cover_rel (raw_last (op_items f o) x) (f x) (fop_apply f o x).
  Proof.
    intros Hw. unfold op_items, raw_last. destruct o as [p c|p|p q]; cbn [kernel_events fop_apply].
    - (* FWrite *)
      destruct (str_eqb p x) eqn:E.
      + apply str_eqb_eq in E. subst p. rewrite Hw.
        destruct (f x); cbn [flat_map app]; rewrite ?pe_create, ?pe_modify, ?pe_close_write;
          cbn [app last_effect]; rewrite !raw_upd, str_eqb_refl; cbn; rewrite fupd_same; discriminate.
      + destruct (watched p); [|cbn; rewrite fupd_other by exact E; reflexivity].
        destruct (f p); cbn [flat_map app]; rewrite ?pe_create, ?pe_modify, ?pe_close_write;
          cbn [app last_effect]; rewrite !raw_upd, E; cbn; rewrite fupd_other by exact E; reflexivity.
    - (* FRemove *)
      destruct (str_eqb p x) eqn:E.
      + apply str_eqb_eq in E. subst p. destruct (f x) eqn:Fx.
        * rewrite Hw. cbn [flat_map app]. rewrite pe_delete. cbn [app last_effect].
          rewrite raw_del, str_eqb_refl. cbn. apply fupd_same.
        * cbn. rewrite fupd_same. reflexivity.
      + destruct (f p).
        * destruct (watched p); cbn [flat_map app]; rewrite ?pe_delete; cbn [app last_effect];
            rewrite ?raw_del, ?E; cbn; rewrite fupd_other by exact E; reflexivity.
        * cbn. rewrite fupd_other by exact E. reflexivity.
    - (* FMove *)
      destruct (f p) as [c|] eqn:Fp; [|cbn; reflexivity].
      destruct (str_eqb p q) eqn:Epq; [cbn; reflexivity|].
      destruct (str_eqb q x) eqn:Eq.
      + apply str_eqb_eq in Eq. subst q. rewrite Hw.
        rewrite flat_map_app. cbn [flat_map app]. rewrite pe_moved_to.
        rewrite last_effect_app. cbn [app last_effect]. rewrite raw_upd, str_eqb_refl. cbn.
        rewrite fupd_same. discriminate.
      + destruct (str_eqb p x) eqn:Ep.
        * apply str_eqb_eq in Ep. subst p. rewrite Hw.
          rewrite flat_map_app, last_effect_app.
          assert (Hq : last_effect all_relevant no_under
                         (flat_map (fun ev => snd (process_event [] [] ev))
                            (if watched q then [mk_event M_MOVED_TO q] else [])) x = None).
          { destruct (watched q); cbn [flat_map app]; [|reflexivity].
            rewrite pe_moved_to. cbn [app last_effect]. rewrite raw_upd, Eq. reflexivity. }
          rewrite Hq. cbn [flat_map app]. rewrite pe_moved_from. cbn [app last_effect].
          rewrite raw_del, str_eqb_refl. cbn.
          rewrite fupd_other by exact Eq. apply fupd_same.
        * rewrite flat_map_app, last_effect_app.
          assert (Hq : last_effect all_relevant no_under
                         (flat_map (fun ev => snd (process_event [] [] ev))
                            (if watched q then [mk_event M_MOVED_TO q] else [])) x = None).
          { destruct (watched q); cbn [flat_map app]; [|reflexivity].
            rewrite pe_moved_to. cbn [app last_effect]. rewrite raw_upd, Eq. reflexivity. }
          rewrite Hq.
          assert (Hp : last_effect all_relevant no_under
                         (flat_map (fun ev => snd (process_event [] [] ev))
                            (if watched p then [mk_event M_MOVED_FROM p] else [])) x = None).
          { destruct (watched p); cbn [flat_map app]; [|reflexivity].
            rewrite pe_moved_from. cbn [app last_effect]. rewrite raw_del, Ep. reflexivity. }
          rewrite Hp. cbn. rewrite fupd_other by exact Eq. rewrite fupd_other by exact Ep. reflexivity.
  Qed.

  Theorem changes_cover_difference_files :
    forall (ops : list fop) (f : ffs) (x : path),
      watched x = true ->
      cover_rel (raw_last (emitted watched f ops) x) (f x) (run_ops f ops x).
  Proof.
    induction ops as [|o ops IH]; intros f x Hw; cbn [emitted run_ops].
    - cbn. reflexivity.
    - unfold raw_last. rewrite last_effect_app. fold raw_last.
      specialize (IH (fop_apply f o) x Hw).
      destruct (raw_last (emitted watched (fop_apply f o) ops) x) as [[|]|] eqn:L; cbn in IH |- *.
      + exact IH.
      + exact IH.
      + pose proof (single_op_cover f o x Hw) as S. unfold op_items in S.
        fold raw_last. destruct (raw_last _ x) as [[|]|]; cbn in S |- *; congruence.
  Qed.
End CoverFiles.

(* directories in the ISDIR branch *)
Definition dir_create_covered (self : bool) : Prop :=
  forall (t : tree) (w : watches) (d : path),
    In (mk_item Updated (dir_label d) false)
       (snd (process_event_gen self t w (mk_event (M_CREATE + M_ISDIR) d))).

Definition dir_delete_covered (self : bool) : Prop :=
  forall (t : tree) (w : watches) (d : path),
    In (mk_item Deleted (dir_label d) false)
       (snd (process_event_gen self t w (mk_event (M_DELETE + M_ISDIR) d))).

Lemma dir_create_covered_when_self : dir_create_covered true.
Proof.
  intros t w d. unfold process_event_gen. cbn [ev_mask ev_path].
  change (has_bit (M_CREATE + M_ISDIR) M_IGNORED) with false.
  change (has_bit (M_CREATE + M_ISDIR) M_ISDIR) with true.
  change (is_deleted_mask (M_CREATE + M_ISDIR)) with false.
  cbn [rescan]. destruct (w_get w d) as [inst|]; cbn [fst snd app]; left; reflexivity.
Qed.

Lemma dir_delete_covered_when_self : dir_delete_covered true.
Proof.
  intros t w d. unfold process_event_gen. cbn [ev_mask ev_path].
  change (has_bit (M_DELETE + M_ISDIR) M_IGNORED) with false.
  change (has_bit (M_DELETE + M_ISDIR) M_ISDIR) with true.
  change (is_deleted_mask (M_DELETE + M_ISDIR)) with true.
  destruct (w_get w d) as [[|]|]; cbn [snd]; [right; left | left | left]; reflexivity.
Qed.

Definition w_D10 : watches := [([46], true); ([100;97;116;97], true)].           (* ".", "data" *)
Definition d_D10 : path := [100;97;116;97;47;110;101;119].                       (* "data/new" *)
Definition t_D10 : tree := [([100;97;116;97], true); ([100;97;116;97;47;111;108;100], true); (d_D10, true)].

Lemma dir_create_not_covered_without_self : ~ dir_create_covered false.
Proof. intros H. specialize (H t_D10 w_D10 d_D10). vm_compute in H. exact H. Qed.

Lemma dir_delete_not_covered_without_self : ~ dir_delete_covered false.
Proof. intros H. specialize (H t_D10 w_D10 d_D10). vm_compute in H. exact H. Qed.

(* A new directory that is not in `watches` is not scanned, whatever the flag: a file inside it that
   matches a pattern with a wildcard directory component (e.g. "*/x.dat") is never queued. *)
Definition new_dir_contents_covered (self : bool) : Prop :=
  forall (t : tree) (w : watches) (d x : path),
    t_is_file t x = true -> is_child d x = true ->
    In (mk_item Updated x false) (snd (process_event_gen self t w (mk_event (M_CREATE + M_ISDIR) d))).

Definition t_newdir : tree := [([100;53], true); ([100;53;47;120], false)].         (* "d5", "d5/x" *)

Lemma new_dir_contents_not_covered self : ~ new_dir_contents_covered self.
Proof.
  intros H. specialize (H t_newdir [([46], true)] [100;53] [100;53;47;120] eq_refl eq_refl).
  destruct self; vm_compute in H; intuition discriminate.
Qed.

(* ------------------------------------------------------------------------------------------ *)
(* (c) watch_commit = startup_rescan                                                           *)
(* ------------------------------------------------------------------------------------------ *)

Lemma fstate_eqb_eq a b : fstate_eqb a b = true <-> a = b.
Proof. destruct a, b; cbn; split; intros H; try reflexivity; try discriminate. Qed.

Lemma relevant_not_excluded s :
  mem_fstate s relevant_states = true -> mem_fstate s rescan_excluded_states = false.
Proof. destruct s; vm_compute; congruence. Qed.

Lemma relevant_build_subset s :
  mem_fstate s relevant_states_during_build = true -> mem_fstate s relevant_states = true.
Proof. destruct s; vm_compute; congruence. Qed.

Lemma filter_map_comm {A B} (h : A -> B) (P : B -> bool) l :
  filter P (map h l) = map h (filter (fun a => P (h a)) l).
Proof. induction l as [|a l IH]; cbn; [reflexivity|]. destruct (P (h a)); cbn; rewrite IH; reflexivity. Qed.

Lemma filter_filter {A} (P Q : A -> bool) l :
  filter P (filter Q l) = filter (fun a => Q a && P a) l.
Proof. induction l as [|a l IH]; cbn; [reflexivity|]. destruct (Q a); cbn; [destruct (P a)|]; rewrite IH; reflexivity. Qed.

Lemma map_filter_ext {A B} (h1 h2 : A -> B) (R1 R2 : A -> bool) l :
  (forall a, In a l -> R1 a = R2 a /\ (R1 a = true -> h1 a = h2 a)) ->
  map h1 (filter R1 l) = map h2 (filter R2 l).
Proof.
  induction l as [|a l IH]; intros H; cbn; [reflexivity|].
  destruct (H a (or_introl eq_refl)) as [E1 E2]. rewrite <- E1.
  destruct (R1 a) eqn:Ra; cbn; rewrite IH by (intros; apply H; right; assumption);
    [rewrite E2 by reflexivity|]; reflexivity.
Qed.

Section CommitProofs.
  Variable rest : Type.
  Variable on_action : action -> path -> list fnode * rest -> list fnode * rest.
  Variable on_nglob_change : str -> list fnode * rest -> list fnode * rest.
  Variable hash_fs : path -> option fh.
  Variable exists_fs : path -> bool.
  Variable matches : N -> path -> bool.
  Variable universe : list path.

  Notation G := (gstate rest).
  Notation run_jobs' := (run_jobs rest on_action hash_fs).
  Notation run_job' := (run_job rest on_action hash_fs).

  Lemma find_file_in l f :
    NoDup (map f_path l) -> In f l -> find_file l (f_path f) = Some f.
  Proof.
    induction l as [|g l IH]; intros Hn Hin; [contradiction|]. cbn in *. inversion Hn as [|? ? Hnot Hn']; subst.
    destruct Hin as [->|Hin].
    - rewrite str_eqb_refl. reflexivity.
    - destruct (str_eqb (f_path g) (f_path f)) eqn:E.
      + apply str_eqb_eq in E. exfalso. apply Hnot. rewrite E. apply in_map. exact Hin.
      + apply IH; assumption.
  Qed.

  Lemma find_file_none l p : (forall f, In f l -> f_path f <> p) -> find_file l p = None.
  Proof.
    induction l as [|g l IH]; intros H; cbn; [reflexivity|].
    destruct (str_eqb (f_path g) p) eqn:E.
    - apply str_eqb_eq in E. exfalso. apply (H g); [left; reflexivity | exact E].
    - apply IH. intros f Hf. apply H. right. exact Hf.
  Qed.

  Lemma nodup_filter_paths (P : fnode -> bool) l :
    NoDup (map f_path l) -> NoDup (map f_path (filter P l)).
  Proof.
    induction l as [|g l IH]; intros Hn; cbn; [constructor|].
    inversion Hn as [|? ? Hnot Hn']; subst. destruct (P g); cbn; [|apply IH; exact Hn'].
    constructor; [|apply IH; exact Hn'].
    intros Hin. apply Hnot. apply in_map_iff in Hin as [f [Ef Hf]]. apply filter_In in Hf as [Hf _].
    rewrite <- Ef. apply in_map. exact Hf.
  Qed.

  Lemma find_attached_in l f :
    NoDup (map f_path l) -> In f l -> f_attached f = true -> find_attached l (f_path f) = Some f.
  Proof.
    intros Hn Hin Ha. unfold find_attached. apply find_file_in.
    - apply nodup_filter_paths. exact Hn.
    - apply filter_In. split; assumption.
  Qed.

  Lemma find_attached_detached l f :
    NoDup (map f_path l) -> In f l -> f_attached f = false -> find_attached l (f_path f) = None.
  Proof.
    intros Hn Hin Ha. unfold find_attached. apply find_file_none.
    intros g Hg Hp. apply filter_In in Hg as [Hg Hga].
    assert (g = f).
    { pose proof (find_file_in l g Hn Hg) as A. pose proof (find_file_in l f Hn Hin) as B.
      rewrite Hp in A. congruence. }
    subst. congruence.
  Qed.

  Record WellFormed (g : G) : Prop := {
    wf_nodup : NoDup (map f_path (g_files g));
    (* every hash job of the build phase has completed: no attached file is still UNCONFIRMED *)
    wf_no_unconfirmed : forall f, In f (g_files g) -> f_attached f = true -> f_state f <> FS_UNCONFIRMED;
    (* recorded matches do match their pattern *)
    wf_matches_sound : forall r p, In r (g_nglobs g) -> ng_attached r = true ->
                                   pmem p (ng_matches r) = true -> matches (ng_pat r) p = true
  }.

  (* the precondition violated by D15: no detached file node sits on a path that an attached
     pattern matches (only needed while the commit re-hashes detached nodes too) *)
  Definition detached_unmatched (g : G) : Prop :=
    forall f, In f (g_files g) -> f_attached f = false -> matches_any_glob rest matches g (f_path f) = false.

  (* "the observed change sets cover the file-system difference on relevant paths" *)
  Record Covers (ao : bool) (g : G) (U D : list path) : Prop := {
    (* record_change only records relevant paths, in disjoint sets (fold_last_event_wins) *)
    cov_U_rel : forall p, In p U -> change_is_relevant rest matches g false p = true;
    cov_D_rel : forall p, In p D -> change_is_relevant rest matches g false p = true;
    cov_disj : forall p, In p U -> In p D -> False;
    (* a file the rescan would look at and that was not observed has not changed *)
    cov_files : forall f, In f (g_files g) -> rescan_selected f = true ->
                          pmem (f_path f) (U ++ D) = false -> hash_fs (f_path f) = f_hash f;
    (* a path matched by a registered pattern: deleted => gone; updated (and not pruned as an
       unchanged re-hash) => present; otherwise the recorded match set is current *)
    cov_globs : forall r p, In r (g_nglobs g) -> ng_attached r = true -> In p universe ->
                            matches (ng_pat r) p = true ->
                            exists_fs p =
                            if pmem p D then false
                            else if pmem p U && negb (pruned hash_fs (g_files g) ao p) then true
                            else pmem p (ng_matches r)
  }.

  Lemma run_jobs_effective jobs : forall og,
    fold_left run_job' jobs og = fold_left run_job' (filter (job_effective hash_fs) jobs) og.
  Proof.
    induction jobs as [|j jobs IH]; intros og; cbn [fold_left filter]; [reflexivity|].
    destruct (job_effective hash_fs j) eqn:E; cbn [fold_left].
    - apply IH.
    - rewrite IH. f_equal. destruct og as [g|]; [|reflexivity].
      unfold run_job. destruct j as [[p old] c]. rewrite E. reflexivity.
  Qed.

  Lemma effective_jobs_equal ao g U D :
    WellFormed g -> Covers ao g U D -> (ao = false -> detached_unmatched g) ->
    filter (job_effective hash_fs) (watch_jobs_gen rest ao g U D) =
    filter (job_effective hash_fs) (rescan_jobs rest g).
  Proof.
    intros WF CV DU. unfold watch_jobs_gen, rescan_jobs.
    rewrite !filter_map_comm, !filter_filter.
    apply map_filter_ext. intros f Hf.
    destruct (f_attached f) eqn:Att.
    - (* attached *)
      assert (Hst : fstate_eqb (f_state f) FS_UNCONFIRMED = false).
      { destruct (fstate_eqb (f_state f) FS_UNCONFIRMED) eqn:E; [|reflexivity].
        apply fstate_eqb_eq in E. exfalso. exact (wf_no_unconfirmed g WF f Hf Att E). }
      rewrite Hst. split; [|reflexivity].
      rewrite orb_true_r, andb_true_r.
      destruct (pmem (f_path f) (U ++ D)) eqn:M.
      + assert (Hrel : change_is_relevant rest matches g false (f_path f) = true).
        { rewrite pmem_app in M. apply orb_true_iff in M as [M|M]; apply pmem_In in M;
            [apply (cov_U_rel ao g U D CV) | apply (cov_D_rel ao g U D CV)]; exact M. }
        unfold change_is_relevant in Hrel.
        rewrite (find_attached_in _ f (wf_nodup g WF) Hf Att) in Hrel.
        unfold rescan_selected. rewrite Att, (relevant_not_excluded _ Hrel). reflexivity.
      + cbn [andb]. destruct (rescan_selected f) eqn:RS; [|reflexivity].
        cbn [andb]. unfold job_effective.
        rewrite (cov_files ao g U D CV f Hf RS M).
        assert (ofh_eqb (f_hash f) (f_hash f) = true) as ->.
        { destruct (f_hash f); cbn; [apply N.eqb_refl | reflexivity]. }
        reflexivity.
    - (* detached *)
      unfold rescan_selected. rewrite Att. cbn [andb].
      assert (R1 : pmem (f_path f) (U ++ D) && (negb ao || false) = false).
      { destruct ao; cbn [negb orb]; [apply andb_false_r|]. rewrite andb_true_r.
        destruct (pmem (f_path f) (U ++ D)) eqn:M; [|reflexivity]. exfalso.
        assert (Hrel : change_is_relevant rest matches g false (f_path f) = true).
        { rewrite pmem_app in M. apply orb_true_iff in M as [M|M]; apply pmem_In in M;
            [apply (cov_U_rel false g U D CV) | apply (cov_D_rel false g U D CV)]; exact M. }
        unfold change_is_relevant in Hrel.
        rewrite (find_attached_detached _ f (wf_nodup g WF) Hf Att) in Hrel.
        rewrite (DU eq_refl f Hf Att) in Hrel. discriminate. }
      rewrite R1. cbn [andb]. split; [reflexivity | discriminate].
  Qed.

  Lemma apply_hash_nglobs g p c new g' :
    apply_hash rest on_action g p c new = Some g' -> g_nglobs g' = g_nglobs g.
  Proof.
    unfold apply_hash. destruct (find_file (g_files g) p); [|discriminate].
    destruct (lookup_transition _ _) as [[s' act]|]; [|discriminate].
    intros H. inversion H. reflexivity.
  Qed.

  Lemma run_jobs_nglobs jobs : forall g g',
    fold_left run_job' jobs (Some g) = Some g' -> g_nglobs g' = g_nglobs g.
  Proof.
    induction jobs as [|j jobs IH]; intros g g' H; cbn [fold_left] in H.
    - inversion H. reflexivity.
    - destruct (run_job' (Some g) j) as [g1|] eqn:E.
      + rewrite (IH _ _ H). unfold run_job in E. destruct j as [[p old] c].
        destruct (job_effective hash_fs (p, old, c)).
        * destruct (stale_confirmation rest g p c).
          -- inversion E. reflexivity.
          -- eapply apply_hash_nglobs. exact E.
        * inversion E. reflexivity.
      + exfalso. clear -H. induction jobs as [|k jobs IH]; cbn in H; [discriminate|]. apply IH. exact H.
  Qed.

  Lemma update_nglobs_ext new1 new2 rows : forall fr,
    (forall r, In r rows -> ng_attached r = true -> new1 r = new2 r) ->
    update_nglobs rest on_nglob_change new1 rows fr = update_nglobs rest on_nglob_change new2 rows fr.
  Proof.
    induction rows as [|r rows IH]; intros fr H; cbn [update_nglobs]; [reflexivity|].
    destruct (ng_attached r) eqn:A; cbn [andb].
    - rewrite (H r (or_introl eq_refl) A).
      destruct (negb (paths_eqb (new2 r) (ng_matches r)));
        rewrite IH by (intros; apply H; [right|]; assumption); reflexivity.
    - rewrite IH by (intros; apply H; [right|]; assumption). reflexivity.
  Qed.

  Lemma overlap_false a b : (forall p, In p a -> In p b -> False) -> overlap a b = false.
  Proof.
    intros H. unfold overlap. destruct (existsb (fun p => pmem p b) a) eqn:E; [|reflexivity].
    apply existsb_exists in E as [p [Hp Hb]]. apply pmem_In in Hb. exfalso. eauto.
  Qed.

  Theorem watch_commit_equals_rescan_gen :
    forall (ao : bool) (g : G) (U D : list path),
      WellFormed g -> Covers ao g U D -> (ao = false -> detached_unmatched g) ->
      watch_commit_gen rest on_action on_nglob_change hash_fs matches universe ao g U D
      = startup_rescan rest on_action on_nglob_change hash_fs exists_fs matches universe g.
  Proof.
    intros ao g U D WF CV DU. unfold watch_commit_gen, startup_rescan, run_jobs.
    rewrite (run_jobs_effective (watch_jobs_gen rest ao g U D)).
    rewrite (run_jobs_effective (rescan_jobs rest g)).
    rewrite (effective_jobs_equal ao g U D WF CV DU).
    destruct (fold_left run_job' (filter (job_effective hash_fs) (rescan_jobs rest g)) (Some g)) as [g1|] eqn:J;
      [|reflexivity].
    rewrite overlap_false.
    2:{ intros p HD HU. apply filter_In in HU as [HU _]. exact (cov_disj ao g U D CV p HU HD). }
    f_equal. unfold apply_nglobs.
    pose proof (run_jobs_nglobs _ _ _ J) as NG.
    rewrite (update_nglobs_ext
               (fun r => evolved matches universe r (filter (fun p => negb (pruned hash_fs (g_files g) ao p)) U) D)
               (rescanned exists_fs matches universe)); [reflexivity|].
    intros r Hr Ar. rewrite NG in Hr. unfold evolved, rescanned, canon.
    apply filter_ext_in. intros p Hp.
    destruct (matches (ng_pat r) p) eqn:Mp.
    - rewrite (cov_globs ao g U D CV r p Hr Ar Hp Mp). rewrite pmem_filter, !andb_true_r.
      destruct (pmem p D); cbn; [rewrite andb_false_r; reflexivity|].
      rewrite andb_true_r, (andb_comm (negb _) (pmem p U)).
      destruct (pmem p U && negb (pruned hash_fs (g_files g) ao p)); cbn;
        [apply orb_true_r | apply orb_false_r].
    - rewrite !andb_false_r. cbn. rewrite andb_true_r, orb_false_r.
      destruct (pmem p (ng_matches r)) eqn:Mm; [|reflexivity].
      rewrite (wf_matches_sound g WF r p Hr Ar Mm) in Mp. discriminate.
  Qed.

  (* the statement list of the hand-modelled shape runs to exactly watch_commit_gen *)
  Lemma run_commit_base ao g U D :
    run_commit rest on_action on_nglob_change hash_fs matches universe (base_program ao) g U D
    = watch_commit_gen rest on_action on_nglob_change hash_fs matches universe ao g U D.
  Proof.
    unfold run_commit, watch_commit_gen, base_program.
    cbn [exec_prog exec_stmt cs_old cs_g cs_U cs_D cs_new cs_set].
    destruct (run_jobs rest on_action hash_fs (watch_jobs_gen rest ao g U D) g) as [g1|]; [|reflexivity].
    cbn [exec_prog exec_stmt cs_old cs_g cs_U cs_D cs_new cs_set].
    destruct (overlap D (filter (fun p => negb (pruned hash_fs (g_files g) ao p)) U)); reflexivity.
  Qed.

  (* ---- the decidable hypotheses are sound ---- *)
  Lemma ofh_eqb_eq a b : ofh_eqb a b = true -> a = b.
  Proof.
    destruct a as [x|], b as [y|]; cbn; intros H; try discriminate; [|reflexivity].
    apply N.eqb_eq in H. subst. reflexivity.
  Qed.

  Lemma nodup_b_sound l : nodup_b l = true -> NoDup l.
  Proof.
    induction l as [|p l IH]; cbn; intros H; [constructor|].
    apply andb_true_iff in H as [H1 H2]. constructor; [|apply IH; exact H2].
    intros Hin. apply pmem_In in Hin. rewrite Hin in H1. discriminate.
  Qed.

  Lemma wf_b_sound g : wf_b rest matches g = true -> WellFormed g.
  Proof.
    unfold wf_b. intros H. apply andb_true_iff in H as [H H3]. apply andb_true_iff in H as [H1 H2].
    constructor.
    - apply nodup_b_sound. exact H1.
    - intros f Hf Att E. rewrite forallb_forall in H2. specialize (H2 f Hf).
      rewrite Att, E in H2. cbn in H2. discriminate.
    - intros r p Hr Ar Mp. rewrite forallb_forall in H3. specialize (H3 r Hr).
      rewrite Ar in H3. cbn in H3. rewrite forallb_forall in H3. apply H3. apply pmem_In. exact Mp.
  Qed.

  Lemma du_b_sound g : du_b rest matches g = true -> detached_unmatched g.
  Proof.
    unfold du_b. intros H f Hf Att. rewrite forallb_forall in H. specialize (H f Hf).
    rewrite Att in H. cbn in H. apply negb_true_iff in H. exact H.
  Qed.

  Lemma covers_b_sound ao g U D :
    covers_b rest hash_fs exists_fs matches universe ao g U D = true -> Covers ao g U D.
  Proof.
    unfold covers_b. intros H.
    apply andb_true_iff in H as [H H5]. apply andb_true_iff in H as [H H4].
    apply andb_true_iff in H as [H H3]. apply andb_true_iff in H as [H1 H2].
    rewrite forallb_forall in H1, H2, H4, H5.
    constructor.
    - exact H1.
    - exact H2.
    - intros p HU HD. apply negb_true_iff in H3. unfold overlap in H3.
      assert (existsb (fun q => pmem q D) U = true) as X; [|rewrite X in H3; discriminate].
      apply existsb_exists. exists p. split; [exact HU|]. apply pmem_In. exact HD.
    - intros f Hf RS M. specialize (H4 f Hf). rewrite RS, M in H4. cbn in H4. apply ofh_eqb_eq. exact H4.
    - intros r p Hr Ar Hp Mp. specialize (H5 r Hr). rewrite Ar in H5. cbn in H5.
      rewrite forallb_forall in H5. specialize (H5 p Hp). rewrite Mp in H5. cbn in H5.
      apply eqb_prop in H5. exact H5.
  Qed.
End CommitProofs.

(* ------------------------------------------------------------------------------------------ *)
(* why the unchanged re-hashes are pruned from `updated` only                                     *)
(* ------------------------------------------------------------------------------------------ *)

(* A static file that is a recorded match of a pattern vanished while the build ran: the step that used
   it recorded the unknown hash (cause FAILED: CONFIRMED -> MISSING, hash cleared), the pattern row still
   lists it, and the DELETED item of the watcher puts it in `deleted`.  Its re-hash is "unchanged"
   (unknown = unknown).  A commit that also discards unchanged paths from `deleted` keeps the stale match;
   the rescan drops it and makes the registering step pending. *)
Definition p_pd : path := [97].                                         (* "a" *)
Definition g_pd : gstate unit := mk_g [mk_fnode p_pd true FS_MISSING None] [mk_ng 0 [112] true [p_pd]] tt.
Definition hash_pd : path -> option fh := fun _ => None.
Definition exists_pd : path -> bool := fun _ => false.
Definition any_match : N -> path -> bool := fun _ _ => true.
Definition prune_both_program : list cstmt :=
  [CReadOld true; CRehash; CPrune true true; CNglob SetD SetU; CClear].

Lemma prune_deleted_refuted :
  WellFormed unit any_match g_pd /\
  Covers unit hash_pd exists_pd any_match [p_pd] true g_pd [] [p_pd] /\
  run_commit unit (fun _ _ x => x) (fun _ x => x) hash_pd any_match [p_pd] prune_both_program g_pd [] [p_pd]
  = Some g_pd /\
  startup_rescan unit (fun _ _ x => x) (fun _ x => x) hash_pd exists_pd any_match [p_pd] g_pd
  = Some (mk_g [mk_fnode p_pd true FS_MISSING None] [mk_ng 0 [112] true []] tt) /\
  run_commit unit (fun _ _ x => x) (fun _ x => x) hash_pd any_match [p_pd] (base_program true) g_pd [] [p_pd]
  = startup_rescan unit (fun _ _ x => x) (fun _ x => x) hash_pd exists_pd any_match [p_pd] g_pd.
Proof.
  split; [apply wf_b_sound; vm_compute; reflexivity|].
  split; [apply covers_b_sound; vm_compute; reflexivity|].
  vm_compute. repeat split; reflexivity.
Qed.

(* ------------------------------------------------------------------------------------------ *)
(* failed steps                                                                                 *)
(* ------------------------------------------------------------------------------------------ *)

Section FailedProofs.
  Variable rest : Type.
  Variable mark_step_pending : str -> list srow * rest -> list srow * rest.

  Lemma raw_reset_id steps :
    (forall s, In s steps -> s_state s <> SRunning /\ s_state s <> SChecking) -> raw_reset steps = steps.
  Proof.
    induction steps as [|s steps IH]; intros H; unfold raw_reset in *; cbn [map]; [reflexivity|].
    rewrite IH by (intros; apply H; right; assumption).
    destruct (H s (or_introl eq_refl)) as [A B]. destruct s as [l a st]. cbn in *.
    destruct st; try reflexivity; congruence.
  Qed.

  Theorem failed_steps_pending_both_ways :
    forall (sr : list srow * rest),
      (forall s, In s (fst sr) -> s_state s <> SRunning /\ s_state s <> SChecking) ->
      resume_reset rest mark_step_pending sr = start_build_pre rest mark_step_pending sr.
  Proof.
    intros [steps r] H. unfold resume_reset, start_build_pre. simpl in H. simpl fst. simpl snd.
    rewrite (raw_reset_id steps H). reflexivity.
  Qed.

  (* the common reaction hands every attached FAILED step, and nothing else, to mark_step_pending *)
  Lemma failed_attached_spec steps l :
    In l (failed_attached steps) <->
    exists s, In s steps /\ s_label s = l /\ s_attached s = true /\ s_state s = SFailed.
  Proof.
    unfold failed_attached. rewrite in_map_iff. split.
    - intros [s [E H]]. apply filter_In in H as [H1 H2]. apply andb_true_iff in H2 as [A B].
      exists s. repeat split; try assumption. destruct (s_state s); try discriminate; reflexivity.
    - intros [s [H1 [E [A B]]]]. exists s. split; [exact E|]. apply filter_In. split; [exact H1|].
      rewrite A, B. reflexivity.
  Qed.
End FailedProofs.

(* ------------------------------------------------------------------------------------------ *)
(* D15: a detached UNDECLARED node on a glob-matched path                                  *)
(* ------------------------------------------------------------------------------------------ *)

Definition p_D15 : path := [110;46;116;120;116].   (* "n.txt" *)
Definition g_D15 : gstate unit :=
  mk_g [mk_fnode p_D15 false FS_UNDECLARED None]
            [mk_ng 0 [112] true []] tt.
Definition id_action : action -> path -> list fnode * unit -> list fnode * unit := fun _ _ x => x.
Definition id_nglob : str -> list fnode * unit -> list fnode * unit := fun _ x => x.
Definition hash_D15 : path -> option fh := fun _ => Some 7.
Definition all_match : N -> path -> bool := fun _ _ => true.

Lemma D15_watch_commit_errors :
  watch_commit_gen unit id_action id_nglob hash_D15 all_match [p_D15] false g_D15 [p_D15] [] = None.
Proof. vm_compute. reflexivity. Qed.

Lemma D15_rescan_ok :
  startup_rescan unit id_action id_nglob hash_D15 (fun _ => true) all_match [p_D15] g_D15
  = Some (mk_g [mk_fnode p_D15 false FS_UNDECLARED None] [mk_ng 0 [112] true [p_D15]] tt).
Proof. vm_compute. reflexivity. Qed.

Lemma D15_attached_only_agrees :
  watch_commit_gen unit id_action id_nglob hash_D15 all_match [p_D15] true g_D15 [p_D15] []
  = startup_rescan unit id_action id_nglob hash_D15 (fun _ => true) all_match [p_D15] g_D15.
Proof. vm_compute. reflexivity. Qed.

(* ------------------------------------------------------------------------------------------ *)
(* (a) directories: a watched directory that is removed or moved away; a directory that       *)
(* (re)appears and was once watched                                                            *)
(* ------------------------------------------------------------------------------------------ *)

Lemma w_get_set_same w p v : w_get (w_set w p v) p = Some v.
Proof.
  induction w as [|[q u] w IH]; cbn.
  - rewrite str_eqb_refl. reflexivity.
  - destruct (str_eqb q p) eqn:E; cbn; rewrite E; [reflexivity | exact IH].
Qed.

Lemma w_get_set_other w p v x : str_eqb p x = false -> w_get (w_set w p v) x = w_get w x.
Proof.
  intros Hpx. induction w as [|[q u] w IH]; cbn.
  - rewrite Hpx. reflexivity.
  - destruct (str_eqb q p) eqn:E; cbn.
    + apply str_eqb_eq in E. subst q. rewrite Hpx. reflexivity.
    + destruct (str_eqb q x); [reflexivity | exact IH].
Qed.

Lemma rescan_keeps_installed fuel self t : forall w todo d,
  w_get w d = Some true -> w_get (fst (rescan fuel self t w todo)) d = Some true.
Proof.
  induction fuel as [|fuel IH]; intros w todo d H; cbn [rescan]; [exact H|].
  destruct todo as [|c rest]; [exact H|].
  destruct (w_get w c) as [inst|] eqn:G; cbn [fst].
  - apply IH. destruct inst; [exact H|].
    destruct (str_eqb c d) eqn:E.
    + apply str_eqb_eq in E. subst c. apply w_get_set_same.
    + rewrite w_get_set_other by exact E. exact H.
  - apply IH. exact H.
Qed.

Definition created_mask (m : N) : Prop := m = M_CREATE + M_ISDIR \/ m = M_MOVED_TO + M_ISDIR.
Definition removed_mask (m : N) : Prop := m = M_DELETE + M_ISDIR \/ m = M_MOVED_FROM + M_ISDIR.

(* A directory that appears (created or moved in) and is a key of `watches` (installed or pending):
   its watch is installed afterwards and every regular file directly inside it is queued. *)
Lemma appeared_dir_children_covered self t w d inst m :
  created_mask m -> w_get w d = Some inst ->
  let r := process_event_gen self t w (mk_event m d) in
  w_get (fst r) d = Some true /\
  forall x, t_is_file t x = true -> is_child d x = true -> In (mk_item Updated x false) (snd r).
Proof.
  intros Hm G. unfold process_event_gen. cbn [ev_mask ev_path].
  assert (Hbits : has_bit m M_IGNORED = false /\ has_bit m M_ISDIR = true /\ is_deleted_mask m = false).
  { destruct Hm as [-> | ->]; vm_compute; repeat split; reflexivity. }
  destruct Hbits as [-> [-> ->]].
  cbn [rescan]. rewrite G. cbn [fst snd]. split.
  - apply rescan_keeps_installed. destruct inst; [exact G | apply w_get_set_same].
  - intros x Hf Hc. apply in_or_app. right. apply in_or_app. left.
    apply (in_map (fun q => mk_item Updated q false)). apply filter_In. split; [|exact Hf].
    unfold t_is_file in Hf. apply existsb_exists in Hf as [e [He Hx]].
    apply andb_true_iff in Hx as [Hx _]. apply str_eqb_eq in Hx. subst x.
    unfold t_children. apply in_map. apply filter_In. split; assumption.
Qed.

(* A directory with an installed watch that is removed or moved away: DELETED_PARENT is queued and
   the watch becomes pending. *)
Lemma removed_dir_emits_deleted_parent self t w d m :
  removed_mask m -> w_get w d = Some true ->
  let r := process_event_gen self t w (mk_event m d) in
  w_get (fst r) d = Some false /\
  snd r = mk_item DeletedParent d false :: (if self then [mk_item Deleted (dir_label d) false] else []).
Proof.
  intros Hm G. unfold process_event_gen. cbn [ev_mask ev_path].
  assert (Hbits : has_bit m M_IGNORED = false /\ has_bit m M_ISDIR = true /\ is_deleted_mask m = true).
  { destruct Hm as [-> | ->]; vm_compute; repeat split; reflexivity. }
  destruct Hbits as [-> [-> ->]]. rewrite G. cbn [fst snd]. split; [apply w_get_set_same | reflexivity].
Qed.

(* Whatever was recorded before, once DELETED_PARENT d is recorded every path listed under d is in
   `deleted` and not in `updated`. *)
Lemma deleted_parent_marks_all relevant under items d b p :
  In p (under b d) ->
  let w := fold_changes relevant under (items ++ [mk_item DeletedParent d b]) ws_empty in
  pmem p (ws_deleted w) = true /\ pmem p (ws_updated w) = false.
Proof.
  intros Hin w.
  destruct (fold_last_event_wins relevant under (items ++ [mk_item DeletedParent d b]) p) as [HU [HD _]].
  fold w in HU, HD.
  assert (L : last_effect relevant under (items ++ [mk_item DeletedParent d b]) p = Some false).
  { rewrite last_effect_app. cbn [last_effect]. unfold effect. cbn [it_change it_build it_path].
    apply pmem_In in Hin. rewrite Hin. reflexivity. }
  split; [apply HD; exact L|].
  destruct HU as [HU1 _].
  destruct (pmem p (ws_updated w)) eqn:E; [|reflexivity]. specialize (HU1 eq_refl). congruence.
Qed.

Lemma dedup_In l : forall seen p, In p (dedup l seen) <-> In p l /\ pmem p seen = false.
Proof.
  induction l as [|q l IH]; intros seen p; cbn [dedup].
  - split; [contradiction | intros [[] _]].
  - destruct (pmem q seen) eqn:Q.
    + rewrite IH. split.
      * intros [H1 H2]. split; [right; exact H1 | exact H2].
      * intros [[->|H1] H2]; [congruence | split; assumption].
    + cbn [In]. rewrite IH, pmem_cons. split.
      * intros [->|[H1 H2]]; [split; [left; reflexivity | exact Q]|].
        apply orb_false_iff in H2 as [_ H2]. split; [right; exact H1 | exact H2].
      * intros [[->|H1] H2]; [left; reflexivity|].
        destruct (str_eqb p q) eqn:E; [apply str_eqb_eq in E; left; congruence|].
        right. split; [exact H1|]. rewrite H2. reflexivity.
Qed.

Definition dir_pre (d : path) : path :=
  if str_eqb (skipn (length d - 1) d) [SLASH] then d else d ++ [SLASH].

Section UnderSpec.
  Variable rest : Type.

  (* relevant_paths_under lists exactly: attached nodes in a relevant state with a label under d/, and
     recorded matches of attached registrations under d/. *)
  Lemma relevant_paths_under_spec (g : gstate rest) b d p :
    In p (relevant_paths_under rest g b d) <->
    (exists f, In f (g_files g) /\ f_attached f = true /\
               mem_fstate (f_state f) (if b then relevant_states_during_build else relevant_states) = true /\
               is_prefix (dir_pre d) (f_path f) = true /\ f_path f = p) \/
    (exists r, In r (g_nglobs g) /\ ng_attached r = true /\ In p (ng_matches r) /\
               is_prefix (dir_pre d) p = true).
  Proof.
    unfold relevant_paths_under. cbv zeta. fold (dir_pre d).
    rewrite dedup_In, in_app_iff. split.
    - intros [[H|H] _].
      + left. apply in_map_iff in H as [f [E H]]. apply filter_In in H as [H1 H2].
        apply andb_true_iff in H2 as [H2 H4]. apply andb_true_iff in H2 as [H2 H3].
        exists f. repeat split; assumption.
      + right. apply in_flat_map in H as [r [H1 H2]]. destruct (ng_attached r) eqn:A; [|contradiction].
        apply filter_In in H2 as [H2 H3]. exists r. repeat split; assumption.
    - intros [[f [H1 [H2 [H3 [H4 E]]]]] | [r [H1 [H2 [H3 H4]]]]]; (split; [|reflexivity]).
      + left. apply in_map_iff. exists f. split; [exact E|]. apply filter_In. split; [exact H1|].
        rewrite H2, H3, H4. reflexivity.
      + right. apply in_flat_map. exists r. split; [exact H1|]. rewrite H2. apply filter_In. split; assumption.
  Qed.
End UnderSpec.

(* ------------------------------------------------------------------------------------------ *)
(* DELETED_PARENT only reaches paths the graph knows: a path recorded as updated in this very  *)
(* watch phase (a new match of a pattern, no node, not yet a recorded match) stays in `updated` *)
(* when a directory above it is moved away afterwards.                                          *)
(* ------------------------------------------------------------------------------------------ *)

Definition g_stale : gstate unit := mk_g [] [mk_ng 0 [112] true []] tt.       (* one pattern, no matches yet *)
Definition p_stale : path := [100;49;47;110].                                  (* "d1/n" *)
Definition d_stale : path := [100;49].                                         (* "d1" *)

Lemma stale_update_survives_deleted_parent :
  is_prefix (dir_pre d_stale) p_stale = true /\
  let w := fold_changes (change_is_relevant unit all_match g_stale) (relevant_paths_under unit g_stale)
                        [mk_item Updated p_stale false; mk_item DeletedParent d_stale false] ws_empty in
  pmem p_stale (ws_updated w) = true /\ pmem p_stale (ws_deleted w) = false.
Proof. vm_compute. repeat split; reflexivity. Qed.
