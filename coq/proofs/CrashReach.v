(* proofs/CrashReach.v -- C05 corollaries that use C09's reachability theorem
   (kept apart so that proofs/CrashProofs.v does not depend on proofs/GraphProofs.v). *)
From Coq Require Import List NArith Bool.
From SV Require Import lib.Bytes model.Graph model.GraphInv gen.GenCrash model.Crash proofs.CrashProofs
  proofs.GraphProofs.
Import ListNotations.
Open Scope N_scope.

Lemma open_reachable_prefix_ok cap ops k repair strict :
  protocol_run_b (init_st cap) (firstn k ops) = true ->
  inv_succeeded_b (run_ops (firstn k ops) (init_st cap)) = true ->
  open_db repair strict cap (db_at cap ops (S k)) = Ok (run_ops (firstn k ops) (init_st cap)).
Proof.
  intros Hp Hs. apply open_prefix_ok; [|exact Hs]. apply reachable_inv. exact Hp.
Qed.
