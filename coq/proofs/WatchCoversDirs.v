(* C14: the class of AllWatched (proofs/WatchCovers.v) obtained from dir_loop: the directories of the relevant
   paths were handed to dir_loop (base directories of patterns without wildcard directory components, parent
   directories of declared files) and exist; then each of them has an installed watch after the requests,
   whatever else was requested.  (Directories that were missing when requested and appeared later:
   C14_requested_missing_directory_watched_at_every_depth.) *)
From Coq Require Import List NArith Bool.
From SV Require Import lib.Bytes gen.GenWatch model.Watch model.WatchSet proofs.WatchProofs proofs.WatchDeep
  proofs.WatchDirLoop proofs.WatchCovers.
Import ListNotations.
Open Scope N_scope.

Lemma installed_w_set w p x : installed w x = true -> installed (w_set w p true) x = true.
Proof.
  unfold installed. intros H. destruct (str_eqb p x) eqn:E.
  - apply str_eqb_eq in E. subst x. rewrite w_get_set_same. reflexivity.
  - rewrite w_get_set_other by exact E. exact H.
Qed.

Lemma installed_setdefault w p v x : installed w x = true -> installed (w_setdefault w p v) x = true.
Proof.
  unfold w_setdefault. intros H. destruct (w_get w p) eqn:G; [exact H|].
  unfold installed in *. destruct (str_eqb p x) eqn:E.
  - apply str_eqb_eq in E. subst x. rewrite G in H. discriminate.
  - rewrite w_get_set_other by exact E. exact H.
Qed.

Lemma climb_keeps_installed fuel rec s : forall w p x,
  installed w x = true -> installed (fst (climb fuel rec s w p)) x = true.
Proof.
  induction fuel as [|fuel IH]; intros w p x H; cbn [climb]; [exact H|].
  destruct (stops_climb s p); [exact H|]. apply IH. destruct rec; [apply installed_setdefault|]; exact H.
Qed.

Lemma install_up_keeps_installed fuel s : forall kw w p x,
  installed w x = true -> installed (snd (install_up fuel s kw w p)) x = true.
Proof.
  induction fuel as [|fuel IH]; intros kw w p x H; cbn [install_up]; [exact H|].
  destruct (installed w p); [exact H|]. destruct (str_eqb p DOT); cbn [snd]; [apply installed_w_set; exact H|].
  apply IH. apply installed_w_set. exact H.
Qed.

Lemma install_up_installs fuel s kw w p : installed (snd (install_up (S fuel) s kw w p)) p = true.
Proof.
  cbn [install_up]. destruct (installed w p) eqn:E; [exact E|].
  assert (H : installed (w_set w p true) p = true) by (unfold installed; rewrite w_get_set_same; reflexivity).
  destruct (str_eqb p DOT); cbn [snd]; [exact H|]. apply install_up_keeps_installed. exact H.
Qed.

(* a requested directory that exists has an installed watch after the request *)
Lemma requested_existing_installed s p :
  stops_climb s p = true -> installed (s_w (dir_request_gen base_dir_program s p)) p = true.
Proof.
  intros E. unfold dir_request_gen, base_dir_program.
  cbn [exec_dprog exec_dstmt dl_s dl_path dl_req s_w s_kw with_w climb_fuel climb]. rewrite E. cbn [fst snd].
  apply install_up_installs.
Qed.

Lemma request_keeps_installed s p x :
  installed (s_w s) x = true -> installed (s_w (dir_request_gen base_dir_program s p)) x = true.
Proof.
  intros H. unfold dir_request_gen, base_dir_program.
  cbn [exec_dprog exec_dstmt dl_s dl_path dl_req s_w s_kw with_w].
  apply install_up_keeps_installed. apply climb_keeps_installed. exact H.
Qed.

Lemma request_keeps_dirs s p : s_dirs (dir_request_gen base_dir_program s p) = s_dirs s.
Proof. reflexivity. Qed.

Lemma stops_climb_request s p q :
  stops_climb (dir_request_gen base_dir_program s p) q = stops_climb s q.
Proof. reflexivity. Qed.

(* every existing directory among the requested ones is installed after all the requests *)
Theorem requested_existing_all_installed ds : forall s d,
  In d ds -> stops_climb s d = true ->
  installed (s_w (fold_left (dir_request_gen base_dir_program) ds s)) d = true.
Proof.
  induction ds as [|c ds IH]; intros s d Hin Ex; [contradiction|]. cbn [fold_left].
  assert (K : forall l s0, installed (s_w s0) d = true ->
                           installed (s_w (fold_left (dir_request_gen base_dir_program) l s0)) d = true).
  { induction l as [|e l IHl]; intros s0 H0; [exact H0|]. cbn [fold_left]. apply IHl. apply request_keeps_installed. exact H0. }
  destruct Hin as [<-|Hin].
  - apply K. apply requested_existing_installed. exact Ex.
  - apply IH; [exact Hin|]. rewrite stops_climb_request. exact Ex.
Qed.

(* ------------------------------------------------------------------------------------------ *)
(* the main theorem for the class, without the Covers hypothesis                                *)
(* ------------------------------------------------------------------------------------------ *)
Section Final.
  Variable rest : Type.
  Variable on_action : action -> path -> list fnode * rest -> list fnode * rest.
  Variable on_nglob_change : str -> list fnode * rest -> list fnode * rest.
  Variable matches : N -> path -> bool.
  Variable universe : list path.

  (* The class: finitely many directories ds, all existing and all handed to dir_loop, contain every path the
     rescan would look at: every declared file and every path an attached pattern accepts (so no pattern has a
     wildcard directory component: its accepted paths would not lie in finitely many requested directories; D10d). *)
  Theorem commit_equals_rescan_requested_class (g : gstate rest) (f0 : ffs) (ops : list fop) (s : sys) (ds : list path) :
    WellFormed rest matches g -> InSync rest matches universe g f0 -> matched_unowned rest matches universe g ->
    (forall d, In d ds -> stops_climb s d = true) ->
    (forall f, In f (g_files g) -> rescan_selected f = true -> In (parent (f_path f)) ds) ->
    (forall r p, In r (g_nglobs g) -> ng_attached r = true -> In p universe -> matches (ng_pat r) p = true ->
                 In (parent p) ds) ->
    let s' := fold_left (dir_request_gen base_dir_program) ds s in
    let watched := fun p => installed (s_w s') (parent p) in
    let f1 := run_ops f0 ops in
    let w := fold_changes (change_is_relevant rest matches g) (relevant_paths_under rest g)
                          (emitted watched f0 ops) ws_empty in
    watch_commit_gen rest on_action on_nglob_change f1 matches universe true g (ws_updated w) (ws_deleted w)
    = startup_rescan rest on_action on_nglob_change f1 (fun p => is_some (f1 p)) matches universe g.
  Proof.
    intros WF SY MU EX HF HR s' watched f1 w.
    apply watch_commit_equals_rescan_gen; [exact WF| |discriminate].
    apply (covers_from_file_history rest matches universe g f0 watched ops WF SY); [|exact MU].
    constructor.
    - intros f Hf RS. unfold watched. apply requested_existing_all_installed; [exact (HF f Hf RS)|].
      apply EX. exact (HF f Hf RS).
    - intros r p Hr Ar Hp Mp. unfold watched. apply requested_existing_all_installed; [exact (HR r p Hr Ar Hp Mp)|].
      apply EX. exact (HR r p Hr Ar Hp Mp).
  Qed.
End Final.

(* a concrete instance of the hypotheses of commit_equals_rescan_requested_class (non-vacuity): directory d exists and is
   requested; static d/a changes 1 -> 2, recorded match d/b is removed, d/c appears, is moved to d/b and back *)
Definition cx_d : path := [100].
Definition cx_a : path := [100;47;97].
Definition cx_b : path := [100;47;98].
Definition cx_c : path := [100;47;99].
Definition cx_g : gstate (list str) := mk_g [mk_fnode cx_a true FS_CONFIRMED (Some 1)] [mk_ng 0 [112] true [cx_b]] [].
Definition cx_f0 : ffs := fun p => if str_eqb p cx_a then Some 1 else if str_eqb p cx_b then Some 5 else None.
Definition cx_m : N -> path -> bool := fun _ p => pmem p [cx_b; cx_c].
Definition cx_u : list path := [cx_a; cx_b; cx_c].
Definition cx_s : sys := mk_sys [(1, cx_d)] 2 [(0, DOT)] [] [(DOT, true)] [].
Definition cx_ops : list fop := [FWrite cx_a 2; FRemove cx_b; FWrite cx_c 7; FMove cx_c cx_b; FMove cx_b cx_c].
Definition cx_A : action -> path -> list fnode * list str -> list fnode * list str := fun _ p x => (fst x, p :: snd x).
Definition cx_N : str -> list fnode * list str -> list fnode * list str := fun l x => (fst x, l :: snd x).

Lemma cx_hyps :
  WellFormed (list str) cx_m cx_g /\ InSync (list str) cx_m cx_u cx_g cx_f0 /\ matched_unowned (list str) cx_m cx_u cx_g /\
  (forall d, In d [cx_d] -> stops_climb cx_s d = true) /\
  (forall f, In f (g_files cx_g) -> rescan_selected f = true -> In (parent (f_path f)) [cx_d]) /\
  (forall r p, In r (g_nglobs cx_g) -> ng_attached r = true -> In p cx_u -> cx_m (ng_pat r) p = true -> In (parent p) [cx_d]).
Proof.
  split; [apply wf_b_sound; vm_compute; reflexivity|].
  split.
  { constructor.
    - intros f [<-|[]] _. reflexivity.
    - intros r p [<-|[]] _ Hp Mp. cbn in Hp. destruct Hp as [<-|[<-|[<-|[]]]]; try reflexivity; vm_compute in Mp; discriminate. }
  split.
  { intros r p fn [<-|[]] _ Hp Mp F. cbn in Hp. destruct Hp as [<-|[<-|[<-|[]]]]; vm_compute in Mp, F; congruence. }
  split; [intros d [<-|[]]; reflexivity|].
  split; [intros f [<-|[]] _; left; reflexivity|].
  intros r p [<-|[]] _ Hp _. cbn in Hp. destruct Hp as [<-|[<-|[<-|[]]]]; left; reflexivity.
Qed.

Lemma cx_value :
  let watched := fun p => installed (s_w (dir_requests cx_s [cx_d])) (parent p) in
  let f1 := run_ops cx_f0 cx_ops in
  let w := fold_changes (change_is_relevant (list str) cx_m cx_g) (relevant_paths_under (list str) cx_g)
                        (emitted watched cx_f0 cx_ops) ws_empty in
  installed (s_w (dir_requests cx_s [cx_d])) cx_d = true /\
  ws_updated w = [cx_c; cx_a] /\ ws_deleted w = [cx_b] /\
  startup_rescan (list str) cx_A cx_N f1 (fun p => is_some (f1 p)) cx_m cx_u cx_g
  = Some (mk_g [mk_fnode cx_a true FS_CONFIRMED (Some 2)] [mk_ng 0 [112] true [cx_c]] [[112]; cx_a]).
Proof. vm_compute. repeat split; reflexivity. Qed.
