(* proofs/CrashStarted.v -- C05: while the command of a step runs, no transaction of the build
   gives the step a stored hash or makes one of its products BUILT. *)
From Coq Require Import List NArith Bool Lia Arith PeanoNat.
From SV Require Import lib.Bytes lib.Closure model.Graph model.GraphInv gen.GenCrash model.Crash proofs.CrashProofs.
Import ListNotations.
Open Scope N_scope.

Lemma find_app_c05 {A} (p : A -> bool) l1 l2 :
  find p (l1 ++ l2) = match find p l1 with Some x => Some x | None => find p l2 end.
Proof. induction l1 as [|x l1 IH]; [reflexivity|]. cbn [app find]. destruct (p x); [reflexivity | exact IH]. Qed.

Section Started.
Variable l : str.

Definition prodf (g : str) (s : st) : Prop := In (KFile, g) (products (KStep, l) s).
Definition builtf (g : str) (s : st) : Prop := fstate_of g s = Some FBuilt.

Record K (s s' : st) : Prop := mkK {
  k_run : sstate_of l s = Some SRunning -> sstate_of l s' = Some SRunning;
  k_hash : has_hash l s' = true -> has_hash l s = true;
  k_nb : forall g, builtf g s' -> builtf g s;
  k_pg : forall g, prodf g s' -> prodf g s \/ ~ builtf g s' }.

Lemma K_refl s : K s s.
Proof. constructor; auto. Qed.
Lemma K_trans a b c : K a b -> K b c -> K a c.
Proof.
  intros [R1 H1 N1 P1] [R2 H2 N2 P2]. constructor; auto.
  intros g Hg. destruct (P2 g Hg) as [Hb|Hb]; [|right; exact Hb].
  destruct (P1 g Hb) as [Ha|Ha]; [left; exact Ha | right; intros C; apply Ha; apply N2; exact C].
Qed.

Lemma fstate_of_files s s' g : files s' = files s -> fstate_of g s' = fstate_of g s.
Proof. intros H. unfold fstate_of, find_file. rewrite H. reflexivity. Qed.
Lemma products_nodes s s' k : nodes s' = nodes s -> products k s' = products k s.
Proof. intros H. unfold products. rewrite H. reflexivity. Qed.
Lemma sstate_of_steps s s' x : steps s' = steps s -> sstate_of x s' = sstate_of x s.
Proof. intros H. unfold sstate_of, find_step. rewrite H. reflexivity. Qed.
Lemma has_hash_shash s s' x : shash s' = shash s -> has_hash x s' = has_hash x s.
Proof. intros H. unfold has_hash. rewrite H. reflexivity. Qed.

(* nothing relevant changed *)
Lemma K_tables s s' : nodes s' = nodes s -> files s' = files s ->
  (sstate_of l s = Some SRunning -> sstate_of l s' = Some SRunning) ->
  (has_hash l s' = true -> has_hash l s = true) -> K s s'.
Proof.
  intros Hn Hf Hr Hh. constructor; auto.
  - intros g. unfold builtf. rewrite (fstate_of_files _ _ _ Hf). auto.
  - intros g. unfold prodf. rewrite (products_nodes _ _ _ Hn). auto.
Qed.

Lemma K_frame s s' : frame s s' -> (sstate_of l s = Some SRunning -> sstate_of l s' = Some SRunning) -> K s s'.
Proof.
  intros F Hr. constructor; auto.
  - rewrite (frame_has_hash _ _ _ F). auto.
  - intros g. apply frame_built. exact F.
  - intros g. unfold prodf. rewrite (frame_products _ _ _ F). auto.
Qed.

(* ---- table lemmas ---------------------------------------------------------------------------- *)
Lemma set_fstate_hash_tabs p new hh s s' : set_fstate_hash p new hh s = Ok s' ->
  nodes s' = nodes s /\ steps s' = steps s /\ shash s' = shash s.
Proof.
  unfold set_fstate_hash. destruct (find_file p s); [|intros H; inversion H; auto].
  intros H. guards H. inversion H. auto.
Qed.
Lemma set_sstate_tabs x new d s s' : set_sstate x new d s = Ok s' ->
  nodes s' = nodes s /\ files s' = files s /\ shash s' = shash s.
Proof.
  unfold set_sstate. destruct (find_step x s); [|intros H; inversion H; auto].
  intros H. guards H. inversion H. auto.
Qed.

(* ---- state propagation never touches a RUNNING step -------------------------------------- *)
Lemma set_sstate_other x new d s s' : set_sstate x new d s = Ok s' -> x <> l -> sstate_of l s' = sstate_of l s.
Proof.
  intros H Hx. rewrite (sstate_of_set _ _ _ _ _ H l). destruct (str_eqb l x) eqn:E; [|reflexivity].
  apply str_eqb_eq in E. subst. contradiction.
Qed.

Lemma mark_keeps_running fuel :
  (forall x s s', mark_step_pending_f fuel x s = Ok s' -> sstate_of l s = Some SRunning -> sstate_of l s' = Some SRunning) /\
  (forall f s s', mark_file_outdated_f fuel f s = Ok s' -> sstate_of l s = Some SRunning -> sstate_of l s' = Some SRunning).
Proof.
  induction fuel as [|fuel [IHs IHf]]; [split; intros; discriminate|]. split.
  - intros x s s' H Hl. cbn [mark_step_pending_f] in H.
    destruct (sstate_of x s) as [old|] eqn:Eo; [|discriminate].
    assert (Hx : old <> SRunning -> x <> l) by (intros Hne C; subst x; rewrite Hl in Eo; inversion Eo; congruence).
    assert (Hgen : forall s1, set_sstate x SPending false s = Ok s1 -> x <> l ->
              foldM (fun s f => match fstate_of f s with
                                | Some FBuilt => mark_file_outdated_f fuel f s
                                | _ => Ok s end) (file_sinks_of_step x s1) s1 = Ok s' ->
              sstate_of l s' = Some SRunning).
    { intros s1 H1 Hne H2. assert (E1 : sstate_of l s1 = Some SRunning) by (rewrite (set_sstate_other _ _ _ _ _ H1 Hne); exact Hl).
      clear H1. revert E1 H2. generalize (file_sinks_of_step x s1). intros L. revert s1.
      induction L as [|f L IHL]; intros s1 E1 H2; cbn [foldM] in H2; [inversion H2; subst; exact E1|].
      apply bind_ok in H2. destruct H2 as [s2 [Ha Hb]]. apply (IHL s2); [|exact Hb].
      destruct (fstate_of f s1) as [[]|]; try (inversion Ha; subst; exact E1). eapply IHf; eassumption. }
    destruct old; try (inversion H; subst; exact Hl);
      apply bind_ok in H; destruct H as [s1 [H1 H2]].
    + inversion H2. subst. rewrite (set_sstate_other _ _ _ _ _ H1); [exact Hl | apply Hx; discriminate].
    + eapply Hgen; [exact H1 | apply Hx; discriminate | exact H2].
    + eapply Hgen; [exact H1 | apply Hx; discriminate | exact H2].
  - intros f s s' H Hl. cbn [mark_file_outdated_f] in H.
    destruct (fstate_of f s) as [[]|]; try discriminate; [|inversion H; subst; exact Hl].
    apply bind_ok in H. destruct H as [s1 [H1 H2]].
    assert (E1 : sstate_of l s1 = Some SRunning).
    { unfold set_fstate in H1. apply set_fstate_hash_tabs in H1. destruct H1 as [_ [Hs _]].
      rewrite (sstate_of_steps _ _ _ Hs). exact Hl. }
    clear H1. revert E1 H2. generalize (step_sinks_of_file f s1). intros L. revert s1.
    induction L as [|x L IHL]; intros s1 E1 H2; cbn [foldM] in H2; [inversion H2; subst; exact E1|].
    apply bind_ok in H2. destruct H2 as [s2 [Ha Hb]]. apply (IHL s2); [|exact Hb]. eapply IHs; eassumption.
Qed.

Lemma K_mark_step_pending x s s' : mark_step_pending x s = Ok s' -> K s s'.
Proof.
  intros H. apply K_frame; [apply mark_step_pending_rel in H; apply H|].
  unfold mark_step_pending in H. apply (proj1 (mark_keeps_running _) _ _ _ H).
Qed.
Lemma K_mark_file_outdated f s s' : mark_file_outdated f s = Ok s' -> K s s'.
Proof.
  intros H. apply K_frame; [apply mark_file_outdated_spec in H; apply H|].
  unfold mark_file_outdated in H. apply (proj2 (mark_keeps_running _) _ _ _ H).
Qed.
Lemma K_foldM {A} (f : st -> A -> res st) L :
  (forall s a s', In a L -> f s a = Ok s' -> K s s') -> forall s s', foldM f L s = Ok s' -> K s s'.
Proof. intros H. apply (foldM_rel K); [apply K_refl | apply K_trans | exact H]. Qed.
Lemma K_mark_consumers_pending f s s' : mark_consumers_pending f s = Ok s' -> K s s'.
Proof. unfold mark_consumers_pending. apply K_foldM. intros a b c _. apply K_mark_step_pending. Qed.


(* ---- node-only operations ---------------------------------------------------------------- *)
(* [X]: the one key that may become a product of the step (fixed up by the caller) *)
Record Kn (X : key) (s s' : st) : Prop := mkKn {
  kn_files : files s' = files s; kn_steps : steps s' = steps s;
  kn_shash : incl (shash s') (shash s);
  kn_pg : forall g, prodf g s' -> prodf g s \/ X = (KFile, g) }.

Lemma Kn_refl X s : Kn X s s.
Proof. constructor; auto. apply incl_refl. Qed.
Lemma Kn_trans X a b c : Kn X a b -> Kn X b c -> Kn X a c.
Proof.
  intros [F1 S1 H1 P1] [F2 S2 H2 P2]. constructor; try congruence.
  - eapply incl_tran; eassumption.
  - intros g Hg. destruct (P2 g Hg) as [Hb|Hb]; [apply P1; exact Hb | right; exact Hb].
Qed.

Lemma has_hash_incl x s s' : incl (shash s') (shash s) -> has_hash x s' = true -> has_hash x s = true.
Proof.
  intros Hi. unfold has_hash. rewrite !existsb_exists. intros [y [Hy E]]. exists y. split; [apply Hi; exact Hy | exact E].
Qed.

Lemma prodf_map (G : node -> node) X s g :
  (forall n, nk (G n) = nk n) ->
  (forall n, In n (nodes s) -> G n = n \/ ncre (G n) = None \/ nk n = X) ->
  prodf g (set_nodes s (map G (nodes s))) -> prodf g s \/ X = (KFile, g).
Proof.
  intros Hk HG. unfold prodf, products. cbn [nodes set_nodes]. rewrite !in_map_iff.
  intros [m [Em Hm]]. apply filter_In in Hm. destruct Hm as [Hm Hp]. apply in_map_iff in Hm.
  destruct Hm as [n [En Hn]]. subst m. rewrite Hk in Em. destruct (HG n Hn) as [E|[E|E]].
  - left. exists n. split; [exact Em|]. apply filter_In. split; [exact Hn|]. rewrite E in Hp. exact Hp.
  - rewrite E in Hp. cbn in Hp. discriminate.
  - right. congruence.
Qed.

Lemma Kn_upd_node X k F s :
  (forall n, nk (F n) = nk n) -> (k = X \/ forall n, ncre (F n) = None) -> Kn X s (upd_node k F s).
Proof.
  intros Hk HX. constructor; try reflexivity; [apply incl_refl|]. intros g. unfold upd_node.
  apply prodf_map.
  - intros n. destruct (key_eqb (nk n) k); [apply Hk | reflexivity].
  - intros n _. destruct (key_eqb (nk n) k) eqn:E; [|left; reflexivity]. apply key_eqb_eq in E.
    destruct HX as [HX|HX]; [right; right; congruence | right; left; apply HX].
Qed.

Lemma Kn_set_detached_rec X k b s : Kn X s (set_detached_rec k b s).
Proof.
  constructor; try reflexivity; [apply incl_refl|]. intros g Hg. left. revert Hg. unfold prodf, set_detached_rec, products.
  cbn [nodes set_nodes]. rewrite !in_map_iff. intros [m [Em Hm]]. apply filter_In in Hm. destruct Hm as [Hm Hp].
  apply in_map_iff in Hm. destruct Hm as [n [En Hn]]. exists n. subst m.
  destruct (mem_key (nk n) (rec_products k s)); cbn [nk ncre] in *; (split; [exact Em | apply filter_In; split; assumption]).
Qed.

Lemma Kn_node_detach X k s s' : node_detach k s = Ok s' -> Kn X s s'.
Proof.
  unfold node_detach. destruct (find_node k s) as [n|]; [|discriminate]. destruct (ncre n); [|intros H; inversion H; apply Kn_refl].
  intros H. inversion H. subst s'. clear H.
  assert (K1 : Kn X s (upd_node k (fun n0 => mkNode (nk n0) None true) s)) by (apply Kn_upd_node; [reflexivity | right; reflexivity]).
  destruct (ndet n); [exact K1|]. eapply Kn_trans; [exact K1 | apply Kn_set_detached_rec].
Qed.

Lemma Kn_delete_hash X x s : Kn X s (delete_hash x s).
Proof.
  constructor; try reflexivity; [|auto]. unfold delete_hash. cbn. intros y Hy. apply filter_In in Hy. apply Hy.
Qed.

Lemma Kn_after_lost_product X k s s' : after_lost_product k s = Ok s' -> Kn X s s'.
Proof.
  unfold after_lost_product. destruct (fst k); try discriminate; intros H; inversion H; [apply Kn_delete_hash | apply Kn_refl].
Qed.

Lemma Kn_set_deps X s x : Kn X s (set_deps s x).
Proof. constructor; try reflexivity; [apply incl_refl | auto]. Qed.

Lemma Kn_foldM {A} X (f : st -> A -> res st) L :
  (forall s a s', In a L -> f s a = Ok s' -> Kn X s s') -> forall s s', foldM f L s = Ok s' -> Kn X s s'.
Proof. intros H. apply (foldM_rel (Kn X)); [apply Kn_refl | apply Kn_trans | exact H]. Qed.

Lemma Kn_K X s s' : Kn X s s' -> (forall g, X <> (KFile, g)) -> K s s'.
Proof.
  intros [F S H P] HX. constructor.
  - rewrite (sstate_of_steps _ _ _ S). auto.
  - apply has_hash_incl. exact H.
  - intros g. unfold builtf. rewrite (fstate_of_files _ _ _ F). auto.
  - intros g Hg. destruct (P g Hg) as [Hp|Hp]; [left; exact Hp | exfalso; exact (HX g Hp)].
Qed.

Lemma K_node_detach k s s' : node_detach k s = Ok s' -> K s s'.
Proof. intros H. apply (Kn_K (KRoot, [])); [eapply Kn_node_detach; exact H | intros g C; inversion C]. Qed.

Lemma Kn_node_reattach k c s s' : node_reattach k c s = Ok s' -> Kn k s s'.
Proof.
  unfold node_reattach. destruct (find_node k s) as [n|]; [|discriminate]. destruct (find_node c s) as [cn|]; [|discriminate].
  intros H. guards H. apply bind_ok in H. destruct H as [s2 [H2 H]]. inversion H. subst s'. clear H.
  set (s1 := upd_node k (fun n0 => mkNode (nk n0) (Some c) (ndet cn)) s) in *.
  assert (K1 : Kn k s s1) by (apply Kn_upd_node; [reflexivity | left; reflexivity]).
  assert (K2 : Kn k s1 s2).
  { destruct (ncre n) as [oc|]; [|inversion H2; apply Kn_refl].
    guards H2. eapply Kn_after_lost_product. exact H2. }
  eapply Kn_trans; [exact K1 | eapply Kn_trans; [exact K2 | apply Kn_set_detached_rec]].
Qed.

(* ---- file rows ------------------------------------------------------------------------------ *)
Lemma fstate_of_upd_file p F s g : (forall r, fl (F r) = fl r) ->
  fstate_of g (upd_file p F s) =
  match find_file g s with Some r => Some (fstt (if str_eqb (fl r) p then F r else r)) | None => None end.
Proof.
  intros HF. unfold fstate_of, find_file, upd_file. cbn [files set_files].
  rewrite (find_map_upd fl); [|intros r; destruct (str_eqb (fl r) p); [apply HF | reflexivity]].
  destruct (find _ (files s)); reflexivity.
Qed.

Lemma set_fstate_hash_nb p new hh s s' : set_fstate_hash p new hh s = Ok s' ->
  (new = FBuilt -> builtf p s) -> forall g, builtf g s' -> builtf g s.
Proof.
  unfold set_fstate_hash. destruct (find_file p s) as [r0|] eqn:E0; [|intros H; inversion H; auto].
  intros H Hn. guards H. inversion H. subst s'. clear H.
  intros g. unfold builtf. rewrite fstate_of_upd_file; [|reflexivity].
  destruct (find_file g s) as [r|] eqn:Eg; [|unfold fstate_of; rewrite Eg; auto].
  destruct (str_eqb (fl r) p) eqn:Ep; [|unfold fstate_of; rewrite Eg; auto].
  cbn [fstt]. intros Hb. inversion Hb as [Hb']. specialize (Hn Hb').
  pose proof Eg as Eg'. unfold find_file in Eg'. apply find_some in Eg'. destruct Eg' as [_ Eg'].
  apply str_eqb_eq in Eg'. apply str_eqb_eq in Ep. rewrite <- Eg', Ep. exact Hn.
Qed.

Lemma set_fstate_hash_result p new hh s s' : set_fstate_hash p new hh s = Ok s' ->
  find_file p s <> None -> fstate_of p s' = Some new.
Proof.
  unfold set_fstate_hash. destruct (find_file p s) as [r0|] eqn:E0; [|intros _ C; contradiction].
  intros H _. guards H. inversion H. subst s'.
  rewrite fstate_of_upd_file; [|reflexivity]. rewrite E0. unfold find_file in E0. apply find_some in E0.
  destruct E0 as [_ E0]. rewrite E0. reflexivity.
Qed.

Lemma K_set_fstate_hash p new hh s s' : set_fstate_hash p new hh s = Ok s' ->
  (new = FBuilt -> builtf p s) -> K s s'.
Proof.
  intros H Hn. destruct (set_fstate_hash_tabs _ _ _ _ _ H) as [N [S Hs]]. constructor.
  - rewrite (sstate_of_steps _ _ _ S). auto.
  - rewrite (has_hash_shash _ _ _ Hs). auto.
  - eapply set_fstate_hash_nb; eassumption.
  - intros g. unfold prodf. rewrite (products_nodes _ _ _ N). auto.
Qed.

Lemma fir_shape f state s s' :
  (do s1 <- match find_file f s with
            | Some _ => set_fstate f state s
            | None =>
              if needs_hash state then Internal 111
              else if fstate_eqb state FUndeclared && negb (is_detached (KFile, f) s) then Internal 112
              else Ok (set_files s (files s ++ [mkF f state None]))
            end;
   match state with FBuilt => mark_file_outdated f s1 | _ => Ok s1 end) = Ok s' ->
  (state = FBuilt -> builtf f s) -> K s s' /\ ~ builtf f s'.
Proof.
  intros H Hst. apply bind_ok in H. destruct H as [s1 [H1 H]].
  assert (K1 : K s s1 /\ (state <> FBuilt -> ~ builtf f s1)).
  { destruct (find_file f s) as [r|] eqn:Ef.
    - unfold set_fstate in H1. split; [eapply K_set_fstate_hash; eassumption|].
      intros Hne. unfold builtf. rewrite (set_fstate_hash_result _ _ _ _ _ H1); [congruence | rewrite Ef; discriminate].
    - destruct (needs_hash state) eqn:En; [discriminate|]. destruct (_ && _); [discriminate|].
      inversion H1. subst s1. clear H1.
      assert (Hf : forall g, fstate_of g (set_files s (files s ++ [mkF f state None])) =
                             match fstate_of g s with Some x => Some x | None => if str_eqb f g then Some state else None end).
      { intros g. unfold fstate_of, find_file. cbn [files set_files]. rewrite find_app_c05.
        destruct (find _ (files s)); [reflexivity|]. cbn [find fl]. destruct (str_eqb f g); reflexivity. }
      split.
      + constructor; auto.
        intros g. unfold builtf. rewrite Hf. destruct (fstate_of g s); [auto|].
        destruct (str_eqb f g); [|discriminate]. intros C. inversion C as [C']. rewrite C' in En. discriminate.
      + intros Hne. unfold builtf. rewrite Hf. unfold fstate_of. rewrite Ef, str_eqb_refl. congruence. }
  destruct K1 as [K1 Hnb].
  destruct state eqn:Es; try (inversion H; subst s'; split; [exact K1 | apply Hnb; discriminate]).
  split; [eapply K_trans; [exact K1 | eapply K_mark_file_outdated; exact H]|].
  apply mark_file_outdated_spec in H. destruct H as [_ H]. unfold builtf. rewrite H. discriminate.
Qed.

Lemma file_initialize_row_K f req s s' : file_initialize_row f req s = Ok s' -> req <> FBuilt ->
  K s s' /\ ~ builtf f s'.
Proof.
  unfold file_initialize_row. cbv zeta. intros H Hreq. apply fir_shape in H; [exact H|].
  unfold builtf, fstate_of. destruct req; try congruence; destruct (find_file f s) as [r|]; try congruence;
    destruct (fstt r); congruence.
Qed.

(* ---- create and the declarations -------------------------------------------------------------- *)
Lemma Kn_then_K X s s1 s' : Kn X s s1 -> K s1 s' -> (forall g, X = (KFile, g) -> ~ builtf g s') -> K s s'.
Proof.
  intros [F S H P] [R Hh N Pg] HX. constructor.
  - intros Hl. apply R. rewrite (sstate_of_steps _ _ _ S). exact Hl.
  - intros Hl. apply (has_hash_incl _ _ _ H). apply Hh. exact Hl.
  - intros g Hb. apply N in Hb. unfold builtf in *. rewrite (fstate_of_files _ _ _ F) in Hb. exact Hb.
  - intros g Hg. destruct (Pg g Hg) as [Hp|Hp]; [|right; exact Hp].
    destruct (P g Hp) as [Hq|Hq]; [left; exact Hq | right; apply HX; exact Hq].
Qed.

Lemma Kn_append k cre det s : Kn k s (set_nodes s (nodes s ++ [mkNode k cre det])).
Proof.
  constructor; try reflexivity; [apply incl_refl|]. intros g. unfold prodf, products. cbn [nodes set_nodes].
  rewrite !in_map_iff. intros [m [Em Hm]]. apply filter_In in Hm. destruct Hm as [Hm Hp].
  apply in_app_or in Hm. destruct Hm as [Hm|[Hm|[]]].
  - left. exists m. split; [exact Em | apply filter_In; split; assumption].
  - right. subst m. cbn in Em. exact Em.
Qed.

Lemma step_initialize_row_other lab nd s s' : step_initialize_row lab nd s = Ok s' -> lab <> l ->
  sstate_of l s' = sstate_of l s.
Proof.
  unfold step_initialize_row. intros H Hne. inversion H. subst s'. clear H. unfold sstate_of, find_step. cbn [steps set_steps].
  rewrite find_app_c05.
  assert (E : find (fun r => str_eqb (sl r) l) (filter (fun r => negb (str_eqb (sl r) lab)) (steps s)) =
              find (fun r => str_eqb (sl r) l) (steps s)).
  { induction (steps s) as [|r rs IH]; [reflexivity|]. cbn [filter find].
    destruct (str_eqb (sl r) lab) eqn:E1; cbn [negb].
    - destruct (str_eqb (sl r) l) eqn:E2; [|exact IH]. apply str_eqb_eq in E1. apply str_eqb_eq in E2. congruence.
    - cbn [find]. destruct (str_eqb (sl r) l); [reflexivity | exact IH]. }
  rewrite E. destruct (find _ (steps s)); [reflexivity|]. cbn [find sl].
  destruct (str_eqb lab l) eqn:E3; [apply str_eqb_eq in E3; contradiction | reflexivity].
Qed.

Lemma create_K k cre arg s s' : create k cre arg s = Ok s' ->
  match arg with
  | InitFile req => fst k = KFile /\ req <> FBuilt
  | InitStep _ => fst k = KStep /\ snd k <> l
  | InitTree => fst k <> KFile
  end -> K s s'.
Proof.
  unfold create. intros H Harg. apply bind_ok in H. destruct H as [u [_ H]]. apply bind_ok in H. destruct H as [s1 [H1 H]].
  assert (N1 : Kn k s s1).
  { destruct (find_node k s) as [n|].
    - guards H1. apply bind_ok in H1. destruct H1 as [s2 [H2 H1]].
      match type of H2 with context [upd_node k ?F s] => set (sa := upd_node k F s) in * end.
      assert (Ka : Kn k s sa) by (apply Kn_upd_node; [reflexivity | left; reflexivity]).
      assert (Kb : Kn k sa s2).
      { destruct (ncre n) as [oc|]; [|inversion H2; apply Kn_refl].
        guards H2. eapply Kn_after_lost_product. exact H2. }
      assert (Kc : Kn k s2 (del_all_sources k s2)) by (unfold del_all_sources, del_deps_where; apply Kn_set_deps).
      assert (Kd : Kn k (del_all_sources k s2) s1).
      { revert H1. apply (Kn_foldM k). intros a b c _. apply Kn_node_detach. }
      eapply Kn_trans; [exact Ka|]. eapply Kn_trans; [exact Kb|]. eapply Kn_trans; [exact Kc | exact Kd].
    - inversion H1. apply Kn_append. }
  destruct arg as [req|nd|].
  - destruct Harg as [Hk Hreq]. apply file_initialize_row_K in H; [|exact Hreq]. destruct H as [K2 Hnb].
    eapply Kn_then_K; [exact N1 | exact K2|]. intros g Hg. rewrite Hg in Hnb. exact Hnb.
  - destruct Harg as [Hk Hne]. eapply Kn_then_K; [exact N1 | | intros g Hg; rewrite Hg in Hk; discriminate].
    pose proof (step_initialize_row_other _ _ _ _ H Hne) as E. unfold step_initialize_row in H. inversion H. subst s'.
    apply K_tables; try reflexivity; [rewrite E; auto | auto].
  - inversion H. subst s'. apply (Kn_K k); [exact N1|]. intros g Hg. apply Harg. rewrite Hg. reflexivity.
Qed.

Lemma declare_file_K c f st0 s s' : declare_file c f st0 s = Ok s' -> K s s'.
Proof.
  unfold declare_file. destruct st0; try discriminate; intros H; apply bind_ok in H; destruct H as [s1 [H1 H]];
    (apply create_K in H1; [|split; [reflexivity | discriminate]]).
  - inversion H. subst. exact H1.
  - inversion H. subst. exact H1.
  - destruct (attached_step_sinks f s1); [inversion H; subst; exact H1 | discriminate].
Qed.

Lemma declare_static_files_K c paths s s' : declare_static_files c paths s = Ok s' -> K s s'.
Proof.
  unfold declare_static_files. intros H. guards H. apply bind_ok in H. destruct H as [todo [_ H]].
  revert H. apply K_foldM. intros a b d _. apply declare_file_K.
Qed.

Lemma K_set_deps s x : K s (set_deps s x).
Proof. apply K_tables; auto. Qed.
Lemma K_set_envs s x : K s (set_envs s x).
Proof. apply K_tables; auto. Qed.

Lemma add_dep_K a b dyn s s' : add_dep a b dyn s = Ok s' -> K s s'.
Proof.
  unfold add_dep. intros H. guards H. inversion H. apply K_set_deps.
Qed.
Lemma add_output_edge_K st0 f dyn s s' : add_output_edge st0 f dyn s = Ok s' -> K s s'.
Proof. unfold add_output_edge. intros H. guards H. eapply add_dep_K. exact H. Qed.

Lemma add_env_K st0 name dyn rep s : K s (add_env st0 name dyn rep s).
Proof. unfold add_env. destruct (existsb _ _); [destruct rep; [apply K_set_envs | apply K_refl] | apply K_set_envs]. Qed.
Lemma fold_add_env_K st0 dyn rep env : forall s, K s (fold_left (fun s e => add_env st0 e dyn rep s) env s).
Proof.
  induction env as [|e env IH]; intros s; [apply K_refl|]. cbn [fold_left].
  eapply K_trans; [apply add_env_K | apply IH].
Qed.

Lemma resolve_supply_file_K st0 f rn s s1 b : resolve_supply_file st0 f rn s = Ok (s1, b) -> K s s1.
Proof.
  unfold resolve_supply_file. intros H. apply bind_ok in H. destruct H as [sx [Hx H]].
  assert (Kx : K s sx).
  { destruct (find_node (KFile, f) s) as [n|].
    - destruct (ncre n).
      + destruct (fstate_of f s) as [[]|]; try discriminate; inversion Hx; apply K_refl.
      + apply create_K in Hx; [exact Hx | split; [reflexivity | discriminate]].
    - apply create_K in Hx; [exact Hx | split; [reflexivity | discriminate]]. }
  guards H. inversion H. subst. exact Kx.
Qed.

Lemma supply_files_K st0 paths rn dyn s s' : supply_files st0 paths rn dyn s = Ok s' -> K s s'.
Proof.
  unfold supply_files. intros H. apply bind_ok in H. destruct H as [r [Hr H]].
  assert (Kr : K s (fst r)).
  { clear H. change s with (fst (s, @nil str)) at 1. revert Hr. generalize (s, @nil str). intros acc.
    revert acc. induction paths as [|p paths IH]; intros acc Hr; cbn [foldM] in Hr; [inversion Hr; apply K_refl|].
    apply bind_ok in Hr. destruct Hr as [acc1 [Ha Hb]]. apply bind_ok in Ha. destruct Ha as [[sx bx] [Hx Ha]].
    inversion Ha. subst acc1. clear Ha. apply IH in Hb. cbn [fst] in Hb.
    eapply K_trans; [eapply resolve_supply_file_K; exact Hx | exact Hb]. }
  cbv zeta in H. guards H.
  eapply K_trans; [exact Kr|]. revert H. apply K_foldM. intros a b c _. apply add_dep_K.
Qed.

Lemma declare_edge_fold_K k st0 fs0 dyn L : forall s s',
  foldM (fun s f => do s' <- declare_file k f fs0 s; add_output_edge st0 f dyn s') L s = Ok s' -> K s s'.
Proof.
  apply K_foldM. intros s a s' _ H. apply bind_ok in H. destruct H as [s1 [H1 H2]].
  eapply K_trans; [eapply declare_file_K; exact H1 | eapply add_output_edge_K; exact H2].
Qed.

Lemma define_step_new_K cre lab inp env out vol nd s s' :
  define_step_new cre lab inp env out vol nd s = Ok s' -> lab <> l -> K s s'.
Proof.
  unfold define_step_new. intros H Hne. apply bind_ok in H. destruct H as [u1 [_ H]].
  apply bind_ok in H. destruct H as [u2 [_ H]]. guards H.
  apply bind_ok in H. destruct H as [s1 [H1 H]]. apply bind_ok in H. destruct H as [s2 [H2 H]].
  cbv zeta in H. apply bind_ok in H. destruct H as [s4 [H4 H5]].
  eapply K_trans; [eapply create_K; [exact H1 | split; [reflexivity | exact Hne]]|].
  eapply K_trans; [eapply supply_files_K; exact H2|].
  eapply K_trans; [apply fold_add_env_K|].
  eapply K_trans; [eapply declare_edge_fold_K; exact H4 | eapply declare_edge_fold_K; exact H5].
Qed.

Lemma sstate_of_upd_step_keep x F s y : (forall r, sl (F r) = sl r /\ sst (F r) = sst r) ->
  sstate_of y (upd_step x F s) = sstate_of y s.
Proof.
  intros HF. unfold sstate_of, find_step, upd_step. cbn [steps set_steps].
  rewrite (find_map_upd sl); [|intros r; destruct (str_eqb (sl r) x); [apply HF | reflexivity]].
  destruct (find _ (steps s)) as [r|]; [|reflexivity]. destruct (str_eqb (sl r) x); [|reflexivity].
  f_equal. apply HF.
Qed.

Lemma upd_step_K x F s : (forall r, sl (F r) = sl r /\ sst (F r) = sst r) -> K s (upd_step x F s).
Proof. intros HF. apply K_tables; auto. rewrite sstate_of_upd_step_keep; auto. Qed.

Lemma define_step_K cre lab inp env out vol nd s s' :
  define_step cre lab inp env out vol nd s = Ok s' -> lab <> l -> K s s'.
Proof.
  unfold define_step. intros H Hne. guards H.
  destruct (find_node (KStep, lab) s) as [n|]; [|eapply define_step_new_K; eassumption].
  destruct (ndet n && can_recycle lab inp env out vol s).
  - apply bind_ok in H. destruct H as [s1 [H1 H]].
    assert (Ka : K s s1) by (apply (Kn_K (KStep, lab)); [eapply Kn_node_reattach; exact H1 | intros g C; inversion C]).
    match type of H with context [upd_step lab ?F s1] => set (s2 := upd_step lab F s1) in * end.
    assert (Kb : K s1 s2) by (apply upd_step_K; intros r; split; reflexivity).
    assert (Kc : K s2 s').
    { destruct (sstate_of lab s2) as [[]|]; try (inversion H; subst; apply K_refl). eapply K_mark_step_pending. exact H. }
    eapply K_trans; [exact Ka | eapply K_trans; [exact Kb | exact Kc]].
  - guards H. eapply define_step_new_K; eassumption.
Qed.

Lemma amend_step_K lab inp env out vol s s' : amend_step lab inp env out vol s = Ok s' -> K s s'.
Proof.
  unfold amend_step. intros H. guards H.
  apply bind_ok in H. destruct H as [s1 [H1 H]]. cbv zeta in H.
  apply bind_ok in H. destruct H as [o' [_ H]]. apply bind_ok in H. destruct H as [v' [_ H]].
  guards H. apply bind_ok in H. destruct H as [s3 [H3 H4]].
  eapply K_trans; [eapply supply_files_K; exact H1|].
  eapply K_trans; [apply fold_add_env_K|].
  eapply K_trans; [eapply declare_edge_fold_K; exact H3 | eapply declare_edge_fold_K; exact H4].
Qed.

(* ---- hash updates, reset_for_rerun, completion ---------------------------------------------- *)
Record Kw (s s' : st) : Prop := mkKw {
  w_run : sstate_of l s = Some SRunning -> sstate_of l s' = Some SRunning;
  w_hash : has_hash l s' = true -> has_hash l s = true;
  w_g : forall g, prodf g s' -> builtf g s' -> prodf g s /\ builtf g s }.

Lemma K_Kw s s' : K s s' -> Kw s s'.
Proof.
  intros [R H N P]. constructor; auto. intros g Hp Hb. destruct (P g Hp) as [Hq|Hq]; [|contradiction]. auto.
Qed.
Lemma Kw_trans a b c : Kw a b -> Kw b c -> Kw a c.
Proof.
  intros [R1 H1 G1] [R2 H2 G2]. constructor; auto. intros g Hp Hb. destruct (G2 g Hp Hb) as [Hp' Hb']. auto.
Qed.

Lemma transition_not_built c old k ns a : c <> CSucceeded -> transition c old k = Some (ns, a) -> ns <> FBuilt.
Proof. intros Hc. destruct c; try contradiction; destruct old, k; cbn; intros H; inversion H; discriminate. Qed.

Definition plan_fun (c : cause) (s : st) :=
  fun (acc : list planrow) (ph : str * option N) =>
    match find_file (fst ph) s with
    | None => Internal 118
    | Some r => match transition c (fstt r) (is_some (snd ph)) with
                | None => Internal 119
                | Some (ns, act) => Ok (acc ++ [mkP (fst ph) (snd ph) ns act])
                end
    end.

Lemma plan_spec c s hs : forall acc plan, foldM (plan_fun c s) hs acc = Ok plan ->
  map p_path plan = map p_path acc ++ map fst hs /\
  forall x, In x plan -> In x acc \/ exists old k a, transition c old k = Some (p_state x, a).
Proof.
  induction hs as [|ph hs IH]; intros acc plan H; cbn [foldM] in H.
  - inversion H. subst. rewrite app_nil_r. split; [reflexivity | auto].
  - apply bind_ok in H. destruct H as [acc1 [H1 H2]]. apply IH in H2. destruct H2 as [E P].
    unfold plan_fun in H1. destruct (find_file (fst ph) s) as [r|]; [|discriminate].
    destruct (transition c (fstt r) (is_some (snd ph))) as [[ns act]|] eqn:Et; [|discriminate].
    inversion H1. subst acc1. clear H1. split.
    + rewrite E, map_app. cbn [map p_path]. rewrite <- app_assoc. reflexivity.
    + intros x Hx. destruct (P x Hx) as [Hin|Hex]; [|right; exact Hex].
      apply in_app_or in Hin. destruct Hin as [Hin|[Hin|[]]]; [left; exact Hin|].
      right. subst x. cbn [p_state]. eauto.
Qed.

Lemma set_fstate_hash_other p new hh s s' g : set_fstate_hash p new hh s = Ok s' -> g <> p ->
  fstate_of g s' = fstate_of g s.
Proof.
  unfold set_fstate_hash. destruct (find_file p s); [|intros H; inversion H; reflexivity].
  intros H Hne. guards H. inversion H. subst s'.
  rewrite fstate_of_upd_file; [|reflexivity]. unfold fstate_of. destruct (find_file g s) as [r|] eqn:Eg; [|reflexivity].
  destruct (str_eqb (fl r) p) eqn:Ep; [|reflexivity]. exfalso. apply Hne.
  unfold find_file in Eg. apply find_some in Eg. destruct Eg as [_ Eg]. apply str_eqb_eq in Eg. apply str_eqb_eq in Ep. congruence.
Qed.

Definition set_plan := fun (s : st) (x : planrow) =>
  set_fstate_hash (p_path x) (p_state x) (Some (match p_hash x with Some v => Some v | None => Some 0 end)) s.

Lemma set_plan_tabs plan : forall s s', foldM set_plan plan s = Ok s' ->
  nodes s' = nodes s /\ steps s' = steps s /\ shash s' = shash s /\
  forall g, ~ In g (map p_path plan) -> fstate_of g s' = fstate_of g s.
Proof.
  induction plan as [|x plan IH]; intros s s' H; cbn [foldM] in H.
  - inversion H. auto.
  - apply bind_ok in H. destruct H as [s1 [H1 H2]]. apply IH in H2. destruct H2 as [A [B [C D]]].
    pose proof (set_fstate_hash_tabs _ _ _ _ _ H1) as [A1 [B1 C1]]. repeat split; try congruence.
    intros g Hg. rewrite D; [|intros Hin; apply Hg; right; exact Hin].
    eapply set_fstate_hash_other; [exact H1|]. intros E. apply Hg. left. symmetry. exact E.
Qed.

Lemma handle_updated_file_K f s s' : handle_updated_file f s = Ok s' -> K s s'.
Proof.
  unfold handle_updated_file. destruct (fstate_of f s) as [[]|]; intros H; try (inversion H; subst; apply K_refl).
  - eapply K_mark_consumers_pending. exact H.
  - destruct (step_creator_of_file f s); [eapply K_mark_step_pending; exact H | inversion H; subst; apply K_refl].
  - destruct (step_creator_of_file f s); [eapply K_mark_step_pending; exact H | inversion H; subst; apply K_refl].
Qed.
Lemma handle_deleted_file_K f s s' : handle_deleted_file f s = Ok s' -> K s s'.
Proof.
  unfold handle_deleted_file. intros H. apply bind_ok in H. destruct H as [s1 [H1 H2]].
  eapply K_trans; [|eapply K_mark_consumers_pending; exact H2].
  destruct (fstate_of f s) as [[]|]; try (inversion H1; subst; apply K_refl).
  destruct (step_creator_of_file f s); [eapply K_mark_step_pending; exact H1 | inversion H1; subst; apply K_refl].
Qed.

Lemma K_nodes_of_frame s s' : frame s s' -> nodes s' = nodes s.
Proof. intros [H _ _ _]. exact H. Qed.

(* the common shape of update_file_hashes *)
Lemma ufh_split c hs s s' : update_file_hashes c hs s = Ok s' ->
  exists plan s1, foldM (plan_fun c s) hs [] = Ok plan /\ foldM set_plan plan s = Ok s1 /\ K s1 s' /\ nodes s' = nodes s1.
Proof.
  unfold update_file_hashes. intros H. apply bind_ok in H. destruct H as [plan [Hp H]].
  apply bind_ok in H. destruct H as [s1 [H1 H]]. cbv zeta in H.
  apply bind_ok in H. destruct H as [s2 [H2 H]]. apply bind_ok in H. destruct H as [s3 [H3 H4]].
  exists plan, s1. split; [exact Hp|]. split; [exact H1|].
  assert (R2 : K s1 s2 /\ nodes s2 = nodes s1).
  { split; [revert H2; apply K_foldM; intros a b d _; apply handle_updated_file_K|].
    revert H2. apply (foldM_rel (fun a b => nodes b = nodes a)); [reflexivity | intros; congruence|].
    intros a f b _ Hh. apply handle_updated_file_rel in Hh. apply K_nodes_of_frame. apply Hh. }
  assert (R3 : K s2 s3 /\ nodes s3 = nodes s2).
  { split; [revert H3; apply K_foldM; intros a b d _; apply handle_deleted_file_K|].
    revert H3. apply (foldM_rel (fun a b => nodes b = nodes a)); [reflexivity | intros; congruence|].
    intros a f b _ Hh. apply handle_deleted_file_rel in Hh. apply K_nodes_of_frame. apply Hh. }
  assert (R4 : K s3 s' /\ nodes s' = nodes s3).
  { split; [revert H4; apply K_foldM; intros a b d _; apply K_mark_consumers_pending|].
    revert H4. apply (foldM_rel (fun a b => nodes b = nodes a)); [reflexivity | intros; congruence|].
    intros a f b _ Hh. apply mark_consumers_pending_rel in Hh. apply K_nodes_of_frame. apply Hh. }
  destruct R2 as [K2 N2], R3 as [K3 N3], R4 as [K4 N4]. split; [|congruence].
  eapply K_trans; [exact K2 | eapply K_trans; [exact K3 | exact K4]].
Qed.

Lemma ufh_nodes c hs s s' : update_file_hashes c hs s = Ok s' -> nodes s' = nodes s.
Proof.
  intros H. apply ufh_split in H. destruct H as [plan [s1 [_ [H1 [_ N]]]]]. apply set_plan_tabs in H1. destruct H1 as [A _]. congruence.
Qed.

Lemma ufh_K c hs s s' : update_file_hashes c hs s = Ok s' -> c <> CSucceeded -> K s s'.
Proof.
  intros H Hc. apply ufh_split in H. destruct H as [plan [s1 [Hp [H1 [K1 _]]]]].
  eapply K_trans; [|exact K1]. apply plan_spec in Hp. destruct Hp as [_ P].
  revert H1. apply K_foldM. intros a x b Hx Hs. unfold set_plan in Hs.
  eapply K_set_fstate_hash; [exact Hs|]. intros Hb. exfalso.
  destruct (P x Hx) as [[]|[old [k [act Ht]]]]. eapply transition_not_built; eassumption.
Qed.

Lemma ufh_Kw c hs s s' : update_file_hashes c hs s = Ok s' ->
  (forall p, In p (map fst hs) -> ~ prodf p s) -> Kw s s'.
Proof.
  intros H Hno. apply ufh_split in H. destruct H as [plan [s1 [Hp [H1 [K1 _]]]]].
  eapply Kw_trans; [|apply K_Kw; exact K1]. apply plan_spec in Hp. destruct Hp as [E _]. cbn [map app] in E.
  apply set_plan_tabs in H1. destruct H1 as [A [B [C D]]]. constructor.
  - rewrite (sstate_of_steps _ _ _ B). auto.
  - rewrite (has_hash_shash _ _ _ C). auto.
  - intros g Hp Hb. unfold prodf in *. rewrite (products_nodes _ _ _ A) in Hp. split; [exact Hp|].
    unfold builtf in *. rewrite D in Hb; [exact Hb|]. rewrite E. intros Hin. exact (Hno g Hin Hp).
Qed.

Lemma reset_for_rerun_K lab s s' : reset_for_rerun lab s = Ok s' -> K s s'.
Proof.
  unfold reset_for_rerun. cbv zeta. intros H.
  apply bind_ok in H. destruct H as [s3 [H3 H]]. apply bind_ok in H. destruct H as [s4 [H4 H]].
  apply bind_ok in H. destruct H as [s5 [H5 H]]. apply bind_ok in H. destruct H as [s6 [H6 H7]].
  match type of H3 with foldM _ _ ?x = _ => set (s2 := x) in * end.
  assert (K2 : K s s2).
  { unfold s2. eapply K_trans; [|apply K_set_envs]. unfold del_deps_where. apply K_set_deps. }
  assert (K3 : K s2 s3).
  { revert H3. apply K_foldM. intros a x b _ Hd. eapply K_trans; [|eapply K_node_detach; exact Hd].
    unfold del_deps_where. apply K_set_deps. }
  assert (K4 : K s3 s4) by (revert H4; unfold detach_created_steps; apply K_foldM; intros a x b _; apply K_node_detach).
  assert (K5 : K s4 s5) by (revert H5; apply K_foldM; intros a x b _; apply K_node_detach).
  assert (K6 : K s5 s6) by (revert H6; apply K_foldM; intros a x b _; apply K_node_detach).
  assert (K7 : K s6 s') by (revert H7; apply K_foldM; intros a x b _; apply K_mark_file_outdated).
  eapply K_trans; [exact K2|]. eapply K_trans; [exact K3|]. eapply K_trans; [exact K4|].
  eapply K_trans; [exact K5|]. eapply K_trans; [exact K6 | exact K7].
Qed.

Lemma K_set_sstate_other x new d s s' : set_sstate x new d s = Ok s' -> x <> l -> K s s'.
Proof.
  intros H Hne. destruct (set_sstate_tabs _ _ _ _ _ H) as [A [B C]]. apply K_tables; auto.
  - rewrite (set_sstate_other _ _ _ _ _ H Hne). auto.
  - rewrite (has_hash_shash _ _ _ C). auto.
Qed.

Lemma products_disjoint lab g s : nodup_by key_eqb (map nk (nodes s)) = true -> lab <> l ->
  In (KFile, g) (products (KStep, lab) s) -> ~ prodf g s.
Proof.
  intros Hnd Hne H1 H2. unfold prodf, products in *. apply in_map_iff in H1. apply in_map_iff in H2.
  destruct H1 as [n1 [E1 F1]], H2 as [n2 [E2 F2]]. apply filter_In in F1. apply filter_In in F2.
  destruct F1 as [I1 P1], F2 as [I2 P2].
  pose proof (nodup_find _ _ Hnd I1) as Q1. pose proof (nodup_find _ _ Hnd I2) as Q2.
  rewrite E1 in Q1. rewrite E2 in Q2. rewrite Q1 in Q2. inversion Q2. subst n2.
  apply andb_true_iff in P1. apply andb_true_iff in P2. destruct P1 as [P1 _], P2 as [P2 _].
  destruct (ncre n1) as [c|]; [|discriminate]. cbn [okey_eqb] in P1, P2.
  apply key_eqb_eq in P1. apply key_eqb_eq in P2. apply Hne. congruence.
Qed.

Lemma in_file_products lab p s f : In f (file_products_in lab p s) -> In (KFile, f) (products (KStep, lab) s).
Proof.
  unfold file_products_in. intros H. apply in_map_iff in H. destruct H as [k [E Hk]]. apply filter_In in Hk.
  destruct Hk as [Hk Hc]. apply andb_true_iff in Hc. destruct Hc as [Hc _]. apply kind_eqb_eq in Hc.
  destruct k as [kk kl]. cbn in *. subst. exact Hk.
Qed.

Lemma store_hash_other x s : x <> l -> has_hash l (store_hash x s) = has_hash l s.
Proof.
  intros Hne. unfold store_hash. destruct (has_hash x s); [reflexivity|]. unfold has_hash. cbn [shash set_shash existsb].
  destruct (str_eqb l x) eqn:E; [apply str_eqb_eq in E; congruence | reflexivity].
Qed.

Lemma built_fold_Kw L : forall s1 s2,
  foldM (fun s f => do s' <- set_fstate f FBuilt s; mark_consumers_pending f s') L s1 = Ok s2 ->
  (forall f, In f L -> ~ prodf f s1) -> Kw s1 s2.
Proof.
  induction L as [|f L IH]; intros s1 s2 H2 Hall; cbn [foldM] in H2.
  - inversion H2. subst. apply K_Kw. apply K_refl.
  - apply bind_ok in H2. destruct H2 as [sa [Ha Hb]]. apply bind_ok in Ha. destruct Ha as [sb [Hb1 Hb2]].
    assert (Kab : Kw s1 sa /\ nodes sa = nodes s1).
    { unfold set_fstate in Hb1. destruct (set_fstate_hash_tabs _ _ _ _ _ Hb1) as [A [B C]].
      pose proof (K_mark_consumers_pending _ _ _ Hb2) as Kc.
      apply mark_consumers_pending_rel in Hb2. pose proof (K_nodes_of_frame _ _ (mr_frame _ _ Hb2)) as Nc.
      split; [|congruence]. eapply Kw_trans; [|apply K_Kw; exact Kc]. constructor.
      - rewrite (sstate_of_steps _ _ _ B). auto.
      - rewrite (has_hash_shash _ _ _ C). auto.
      - intros g Hp Hbt. unfold prodf in *. rewrite (products_nodes _ _ _ A) in Hp. split; [exact Hp|].
        unfold builtf in *. rewrite (set_fstate_hash_other _ _ _ _ _ g Hb1) in Hbt; [exact Hbt|].
        intros E. subst g. exact (Hall f (or_introl eq_refl) Hp). }
    destruct Kab as [Kab Nab]. eapply Kw_trans; [exact Kab|]. apply IH; [exact Hb|].
    intros g Hg. unfold prodf. rewrite (products_nodes _ _ _ Nab). apply Hall. right. exact Hg.
Qed.

Lemma mark_completed_Kw lab ok wd s s'
 : mark_completed lab ok wd s = Ok s' -> lab <> l ->
  nodup_by key_eqb (map nk (nodes s)) = true -> Kw s s'.
Proof.
  unfold mark_completed. intros H Hne Hnd. guards H. destruct ok.
  - apply bind_ok in H. destruct H as [s1 [H1 H]]. apply bind_ok in H. destruct H as [s2 [H2 H]].
    inversion H. subst s'. clear H.
    pose proof (K_set_sstate_other _ _ _ _ _ H1 Hne) as K1.
    destruct (set_sstate_tabs _ _ _ _ _ H1) as [N1 _].
    assert (K2 : Kw s1 s2).
    { eapply built_fold_Kw; [exact H2|]. intros f Hf.
      apply (products_disjoint lab); [rewrite N1; exact Hnd | exact Hne | eapply in_file_products; exact Hf]. }
    eapply Kw_trans; [apply K_Kw; exact K1|]. eapply Kw_trans; [exact K2|].
    apply K_Kw. apply K_tables.
    + unfold store_hash. destruct (has_hash lab s2); reflexivity.
    + unfold store_hash. destruct (has_hash lab s2); reflexivity.
    + intros Hr. rewrite <- Hr. apply sstate_of_steps. unfold store_hash. destruct (has_hash lab s2); reflexivity.
    + rewrite (store_hash_other _ _ Hne). auto.
  - apply bind_ok in H. destruct H as [s1 [H1 H]]. apply bind_ok in H. destruct H as [s2 [H2 H]].
    apply bind_ok in H. destruct H as [s3 [H3 H]]. inversion H. subst s'. clear H. apply K_Kw.
    assert (K1 : K s s1).
    { revert H1. apply K_foldM. intros a f b _ Hs. unfold set_fstate in Hs. eapply K_set_fstate_hash; [exact Hs | discriminate]. }
    assert (K2 : K s1 s2).
    { destruct wd; [|eapply K_set_sstate_other; eassumption].
      destruct (find_step lab s1) as [r|]; [|discriminate]. cbv zeta in H2.
      match type of H2 with context [upd_step lab ?F s1] => set (sa := upd_step lab F s1) in * end.
      assert (Ka : K s1 sa) by (apply upd_step_K; intros r0; split; reflexivity).
      eapply K_trans; [exact Ka|]. destruct (_ <=? _); eapply K_set_sstate_other; eassumption. }
    assert (K3 : K s2 s3).
    { destruct (sstate_of lab s2) as [[]|]; try (inversion H3; subst; apply K_refl).
      revert H3. unfold detach_created_steps. apply K_foldM. intros a x b _. apply K_node_detach. }
    eapply K_trans; [exact K1|]. eapply K_trans; [exact K2|]. eapply K_trans; [exact K3|].
    apply (Kn_K (KRoot, [])); [apply Kn_delete_hash | intros g C; inversion C].
Qed.

End Started.

(* ---- the invariant of started steps over all transactions -------------------------------------- *)
Definition Jx (x : str) (s : st) : Prop :=
  sstate_of x s = Some SRunning /\ has_hash x s = false /\ built_products x s = [].
Definition J (started : list str) (s : st) : Prop := forall x, In x started -> Jx x s.

Lemma built_products_nil x s : built_products x s = [] <-> (forall g, prodf x g s -> ~ builtf g s).
Proof.
  unfold built_products, file_products_in, prodf, builtf. split.
  - intros H g Hp Hb.
    assert (X : In g (map snd (filter (fun k => kind_eqb (fst k) KFile &&
                       match fstate_of (snd k) s with Some f => is_built f | None => false end)
                      (products (KStep, x) s)))).
    { apply in_map_iff. exists (KFile, g). split; [reflexivity|]. apply filter_In. split; [exact Hp|].
      cbn [fst snd kind_eqb]. rewrite Hb. reflexivity. }
    rewrite H in X. destruct X.
  - intros H. match goal with |- map snd (filter ?q ?L) = [] => destruct (filter q L) as [|k rest] eqn:E; [reflexivity|] end. exfalso.
    assert (Hk : In k (k :: rest)) by (left; reflexivity). rewrite <- E in Hk. apply filter_In in Hk.
    destruct Hk as [Hin Hc]. apply andb_true_iff in Hc. destruct Hc as [Hkind Hb]. apply kind_eqb_eq in Hkind.
    destruct k as [kk g]. cbn in *. subst kk. apply (H g Hin).
    destruct (fstate_of g s) as [[]|]; try discriminate. reflexivity.
Qed.

Lemma Kw_Jx x s s' : Kw x s s' -> Jx x s -> Jx x s'.
Proof.
  intros [R H G] [J1 [J2 J3]]. split; [auto|]. split.
  - destruct (has_hash x s') eqn:E; [|reflexivity]. rewrite (H eq_refl) in J2. discriminate.
  - apply built_products_nil. intros g Hp Hb. destruct (G g Hp Hb) as [Hp' Hb'].
    exact (proj1 (built_products_nil x s) J3 g Hp' Hb').
Qed.

(* The protocol facts the invariant depends on (all of them hold in executor.py / scheduler.py /
   director.py, see design.d/C05.md):
   - pop_next_job dispatches PENDING steps; try_skip / validate jobs end CHECKING steps;
   - reset_for_rerun is issued for the step just dispatched as RUNNING (no stored hash);
   - a standalone hash-job result never has cause SUCCEEDED;
   - a completion (execute_job / try_skip_job) applies output hashes of its own step only: no path
     among them is a product of ANOTHER step whose command runs; node keys are unique (C09);
   - a step whose command runs is not redefined by another step's define_step;
   - delete_detached and reset_interrupted_steps run when no command runs. *)
Definition proto (started : list str) (s : st) (o : op) : Prop :=
  match o with
  | OpDispatch x => sstate_of x s = Some SPending
  | OpResetForRerun x => sstate_of x s = Some SRunning /\ has_hash x s = false
  | OpExecEnd x _ _ hs _ _ =>
    nodup_by key_eqb (map nk (nodes s)) = true /\
    forall y, In y started -> y <> x -> forall p, In p (map fst hs) -> ~ In (KFile, p) (products (KStep, y) s)
  | OpResetToPending x | OpValidatePending x => sstate_of x s = Some SChecking
  | OpDefineStep _ lab _ _ _ _ _ => ~ In lab started
  | OpUpdateHashes c _ => c <> CSucceeded
  | OpDeleteDetached | OpResetInterrupted => started = []
  | _ => True
  end.

Lemma neq_of_states x y s a b : sstate_of x s = Some a -> sstate_of y s = Some b -> a <> b -> x <> y.
Proof. intros H1 H2 Hne E. subst. rewrite H1 in H2. inversion H2. contradiction. Qed.

Theorem started_step started s o s' :
  J started s -> proto started s o -> step_op o s = Ok s' -> J (started_after o started) s'.
Proof.
  intros HJ Hp H.
  assert (Hkeep : (forall y, In y started -> Kw y s s') -> J started s').
  { intros HK y Hy. eapply Kw_Jx; [apply HK; exact Hy | apply HJ; exact Hy]. }
  destruct o; cbn [step_op] in H; cbn [started_after proto] in *.
  - (* declare_static *) apply Hkeep. intros y _. apply K_Kw. eapply declare_static_files_K. exact H.
  - (* update_hashes *) apply Hkeep. intros y _. apply K_Kw. eapply ufh_K; eassumption.
  - (* define_step *) apply Hkeep. intros y Hy. apply K_Kw. eapply define_step_K; [exact H|].
    intros E. subst. contradiction.
  - (* amend_step *) apply Hkeep. intros y _. apply K_Kw. eapply amend_step_K. exact H.
  - (* dispatch *) apply Hkeep. intros y Hy. apply K_Kw. eapply K_set_sstate_other; [exact H|].
    destruct (HJ y Hy) as [Hr _]. eapply neq_of_states; [exact Hp | exact Hr | discriminate].
  - (* reset_for_rerun *) intros y [Hy|Hy].
    + subst y. destruct Hp as [Hr Hh]. pose proof (reset_for_rerun_K label label _ _ H) as [R Hs _ _].
      split; [auto|]. split; [|eapply reset_for_rerun_post; exact H].
      destruct (has_hash label s') eqn:E; [|reflexivity]. rewrite (Hs eq_refl) in Hh. discriminate.
    + revert y Hy. apply Hkeep. intros z _. apply K_Kw. eapply reset_for_rerun_K. exact H.
  - (* exec_end *) intros y Hy. apply filter_In in Hy. destruct Hy as [Hy Hne].
    assert (Hyl : y <> label).
    { intros E. subst. rewrite str_eqb_refl in Hne. discriminate. }
    destruct Hp as [Hnd Hown]. apply bind_ok in H. destruct H as [s0 [H0 H]]. apply bind_ok in H. destruct H as [s1 [H1 H2]].
    eapply Kw_Jx; [|apply HJ; exact Hy].
    pose proof (ufh_nodes y _ _ _ _ H0) as N0. pose proof (ufh_nodes y _ _ _ _ H1) as N1.
    eapply Kw_trans; [apply K_Kw; eapply ufh_K; [exact H0 | discriminate]|].
    eapply Kw_trans; [eapply ufh_Kw; [exact H1|]|].
    + intros p Hin. unfold prodf. rewrite (products_nodes _ _ _ N0). apply (Hown y Hy Hyl p Hin).
    + eapply mark_completed_Kw; [exact H2 | intros E; apply Hyl; symmetry; exact E | rewrite N1, N0; exact Hnd].
  - (* reset_to_pending *) apply Hkeep. intros y Hy. apply bind_ok in H. destruct H as [s1 [H1 H2]].
    destruct (HJ y Hy) as [Hr _]. assert (Hne : label <> y) by (eapply neq_of_states; [exact Hp | exact Hr | discriminate]).
    apply K_Kw. eapply K_trans; [eapply reset_for_rerun_K; exact H1|].
    eapply K_trans; [apply (Kn_K y (KRoot, [])); [apply Kn_delete_hash | intros g C; inversion C]|].
    eapply K_set_sstate_other; eassumption.
  - (* validate_pending *) apply Hkeep. intros y Hy. destruct (HJ y Hy) as [Hr _]. apply K_Kw.
    eapply K_set_sstate_other; [exact H|]. eapply neq_of_states; [exact Hp | exact Hr | discriminate].
  - (* mark_step_pending *) apply Hkeep. intros y _. apply K_Kw. eapply K_mark_step_pending. exact H.
  - (* delete_detached *) subst started. intros y [].
  - (* hold *) apply Hkeep. intros y _. apply K_Kw. unfold hold in H. guards H.
    inversion H. apply upd_step_K. intros r. split; reflexivity.
  - (* release *) apply Hkeep. intros y _. apply K_Kw. unfold release in H. destruct (find_step label s); [|discriminate].
    guards H. inversion H. apply upd_step_K. intros r. split; reflexivity.
  - (* reset_interrupted *) subst started. intros y [].
Qed.

(* histories: a rejected or failed transaction is rolled back and changes neither the stored
   workflow nor the set of running commands *)
Fixpoint run_started (ops : list op) (s : st) (started : list str) : st * list str :=
  match ops with
  | [] => (s, started)
  | o :: ops' => match step_op o s with
                 | Ok s' => run_started ops' s' (started_after o started)
                 | _ => run_started ops' s started
                 end
  end.
Fixpoint proto_run (ops : list op) (s : st) (started : list str) : Prop :=
  match ops with
  | [] => True
  | o :: ops' => proto started s o /\
                 match step_op o s with
                 | Ok s' => proto_run ops' s' (started_after o started)
                 | _ => proto_run ops' s started
                 end
  end.

Lemma run_started_state ops : forall s started, fst (run_started ops s started) = run_ops ops s.
Proof.
  induction ops as [|o ops IH]; intros s started; [reflexivity|]. cbn [run_started run_ops fold_left]. unfold apply_op.
  destruct (step_op o s); apply IH.
Qed.

Theorem started_invariant ops : forall s started,
  J started s -> proto_run ops s started ->
  J (snd (run_started ops s started)) (run_ops ops s).
Proof.
  induction ops as [|o ops IH]; intros s started HJ Hp; [exact HJ|].
  cbn [proto_run] in Hp. destruct Hp as [Hp1 Hp2]. cbn [run_started run_ops fold_left]. unfold apply_op.
  destruct (step_op o s) as [s'|t|t] eqn:E; try (apply IH; assumption).
  apply IH; [|exact Hp2]. eapply started_step; eassumption.
Qed.

Lemma J_nil s : J [] s.
Proof. intros x []. Qed.

(* from the empty workflow: whatever the history, as long as it respects the protocol *)
Corollary started_invariant_init cap ops :
  proto_run ops (init_st cap) [] ->
  J (snd (run_started ops (init_st cap) [])) (run_ops ops (init_st cap)).
Proof. intros H. apply started_invariant; [apply J_nil | exact H]. Qed.

(* ... and what the restart then knows about every step whose command was running at the kill *)
Corollary started_then_crash cap ops x s' :
  proto_run ops (init_st cap) [] -> In x (snd (run_started ops (init_st cap) [])) ->
  nodup_by str_eqb (map sl (steps (run_ops ops (init_st cap)))) = true ->
  reset_interrupted (run_ops ops (init_st cap)) = Ok s' ->
  has_hash x s' = false /\ built_products x s' = [] /\
  (sstate_of x s' = Some SPending \/ sstate_of x s' = Some SFailed).
Proof.
  intros Hp Hx Hnd Hr. destruct (started_invariant_init cap ops Hp x Hx) as [J1 [J2 J3]].
  destruct (reset_interrupted_post _ _ Hnd Hr) as [_ [F [HR _]]]. split; [|split].
  - rewrite (frame_has_hash _ _ _ F). exact J2.
  - apply (frame_built_products _ _ _ F J3).
  - destruct (HR x J1) as [E|[E _]]; [left | right]; exact E.
Qed.

(* non-vacuity: the first build of the D6 witness up to the moment the command of "mk a" runs *)
Definition started_example : list op := firstn 7 d6_history.
Lemma started_example_ok :
  proto_run started_example (init_st 100) [] /\
  snd (run_started started_example (init_st 100) []) = [s_mka].
Proof.
  split; [|vm_compute; reflexivity].
  unfold started_example, d6_history. cbn [firstn].
  repeat (cbn [proto_run]; split;
          [vm_compute; first [ exact I | reflexivity | (split; reflexivity) | (intros [C|[]]; discriminate C)
                             | (intros C; discriminate C) | (intros C; destruct C) | (split; [reflexivity | intros ? ? ? ? []]) ]|];
          match goal with |- match step_op ?o ?s with _ => _ end => let r := eval vm_compute in (step_op o s) in
             change (step_op o s) with r; cbv iota beta end).
  exact I.
Qed.
