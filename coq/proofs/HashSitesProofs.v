(* C13, call sites: the ingredient maps that executor.py hands to StepHash.from_inp determine the
   system-level configuration of the step (site_cfg is injective up to cfg_equiv / sys_equiv), and
   the composition with the injectivity of the pre-image. *)
From Coq Require Import List NArith Bool Permutation Lia Arith.
From SV Require Import lib.Bytes lib.KeySort model.HashTypes gen.GenHash model.Hash proofs.HashProofs
  model.HashSiteTypes gen.GenHashSites model.HashSites.
Import ListNotations.
Open Scope N_scope.

(* ---------- the generated definitions have the shape the proofs are written for ---------- *)
Lemma adjust_label_shape c w :
  adjust_label c w = if str_eqb w wd_default then c else c ++ wd_marker ++ w.
Proof. unfold adjust_label. destruct (str_eqb w wd_default); reflexivity. Qed.

Lemma label_rejected_shape c : label_rejected c = has_infix wd_marker c.
Proof. reflexivity. Qed.

Lemma run_env_base_shape s : run_env_base s = sys_infra s ++ sys_environ s.
Proof. reflexivity. Qed.

(* The tie between the call site and the specification: the environment map handed to from_inp
   holds, for every tracked name, the value the command of the step will see (None exactly when
   the variable is not defined), the label is the one derived from command and working
   directory, and the other ingredients are passed unchanged.  Breaks (here) when a call site
   looks the variables up elsewhere, maps empty to None, defaults, filters, ... *)
Lemma site_inp_cfg_shape s :
  site_inp_cfg s
  = mk_cfg (adjust_label (sys_command s) (sys_workdir s)) (sys_shell s) (sys_inps s)
           (map (fun name => (name, effective_env s name)) (sys_env_deps s)) (sys_ovrs s).
Proof. reflexivity. Qed.

(* both call sites build the same configuration *)
Lemma site_full_same s : site_full_cfg s = site_inp_cfg s.
Proof. reflexivity. Qed.

Lemma site_outs_shape s : site_out_outs s = sys_outs s /\ site_full_outs s = sys_outs s.
Proof. split; reflexivity. Qed.

Lemma marker_unbordered : unbordered wd_marker = true.
Proof. vm_compute. reflexivity. Qed.

Lemma marker_nonempty : wd_marker <> [].
Proof. intro E. apply (f_equal (@length N)) in E. vm_compute in E. discriminate. Qed.

Lemma marker_nul_free : nul_free wd_marker = true.
Proof. vm_compute. reflexivity. Qed.

(* ---------- substrings ---------- *)
Lemma has_infix_cons p x s : has_infix p (x :: s) = is_prefix p (x :: s) || has_infix p s.
Proof. reflexivity. Qed.

Lemma has_infix_prefix p l : has_infix p (p ++ l) = true.
Proof.
  destruct (p ++ l) eqn:E.
  - destruct p; [reflexivity|discriminate].
  - rewrite has_infix_cons, <- E, is_prefix_app. reflexivity.
Qed.

Lemma has_infix_self p : has_infix p p = true.
Proof. pose proof (has_infix_prefix p []) as H. rewrite app_nil_r in H. exact H. Qed.

Lemma has_infix_app p a b : has_infix p (a ++ p ++ b) = true.
Proof.
  induction a as [|x a IH]; [cbn [app]; apply has_infix_prefix|].
  cbn [app]. rewrite has_infix_cons, IH. apply orb_true_r.
Qed.

Lemma has_infix_tail p x s : has_infix p (x :: s) = false -> has_infix p s = false.
Proof. rewrite has_infix_cons. intros H. apply orb_false_elim in H. apply H. Qed.

Lemma prefix_of_shorter (l w1 p w2 : str) :
  l ++ w1 = p ++ w2 -> (length l <= length p)%nat -> exists t, p = l ++ t.
Proof.
  revert p. induction l as [|x l IH]; intros p E L.
  - exists p. reflexivity.
  - destruct p as [|y p]; [cbn [length] in L; lia|].
    cbn [app] in E. injection E as -> E. cbn [length] in L.
    destruct (IH p E ltac:(lia)) as [t ->]. exists t. reflexivity.
Qed.

Lemma unbordered_spec p c l :
  unbordered p = true -> p = c ++ l -> c <> [] -> l <> [] -> is_prefix l p = false.
Proof.
  intros U -> Hc Hl. unfold unbordered in U. rewrite forallb_forall in U.
  assert (Hin : In (length c) (seq 1 (length (c ++ l) - 1))).
  { apply in_seq. rewrite app_length. destruct c; [congruence|]. destruct l; [congruence|].
    cbn [length]. lia. }
  specialize (U _ Hin). rewrite skipn_app, skipn_all, Nat.sub_diag in U. cbn [skipn app] in U.
  apply negb_true_iff in U. exact U.
Qed.

(* a separator without border cannot start inside c and end in the separator that follows c *)
Lemma marker_not_inside sep c w1 w2 :
  unbordered sep = true -> c <> [] -> has_infix sep c = false ->
  sep ++ w1 = c ++ sep ++ w2 -> False.
Proof.
  intros U Hc Hn E.
  apply app_eq_app in E. destruct E as [l [[E1 E2]|[E1 E2]]].
  - destruct l as [|y l].
    + rewrite app_nil_r in E1. subst c.
      rewrite has_infix_self in Hn. discriminate.
    + assert (P : is_prefix (y :: l) sep = true).
      { apply is_prefix_spec. apply (prefix_of_shorter _ w1 _ w2); [symmetry; exact E2|].
        rewrite E1, app_length. lia. }
      rewrite (unbordered_spec sep c (y :: l) U E1 Hc) in P; discriminate.
  - subst c. rewrite has_infix_prefix in Hn. discriminate.
Qed.

Lemma sep_split_unique sep :
  unbordered sep = true ->
  forall c1 c2 w1 w2,
    has_infix sep c1 = false -> has_infix sep c2 = false ->
    c1 ++ sep ++ w1 = c2 ++ sep ++ w2 -> c1 = c2 /\ w1 = w2.
Proof.
  intros U. induction c1 as [|a c1 IH]; intros c2 w1 w2 H1 H2 E.
  - destruct c2 as [|b c2].
    + cbn [app] in E. apply app_inv_head in E. split; [reflexivity|exact E].
    + exfalso. apply (marker_not_inside sep (b :: c2) w1 w2 U); [discriminate|exact H2|exact E].
  - destruct c2 as [|b c2].
    + exfalso. apply (marker_not_inside sep (a :: c1) w2 w1 U); [discriminate|exact H1|].
      symmetry. exact E.
    + cbn [app] in E. injection E as -> E.
      apply has_infix_tail in H1. apply has_infix_tail in H2.
      destruct (IH c2 w1 w2 H1 H2 E) as [-> ->]. split; reflexivity.
Qed.

(* ---------- command and working directory are determined by the label ---------- *)
Theorem adjust_label_inj c1 w1 c2 w2 :
  label_rejected c1 = false -> label_rejected c2 = false ->
  adjust_label c1 w1 = adjust_label c2 w2 -> c1 = c2 /\ w1 = w2.
Proof.
  intros R1 R2. rewrite label_rejected_shape in R1. rewrite label_rejected_shape in R2.
  rewrite !adjust_label_shape.
  destruct (str_eqb w1 wd_default) eqn:D1; destruct (str_eqb w2 wd_default) eqn:D2; intros E.
  - apply str_eqb_eq in D1. apply str_eqb_eq in D2. subst. split; reflexivity.
  - exfalso. subst c1. rewrite has_infix_app in R1. discriminate.
  - exfalso. subst c2. rewrite has_infix_app in R2. discriminate.
  - apply (sep_split_unique wd_marker marker_unbordered); assumption.
Qed.

(* ---------- well-formedness carries over ---------- *)
Lemma nul_free_app a b : nul_free (a ++ b) = nul_free a && nul_free b.
Proof. unfold nul_free. apply forallb_app. Qed.

Lemma lookup_some_in {V} k (v : V) l : lookup k l = Some v -> In (k, v) l.
Proof.
  induction l as [|[k' v'] l IH]; cbn [lookup fst snd]; [discriminate|].
  destruct (str_eqb k k') eqn:E.
  - apply str_eqb_eq in E. subst k'. intros H. injection H as ->. left. reflexivity.
  - intros H. right. apply IH. exact H.
Qed.

Ltac split_andb :=
  repeat match goal with
         | H : _ && _ = true |- _ => apply andb_true_iff in H; destruct H
         end.

Lemma sys_wf_label s : sys_wf s = true -> label_rejected (sys_command s) = false.
Proof. unfold sys_wf. intros W. split_andb. apply negb_true_iff. assumption. Qed.

Theorem site_wf s : sys_wf s = true -> wf (site_inp_cfg s) = true.
Proof.
  intros W. rewrite site_inp_cfg_shape. unfold sys_wf in W. split_andb.
  unfold wf. cbn [cfg_label cfg_inps cfg_envs cfg_ovrs].
  apply andb_true_iff; split; [apply andb_true_iff; split; [apply andb_true_iff; split|]|].
  - rewrite adjust_label_shape. destruct (str_eqb (sys_workdir s) wd_default); [assumption|].
    rewrite !nul_free_app, marker_nul_free.
    repeat (apply andb_true_iff; split); try assumption; reflexivity.
  - assumption.
  - apply andb_true_iff; split.
    + unfold nodup_keys. rewrite map_map. cbn [fst]. rewrite map_id. assumption.
    + apply forallb_forall. intros [n v] Hin. apply in_map_iff in Hin.
      destruct Hin as [m [Hm Hin]]. injection Hm as -> <-.
      unfold wf_env. cbn [fst snd]. apply andb_true_iff. split.
      * match goal with H : forallb nul_free (sys_env_deps s) = true |- _ =>
          rewrite forallb_forall in H; apply H; exact Hin end.
      * destruct (effective_env s n) as [v|] eqn:Ev; [|reflexivity].
        unfold effective_env in Ev. rewrite run_env_base_shape in Ev.
        apply lookup_some_in in Ev. apply in_app_or in Ev.
        assert (Hw : wf_env_entry (n, v) = true).
        { destruct Ev as [Ev|Ev];
            match goal with
            | H : forallb wf_env_entry ?l = true, Ev : In _ ?l |- _ =>
                rewrite forallb_forall in H; apply H; exact Ev
            end. }
        unfold wf_env_entry in Hw. cbn [fst snd] in Hw. apply andb_true_iff in Hw. apply Hw.
  - apply andb_true_iff; split; assumption.
Qed.

(* ---------- the ingredient maps determine the system-level configuration ---------- *)
Theorem site_cfg_injective s1 s2 :
  sys_wf s1 = true -> sys_wf s2 = true ->
  cfg_equiv (site_inp_cfg s1) (site_inp_cfg s2) -> sys_equiv s1 s2.
Proof.
  intros W1 W2. rewrite !site_inp_cfg_shape. unfold cfg_equiv.
  cbn [cfg_label cfg_shell cfg_inps cfg_envs cfg_ovrs].
  intros [El [Es [Pi [Pe Po]]]].
  destruct (adjust_label_inj _ _ _ _ (sys_wf_label _ W1) (sys_wf_label _ W2) El) as [Ec Ew].
  unfold sys_equiv. repeat split; try assumption.
  - apply (Permutation_map fst) in Pe. rewrite !map_map in Pe. cbn [fst] in Pe.
    rewrite !map_id in Pe. exact Pe.
  - intros name Hin.
    assert (H : In (name, effective_env s1 name)
                   (map (fun n => (n, effective_env s2 n)) (sys_env_deps s2))).
    { eapply Permutation_in; [exact Pe|]. apply in_map_iff. exists name. split; [reflexivity|exact Hin]. }
    apply in_map_iff in H. destruct H as [m [Hm _]]. injection Hm as -> Hv. symmetry. exact Hv.
Qed.

(* ... and conversely: the same system-level configuration gives equivalent ingredient maps *)
Theorem site_cfg_respects s1 s2 :
  sys_equiv s1 s2 -> cfg_equiv (site_inp_cfg s1) (site_inp_cfg s2).
Proof.
  intros [Ec [Ew [Es [Pi [Pd [Pv Po]]]]]]. rewrite !site_inp_cfg_shape. unfold cfg_equiv.
  cbn [cfg_label cfg_shell cfg_inps cfg_envs cfg_ovrs]. rewrite Ec, Ew.
  repeat split; try assumption.
  rewrite (map_ext_in _ (fun n => (n, effective_env s2 n))).
  - apply Permutation_map. exact Pd.
  - intros n Hn. rewrite (Pv n Hn). reflexivity.
Qed.

(* ---------- composition with the injectivity of the pre-image ---------- *)
Theorem site_inp_injective md s1 s2 :
  sys_wf s1 = true -> sys_wf s2 = true ->
  inp_ok md (site_inp_cfg s1) = true -> inp_ok md (site_inp_cfg s2) = true ->
  inp_preimage (site_inp_cfg s1) = inp_preimage (site_inp_cfg s2) -> sys_equiv s1 s2.
Proof.
  intros W1 W2 O1 O2 E. apply site_cfg_injective; [exact W1|exact W2|].
  apply (inp_preimage_injective md); try assumption; apply site_wf; assumption.
Qed.

Theorem site_full_injective md s1 s2 :
  sys_wf s1 = true -> sys_wf s2 = true ->
  inp_ok md (site_full_cfg s1) = true -> inp_ok md (site_full_cfg s2) = true ->
  inp_preimage (site_full_cfg s1) = inp_preimage (site_full_cfg s2) -> sys_equiv s1 s2.
Proof. pose proof (site_full_same s1) as F1. pose proof (site_full_same s2) as F2. rewrite ?F1, ?F2. apply site_inp_injective. Qed.

(* a digest computed before the command ran (CHECKING / the digest stored in the environment)
   and one computed afterwards by the other call site are comparable *)
Theorem site_inp_full_injective md s1 s2 :
  sys_wf s1 = true -> sys_wf s2 = true ->
  inp_ok md (site_inp_cfg s1) = true -> inp_ok md (site_full_cfg s2) = true ->
  inp_preimage (site_inp_cfg s1) = inp_preimage (site_full_cfg s2) -> sys_equiv s1 s2.
Proof. pose proof (site_full_same s1) as F1. pose proof (site_full_same s2) as F2. rewrite ?F1, ?F2. apply site_inp_injective. Qed.

Theorem site_inp_order_independent s1 s2 :
  sys_wf s1 = true -> sys_equiv s1 s2 ->
  inp_preimage (site_inp_cfg s1) = inp_preimage (site_inp_cfg s2).
Proof.
  intros W Eq. pose proof (site_wf _ W) as Wc. unfold wf in Wc.
  unfold wf_files in Wc. split_andb.
  apply inp_order_independent; try assumption. apply site_cfg_respects. exact Eq.
Qed.

Theorem site_out_injective md s1 s2 :
  wf_files (sys_outs s1) = true -> wf_files (sys_outs s2) = true ->
  digests_ok md (sys_outs s1) = true -> digests_ok md (sys_outs s2) = true ->
  out_preimage (site_out_outs s1) = out_preimage (site_out_outs s2) -> sys_out_equiv s1 s2.
Proof. intros. unfold sys_out_equiv. apply (out_preimage_injective md); assumption. Qed.

(* On the current encoding (override section opened by a bytes word, D2b repaired) the extra
   hypothesis inp_ok holds for every configuration the executor hashes: its inputs exist. *)
Lemma inp_ok_fixed_known s :
  kw_ovr_is_str = false -> sys_inputs_known s = true -> inp_ok Fixed (site_inp_cfg s) = true.
Proof.
  intros K Hk. unfold inp_ok. rewrite (env_names_ok_when_repaired _ K).
  rewrite site_inp_cfg_shape. cbn [cfg_inps].
  assert (D : digests_ok Fixed (sys_inps s) = true).
  { unfold digests_ok. apply forallb_forall. intros e He. unfold sys_inputs_known in Hk.
    rewrite forallb_forall in Hk. specialize (Hk e He). unfold dig_ok. rewrite Hk. apply orb_true_r. }
  rewrite D. reflexivity.
Qed.

Theorem site_inp_injective_known s1 s2 :
  kw_ovr_is_str = false ->
  sys_wf s1 = true -> sys_wf s2 = true ->
  sys_inputs_known s1 = true -> sys_inputs_known s2 = true ->
  inp_preimage (site_inp_cfg s1) = inp_preimage (site_inp_cfg s2) -> sys_equiv s1 s2.
Proof.
  intros K W1 W2 K1 K2. apply (site_inp_injective Fixed); try assumption; apply inp_ok_fixed_known; assumption.
Qed.

(* ---------- the clauses of the property, one ingredient at a time ---------- *)
Section Differ.
  Variables (md : dmode) (s1 s2 : syscfg).
  Hypothesis W1 : sys_wf s1 = true.
  Hypothesis W2 : sys_wf s2 = true.
  Hypothesis O1 : inp_ok md (site_inp_cfg s1) = true.
  Hypothesis O2 : inp_ok md (site_inp_cfg s2) = true.

  Let P := inp_preimage (site_inp_cfg s1) <> inp_preimage (site_inp_cfg s2).

  Lemma differ_gen : ~ sys_equiv s1 s2 -> P.
  Proof. intros N E. apply N. apply (site_inp_injective md); assumption. Qed.

  Theorem differ_command : sys_command s1 <> sys_command s2 -> P.
  Proof. intros N. apply differ_gen. intros Q. apply N, Q. Qed.

  Theorem differ_workdir : sys_workdir s1 <> sys_workdir s2 -> P.
  Proof. intros N. apply differ_gen. intros Q. apply N, Q. Qed.

  Theorem differ_shell : sys_shell s1 <> sys_shell s2 -> P.
  Proof. intros N. apply differ_gen. intros Q. apply N, Q. Qed.

  Theorem differ_inputs : ~ Permutation (sys_inps s1) (sys_inps s2) -> P.
  Proof. intros N. apply differ_gen. intros Q. apply N, Q. Qed.

  Theorem differ_tracked_set : ~ Permutation (sys_env_deps s1) (sys_env_deps s2) -> P.
  Proof. intros N. apply differ_gen. intros Q. apply N, Q. Qed.

  (* value or definedness of a tracked variable: None (not defined) differs from Some [] *)
  Theorem differ_env name :
    In name (sys_env_deps s1) -> effective_env s1 name <> effective_env s2 name -> P.
  Proof.
    intros Hin N. apply differ_gen. intros Q. apply N.
    destruct Q as [_ [_ [_ [_ [_ [Hv _]]]]]]. apply Hv. exact Hin.
  Qed.

  Theorem differ_overrides : ~ Permutation (sys_ovrs s1) (sys_ovrs s2) -> P.
  Proof. intros N. apply differ_gen. intros Q. apply N, Q. Qed.
End Differ.
