(* C14: the breadth-first rescan of change_loop (model/Watch.v `rescan`) reaches EVERY level of a directory
   that (re)appears: the fuel `S (length t + length t)` used by process_event_gen is adequate for every
   tree without duplicate entries.  Potential argument: todo items + directory entries strictly below
   them; a popped directory hands its potential to its child directories, which are pairwise
   incomparable (two children of d that both lie on the way to the same entry are equal). *)
From Coq Require Import List NArith Bool Lia Arith.
From SV Require Import lib.Bytes gen.GenWatch model.Watch proofs.WatchProofs.
Import ListNotations.
Open Scope N_scope.

(* ------------------------------------------------------------------------------------------ *)
(* counting                                                                                    *)
(* ------------------------------------------------------------------------------------------ *)

Definition b2n (b : bool) : nat := if b then 1%nat else 0%nat.

Lemma list_sum_cons a l : list_sum (a :: l) = (a + list_sum l)%nat.
Proof. reflexivity. Qed.

Lemma length_filter_sum {A} (P : A -> bool) l :
  length (filter P l) = list_sum (map (fun a => b2n (P a)) l).
Proof.
  induction l as [|a l IH]; [reflexivity|]. cbn [filter map]. rewrite list_sum_cons, <- IH.
  destruct (P a); reflexivity.
Qed.

Lemma list_sum_plus {A} (f g : A -> nat) l :
  list_sum (map (fun a => (f a + g a)%nat) l) = (list_sum (map f l) + list_sum (map g l))%nat.
Proof. induction l as [|a l IH]; [reflexivity|]. cbn [map]. rewrite !list_sum_cons, IH. lia. Qed.

Lemma list_sum_le {A} (f g : A -> nat) l :
  (forall a, In a l -> (f a <= g a)%nat) -> (list_sum (map f l) <= list_sum (map g l))%nat.
Proof.
  induction l as [|a l IH]; intros H; [cbn; lia|]. cbn [map]. rewrite !list_sum_cons.
  pose proof (H a (or_introl eq_refl)). assert (list_sum (map f l) <= list_sum (map g l))%nat.
  { apply IH. intros; apply H; right; assumption. } lia.
Qed.

Lemma count_swap {A B} (R : A -> B -> bool) la lb :
  list_sum (map (fun a => length (filter (R a) lb)) la)
  = list_sum (map (fun b => length (filter (fun a => R a b) la)) lb).
Proof.
  induction la as [|a la IH]; cbn [map filter].
  - induction lb as [|b lb IHb]; [reflexivity|]. cbn [map]. rewrite list_sum_cons, <- IHb. reflexivity.
  - rewrite list_sum_cons, IH. rewrite length_filter_sum.
    rewrite <- list_sum_plus. f_equal. apply map_ext. intros b. destruct (R a b); reflexivity.
Qed.

Lemma filter_le1 {A} (P : A -> bool) l :
  NoDup l -> (forall a b, In a l -> In b l -> P a = true -> P b = true -> a = b) ->
  (length (filter P l) <= 1)%nat.
Proof.
  induction l as [|a l IH]; intros ND H; cbn; [lia|].
  inversion ND as [|? ? Hnot ND']; subst.
  destruct (P a) eqn:Pa; cbn.
  - assert (E : filter P l = []).
    { destruct (filter P l) as [|b r] eqn:F; [reflexivity|]. exfalso.
      assert (Hb : In b (filter P l)) by (rewrite F; left; reflexivity).
      apply filter_In in Hb as [Hb Pb].
      assert (a = b) by (apply H; [left; reflexivity | right; exact Hb | exact Pa | exact Pb]).
      subst. contradiction. }
    rewrite E. cbn. lia.
  - apply IH; [exact ND'|]. intros x y Hx Hy. apply H; right; assumption.
Qed.

Lemma nodup_map_filter {A B} (h : A -> B) (P : A -> bool) l :
  NoDup (map h l) -> NoDup (map h (filter P l)).
Proof.
  induction l as [|a l IH]; intros ND; cbn; [constructor|].
  inversion ND as [|? ? Hnot ND']; subst. destruct (P a); cbn; [|apply IH; exact ND'].
  constructor; [|apply IH; exact ND'].
  intros Hin. apply Hnot. apply in_map_iff in Hin as [x [Ex Hx]]. apply filter_In in Hx as [Hx _].
  rewrite <- Ex. apply in_map. exact Hx.
Qed.

Lemma nodup_filter' {A} (P : A -> bool) l : NoDup l -> NoDup (filter P l).
Proof.
  induction l as [|a l IH]; intros ND; cbn; [constructor|].
  inversion ND as [|? ? Hnot ND']; subst. destruct (P a); [|apply IH; exact ND'].
  constructor; [|apply IH; exact ND']. intros Hin. apply filter_In in Hin as [Hin _]. contradiction.
Qed.

(* ------------------------------------------------------------------------------------------ *)
(* paths                                                                                       *)
(* ------------------------------------------------------------------------------------------ *)

(* c is p or an ancestor directory of p *)
Definition anc_eq (c p : path) : bool := str_eqb c p || is_prefix (c ++ [SLASH]) p.

Lemma is_prefix_longer (c : path) x : is_prefix (c ++ [x]) c = false.
Proof.
  destruct (is_prefix (c ++ [x]) c) eqn:E; [|reflexivity].
  apply is_prefix_spec in E as [r E]. apply (f_equal (@length N)) in E.
  rewrite !app_length in E. cbn in E. lia.
Qed.

Definition slash_free (x : path) : Prop := existsb (N.eqb SLASH) x = false.
Definition nil_or_slash (s : path) : Prop := s = [] \/ exists r, s = SLASH :: r.

Lemma split_at_slash x1 : forall x2 s1 s2,
  slash_free x1 -> slash_free x2 -> nil_or_slash s1 -> nil_or_slash s2 ->
  x1 ++ s1 = x2 ++ s2 -> x1 = x2.
Proof.
  unfold slash_free, nil_or_slash.
  induction x1 as [|a x1 IH]; intros x2 s1 s2 F1 F2 N1 N2 E; destruct x2 as [|b x2]; cbn [app existsb] in *.
  - reflexivity.
  - exfalso. apply orb_false_iff in F2 as [Fb _].
    destruct N1 as [->|[r ->]]; [discriminate|]. inversion E; subst. rewrite N.eqb_refl in Fb. discriminate.
  - exfalso. apply orb_false_iff in F1 as [Fa _].
    destruct N2 as [->|[r ->]]; [discriminate|]. inversion E; subst. rewrite N.eqb_refl in Fa. discriminate.
  - apply orb_false_iff in F1 as [_ F1]. apply orb_false_iff in F2 as [_ F2].
    inversion E; subst. f_equal. apply (IH x2 s1 s2); assumption.
Qed.

Lemma child_form d c :
  is_child d c = true -> exists x, c = (d ++ [SLASH]) ++ x /\ slash_free x.
Proof.
  unfold is_child. intros H. apply andb_true_iff in H as [H _]. apply andb_true_iff in H as [H1 H2].
  apply is_prefix_spec in H1 as [x Hx]. exists x. split; [exact Hx|].
  unfold slash_free. subst c. apply negb_true_iff in H2.
  assert (L : (length d + 1)%nat = length (d ++ [SLASH])) by (rewrite app_length; reflexivity).
  rewrite L, skipn_app, skipn_all, Nat.sub_diag in H2. cbn in H2. exact H2.
Qed.

Lemma anc_eq_form c p : anc_eq c p = true -> exists s, p = c ++ s /\ nil_or_slash s.
Proof.
  unfold anc_eq. intros H. apply orb_true_iff in H as [H|H].
  - apply str_eqb_eq in H. subst. exists []. split; [symmetry; apply app_nil_r | left; reflexivity].
  - apply is_prefix_spec in H as [r ->]. exists (SLASH :: r). split.
    + rewrite <- app_assoc. reflexivity.
    + right. exists r. reflexivity.
Qed.

Lemma child_cover_unique d c1 c2 p :
  is_child d c1 = true -> is_child d c2 = true -> anc_eq c1 p = true -> anc_eq c2 p = true -> c1 = c2.
Proof.
  intros C1 C2 A1 A2.
  destruct (child_form d c1 C1) as [x1 [-> F1]]. destruct (child_form d c2 C2) as [x2 [-> F2]].
  destruct (anc_eq_form _ _ A1) as [s1 [E1 N1]]. destruct (anc_eq_form _ _ A2) as [s2 [E2 N2]].
  rewrite E1 in E2. rewrite <- !app_assoc in E2. apply app_inv_head in E2. cbn [app] in E2.
  inversion E2 as [E]. f_equal. apply (split_at_slash x1 x2 s1 s2); assumption.
Qed.

Lemma child_cover_under d c p :
  is_child d c = true -> anc_eq c p = true -> is_prefix (d ++ [SLASH]) p = true.
Proof.
  intros C A. destruct (child_form d c C) as [x [-> _]]. destruct (anc_eq_form _ _ A) as [s [-> _]].
  rewrite <- app_assoc. apply is_prefix_app.
Qed.

(* ------------------------------------------------------------------------------------------ *)
(* the potential                                                                               *)
(* ------------------------------------------------------------------------------------------ *)

Definition cover (c : path) (e : path * bool) : bool := snd e && anc_eq c (fst e).
Definition below (d : path) (e : path * bool) : bool := snd e && is_prefix (d ++ [SLASH]) (fst e).
Definition wt (t : tree) (c : path) : nat := length (filter (cover c) t).
Definition sub (t : tree) (d : path) : nat := length (filter (below d) t).
Definition pot (t : tree) (todo : list path) : nat := list_sum (map (fun d => S (sub t d)) todo).
Definition child_dirs (t : tree) (d : path) : list path := filter (t_is_dir t) (t_children t d).

Lemma pot_app t a b : pot t (a ++ b) = (pot t a + pot t b)%nat.
Proof. unfold pot. rewrite map_app, list_sum_app. reflexivity. Qed.

Lemma sub_le_length t d : (sub t d <= length t)%nat.
Proof.
  unfold sub. induction t as [|e t IH]; cbn [filter length]; [lia|]. destruct (below d e); cbn [length]; lia.
Qed.

Lemma below_cover c e : below c e = true -> cover c e = true.
Proof.
  unfold below, cover, anc_eq. intros H. apply andb_true_iff in H as [-> ->]. rewrite orb_true_r. reflexivity.
Qed.

Lemma filter_length_mono {A} (P Q : A -> bool) l :
  (forall a, P a = true -> Q a = true) -> (length (filter P l) <= length (filter Q l))%nat.
Proof.
  intros H. induction l as [|a l IH]; cbn [filter]; [lia|].
  destruct (P a) eqn:Pa; [rewrite (H a Pa); cbn [length]; lia|].
  destruct (Q a); cbn [length]; lia.
Qed.

Lemma wt_ge t c : t_is_dir t c = true -> (S (sub t c) <= wt t c)%nat.
Proof.
  unfold wt, sub, t_is_dir. induction t as [|e t IH]; intros H; [discriminate|].
  cbn [existsb] in H. cbn [filter].
  pose proof (filter_length_mono (below c) (cover c) t (below_cover c)) as M.
  apply orb_true_iff in H as [Own|H].
  - destruct e as [p b]. cbn [fst snd] in Own. apply andb_true_iff in Own as [E S]. apply str_eqb_eq in E. subst p b.
    assert (B : below c (c, true) = false) by (unfold below; cbn [fst snd andb]; apply is_prefix_longer).
    assert (C : cover c (c, true) = true) by (unfold cover, anc_eq; cbn [fst snd andb]; rewrite str_eqb_refl; reflexivity).
    rewrite B, C. cbn [length]. lia.
  - specialize (IH H).
    destruct (below c e) eqn:B; [rewrite (below_cover c e B); cbn [length]; lia|].
    destruct (cover c e); cbn [length]; lia.
Qed.

Lemma child_dirs_spec t d c : In c (child_dirs t d) -> is_child d c = true /\ t_is_dir t c = true.
Proof.
  unfold child_dirs, t_children. intros H. apply filter_In in H as [H1 H2]. split; [|exact H2].
  apply in_map_iff in H1 as [e [<- He]]. apply filter_In in He as [_ He]. exact He.
Qed.

Lemma child_dirs_nodup t d : NoDup (map fst t) -> NoDup (child_dirs t d).
Proof. intros ND. unfold child_dirs, t_children. apply nodup_filter'. apply nodup_map_filter. exact ND. Qed.

(* a popped directory pays for all its child directories *)
Lemma step_pot t d : NoDup (map fst t) -> (pot t (child_dirs t d) <= sub t d)%nat.
Proof.
  intros ND. unfold pot.
  apply Nat.le_trans with (list_sum (map (wt t) (child_dirs t d))).
  { apply list_sum_le. intros c Hc. apply wt_ge. apply (child_dirs_spec t d c Hc). }
  unfold wt. rewrite count_swap. unfold sub. rewrite length_filter_sum.
  apply list_sum_le. intros e He.
  destruct (below d e) eqn:B; cbn [b2n].
  - apply filter_le1; [apply child_dirs_nodup; exact ND|].
    intros a b Ha Hb Ca Cb. unfold cover in Ca, Cb.
    apply andb_true_iff in Ca as [_ Ca]. apply andb_true_iff in Cb as [_ Cb].
    apply (child_cover_unique d a b (fst e)); try assumption.
    + apply (child_dirs_spec t d a Ha).
    + apply (child_dirs_spec t d b Hb).
  - assert (E : filter (fun a => cover a e) (child_dirs t d) = []).
    { destruct (filter (fun a => cover a e) (child_dirs t d)) as [|c r] eqn:F; [reflexivity|]. exfalso.
      assert (Hc : In c (filter (fun a => cover a e) (child_dirs t d))) by (rewrite F; left; reflexivity).
      apply filter_In in Hc as [Hc Cc]. unfold cover in Cc. apply andb_true_iff in Cc as [S Cc].
      unfold below in B. rewrite S in B. cbn in B.
      rewrite (child_cover_under d c (fst e) (proj1 (child_dirs_spec t d c Hc)) Cc) in B. discriminate. }
    rewrite E. cbn. lia.
Qed.

(* ------------------------------------------------------------------------------------------ *)
(* what the rescan reaches                                                                     *)
(* ------------------------------------------------------------------------------------------ *)

Definition is_key (w : watches) (p : path) : bool := match w_get w p with Some _ => true | None => false end.

Lemma is_key_set w d v x : is_key w d = true -> is_key (w_set w d v) x = is_key w x.
Proof.
  unfold is_key. intros K. destruct (str_eqb d x) eqn:E.
  - apply str_eqb_eq in E. subst x. rewrite w_get_set_same. exact (eq_sym K).
  - rewrite w_get_set_other by exact E. reflexivity.
Qed.

(* x is d or a directory below d such that every directory from d down to x is a key of `watches`
   (installed or pending) -- the directories the loop `while len(paths) > 0` of change_loop descends into *)
Inductive reach (t : tree) (K : path -> bool) : path -> path -> Prop :=
| reach_here d : K d = true -> reach t K d d
| reach_step d c x : K d = true -> In c (child_dirs t d) -> reach t K c x -> reach t K d x.

Lemma reach_key t K d x : reach t K d x -> K d = true.
Proof. intros H. destruct H; assumption. Qed.

Definition covered (self : bool) (t : tree) (r : watches * list item) (x : path) : Prop :=
  w_get (fst r) x = Some true /\
  (forall y, t_is_file t y = true -> is_child x y = true -> In (mk_item Updated y false) (snd r)) /\
  (self = true -> In (mk_item Updated (dir_label x) false) (snd r)).

Lemma file_child_in t x y :
  t_is_file t y = true -> is_child x y = true -> In y (filter (t_is_file t) (t_children t x)).
Proof.
  intros Hf Hc. apply filter_In. split; [|exact Hf].
  unfold t_is_file in Hf. apply existsb_exists in Hf as [e [He Hx]].
  apply andb_true_iff in Hx as [Hx _]. apply str_eqb_eq in Hx. subst y.
  unfold t_children. apply in_map. apply filter_In. split; assumption.
Qed.

Lemma rescan_deep self t (K : path -> bool) :
  NoDup (map fst t) ->
  forall fuel w todo,
    (forall x, is_key w x = K x) ->
    (pot t todo <= fuel)%nat ->
    (forall x, is_key (fst (rescan fuel self t w todo)) x = K x) /\
    forall d x, In d todo -> reach t K d x -> covered self t (rescan fuel self t w todo) x.
Proof.
  intros ND. induction fuel as [|f IH]; intros w todo HK HP.
  - destruct todo as [|d rest]; [|unfold pot in HP; cbn [map] in HP; rewrite list_sum_cons in HP; lia]. cbn [rescan fst]. split; [exact HK|]. intros d x [].
  - destruct todo as [|d0 rest]; [cbn [rescan fst]; split; [exact HK | intros d x []]|].
    cbn [rescan]. unfold pot in HP. cbn [map] in HP. rewrite list_sum_cons in HP. fold (pot t rest) in HP.
    destruct (w_get w d0) as [inst|] eqn:G.
    + set (w1 := if inst then w else w_set w d0 true).
      assert (K0 : is_key w d0 = true) by (unfold is_key; rewrite G; reflexivity).
      assert (HK1 : forall x, is_key w1 x = K x).
      { intros x. subst w1. destruct inst; [apply HK|]. rewrite is_key_set by exact K0. apply HK. }
      assert (G1 : w_get w1 d0 = Some true).
      { subst w1. destruct inst; [exact G | apply w_get_set_same]. }
      fold (child_dirs t d0).
      assert (HP1 : (pot t (rest ++ child_dirs t d0) <= f)%nat).
      { rewrite pot_app. pose proof (step_pot t d0 ND). lia. }
      destruct (IH w1 (rest ++ child_dirs t d0) HK1 HP1) as [KA CA].
      cbn [fst snd]. split; [exact KA|].
      intros d x Hd R. unfold covered. cbn [fst snd].
      assert (Lift : covered self t (rescan f self t w1 (rest ++ child_dirs t d0)) x ->
                     w_get (fst (rescan f self t w1 (rest ++ child_dirs t d0))) x = Some true /\
                     (forall y, t_is_file t y = true -> is_child x y = true ->
                        In (mk_item Updated y false)
                           ((if self then [mk_item Updated (dir_label d0) false] else []) ++
                            map (fun q => mk_item Updated q false) (filter (t_is_file t) (t_children t d0)) ++
                            snd (rescan f self t w1 (rest ++ child_dirs t d0)))) /\
                     (self = true ->
                        In (mk_item Updated (dir_label x) false)
                           ((if self then [mk_item Updated (dir_label d0) false] else []) ++
                            map (fun q => mk_item Updated q false) (filter (t_is_file t) (t_children t d0)) ++
                            snd (rescan f self t w1 (rest ++ child_dirs t d0))))).
      { intros [A [B C]]. split; [exact A|]. split.
        - intros y Hf Hc. apply in_or_app. right. apply in_or_app. right. exact (B y Hf Hc).
        - intros Hs. apply in_or_app. right. apply in_or_app. right. exact (C Hs). }
      destruct Hd as [<-|Hd].
      * inversion R as [d' Kd | d' c x' Kd Hc Rc]; subst.
        -- split; [apply rescan_keeps_installed; exact G1|]. split.
           ++ intros y Hf Hc. apply in_or_app. right. apply in_or_app. left.
              apply (in_map (fun q => mk_item Updated q false)). apply file_child_in; assumption.
           ++ intros ->. left. reflexivity.
        -- apply Lift. apply (CA c x); [apply in_or_app; right; exact Hc | exact Rc].
      * apply Lift. apply (CA d x); [apply in_or_app; left; exact Hd | exact R].
    + assert (HP1 : (pot t rest <= f)%nat) by lia.
      destruct (IH w rest HK HP1) as [KA CA]. cbn [fst snd]. split; [exact KA|].
      intros d x Hd R. destruct Hd as [<-|Hd].
      * exfalso. apply reach_key in R. rewrite <- HK in R. unfold is_key in R. rewrite G in R. discriminate.
      * destruct (CA d x Hd R) as [A [B C]]. unfold covered. cbn [fst snd]. split; [exact A|]. split.
        -- intros y Hf Hc. apply in_or_app. right. exact (B y Hf Hc).
        -- intros Hs. apply in_or_app. right. exact (C Hs).
Qed.

(* The fuel process_event_gen hands to the rescan is adequate: a directory that appears (created or moved
   in) is scanned to every depth that `watches` asks for. *)
Theorem appeared_dir_all_levels_covered self t w d m :
  NoDup (map fst t) -> created_mask m ->
  forall x, reach t (is_key w) d x ->
    covered self t (process_event_gen self t w (mk_event m d)) x.
Proof.
  intros ND Hm x R. unfold process_event_gen. cbn [ev_mask ev_path].
  assert (Hbits : has_bit m M_IGNORED = false /\ has_bit m M_ISDIR = true /\ is_deleted_mask m = false).
  { destruct Hm as [-> | ->]; vm_compute; repeat split; reflexivity. }
  destruct Hbits as [-> [-> ->]].
  refine (proj2 (rescan_deep self t (is_key w) ND (S (length t + length t)) w [d] (fun _ => eq_refl) _) d x
                (or_introl eq_refl) R).
  unfold pot. cbn [map]. rewrite list_sum_cons. cbn [list_sum fold_right]. pose proof (sub_le_length t d). lia.
Qed.

(* and the keys of `watches` are unchanged by it (it only installs) *)
Theorem appeared_dir_keys_unchanged self t w d m :
  NoDup (map fst t) -> created_mask m ->
  forall x, is_key (fst (process_event_gen self t w (mk_event m d))) x = is_key w x.
Proof.
  intros ND Hm x. unfold process_event_gen. cbn [ev_mask ev_path].
  assert (Hbits : has_bit m M_IGNORED = false /\ has_bit m M_ISDIR = true /\ is_deleted_mask m = false).
  { destruct Hm as [-> | ->]; vm_compute; repeat split; reflexivity. }
  destruct Hbits as [-> [-> ->]].
  refine (proj1 (rescan_deep self t (is_key w) ND (S (length t + length t)) w [d] (fun _ => eq_refl) _) x).
  unfold pot. cbn [map]. rewrite list_sum_cons. cbn [list_sum fold_right]. pose proof (sub_le_length t d). lia.
Qed.

(* non-vacuity: three levels, all keys (two pending), files at every level *)
Definition deep_t : tree :=
  [([100], true); ([100;47;102], false); ([100;47;101], true); ([100;47;101;47;103], false);
   ([100;47;101;47;104], true); ([100;47;101;47;104;47;105], false)].   (* d, d/f, d/e, d/e/g, d/e/h, d/e/h/i *)
Definition deep_w : watches := [([46], true); ([100], false); ([100;47;101], false); ([100;47;101;47;104], true)].

Lemma deep_reach : reach deep_t (is_key deep_w) [100] [100;47;101;47;104].
Proof.
  apply reach_step with (c := [100;47;101]); [reflexivity | vm_compute; left; reflexivity|].
  apply reach_step with (c := [100;47;101;47;104]); [reflexivity | vm_compute; left; reflexivity|].
  apply reach_here. reflexivity.
Qed.
